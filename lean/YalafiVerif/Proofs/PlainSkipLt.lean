/-
  Proofs/PlainSkipLt.lean — C03 "nothing from `\LTskip` arguments … appears" and the two companions
  `\LTadd{a}` (the argument is ADDED to the text although LaTeX does not typeset it) and
  `\LTalter{a}{b}` (LaTeX shows `a`, the filter takes `b`), end to end on the model, for documents
  that consist of inert text (as in Proofs/PlainUnknown.lean) and calls `\name{a1}…{an}` of
  PROJECTION MACROS: declared macros with `n ≥ 1` mandatory arguments, no handler, no extraction,
  whose replacement is empty (`\LTskip`: args `A`, repl `''`) or exactly one parameter reference
  `#k` (`\LTadd`: args `A`, repl `#1`; `\LTalter`: args `AA`, repl `#2`; the tables of /repo declare
  many more macros of this shape, e.g. `\emph`, `\textbf`, `\mbox`: the theorem covers them too).

  What the model does with such a call (found with `#eval`, then proved; `yalafi/parser.py`,
  `expand_macro` → `expand_arguments` → `generate_replacements`): the brace groups are collected;
  the call is replaced by an Action token at the backslash and the replacement in which `#k` is the
  token list of the k-th argument BETWEEN TWO MORE Action tokens (at the first and at the last token
  of the argument); these tokens are pushed back and copied by the main loop.  So
    `\LTskip{a}`      leaves ONE mark and no character,
    `\LTadd{a}`       leaves a mark, a mark, the characters of `a` AT THEIR OWN POSITIONS, a mark,
    `\LTalter{a}{b}`  leaves a mark, a mark, the characters of `b` at their own positions, a mark —
                      no character of `a`,
  and `remove_pure_action_lines` then deletes every line that consists of white space only and
  holds at least one mark (`PlainMacro.delLines`): a line with only `\LTskip{…}` disappears with its
  line break; so does a line `\LTadd{ }`.

  Documents
    `Seg`, `render`            text | `.call name [a1,…,an] ↦ \name{a1}…{an}`;
                               `ltSkip a`, `ltAdd a`, `ltAlter a b` are the three calls of the title
    `selOf st name`            the index `k` of the argument that is output (`none`: nothing)
    `callMarks`, `marks`       the reference: the source as a list of `Mark`s
    `projDeclOk`, `callOk`, `segsOk`, `SegsOk`   the side conditions (computable)
  Expander level
    `expandMacro_proj`, `seq_call_step`, `Piece`, `PiecesOk`, `outP`, `cost`, `seq_call`
  Source level
    `OkSrc`, `call_sem`, `scanSteps_call`, `scan_call`, `parserWork_call`, `parse_call`,
    `tex2txt_call_src`, `tex2txt_ltmacros`
  Readings
    `callMarks_none`, `callMarks_first`, `callMarks_second`    the marks of the three LT calls
    `hidden`, `marks_pos_outside`    no output position lies in the hidden part of a call (the name,
                               the braces, and every argument but the selected one)

  The end-to-end statement `tex2txt_ltmacros`.  `tex2txt` succeeds; text and (1-based) positions are
  `delLines (marks st1 0 segs)`; `unknowns = []`; no diagnostic is added.

  Side conditions (all in `SegsOk T st1 segs`, decidable; `st1` = state after `Parser.__init__`)
    `noEmptyActive T st1`      the empty string is no "active character" (else the text-less Action
                               tokens would go to `expand_short_macro`); real tables: yes
    text segments              `textOk` of Proofs/PlainUnknown.lean: inert in their right context
    calls (`callOk`)           * `\name` is scanned as one macro token: `name` is a non-empty string of
                                 ASCII letters / `@`, no special sequence of the tables matches at the
                                 backslash, none of `\begin \end \item \verb \def`, no accent macro;
                               * `\name` is declared in `st1` with `projDeclOk`: argument codes `A…A`
                                 (at least one), no handler, no extraction text, the replacement is
                                 empty or one reference `#k` with `1 ≤ k ≤ n`; the call has exactly
                                 `n` brace groups (further groups would be copied as ordinary groups,
                                 fewer would make `expand_arguments` take the following text);
                               * the groups stand directly behind the name and behind each other, the
                                 braces are scanned as `{` / `}`; every argument is a non-empty string
                                 of `inertChar`s (never active, white space or no structural character
                                 `% # \ $ { }` and no start of a special sequence; blanks and line
                                 breaks allowed) — `argsOk` of Proofs/PlainMacroArgs.lean
    options                    no --defs, --extr, --repl, --unkn; single-language mode
    fuel                       `(render segs).length + 2 ≤ fuel`

  NOT covered: empty arguments `\LTadd{}` (collected as a void token; the model gives the expected
  result, `#eval`); arguments with macros, maths, braces, comments (e.g. `\LTadd{\emph{x}}`); white
  space between the name and `{` or between groups; unbraced arguments; `--nosp` (which redeclares
  the three macros: `\LTadd` drops, `\LTalter` takes `#1`, `\LTskip` shows its argument — the theorem
  applies to that state as well, with the roles exchanged, but no instance is given).
-/
import YalafiVerif.Proofs.PlainMacroArgs
import YalafiVerif.Proofs.PlainVanish
namespace Yalafi
namespace PlainSkipLt

open M
open PlainMacro (lbr rbr NoBrace restamp Mark marksOf tokMarks charsOf delLines Simple Shape braceAt
  nextToken_brace scanSteps_step skipSpaceStopLang_cons_of_not PassTok_congr simple_mkAction
  simple_of_plain marksOf_cons marksOf_append tokMarks_mkAction tokMarks_nonaction tokChars_nofix
  removeLines_simple getTxtPos_charsOf)
open PlainMacroArgs (Group groupsFlat GroupOk GroupGood groupsFlat_append collectArgs_groups argAt
  headPos lastPos genCur genOut RefsOk genRepl_eq CopyTok seq_copy_run argsStr argsLen argSpans spanAt
  argMarks argsOk GroupsLink scanSteps_args ArgsRun argsStr_length groupsLink_ne groupsLink_length
  argsSem_of_link ArgsSem ArgFacts marksOf_plain bodyTxt_of_chars)

/-! ### the declaration of a projection macro -/

/-- the index of the argument a replacement outputs: `[#k] ↦ some k`, everything else `none` -/
def selRepl : List Tok → Option Nat
  | [t] => argRef t
  | _ => none

/-- a projection macro: `n ≥ 1` mandatory arguments, no handler, no extraction; the replacement is
    empty or one reference `#k`, `1 ≤ k ≤ n` -/
def projDeclOk (m : MacroDef) : Bool :=
  m.args == List.replicate m.args.length 'A' && decide (1 ≤ m.args.length) &&
  m.handler == .none && m.extract.isEmpty &&
  (match m.repl with
   | [] => true
   | [t] => (match argRef t with
             | some k => decide (1 ≤ k) && decide (k ≤ m.args.length)
             | none => false)
   | _ => false)

structure ProjDecl (m : MacroDef) : Prop where
  args : m.args = List.replicate m.args.length 'A'
  pos : 1 ≤ m.args.length
  handler : m.handler = .none
  extract : m.extract = []
  repl : m.repl = [] ∨ ∃ t k, m.repl = [t] ∧ argRef t = some k ∧ 1 ≤ k ∧ k ≤ m.args.length

theorem projDecl {m : MacroDef} (h : projDeclOk m = true) : ProjDecl m := by
  simp only [projDeclOk, Bool.and_eq_true, beq_iff_eq, List.isEmpty_iff, decide_eq_true_eq] at h
  obtain ⟨⟨⟨⟨h1, h2⟩, h3⟩, h4⟩, h5⟩ := h
  refine ⟨h1, h2, h3, h4, ?_⟩
  split at h5
  · exact Or.inl ‹_›
  · rename_i t ht
    split at h5
    · rename_i k hk
      simp only [Bool.and_eq_true, decide_eq_true_eq] at h5
      exact Or.inr ⟨t, k, ht, hk, h5.1, h5.2⟩
    · cases h5
  · cases h5

theorem ProjDecl.refs {m : MacroDef} (h : ProjDecl m) : RefsOk m.args.length m.repl := by
  rcases h.repl with h0 | ⟨t, k, ht, hk, h1, h2⟩
  · rw [h0]; intro x hx; simp at hx
  · rw [ht]
    intro x hx k' hk'
    simp only [List.mem_singleton] at hx
    subst hx
    rw [hk] at hk'; cases hk'
    exact ⟨h1, h2⟩

/-- what `generate_replacements` inserts for a projection: nothing, or the selected argument between
    two Action tokens -/
def callOut (sel : Option Nat) (A : List (List Tok)) : List Tok :=
  match sel with
  | none => []
  | some k => mkAction (headPos (argAt A k)) :: (argAt A k ++ [mkAction (lastPos (argAt A k))])

theorem genOut_proj {m : MacroDef} (h : ProjDecl m) (A : List (List Tok)) (p : Nat) :
    genOut A m.repl (genCur A m.repl p) = callOut (selRepl m.repl) A := by
  rcases h.repl with h0 | ⟨t, k, ht, hk, _, _⟩
  · rw [h0]; rfl
  · rw [ht]
    simp only [genOut, hk, selRepl, callOut]

/-! ### the call step -/

/-- **the call step of `expandMacro`**: a declared macro with the signature `A…A` in front of as many
    brace groups returns an Action token and the replacement with the arguments substituted; the
    buffer continues behind the last group; the state is unchanged -/
theorem expandMacro_proj (T : PTables) (fuel : Nat) (gs : List Group) (rest : Buf) (tok : Tok)
    (st : PState) (mac : MacroDef)
    (hl : lookupMacro st tok.txt = some mac) (hargs : mac.args = List.replicate gs.length 'A')
    (hh : mac.handler = .none) (he : mac.extract = []) (hne : gs ≠ [])
    (hg : ∀ g ∈ gs, GroupOk g) (hr : RefsOk gs.length mac.repl) :
    expandMacro T (fuel + 2) (groupsFlat gs ++ rest) tok false st
      = .ok ((mkAction tok.pos ::
                genOut (gs.map (·.toks)) mac.repl (genCur (gs.map (·.toks)) mac.repl tok.pos),
              rest), st) := by
  have hskip : skipSpaceStopLangAct (groupsFlat gs ++ rest) = groupsFlat gs ++ rest := by
    cases gs with
    | nil => exact absurd rfl hne
    | cons g gs' => exact skipSpaceStopLang_cons_of_not _ _ (rfl : isSpaceTok (lbr g.p) = false)
  have hc := collectArgs_groups T mac rest st gs 0 tok.pos {} hg
  rw [expandMacro.eq_2]
  refine (M.bind_ok _ _ _ _ _ (rfl : M.get st = _)).trans ?_
  simp only [hl, hskip]
  rw [expandArguments.eq_2, hargs]
  refine (M.bind_ok _ _ _ _ _ hc).trans ?_
  have hne' : ∀ a ∈ gs.map (·.toks), a ≠ [] := by
    intro a ha
    obtain ⟨g, hg', rfl⟩ := List.mem_map.mp ha
    exact (hg g hg').1
  have hr' : RefsOk (gs.map (·.toks)).length mac.repl := by
    rw [List.length_map]; exact hr
  have hgen := genRepl_eq (gs.map (·.toks)) hne' mac.repl tok.pos hr'
  simp only [he, hh, List.isEmpty_nil, Bool.not_true, Bool.false_eq_true, if_false,
    show (Handler.none != Handler.none) = false by decide, List.nil_append, hgen, List.append_nil]
  rfl

/-- the name of a projection macro with `n` parameters in `st` -/
def CallName (st : PState) (name : Str) (n : Nat) : Prop :=
  ('\\' :: name) ≠ sDef ∧
  ∃ m, lookupMacro st ('\\' :: name) = some m ∧ projDeclOk m = true ∧ m.args.length = n

/-- the index of the argument that `\name` outputs in `st` (`none`: nothing) -/
def selOf (st : PState) (name : Str) : Option Nat :=
  match lookupMacro st ('\\' :: name) with
  | some m => selRepl m.repl
  | none => none

theorem callOut_copy (T : PTables) (st : PState) (sel : Option Nat) (gs : List Group)
    (hg : ∀ g ∈ gs, GroupGood T st g) : ∀ t ∈ callOut sel (gs.map (·.toks)), CopyTok T st t := by
  intro t ht
  cases sel with
  | none => simp [callOut] at ht
  | some k =>
    simp only [callOut, List.mem_cons, List.mem_append, List.not_mem_nil, or_false] at ht
    rcases ht with rfl | ht | rfl
    · exact Or.inl ⟨_, rfl⟩
    · rcases PlainMacroArgs.argAt_mem_or_nil (gs.map (·.toks)) k with hm | hm
      · obtain ⟨g, hg', e⟩ := List.mem_map.mp hm
        rw [← e] at ht
        exact Or.inr ((hg g hg').2 t ht)
      · rw [hm] at ht; simp at ht
    · exact Or.inl ⟨_, rfl⟩

/-- **the call step of `expandSequence`**: the macro token, then the Action token and the tokens of
    the replacement, which are copied; the state is unchanged.  One unit of fuel must remain. -/
theorem seq_call_step (T : PTables) (fuel : Nat) (p : Nat) (name : Str) (gs : List Group)
    (rest : Buf) (envStop : Option Str) (out : List Tok) (st : PState)
    (hn : CallName st name gs.length) (ha : noEmptyActive T st = true)
    (hne : gs ≠ []) (hg : ∀ g ∈ gs, GroupGood T st g) :
    expandSequence T (fuel + 1 + (2 + (callOut (selOf st name) (gs.map (·.toks))).length))
        (cwTok p name :: (groupsFlat gs ++ rest)) envStop out st
      = expandSequence T (fuel + 1) rest envStop
          (out ++ mkAction p :: callOut (selOf st name) (gs.map (·.toks))) st := by
  obtain ⟨hnd, m, hm, hmd, hlen⟩ := hn
  have D := projDecl hmd
  have hsel : selOf st name = selRepl m.repl := by simp [selOf, hm]
  rw [hsel]
  generalize hG : callOut (selRepl m.repl) (gs.map (·.toks)) = G
  have hk : (cwTok p name).kind = .xmacro := rfl
  have hd : txtIs (cwTok p name) "\\def" = false := by
    simpa [txtIs, cwTok, sDef] using hnd
  have hf : fuel + 1 + (2 + G.length) = (fuel + G.length) + 2 + 1 := by omega
  rw [hf, expandSequence.eq_3]
  show M.bind' M.get _ st = _
  simp only [M.bind', M.get]
  simp only [hk, hd, Bool.false_eq_true, if_false, if_true, reduceCtorEq, beq_iff_eq, beq_self_eq_true]
  have hargs : m.args = List.replicate gs.length 'A' := by rw [← hlen]; exact D.args
  refine (M.bind_ok _ _ _ _ _ (expandMacro_proj T (fuel + G.length) gs rest (cwTok p name) st m hm hargs
    D.handler D.extract hne (fun x hx => (hg x hx).ok) (by rw [← hlen]; exact D.refs))).trans ?_
  simp only [show (cwTok p name).pos = p from rfl, genOut_proj D, hG]
  have hcopy : ∀ t ∈ mkAction p :: G, CopyTok T st t := by
    intro t ht
    rcases List.mem_cons.mp ht with rfl | ht
    · exact Or.inl ⟨_, rfl⟩
    · rw [← hG] at ht
      exact callOut_copy T st _ gs hg t ht
  have hf2 : fuel + G.length + 2 = (fuel + 1) + (mkAction p :: G).length := by
    simp only [List.length_cons]; omega
  rw [hf2, seq_copy_run T envStop st rest ha (mkAction p :: G) (fuel + 1) out hcopy]

/-! ### the token buffers -/

/-- the pieces of a token buffer: a token that is copied, a call `\name { a1 } … { an }` -/
inductive Piece where
  | tok (t : Tok)
  | call (p : Nat) (name : Str) (gs : List Group)

def Piece.toks : Piece → List Tok
  | .tok t => [t]
  | .call p name gs => cwTok p name :: groupsFlat gs

/-- the token buffer -/
def flat : List Piece → List Tok
  | [] => []
  | p :: ps => p.toks ++ flat ps

def PiecesOk (T : PTables) (st : PState) : List Piece → Prop
  | [] => True
  | .tok t :: rest => PlainTok t ∧ PassTok T st t (flat rest) ∧ PiecesOk T st rest
  | .call _ name gs :: rest =>
    CallName st name gs.length ∧ gs ≠ [] ∧ (∀ g ∈ gs, GroupGood T st g) ∧ PiecesOk T st rest

/-- what `expandSequence` emits for the pieces before the blank-line removal -/
def outP (st : PState) : List Piece → List Tok
  | [] => []
  | .tok t :: rest => t :: outP st rest
  | .call p name gs :: rest =>
    mkAction p :: (callOut (selOf st name) (gs.map (·.toks)) ++ outP st rest)

/-- iterations of `expandSequence` -/
def cost (st : PState) : List Piece → Nat
  | [] => 0
  | .tok _ :: rest => 1 + cost st rest
  | .call _ name gs :: rest => 2 + (callOut (selOf st name) (gs.map (·.toks))).length + cost st rest

/-- **the loop on a buffer of plain tokens and calls of projection macros.**  The output is the
    blank-line removal applied to `outP`; the state is unchanged. -/
theorem seq_call (T : PTables) (envStop : Option Str) (st : PState) (ha : noEmptyActive T st = true) :
    ∀ (ps : List Piece) (fuel : Nat) (out : List Tok),
      cost st ps + 1 ≤ fuel → PiecesOk T st ps →
      expandSequence T fuel (flat ps) envStop out st
        = match removeLines (out ++ outP st ps) with
          | some r => .ok ((r, []), st)
          | none => .outOfFuel := by
  intro ps
  induction ps with
  | nil =>
    intro fuel out hf _
    obtain ⟨f, rfl⟩ : ∃ f, fuel = f + 1 := ⟨fuel - 1, by omega⟩
    simp only [flat, outP, List.append_nil]
    rw [expandSequence.eq_2]
    cases removeLines out <;> rfl
  | cons pc ps ih =>
    intro fuel out hf hok
    cases pc with
    | tok t =>
      simp only [cost] at hf
      obtain ⟨f, rfl⟩ : ∃ f, fuel = f + 1 := ⟨fuel - 1, by omega⟩
      simp only [flat, Piece.toks, List.singleton_append]
      rw [seq_plain_step T f t (flat ps) envStop out st hok.1 hok.2.1,
        ih f (out ++ [t]) (by omega) hok.2.2]
      simp only [outP, List.append_assoc, List.singleton_append]
    | call p name gs =>
      obtain ⟨hn, hne, hg, hrest⟩ := hok
      simp only [cost] at hf
      obtain ⟨f, hf'⟩ : ∃ f, fuel = f + 1 + (2 + (callOut (selOf st name) (gs.map (·.toks))).length) :=
        ⟨fuel - 1 - (2 + (callOut (selOf st name) (gs.map (·.toks))).length), by omega⟩
      have hflat : flat (Piece.call p name gs :: ps) = cwTok p name :: (groupsFlat gs ++ flat ps) := by
        simp [flat, Piece.toks]
      rw [hflat, hf', seq_call_step T f p name gs (flat ps) envStop out st hn ha hne hg,
        ih (f + 1) _ (by omega) hrest]
      simp only [outP, List.append_assoc, List.cons_append]

theorem mem_groupsFlat {gs : List Group} {x : Tok} (h : x ∈ groupsFlat gs) :
    (∃ g ∈ gs, x = lbr g.p ∨ x ∈ g.toks ∨ x = rbr g.q) := by
  induction gs with
  | nil => simp [groupsFlat] at h
  | cons g gs ih =>
    simp only [groupsFlat, PlainMacroArgs.Group.flat, List.cons_append, List.append_assoc,
      List.mem_cons, List.mem_append, List.not_mem_nil, false_or] at h
    rcases h with h | h | h | h
    · exact ⟨g, List.mem_cons_self .., Or.inl h⟩
    · exact ⟨g, List.mem_cons_self .., Or.inr (Or.inl h)⟩
    · exact ⟨g, List.mem_cons_self .., Or.inr (Or.inr h)⟩
    · obtain ⟨g', hg', h'⟩ := ih h
      exact ⟨g', List.mem_cons_of_mem _ hg', h'⟩

theorem PiecesOk.notComment {T : PTables} {st : PState} : ∀ {ps : List Piece}, PiecesOk T st ps →
    ∀ t ∈ flat ps, t.kind ≠ .comment
  | [], _, _, h => by simp [flat] at h
  | .tok t :: rest, hok, x, hx => by
    simp only [flat, Piece.toks, List.singleton_append, List.mem_cons] at hx
    rcases hx with rfl | hx
    · exact hok.1.notComment
    · exact PiecesOk.notComment hok.2.2 x hx
  | .call p name gs :: rest, hok, x, hx => by
    obtain ⟨_, _, hg, hrest⟩ := hok
    simp only [flat, Piece.toks, List.cons_append, List.mem_cons, List.mem_append] at hx
    rcases hx with rfl | hx | hx
    · simp [cwTok]
    · obtain ⟨g, hg', h⟩ := mem_groupsFlat hx
      rcases h with rfl | h | rfl
      · simp [lbr]
      · exact ((hg g hg').2 x h).1.notComment
      · simp [rbr]
    · exact PiecesOk.notComment hrest x hx

theorem selOf_congr {st st' : PState} (hm : st'.macros = st.macros) (name : Str) :
    selOf st' name = selOf st name := by
  simp [selOf, lookupMacro, hm]

/-- the conditions depend on the state only through the language stack and the macro table -/
theorem PiecesOk.congr {T : PTables} {st st' : PState} (hl : st'.langStack = st.langStack)
    (hm : st'.macros = st.macros) : ∀ {ps : List Piece}, PiecesOk T st ps → PiecesOk T st' ps
  | [], _ => trivial
  | .tok t :: rest, h => ⟨h.1, PassTok_congr hl h.2.1, PiecesOk.congr hl hm h.2.2⟩
  | .call p name gs :: rest, h => by
    refine ⟨?_, h.2.1, fun g hg => (h.2.2.1 g hg).congr hl, PiecesOk.congr hl hm h.2.2.2⟩
    obtain ⟨h1, m, h2, h3⟩ := h.1
    exact ⟨h1, m, by simpa [lookupMacro, hm] using h2, h3⟩

theorem outP_congr {st st' : PState} (hm : st'.macros = st.macros) :
    ∀ ps : List Piece, outP st' ps = outP st ps
  | [] => rfl
  | .tok t :: rest => by simp only [outP, outP_congr hm rest]
  | .call p name gs :: rest => by simp only [outP, outP_congr hm rest, selOf_congr hm]

theorem cost_congr {st st' : PState} (hm : st'.macros = st.macros) :
    ∀ ps : List Piece, cost st' ps = cost st ps
  | [] => rfl
  | .tok t :: rest => by simp only [cost, cost_congr hm rest]
  | .call p name gs :: rest => by simp only [cost, cost_congr hm rest, selOf_congr hm]

/-! ### the documents -/

/-- a segment of the source: a run of text, or a call `\name{a1}…{an}` of a projection macro -/
inductive Seg where
  | txt (s : Str)
  | call (name : Str) (args : List Str)
deriving Repr, DecidableEq

/-- `\LTskip{a}` -/
def ltSkip (a : Str) : Seg := .call "LTskip".toList [a]
/-- `\LTadd{a}` -/
def ltAdd (a : Str) : Seg := .call "LTadd".toList [a]
/-- `\LTalter{a}{b}` -/
def ltAlter (a b : Str) : Seg := .call "LTalter".toList [a, b]

def Seg.render : Seg → Str
  | .txt s => s
  | .call name args => '\\' :: (name ++ argsStr args)

/-- the source text -/
def render : List Seg → Str
  | [] => []
  | s :: rest => s.render ++ render rest

/-- the number of source characters of `\name{a1}…{an}` -/
def callLen (name : Str) (args : List Str) : Nat := name.length + 1 + argsLen args

/-- the marks a call at position `p` leaves behind its first Action mark: nothing, or the selected
    argument — its characters with their own positions — between two Action marks -/
def selMarks (spans : List (Nat × Str)) : Option Nat → List Mark
  | none => []
  | some k => argMarks (spanAt spans k)

def callMarks (st : PState) (p : Nat) (name : Str) (args : List Str) : List Mark :=
  selMarks (argSpans (p + name.length + 1) args) (selOf st name)

/-- **the reference**: the document, which starts at position `p`, as a list of marks — a text
    character with its position; for a call an Action mark (`none`) and `callMarks` -/
def marks (st : PState) : Nat → List Seg → List Mark
  | _, [] => []
  | p, .txt s :: rest => (posText p s).map some ++ marks st (p + s.length) rest
  | p, .call name args :: rest =>
    none :: (callMarks st p name args ++ marks st (p + callLen name args) rest)

/-! ### the side conditions -/

/-- `\name{a1}…{an}`, followed by `R`:
    * `\name` is one macro token of the scanner (a non-empty string of macro characters — the `{`
      behind it ends the name —, no special sequence matches at the backslash, none of
      `\begin \end \item \verb`, no accent macro) and not `\def`;
    * it is declared in `st` as a projection macro (`projDeclOk`) with exactly `n` parameters;
    * the groups: `argsOk` of Proofs/PlainMacroArgs.lean (braces scanned as such, every argument a
      non-empty string of `inertChar`s) -/
def callOk (T : PTables) (st : PState) (name : Str) (args : List Str) (R : Str) : Bool :=
  !name.isEmpty && name.all macroChar && !args.isEmpty &&
  (matchSpecial T.toTables ('\\' :: (name ++ (argsStr args ++ R)))).isNone &&
  ('\\' :: name) != sBegin && ('\\' :: name) != sEnd && ('\\' :: name) != sItem &&
  ('\\' :: name) != sVerb && !T.toTables.isAccent ('\\' :: name) && ('\\' :: name) != sDef &&
  (match lookupMacro st ('\\' :: name) with
   | some m => projDeclOk m && m.args.length == args.length
   | none => false) &&
  argsOk T st args R

/-- well-formed documents: every segment is fine in front of the rendering of the following ones
    (`textOk` of Proofs/PlainUnknown.lean for the text) -/
def segsOk (T : PTables) (st : PState) : List Seg → Bool
  | [] => true
  | .txt s :: rest => textOk T st s (render rest) && segsOk T st rest
  | .call name args :: rest => callOk T st name args (render rest) && segsOk T st rest

/-- all side conditions on the tables, the initialised parser state and the document -/
def SegsOk (T : PTables) (st : PState) (segs : List Seg) : Prop :=
  noEmptyActive T st = true ∧ segsOk T st segs = true

instance (T : PTables) (st : PState) (segs : List Seg) : Decidable (SegsOk T st segs) := by
  unfold SegsOk; infer_instance

structure CallFacts (T : PTables) (st : PState) (name : Str) (args : List Str) (R : Str) : Prop where
  cw : CwFacts T ({ macros := [] } : PState) name (argsStr args ++ R)
  ne : args ≠ []
  cn : CallName st name args.length
  args : argsOk T st args R = true

theorem argsStr_head {args : List Str} (h : args ≠ []) (R : Str) :
    ∃ X, argsStr args ++ R = '{' :: X := by
  cases args with
  | nil => exact absurd rfl h
  | cons a as => exact ⟨a ++ '}' :: (argsStr as ++ R), by simp [argsStr]⟩

theorem callFacts {T : PTables} {st : PState} {name : Str} {args : List Str} {R : Str}
    (h : callOk T st name args R = true) : CallFacts T st name args R := by
  simp only [callOk, Bool.and_eq_true, bne_iff_ne, ne_eq, Bool.not_eq_true', Option.isNone_iff_eq_none,
    List.all_eq_true] at h
  obtain ⟨⟨⟨⟨⟨⟨⟨⟨⟨⟨⟨h1, h2⟩, h3⟩, h4⟩, h5⟩, h6⟩, h7⟩, h8⟩, h9⟩, h10⟩, h11⟩, h12⟩ := h
  have hne : args ≠ [] := by simpa using h3
  obtain ⟨X, hX⟩ := argsStr_head hne R
  refine ⟨⟨by simpa using h1, ?_, h4, h5, h6, h7, h8, h9, h10, rfl⟩, hne, ⟨h10, ?_⟩, h12⟩
  · rw [hX]
    exact takeWhile_append_stop _ _ _ (by rw [List.all_eq_true]; exact h2) rfl
  · split at h11
    · rename_i m hm
      simp only [Bool.and_eq_true, beq_iff_eq] at h11
      exact ⟨m, hm, h11.1, h11.2⟩
    · cases h11

/-- the source text, which starts at position `p`, with its marks -/
inductive OkSrc (T : PTables) (st : PState) : Nat → Str → List Mark → Prop
  | nil (p : Nat) : OkSrc T st p [] []
  | chr (p : Nat) (c : Char) (cs : Str) (ms : List Mark) :
      okAt T st c cs = true → OkSrc T st (p + 1) cs ms →
      OkSrc T st p (c :: cs) (some (c, p) :: ms)
  | call (p : Nat) (name : Str) (args : List Str) (R : Str) (ms : List Mark) :
      callOk T st name args R = true → OkSrc T st (p + callLen name args) R ms →
      OkSrc T st p ('\\' :: (name ++ (argsStr args ++ R))) (none :: (callMarks st p name args ++ ms))

theorem OkSrc_text (T : PTables) (st : PState) (R : Str) (ms : List Mark) :
    ∀ (s : Str) (p : Nat), OkSrc T st (p + s.length) R ms → textOk T st s R = true →
      OkSrc T st p (s ++ R) ((posText p s).map some ++ ms)
  | [], _, hR, _ => hR
  | c :: cs, p, hR, h => by
    simp only [textOk, Bool.and_eq_true] at h
    have hR' : OkSrc T st (p + 1 + cs.length) R ms := by
      have e : p + 1 + cs.length = p + (c :: cs).length := by simp; omega
      rw [e]; exact hR
    exact OkSrc.chr p c (cs ++ R) _ h.1 (OkSrc_text T st R ms cs (p + 1) hR' h.2)

theorem OkSrc_of_segsOk (T : PTables) (st : PState) :
    ∀ (segs : List Seg) (p : Nat), segsOk T st segs = true →
      OkSrc T st p (render segs) (marks st p segs)
  | [], p, _ => .nil p
  | .txt s :: rest, p, h => by
    simp only [segsOk, Bool.and_eq_true] at h
    exact OkSrc_text T st _ _ s p (OkSrc_of_segsOk T st rest _ h.2) h.1
  | .call name args :: rest, p, h => by
    simp only [segsOk, Bool.and_eq_true] at h
    have := OkSrc.call p name args (render rest) _ h.1 (OkSrc_of_segsOk T st rest _ h.2)
    simpa [render, Seg.render, marks] using this

/-- white space in front can be dropped -/
theorem OkSrc_drop_space (T : PTables) (st : PState) :
    ∀ (k : Nat) (p : Nat) (s : Str) (ms : List Mark), k ≤ s.length → OkSrc T st p s ms →
      (∀ x ∈ s.take k, isSpace x = true) →
      ∃ ms', ms = (posText p (s.take k)).map some ++ ms' ∧ OkSrc T st (p + k) (s.drop k) ms'
  | 0, _, _, ms, _, h, _ => ⟨ms, rfl, h⟩
  | k + 1, _, [], _, hk, _, _ => by simp at hk
  | k + 1, p, c :: cs, _, hk, h, hsp => by
    have hc : isSpace c = true := hsp c (by simp)
    cases h with
    | chr _ _ _ ms0 _ h2 =>
      obtain ⟨ms', e, h3⟩ := OkSrc_drop_space T st k (p + 1) cs ms0 (by simpa using hk) h2
        (fun x hx => hsp x (by simp [hx]))
      refine ⟨ms', by simp [posText, e], ?_⟩
      have e : p + (k + 1) = p + 1 + k := by omega
      rw [e]; exact h3
    | call _ name args R _ _ _ => exact absurd hc (by decide)

theorem callMarks_congr {st st' : PState} (hm : st'.macros = st.macros) (p : Nat) (name : Str)
    (args : List Str) : callMarks st' p name args = callMarks st p name args := by
  simp only [callMarks, selOf_congr hm]

/-- the conditions depend on the state only through the language stack and the macro table -/
theorem OkSrc.congr {T : PTables} {st st' : PState} (hl : st'.langStack = st.langStack)
    (hm : st'.macros = st.macros)
    {p : Nat} {s : Str} {ms : List Mark} (h : OkSrc T st p s ms) : OkSrc T st' p s ms := by
  induction h with
  | nil p => exact .nil p
  | chr p c cs ms hat _ ih =>
    refine .chr p c cs ms ?_ ih
    rw [← hat]
    simp only [okAt, activeChars_congr T st st' hl, shortKeys_congr T st st' hl]
  | call p name args R ms hd _ ih =>
    rw [← callMarks_congr hm]
    refine .call p name args R ms ?_ ih
    rw [← hd]
    have : inertChar T st' = inertChar T st := by
      funext c; simp only [inertChar, activeChars_congr T st st' hl]
    simp only [callOk, lookupMacro, hm, PlainMacroArgs.argsOk_congr T st st' this]

/-! ### what a call means -/

theorem spanAt_len : ∀ (args : List Str) (q k : Nat), 1 ≤ k → k ≤ args.length →
    (spanAt (argSpans q args) k).2.length + 2 ≤ argsLen args
  | [], _, k, h1, h2 => by simp at h2; omega
  | a :: as, q, k, h1, h2 => by
    obtain ⟨j, rfl⟩ : ∃ j, k = j + 1 := ⟨k - 1, by omega⟩
    cases j with
    | zero => simp [spanAt, argSpans, argsLen]
    | succ j =>
      have := spanAt_len as (q + a.length + 2) (j + 1) (by omega) (by simpa using h2)
      simp only [spanAt, argSpans, argsLen, Nat.add_sub_cancel, List.getElem?_cons_succ] at this ⊢
      omega

/-- the marks of the tokens a call inserts are the reference `argMarks` of the selected argument;
    at most `argsLen args` tokens, all of them `Simple` -/
theorem call_sem {T : PTables} {st : PState} {q : Nat} {gs : List Group} {args : List Str}
    (hgl : GroupsLink q gs args) (hgg : ∀ g ∈ gs, GroupGood T st g) (sel : Option Nat)
    (hsel : ∀ k, sel = some k → 1 ≤ k ∧ k ≤ gs.length) :
    marksOf (callOut sel (gs.map (·.toks)))
      = selMarks (argSpans q args) sel ∧
    (callOut sel (gs.map (·.toks))).length ≤ argsLen args ∧
    (∀ t ∈ callOut sel (gs.map (·.toks)), Simple t) := by
  cases sel with
  | none => exact ⟨rfl, by simp [callOut], by simp [callOut]⟩
  | some k =>
    obtain ⟨k1, k2⟩ := hsel k rfl
    have hA := argsSem_of_link hgl hgg gs.length (Nat.le_refl _)
    rw [List.take_length] at hA
    obtain ⟨F, hpl⟩ := hA k k1 k2
    have hlen := groupsLink_length hgl
    refine ⟨?_, ?_, ?_⟩
    · simp only [callOut]
      rw [marksOf_cons, tokMarks_mkAction, marksOf_append, marksOf_cons, tokMarks_mkAction,
        marksOf_plain _ hpl, F.chars]
      simp [selMarks, argMarks, marksOf]
    · have h1 : (argAt (gs.map (·.toks)) k).length ≤ (spanAt (argSpans q args) k).2.length := by
        have := PlainMacro.length_le_bodyTxt _ F.shape
        rw [bodyTxt_of_chars _ _ _ F.chars] at this
        exact this
      have h2 := spanAt_len args q k k1 (by omega)
      simp only [callOut, List.length_cons, List.length_append, List.length_nil]
      omega
    · intro u hu
      simp only [callOut, List.mem_cons, List.mem_append, List.not_mem_nil, or_false] at hu
      rcases hu with rfl | hu | rfl
      · exact simple_mkAction _
      · exact simple_of_plain (hpl u hu) (F.shape u hu)
      · exact simple_mkAction _

theorem CallName.sel {st : PState} {name : Str} {n : Nat} (h : CallName st name n) :
    ∀ k, selOf st name = some k → 1 ≤ k ∧ k ≤ n := by
  obtain ⟨_, m, hm, hd, hn⟩ := h
  have D := projDecl hd
  intro k hk
  simp only [selOf, hm] at hk
  rcases D.repl with h0 | ⟨t, k', ht, hk', h1, h2⟩
  · rw [h0] at hk; simp [selRepl] at hk
  · rw [ht] at hk
    simp only [selRepl, hk'] at hk
    cases hk
    exact ⟨h1, by omega⟩

/-! ### the scanner -/

/-- what the scanner loop yields on a well-formed source, and what the token buffer means -/
structure ScanFacts (T : PTables) (st : PState) (rest : Str) (ms : List Mark)
    (steps : List ScanStep) : Prop where
  ok : ∀ s ∈ steps, s.diag = none ∧ s.extra = []
  pieces : ∃ ps, steps.map (·.tok) = flat ps ∧ PiecesOk T st ps ∧ marksOf (outP st ps) = ms ∧
    (∀ t ∈ outP st ps, Simple t) ∧ cost st ps ≤ rest.length
  first : ∀ s ss, steps = s :: ss → s.tok.txt = firstTokTxtM rest

theorem ScanFacts_nil (T : PTables) (st : PState) : ScanFacts T st [] [] [] :=
  ⟨by simp, ⟨[], rfl, trivial, rfl, by simp [outP], by simp [cost]⟩, by simp⟩

/-- the scanner loop on a well-formed source -/
theorem scanSteps_call (T : PTables) (st : PState) (src : Str) :
    ∀ (n fuel pos : Nat) (rest : Str) (ms : List Mark),
    rest.length ≤ n → rest.length ≤ fuel → OkSrc T st pos rest ms →
    (scanSteps T.toTables src fuel pos rest).2 = true ∧
    ScanFacts T st rest ms (scanSteps T.toTables src fuel pos rest).1 := by
  intro n
  induction n with
  | zero =>
    intro fuel pos rest ms hn _ hok
    cases rest with
    | nil => cases hok; exact ⟨by simp [scanSteps], by simpa [scanSteps] using ScanFacts_nil T st⟩
    | cons c cs => simp at hn
  | succ n ih =>
    intro fuel pos rest ms hn hf hok
    cases rest with
    | nil => cases hok; exact ⟨by simp [scanSteps], by simpa [scanSteps] using ScanFacts_nil T st⟩
    | cons c cs =>
      obtain ⟨fuel, rfl⟩ : ∃ f, fuel = f + 1 := ⟨fuel - 1, by simp at hf; omega⟩
      have hok0 := hok
      cases hok with
      | chr _ _ _ ms' hat hsub0 =>
        have hsnd := okAt_snd hat
        obtain ⟨hp, hone⟩ := nextToken_text T src pos c cs hsnd
        generalize hs : nextToken T.toTables src pos (c :: cs) = s at hp hone
        have h1 := hp.len_pos
        have h2 := hp.len_le
        have hsub : ∃ ms1, some (c, pos) :: ms' = (posText pos ((c :: cs).take s.len)).map some ++ ms1 ∧
            OkSrc T st (pos + s.len) ((c :: cs).drop s.len) ms1 := by
          by_cases hsp : isSpace c = true
          · refine OkSrc_drop_space T st s.len pos (c :: cs) _ h2 hok0 ?_
            intro x hx
            rw [← hp.txt, hp.first] at hx
            simp only [firstTokTxt, hsp, if_true] at hx
            exact mem_takeWhile_imp _ _ _ hx
          · have := (hone (by simpa using hsp)).1
            rw [this]
            exact ⟨ms', rfl, hsub0⟩
        obtain ⟨ms1, hms1, hsub⟩ := hsub
        rw [scanSteps_step T.toTables src fuel pos c cs s hs (by omega)]
        have hl : ((c :: cs).drop s.len).length ≤ fuel := by
          simp only [List.length_drop]; simp only [List.length_cons] at hf h2 ⊢; omega
        have hl' : ((c :: cs).drop s.len).length ≤ n := by
          simp only [List.length_drop]; simp only [List.length_cons] at hn h2 ⊢; omega
        obtain ⟨i1, I⟩ := ih fuel (pos + s.len) ((c :: cs).drop s.len) ms1 hl' hl hsub
        obtain ⟨ps', hflat, hpok, hmarks, hsimple, hcost⟩ := I.pieces
        have hne : s.tok.txt ≠ [] := by
          rw [hp.txt]
          intro h0
          have := congrArg List.length h0
          simp only [List.length_take, List.length_nil] at this
          omega
        have hshape : Shape s.tok := by
          refine ⟨hne, ?_⟩
          intro hnl
          by_cases hsp : isSpace c = true
          · rw [hp.first]
            simp only [firstTokTxt, hsp, if_true, isBlank, List.all_eq_true]
            exact fun x hx => mem_takeWhile_imp _ _ _ hx
          · have hsp' : isSpace c = false := by simpa using hsp
            have := (hone hsp').1
            rw [hp.txt, this] at hnl
            simp only [List.take_succ_cons, List.take_zero] at hnl
            rw [PlainMacro.hasNl_single c hsp'] at hnl; cases hnl
        refine ⟨i1, ?_, ?_, ?_⟩
        · intro x hx
          rcases List.mem_cons.mp hx with rfl | hx
          · exact ⟨hp.diag, hp.extra⟩
          · exact I.ok x hx
        · refine ⟨.tok s.tok :: ps', by simp [flat, Piece.toks, hflat], ⟨hp.tok, ?_, hpok⟩, ?_, ?_, ?_⟩
          · -- the short-macro branch
            rw [← hflat]
            have hact := hat
            simp only [okAt, Bool.and_eq_true, Bool.or_eq_true, Bool.not_eq_true'] at hact
            rcases hact.1 with hna | ⟨hns, hk⟩
            · left
              have : s.tok.txt = c :: (cs.take (s.len - 1)) := by
                rw [hp.txt]
                obtain ⟨k, hk⟩ : ∃ k, s.len = k + 1 := ⟨s.len - 1, by omega⟩
                rw [hk]; simp
              rw [this]
              exact not_active_cons T st c _ hna
            · right
              have hlen := (hone hns).1
              have htxt : s.tok.txt = [c] := by rw [hp.txt, hlen]; rfl
              have i4 := I.first
              rw [hlen] at i4 ⊢
              simp only [List.drop_succ_cons, List.drop_zero] at i4 ⊢
              cases hr : (scanSteps T.toTables src fuel (pos + 1) cs).1 with
              | nil => rfl
              | cons s2 ss =>
                simp only [List.map_cons]
                apply expandShortMacro_none
                rw [htxt, i4 s2 ss hr]
                rcases hk with hk | hk
                · cases cs with
                  | nil => cases fuel <;> simp [scanSteps] at hr
                  | cons => simp at hk
                · simpa using hk
          · simp only [outP]
            rw [marksOf_cons, tokMarks_nonaction _ hp.tok.notAction, tokChars_nofix _ hp.fix, hmarks,
              hp.txt, hp.pos, hms1]
          · intro x hx
            simp only [outP, List.mem_cons] at hx
            rcases hx with rfl | hx
            · exact simple_of_plain hp.tok hshape
            · exact hsimple x hx
          · simp only [cost, List.length_cons, List.length_drop] at hcost h2 ⊢
            omega
        · intro s' ss' he
          simp only [List.cons.injEq] at he
          rw [← he.1, hp.first]
          refine (firstTokTxtM_of_text c cs ?_).symm
          rcases hsnd with h | h
          · exact Or.inl h
          · exact Or.inr h.1
      | call _ name args R ms' hd hsub =>
        have V := callFacts hd
        have hname := List.length_pos_iff.mpr V.cw.ne
        have hn1 := nextToken_cw T _ src pos name _ V.cw
        have hd1 : ('\\' :: (name ++ (argsStr args ++ R))).drop (name.length + 1) = argsStr args ++ R := by
          simp
        simp only [List.length_cons, List.length_append, argsStr_length] at hf hn
        obtain ⟨asteps, A, hrun⟩ := scanSteps_args T st src R args (pos + (name.length + 1)) fuel
          (by omega) V.args
        have hAl := A.len
        have hpos : pos + (name.length + 1) + argsLen args = pos + callLen name args := by
          simp only [callLen]; omega
        obtain ⟨i1, I⟩ := ih (fuel - asteps.length) (pos + callLen name args) R ms'
          (by omega) (by omega) hsub
        obtain ⟨ps', hflat, hpok, hmarks, hsimple, hcost⟩ := I.pieces
        obtain ⟨gs, hgs1, hgs2, hgs3⟩ := A.gs
        have hlen := groupsLink_length hgs3
        have hcn : CallName st name gs.length := by rw [hlen]; exact V.cn
        have e : pos + (name.length + 1) = pos + name.length + 1 := by omega
        rw [e] at hgs3
        obtain ⟨c1, c2, c3⟩ := call_sem hgs3 hgs2 (selOf st name) hcn.sel
        rw [scanSteps_step T.toTables src fuel pos _ _ _ hn1 (by simp), hd1]
        simp only []
        rw [hrun, hpos]
        refine ⟨i1, ?_, ?_, ?_⟩
        · intro x hx
          simp only [List.mem_cons, List.mem_append] at hx
          rcases hx with rfl | hx | hx
          · exact ⟨rfl, rfl⟩
          · exact A.ok x hx
          · exact I.ok x hx
        · refine ⟨.call pos name gs :: ps', by simp [flat, Piece.toks, hflat, hgs1],
            ⟨hcn, groupsLink_ne hgs3 V.ne, hgs2, hpok⟩, ?_, ?_, ?_⟩
          · simp only [outP]
            rw [marksOf_cons, tokMarks_mkAction, marksOf_append, c1, hmarks]
            rfl
          · intro x hx
            simp only [outP, List.mem_cons, List.mem_append] at hx
            rcases hx with rfl | hx | hx
            · exact simple_mkAction pos
            · exact c3 x hx
            · exact hsimple x hx
          · simp only [cost, List.length_cons, List.length_append, argsStr_length]
            omega
        · intro s' ss' he
          simp only [List.cons.injEq] at he
          rw [← he.1]
          simp [firstTokTxtM, cwTok, V.cw.tw, show isSpace '\\' = false by decide]

/-- `scan` on a well-formed source: no diagnostics; the token buffer consists of plain tokens and
    calls, and its output tokens spell the marks of the source -/
theorem scan_call (T : PTables) (st : PState) (src : Str) (ms : List Mark)
    (h : OkSrc T st 0 src ms) :
    (scan T.toTables src).diags = [] ∧
    ∃ ps, (scan T.toTables src).toks = flat ps ∧ PiecesOk T st ps ∧ marksOf (outP st ps) = ms ∧
      (∀ t ∈ outP st ps, Simple t) ∧ cost st ps ≤ src.length := by
  obtain ⟨_, F⟩ := scanSteps_call T st src src.length src.length 0 src ms (Nat.le_refl _)
    (Nat.le_refl _) h
  have he := flatten_tok_extra (scanSteps T.toTables src src.length 0 src).1 (fun s hs => (F.ok s hs).2)
  have hd := flatten_diag_nil (scanSteps T.toTables src src.length 0 src).1 (fun s hs => (F.ok s hs).1)
  obtain ⟨ps, h1, h2, h3, h4, h5⟩ := F.pieces
  simp only [scan]
  rw [he, hd]
  exact ⟨rfl, ps, h1, h2, h3, h4, h5⟩

/-! ### `parserWork`, `parse`, `tex2txt` -/

/-- **`parserWork` on a well-formed source.**  The characters of the result tokens, with their
    positions, are the reference output: the marks of the document with the pure Action lines
    deleted.  The state is unchanged. -/
theorem parserWork_call (T : PTables) (st : PState) (src : Str) (fuel : Nat) (ms : List Mark)
    (hf : src.length + 2 ≤ fuel) (ha : noEmptyActive T st = true) (h : OkSrc T st 0 src ms) :
    ∃ r, parserWork T fuel src st = .ok (r, st) ∧ charsOf r = delLines ms := by
  obtain ⟨f, rfl⟩ : ∃ f, fuel = f + 1 := ⟨fuel - 1, by omega⟩
  obtain ⟨hd, ps, hflat, hpok, hmarks, hsimple, hcost⟩ := scan_call T st src ms h
  let st' : PState := { st with latex := src, nest := st.nest + 1 }
  have hpok' : PiecesOk T st' ps := PiecesOk.congr (st := st) (st' := st') rfl rfl hpok
  have hout : outP st' ps = outP st ps := outP_congr (st := st) (st' := st') rfl ps
  have hc : cost st' ps = cost st ps := cost_congr (st := st) (st' := st') rfl ps
  have hs := seq_call T none st' ((noEmptyActive_congr T st st' rfl).trans ha) ps f [] (by omega) hpok'
  rw [List.nil_append, hout] at hs
  obtain ⟨r, hr, hchars⟩ := removeLines_simple _ hsimple
  rw [hr] at hs
  simp only [] at hs
  rw [hmarks] at hchars
  refine ⟨r, ?_, hchars⟩
  rw [parserWork.eq_2]
  refine (M.bind_ok _ _ _ _ _ (rfl : M.get st = _)).trans ?_
  refine (M.bind_ok _ _ _ _ _ (rfl : M.modify _ _ = _)).trans ?_
  refine (M.bind_ok _ _ _ _ _ (rfl : M.modify _ _ = _)).trans ?_
  refine (M.bind_ok _ _ _ _ _ (rfl : M.get _ = _)).trans ?_
  simp only [hd, List.append_nil]
  rw [skipPass_nocomment _ _ _ (fun t ht' => hpok.notComment t (by rw [← hflat]; exact ht'))]
  simp only []
  refine (M.bind_ok _ _ _ _ _ (rfl : (pure _ : M (List Tok)) _ = _)).trans ?_
  rw [hflat]
  refine (M.bind_ok _ _ _ _ _ hs).trans ?_
  refine (M.bind_ok _ _ _ _ _ (rfl : M.modify _ _ = _)).trans ?_
  show Outcome.ok _ = _
  simp only [st', Nat.add_sub_cancel]

theorem parse_call (T : PTables) (st : PState) (src : Str) (fuel : Nat) (ms : List Mark)
    (hf : src.length + 2 ≤ fuel) (ha : noEmptyActive T st = true) (h : OkSrc T st 0 src ms) :
    ∃ r, parse T fuel src [] [] st
        = .ok (r, { st with extracted := [], unknowns := [], foreign := false, nest := 0 }) ∧
      charsOf r = delLines ms := by
  have h' : OkSrc T { st with extracted := [], unknowns := [], foreign := false, nest := 0 } 0 src ms :=
    OkSrc.congr (st := st)
      (st' := { st with extracted := [], unknowns := [], foreign := false, nest := 0 }) rfl rfl h
  obtain ⟨r, hw, hc⟩ := parserWork_call T
    { st with extracted := [], unknowns := [], foreign := false, nest := 0 } src fuel ms hf
    ((noEmptyActive_congr T st _ rfl).trans ha) h'
  refine ⟨r, ?_, hc⟩
  unfold parse
  simp only [List.isEmpty_nil, Bool.not_true, Bool.false_eq_true, if_false, if_true]
  refine (M.bind_ok _ _ _ _ _ (rfl : M.modify _ _ = _)).trans ?_
  refine (M.bind_ok _ _ _ _ _ (rfl : (pure _ : M (List Tok)) _ = _)).trans ?_
  refine (M.bind_ok _ _ _ _ _ (rfl : M.modify _ _ = _)).trans ?_
  refine (M.bind_ok _ _ _ _ _ hw).trans ?_
  refine (M.bind_ok _ _ _ _ _ (rfl : M.get _ = _)).trans ?_
  show Outcome.ok _ = _
  simp

/-- the result record of `tex2txt` on a well-formed source (no `--defs`, `--extr`, `--repl`,
    `--unkn`; single-language mode) -/
theorem tex2txt_call_src (T : PTables) (o : Options) (fs : FS) (thresh : Nat) (src : Str) (fuel : Nat)
    (st1 : PState) (ms : List Mark)
    (hdefs : o.defs = []) (hextr : o.extr = []) (hrepl : o.hasRepl = false) (hunkn : o.unkn = false)
    (hinit : initParser T fuel o (initialState T o false fs) = .ok ((), st1))
    (ha : noEmptyActive T st1 = true) (h : OkSrc T st1 0 src ms)
    (hf : src.length + 2 ≤ fuel) :
    ∃ toks, tex2txt T fuel src o false thresh fs
        = .ok { toks := toks, txt := (delLines ms).map (·.1),
                pos := (delLines ms).map (·.2 + 1), parts := [],
                unknowns := [], diags := st1.diags, foreign := false } := by
  obtain ⟨r, hp, hc⟩ := parse_call T st1 src fuel ms hf ha h
  refine ⟨r, ?_⟩
  have hrun : (initParser T fuel o >>= fun _ => parse T fuel src o.defs
        (if o.extr.isEmpty then [] else (splitOn ',' o.extr []).map (fun s => '\\' :: s)))
        (initialState T o false fs)
      = .ok (r, { st1 with extracted := [], unknowns := [], foreign := false, nest := 0 }) := by
    refine (M.bind_ok _ _ _ _ _ hinit).trans ?_
    rw [hdefs, hextr]
    exact hp
  unfold tex2txt
  simp only []
  rw [hrun]
  simp only [hrepl, hunkn, Bool.not_false, if_true, Bool.false_eq_true, if_false,
    getTxtPos_charsOf, hc, List.map_map]
  rfl

/-- **C03 for the LT macros, end to end.**  The document consists of inert text and calls of
    projection macros — in particular `\LTskip{a}`, `\LTadd{a}`, `\LTalter{a}{b}` — (`SegsOk`: all side
    conditions); `st1` is the state after `Parser.__init__`; no `--defs`, `--extr`, `--repl`,
    `--unkn`; single-language mode.  With one unit of fuel per source character and two more,
    `tex2txt` succeeds and

    * the output text with its (1-based) positions is `delLines (marks st1 0 segs)`: every text
      character with its own position; for a call nothing (`selOf = none`: `\LTskip`) or the
      characters of the selected argument with their own positions (`\LTadd`: the first,
      `\LTalter`: the second argument), nothing of the other arguments; and then every line deleted
      (with its line break) that consists of white space only and holds at least one Action mark
      (`remove_pure_action_lines`);
    * there are no unknowns and no diagnostic is added. -/
theorem tex2txt_ltmacros (T : PTables) (o : Options) (fs : FS) (thresh : Nat) (segs : List Seg)
    (fuel : Nat) (st1 : PState)
    (hdefs : o.defs = []) (hextr : o.extr = []) (hrepl : o.hasRepl = false) (hunkn : o.unkn = false)
    (hinit : initParser T fuel o (initialState T o false fs) = .ok ((), st1))
    (hok : SegsOk T st1 segs) (hf : (render segs).length + 2 ≤ fuel) :
    ∃ r, tex2txt T fuel (render segs) o false thresh fs = .ok r ∧
      r.txt = (delLines (marks st1 0 segs)).map (·.1) ∧
      r.pos = (delLines (marks st1 0 segs)).map (·.2 + 1) ∧
      r.unknowns = [] ∧ r.diags = st1.diags ∧ r.parts = [] := by
  obtain ⟨ha, hsegs⟩ := hok
  have hsrc := OkSrc_of_segsOk T st1 segs 0 hsegs
  obtain ⟨toks, ht⟩ := tex2txt_call_src T o fs thresh (render segs) fuel st1 _ hdefs hextr hrepl hunkn
    hinit ha hsrc hf
  exact ⟨_, ht, rfl, rfl, rfl, rfl, rfl⟩

/-! ### readings of the reference -/

/-- a call that outputs nothing (`\LTskip{a}`) leaves one Action mark -/
theorem callMarks_none {st : PState} {name : Str} (h : selOf st name = none) (p : Nat)
    (args : List Str) : callMarks st p name args = [] := by
  simp [callMarks, h, selMarks]

/-- a call that outputs its first argument (`\LTadd{a}`): `a` with its own positions (it starts two
    characters behind the name) between two Action marks -/
theorem callMarks_first {st : PState} {name : Str} (h : selOf st name = some 1) (p : Nat)
    (a : Str) (as : List Str) :
    callMarks st p name (a :: as) = none :: ((posText (p + name.length + 2) a).map some ++ [none]) := by
  simp [callMarks, h, selMarks, argMarks, spanAt, argSpans]

/-- a call that outputs its second argument (`\LTalter{a}{b}`): `b` with its own positions between
    two Action marks; nothing of `a` -/
theorem callMarks_second {st : PState} {name : Str} (h : selOf st name = some 2) (p : Nat)
    (a b : Str) (as : List Str) :
    callMarks st p name (a :: b :: as)
      = none :: ((posText (p + name.length + a.length + 4) b).map some ++ [none]) := by
  simp only [callMarks, h, selMarks, argMarks, spanAt, argSpans,
    List.getElem?_cons_succ, List.getElem?_cons_zero, Option.getD_some]
  have e : p + name.length + 1 + a.length + 2 + 1 = p + name.length + a.length + 4 := by omega
  rw [e]

/-- the hidden parts `(start, length)` of a call at position `p`: the whole call if it outputs
    nothing; otherwise the part in front of the selected argument and the part behind it -/
def hiddenOf (st : PState) (p : Nat) (name : Str) (args : List Str) : List (Nat × Nat) :=
  match selOf st name with
  | none => [(p, callLen name args)]
  | some k =>
    let sp := spanAt (argSpans (p + name.length + 1) args) k
    [(p, sp.1 - p), (sp.1 + sp.2.length, p + callLen name args - (sp.1 + sp.2.length))]

/-- the hidden parts of the calls of a document that starts at position `p` -/
def hidden (st : PState) : Nat → List Seg → List (Nat × Nat)
  | _, [] => []
  | p, .txt s :: rest => hidden st (p + s.length) rest
  | p, .call name args :: rest => hiddenOf st p name args ++ hidden st (p + callLen name args) rest

open PlainVanish (mem_posText) in
theorem callMarks_range {st : PState} {p : Nat} {name : Str} {args : List Str} {cp : Char × Nat}
    (h : some cp ∈ callMarks st p name args) :
    ∃ k, selOf st name = some k ∧
      (spanAt (argSpans (p + name.length + 1) args) k).1 ≤ cp.2 ∧
      cp.2 < (spanAt (argSpans (p + name.length + 1) args) k).1
              + (spanAt (argSpans (p + name.length + 1) args) k).2.length := by
  unfold callMarks at h
  cases hs : selOf st name with
  | none => rw [hs] at h; simp [selMarks] at h
  | some k =>
    rw [hs] at h
    simp only [selMarks, argMarks, List.mem_cons, List.mem_append, List.mem_map] at h
    rcases h with h | ⟨x, hx, e⟩ | h | h
    · cases h
    · cases e
      exact ⟨k, rfl, mem_posText hx⟩
    · cases h
    · cases h

theorem spanAt_range : ∀ (args : List Str) (q k : Nat), 1 ≤ k → k ≤ args.length →
    q < (spanAt (argSpans q args) k).1 ∧
    (spanAt (argSpans q args) k).1 + (spanAt (argSpans q args) k).2.length < q + argsLen args
  | [], _, k, h1, h2 => by simp at h2; omega
  | a :: as, q, k, h1, h2 => by
    obtain ⟨j, rfl⟩ : ∃ j, k = j + 1 := ⟨k - 1, by omega⟩
    cases j with
    | zero => simp [spanAt, argSpans, argsLen]; omega
    | succ j =>
      have := spanAt_range as (q + a.length + 2) (j + 1) (by omega) (by simpa using h2)
      simp only [spanAt, argSpans, argsLen, Nat.add_sub_cancel, List.getElem?_cons_succ] at this ⊢
      omega

/-- the selected argument lies strictly inside the call -/
theorem call_range {T : PTables} {st : PState} {name : Str} {args : List Str} {R : Str} {k : Nat}
    (h : callOk T st name args R = true) (hs : selOf st name = some k) (p : Nat) :
    p < (spanAt (argSpans (p + name.length + 1) args) k).1 ∧
    (spanAt (argSpans (p + name.length + 1) args) k).1
      + (spanAt (argSpans (p + name.length + 1) args) k).2.length < p + callLen name args := by
  obtain ⟨k1, k2⟩ := (callFacts h).cn.sel k hs
  have := spanAt_range args (p + name.length + 1) k k1 k2
  simp only [callLen]
  omega

open PlainVanish (mem_posText) in
theorem marks_ge {T : PTables} {st : PState} {cp : Char × Nat} : ∀ {segs : List Seg} {p : Nat},
    segsOk T st segs = true → some cp ∈ marks st p segs → p ≤ cp.2
  | [], _, _, h => by simp [marks] at h
  | .txt s :: rest, p, hok, h => by
    simp only [segsOk, Bool.and_eq_true] at hok
    simp only [marks, List.mem_append, List.mem_map] at h
    rcases h with ⟨x, hx, e⟩ | h
    · cases e; exact (mem_posText hx).1
    · have := marks_ge hok.2 h; omega
  | .call name args :: rest, p, hok, h => by
    simp only [segsOk, Bool.and_eq_true] at hok
    simp only [marks, List.mem_cons, reduceCtorEq, false_or, List.mem_append] at h
    rcases h with h | h
    · obtain ⟨k, hk, h1, _⟩ := callMarks_range h
      have := (call_range hok.1 hk p).1
      omega
    · have := marks_ge hok.2 h; omega

theorem hidden_ge {T : PTables} {st : PState} {q : Nat × Nat} : ∀ {segs : List Seg} {p : Nat},
    segsOk T st segs = true → q ∈ hidden st p segs → p ≤ q.1
  | [], _, _, h => by simp [hidden] at h
  | .txt s :: rest, p, hok, h => by
    simp only [segsOk, Bool.and_eq_true] at hok
    simp only [hidden] at h
    have := hidden_ge hok.2 h; omega
  | .call name args :: rest, p, hok, h => by
    simp only [segsOk, Bool.and_eq_true] at hok
    simp only [hidden, List.mem_append] at h
    rcases h with h | h
    · unfold hiddenOf at h
      cases hs : selOf st name with
      | none => rw [hs] at h; simp at h; rw [h]; exact Nat.le_refl _
      | some k =>
        rw [hs] at h
        have := (call_range hok.1 hs p).1
        simp only [List.mem_cons, List.not_mem_nil, or_false] at h
        rcases h with rfl | rfl
        · simp
        · simp only []; omega
    · have := hidden_ge hok.2 h; omega

open PlainVanish (mem_posText) in
/-- **no character of the marks lies in a hidden part of a call**: not in the name, not in a brace,
    not in an argument that is not selected (`\LTskip{a}`: nothing of the call; `\LTalter{a}{b}`:
    nothing of `a`) -/
theorem marks_pos_outside {T : PTables} {st : PState} {cp : Char × Nat} {q : Nat × Nat} :
    ∀ {segs : List Seg} {p : Nat}, segsOk T st segs = true →
    some cp ∈ marks st p segs → q ∈ hidden st p segs → cp.2 < q.1 ∨ q.1 + q.2 ≤ cp.2
  | [], _, _, h, _ => by simp [marks] at h
  | .txt s :: rest, p, hok, h, hq => by
    simp only [segsOk, Bool.and_eq_true] at hok
    simp only [marks, List.mem_append, List.mem_map] at h
    simp only [hidden] at hq
    rcases h with ⟨x, hx, e⟩ | h
    · cases e
      have := (mem_posText hx).2
      have := hidden_ge hok.2 hq
      left; omega
    · exact marks_pos_outside hok.2 h hq
  | .call name args :: rest, p, hok, h, hq => by
    simp only [segsOk, Bool.and_eq_true] at hok
    simp only [marks, List.mem_cons, reduceCtorEq, false_or, List.mem_append] at h
    simp only [hidden, List.mem_append] at hq
    rcases h with h | h
    · obtain ⟨k, hk, h1, h2⟩ := callMarks_range h
      have hr := call_range hok.1 hk p
      rcases hq with hq | hq
      · simp only [hiddenOf, hk, List.mem_cons, List.not_mem_nil, or_false] at hq
        rcases hq with rfl | rfl
        · right; simp only []; omega
        · left; simp only []; omega
      · have := hidden_ge hok.2 hq
        left; omega
    · have hge := marks_ge hok.2 h
      rcases hq with hq | hq
      · right
        unfold hiddenOf at hq
        cases hs : selOf st name with
        | none => rw [hs] at hq; simp at hq; rw [hq]; simpa using hge
        | some k =>
          rw [hs] at hq
          have hr := call_range hok.1 hs p
          simp only [List.mem_cons, List.not_mem_nil, or_false] at hq
          rcases hq with rfl | rfl
          · simp only []; omega
          · simp only []; omega
      · exact marks_pos_outside hok.2 h hq

end PlainSkipLt
end Yalafi
