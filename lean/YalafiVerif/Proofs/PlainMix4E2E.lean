/-
  Proofs/PlainMix4E2E.lean — C03 "hidden material never leaks" / C05 "text flow is preserved", end
  to end on the model, for the FOURTH union grammar: the twenty-two kinds of Proofs/PlainMix3E2E.lean
  PLUS thirteen more, in any order and mixture (`PlainMix4.Seg`, 35 constructors).  The files
  PlainMix4*.lean are copies of PlainMix3*.lean with the new cases added; the architecture is the
  same (scanner lemma → static `PiecesOk` + `Link`; `link_sem`; ONE loop lemma `seq_mix4`).

  NEW kinds
    (f) `ddef name n body`       `\def\name#1…#n{body}` (Proofs/PlainDefTex.lean): stores the same macro
                                 as `\newcommand{\name}[n]{body}`; a use `use name args` does not see
                                 the difference; either may redefine the other
    (a) `itemL ws label pc`      `\item ws [label]` (Proofs/PlainItemL.lean); `pc : Option Char` is the
                                 punctuation mark the model REPEATS behind the label — it is not part
                                 of the source text but DECLARED in the document and checked by the
                                 side condition `pvLive` (see below)
        `ubeg name`, `uen name`  `\begin{name}` / `\end{name}` of an UNDECLARED environment
                                 (`description` is not declared in the tables of /repo): one mark
                                 each; `name` (without backslash) goes to the unknowns
    (b) `call name body`         `\name{body}` for every macro declared like `\footnote`
                                 (`\footnote`, `\footnotetext`, `\caption`; Proofs/PlainFlows.lean)
        `callO name opt body`    `\name[opt]{body}`: nothing of `opt` is used
        `fbeg name ws`, `fbegN name placement`, `fen name`
                                 `\begin{figure}` + the white space it swallows, `\begin{figure}[ht]`,
                                 `\end{figure}` for the float environments (`figure`, `table`)
    (e) `ppar ws`                `\par` and the white space behind it (Proofs/PlainParEnv.lean)
        `pbeg name arg`, `pen name`   `\begin{name}{arg}` / `\end{name}` of the paragraph-forming
                                 environments with one argument (`minipage`)
  Reference (`marks`, additions): `ddef` = a mark, the definition is in force behind it; `itemL` =
  `itemLMarks`: a blank at the backslash, two marks, the label at its own positions, a mark, `pc` (if
  any) and a blank, both at the start of the last token of the label (at `[` for `\item[]`); NO default
  label, the label generators are not touched; `ubeg` / `uen` = a mark; `call` / `callO` = a mark,
  the body goes to `flows` (three line breaks, the body at its own positions, a line break), in
  source order with the footnotes; `fbeg` / `fbegN` = two marks (the swallowed white space is gone),
  `fen` = a mark; `ppar` = a mark and two line breaks at the backslash, `pbeg` = two line breaks at
  the backslash and a mark, `pen` = two line breaks at the backslash.  `unknowns`: also the names of
  the undeclared environments, without backslash (`unkNames`).

  The repeated punctuation.  `expand_item` looks at the output of the running loop: if the last token
  whose text is not blank ends with a character of `item_punctuation`, that character is repeated
  behind the label (`x:⏎\item[a] one.⏎\item[b] two` gives `x:⏎ a:  one.⏎ b.  two`).  The loop
  lemma carries the invariant `PvOk` (the `pc` recorded in every `itemL` piece is what the model finds
  in the output so far); the computable side condition `pvLive T st stk k 0 segs` threads what the
  REFERENCE knows about that character (`k : PvK`: `some v` = known, `none` = unknown): a text
  character that is no white space makes it known; a construct that leaves only marks / white space
  keeps it; a construct that leaves visible characters that are not copied from the source (a
  formula, a use, a reference, a citation, a heading, an accent, a generated item label, …) makes it
  UNKNOWN until the next visible text character (the token boundaries of such output are not part of
  the reference); at `itemL ws label pc` it must be known and `pc` = that character if it is in
  `item_punctuation`, `none` otherwise (`pcOk`).

  NEW side conditions (in `SegsOk`, decidable)
    `ddef`            `PlainDefTex.ddefOk`
    `itemL`           `itemLOkV` = `PlainItemL.itemLOk` (no special sequence at the backslash, `ws` white
                      space with at most one line break, `[label]`: brackets scanned as text tokens, the
                      label inert and without `]`), the blank is no active character, `PlainItemL.punctOk`
                      (the punctuation marks are harmless tokens); `pcIn`: `pc` is in `item_punctuation`;
                      `pvLive` (above)
    `ubeg`, `uen`     `PlainItemL.ubegOk` / `uendOk` (the name inert, NOT declared as an environment)
    `call`, `callO`   `PlainFlows.callOk` / `callOOk` and `PlainFlows.stateOk`
    `fbeg`            `fbegOk` = `PlainFlows.begOk` and the conditions `itemOkV` has on what follows (a
                      visible character other than `[` and `%`, first token not `[`)
    `fbegN`, `fen`    `PlainFlows.begNOk` / `endOk`
    `ppar`            `parOkV` = `PlainParEnv.parOkS`, `parOk` and: what follows is no comment
    `pbeg`, `pen`     `PlainParEnv.begOk` / `endOk`
    fuel              `inserted` counts one more token for every `itemL`
  NOT covered (new kinds): `\def` with white space / delimited parameters; labels with macros, braces,
  maths, `]`; a labelled item directly behind output whose last visible character the reference does
  not know (`$x$ \item[a]`, `\item \item[a]`); flows with macros / maths in the body, white space
  between name and `[` / `{`; a paragraph break directly behind `\begin{figure}`; `\newtheorem` and
  theorem environments, macros with optional argument and default, LT-SKIP regions (left out: the
  first two change `st.envs` resp. the macro record, which the invariant `StOk3` keeps fixed).

  BELOW: the header of Proofs/PlainMix3E2E.lean, which describes the twenty-two old kinds (read
  `PlainMix4` for `PlainMix3`).

  Kinds that are in (`PlainMix4.Seg`)
    thirteen kinds of Proofs/PlainMix2E2E.lean, unchanged:
      `txt s`, `spc k`, `opn`, `cls` (hence groups `grp body` and undeclared control words with
      braced arguments `mac name args` at any depth), `cw name sp`, `van name key`, `com body`,
      `verb d s`, `ref name key`, `cite name key`, `citeN name note key`, `foot body`,
      `head name title`
    (a) `math par body`  an inline formula `$…$` (`par = false`) or `\(…\)` of the RICH class of
                         Proofs/PlainMathRichE2E.lean (instead of the simple class): letters, digits,
                         operators, `^` `_`, braces, undeclared control words (`\alpha`, `\frac`),
                         maths space (`\,` `\;` `~`), punctuation
        `acc name ws bo l`   an accent call `\name ws {l}` / `\name ws l` (`\"a`, `\'{e}`, `\c c`)
    (b) `defn name n body`   `\newcommand{\name}[n]{body}`, body = inert text and `#k`
        `use name args`      `\name{a1}…{am}` for a name that is not declared in the initialised
                             parser: a use of the definition IN FORCE at that point (the latest
                             earlier one), or — before any definition — an unknown control word
                             followed by groups
    (c) `disp body`          a simple displayed equation `\[body\]` (Proofs/PlainDisplay.lean)
        `denv name body`     … `\begin{name}body\end{name}` for an equation environment
    (d) `beg name`, `item ws`, `en name`   `\begin{name}`, `\item` + white space, `\end{name}` for
                             list environments (`enumerate`, `itemize`), in ANY order and nesting
                             (Proofs/PlainItem.lean, general form), with anything of the grammar
                             between them

    (e) `ppar ws`, `pbeg name arg`, `pen name`   `\par` + white space, `\begin{name}{arg}`,
                             `\end{name}` for PARAGRAPH-FORMING environments with one mandatory
                             argument (`minipage`, `thebibliography`; Proofs/PlainParEnv.lean), in any
                             order and nesting, with anything of the grammar between them.  All three
                             are stateless (`Item.fix`): `\par ws` = a mark and two line breaks at the
                             backslash (`ws` is dropped); `\begin{name}{arg}` = two line breaks at the
                             backslash and a mark; `\end{name}` = two line breaks at the backslash
  Structure.  The state changes along the document, so the meaning of the token buffer can no
  longer be read off while scanning.  Two stages, as in Proofs/PlainMacroArgs.lean:
    * ONE scanner lemma `scanSteps_mix4` (induction over the source): the pieces of the buffer,
      their STATIC conditions `PiecesOk T st1 ps` (relative to the initialised state) and the
      structural `Link T st1 ps items` to the items of the source;
    * ONE semantic lemma `link_sem` (induction over the link), threading the rotating collections
      of placeholders, the current state (macro table, `itemStack`) and the ENVIRONMENT of the
      definitions in force (`PlainMacroArgs.Rel`): marks, simplicity, `Live`, fuel, names, flows;
    * ONE loop lemma `seq_mix4` (induction over the pieces; invariant `StOk3 T st1 st`: declared
      macros keep their meaning, every other macro is a user macro with a good body; dispatches to
      twenty-odd step lemmas of the single-construct files);
    * `PlainMacro.removeLines_simple`, the lifts `parserWork_mix4`, `parse_mix4`,
      `tex2txt_mix4_src`, `tex2txt_mix4`.

  The end-to-end statement `tex2txt_mix4`.  `tex2txt` succeeds; text and (1-based) positions are
  `delLines (marks T st1 repls drepls [] st1.itemStack 0 0 0 segs) ++ flows 0 segs`:
    * `marks` (Proofs/PlainMix4Src.lean), `env` = the definitions in force, `stk` = the label
      generators, `k` / `k2` = the number of formulas / displayed equations in front: the thirteen
      old kinds as in `PlainMix2.marks`; the `k+1`-st formula = a mark, `PlainMathRich.fTxt T
      (placeholder repls (k+1)) m` (`[blank] placeholder [punctuation] [blank]`) with every character
      pinned to the position of the first maths token, a mark; an accent call = the character(s) of
      the accent table at the backslash (NO mark); a definition = a mark, and it is in force behind
      it; a use = a mark, the body of the definition in force with `#k` replaced by the `k`-th
      argument AT ITS OWN POSITIONS (`PlainMacroArgs.bodyMarks`), the surplus groups (`groupMarks`: a
      mark, the argument, a mark, each); a use of an undefined name = a mark and all its groups;
      the `k2+1`-st displayed equation = `dispMarks`: a mark, two blanks at the backslash, `placeholder
      drepls (k2+1)` at the first ELEMENT character of the body, the closing punctuation at the first
      visible character of the body, a mark (two more marks in front for `\begin{name}`);
      `\begin{name}` of a list = the marks of `add_pars` (two line breaks at the backslash, or a
      mark) and a mark, a generator is pushed; `\item` = `itemMarks`: a mark, a blank, the next
      label of the innermost generator, a blank, all at the backslash, the counter advances;
      `\end{name}` = the marks of `add_pars`, the generator is popped (never the last one);
    * `delLines` = `remove_pure_action_lines`, exactly;
    * `flows`: the footnote bodies behind the main text, as in `PlainMix2.flows`;
    * `unknowns` = `unkNames [] segs`, each once, in order of first use: the undeclared control
      words AND the uses of names that are not (yet) defined; no diagnostic.

  Side conditions (all in `SegsOk T st1 repls drepls segs`, decidable; `st1` = state after
  `Parser.__init__`)
    the thirteen old kinds     as in Proofs/PlainMix2E2E.lean, with `okAtV` for `okAtU` in text: the
                               short-macro test looks at the exact text of the next scanner token,
                               which may now be an accent token (`\"`) or `\[`
    `math`                     `PlainMathRich.mathOk` (delimiters scanned as such, parts `mpartsOk`,
                               at least one maths token that is no maths space)
    `acc`                      `PlainAccent.accOk` (an accent macro of the tables, not `\begin` … ;
                               white space without paragraph break; the letter in braces or not; the
                               pair has an entry in the accent table) and `accNlOk` (the value has no
                               line break or is blank: the blank-line removal is described character
                               by character)
    `defn`                     `PlainMacroArgs.defOk` (see there: `\name` a control word not declared
                               in `st1`, not protected; `n ≤ 9`; body not empty, inert characters and
                               `#k` with `1 ≤ k ≤ n`) and `PlainMacro.ncOk` (`\newcommand` is declared
                               as in `parameters.py`)
    `use`                      `PlainMacroArgs.useOk` (name not declared in `st1`, not protected; at
                               least one group; arguments non-empty strings of inert characters)
    `disp`, `denv`             `PlainDisplay.dispOk` / `envOk` (see there: `\[`, `\]`, `\begin`, `\end`
                               and the braces scanned as such; `math_default_env` resp. `name`
                               declared as an equation environment that is not removed; body as for
                               simple inline formulas, no `&`, at least one element character) and
                               `st1.displayedSimple = false` (not `--seqs`)
    `beg`, `en`                `PlainItem.begOk` / `endOk` (scanned as such, not `\begin{verbatim}`;
                               the name a non-empty string of inert characters, declared as a list
                               environment `listEnvOk`)
    `item`                     `itemOkV`: `PlainItem.itemOk` (no special sequence at the backslash;
                               white space with at most one line break; what follows is the end of
                               the source or a visible character other than `[`), what follows is no
                               comment (`skip_space` would pass it), its first token does not have
                               the text `[` (a `\verb|[|` would be taken for a label), the blank is no
                               active character (the blanks around the label are copied by the loop)
    `ppar`                     `parOkV`: `PlainParEnv.parOkS` (`\par` is one macro token; `ws` is white
                               space with at most one line break, the WHOLE run; what follows does
                               not start with skippable white space — a paragraph break is fine),
                               `PlainParEnv.parOk st1` (`\par` declared without arguments, replacement
                               = one paragraph token), what follows is no comment (`skip_space`
                               would pass it)
    `pbeg`, `pen`              `PlainParEnv.begOk` / `endOk` (scanned as such, not `\begin{verbatim}`;
                               name and argument non-empty strings of inert characters in braces;
                               the name declared with `parEnvOk`: `add_pars`, one mandatory argument,
                               no replacement, no handlers)
    `liveOk T st1 [] st1.itemStack 0 segs`   the conditions that depend on the state at that point:
                               an "undeclared" control word — `cw`, or in a formula — is not
                               user-defined there (else it would be a use: write `use`); a use has at
                               least as many groups as the definition in force has parameters; an
                               `\item` finds a label on the current stack of generators and the label
                               is fine (`PlainItem.labelAt`: exists, none of `$ \( $$ \[ \\ { }`, no
                               active character, no line break)
    `noEmptyActive`, `mathReady` (only if there is a formula), `dispReady` (only if there is a
                               displayed equation: the display collection of the language is `drepls`,
                               not empty, no placeholder with a line break unless blank; the language
                               settings exist)
    options                    no --defs, --extr, --repl, --unkn; single-language mode
    fuel                       `(render segs).length + inserted [] 0 segs + 6 ≤ fuel`: the tokens a
                               use inserts are visited by the loop again (`inserted`, computable)

  NOT covered: `\renewcommand`, `\def`, `\newcommand*`, definitions without `[n]` or with a default
  value; bodies / arguments with anything but inert text (no macros, maths, braces there); uses
  without groups (`\name` alone, also for `n = 0`: the token-level lemma asks for one group);
  redefinition of a DECLARED macro; user macros inside formulas, equations, footnotes, headings;
  accents in formulas, arguments, titles; accent calls whose argument is more than one character;
  displayed equations with `&`, `\\`, macros, `\text`, maths space, `$$ … $$`; `\item[label]`;
  list environments with arguments; everything PlainMix2E2E.lean lists as not covered, except
  accents; multi-language mode.

  Model behaviour worth knowing: a definition leaves an Action token, so a line that holds only a
  `\newcommand` disappears with its line break; the characters a use takes from the body carry the
  position of the use (before the first `#k`) resp. of the last token of the argument substituted
  last; a use before its definition is reported as unknown and its groups are read as plain groups;
  an accent call leaves NO Action token (its result is a position-fixed text token); the placeholder
  of a displayed equation maps to the first element of the body, its punctuation to the first
  visible character (not monotone for `\[= a.\]`); `\begin{enumerate}` / `\end{enumerate}` alone on a
  line disappear with the line; `\end{name}` never pops the last generator, and an `\end{itemize}`
  closes whatever list is innermost (the model does not compare the names).
-/
import YalafiVerif.Proofs.PlainMix4Sem
namespace Yalafi
namespace PlainMix4

open M
open PlainMacro hiding useSt useBody userMacro defSt Rel_init Rel
open PlainMix (MathSt ReplOk mathReady mathReady_facts)
open PlainFootnote (flowToks)
open PlainMacroArgs (argsStr_length Rel_init)

/-! ### `scan` -/

theorem OkSrc_len {T : PTables} {st : PState} {p : Nat} {s : Str} {items : List Item}
    (h : OkSrc T st p s items) : itemsLen items = s.length := by
  induction h with
  | nil p => rfl
  | chr p c cs items _ _ ih => simp only [itemsLen, ih, List.length_cons]; omega
  | spc p c tl R items _ _ ih => simp only [itemsLen, ih, List.length_cons, List.length_append]; omega
  | br p c R items _ _ _ ih => simp only [itemsLen, ih, List.length_cons]; omega
  | cw p name sp R items _ _ ih =>
    simp only [itemsLen, ih, List.length_cons, List.length_append]; omega
  | van p name key R items _ _ ih =>
    simp only [itemsLen, ih, List.length_cons, List.length_append, PlainVanish.vanLen]; omega
  | com p body R items _ _ ih =>
    simp only [itemsLen, ih, List.length_cons, List.length_append]; omega
  | verb p d s R items _ _ ih =>
    simp only [itemsLen, ih, List.length_cons, List.length_append]; omega
  | math p k c tl X R m items _ _ hm _ _ ih =>
    have := PlainMathRich.MOk_len hm
    simp only [itemsLen, ih, List.length_cons, List.length_append]; omega
  | ref p name key R items _ _ ih =>
    simp only [itemsLen, ih, List.length_cons, List.length_append, PlainRef.callLen]; omega
  | cite p name key R items _ _ _ ih =>
    simp only [itemsLen, ih, List.length_cons, List.length_append, PlainRef.callLen]; omega
  | citeN p name note key R items _ _ _ ih =>
    simp only [itemsLen, ih, List.length_cons, List.length_append, PlainRef.callNLen]; omega
  | foot p body R items _ _ _ ih =>
    simp only [itemsLen, ih, List.length_cons, List.length_append]; omega
  | head p name title R items _ _ _ ih =>
    simp only [itemsLen, ih, List.length_cons, List.length_append]; omega
  | acc p name ws bo l R items _ _ _ ih =>
    simp only [itemsLen, ih, List.length_cons, List.length_append, PlainAccent.accLen]
    cases bo <;> simp [PlainAccent.argStr] <;> omega
  | defn p name n body R items _ _ _ ih =>
    simp only [itemsLen, ih, List.length_cons, List.length_append, ncName_eq]; simp; omega
  | ddef p name n body R items _ _ ih =>
    simp only [itemsLen, ih, List.length_cons, List.length_append, PlainDefTex.defName_eq,
      PlainDefTex.paramStr_length]; simp; omega
  | ppar p ws R items _ _ ih =>
    simp only [itemsLen, ih, List.length_cons, List.length_append, PlainParEnv.parName_len]; omega
  | pbeg p name arg R items _ _ ih =>
    simp only [itemsLen, ih, List.length_cons, List.length_append, PlainItem.nBegin, List.length_nil]
    omega
  | pen p name R items _ _ ih =>
    simp only [itemsLen, ih, List.length_cons, List.length_append, PlainItem.nEnd, List.length_nil]
    omega
  | call p name body R items _ _ _ ih =>
    simp only [itemsLen, ih, List.length_cons, List.length_append]; omega
  | callO p name opt body R items _ _ _ ih =>
    simp only [itemsLen, ih, List.length_cons, List.length_append]; omega
  | fen p name R items _ _ ih =>
    simp only [itemsLen, ih, List.length_cons, List.length_append, PlainItem.nEnd, List.length_nil]; omega
  | fbegN p name note R items _ _ ih =>
    simp only [itemsLen, ih, List.length_cons, List.length_append, PlainItem.nBegin, List.length_nil]; omega
  | fbeg p name ws R items _ _ ih =>
    simp only [itemsLen, ih, List.length_cons, List.length_append, PlainItem.nBegin, List.length_nil]; omega
  | use p name args R items _ _ ih =>
    simp only [itemsLen, ih, List.length_cons, List.length_append, argsStr_length]; omega
  | disp p body R items _ _ _ ih =>
    simp only [itemsLen, ih, List.length_cons, List.length_append]; omega
  | denv p name body R items _ _ _ ih =>
    simp only [itemsLen, ih, List.length_cons, List.length_append, PlainItem.nBegin, PlainItem.nEnd,
      PlainDisplay.endSrc, List.length_nil]
    omega
  | beg p name R items _ _ ih =>
    simp only [itemsLen, ih, List.length_cons, List.length_append, PlainItem.nBegin, List.length_nil]
    omega
  | item p ws R items _ _ ih =>
    simp only [itemsLen, ih, List.length_cons, List.length_append, PlainItem.nItem, List.length_nil]
    omega
  | itemL p ws label pc R items _ _ _ ih =>
    simp only [itemsLen, ih, List.length_cons, List.length_append, PlainItem.nItem, List.length_nil]
    omega
  | ubeg p name R items _ _ ih =>
    simp only [itemsLen, ih, List.length_cons, List.length_append, PlainItem.nBegin, List.length_nil]
    omega
  | uen p name R items _ _ ih =>
    simp only [itemsLen, ih, List.length_cons, List.length_append, PlainItem.nEnd, List.length_nil]
    omega
  | en p name R items _ _ ih =>
    simp only [itemsLen, ih, List.length_cons, List.length_append, PlainItem.nEnd, List.length_nil]
    omega

/-- `scan` on a well-formed source: no diagnostics; the token buffer consists of pieces that
    correspond to the items -/
theorem scan_mix4 (T : PTables) (st : PState) (src : Str) (items : List Item)
    (h : OkSrc T st 0 src items) :
    (scan T.toTables src).diags = [] ∧
    ∃ ps, (scan T.toTables src).toks = flat ps ∧ PiecesOk T st ps ∧ Link T st ps items := by
  obtain ⟨_, F⟩ := scanSteps_mix4 T st src src.length src.length 0 src items (Nat.le_refl _)
    (Nat.le_refl _) h
  have he := flatten_tok_extra (scanSteps T.toTables src src.length 0 src).1 (fun s hs => (F.ok s hs).2)
  have hd := flatten_diag_nil (scanSteps T.toTables src src.length 0 src).1 (fun s hs => (F.ok s hs).1)
  obtain ⟨ps, h1, h2, h3⟩ := F.pieces
  simp only [scan]
  rw [he, hd]
  exact ⟨rfl, ps, h1, h2, h3⟩

/-! ### `parserWork`, `parse`, `tex2txt` -/

/-- **`parserWork` on a well-formed source** (root level: `nest = 0` before the call); `st1` = the
    state the side conditions refer to, `st` = the actual state (same macro table).  The
    characters of the result tokens are the reference for the main flow; the flows are appended to
    `extracted`; the unknown names are recorded. -/
theorem parserWork_mix4 (T : PTables) (st1 st : PState) (src : Str) (fuel : Nat) (items : List Item)
    (rot : Rot) (ls : LangSettings)
    (hf : src.length + refIns [] items + 6 ≤ fuel) (ha : noEmptyActive T st1 = true)
    (hst : StOk3 T st1 st) (hmac : st.macros = st1.macros) (hn : st.nest = 0)
    (h : OkSrc T st1 0 src items) (hlive : refOk [] st.itemStack items = true)
    (hpv : refPv T st.itemStack (some none) items = true)
    (hm : RotOk T st rot ls (refNF items) (refND items))
    (hr : CollOk (rot.inl, rot.disp) (refNF items) (refND items)) :
    ∃ r st3 fls, parserWork T fuel src st = .ok (r, st3) ∧
      st3.unknowns = (refNames [] items).foldl addU st.unknowns ∧
      st3.extracted = st.extracted ++ fls ∧ st3.diags = st.diags ∧ st3.foreign = st.foreign ∧
      charsOf r = delLines (refMarks T (rot.inl, rot.disp) [] st.itemStack items) ∧
      charsOf (fls.map flowToks).flatten = refFlows items := by
  obtain ⟨f, rfl⟩ : ∃ f, fuel = f + 1 := ⟨fuel - 1, by omega⟩
  obtain ⟨hd, ps, hflat, hpok, hlink⟩ := scan_mix4 T st1 src items h
  let st' : PState := { st with latex := src, nest := st.nest + 1 }
  have hst' : StOk3 T st1 st' := hst.of_eq rfl rfl rfl rfl rfl rfl rfl rfl rfl
  have S := link_sem T st1 hlink hpok (rot.inl, rot.disp) st' [] (some none) hst' (Rel_init st1 st' hmac)
    ((BS.refl st1).of_macros hmac) hlive hpv
  have hlen := OkSrc_len h
  obtain ⟨st2, hs, hst2⟩ := seq_mix4 T none rfl ls st1 ha ps.length ps (Nat.le_refl _) f [] st' rot
    (by have := S.cost; omega) hpok S.live hst'
    (by rw [S.nmath, S.ndisp]; exact RotOk.congr (st := st) rfl rfl hm)
    (S.pvok [] (by intro v hv; cases hv; rfl))
  rw [List.nil_append] at hs
  obtain ⟨r, hr', hchars⟩ := removeLines_simple _ (S.simple (by rw [S.nmath, S.ndisp]; exact hr))
  rw [hr'] at hs
  simp only [] at hs
  rw [S.marks] at hchars
  obtain ⟨g1, g2, g3, g4, g5, g6⟩ := finalSt_fields ps st'
  refine ⟨r, { st2 with latex := st.latex, nest := st2.nest - 1 }, flowsOf ps, ?_, ?_, ?_, ?_, ?_,
    hchars, S.flows⟩
  · rw [parserWork.eq_2]
    refine (M.bind_ok _ _ _ _ _ (rfl : M.get st = _)).trans ?_
    refine (M.bind_ok _ _ _ _ _ (rfl : M.modify _ _ = _)).trans ?_
    refine (M.bind_ok _ _ _ _ _ (rfl : M.modify _ _ = _)).trans ?_
    refine (M.bind_ok _ _ _ _ _ (rfl : M.get _ = _)).trans ?_
    simp only [hd, List.append_nil]
    rw [Comment.skipPass_nobegin { st with latex := src, nest := st.nest + 1 } _ _
      (fun t ht' => by
        have := hpok.nobegin t (by rw [← hflat]; exact ht')
        rw [← hst.skip] at this
        exact this)]
    simp only []
    refine (M.bind_ok _ _ _ _ _ (rfl : (pure _ : M (List Tok)) _ = _)).trans ?_
    rw [hflat]
    refine (M.bind_ok _ _ _ _ _ hs).trans ?_
    refine (M.bind_ok _ _ _ _ _ (rfl : M.modify _ _ = _)).trans ?_
    rfl
  · show st2.unknowns = _
    rw [congrArg PState.unknowns hst2]
    show (finalSt st' ps).unknowns = _
    rw [g1, S.names]
  · show st2.extracted = _
    rw [congrArg PState.extracted hst2]
    exact g2
  · show st2.diags = _
    rw [congrArg PState.diags hst2]
    exact g3
  · show st2.foreign = _
    rw [congrArg PState.foreign hst2]
    show (finalSt st' ps).foreign = _
    rw [g6]
    simp [st', hn]

theorem parse_mix4 (T : PTables) (st : PState) (src : Str) (fuel : Nat) (items : List Item)
    (rot : Rot) (ls : LangSettings)
    (hf : src.length + refIns [] items + 6 ≤ fuel) (ha : noEmptyActive T st = true)
    (h : OkSrc T st 0 src items) (hlive : refOk [] st.itemStack items = true)
    (hpv : refPv T st.itemStack (some none) items = true)
    (hm : RotOk T st rot ls (refNF items) (refND items))
    (hr : CollOk (rot.inl, rot.disp) (refNF items) (refND items)) :
    ∃ r st3, parse T fuel src [] [] st = .ok (r, st3) ∧
      st3.unknowns = (refNames [] items).eraseDups ∧ st3.diags = st.diags ∧ st3.foreign = false ∧
      charsOf r = delLines (refMarks T (rot.inl, rot.disp) [] st.itemStack items) ++ refFlows items := by
  obtain ⟨r, st3, fls, hw, h1, h2, h3, h4, hc, hfl⟩ := parserWork_mix4 T st
    { st with extracted := [], unknowns := [], foreign := false, nest := 0 } src fuel items rot ls
    hf ha ((StOk3.refl T st).of_eq rfl rfl rfl rfl rfl rfl rfl rfl rfl) rfl rfl h hlive hpv
    (RotOk.congr (st := st) rfl rfl hm) hr
  refine ⟨[] ++ r ++ (st3.extracted.map flowToks).flatten, st3, ?_, ?_, h3, h4, ?_⟩
  · unfold parse
    simp only [List.isEmpty_nil, Bool.not_true, Bool.false_eq_true, if_false, if_true]
    refine (M.bind_ok _ _ _ _ _ (rfl : M.modify _ _ = _)).trans ?_
    refine (M.bind_ok _ _ _ _ _ (rfl : (pure _ : M (List Tok)) _ = _)).trans ?_
    refine (M.bind_ok _ _ _ _ _ (rfl : M.modify _ _ = _)).trans ?_
    refine (M.bind_ok _ _ _ _ _ hw).trans ?_
    refine (M.bind_ok _ _ _ _ _ (rfl : M.get _ = _)).trans ?_
    rfl
  · rw [h1]
    exact foldl_addU_nil _
  · rw [h2]
    simp only [List.nil_append, charsOf_append, hc, hfl]

/-- the result record of `tex2txt` on a well-formed source (no `--defs`, `--extr`, `--repl`,
    `--unkn`; single-language mode) -/
theorem tex2txt_mix4_src (T : PTables) (o : Options) (fs : FS) (thresh : Nat) (src : Str) (fuel : Nat)
    (st1 : PState) (items : List Item) (rot : Rot) (ls : LangSettings)
    (hdefs : o.defs = []) (hextr : o.extr = []) (hrepl : o.hasRepl = false) (hunkn : o.unkn = false)
    (hinit : initParser T fuel o (initialState T o false fs) = .ok ((), st1))
    (ha : noEmptyActive T st1 = true) (h : OkSrc T st1 0 src items)
    (hlive : refOk [] st1.itemStack items = true)
    (hpv : refPv T st1.itemStack (some none) items = true)
    (hm : RotOk T st1 rot ls (refNF items) (refND items))
    (hr : CollOk (rot.inl, rot.disp) (refNF items) (refND items))
    (hf : src.length + refIns [] items + 6 ≤ fuel) :
    ∃ r, tex2txt T fuel src o false thresh fs = .ok r ∧
      r.txt = (delLines (refMarks T (rot.inl, rot.disp) [] st1.itemStack items)
                ++ refFlows items).map (·.1) ∧
      r.pos = (delLines (refMarks T (rot.inl, rot.disp) [] st1.itemStack items)
                ++ refFlows items).map (·.2 + 1) ∧
      r.unknowns = (refNames [] items).eraseDups ∧ r.diags = st1.diags ∧ r.parts = [] := by
  obtain ⟨r, st3, hp, h1, h2, h3, hc⟩ := parse_mix4 T st1 src fuel items rot ls hf ha h hlive hpv hm hr
  have hrun : (initParser T fuel o >>= fun _ => parse T fuel src o.defs
        (if o.extr.isEmpty then [] else (splitOn ',' o.extr []).map (fun s => '\\' :: s)))
        (initialState T o false fs)
      = .ok (r, st3) := by
    refine (M.bind_ok _ _ _ _ _ hinit).trans ?_
    rw [hdefs, hextr]
    exact hp
  unfold tex2txt
  simp only []
  rw [hrun]
  simp only [hrepl, hunkn, Bool.not_false, if_true, Bool.false_eq_true, if_false]
  refine ⟨_, rfl, ?_, ?_, h1, h2, rfl⟩
  · simp only [getTxtPos_charsOf, hc]
  · simp only [getTxtPos_charsOf, hc, List.map_map]
    rfl

/-! ### the reference on the level of segments -/

theorem refMarks_itemsOf (T : PTables) (st1 : PState) (repls drepls : List Str) :
    ∀ (segs : List Seg) (l : Colls) (env : Env) (stk : List ItemGen) (k k2 p : Nat),
      (nFormulas segs ≠ 0 → repls ≠ [] ∧ l.1 = PlainMath.rotN k repls) →
      (nDisplays segs ≠ 0 → drepls ≠ [] ∧ l.2 = PlainMath.rotN k2 drepls) →
      refMarks T l env stk (itemsOf T st1 p segs) = marks T st1 repls drepls env stk k k2 p segs
  | [], _, _, _, _, _, _, _, _ => rfl
  | .txt s :: rest, l, env, stk, k, k2, p, h1, h2 => by
    simp only [itemsOf, marks, refMarks_chrItems,
      refMarks_itemsOf T st1 repls drepls rest l env stk k k2 _ h1 h2]
  | .spc _ :: rest, l, env, stk, k, k2, p, h1, h2 => by
    simp only [itemsOf, marks, refMarks, refMarks_itemsOf T st1 repls drepls rest l env stk k k2 _ h1 h2]
  | .opn :: rest, l, env, stk, k, k2, p, h1, h2 => by
    simp only [itemsOf, marks, refMarks, refMarks_itemsOf T st1 repls drepls rest l env stk k k2 _ h1 h2]
  | .cls :: rest, l, env, stk, k, k2, p, h1, h2 => by
    simp only [itemsOf, marks, refMarks, refMarks_itemsOf T st1 repls drepls rest l env stk k k2 _ h1 h2]
  | .cw _ _ :: rest, l, env, stk, k, k2, p, h1, h2 => by
    simp only [itemsOf, marks, refMarks, refMarks_itemsOf T st1 repls drepls rest l env stk k k2 _ h1 h2]
  | .van _ _ :: rest, l, env, stk, k, k2, p, h1, h2 => by
    simp only [itemsOf, marks, refMarks, refMarks_itemsOf T st1 repls drepls rest l env stk k k2 _ h1 h2]
  | .com _ :: rest, l, env, stk, k, k2, p, h1, h2 => by
    simp only [itemsOf, marks, refMarks, refMarks_itemsOf T st1 repls drepls rest l env stk k k2 _ h1 h2]
  | .verb _ _ :: rest, l, env, stk, k, k2, p, h1, h2 => by
    simp only [itemsOf, marks, refMarks, refMarks_itemsOf T st1 repls drepls rest l env stk k k2 _ h1 h2]
  | .ref _ _ :: rest, l, env, stk, k, k2, p, h1, h2 => by
    simp only [itemsOf, marks, refMarks, refMarks_itemsOf T st1 repls drepls rest l env stk k k2 _ h1 h2]
  | .cite _ _ :: rest, l, env, stk, k, k2, p, h1, h2 => by
    simp only [itemsOf, marks, refMarks, refMarks_itemsOf T st1 repls drepls rest l env stk k k2 _ h1 h2]
  | .citeN _ _ _ :: rest, l, env, stk, k, k2, p, h1, h2 => by
    simp only [itemsOf, marks, refMarks, refMarks_itemsOf T st1 repls drepls rest l env stk k k2 _ h1 h2]
  | .foot _ :: rest, l, env, stk, k, k2, p, h1, h2 => by
    simp only [itemsOf, marks, refMarks, refMarks_itemsOf T st1 repls drepls rest l env stk k k2 _ h1 h2]
  | .head _ _ :: rest, l, env, stk, k, k2, p, h1, h2 => by
    simp only [itemsOf, marks, refMarks, refMarks_itemsOf T st1 repls drepls rest l env stk k k2 _ h1 h2]
  | .acc _ _ _ _ :: rest, l, env, stk, k, k2, p, h1, h2 => by
    simp only [itemsOf, marks, refMarks, refMarks_itemsOf T st1 repls drepls rest l env stk k k2 _ h1 h2]
  | .use _ _ :: rest, l, env, stk, k, k2, p, h1, h2 => by
    simp only [itemsOf, marks, refMarks, refMarks_itemsOf T st1 repls drepls rest l env stk k k2 _ h1 h2]
  | .ddef name n body :: rest, l, env, stk, k, k2, p, h1, h2 => by
    simp only [itemsOf, marks, refMarks,
      refMarks_itemsOf T st1 repls drepls rest l ((name, n, body) :: env) stk k k2 _ h1 h2]
  | .ppar _ :: rest, l, env, stk, k, k2, p, h1, h2 => by
    simp only [itemsOf, marks, refMarks, refMarks_itemsOf T st1 repls drepls rest l env stk k k2 _ h1 h2]
  | .pbeg _ _ :: rest, l, env, stk, k, k2, p, h1, h2 => by
    simp only [itemsOf, marks, refMarks, refMarks_itemsOf T st1 repls drepls rest l env stk k k2 _ h1 h2]
  | .pen _ :: rest, l, env, stk, k, k2, p, h1, h2 => by
    simp only [itemsOf, marks, refMarks, refMarks_itemsOf T st1 repls drepls rest l env stk k k2 _ h1 h2]
  | .call _ _ :: rest, l, env, stk, k, k2, p, h1, h2 => by
    simp only [itemsOf, marks, refMarks, refMarks_itemsOf T st1 repls drepls rest l env stk k k2 _ h1 h2]
  | .callO _ _ _ :: rest, l, env, stk, k, k2, p, h1, h2 => by
    simp only [itemsOf, marks, refMarks, refMarks_itemsOf T st1 repls drepls rest l env stk k k2 _ h1 h2]
  | .fen _ :: rest, l, env, stk, k, k2, p, h1, h2 => by
    simp only [itemsOf, marks, refMarks, refMarks_itemsOf T st1 repls drepls rest l env stk k k2 _ h1 h2]
  | .fbegN _ _ :: rest, l, env, stk, k, k2, p, h1, h2 => by
    simp only [itemsOf, marks, refMarks, refMarks_itemsOf T st1 repls drepls rest l env stk k k2 _ h1 h2]
  | .fbeg _ _ :: rest, l, env, stk, k, k2, p, h1, h2 => by
    simp only [itemsOf, marks, refMarks, refMarks_itemsOf T st1 repls drepls rest l env stk k k2 _ h1 h2]
  | .defn name n body :: rest, l, env, stk, k, k2, p, h1, h2 => by
    simp only [itemsOf, marks, refMarks,
      refMarks_itemsOf T st1 repls drepls rest l ((name, n, body) :: env) stk k k2 _ h1 h2]
  | .math _ _ :: rest, l, env, stk, k, k2, p, h1, h2 => by
    obtain ⟨hne, hl⟩ := h1 (by simp [nFormulas])
    have e1 : rotL l.1 = PlainMath.rotN (k + 1) repls := by rw [hl, PlainMath.rotN_succ]
    simp only [itemsOf, marks, refMarks]
    rw [refMarks_itemsOf T st1 repls drepls rest (rotL l.1, l.2) env stk (k + 1) k2 _
      (fun _ => ⟨hne, e1⟩) h2, e1, PlainMath.rotN_headD repls hne]
  | .disp _ :: rest, l, env, stk, k, k2, p, h1, h2 => by
    obtain ⟨hne, hl⟩ := h2 (by simp [nDisplays])
    have e1 : rotL l.2 = PlainMath.rotN (k2 + 1) drepls := by rw [hl, PlainMath.rotN_succ]
    simp only [itemsOf, marks, refMarks]
    rw [refMarks_itemsOf T st1 repls drepls rest (l.1, rotL l.2) env stk k (k2 + 1) _
      h1 (fun _ => ⟨hne, e1⟩), e1, PlainMath.rotN_headD drepls hne]
  | .denv _ _ :: rest, l, env, stk, k, k2, p, h1, h2 => by
    obtain ⟨hne, hl⟩ := h2 (by simp [nDisplays])
    have e1 : rotL l.2 = PlainMath.rotN (k2 + 1) drepls := by rw [hl, PlainMath.rotN_succ]
    simp only [itemsOf, marks, refMarks]
    rw [refMarks_itemsOf T st1 repls drepls rest (l.1, rotL l.2) env stk k (k2 + 1) _
      h1 (fun _ => ⟨hne, e1⟩), e1, PlainMath.rotN_headD drepls hne]
  | .beg name :: rest, l, env, stk, k, k2, p, h1, h2 => by
    simp only [itemsOf, marks, refMarks, List.append_assoc, List.singleton_append,
      refMarks_itemsOf T st1 repls drepls rest l env _ k k2 _ h1 h2]
  | .item ws :: rest, l, env, stk, k, k2, p, h1, h2 => by
    simp only [itemsOf, marks, refMarks, refMarks_itemsOf T st1 repls drepls rest l env _ k k2 _ h1 h2]
  | .itemL ws label pc :: rest, l, env, stk, k, k2, p, h1, h2 => by
    simp only [itemsOf, marks, refMarks, refMarks_itemsOf T st1 repls drepls rest l env _ k k2 _ h1 h2]
  | .ubeg name :: rest, l, env, stk, k, k2, p, h1, h2 => by
    simp only [itemsOf, marks, refMarks, refMarks_itemsOf T st1 repls drepls rest l env _ k k2 _ h1 h2]
  | .uen name :: rest, l, env, stk, k, k2, p, h1, h2 => by
    simp only [itemsOf, marks, refMarks, refMarks_itemsOf T st1 repls drepls rest l env _ k k2 _ h1 h2]
  | .en name :: rest, l, env, stk, k, k2, p, h1, h2 => by
    simp only [itemsOf, marks, refMarks, refMarks_itemsOf T st1 repls drepls rest l env _ k k2 _ h1 h2]

theorem refNames_itemsOf (T : PTables) (st1 : PState) : ∀ (segs : List Seg) (env : Env) (p : Nat),
    refNames env (itemsOf T st1 p segs) = unkNames env segs
  | [], _, _ => rfl
  | .txt s :: rest, env, p => by
    simp only [itemsOf, unkNames, refNames_chrItems, refNames_itemsOf T st1 rest]
  | .spc _ :: rest, env, p => by simp only [itemsOf, unkNames, refNames, refNames_itemsOf T st1 rest]
  | .opn :: rest, env, p => by simp only [itemsOf, unkNames, refNames, refNames_itemsOf T st1 rest]
  | .cls :: rest, env, p => by simp only [itemsOf, unkNames, refNames, refNames_itemsOf T st1 rest]
  | .cw _ _ :: rest, env, p => by simp only [itemsOf, unkNames, refNames, refNames_itemsOf T st1 rest]
  | .van _ _ :: rest, env, p => by simp only [itemsOf, unkNames, refNames, refNames_itemsOf T st1 rest]
  | .com _ :: rest, env, p => by simp only [itemsOf, unkNames, refNames, refNames_itemsOf T st1 rest]
  | .verb _ _ :: rest, env, p => by simp only [itemsOf, unkNames, refNames, refNames_itemsOf T st1 rest]
  | .math _ _ :: rest, env, p => by simp only [itemsOf, unkNames, refNames, refNames_itemsOf T st1 rest]
  | .ref _ _ :: rest, env, p => by simp only [itemsOf, unkNames, refNames, refNames_itemsOf T st1 rest]
  | .cite _ _ :: rest, env, p => by simp only [itemsOf, unkNames, refNames, refNames_itemsOf T st1 rest]
  | .citeN _ _ _ :: rest, env, p => by simp only [itemsOf, unkNames, refNames, refNames_itemsOf T st1 rest]
  | .foot _ :: rest, env, p => by simp only [itemsOf, unkNames, refNames, refNames_itemsOf T st1 rest]
  | .head _ _ :: rest, env, p => by simp only [itemsOf, unkNames, refNames, refNames_itemsOf T st1 rest]
  | .acc _ _ _ _ :: rest, env, p => by simp only [itemsOf, unkNames, refNames, refNames_itemsOf T st1 rest]
  | .ddef _ _ _ :: rest, env, p => by simp only [itemsOf, unkNames, refNames, refNames_itemsOf T st1 rest]
  | .ppar _ :: rest, env, p => by simp only [itemsOf, unkNames, refNames, refNames_itemsOf T st1 rest]
  | .pbeg _ _ :: rest, env, p => by simp only [itemsOf, unkNames, refNames, refNames_itemsOf T st1 rest]
  | .pen _ :: rest, env, p => by simp only [itemsOf, unkNames, refNames, refNames_itemsOf T st1 rest]
  | .call _ _ :: rest, env, p => by simp only [itemsOf, unkNames, refNames, refNames_itemsOf T st1 rest]
  | .callO _ _ _ :: rest, env, p => by simp only [itemsOf, unkNames, refNames, refNames_itemsOf T st1 rest]
  | .fen _ :: rest, env, p => by simp only [itemsOf, unkNames, refNames, refNames_itemsOf T st1 rest]
  | .fbegN _ _ :: rest, env, p => by simp only [itemsOf, unkNames, refNames, refNames_itemsOf T st1 rest]
  | .fbeg _ _ :: rest, env, p => by simp only [itemsOf, unkNames, refNames, refNames_itemsOf T st1 rest]
  | .defn _ _ _ :: rest, env, p => by simp only [itemsOf, unkNames, refNames, refNames_itemsOf T st1 rest]
  | .use _ _ :: rest, env, p => by simp only [itemsOf, unkNames, refNames, refNames_itemsOf T st1 rest]
  | .disp _ :: rest, env, p => by simp only [itemsOf, unkNames, refNames, refNames_itemsOf T st1 rest]
  | .beg _ :: rest, env, p => by simp only [itemsOf, unkNames, refNames, refNames_itemsOf T st1 rest]
  | .denv _ _ :: rest, env, p => by simp only [itemsOf, unkNames, refNames, refNames_itemsOf T st1 rest]
  | .item _ :: rest, env, p => by simp only [itemsOf, unkNames, refNames, refNames_itemsOf T st1 rest]
  | .itemL _ _ _ :: rest, env, p => by simp only [itemsOf, unkNames, refNames, refNames_itemsOf T st1 rest]
  | .ubeg _ :: rest, env, p => by simp only [itemsOf, unkNames, refNames, refNames_itemsOf T st1 rest]
  | .uen _ :: rest, env, p => by simp only [itemsOf, unkNames, refNames, refNames_itemsOf T st1 rest]
  | .en _ :: rest, env, p => by simp only [itemsOf, unkNames, refNames, refNames_itemsOf T st1 rest]

theorem refOk_itemsOf (T : PTables) (st1 : PState) :
    ∀ (segs : List Seg) (env : Env) (stk : List ItemGen) (p : Nat),
      refOk env stk (itemsOf T st1 p segs) = liveOk T st1 env stk p segs
  | [], _, _, _ => rfl
  | .txt s :: rest, env, stk, p => by
    simp only [itemsOf, liveOk, refOk_chrItems, refOk_itemsOf T st1 rest, Seg.len, Seg.render]
  | .spc _ :: rest, env, stk, p => by simp only [itemsOf, liveOk, refOk, refOk_itemsOf T st1 rest]
  | .opn :: rest, env, stk, p => by simp only [itemsOf, liveOk, refOk, refOk_itemsOf T st1 rest]
  | .cls :: rest, env, stk, p => by simp only [itemsOf, liveOk, refOk, refOk_itemsOf T st1 rest]
  | .cw _ _ :: rest, env, stk, p => by simp only [itemsOf, liveOk, refOk, refOk_itemsOf T st1 rest]
  | .van _ _ :: rest, env, stk, p => by simp only [itemsOf, liveOk, refOk, refOk_itemsOf T st1 rest]
  | .com _ :: rest, env, stk, p => by simp only [itemsOf, liveOk, refOk, refOk_itemsOf T st1 rest]
  | .verb _ _ :: rest, env, stk, p => by simp only [itemsOf, liveOk, refOk, refOk_itemsOf T st1 rest]
  | .math _ _ :: rest, env, stk, p => by simp only [itemsOf, liveOk, refOk, refOk_itemsOf T st1 rest]
  | .ref _ _ :: rest, env, stk, p => by simp only [itemsOf, liveOk, refOk, refOk_itemsOf T st1 rest]
  | .cite _ _ :: rest, env, stk, p => by simp only [itemsOf, liveOk, refOk, refOk_itemsOf T st1 rest]
  | .citeN _ _ _ :: rest, env, stk, p => by simp only [itemsOf, liveOk, refOk, refOk_itemsOf T st1 rest]
  | .foot _ :: rest, env, stk, p => by simp only [itemsOf, liveOk, refOk, refOk_itemsOf T st1 rest]
  | .head _ _ :: rest, env, stk, p => by simp only [itemsOf, liveOk, refOk, refOk_itemsOf T st1 rest]
  | .acc _ _ _ _ :: rest, env, stk, p => by simp only [itemsOf, liveOk, refOk, refOk_itemsOf T st1 rest]
  | .ddef _ _ _ :: rest, env, stk, p => by simp only [itemsOf, liveOk, refOk, refOk_itemsOf T st1 rest]
  | .ppar _ :: rest, env, stk, p => by simp only [itemsOf, liveOk, refOk, refOk_itemsOf T st1 rest]
  | .pbeg _ _ :: rest, env, stk, p => by simp only [itemsOf, liveOk, refOk, refOk_itemsOf T st1 rest]
  | .pen _ :: rest, env, stk, p => by simp only [itemsOf, liveOk, refOk, refOk_itemsOf T st1 rest]
  | .call _ _ :: rest, env, stk, p => by simp only [itemsOf, liveOk, refOk, refOk_itemsOf T st1 rest]
  | .callO _ _ _ :: rest, env, stk, p => by simp only [itemsOf, liveOk, refOk, refOk_itemsOf T st1 rest]
  | .fen _ :: rest, env, stk, p => by simp only [itemsOf, liveOk, refOk, refOk_itemsOf T st1 rest]
  | .fbegN _ _ :: rest, env, stk, p => by simp only [itemsOf, liveOk, refOk, refOk_itemsOf T st1 rest]
  | .fbeg _ _ :: rest, env, stk, p => by simp only [itemsOf, liveOk, refOk, refOk_itemsOf T st1 rest]
  | .defn _ _ _ :: rest, env, stk, p => by simp only [itemsOf, liveOk, refOk, refOk_itemsOf T st1 rest]
  | .use _ _ :: rest, env, stk, p => by simp only [itemsOf, liveOk, refOk, refOk_itemsOf T st1 rest]
  | .disp _ :: rest, env, stk, p => by simp only [itemsOf, liveOk, refOk, refOk_itemsOf T st1 rest]
  | .beg _ :: rest, env, stk, p => by simp only [itemsOf, liveOk, refOk, Bool.true_and, refOk_itemsOf T st1 rest]
  | .denv _ _ :: rest, env, stk, p => by simp only [itemsOf, liveOk, refOk, refOk_itemsOf T st1 rest]
  | .item _ :: rest, env, stk, p => by simp only [itemsOf, liveOk, refOk, refOk_itemsOf T st1 rest]
  | .itemL _ _ _ :: rest, env, stk, p => by simp only [itemsOf, liveOk, refOk, refOk_itemsOf T st1 rest]
  | .ubeg _ :: rest, env, stk, p => by simp only [itemsOf, liveOk, refOk, refOk_itemsOf T st1 rest]
  | .uen _ :: rest, env, stk, p => by simp only [itemsOf, liveOk, refOk, refOk_itemsOf T st1 rest]
  | .en _ :: rest, env, stk, p => by simp only [itemsOf, liveOk, refOk, Bool.true_and, refOk_itemsOf T st1 rest]

theorem refPv_itemsOf (T : PTables) (st1 : PState) :
    ∀ (segs : List Seg) (stk : List ItemGen) (k : PvK) (p : Nat),
      refPv T stk k (itemsOf T st1 p segs) = pvLive T st1 stk k p segs
  | [], _, _, _ => rfl
  | .txt s :: rest, stk, k, p => by
    simp only [itemsOf, pvLive, refPv_chrItems, refPv_itemsOf T st1 rest]
  | .spc _ :: rest, stk, k, p => by simp only [itemsOf, pvLive, refPv, refPv_itemsOf T st1 rest]
  | .opn :: rest, stk, k, p => by simp only [itemsOf, pvLive, refPv, refPv_itemsOf T st1 rest]
  | .cls :: rest, stk, k, p => by simp only [itemsOf, pvLive, refPv, refPv_itemsOf T st1 rest]
  | .van _ _ :: rest, stk, k, p => by simp only [itemsOf, pvLive, refPv, refPv_itemsOf T st1 rest]
  | .com _ :: rest, stk, k, p => by simp only [itemsOf, pvLive, refPv, refPv_itemsOf T st1 rest]
  | .verb _ _ :: rest, stk, k, p => by simp only [itemsOf, pvLive, refPv, refPv_itemsOf T st1 rest]
  | .ref _ _ :: rest, stk, k, p => by simp only [itemsOf, pvLive, refPv, refPv_itemsOf T st1 rest]
  | .cite _ _ :: rest, stk, k, p => by simp only [itemsOf, pvLive, refPv, refPv_itemsOf T st1 rest]
  | .citeN _ _ _ :: rest, stk, k, p => by simp only [itemsOf, pvLive, refPv, refPv_itemsOf T st1 rest]
  | .head _ _ :: rest, stk, k, p => by simp only [itemsOf, pvLive, refPv, refPv_itemsOf T st1 rest]
  | .acc _ _ _ _ :: rest, stk, k, p => by simp only [itemsOf, pvLive, refPv, refPv_itemsOf T st1 rest]
  | .cw _ _ :: rest, stk, k, p => by simp only [itemsOf, pvLive, refPv, refPv_itemsOf T st1 rest]
  | .math _ _ :: rest, stk, k, p => by simp only [itemsOf, pvLive, refPv, refPv_itemsOf T st1 rest]
  | .foot _ :: rest, stk, k, p => by simp only [itemsOf, pvLive, refPv, refPv_itemsOf T st1 rest]
  | .defn _ _ _ :: rest, stk, k, p => by simp only [itemsOf, pvLive, refPv, refPv_itemsOf T st1 rest]
  | .ddef _ _ _ :: rest, stk, k, p => by simp only [itemsOf, pvLive, refPv, refPv_itemsOf T st1 rest]
  | .use _ _ :: rest, stk, k, p => by simp only [itemsOf, pvLive, refPv, refPv_itemsOf T st1 rest]
  | .disp _ :: rest, stk, k, p => by simp only [itemsOf, pvLive, refPv, refPv_itemsOf T st1 rest]
  | .denv _ _ :: rest, stk, k, p => by simp only [itemsOf, pvLive, refPv, refPv_itemsOf T st1 rest]
  | .beg _ :: rest, stk, k, p => by simp only [itemsOf, pvLive, refPv, refPv_itemsOf T st1 rest]
  | .item _ :: rest, stk, k, p => by simp only [itemsOf, pvLive, refPv, refPv_itemsOf T st1 rest]
  | .itemL _ _ _ :: rest, stk, k, p => by simp only [itemsOf, pvLive, refPv, refPv_itemsOf T st1 rest]
  | .ppar _ :: rest, stk, k, p => by simp only [itemsOf, pvLive, refPv, refPv_itemsOf T st1 rest]
  | .pbeg _ _ :: rest, stk, k, p => by simp only [itemsOf, pvLive, refPv, refPv_itemsOf T st1 rest]
  | .pen _ :: rest, stk, k, p => by simp only [itemsOf, pvLive, refPv, refPv_itemsOf T st1 rest]
  | .ubeg _ :: rest, stk, k, p => by simp only [itemsOf, pvLive, refPv, refPv_itemsOf T st1 rest]
  | .uen _ :: rest, stk, k, p => by simp only [itemsOf, pvLive, refPv, refPv_itemsOf T st1 rest]
  | .call _ _ :: rest, stk, k, p => by simp only [itemsOf, pvLive, refPv, refPv_itemsOf T st1 rest]
  | .callO _ _ _ :: rest, stk, k, p => by simp only [itemsOf, pvLive, refPv, refPv_itemsOf T st1 rest]
  | .fen _ :: rest, stk, k, p => by simp only [itemsOf, pvLive, refPv, refPv_itemsOf T st1 rest]
  | .fbegN _ _ :: rest, stk, k, p => by simp only [itemsOf, pvLive, refPv, refPv_itemsOf T st1 rest]
  | .fbeg _ _ :: rest, stk, k, p => by simp only [itemsOf, pvLive, refPv, refPv_itemsOf T st1 rest]
  | .en _ :: rest, stk, k, p => by simp only [itemsOf, pvLive, refPv, refPv_itemsOf T st1 rest]

theorem refIns_itemsOf (T : PTables) (st1 : PState) : ∀ (segs : List Seg) (env : Env) (p : Nat),
    refIns env (itemsOf T st1 p segs) = inserted env p segs
  | [], _, _ => rfl
  | .txt s :: rest, env, p => by
    simp only [itemsOf, inserted, refIns_chrItems, refIns_itemsOf T st1 rest, Seg.len, Seg.render]
  | .spc _ :: rest, env, p => by simp only [itemsOf, inserted, refIns, refIns_itemsOf T st1 rest]
  | .opn :: rest, env, p => by simp only [itemsOf, inserted, refIns, refIns_itemsOf T st1 rest]
  | .cls :: rest, env, p => by simp only [itemsOf, inserted, refIns, refIns_itemsOf T st1 rest]
  | .cw _ _ :: rest, env, p => by simp only [itemsOf, inserted, refIns, refIns_itemsOf T st1 rest]
  | .van _ _ :: rest, env, p => by simp only [itemsOf, inserted, refIns, refIns_itemsOf T st1 rest]
  | .com _ :: rest, env, p => by simp only [itemsOf, inserted, refIns, refIns_itemsOf T st1 rest]
  | .verb _ _ :: rest, env, p => by simp only [itemsOf, inserted, refIns, refIns_itemsOf T st1 rest]
  | .math _ _ :: rest, env, p => by simp only [itemsOf, inserted, refIns, refIns_itemsOf T st1 rest]
  | .ref _ _ :: rest, env, p => by simp only [itemsOf, inserted, refIns, refIns_itemsOf T st1 rest]
  | .cite _ _ :: rest, env, p => by simp only [itemsOf, inserted, refIns, refIns_itemsOf T st1 rest]
  | .citeN _ _ _ :: rest, env, p => by simp only [itemsOf, inserted, refIns, refIns_itemsOf T st1 rest]
  | .foot _ :: rest, env, p => by simp only [itemsOf, inserted, refIns, refIns_itemsOf T st1 rest]
  | .head _ _ :: rest, env, p => by simp only [itemsOf, inserted, refIns, refIns_itemsOf T st1 rest]
  | .acc _ _ _ _ :: rest, env, p => by simp only [itemsOf, inserted, refIns, refIns_itemsOf T st1 rest]
  | .ddef _ _ _ :: rest, env, p => by simp only [itemsOf, inserted, refIns, refIns_itemsOf T st1 rest]
  | .ppar _ :: rest, env, p => by simp only [itemsOf, inserted, refIns, refIns_itemsOf T st1 rest]
  | .pbeg _ _ :: rest, env, p => by simp only [itemsOf, inserted, refIns, refIns_itemsOf T st1 rest]
  | .pen _ :: rest, env, p => by simp only [itemsOf, inserted, refIns, refIns_itemsOf T st1 rest]
  | .call _ _ :: rest, env, p => by simp only [itemsOf, inserted, refIns, refIns_itemsOf T st1 rest]
  | .callO _ _ _ :: rest, env, p => by simp only [itemsOf, inserted, refIns, refIns_itemsOf T st1 rest]
  | .fen _ :: rest, env, p => by simp only [itemsOf, inserted, refIns, refIns_itemsOf T st1 rest]
  | .fbegN _ _ :: rest, env, p => by simp only [itemsOf, inserted, refIns, refIns_itemsOf T st1 rest]
  | .fbeg _ _ :: rest, env, p => by simp only [itemsOf, inserted, refIns, refIns_itemsOf T st1 rest]
  | .defn _ _ _ :: rest, env, p => by simp only [itemsOf, inserted, refIns, refIns_itemsOf T st1 rest]
  | .use _ _ :: rest, env, p => by simp only [itemsOf, inserted, refIns, refIns_itemsOf T st1 rest]
  | .disp _ :: rest, env, p => by simp only [itemsOf, inserted, refIns, refIns_itemsOf T st1 rest]
  | .beg _ :: rest, env, p => by simp only [itemsOf, inserted, refIns, refIns_itemsOf T st1 rest]
  | .denv _ _ :: rest, env, p => by simp only [itemsOf, inserted, refIns, refIns_itemsOf T st1 rest]
  | .item _ :: rest, env, p => by simp only [itemsOf, inserted, refIns, refIns_itemsOf T st1 rest]
  | .itemL _ _ _ :: rest, env, p => by simp only [itemsOf, inserted, refIns, refIns_itemsOf T st1 rest]
  | .ubeg _ :: rest, env, p => by simp only [itemsOf, inserted, refIns, refIns_itemsOf T st1 rest]
  | .uen _ :: rest, env, p => by simp only [itemsOf, inserted, refIns, refIns_itemsOf T st1 rest]
  | .en _ :: rest, env, p => by simp only [itemsOf, inserted, refIns, refIns_itemsOf T st1 rest]

theorem refFlows_itemsOf (T : PTables) (st1 : PState) : ∀ (segs : List Seg) (p : Nat),
    refFlows (itemsOf T st1 p segs) = flows p segs
  | [], _ => rfl
  | .txt s :: rest, p => by
    simp only [itemsOf, flows, refFlows_chrItems, refFlows_itemsOf T st1 rest, Seg.len, Seg.render]
  | .spc _ :: rest, p => by simp only [itemsOf, flows, refFlows, refFlows_itemsOf T st1 rest]
  | .opn :: rest, p => by simp only [itemsOf, flows, refFlows, refFlows_itemsOf T st1 rest]
  | .cls :: rest, p => by simp only [itemsOf, flows, refFlows, refFlows_itemsOf T st1 rest]
  | .cw _ _ :: rest, p => by simp only [itemsOf, flows, refFlows, refFlows_itemsOf T st1 rest]
  | .van _ _ :: rest, p => by simp only [itemsOf, flows, refFlows, refFlows_itemsOf T st1 rest]
  | .com _ :: rest, p => by simp only [itemsOf, flows, refFlows, refFlows_itemsOf T st1 rest]
  | .verb _ _ :: rest, p => by simp only [itemsOf, flows, refFlows, refFlows_itemsOf T st1 rest]
  | .math _ _ :: rest, p => by simp only [itemsOf, flows, refFlows, refFlows_itemsOf T st1 rest]
  | .ref _ _ :: rest, p => by simp only [itemsOf, flows, refFlows, refFlows_itemsOf T st1 rest]
  | .cite _ _ :: rest, p => by simp only [itemsOf, flows, refFlows, refFlows_itemsOf T st1 rest]
  | .citeN _ _ _ :: rest, p => by simp only [itemsOf, flows, refFlows, refFlows_itemsOf T st1 rest]
  | .foot _ :: rest, p => by simp only [itemsOf, flows, refFlows, refFlows_itemsOf T st1 rest]
  | .head _ _ :: rest, p => by simp only [itemsOf, flows, refFlows, refFlows_itemsOf T st1 rest]
  | .acc _ _ _ _ :: rest, p => by simp only [itemsOf, flows, refFlows, refFlows_itemsOf T st1 rest]
  | .ddef _ _ _ :: rest, p => by simp only [itemsOf, flows, refFlows, refFlows_itemsOf T st1 rest]
  | .ppar _ :: rest, p => by simp only [itemsOf, flows, refFlows, refFlows_itemsOf T st1 rest]
  | .pbeg _ _ :: rest, p => by simp only [itemsOf, flows, refFlows, refFlows_itemsOf T st1 rest]
  | .pen _ :: rest, p => by simp only [itemsOf, flows, refFlows, refFlows_itemsOf T st1 rest]
  | .call _ _ :: rest, p => by simp only [itemsOf, flows, refFlows, refFlows_itemsOf T st1 rest]
  | .callO _ _ _ :: rest, p => by simp only [itemsOf, flows, refFlows, refFlows_itemsOf T st1 rest]
  | .fen _ :: rest, p => by simp only [itemsOf, flows, refFlows, refFlows_itemsOf T st1 rest]
  | .fbegN _ _ :: rest, p => by simp only [itemsOf, flows, refFlows, refFlows_itemsOf T st1 rest]
  | .fbeg _ _ :: rest, p => by simp only [itemsOf, flows, refFlows, refFlows_itemsOf T st1 rest]
  | .defn _ _ _ :: rest, p => by simp only [itemsOf, flows, refFlows, refFlows_itemsOf T st1 rest]
  | .use _ _ :: rest, p => by simp only [itemsOf, flows, refFlows, refFlows_itemsOf T st1 rest]
  | .disp _ :: rest, p => by simp only [itemsOf, flows, refFlows, refFlows_itemsOf T st1 rest]
  | .beg _ :: rest, p => by simp only [itemsOf, flows, refFlows, refFlows_itemsOf T st1 rest]
  | .denv _ _ :: rest, p => by simp only [itemsOf, flows, refFlows, refFlows_itemsOf T st1 rest]
  | .item _ :: rest, p => by simp only [itemsOf, flows, refFlows, refFlows_itemsOf T st1 rest]
  | .itemL _ _ _ :: rest, p => by simp only [itemsOf, flows, refFlows, refFlows_itemsOf T st1 rest]
  | .ubeg _ :: rest, p => by simp only [itemsOf, flows, refFlows, refFlows_itemsOf T st1 rest]
  | .uen _ :: rest, p => by simp only [itemsOf, flows, refFlows, refFlows_itemsOf T st1 rest]
  | .en _ :: rest, p => by simp only [itemsOf, flows, refFlows, refFlows_itemsOf T st1 rest]

theorem refNF_itemsOf (T : PTables) (st1 : PState) : ∀ (segs : List Seg) (p : Nat),
    refNF (itemsOf T st1 p segs) = nFormulas segs
  | [], _ => rfl
  | .txt s :: rest, p => by simp only [itemsOf, nFormulas, refNF_chrItems, refNF_itemsOf T st1 rest]
  | .spc _ :: rest, p => by simp only [itemsOf, nFormulas, refNF, refNF_itemsOf T st1 rest]
  | .opn :: rest, p => by simp only [itemsOf, nFormulas, refNF, refNF_itemsOf T st1 rest]
  | .cls :: rest, p => by simp only [itemsOf, nFormulas, refNF, refNF_itemsOf T st1 rest]
  | .cw _ _ :: rest, p => by simp only [itemsOf, nFormulas, refNF, refNF_itemsOf T st1 rest]
  | .van _ _ :: rest, p => by simp only [itemsOf, nFormulas, refNF, refNF_itemsOf T st1 rest]
  | .com _ :: rest, p => by simp only [itemsOf, nFormulas, refNF, refNF_itemsOf T st1 rest]
  | .verb _ _ :: rest, p => by simp only [itemsOf, nFormulas, refNF, refNF_itemsOf T st1 rest]
  | .math _ _ :: rest, p => by simp only [itemsOf, nFormulas, refNF, refNF_itemsOf T st1 rest]
  | .ref _ _ :: rest, p => by simp only [itemsOf, nFormulas, refNF, refNF_itemsOf T st1 rest]
  | .cite _ _ :: rest, p => by simp only [itemsOf, nFormulas, refNF, refNF_itemsOf T st1 rest]
  | .citeN _ _ _ :: rest, p => by simp only [itemsOf, nFormulas, refNF, refNF_itemsOf T st1 rest]
  | .foot _ :: rest, p => by simp only [itemsOf, nFormulas, refNF, refNF_itemsOf T st1 rest]
  | .head _ _ :: rest, p => by simp only [itemsOf, nFormulas, refNF, refNF_itemsOf T st1 rest]
  | .acc _ _ _ _ :: rest, p => by simp only [itemsOf, nFormulas, refNF, refNF_itemsOf T st1 rest]
  | .ddef _ _ _ :: rest, p => by simp only [itemsOf, nFormulas, refNF, refNF_itemsOf T st1 rest]
  | .ppar _ :: rest, p => by simp only [itemsOf, nFormulas, refNF, refNF_itemsOf T st1 rest]
  | .pbeg _ _ :: rest, p => by simp only [itemsOf, nFormulas, refNF, refNF_itemsOf T st1 rest]
  | .pen _ :: rest, p => by simp only [itemsOf, nFormulas, refNF, refNF_itemsOf T st1 rest]
  | .call _ _ :: rest, p => by simp only [itemsOf, nFormulas, refNF, refNF_itemsOf T st1 rest]
  | .callO _ _ _ :: rest, p => by simp only [itemsOf, nFormulas, refNF, refNF_itemsOf T st1 rest]
  | .fen _ :: rest, p => by simp only [itemsOf, nFormulas, refNF, refNF_itemsOf T st1 rest]
  | .fbegN _ _ :: rest, p => by simp only [itemsOf, nFormulas, refNF, refNF_itemsOf T st1 rest]
  | .fbeg _ _ :: rest, p => by simp only [itemsOf, nFormulas, refNF, refNF_itemsOf T st1 rest]
  | .defn _ _ _ :: rest, p => by simp only [itemsOf, nFormulas, refNF, refNF_itemsOf T st1 rest]
  | .use _ _ :: rest, p => by simp only [itemsOf, nFormulas, refNF, refNF_itemsOf T st1 rest]
  | .disp _ :: rest, p => by simp only [itemsOf, nFormulas, refNF, refNF_itemsOf T st1 rest]
  | .beg _ :: rest, p => by simp only [itemsOf, nFormulas, refNF, refNF_itemsOf T st1 rest]
  | .denv _ _ :: rest, p => by simp only [itemsOf, nFormulas, refNF, refNF_itemsOf T st1 rest]
  | .item _ :: rest, p => by simp only [itemsOf, nFormulas, refNF, refNF_itemsOf T st1 rest]
  | .itemL _ _ _ :: rest, p => by simp only [itemsOf, nFormulas, refNF, refNF_itemsOf T st1 rest]
  | .ubeg _ :: rest, p => by simp only [itemsOf, nFormulas, refNF, refNF_itemsOf T st1 rest]
  | .uen _ :: rest, p => by simp only [itemsOf, nFormulas, refNF, refNF_itemsOf T st1 rest]
  | .en _ :: rest, p => by simp only [itemsOf, nFormulas, refNF, refNF_itemsOf T st1 rest]

theorem refND_itemsOf (T : PTables) (st1 : PState) : ∀ (segs : List Seg) (p : Nat),
    refND (itemsOf T st1 p segs) = nDisplays segs
  | [], _ => rfl
  | .txt s :: rest, p => by simp only [itemsOf, nDisplays, refND_chrItems, refND_itemsOf T st1 rest]
  | .spc _ :: rest, p => by simp only [itemsOf, nDisplays, refND, refND_itemsOf T st1 rest]
  | .opn :: rest, p => by simp only [itemsOf, nDisplays, refND, refND_itemsOf T st1 rest]
  | .cls :: rest, p => by simp only [itemsOf, nDisplays, refND, refND_itemsOf T st1 rest]
  | .cw _ _ :: rest, p => by simp only [itemsOf, nDisplays, refND, refND_itemsOf T st1 rest]
  | .van _ _ :: rest, p => by simp only [itemsOf, nDisplays, refND, refND_itemsOf T st1 rest]
  | .com _ :: rest, p => by simp only [itemsOf, nDisplays, refND, refND_itemsOf T st1 rest]
  | .verb _ _ :: rest, p => by simp only [itemsOf, nDisplays, refND, refND_itemsOf T st1 rest]
  | .math _ _ :: rest, p => by simp only [itemsOf, nDisplays, refND, refND_itemsOf T st1 rest]
  | .ref _ _ :: rest, p => by simp only [itemsOf, nDisplays, refND, refND_itemsOf T st1 rest]
  | .cite _ _ :: rest, p => by simp only [itemsOf, nDisplays, refND, refND_itemsOf T st1 rest]
  | .citeN _ _ _ :: rest, p => by simp only [itemsOf, nDisplays, refND, refND_itemsOf T st1 rest]
  | .foot _ :: rest, p => by simp only [itemsOf, nDisplays, refND, refND_itemsOf T st1 rest]
  | .head _ _ :: rest, p => by simp only [itemsOf, nDisplays, refND, refND_itemsOf T st1 rest]
  | .acc _ _ _ _ :: rest, p => by simp only [itemsOf, nDisplays, refND, refND_itemsOf T st1 rest]
  | .ddef _ _ _ :: rest, p => by simp only [itemsOf, nDisplays, refND, refND_itemsOf T st1 rest]
  | .ppar _ :: rest, p => by simp only [itemsOf, nDisplays, refND, refND_itemsOf T st1 rest]
  | .pbeg _ _ :: rest, p => by simp only [itemsOf, nDisplays, refND, refND_itemsOf T st1 rest]
  | .pen _ :: rest, p => by simp only [itemsOf, nDisplays, refND, refND_itemsOf T st1 rest]
  | .call _ _ :: rest, p => by simp only [itemsOf, nDisplays, refND, refND_itemsOf T st1 rest]
  | .callO _ _ _ :: rest, p => by simp only [itemsOf, nDisplays, refND, refND_itemsOf T st1 rest]
  | .fen _ :: rest, p => by simp only [itemsOf, nDisplays, refND, refND_itemsOf T st1 rest]
  | .fbegN _ _ :: rest, p => by simp only [itemsOf, nDisplays, refND, refND_itemsOf T st1 rest]
  | .fbeg _ _ :: rest, p => by simp only [itemsOf, nDisplays, refND, refND_itemsOf T st1 rest]
  | .defn _ _ _ :: rest, p => by simp only [itemsOf, nDisplays, refND, refND_itemsOf T st1 rest]
  | .use _ _ :: rest, p => by simp only [itemsOf, nDisplays, refND, refND_itemsOf T st1 rest]
  | .disp _ :: rest, p => by simp only [itemsOf, nDisplays, refND, refND_itemsOf T st1 rest]
  | .beg _ :: rest, p => by simp only [itemsOf, nDisplays, refND, refND_itemsOf T st1 rest]
  | .denv _ _ :: rest, p => by simp only [itemsOf, nDisplays, refND, refND_itemsOf T st1 rest]
  | .item _ :: rest, p => by simp only [itemsOf, nDisplays, refND, refND_itemsOf T st1 rest]
  | .itemL _ _ _ :: rest, p => by simp only [itemsOf, nDisplays, refND, refND_itemsOf T st1 rest]
  | .ubeg _ :: rest, p => by simp only [itemsOf, nDisplays, refND, refND_itemsOf T st1 rest]
  | .uen _ :: rest, p => by simp only [itemsOf, nDisplays, refND, refND_itemsOf T st1 rest]
  | .en _ :: rest, p => by simp only [itemsOf, nDisplays, refND, refND_itemsOf T st1 rest]

/-! ### the end-to-end theorem -/

/-- what the displayed equations need (only if there is one): the display collection of the
    current language is `drepls`, not empty; the language settings exist; no placeholder has a line
    break (or it is blank) -/
def dispReady (T : PTables) (st : PState) (drepls : List Str) : Bool :=
  (rotOf st (curSettings st)).map (·.disp) == some drepls && !drepls.isEmpty &&
  (settingsOf T (curSettings st)).isSome && drepls.all (fun r => !hasNl r || isBlank r)

theorem dispReady_facts {T : PTables} {st : PState} {drepls : List Str}
    (h : dispReady T st drepls = true) :
    ∃ rot ls, DispSt T st rot ls ∧ rot.disp = drepls ∧ ∀ r ∈ drepls, ReplOk r := by
  simp only [dispReady, Bool.and_eq_true, beq_iff_eq, Bool.not_eq_true', List.isEmpty_eq_false_iff,
    List.all_eq_true, Bool.or_eq_true] at h
  obtain ⟨⟨⟨h1, h2⟩, h3⟩, h4⟩ := h
  obtain ⟨ls, hls⟩ := Option.isSome_iff_exists.mp h3
  cases hrot : rotOf st (curSettings st) with
  | none => rw [hrot] at h1; simp at h1
  | some rot =>
    rw [hrot] at h1
    have hd : rot.disp = drepls := by simpa using h1
    refine ⟨rot, ls, ⟨hrot, by rw [hd]; exact h2, hls⟩, hd, ?_⟩
    intro r hr hn
    rcases h4 r hr with h | h
    · rw [hn] at h; cases h
    · exact h

/-- all side conditions on the tables, the initialised parser state and the document -/
def SegsOk (T : PTables) (st : PState) (repls drepls : List Str) (segs : List Seg) : Prop :=
  noEmptyActive T st = true ∧ segsOk T st segs = true ∧
  liveOk T st [] st.itemStack 0 segs = true ∧ pvLive T st st.itemStack (some none) 0 segs = true ∧
  (nFormulas segs = 0 ∨ mathReady T st repls = true) ∧
  (nDisplays segs = 0 ∨ dispReady T st drepls = true)

instance (T : PTables) (st : PState) (repls drepls : List Str) (segs : List Seg) :
    Decidable (SegsOk T st repls drepls segs) := by
  unfold SegsOk; infer_instance

/-- the rotation record both kinds of formulas use -/
theorem rot_facts {T : PTables} {st : PState} {repls drepls : List Str} {nf nd : Nat}
    (hmath : nf = 0 ∨ mathReady T st repls = true) (hdisp : nd = 0 ∨ dispReady T st drepls = true) :
    ∃ rot ls, RotOk T st rot ls nf nd ∧ CollOk (rot.inl, rot.disp) nf nd ∧
      (nf ≠ 0 → repls ≠ [] ∧ rot.inl = repls) ∧ (nd ≠ 0 → drepls ≠ [] ∧ rot.disp = drepls) := by
  rcases hmath with h0 | hmr
  · rcases hdisp with d0 | hdr
    · exact ⟨{ code := [], inl := [], disp := [], chg := [] }, default,
        ⟨fun h => absurd h0 h, fun h => absurd d0 h⟩, ⟨fun h => absurd h0 h, fun h => absurd d0 h⟩,
        fun h => absurd h0 h, fun h => absurd d0 h⟩
    · obtain ⟨rot, ls, hst, hd, hro⟩ := dispReady_facts hdr
      exact ⟨rot, ls, ⟨fun h => absurd h0 h, fun _ => hst⟩,
        ⟨fun h => absurd h0 h, fun _ => by rw [hd]; exact hro⟩, fun h => absurd h0 h,
        fun _ => ⟨by rw [← hd]; exact hst.2.1, hd⟩⟩
  · obtain ⟨rot, ls, hst, hinl, hro⟩ := mathReady_facts hmr
    rcases hdisp with d0 | hdr
    · exact ⟨rot, ls, ⟨fun _ => hst, fun h => absurd d0 h⟩,
        ⟨fun _ => by rw [hinl]; exact hro, fun h => absurd d0 h⟩,
        fun _ => ⟨by rw [← hinl]; exact hst.2.1, hinl⟩, fun h => absurd d0 h⟩
    · obtain ⟨rot', ls', hst', hd, hro'⟩ := dispReady_facts hdr
      have e1 : rot' = rot := Option.some.inj (hst'.1.symm.trans hst.1)
      have e2 : ls' = ls := Option.some.inj (hst'.2.2.symm.trans hst.2.2)
      subst e1 e2
      exact ⟨rot', ls', ⟨fun _ => hst, fun _ => hst'⟩,
        ⟨fun _ => by rw [hinl]; exact hro, fun _ => by rw [hd]; exact hro'⟩,
        fun _ => ⟨by rw [← hinl]; exact hst.2.1, hinl⟩, fun _ => ⟨by rw [← hd]; exact hst'.2.1, hd⟩⟩

/-- **the end-to-end theorem for the third union grammar** -/
theorem tex2txt_mix4 (T : PTables) (o : Options) (fs : FS) (thresh : Nat) (segs : List Seg)
    (fuel : Nat) (st1 : PState) (repls drepls : List Str)
    (hdefs : o.defs = []) (hextr : o.extr = []) (hrepl : o.hasRepl = false) (hunkn : o.unkn = false)
    (hinit : initParser T fuel o (initialState T o false fs) = .ok ((), st1))
    (hok : SegsOk T st1 repls drepls segs)
    (hf : (render segs).length + inserted [] 0 segs + 6 ≤ fuel) :
    ∃ r, tex2txt T fuel (render segs) o false thresh fs = .ok r ∧
      r.txt = (delLines (marks T st1 repls drepls [] st1.itemStack 0 0 0 segs)
                ++ flows 0 segs).map (·.1) ∧
      r.pos = (delLines (marks T st1 repls drepls [] st1.itemStack 0 0 0 segs)
                ++ flows 0 segs).map (·.2 + 1) ∧
      r.unknowns = (unkNames [] segs).eraseDups ∧ r.diags = st1.diags ∧ r.parts = [] := by
  obtain ⟨ha, hsegs, hlive, hpvl, hmath, hdisp⟩ := hok
  have hsrc := OkSrc_of_segsOk T st1 segs 0 hsegs
  have hlive' : refOk [] st1.itemStack (itemsOf T st1 0 segs) = true := by
    rw [refOk_itemsOf]; exact hlive
  have hpv' : refPv T st1.itemStack (some none) (itemsOf T st1 0 segs) = true := by
    rw [refPv_itemsOf]; exact hpvl
  have hf' : (render segs).length + refIns [] (itemsOf T st1 0 segs) + 6 ≤ fuel := by
    rw [refIns_itemsOf]; exact hf
  obtain ⟨rot, ls, hrot, hcoll, hr1, hr2⟩ := rot_facts (T := T) (st := st1) hmath hdisp
  obtain ⟨r, ht, e1, e2, e3, e4, e5⟩ := tex2txt_mix4_src T o fs thresh (render segs) fuel st1 _ rot ls
    hdefs hextr hrepl hunkn hinit ha hsrc hlive' hpv'
    (by rw [refNF_itemsOf, refND_itemsOf]; exact hrot)
    (by rw [refNF_itemsOf, refND_itemsOf]; exact hcoll) hf'
  have hm := refMarks_itemsOf T st1 repls drepls segs (rot.inl, rot.disp) [] st1.itemStack 0 0 0
    (fun h => by obtain ⟨a, b⟩ := hr1 h; exact ⟨a, b⟩) (fun h => by obtain ⟨a, b⟩ := hr2 h; exact ⟨a, b⟩)
  rw [hm, refFlows_itemsOf] at e1 e2
  rw [refNames_itemsOf] at e3
  exact ⟨r, ht, e1, e2, e3, e4, e5⟩

end PlainMix4
end Yalafi
