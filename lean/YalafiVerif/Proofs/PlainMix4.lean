/-
  Proofs/PlainMix4.lean — token level of the FOURTH union grammar, definitions: the fourteen kinds of
  Proofs/PlainMix2.lean (formulas now of the RICH class of Proofs/PlainMathRich.lean) plus the
  STATEFUL kinds: accent calls; USER DEFINITIONS `\newcommand{\name}[n]{body}` with their uses (the
  macro table changes along the document); simple DISPLAYED EQUATIONS `\[ … \]` / `\begin{name} …
  \end{name}` (a second rotating placeholder collection); LIST ENVIRONMENTS `\begin{name}`, `\item`,
  `\end{name}` (the stack of label generators `itemStack`).  (The loop lemma:
  Proofs/PlainMix4Loop.lean; header with the end-to-end statement and all side conditions:
  Proofs/PlainMix4E2E.lean.)

  `Piece`, `flat`, `dropComs`   the pieces of a token buffer (twenty-two kinds)
  `Colls`                       the two stored placeholder collections (inline, display)
  `PiecesOk T st1 ps`           the STATIC conditions, relative to the initialised state `st1`
  `nextSt`, `finalSt`           the state behind a piece / behind the buffer (`unknowns`, `macros`,
                                `extracted`, `foreign`, `itemStack`; the rotation records are handled
                                separately)
  `Live T st ps`                the conditions that depend on the CURRENT state: an "undeclared"
                                control word (in text or in a formula) is not user-defined at that
                                point, a use has enough groups for the definition in force, an
                                `\item` finds a label on the current stack of generators
  `outP T st l ps`, `cost st ps`, `names st ps`, `flowsOf`, `nMath`, `nDisp`
                                what the loop emits (threading the state and the rotating
                                collections), its iterations, the unknown names, the flows, the
                                numbers of formulas / displayed equations
  `DispSt`, `RotOk`             what formulas / displayed equations need from the rotation records
  `StOk3`                       the invariant on the current state relative to `st1` (`itemStack` is
                                NOT part of it: it is threaded through `nextSt`)
  `SameM`, `*_congr`            everything depends on the state only through the macro table,
                                `math_operators`, the environments, `itemStack` and the language
-/
import YalafiVerif.Proofs.PlainMix2Read
import YalafiVerif.Proofs.PlainAccent
import YalafiVerif.Proofs.PlainMathRichE2E
import YalafiVerif.Proofs.PlainMacroArgs
import YalafiVerif.Proofs.PlainDisplay
import YalafiVerif.Proofs.PlainFlowsBase
import YalafiVerif.Proofs.PlainParEnvBase
import YalafiVerif.Proofs.PlainDefTex
import YalafiVerif.Proofs.PlainItemL
namespace Yalafi
namespace PlainMix4

open M
open PlainMacro (lbr rbr NoBrace restamp ncName NcOk NameOk bodyTxt)
open PlainItem (begTok endTok itemTok spTok labTok envOut envOf styleOf listEnvAt labOf labelAt HeadOk NameToks
  begSt itemSt)
open PlainMix (droppable MathSt)
open PlainFootnote (CopyTok FnTok BraceTok FlowSafe addFlow)
open PlainMacroArgs (Group groupsFlat groupsOut GroupGood userMacro defSt useSt useN useBody GoodBody
  DigitOk txtTok digitChar StOk)
open PlainMathRich (OpenTok CloseTok MItem mt mout fOut)
open PlainUnkn2 (mcost)
open PlainFlows (FlowName OptToks FigEnvAt)
open PlainDefTex (defName paramToks)
open PlainItemL (labArg itemLOut punctOf pvOf pvAfter punctOk)

/-- the two stored placeholder collections of the language: inline formulas, displayed equations -/
abbrev Colls := List Str × List Str

/-! ### the token buffers -/

/-- the pieces of a token buffer -/
inductive Piece where
  | tok (t : Tok)
  | spc (t : Tok)
  | br (t : Tok)
  | cw (p : Nat) (name : Str) (skipped : List Tok)
  | van (p q1 q2 : Nat) (name : Str) (key repl : List Tok)
  | com (t : Tok)
  | verb (t : Tok)
  /-- an inline formula of the rich class: opening delimiter, body tokens, closing delimiter -/
  | math (d1 : Tok) (body : List Tok) (d2 : Tok)
  | ref (p q1 q2 : Nat) (name : Str) (key repl : List Tok)
  | cite (p q1 q2 : Nat) (name : Str) (key : List Tok)
  | citeN (p b1 b2 q1 q2 : Nat) (name : Str) (note key : List Tok)
  | foot (fn lb : Tok) (body : List Tok) (rb : Tok)
  | head (hd lb : Tok) (body : List Tok) (rb : Tok)
  /-- an accent call: accent token, white space, the letter (in braces or not) -/
  | acc (p : Nat) (name : Str) (sp : List Tok) (bo : Option (Nat × Nat)) (q : Nat) (l : Char)
  /-- a definition `\newcommand { \name } [ n ] { body }` -/
  | defn (p q1 q2 q3 q4 q5 q6 q7 q8 : Nat) (name : Str) (n : Nat) (body : List Tok)
  /-- a use `\name { a1 } … { am }` of a name that is not declared in `st1` -/
  | use (p : Nat) (name : Str) (gs : List Group)
  /-- a simple displayed equation `\[ body \]`; `ops` = `math_operators` of the initialised state -/
  | disp (ops : List Str) (d1 : Tok) (body : List Tok) (d2 : Tok)
  /-- a simple displayed equation `\begin { name } body \end { name }` -/
  | denv (ops : List Str) (p q1 q2 : Nat) (nt : List Tok) (body : List Tok) (p' q1' q2' : Nat)
      (nt' : List Tok)
  /-- a definition `\def \name #1 … #n { body }` -/
  | ddef (p q2 q q7 q8 : Nat) (name : Str) (n : Nat) (body : List Tok)
  /-- `\par` with the white-space tokens behind it -/
  | ppar (p : Nat) (sp : List Tok)
  /-- `\begin { name } { arg }` of a paragraph-forming environment -/
  | pbeg (p q1 q2 q3 q4 : Nat) (nt ag : List Tok)
  /-- `\end { name }` of a paragraph-forming environment -/
  | pen (p q1 q2 : Nat) (nt : List Tok)
  /-- a call `\name { body }` of a macro declared like `\footnote` -/
  | call (p q1 q2 : Nat) (name : Str) (body : List Tok)
  /-- a call `\name [ opt ] { body }` of a macro declared like `\footnote` -/
  | callO (p b1 b2 q1 q2 : Nat) (name : Str) (opt body : List Tok)
  /-- `\end { name }` of a float environment -/
  | fen (p q1 q2 : Nat) (nt : List Tok)
  /-- `\begin { name } [ placement ]` of a float environment -/
  | fbegN (p q1 q2 b1 b2 : Nat) (nt note : List Tok)
  /-- `\begin { name }` of a float environment, with the white-space tokens it swallows -/
  | fbeg (p q1 q2 : Nat) (nt sp : List Tok)
  /-- `\begin { name }` of a list environment -/
  | beg (p q1 q2 : Nat) (nt : List Tok)
  /-- `\item` with the white-space tokens behind it -/
  | item (p : Nat) (sp : List Tok)
  /-- `\item`, white space, `[ label ]`; `pc` = the punctuation mark that is repeated behind the label -/
  | itemL (p : Nat) (sp : List Tok) (b1 b2 : Nat) (lab : List Tok) (pc : Option Char)
  /-- `\begin { name }` / `\end { name }` of an UNDECLARED environment (`description`) -/
  | ubeg (p q1 q2 : Nat) (nt : List Tok)
  | uen (p q1 q2 : Nat) (nt : List Tok)
  /-- `\end { name }` of a list environment -/
  | en (p q1 q2 : Nat) (nt : List Tok)

def Piece.toks : Piece → List Tok
  | .tok t => [t]
  | .spc t => [t]
  | .br t => [t]
  | .cw p name sk => cwTok p name :: sk
  | .van p q1 q2 name key _ => cwTok p name :: lbr q1 :: (key ++ [rbr q2])
  | .com t => [t]
  | .verb t => [t]
  | .math d1 b d2 => d1 :: (b ++ [d2])
  | .ref p q1 q2 name key _ => cwTok p name :: lbr q1 :: (key ++ [rbr q2])
  | .cite p q1 q2 name key => cwTok p name :: lbr q1 :: (key ++ [rbr q2])
  | .citeN p b1 b2 q1 q2 name note key =>
    cwTok p name :: PlainRef.chTok b1 '[' ::
      (note ++ PlainRef.chTok b2 ']' :: lbr q1 :: (key ++ [rbr q2]))
  | .foot fn lb b rb => fn :: lb :: (b ++ [rb])
  | .head hd lb b rb => hd :: lb :: (b ++ [rb])
  | .acc p name sp bo q l => PlainAccent.accTok p name :: (sp ++ PlainAccent.argT bo q l)
  | .defn p q1 q2 q3 q4 q5 q6 q7 q8 name n body =>
    cwTok p ncName :: lbr q1 :: cwTok q2 name :: rbr q3 :: txtTok q4 '[' :: txtTok q5 (digitChar n) ::
      txtTok q6 ']' :: lbr q7 :: (body ++ [rbr q8])
  | .use p name gs => cwTok p name :: groupsFlat gs
  | .disp _ d1 b d2 => d1 :: (b ++ [d2])
  | .denv _ p q1 q2 nt b p' q1' q2' nt' =>
    begTok p :: lbr q1 :: (nt ++ rbr q2 :: (b ++ endTok p' :: lbr q1' :: (nt' ++ [rbr q2'])))
  | .ddef p q2 q q7 q8 name n body =>
    cwTok p defName :: cwTok q2 name :: (paramToks q 1 n ++ lbr q7 :: (body ++ [rbr q8]))
  | .ppar p sp => cwTok p PlainParEnv.parName :: sp
  | .pbeg p q1 q2 q3 q4 nt ag => begTok p :: lbr q1 :: (nt ++ rbr q2 :: lbr q3 :: (ag ++ [rbr q4]))
  | .pen p q1 q2 nt => endTok p :: lbr q1 :: (nt ++ [rbr q2])
  | .call p q1 q2 name b => cwTok p name :: lbr q1 :: (b ++ [rbr q2])
  | .callO p b1 b2 q1 q2 name opt b =>
    cwTok p name :: PlainRef.chTok b1 '[' :: (opt ++ PlainRef.chTok b2 ']' :: lbr q1 :: (b ++ [rbr q2]))
  | .fen p q1 q2 nt => endTok p :: lbr q1 :: (nt ++ [rbr q2])
  | .fbegN p q1 q2 b1 b2 nt note =>
    begTok p :: lbr q1 :: (nt ++ rbr q2 :: PlainRef.chTok b1 '[' :: (note ++ [PlainRef.chTok b2 ']']))
  | .fbeg p q1 q2 nt sp => begTok p :: lbr q1 :: (nt ++ rbr q2 :: sp)
  | .beg p q1 q2 nt => begTok p :: lbr q1 :: (nt ++ [rbr q2])
  | .item p sp => itemTok p :: sp
  | .itemL p sp b1 b2 lab _ =>
    itemTok p :: (sp ++ PlainRef.chTok b1 '[' :: (lab ++ [PlainRef.chTok b2 ']']))
  | .ubeg p q1 q2 nt => begTok p :: lbr q1 :: (nt ++ [rbr q2])
  | .uen p q1 q2 nt => endTok p :: lbr q1 :: (nt ++ [rbr q2])
  | .en p q1 q2 nt => endTok p :: lbr q1 :: (nt ++ [rbr q2])

/-- the token buffer -/
def flat : List Piece → List Tok
  | [] => []
  | p :: ps => p.toks ++ flat ps

/-- the pieces without the comments in front -/
def dropComs : List Piece → List Piece
  | .com _ :: rest => dropComs rest
  | ps => ps

/-- the STATIC conditions on a buffer, relative to the initialised state `st1` -/
def PiecesOk (T : PTables) (st1 : PState) : List Piece → Prop
  | [] => True
  | .tok t :: rest => PlainTok t ∧ PassTok T st1 t (flat rest) ∧ PiecesOk T st1 rest
  | .spc t :: rest => SpecialTok T.toTables t ∧ PiecesOk T st1 rest
  | .br t :: rest => PlainGroup.BrTok t ∧ PiecesOk T st1 rest
  | .cw p name sk :: rest =>
    CwTokOk st1 (cwTok p name) ∧ (∀ t ∈ sk, droppable t = true ∧ t.kind ≠ .comment) ∧
    (∀ t ts, flat (dropComs rest) = t :: ts → droppable t = false) ∧ PiecesOk T st1 rest
  | .van _ _ _ name key repl :: rest =>
    PlainVanish.VanName st1 name ∧ PlainVanish.replOf st1 name = repl ∧
    (∀ t ∈ key, NoBrace t ∧ t.kind ≠ .comment) ∧ PiecesOk T st1 rest
  | .com t :: rest => Comment.ComTok T st1 t ∧ PiecesOk T st1 rest
  | .verb t :: rest => t.kind = .verb false ∧ PiecesOk T st1 rest
  | .math d1 b d2 :: rest =>
    OpenTok d1 ∧ (b.flatMap (mt T)).any (fun x => !x.sp) = true ∧ (∀ t ∈ b, MItem T st1 t) ∧
    CloseTok d2 ∧ PiecesOk T st1 rest
  | .ref _ _ _ name key repl :: rest =>
    PlainRef.RefName T st1 name ∧ PlainRef.replOf st1 name = repl ∧ PlainRef.KeyToks key ∧
    PiecesOk T st1 rest
  | .cite _ _ _ name key :: rest =>
    PlainRef.CiteName st1 name ∧ PlainRef.KeyToks key ∧ PlainRef.StateFacts T st1 ∧ PiecesOk T st1 rest
  | .citeN _ _ _ _ _ name note key :: rest =>
    PlainRef.CiteName st1 name ∧ note ≠ [] ∧ (∀ t ∈ note, CopyTok T st1 t ∧ t.txt ≠ [']']) ∧
    PlainRef.KeyToks key ∧ PlainRef.StateFacts T st1 ∧ PiecesOk T st1 rest
  | .foot fn lb b rb :: rest =>
    FnTok fn ∧ BraceTok '{' lb ∧ BraceTok '}' rb ∧ b ≠ [] ∧ (∀ t ∈ b, CopyTok T st1 t) ∧
    FlowSafe b ∧ PlainFootnote.StateFacts T st1 ∧ PiecesOk T st1 rest
  | .head hd lb b rb :: rest =>
    PlainHeading.HdTok st1 hd ∧ BraceTok '{' lb ∧ BraceTok '}' rb ∧ b ≠ [] ∧
    (∀ t ∈ b, CopyTok T st1 t) ∧ PlainHeading.StateFacts T st1 ∧ PiecesOk T st1 rest
  | .acc _ name sp _ _ l :: rest =>
    PlainAccent.AccName name ∧ (∀ t ∈ sp, t.kind = .space) ∧
    (PlainAccent.accentChar T ('\\' :: name) l).isSome = true ∧ PiecesOk T st1 rest
  | .defn _ _ _ _ _ _ _ _ _ name n body :: rest =>
    NcOk st1 ∧ NameOk st1 name ∧ DigitOk T st1 n ∧ GoodBody T st1 n body ∧ PiecesOk T st1 rest
  | .use _ name gs :: rest =>
    NameOk st1 name ∧ gs ≠ [] ∧ (∀ g ∈ gs, GroupGood T st1 g) ∧ PiecesOk T st1 rest
  | .disp ops d1 b d2 :: rest =>
    ops = st1.mathOperators ∧ PlainDisplay.defEnvOk T st1 = true ∧ st1.displayedSimple = false ∧
    PlainDisplay.OpenTok d1 ∧ PlainDisplay.HasElem T ops b ∧ (∀ t ∈ b, PlainDisplay.DItem T t) ∧
    PlainDisplay.CloseTok d2 ∧ PiecesOk T st1 rest
  | .denv ops _ _ _ nt b _ _ _ nt' :: rest =>
    ops = st1.mathOperators ∧ st1.displayedSimple = false ∧ NameToks T st1 nt ∧ NameToks T st1 nt' ∧
    bodyTxt nt' = bodyTxt nt ∧ PlainDisplay.equEnvAt st1 (bodyTxt nt) = true ∧
    bodyTxt nt ≠ "$".toList ∧ bodyTxt nt ≠ "\\(".toList ∧
    PlainDisplay.HasElem T ops b ∧ (∀ t ∈ b, PlainDisplay.DItem T t) ∧ PiecesOk T st1 rest
  | .ddef _ _ _ _ _ name n body :: rest =>
    NameOk st1 name ∧ GoodBody T st1 n body ∧ PiecesOk T st1 rest
  | .ppar _ sp :: rest =>
    PlainParEnv.ParOk st1 ∧ PlainThm.SpToks sp ∧ PlainParEnv.HeadVis (flat rest) ∧ PiecesOk T st1 rest
  | .pbeg _ _ _ _ _ nt ag :: rest =>
    PlainThm.NameToks T st1 nt ∧ PlainParEnv.ParEnvAt st1 (PlainThm.txtOf nt) ∧
    (∀ t ∈ ag, NoBrace t ∧ t.kind ≠ .comment) ∧ PiecesOk T st1 rest
  | .pen _ _ _ nt :: rest =>
    PlainThm.NameToks T st1 nt ∧ PlainParEnv.ParEnvAt st1 (PlainThm.txtOf nt) ∧ PiecesOk T st1 rest
  | .call _ _ _ name b :: rest =>
    FlowName st1 name ∧ b ≠ [] ∧ (∀ t ∈ b, CopyTok T st1 t) ∧ FlowSafe b ∧
    st1.multiLanguage = false ∧ PiecesOk T st1 rest
  | .callO _ _ _ _ _ name opt b :: rest =>
    FlowName st1 name ∧ OptToks T st1 opt ∧ b ≠ [] ∧ (∀ t ∈ b, CopyTok T st1 t) ∧ FlowSafe b ∧
    st1.multiLanguage = false ∧ PiecesOk T st1 rest
  | .fen _ _ _ nt :: rest =>
    PlainThm.NameToks T st1 nt ∧ FigEnvAt st1 (PlainThm.txtOf nt) ∧ PiecesOk T st1 rest
  | .fbegN _ _ _ _ _ nt note :: rest =>
    PlainThm.NameToks T st1 nt ∧ FigEnvAt st1 (PlainThm.txtOf nt) ∧ OptToks T st1 note ∧ PiecesOk T st1 rest
  | .fbeg _ _ _ nt sp :: rest =>
    PlainThm.NameToks T st1 nt ∧ FigEnvAt st1 (PlainThm.txtOf nt) ∧ PlainThm.SpToks sp ∧
    PlainThm.HeadOk (flat rest) ∧ PiecesOk T st1 rest
  | .beg _ _ _ nt :: rest =>
    NameToks T st1 nt ∧ listEnvAt st1 (bodyTxt nt) = true ∧ PiecesOk T st1 rest
  | .item _ sp :: rest =>
    (∀ t ∈ sp, t.kind = .space) ∧ HeadOk (flat rest) ∧ (activeChars T st1).contains [' '] = false ∧
    PiecesOk T st1 rest
  | .itemL _ sp _ _ lab _ :: rest =>
    (∀ t ∈ sp, t.kind = .space) ∧ PlainFlows.OptToks T st1 lab ∧
    (activeChars T st1).contains [' '] = false ∧ punctOk T st1 = true ∧ PiecesOk T st1 rest
  | .ubeg _ _ _ nt :: rest =>
    NameToks T st1 nt ∧ lookupEnv st1 (bodyTxt nt) = none ∧ PiecesOk T st1 rest
  | .uen _ _ _ nt :: rest =>
    NameToks T st1 nt ∧ lookupEnv st1 (bodyTxt nt) = none ∧ PiecesOk T st1 rest
  | .en _ _ _ nt :: rest =>
    NameToks T st1 nt ∧ listEnvAt st1 (bodyTxt nt) = true ∧ PiecesOk T st1 rest

/-! ### the state along the buffer -/

/-- the state behind a piece (without the rotation of the placeholder collection) -/
def nextSt (st : PState) : Piece → PState
  | .cw _ name _ => { st with unknowns := addU st.unknowns ('\\' :: name) }
  | .foot _ _ b _ => addFlow st b
  | .defn _ _ _ _ _ _ _ _ _ name n body => defSt st name n body
  | .use _ name _ => useSt st name
  | .ddef _ _ _ _ _ name n body => defSt st name n body
  | .call _ _ _ _ b => addFlow st b
  | .callO _ _ _ _ _ _ _ b => addFlow st b
  | .beg _ _ _ nt => begSt st (bodyTxt nt) (styleOf st (bodyTxt nt))
  | .item _ _ => itemSt st
  | .ubeg _ _ _ nt => { st with unknowns := addU st.unknowns (bodyTxt nt) }
  | .en _ _ _ _ => PlainItem.endSt st
  | _ => st

/-- the state behind the buffer -/
def finalSt : PState → List Piece → PState
  | st, [] => st
  | st, pc :: rest => finalSt (nextSt st pc) rest

/-- the conditions on one piece that depend on the CURRENT macro table -/
def liveHead (T : PTables) (st : PState) : Piece → Prop
  | .cw _ name _ => lookupMacro st ('\\' :: name) = none
  | .math _ b _ => ∀ t ∈ b, t.kind = .xmacro → lookupMacro st t.txt = none
  | .use _ name gs => useN st name ≤ gs.length
  | .item _ _ => labelAt T st st.itemStack = true
  | _ => True

/-- … on the whole buffer -/
def Live (T : PTables) : PState → List Piece → Prop
  | _, [] => True
  | st, pc :: rest => liveHead T st pc ∧ Live T (nextSt st pc) rest

/-- what `expandSequence` emits into the main flow for the pieces before the blank-line removal;
    `st` = the current state, `l` = the stored collections of inline / display placeholders -/
def outP (T : PTables) : PState → Colls → List Piece → List Tok
  | _, _, [] => []
  | st, l, .tok t :: rest => t :: outP T st l rest
  | st, l, .spc t :: rest => expTok T.toTables t ++ outP T st l rest
  | st, l, .br t :: rest => mkAction t.pos :: outP T st l rest
  | st, l, .cw p name sk :: rest => mkAction p :: outP T (nextSt st (.cw p name sk)) l rest
  | st, l, .van p _ _ _ _ repl :: rest => mkAction p :: (repl.map (restamp p) ++ outP T st l rest)
  | st, l, .com _ :: rest => outP T st l rest
  | st, l, .verb t :: rest => expTokV t ++ outP T st l rest
  | st, l, .math d1 b _ :: rest =>
    fOut T ((rotL l.1).headD []) d1.pos (b.flatMap (mout T st)) ++ outP T st (rotL l.1, l.2) rest
  | st, l, .ref p _ _ _ _ repl :: rest => mkAction p :: (repl.map (restamp p) ++ outP T st l rest)
  | st, l, .cite p _ _ _ _ :: rest => mkAction p :: (PlainRef.citeToks p ++ outP T st l rest)
  | st, l, .citeN p _ _ _ _ _ note _ :: rest =>
    mkAction p :: (PlainRef.citeNToks p note ++ outP T st l rest)
  | st, l, .foot fn lb b rb :: rest => mkAction fn.pos :: outP T (nextSt st (.foot fn lb b rb)) l rest
  | st, l, .head hd _ b _ :: rest => PlainHeading.headOut T hd b ++ outP T st l rest
  | st, l, .acc p name _ _ _ c :: rest =>
    PlainAccent.resTok p (PlainAccent.accVal T name c) :: outP T st l rest
  | st, l, .defn p q1 q2 q3 q4 q5 q6 q7 q8 name n body :: rest =>
    mkAction p :: outP T (nextSt st (.defn p q1 q2 q3 q4 q5 q6 q7 q8 name n body)) l rest
  | st, l, .use p name gs :: rest =>
    mkAction p :: (useBody st p name gs ++ (groupsOut (gs.drop (useN st name))
      ++ outP T (nextSt st (.use p name gs)) l rest))
  | st, l, .disp ops d1 b _ :: rest =>
    PlainDisplay.dispOut T ((rotL l.2).headD []) d1.pos (PlainDisplay.elemPos T ops b)
        (PlainMath.firstPos (PlainMath.mathToks b)) (PlainMath.bodyTxt (PlainMath.mathToks b))
      ++ outP T st (l.1, rotL l.2) rest
  | st, l, .denv ops p _ _ _ b _ _ _ _ :: rest =>
    mkAction p :: mkAction p ::
      (PlainDisplay.dispOut T ((rotL l.2).headD []) p (PlainDisplay.elemPos T ops b)
          (PlainMath.firstPos (PlainMath.mathToks b)) (PlainMath.bodyTxt (PlainMath.mathToks b))
        ++ outP T st (l.1, rotL l.2) rest)
  | st, l, .ddef p q2 q q7 q8 name n body :: rest =>
    mkAction p :: outP T (nextSt st (.ddef p q2 q q7 q8 name n body)) l rest
  | st, l, .ppar p _ :: rest => mkAction p :: PlainThm.parTok p :: outP T st l rest
  | st, l, .pbeg p _ _ _ _ _ _ :: rest => PlainThm.parTok p :: mkAction p :: outP T st l rest
  | st, l, .pen p _ _ _ :: rest => PlainThm.parTok p :: outP T st l rest
  | st, l, .call p q1 q2 name b :: rest =>
    mkAction p :: outP T (nextSt st (.call p q1 q2 name b)) l rest
  | st, l, .callO p b1 b2 q1 q2 name opt b :: rest =>
    mkAction p :: outP T (nextSt st (.callO p b1 b2 q1 q2 name opt b)) l rest
  | st, l, .fen p _ _ _ :: rest => mkAction p :: outP T st l rest
  | st, l, .fbegN p _ _ _ _ _ _ :: rest => mkAction p :: mkAction p :: outP T st l rest
  | st, l, .fbeg p _ _ _ _ :: rest => mkAction p :: mkAction p :: outP T st l rest
  | st, l, .beg p q1 q2 nt :: rest =>
    envOut (envOf st (bodyTxt nt)) p :: mkAction p :: outP T (nextSt st (.beg p q1 q2 nt)) l rest
  | st, l, .item p sp :: rest =>
    mkAction p :: spTok p :: labTok p (labOf T st.itemStack) :: spTok p
      :: outP T (nextSt st (.item p sp)) l rest
  | st, l, .itemL p _ b1 _ lab pc :: rest => itemLOut p (labArg b1 lab) pc ++ outP T st l rest
  | st, l, .ubeg p q1 q2 nt :: rest => mkAction p :: outP T (nextSt st (.ubeg p q1 q2 nt)) l rest
  | st, l, .uen p _ _ _ :: rest => mkAction p :: outP T st l rest
  | st, l, .en p q1 q2 nt :: rest =>
    envOut (envOf st (bodyTxt nt)) p :: outP T (nextSt st (.en p q1 q2 nt)) l rest

/-- the detached flows (footnote bodies), in order -/
def flowsOf : List Piece → List (List Tok)
  | [] => []
  | .call _ _ _ _ b :: rest => b :: flowsOf rest
  | .callO _ _ _ _ _ _ _ b :: rest => b :: flowsOf rest
  | .foot _ _ b _ :: rest => b :: flowsOf rest
  | _ :: rest => flowsOf rest

/-- iterations of `expandSequence` -/
def cost : PState → List Piece → Nat
  | _, [] => 0
  | st, .tok _ :: rest => 1 + cost st rest
  | st, .spc _ :: rest => 1 + cost st rest
  | st, .br _ :: rest => 1 + cost st rest
  | st, .cw p name sk :: rest => 2 + cost (nextSt st (.cw p name sk)) rest
  | st, .van _ _ _ _ _ repl :: rest => 2 + repl.length + cost st rest
  | st, .com _ :: rest => 1 + cost st rest
  | st, .verb _ :: rest => 1 + cost st rest
  | st, .math _ b _ :: rest => mcost b + 2 + cost st rest
  | st, .ref _ _ _ _ _ repl :: rest => 2 + repl.length + cost st rest
  | st, .cite _ _ _ _ _ :: rest => 4 + cost st rest
  | st, .citeN _ _ _ _ _ _ note _ :: rest => 6 + note.length + cost st rest
  | st, .foot fn lb b rb :: rest => b.length + 6 + cost (nextSt st (.foot fn lb b rb)) rest
  | st, .head _ _ b _ :: rest => b.length + 3 + cost st rest
  | st, .acc .. :: rest => 3 + cost st rest
  | st, .defn p q1 q2 q3 q4 q5 q6 q7 q8 name n body :: rest =>
    2 + cost (nextSt st (.defn p q1 q2 q3 q4 q5 q6 q7 q8 name n body)) rest
  | st, .use p name gs :: rest =>
    2 + (useBody st p name gs).length + (groupsOut (gs.drop (useN st name))).length
      + cost (nextSt st (.use p name gs)) rest
  | st, .disp _ _ b _ :: rest => b.length + 3 + cost st rest
  | st, .denv _ _ _ _ nt b _ _ _ nt' :: rest => b.length + nt.length + nt'.length + 11 + cost st rest
  | st, .ddef p q2 q q7 q8 name n body :: rest =>
    1 + cost (nextSt st (.ddef p q2 q q7 q8 name n body)) rest
  | st, .ppar _ _ :: rest => 3 + cost st rest
  | st, .pbeg _ _ _ _ _ nt _ :: rest => 3 + nt.length + cost st rest
  | st, .pen _ _ _ nt :: rest => 2 + nt.length + cost st rest
  | st, .call p q1 q2 name b :: rest =>
    b.length + 4 + cost (nextSt st (.call p q1 q2 name b)) rest
  | st, .callO p b1 b2 q1 q2 name opt b :: rest =>
    b.length + 4 + cost (nextSt st (.callO p b1 b2 q1 q2 name opt b)) rest
  | st, .fen _ _ _ nt :: rest => nt.length + 2 + cost st rest
  | st, .fbegN _ _ _ _ _ nt _ :: rest => nt.length + 3 + cost st rest
  | st, .fbeg _ _ _ nt _ :: rest => nt.length + 3 + cost st rest
  | st, .beg p q1 q2 nt :: rest => 3 + nt.length + cost (nextSt st (.beg p q1 q2 nt)) rest
  | st, .item p sp :: rest => 5 + cost (nextSt st (.item p sp)) rest
  | st, .itemL _ _ b1 _ lab _ :: rest => (labArg b1 lab).length + 7 + cost st rest
  | st, .ubeg p q1 q2 nt :: rest => 2 + nt.length + cost (nextSt st (.ubeg p q1 q2 nt)) rest
  | st, .uen _ _ _ nt :: rest => 2 + nt.length + cost st rest
  | st, .en p q1 q2 nt :: rest => 2 + nt.length + cost (nextSt st (.en p q1 q2 nt)) rest

/-- the number of formulas -/
def nMath : List Piece → Nat
  | [] => 0
  | .math .. :: rest => nMath rest + 1
  | _ :: rest => nMath rest

/-- the number of displayed equations -/
def nDisp : List Piece → Nat
  | [] => 0
  | .disp .. :: rest => nDisp rest + 1
  | .denv .. :: rest => nDisp rest + 1
  | _ :: rest => nDisp rest

/-- what the displayed equations need from the state: the display collection `rot.disp` of the
    current language is stored and not empty, the language settings exist -/
def DispSt (T : PTables) (st : PState) (rot : Rot) (ls : LangSettings) : Prop :=
  rotOf st (curSettings st) = some rot ∧ rot.disp ≠ [] ∧ settingsOf T (curSettings st) = some ls

/-- … only asked for if there are `nm` formulas resp. `nd` displayed equations -/
def RotOk (T : PTables) (st : PState) (rot : Rot) (ls : LangSettings) (nm nd : Nat) : Prop :=
  (nm ≠ 0 → MathSt T st rot ls) ∧ (nd ≠ 0 → DispSt T st rot ls)

theorem RotOk.congr {T : PTables} {st st' : PState} {rot : Rot} {ls : LangSettings} {nm nd : Nat}
    (hl : st'.langStack = st.langStack) (hr : st'.rots = st.rots) (h : RotOk T st rot ls nm nd) :
    RotOk T st' rot ls nm nd := by
  refine ⟨fun h0 => ?_, fun h0 => ?_⟩
  · obtain ⟨h1, h2, h3⟩ := h.1 h0
    refine ⟨?_, h2, ?_⟩
    · simpa [rotOf, curSettings, hl, hr] using h1
    · simpa [curSettings, hl] using h3
  · obtain ⟨h1, h2, h3⟩ := h.2 h0
    refine ⟨?_, h2, ?_⟩
    · simpa [rotOf, curSettings, hl, hr] using h1
    · simpa [curSettings, hl] using h3

/-- the names that are recorded as unknown, with backslash, in order of occurrence: undeclared
    control words, and uses of names that are not (yet) defined -/
def names : PState → List Piece → List Str
  | _, [] => []
  | st, .cw p name sk :: rest => ('\\' :: name) :: names (nextSt st (.cw p name sk)) rest
  | st, .use p name gs :: rest =>
    (if (lookupMacro st ('\\' :: name)).isNone then [('\\' :: name)] else [])
      ++ names (nextSt st (.use p name gs)) rest
  | st, .ubeg p q1 q2 nt :: rest => bodyTxt nt :: names (nextSt st (.ubeg p q1 q2 nt)) rest
  | st, pc :: rest => names (nextSt st pc) rest

/-! ### the invariant on the current state -/

/-- the current state relative to the initialised state `st1`: declared macros keep their
    meaning, every other macro is a user macro with a good body (`PlainMacroArgs.StOk`); the other
    fields the side conditions look at are unchanged -/
structure StOk3 (T : PTables) (st1 st : PState) : Prop where
  base : StOk T st1 st
  skip : st.skipBegin = st1.skipBegin
  ml : st.multiLanguage = st1.multiLanguage
  mtm : st.mathTextMacros = st1.mathTextMacros
  ops : st.mathOperators = st1.mathOperators
  envs : st.envs = st1.envs
  ds : st.displayedSimple = st1.displayedSimple

theorem StOk3.refl (T : PTables) (st1 : PState) : StOk3 T st1 st1 :=
  ⟨StOk.refl T st1, rfl, rfl, rfl, rfl, rfl, rfl⟩

/-- a change of the state that touches none of the fields the conditions depend on -/
theorem StOk3.of_eq {T : PTables} {st1 st st' : PState} (h : StOk3 T st1 st)
    (hl : st'.langStack = st.langStack) (hm : st'.macros = st.macros)
    (hi : st'.newcommandIgnore = st.newcommandIgnore) (hs : st'.skipBegin = st.skipBegin)
    (hml : st'.multiLanguage = st.multiLanguage) (hmt : st'.mathTextMacros = st.mathTextMacros)
    (ho : st'.mathOperators = st.mathOperators) (he : st'.envs = st.envs)
    (hd : st'.displayedSimple = st.displayedSimple) : StOk3 T st1 st' := by
  refine ⟨⟨hl.trans h.base.lang, hi.trans h.base.ign, ?_, ?_⟩, hs.trans h.skip, hml.trans h.ml,
    hmt.trans h.mtm, ho.trans h.ops, he.trans h.envs, hd.trans h.ds⟩
  · intro nm m hm1
    have := h.base.decl nm m hm1
    simpa [lookupMacro, hm] using this
  · intro nm m h1 h2
    exact h.base.user nm m h1 (by simpa [lookupMacro, hm] using h2)

theorem StOk3.defSt {T : PTables} {st1 st : PState} (h : StOk3 T st1 st) (name : Str) (n : Nat)
    (body : List Tok) (hn : NameOk st1 name) (hb : GoodBody T st1 n body) :
    StOk3 T st1 (defSt st name n body) :=
  ⟨h.base.defSt name n body hn hb, h.skip, h.ml, h.mtm, h.ops, h.envs, h.ds⟩

theorem StOk3.useSt {T : PTables} {st1 st : PState} (h : StOk3 T st1 st) (name : Str) :
    StOk3 T st1 (useSt st name) := by
  refine ⟨h.base.useSt name, ?_, ?_, ?_, ?_, ?_, ?_⟩ <;>
  · unfold PlainMacroArgs.useSt
    split
    · first | exact h.skip | exact h.ml | exact h.mtm | exact h.ops | exact h.envs | exact h.ds
    · first | exact h.skip | exact h.ml | exact h.mtm | exact h.ops | exact h.envs | exact h.ds

/-- `\item` and `\end` touch nothing but `itemStack` -/
theorem itemSt_fields (st : PState) :
    (itemSt st).langStack = st.langStack ∧ (itemSt st).macros = st.macros ∧
    (itemSt st).newcommandIgnore = st.newcommandIgnore ∧ (itemSt st).skipBegin = st.skipBegin ∧
    (itemSt st).multiLanguage = st.multiLanguage ∧ (itemSt st).mathTextMacros = st.mathTextMacros ∧
    (itemSt st).mathOperators = st.mathOperators ∧ (itemSt st).envs = st.envs ∧
    (itemSt st).displayedSimple = st.displayedSimple ∧ (itemSt st).rots = st.rots ∧
    (itemSt st).unknowns = st.unknowns ∧ (itemSt st).extracted = st.extracted ∧
    (itemSt st).diags = st.diags ∧ (itemSt st).nest = st.nest ∧ (itemSt st).latex = st.latex ∧
    (itemSt st).foreign = st.foreign := by
  unfold PlainItem.itemSt
  split <;> simp

theorem endSt_fields (st : PState) :
    (PlainItem.endSt st).langStack = st.langStack ∧ (PlainItem.endSt st).macros = st.macros ∧
    (PlainItem.endSt st).newcommandIgnore = st.newcommandIgnore ∧
    (PlainItem.endSt st).skipBegin = st.skipBegin ∧
    (PlainItem.endSt st).multiLanguage = st.multiLanguage ∧
    (PlainItem.endSt st).mathTextMacros = st.mathTextMacros ∧
    (PlainItem.endSt st).mathOperators = st.mathOperators ∧ (PlainItem.endSt st).envs = st.envs ∧
    (PlainItem.endSt st).displayedSimple = st.displayedSimple ∧ (PlainItem.endSt st).rots = st.rots ∧
    (PlainItem.endSt st).unknowns = st.unknowns ∧ (PlainItem.endSt st).extracted = st.extracted ∧
    (PlainItem.endSt st).diags = st.diags ∧ (PlainItem.endSt st).nest = st.nest ∧
    (PlainItem.endSt st).latex = st.latex ∧ (PlainItem.endSt st).foreign = st.foreign := by
  unfold PlainItem.endSt
  split <;> simp

theorem StOk3.itemSt {T : PTables} {st1 st : PState} (h : StOk3 T st1 st) : StOk3 T st1 (itemSt st) := by
  obtain ⟨a1, a2, a3, a4, a5, a6, a7, a8, a9, _⟩ := itemSt_fields st
  exact h.of_eq a1 a2 a3 a4 a5 a6 a7 a8 a9

theorem StOk3.endSt {T : PTables} {st1 st : PState} (h : StOk3 T st1 st) :
    StOk3 T st1 (PlainItem.endSt st) := by
  obtain ⟨a1, a2, a3, a4, a5, a6, a7, a8, a9, _⟩ := endSt_fields st
  exact h.of_eq a1 a2 a3 a4 a5 a6 a7 a8 a9

/-! ### the state only matters through the macro table and `math_operators` -/

structure SameM (st st' : PState) : Prop where
  macros : st'.macros = st.macros
  ops : st'.mathOperators = st.mathOperators
  envs : st'.envs = st.envs
  stack : st'.itemStack = st.itemStack
  lang : st'.langStack = st.langStack

theorem SameM.envOf {st st' : PState} (h : SameM st st') (nm : Str) :
    PlainItem.envOf st' nm = PlainItem.envOf st nm := by
  simp [PlainItem.envOf, lookupEnv, h.envs]

theorem labelAt_congr (T : PTables) {st st' : PState} (hl : st'.langStack = st.langStack)
    (stk : List ItemGen) : labelAt T st' stk = labelAt T st stk := by
  cases stk with
  | nil => rfl
  | cons g gs =>
    simp only [PlainItem.labelAt]
    cases itemLabel T.itemDefaultLabel g with
    | none => rfl
    | some lab => simp only [PlainItem.labOk, activeChars_congr T st st' hl]

theorem SameM.lookup {st st' : PState} (h : SameM st st') (nm : Str) :
    lookupMacro st' nm = lookupMacro st nm := by
  simp [lookupMacro, h.macros]

theorem SameM.next {st st' : PState} (h : SameM st st') (pc : Piece) :
    SameM (nextSt st pc) (nextSt st' pc) := by
  cases pc with
  | defn p q1 q2 q3 q4 q5 q6 q7 q8 name n body =>
    exact ⟨by simp [nextSt, PlainMacroArgs.defSt, h.macros], h.ops, h.envs, h.stack, h.lang⟩
  | use p name gs =>
    simp only [nextSt, PlainMacroArgs.useSt, h.lookup]
    split
    · exact h
    · exact ⟨h.macros, h.ops, h.envs, h.stack, h.lang⟩
  | ddef p q2 q q7 q8 name n body =>
    exact ⟨by simp [nextSt, PlainMacroArgs.defSt, h.macros], h.ops, h.envs, h.stack, h.lang⟩
  | beg p q1 q2 nt =>
    have e : styleOf st' (bodyTxt nt) = styleOf st (bodyTxt nt) := by
      simp [PlainItem.styleOf, h.envOf]
    exact ⟨h.macros, h.ops, h.envs, by simp [nextSt, PlainItem.begSt, h.stack, e], h.lang⟩
  | item p sp =>
    have hs := h.stack
    cases hst : st.itemStack with
    | nil =>
      have e : st'.itemStack = [] := by rw [hs, hst]
      simp only [nextSt, PlainItem.itemSt, hst, e]
      exact h
    | cons g gs =>
      have e : st'.itemStack = g :: gs := by rw [hs, hst]
      simp only [nextSt, PlainItem.itemSt, hst, e]
      exact ⟨h.macros, h.ops, h.envs, rfl, h.lang⟩
  | en p q1 q2 nt =>
    simp only [nextSt, PlainItem.endSt, h.stack]
    split
    · exact ⟨h.macros, h.ops, h.envs, by simp [h.stack], h.lang⟩
    · exact h
  | _ => exact ⟨h.macros, h.ops, h.envs, h.stack, h.lang⟩

theorem useBody_congr {st st' : PState} (h : SameM st st') (p : Nat) (name : Str) (gs : List Group) :
    useBody st' p name gs = useBody st p name gs := by
  simp only [useBody, h.lookup]

theorem useN_congr {st st' : PState} (h : SameM st st') (name : Str) : useN st' name = useN st name := by
  simp only [useN, h.lookup]

theorem mout_congr' (T : PTables) {st st' : PState} (h : SameM st st') (b : List Tok) :
    b.flatMap (mout T st') = b.flatMap (mout T st) := by
  congr 1
  funext t
  exact PlainMathRich.mout_congr T st st' h.ops t

theorem outP_congr (T : PTables) : ∀ (ps : List Piece) (st st' : PState) (l : Colls), SameM st st' →
    outP T st' l ps = outP T st l ps
  | [], _, _, _, _ => rfl
  | .tok t :: rest, st, st', l, h => by simp only [outP, outP_congr T rest st st' l h]
  | .spc t :: rest, st, st', l, h => by simp only [outP, outP_congr T rest st st' l h]
  | .br t :: rest, st, st', l, h => by simp only [outP, outP_congr T rest st st' l h]
  | .cw p name sk :: rest, st, st', l, h => by
    simp only [outP, outP_congr T rest _ _ l (h.next (.cw p name sk))]
  | .van .. :: rest, st, st', l, h => by simp only [outP, outP_congr T rest st st' l h]
  | .com _ :: rest, st, st', l, h => by simp only [outP, outP_congr T rest st st' l h]
  | .verb _ :: rest, st, st', l, h => by simp only [outP, outP_congr T rest st st' l h]
  | .math d1 b d2 :: rest, st, st', l, h => by
    simp only [outP, outP_congr T rest st st' (rotL l.1, l.2) h, mout_congr' T h]
  | .ref .. :: rest, st, st', l, h => by simp only [outP, outP_congr T rest st st' l h]
  | .cite .. :: rest, st, st', l, h => by simp only [outP, outP_congr T rest st st' l h]
  | .citeN .. :: rest, st, st', l, h => by simp only [outP, outP_congr T rest st st' l h]
  | .foot fn lb b rb :: rest, st, st', l, h => by
    simp only [outP, outP_congr T rest _ _ l (h.next (.foot fn lb b rb))]
  | .head .. :: rest, st, st', l, h => by simp only [outP, outP_congr T rest st st' l h]
  | .acc .. :: rest, st, st', l, h => by simp only [outP, outP_congr T rest st st' l h]
  | .defn p q1 q2 q3 q4 q5 q6 q7 q8 name n body :: rest, st, st', l, h => by
    simp only [outP, outP_congr T rest _ _ l (h.next (.defn p q1 q2 q3 q4 q5 q6 q7 q8 name n body))]
  | .use p name gs :: rest, st, st', l, h => by
    simp only [outP, outP_congr T rest _ _ l (h.next (.use p name gs)), useBody_congr h,
      useN_congr h]
  | .disp .. :: rest, st, st', l, h => by simp only [outP, outP_congr T rest st st' (l.1, rotL l.2) h]
  | .denv .. :: rest, st, st', l, h => by simp only [outP, outP_congr T rest st st' (l.1, rotL l.2) h]
  | .ddef p q2 q q7 q8 name n body :: rest, st, st', l, h => by
    simp only [outP, outP_congr T rest _ _ l (h.next (.ddef p q2 q q7 q8 name n body))]
  | .ppar .. :: rest, st, st', l, h => by simp only [outP, outP_congr T rest st st' l h]
  | .pbeg .. :: rest, st, st', l, h => by simp only [outP, outP_congr T rest st st' l h]
  | .pen .. :: rest, st, st', l, h => by simp only [outP, outP_congr T rest st st' l h]
  | .call p q1 q2 name b :: rest, st, st', l, h => by
    simp only [outP, outP_congr T rest _ _ l (h.next (.call p q1 q2 name b))]
  | .callO p b1 b2 q1 q2 name opt b :: rest, st, st', l, h => by
    simp only [outP, outP_congr T rest _ _ l (h.next (.callO p b1 b2 q1 q2 name opt b))]
  | .fen .. :: rest, st, st', l, h => by simp only [outP, outP_congr T rest st st' l h]
  | .fbegN .. :: rest, st, st', l, h => by simp only [outP, outP_congr T rest st st' l h]
  | .fbeg .. :: rest, st, st', l, h => by simp only [outP, outP_congr T rest st st' l h]
  | .beg p q1 q2 nt :: rest, st, st', l, h => by
    simp only [outP, outP_congr T rest _ _ l (h.next (.beg p q1 q2 nt)), h.envOf]
  | .item p sp :: rest, st, st', l, h => by
    simp only [outP, outP_congr T rest _ _ l (h.next (.item p sp)), h.stack]
  | .itemL .. :: rest, st, st', l, h => by simp only [outP, outP_congr T rest st st' l h]
  | .ubeg p q1 q2 nt :: rest, st, st', l, h => by
    simp only [outP, outP_congr T rest _ _ l (h.next (.ubeg p q1 q2 nt))]
  | .uen .. :: rest, st, st', l, h => by simp only [outP, outP_congr T rest st st' l h]
  | .en p q1 q2 nt :: rest, st, st', l, h => by
    simp only [outP, outP_congr T rest _ _ l (h.next (.en p q1 q2 nt)), h.envOf]

theorem cost_congr : ∀ (ps : List Piece) (st st' : PState), SameM st st' → cost st' ps = cost st ps
  | [], _, _, _ => rfl
  | .tok t :: rest, st, st', h => by simp only [cost, cost_congr rest st st' h]
  | .spc t :: rest, st, st', h => by simp only [cost, cost_congr rest st st' h]
  | .br t :: rest, st, st', h => by simp only [cost, cost_congr rest st st' h]
  | .cw p name sk :: rest, st, st', h => by
    simp only [cost, cost_congr rest _ _ (h.next (.cw p name sk))]
  | .van .. :: rest, st, st', h => by simp only [cost, cost_congr rest st st' h]
  | .com _ :: rest, st, st', h => by simp only [cost, cost_congr rest st st' h]
  | .verb _ :: rest, st, st', h => by simp only [cost, cost_congr rest st st' h]
  | .math .. :: rest, st, st', h => by simp only [cost, cost_congr rest st st' h]
  | .ref .. :: rest, st, st', h => by simp only [cost, cost_congr rest st st' h]
  | .cite .. :: rest, st, st', h => by simp only [cost, cost_congr rest st st' h]
  | .citeN .. :: rest, st, st', h => by simp only [cost, cost_congr rest st st' h]
  | .foot fn lb b rb :: rest, st, st', h => by
    simp only [cost, cost_congr rest _ _ (h.next (.foot fn lb b rb))]
  | .head .. :: rest, st, st', h => by simp only [cost, cost_congr rest st st' h]
  | .acc .. :: rest, st, st', h => by simp only [cost, cost_congr rest st st' h]
  | .defn p q1 q2 q3 q4 q5 q6 q7 q8 name n body :: rest, st, st', h => by
    simp only [cost, cost_congr rest _ _ (h.next (.defn p q1 q2 q3 q4 q5 q6 q7 q8 name n body))]
  | .use p name gs :: rest, st, st', h => by
    simp only [cost, cost_congr rest _ _ (h.next (.use p name gs)), useBody_congr h, useN_congr h]
  | .disp .. :: rest, st, st', h => by simp only [cost, cost_congr rest st st' h]
  | .denv .. :: rest, st, st', h => by simp only [cost, cost_congr rest st st' h]
  | .ddef p q2 q q7 q8 name n body :: rest, st, st', h => by
    simp only [cost, cost_congr rest _ _ (h.next (.ddef p q2 q q7 q8 name n body))]
  | .ppar .. :: rest, st, st', h => by simp only [cost, cost_congr rest st st' h]
  | .pbeg .. :: rest, st, st', h => by simp only [cost, cost_congr rest st st' h]
  | .pen .. :: rest, st, st', h => by simp only [cost, cost_congr rest st st' h]
  | .call p q1 q2 name b :: rest, st, st', h => by
    simp only [cost, cost_congr rest _ _ (h.next (.call p q1 q2 name b))]
  | .callO p b1 b2 q1 q2 name opt b :: rest, st, st', h => by
    simp only [cost, cost_congr rest _ _ (h.next (.callO p b1 b2 q1 q2 name opt b))]
  | .fen .. :: rest, st, st', h => by simp only [cost, cost_congr rest st st' h]
  | .fbegN .. :: rest, st, st', h => by simp only [cost, cost_congr rest st st' h]
  | .fbeg .. :: rest, st, st', h => by simp only [cost, cost_congr rest st st' h]
  | .beg p q1 q2 nt :: rest, st, st', h => by
    simp only [cost, cost_congr rest _ _ (h.next (.beg p q1 q2 nt))]
  | .item p sp :: rest, st, st', h => by simp only [cost, cost_congr rest _ _ (h.next (.item p sp))]
  | .itemL .. :: rest, st, st', h => by simp only [cost, cost_congr rest st st' h]
  | .ubeg p q1 q2 nt :: rest, st, st', h => by
    simp only [cost, cost_congr rest _ _ (h.next (.ubeg p q1 q2 nt))]
  | .uen .. :: rest, st, st', h => by simp only [cost, cost_congr rest st st' h]
  | .en p q1 q2 nt :: rest, st, st', h => by
    simp only [cost, cost_congr rest _ _ (h.next (.en p q1 q2 nt))]

theorem liveHead_congr (T : PTables) {st st' : PState} (h : SameM st st') (pc : Piece) :
    liveHead T st pc → liveHead T st' pc := by
  cases pc with
  | cw p name sk => simp only [liveHead, h.lookup]; exact id
  | math d1 b d2 => simp only [liveHead, h.lookup]; exact id
  | use p name gs => simp only [liveHead, useN_congr h]; exact id
  | item p sp => simp only [liveHead, h.stack, labelAt_congr T h.lang]; exact id
  | _ => exact id

theorem Live_congr (T : PTables) : ∀ (ps : List Piece) (st st' : PState), SameM st st' →
    Live T st ps → Live T st' ps
  | [], _, _, _, _ => trivial
  | pc :: rest, st, st', h, hl =>
    ⟨liveHead_congr T h pc hl.1, Live_congr T rest _ _ (h.next pc) hl.2⟩

/-! ### `finalSt` -/

/-- the rotation records do not matter for `finalSt` -/
theorem nextSt_rots (st : PState) (r : List Rot) (pc : Piece) :
    nextSt { st with rots := r } pc = { nextSt st pc with rots := r } := by
  cases pc with
  | use p name gs =>
    simp only [nextSt, PlainMacroArgs.useSt, lookupMacro]
    split <;> rfl
  | item p sp =>
    cases h : st.itemStack with
    | nil =>
      have e : ({ st with rots := r } : PState).itemStack = [] := h
      simp only [nextSt, PlainItem.itemSt, h, e]
    | cons g gs =>
      have e : ({ st with rots := r } : PState).itemStack = g :: gs := h
      simp only [nextSt, PlainItem.itemSt, h, e]
  | en p q1 q2 nt =>
    have e : ({ st with rots := r } : PState).itemStack = st.itemStack := rfl
    simp only [nextSt, PlainItem.endSt, e]
    split <;> rfl
  | _ => rfl

theorem finalSt_rots : ∀ (ps : List Piece) (st : PState) (r X : List Rot),
    { finalSt { st with rots := r } ps with rots := X } = { finalSt st ps with rots := X }
  | [], _, _, _ => rfl
  | pc :: rest, st, r, X => by
    show { finalSt (nextSt { st with rots := r } pc) rest with rots := X }
      = { finalSt (nextSt st pc) rest with rots := X }
    rw [nextSt_rots]
    exact finalSt_rots rest (nextSt st pc) r X

theorem dropComs_length : ∀ ps : List Piece, (dropComs ps).length ≤ ps.length
  | [] => Nat.le_refl _
  | .com _ :: rest => by
    have := dropComs_length rest
    simp only [dropComs, List.length_cons]; omega
  | .tok _ :: _ => Nat.le_refl _
  | .spc _ :: _ => Nat.le_refl _
  | .br _ :: _ => Nat.le_refl _
  | .cw .. :: _ => Nat.le_refl _
  | .van .. :: _ => Nat.le_refl _
  | .verb _ :: _ => Nat.le_refl _
  | .math .. :: _ => Nat.le_refl _
  | .ref .. :: _ => Nat.le_refl _
  | .cite .. :: _ => Nat.le_refl _
  | .citeN .. :: _ => Nat.le_refl _
  | .foot .. :: _ => Nat.le_refl _
  | .head .. :: _ => Nat.le_refl _
  | .acc .. :: _ => Nat.le_refl _
  | .defn .. :: _ => Nat.le_refl _
  | .use .. :: _ => Nat.le_refl _
  | .disp .. :: _ => Nat.le_refl _
  | .ddef .. :: _ => Nat.le_refl _
  | .ppar .. :: _ => Nat.le_refl _
  | .pbeg .. :: _ => Nat.le_refl _
  | .pen .. :: _ => Nat.le_refl _
  | .call .. :: _ => Nat.le_refl _
  | .callO .. :: _ => Nat.le_refl _
  | .fen .. :: _ => Nat.le_refl _
  | .fbegN .. :: _ => Nat.le_refl _
  | .fbeg .. :: _ => Nat.le_refl _
  | .beg .. :: _ => Nat.le_refl _
  | .denv .. :: _ => Nat.le_refl _
  | .item .. :: _ => Nat.le_refl _
  | .itemL .. :: _ => Nat.le_refl _
  | .ubeg .. :: _ => Nat.le_refl _
  | .uen .. :: _ => Nat.le_refl _
  | .en .. :: _ => Nat.le_refl _

theorem nDisp_dropComs : ∀ ps : List Piece, nDisp (dropComs ps) = nDisp ps
  | [] => rfl
  | .com _ :: rest => by simp only [dropComs, nDisp, nDisp_dropComs rest]
  | .tok _ :: _ => rfl
  | .spc _ :: _ => rfl
  | .br _ :: _ => rfl
  | .cw .. :: _ => rfl
  | .van .. :: _ => rfl
  | .verb _ :: _ => rfl
  | .math .. :: _ => rfl
  | .ref .. :: _ => rfl
  | .cite .. :: _ => rfl
  | .citeN .. :: _ => rfl
  | .foot .. :: _ => rfl
  | .head .. :: _ => rfl
  | .acc .. :: _ => rfl
  | .defn .. :: _ => rfl
  | .use .. :: _ => rfl
  | .disp .. :: _ => rfl
  | .ddef .. :: _ => rfl
  | .ppar .. :: _ => rfl
  | .pbeg .. :: _ => rfl
  | .pen .. :: _ => rfl
  | .call .. :: _ => rfl
  | .callO .. :: _ => rfl
  | .fen .. :: _ => rfl
  | .fbegN .. :: _ => rfl
  | .fbeg .. :: _ => rfl
  | .beg .. :: _ => rfl
  | .denv .. :: _ => rfl
  | .item .. :: _ => rfl
  | .itemL .. :: _ => rfl
  | .ubeg .. :: _ => rfl
  | .uen .. :: _ => rfl
  | .en .. :: _ => rfl

/-- dropping the comments in front changes nothing but the buffer -/
theorem dropComs_facts (T : PTables) (st1 : PState) : ∀ ps : List Piece, PiecesOk T st1 ps →
    PiecesOk T st1 (dropComs ps) ∧ (∀ st l, outP T st l (dropComs ps) = outP T st l ps) ∧
    (∀ st, finalSt st (dropComs ps) = finalSt st ps) ∧ nMath (dropComs ps) = nMath ps ∧
    (∀ st, Live T st ps → Live T st (dropComs ps)) ∧ (∀ st, cost st (dropComs ps) ≤ cost st ps) ∧
    skipSpaceStopLangAct (flat ps) = skipSpaceStopLangAct (flat (dropComs ps))
  | [], h => ⟨h, fun _ _ => rfl, fun _ => rfl, rfl, fun _ h => h, fun _ => Nat.le_refl _, rfl⟩
  | .com t :: rest, h => by
    obtain ⟨h1, h2, h3, h4, h5, h6, h7⟩ := dropComs_facts T st1 rest h.2
    refine ⟨h1, fun st l => by simp only [dropComs, outP, h2],
      fun st => by simp only [dropComs, finalSt, nextSt, h3],
      by simp only [dropComs, nMath, h4], fun st hl => h5 st hl.2,
      fun st => by have := h6 st; simp only [dropComs, cost]; omega, ?_⟩
    have hd : (isSpaceTok t && !isLangK t && !(t.kind == .action)) = true := by
      simp [isSpaceTok, isLangK, h.1.kind]
    simp only [dropComs, flat, Piece.toks, List.singleton_append]
    unfold skipSpaceStopLangAct at h7 ⊢
    rw [List.dropWhile_cons, if_pos hd]
    exact h7
  | .tok _ :: _, h => ⟨h, fun _ _ => rfl, fun _ => rfl, rfl, fun _ h => h, fun _ => Nat.le_refl _, rfl⟩
  | .spc _ :: _, h => ⟨h, fun _ _ => rfl, fun _ => rfl, rfl, fun _ h => h, fun _ => Nat.le_refl _, rfl⟩
  | .br _ :: _, h => ⟨h, fun _ _ => rfl, fun _ => rfl, rfl, fun _ h => h, fun _ => Nat.le_refl _, rfl⟩
  | .cw .. :: _, h => ⟨h, fun _ _ => rfl, fun _ => rfl, rfl, fun _ h => h, fun _ => Nat.le_refl _, rfl⟩
  | .van .. :: _, h => ⟨h, fun _ _ => rfl, fun _ => rfl, rfl, fun _ h => h, fun _ => Nat.le_refl _, rfl⟩
  | .verb _ :: _, h => ⟨h, fun _ _ => rfl, fun _ => rfl, rfl, fun _ h => h, fun _ => Nat.le_refl _, rfl⟩
  | .math .. :: _, h => ⟨h, fun _ _ => rfl, fun _ => rfl, rfl, fun _ h => h, fun _ => Nat.le_refl _, rfl⟩
  | .ref .. :: _, h => ⟨h, fun _ _ => rfl, fun _ => rfl, rfl, fun _ h => h, fun _ => Nat.le_refl _, rfl⟩
  | .cite .. :: _, h => ⟨h, fun _ _ => rfl, fun _ => rfl, rfl, fun _ h => h, fun _ => Nat.le_refl _, rfl⟩
  | .citeN .. :: _, h => ⟨h, fun _ _ => rfl, fun _ => rfl, rfl, fun _ h => h, fun _ => Nat.le_refl _, rfl⟩
  | .foot .. :: _, h => ⟨h, fun _ _ => rfl, fun _ => rfl, rfl, fun _ h => h, fun _ => Nat.le_refl _, rfl⟩
  | .head .. :: _, h => ⟨h, fun _ _ => rfl, fun _ => rfl, rfl, fun _ h => h, fun _ => Nat.le_refl _, rfl⟩
  | .acc .. :: _, h => ⟨h, fun _ _ => rfl, fun _ => rfl, rfl, fun _ h => h, fun _ => Nat.le_refl _, rfl⟩
  | .defn .. :: _, h => ⟨h, fun _ _ => rfl, fun _ => rfl, rfl, fun _ h => h, fun _ => Nat.le_refl _, rfl⟩
  | .use .. :: _, h => ⟨h, fun _ _ => rfl, fun _ => rfl, rfl, fun _ h => h, fun _ => Nat.le_refl _, rfl⟩
  | .disp .. :: _, h => ⟨h, fun _ _ => rfl, fun _ => rfl, rfl, fun _ h => h, fun _ => Nat.le_refl _, rfl⟩
  | .ddef .. :: _, h => ⟨h, fun _ _ => rfl, fun _ => rfl, rfl, fun _ h => h, fun _ => Nat.le_refl _, rfl⟩
  | .ppar .. :: _, h => ⟨h, fun _ _ => rfl, fun _ => rfl, rfl, fun _ h => h, fun _ => Nat.le_refl _, rfl⟩
  | .pbeg .. :: _, h => ⟨h, fun _ _ => rfl, fun _ => rfl, rfl, fun _ h => h, fun _ => Nat.le_refl _, rfl⟩
  | .pen .. :: _, h => ⟨h, fun _ _ => rfl, fun _ => rfl, rfl, fun _ h => h, fun _ => Nat.le_refl _, rfl⟩
  | .call .. :: _, h => ⟨h, fun _ _ => rfl, fun _ => rfl, rfl, fun _ h => h, fun _ => Nat.le_refl _, rfl⟩
  | .callO .. :: _, h => ⟨h, fun _ _ => rfl, fun _ => rfl, rfl, fun _ h => h, fun _ => Nat.le_refl _, rfl⟩
  | .fen .. :: _, h => ⟨h, fun _ _ => rfl, fun _ => rfl, rfl, fun _ h => h, fun _ => Nat.le_refl _, rfl⟩
  | .fbegN .. :: _, h => ⟨h, fun _ _ => rfl, fun _ => rfl, rfl, fun _ h => h, fun _ => Nat.le_refl _, rfl⟩
  | .fbeg .. :: _, h => ⟨h, fun _ _ => rfl, fun _ => rfl, rfl, fun _ h => h, fun _ => Nat.le_refl _, rfl⟩
  | .beg .. :: _, h => ⟨h, fun _ _ => rfl, fun _ => rfl, rfl, fun _ h => h, fun _ => Nat.le_refl _, rfl⟩
  | .denv .. :: _, h => ⟨h, fun _ _ => rfl, fun _ => rfl, rfl, fun _ h => h, fun _ => Nat.le_refl _, rfl⟩
  | .item .. :: _, h => ⟨h, fun _ _ => rfl, fun _ => rfl, rfl, fun _ h => h, fun _ => Nat.le_refl _, rfl⟩
  | .itemL .. :: _, h => ⟨h, fun _ _ => rfl, fun _ => rfl, rfl, fun _ h => h, fun _ => Nat.le_refl _, rfl⟩
  | .ubeg .. :: _, h => ⟨h, fun _ _ => rfl, fun _ => rfl, rfl, fun _ h => h, fun _ => Nat.le_refl _, rfl⟩
  | .uen .. :: _, h => ⟨h, fun _ _ => rfl, fun _ => rfl, rfl, fun _ h => h, fun _ => Nat.le_refl _, rfl⟩
  | .en .. :: _, h => ⟨h, fun _ _ => rfl, fun _ => rfl, rfl, fun _ h => h, fun _ => Nat.le_refl _, rfl⟩

/-! ### the punctuation a labelled item repeats -/

/-- the punctuation mark recorded in every `\item[label]` piece is the one `expand_item` finds: the
    last character of the last non-blank token of the output so far, if it is in `item_punctuation` -/
def PvOk (T : PTables) (out : List Tok) (st : PState) (l : Colls) (ps : List Piece) : Prop :=
  ∀ pre p sp b1 b2 lab pc suf, ps = pre ++ Piece.itemL p sp b1 b2 lab pc :: suf →
    punctOf T (pvOf (out ++ outP T st l pre)) = pc

theorem PvOk.head {T : PTables} {out : List Tok} {st : PState} {l : Colls} {p : Nat} {sp : List Tok}
    {b1 b2 : Nat} {lab : List Tok} {pc : Option Char} {ps : List Piece}
    (h : PvOk T out st l (.itemL p sp b1 b2 lab pc :: ps)) : punctOf T (pvOf out) = pc := by
  have := h [] p sp b1 b2 lab pc ps rfl
  simpa [outP] using this

theorem PvOk.tail {T : PTables} {out : List Tok} {st : PState} {l : Colls} {X : Piece} {ps : List Piece}
    {hd : List Tok} {st' : PState} {l' : Colls}
    (he : ∀ pre, outP T st l (X :: pre) = hd ++ outP T st' l' pre) (h : PvOk T out st l (X :: ps)) :
    PvOk T (out ++ hd) st' l' ps := by
  intro pre p sp b1 b2 lab pc suf e
  have := h (X :: pre) p sp b1 b2 lab pc suf (by rw [e]; rfl)
  rw [he, ← List.append_assoc] at this
  exact this

theorem PvOk.tail2 {T : PTables} {out out' : List Tok} {st : PState} {l : Colls} {X : Piece}
    {ps : List Piece} {st' : PState} {l' : Colls}
    (he : ∀ pre, out ++ outP T st l (X :: pre) = out' ++ outP T st' l' pre)
    (h : PvOk T out st l (X :: ps)) : PvOk T out' st' l' ps := by
  intro pre p sp b1 b2 lab pc suf e
  have := h (X :: pre) p sp b1 b2 lab pc suf (by rw [e]; rfl)
  rw [he] at this
  exact this
theorem PvOk.cons {T : PTables} {out : List Tok} {st : PState} {l : Colls} {X : Piece} {ps : List Piece}
    {hd : List Tok} {st' : PState} {l' : Colls}
    (he : ∀ pre, outP T st l (X :: pre) = hd ++ outP T st' l' pre)
    (hx : ∀ p sp b1 b2 lab pc, X ≠ .itemL p sp b1 b2 lab pc)
    (h : PvOk T (out ++ hd) st' l' ps) : PvOk T out st l (X :: ps) := by
  intro pre p sp b1 b2 lab pc suf e
  cases pre with
  | nil =>
    simp only [List.nil_append, List.cons.injEq] at e
    exact absurd e.1 (hx p sp b1 b2 lab pc)
  | cons Y pre' =>
    simp only [List.cons_append, List.cons.injEq] at e
    obtain ⟨rfl, e2⟩ := e
    rw [he, ← List.append_assoc]
    exact h pre' p sp b1 b2 lab pc suf e2

theorem PvOk.consL {T : PTables} {out : List Tok} {st : PState} {l : Colls} {p : Nat} {sp : List Tok}
    {b1 b2 : Nat} {lab : List Tok} {pc : Option Char} {ps : List Piece}
    (hp : punctOf T (pvOf out) = pc) (h : PvOk T (out ++ itemLOut p (labArg b1 lab) pc) st l ps) :
    PvOk T out st l (.itemL p sp b1 b2 lab pc :: ps) := by
  intro pre p' sp' b1' b2' lab' pc' suf e
  cases pre with
  | nil =>
    simp only [List.nil_append, List.cons.injEq, Piece.itemL.injEq] at e
    obtain ⟨⟨_, _, _, _, _, rfl⟩, _⟩ := e
    simpa [outP] using hp
  | cons Y pre' =>
    simp only [List.cons_append, List.cons.injEq] at e
    obtain ⟨rfl, e2⟩ := e
    have := h pre' p' sp' b1' b2' lab' pc' suf e2
    simp only [outP, ← List.append_assoc]
    exact this

theorem PvOk.congr {T : PTables} {out : List Tok} {st st' : PState} {l : Colls} {ps : List Piece}
    (hs : SameM st st') (h : PvOk T out st l ps) : PvOk T out st' l ps := by
  intro pre p sp b1 b2 lab pc suf e
  rw [outP_congr T pre st st' l hs]
  exact h pre p sp b1 b2 lab pc suf e

theorem PvOk.dropComs {T : PTables} {st : PState} {l : Colls} : ∀ (ps : List Piece) (out : List Tok),
    PvOk T out st l ps → PvOk T out st l (PlainMix4.dropComs ps)
  | [], _, h => h
  | pc :: rest, out, h => by
    cases pc
    case com t =>
      show PvOk T out st l (PlainMix4.dropComs rest)
      have := PvOk.tail (hd := []) (st' := st) (l' := l) (fun _ => rfl) h
      rw [List.append_nil] at this
      exact PvOk.dropComs rest out this
    all_goals exact h
end PlainMix4
end Yalafi
