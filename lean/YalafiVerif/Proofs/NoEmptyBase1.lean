/-
  Proofs/NoEmptyBase1.lean — leaf lemmas (no induction hypothesis) for the NoEmpty bundle, part 1:
  error marks, `arg_buffer`, argument collection, replacement generation, `\def`.
-/
import YalafiVerif.Proofs.NoEmptyDefs
import YalafiVerif.Proofs.Inv.Basic
namespace Yalafi
namespace NoEmpty

variable {T : PTables}

/-! ### error marks -/

/-- the two halves of an error mark are non-empty text tokens in range, PROVIDED `pos < n`
    (for `pos ≥ n` the first half is `mark.take 0 = []`: see `latexErrorToks_empty_example`) -/
private theorem NE_fixText (n p : Nat) (txt : Str) (hp : p < n) (ht : txt ≠ []) :
    NE T n { kind := .text, pos := p, txt := txt, fix := true } := by
  simp [NE, W, NE0, MB, ctlEmpty, hp, ht]

private theorem NE_mkVoid (n p : Nat) (hp : p < n) : NE T n (mkVoid p) := by
  simp [NE, W, NE0, MB, ctlEmpty, mkVoid, hp]

private theorem NE_mkAction (n p : Nat) (hp : p < n) : NE T n (mkAction p) := by
  simp [NE, W, NE0, MB, ctlEmpty, mkAction, hp]

theorem latexErrorToks_ANE (err : Str) (pos n : Nat) (h : pos < n) :
    ANE T n (latexErrorToks T.toTables err pos n) := by
  have hm : ∃ c cs, errMark T.toTables err = c :: cs := ⟨' ', _, rfl⟩
  intro t ht
  unfold latexErrorToks at ht
  simp only [] at ht
  obtain ⟨c, cs, hm⟩ := hm
  rw [hm] at ht
  have h1 : (c :: cs).take (min (c :: cs).length (n - pos)) ≠ [] := by
    rw [Ne, List.take_eq_nil_iff]
    simp only [List.length_cons, reduceCtorEq, or_false]
    omega
  split at ht
  · rename_i hlt
    simp only [List.mem_cons, List.not_mem_nil, or_false] at ht
    rcases ht with rfl | rfl
    · exact NE_fixText n pos _ h h1
    · refine NE_fixText n _ _ (by simp only [List.length_cons] at hlt ⊢; omega) ?_
      rw [Ne, List.drop_eq_nil_iff]
      omega
  · simp only [List.mem_cons, List.not_mem_nil, or_false] at ht
    subst ht
    exact NE_fixText n pos _ h h1

theorem latexErrorToks_ANC (T' : Tables) (err : Str) (pos n : Nat) : ANC (latexErrorToks T' err pos n) := by
  intro t ht
  unfold latexErrorToks at ht
  simp only [] at ht
  split at ht
  · simp only [List.mem_cons, List.not_mem_nil, or_false] at ht
    rcases ht with rfl | rfl <;> rfl
  · simp only [List.mem_cons, List.not_mem_nil, or_false] at ht
    subst ht
    rfl

theorem latexError_spec (err : Str) (pos : Nat) (st : PState) (hs : StOk T st) :
    Post' (latexError T.toTables err pos st) (fun r st' =>
      Fr T st st' ∧ ANC r ∧ (pos < st.latex.length → ANE T st.latex.length r)) := by
  exact ⟨⟨StOk_congr hs rfl rfl rfl, rfl⟩, latexErrorToks_ANC _ _ _ _, fun hp => latexErrorToks_ANE err pos _ hp⟩

/-! ### arg_buffer -/

private theorem ANE_single (n : Nat) (t : Tok) (h : NE T n t) : ANE T n [t] := by
  intro x hx; simp at hx; subst hx; exact h

private theorem argBufferPure_ANE (n : Nat) (mark : Str) (buf : Buf) (start : Nat) (endBrace : Bool)
    (hb : ANE T n buf) (hs : start < n) :
    ANE T n (argBufferPure mark buf start endBrace).arg ∧
    ANE T n (argBufferPure mark buf start endBrace).buf ∧
    (∀ e, (argBufferPure mark buf start endBrace).err = some e →
      (argBufferPure mark buf start endBrace).errPos < n) := by
  have hsk : ANE T n (skipSpace buf) := ANE_dropWhile _ hb
  unfold argBufferPure
  split
  · exact ⟨ANE_single n _ (NE_mkVoid n start hs), ANE_nil n, by simp⟩
  · rename_i tok rest heq
    rw [heq, ANE_cons] at hsk
    obtain ⟨htok, hrest⟩ := hsk
    have hpos : tok.pos < n := htok.1.1
    split
    · exact ⟨ANE_single n _ (NE_mkVoid n _ hpos), (ANE_cons n _ _).2 ⟨htok, hrest⟩, by simp⟩
    · split
      · exact ⟨ANE_single n _ htok, hrest, by simp⟩
      · simp only []
        split
        · rename_i out rest' hc
          obtain ⟨m1, m2⟩ := collectArg_mem _ _ _ _ _ _ hc
          refine ⟨?_, fun x hx => hrest x (m2 x hx), by simp⟩
          split
          · exact ANE_single n _ (NE_mkVoid n _ hpos)
          · intro x hx
            rcases m1 x hx with h' | h'
            · cases h'
            · exact hrest x h'
        · refine ⟨ANE_single n _ ?_, (ANE_cons n _ _).2 ⟨htok, hrest⟩, ?_⟩
          · exact NE_fixText n _ _ hpos (by simp)
          · intro e _; exact hpos

private theorem argBufferPure_ANC (mark : Str) (buf : Buf) (start : Nat) (endBrace : Bool) (hb : ANC buf) :
    ANC (argBufferPure mark buf start endBrace).buf := by
  have hsk : ANC (skipSpace buf) := ANC_dropWhile _ hb
  unfold argBufferPure
  split
  · exact ANC_nil
  · rename_i tok rest heq
    rw [heq, ANC_cons] at hsk
    obtain ⟨htok, hrest⟩ := hsk
    split
    · exact (ANC_cons _ _).2 ⟨htok, hrest⟩
    · split
      · exact hrest
      · simp only []
        split
        · rename_i out rest' hc
          obtain ⟨_, m2⟩ := collectArg_mem _ _ _ _ _ _ hc
          exact fun x hx => hrest x (m2 x hx)
        · exact (ANC_cons _ _).2 ⟨htok, hrest⟩

theorem argBuffer_spec (buf : Buf) (start : Nat) (endBrace : Bool) (st : PState) (hs : StOk T st) :
    Post' (argBuffer T.toTables buf start endBrace st) (fun r st' =>
      Fr T st st' ∧
      (ANE T st.latex.length buf → start < st.latex.length →
        ANE T st.latex.length r.1 ∧ ANE T st.latex.length r.2) ∧
      (ANC buf → ANC r.2)) := by
  have hA := argBufferPure_ANE (T := T) st.latex.length T.mark buf start endBrace
  have hC := argBufferPure_ANC T.mark buf start endBrace
  simp only [argBuffer]
  generalize argBufferPure T.mark buf start endBrace = r at *
  obtain ⟨arg, rbuf, err, errPos⟩ := r
  simp only [] at hA hC ⊢
  cases err with
  | none =>
    exact ⟨Fr.refl hs, fun hb hp => ⟨(hA hb hp).1, (hA hb hp).2.1⟩, hC⟩
  | some e =>
    simp only []
    apply Post'_bind _ _ _ _ _ (latexError_spec e errPos st hs)
    intro errToks s ⟨hfr, hc, ha⟩
    cases rbuf with
    | nil =>
      refine ⟨hfr, fun hb hp => ?_, fun _ => hc⟩
      obtain ⟨h1, _, h3⟩ := hA hb hp
      exact ⟨h1, ha (h3 e rfl)⟩
    | cons opening collected =>
      refine ⟨hfr, fun hb hp => ?_, fun hb => ?_⟩
      · obtain ⟨h1, h2, h3⟩ := hA hb hp
        rw [ANE_cons] at h2
        refine ⟨h1, ?_⟩
        show ANE T _ (opening :: (errToks ++ collected))
        rw [ANE_cons, ANE_append]
        exact ⟨h2.1, ha (h3 e rfl), h2.2⟩
      · have h2 := hC hb
        rw [ANC_cons] at h2
        show ANC (opening :: (errToks ++ collected))
        rw [ANC_cons, ANC_append]
        exact ⟨h2.1, hc, h2.2⟩

theorem parseNewlineOption_spec (buf : Buf) (skip : Bool) (st : PState) (hs : StOk T st)
    (hb : Buf3 T st.latex.length buf) :
    Post' (parseNewlineOption T buf skip st) (fun r st' => Fr T st st' ∧ Buf3 T st.latex.length r) := by
  simp only [parseNewlineOption]
  have hb1 : Buf3 T st.latex.length (if skip = true then (match lookAheadSL buf with
                            | some t => if txtIsNV t "[" = true then skipSpace buf else buf
                            | none => buf) else buf) := by
    split
    · split
      · split
        · exact Buf3_dropWhile _ hb
        · exact hb
      · exact hb
    · exact hb
  generalize (if skip = true then (match lookAheadSL buf with
                            | some t => if txtIsNV t "[" = true then skipSpace buf else buf
                            | none => buf) else buf) = buf1 at hb1
  cases buf1 with
  | nil => exact ⟨Fr.refl hs, hb1⟩
  | cons t tail =>
    simp only []
    split
    · rename_i hbr
      have htxt : t.txt = ['['] := by
        simp only [txtIsNV, Bool.and_eq_true, beq_iff_eq] at hbr
        exact hbr.2
      apply Post'_bind _ _ _ _ _ (argBuffer_spec (t :: tail) t.pos false st hs)
      intro r s ⟨hfr, h1, h2⟩
      refine ⟨hfr, ?_⟩
      rcases hb1 with hp | hc
      · exact Buf3_of_ANE (h1 (Pre_bracket hp htxt) hp.1.1).2
      · exact Or.inr (h2 hc)
    · exact ⟨Fr.refl hs, hb1⟩

/-! ### argument collection -/

def ArgsOk (T : PTables) (n : Nat) (a : Args) : Prop :=
  (∀ x ∈ a.args, ANE T n x) ∧ (∀ x ∈ a.extr, ANE T n x) ∧ ANE T n a.langs ∧ (∀ t ∈ a.langs, isLangK t = true)

theorem ArgsOk_empty (n : Nat) : ArgsOk T n {} := by
  refine ⟨?_, ?_, ?_, ?_⟩ <;> intro x hx <;> cases hx

private theorem NE_restamp (n p : Nat) (t : Tok) (h : NE0 T t) (hp : p < n) :
    NE T n { t with pos := p, fix := true } := by
  obtain ⟨h1, h2⟩ := h
  have h2' : MB T { t with pos := p, fix := true } := h2
  exact ⟨⟨hp, fun _ hf => (by cases hf), h2'⟩, h1, h2'⟩

private theorem ANE_restamp (n p : Nat) (ts : List Tok) (h : ANE0 T ts) (hp : p < n) :
    ANE T n (ts.map (fun t => { t with pos := p, fix := true })) := by
  intro x hx
  simp only [List.mem_map] at hx
  obtain ⟨u, hu, rfl⟩ := hx
  exact NE_restamp n p u (h u hu) hp

private theorem ArgsOk_push (n : Nat) (acc : Args) (a e : List Tok) (h : ArgsOk T n acc) (ha : ANE T n a)
    (he : ANE T n e) : ArgsOk T n { acc with args := acc.args ++ [a], extr := acc.extr ++ [e] } := by
  refine ⟨?_, ?_, h.2.2⟩
  · intro x hx
    simp only [List.mem_append, List.mem_cons, List.not_mem_nil, or_false] at hx
    rcases hx with hx | rfl
    · exact h.1 x hx
    · exact ha
  · intro x hx
    simp only [List.mem_append, List.mem_cons, List.not_mem_nil, or_false] at hx
    rcases hx with hx | rfl
    · exact h.2.1 x hx
    · exact he

private theorem ArgsOk_langs (n : Nat) (acc : Args) (buf : Buf) (h : ArgsOk T n acc) (hb : ANE T n buf) :
    ArgsOk T n { acc with langs := acc.langs ++ skippedLangs buf } := by
  have hsub : ∀ x ∈ skippedLangs buf, x ∈ buf ∧ isLangK x = true := by
    intro x hx
    unfold skippedLangs at hx
    rw [List.mem_filter] at hx
    exact ⟨(List.takeWhile_sublist _).subset hx.1, hx.2⟩
  refine ⟨h.1, h.2.1, ?_, ?_⟩
  · show ANE T n (acc.langs ++ skippedLangs buf)
    rw [ANE_append]
    exact ⟨h.2.2.1, fun x hx => hb x (hsub x hx).1⟩
  · intro x hx
    have hx' : x ∈ acc.langs ++ skippedLangs buf := hx
    rw [List.mem_append] at hx'
    rcases hx' with hx' | hx'
    · exact h.2.2.2 x hx'
    · exact (hsub x hx').2

private theorem collectArgs_aux (mac : MacroDef) (hm : ∀ d ∈ mac.defaults, ANE0 T d) (n : Nat) :
    ∀ (codes : List Char) (k : Nat) (buf : Buf) (pos : Nat) (acc : Args) (st : PState),
    StOk T st → st.latex.length = n → ANE T n buf → pos < n → ArgsOk T n acc →
    Post' (collectArgs T mac codes k buf pos acc st) (fun r st' =>
      Fr T st st' ∧ ArgsOk T n r.1 ∧ ANE T n r.2) := by
  intro codes
  induction codes with
  | nil =>
    intro k buf pos acc st hs hn hb hp ha
    exact ⟨Fr.refl hs, ha, hb⟩
  | cons code codes ih =>
    intro k buf pos acc0 st hs hn hb hp ha0
    have hsk : ANE T n (skipSpace buf) := ANE_dropWhile _ hb
    have ha := ArgsOk_langs n acc0 buf ha0 hb
    simp only [collectArgs]
    generalize skipSpace buf = b at hsk ⊢
    generalize hacc : ({ acc0 with langs := acc0.langs ++ skippedLangs buf } : Args) = acc at ha
    have e1 : acc0.args = acc.args := by rw [← hacc]
    have e2 : acc0.extr = acc.extr := by rw [← hacc]
    have e3 : acc0.langs ++ skippedLangs buf = acc.langs := by rw [← hacc]
    simp only [e1, e2, e3]
    have hvoid : ∀ p, p < n → ANE T n [mkVoid p] := fun p hp => ANE_single n _ (NE_mkVoid n p hp)
    have hdflt : ∀ p, p < n → ANE T n (match mac.defaults[k]? with
        | some d => d.map (fun t => { t with pos := p, fix := true })
        | none => []) := by
      intro p hp'
      split
      · rename_i d hd
        exact ANE_restamp n p d (hm d (List.mem_of_getElem? hd)) hp'
      · exact ANE_nil n
    have hcont : ∀ (eb : Bool) (p : Nat), p < n →
        Post' ((argBuffer T.toTables b p eb >>= fun r =>
          collectArgs T mac codes (k + 1) r.2 p
            { acc with args := acc.args ++ [r.1], extr := acc.extr ++ [r.1] }) st)
          (fun r st' => Fr T st st' ∧ ArgsOk T n r.1 ∧ ANE T n r.2) := by
      intro eb p hp'
      subst hn
      apply Post'_bind _ _ _ _ _ (argBuffer_spec b p eb st hs)
      intro r s ⟨hfr, h1, _⟩
      obtain ⟨h1, h3⟩ := h1 hsk hp'
      refine Post'_mono _ _ _ (ih (k + 1) r.2 p _ s hfr.1 hfr.len h3 hp'
        (ArgsOk_push _ acc _ _ ha h1 h1)) ?_
      intro a s' ⟨q1, q2, q3⟩
      exact ⟨hfr.trans q1, q2, q3⟩
    have hnil := ArgsOk_push n acc _ _ ha (ANE_nil n) (ANE_nil n)
    cases htok : b.head? with
    | none =>
      simp only [Bool.false_eq_true, if_false]
      split
      · exact ih _ _ _ _ st hs hn hsk hp hnil
      · split
        · exact ih _ _ _ _ st hs hn hsk hp (ArgsOk_push n acc _ _ ha (hdflt _ hp) (ANE_nil n))
        · split
          · exact hcont true _ hp
          · exact Post'_fatal _ _ _
    | some t =>
      have htb : NE T n t := hsk t (List.mem_of_mem_head? htok)
      have hpos : t.pos < n := htb.1.1
      simp only []
      split
      · split
        · exact ih _ _ _ _ st hs hn (ANE_sublist (List.tail_sublist _) hsk) hpos
            (ArgsOk_push n acc _ _ ha (ANE_single n _ htb) (ANE_single n _ htb))
        · exact ih _ _ _ _ st hs hn hsk hpos hnil
      · split
        · split
          · exact hcont false _ hpos
          · exact ih _ _ _ _ st hs hn hsk hpos (ArgsOk_push n acc _ _ ha (hdflt _ hp) (ANE_nil n))
        · split
          · split
            · exact ih _ _ _ _ st hs hn hsk hpos (ArgsOk_push n acc _ _ ha (hvoid _ hpos) (hvoid _ hpos))
            · exact hcont true _ hpos
          · exact Post'_fatal _ _ _

theorem collectArgs_spec (mac : MacroDef) (hm : ∀ d ∈ mac.defaults, ANE0 T d) (codes : List Char) (k : Nat)
    (buf : Buf) (pos0 : Nat) (acc : Args) (st : PState) (hs : StOk T st)
    (hb : ANE T st.latex.length buf) (hp : pos0 < st.latex.length) (ha : ArgsOk T st.latex.length acc) :
    Post' (collectArgs T mac codes k buf pos0 acc st) (fun r st' =>
      Fr T st st' ∧ ArgsOk T st.latex.length r.1 ∧ ANE T st.latex.length r.2) :=
  collectArgs_aux mac hm st.latex.length codes k buf pos0 acc st hs rfl hb hp ha

/-! ### generate_replacements -/

private theorem initCurPos_lt (n : Nat) (arguments : List (List Tok)) (ha : ∀ a ∈ arguments, ANE T n a) :
    ∀ (repls : List Tok) (cur c : Nat), cur < n → initCurPos arguments repls cur = some c → c < n := by
  intro repls
  induction repls with
  | nil => intro cur c hc h; simp only [initCurPos, Option.some.injEq] at h; omega
  | cons t ts ih =>
    intro cur c hc h
    simp only [initCurPos] at h
    split at h
    · exact ih _ _ hc h
    · split at h
      · cases h
      · rename_i a hpa
        refine ih _ _ ?_ h
        split
        · rename_i hd hh
          exact (ha a (pyIndex_mem _ _ _ hpa) hd (List.mem_of_mem_head? hh)).1.1
        · exact hc

private theorem genReplLoop_ANE (n : Nat) (arguments : List (List Tok)) (ha : ∀ a ∈ arguments, ANE T n a) :
    ∀ (repls : List Tok) (cur : Nat) (out res : List Tok), cur < n → ANE T n out →
      ANE0 T repls → genReplLoop arguments repls cur out = some res → ANE T n res := by
  intro repls
  induction repls with
  | nil => intro cur out res _ ho _ h; simp only [genReplLoop, Option.some.injEq] at h; subst h; exact ho
  | cons t ts ih =>
    intro cur out res hc ho hr h
    have hr' : ANE0 T ts := fun x hx => hr x (by simp [hx])
    simp only [genReplLoop] at h
    split at h
    · split at h
      · cases h
      · rename_i a hpa
        have hba := ha a (pyIndex_mem _ _ _ hpa)
        split at h
        · rename_i hd l hh hl
          have h1 := (hba hd (List.mem_of_mem_head? hh)).1.1
          have h2 := (hba l (List.mem_of_getLast? hl)).1.1
          refine ih _ _ _ h2 ?_ hr' h
          rw [ANE_append, ANE_append, ANE_append]
          exact ⟨⟨⟨ho, ANE_single n _ (NE_mkAction n _ h1)⟩, hba⟩, ANE_single n _ (NE_mkAction n _ h2)⟩
        · exact ih _ _ _ hc ho hr' h
    · refine ih _ _ _ hc ?_ hr' h
      rw [ANE_append]
      exact ⟨ho, ANE_single n _ (NE_restamp n cur t (hr t (by simp)) hc)⟩

theorem generateReplacements_ANE (n : Nat) (arguments : List (List Tok)) (repls : List Tok) (start : Nat)
    (g : List Tok) (ha : ∀ a ∈ arguments, ANE T n a) (hr : ANE0 T repls) (hs : start < n)
    (h : generateReplacements arguments repls start = some g) : ANE T n g := by
  unfold generateReplacements at h
  split at h
  · cases h
  · rename_i cur hc
    exact genReplLoop_ANE n arguments ha repls cur [] g (initCurPos_lt n arguments ha repls start cur hs hc)
      (ANE_nil n) hr h

theorem generateReplacements_nil (arguments : List (List Tok)) (start : Nat) :
    generateReplacements arguments [] start = some [] := by
  simp [generateReplacements, initCurPos, genReplLoop]

/-! ### `\def` -/

private theorem NE0_arg (t : Tok) (k : Nat) : NE0 T { t with kind := .arg k } := by
  simp [NE0, MB, ctlEmpty]

private theorem defMapRepl_ANE0 (map : List Nat) : ∀ (ts acc : List Tok), ANE0 T ts → ANE0 T acc →
    ∀ r, defMapRepl map ts acc = .ok r → ANE0 T r := by
  intro ts
  induction ts with
  | nil =>
    intro acc _ ha r h
    simp only [defMapRepl, Except.ok.injEq] at h
    subst h
    intro t ht; exact ha t (by simpa using ht)
  | cons u us ih =>
    intro acc hts ha r h
    have hus : ANE0 T us := fun t ht => hts t (by simp [ht])
    simp only [defMapRepl] at h
    split at h
    · split at h
      · cases h
      · exact ih _ hus ((ANE0_cons _ _).2 ⟨NE0_arg u _, ha⟩) r h
    · exact ih _ hus ((ANE0_cons _ _).2 ⟨hts u (by simp), ha⟩) r h

private theorem errRet_spec (st s : PState) (hfr : Fr T st s) (err : Str) (pos : Nat) (b : Buf)
    (hb : ANE T st.latex.length b) :
    Post' ((latexError T.toTables err pos >>= fun e => (pure (e, b) : M (List Tok × Buf))) s) (fun r st' =>
      Fr T st st' ∧ ANC r.1 ∧ ANE T st.latex.length r.2) := by
  apply Post'_bind _ _ _ _ _ (latexError_spec err pos s hfr.1)
  intro e s' ⟨hfr', hc, _⟩
  exact ⟨hfr.trans hfr', hc, hb⟩

theorem parseDefMacro_spec (buf : Buf) (start : Nat) (st : PState) (hs : StOk T st)
    (hb : ANE T st.latex.length buf) (hp : start < st.latex.length) :
    Post' (parseDefMacro T buf start st) (fun r st' =>
      Fr T st st' ∧ ANC r.1 ∧ ANE T st.latex.length r.2) := by
  have hsk : ANE T st.latex.length (skipSpace buf) := ANE_dropWhile _ hb
  simp only [parseDefMacro]
  generalize skipSpace buf = b at hsk ⊢
  cases b with
  | nil => exact errRet_spec st st (Fr.refl hs) _ _ _ (ANE_nil _)
  | cons tok rest =>
    obtain ⟨htok, hrest⟩ := (ANE_cons _ _ _).1 hsk
    simp only []
    split
    · exact errRet_spec st st (Fr.refl hs) _ _ _ hsk
    · cases hda : defArgs (rest.length + 1) rest [] with
      | none => exact errRet_spec st st (Fr.refl hs) _ _ _ (ANE_nil _)
      | some ab =>
        obtain ⟨args, buf1⟩ := ab
        simp only []
        obtain ⟨_, m2⟩ := defArgs_mem _ _ _ _ _ hda
        have hbuf1 : ANE T st.latex.length buf1 := fun t ht => hrest t (m2 t ht)
        have hp' : (match buf1.head? with | some t => t.pos | none => start) < st.latex.length := by
          split
          · rename_i t ht; exact (hbuf1 t (List.mem_of_mem_head? ht)).1.1
          · exact hp
        apply Post'_bind _ _ _ _ _ (argBuffer_spec buf1 _ true st hs)
        intro r s ⟨hfr, h1, _⟩
        obtain ⟨h1, h3⟩ := h1 hbuf1 hp'
        cases hpm : defArgPosMap args 1 1 [] with
        | error t => exact errRet_spec st s hfr _ _ _ h3
        | ok map =>
          simp only []
          cases hmr : defMapRepl map r.1 [] with
          | error t => exact errRet_spec st s hfr _ _ _ h3
          | ok repl =>
            simp only []
            have hrepl : ANE0 T repl := defMapRepl_ANE0 map r.1 [] (ANE_ANE0 h1) ANE0_nil repl hmr
            apply Post'_bind _ _ _ (fun _ s' => Fr T st s') _ (Post'_modify _ _ _ ?_)
            · intro _ s' hfr'
              refine ⟨hfr', ?_, h3⟩
              intro x hx; simp at hx; subst hx; rfl
            · refine ⟨⟨?_, hfr.1.envs, hfr.1.gloss⟩, hfr.2⟩
              intro m hm
              rcases setMacro_mem _ _ _ hm with hm | rfl
              · exact hfr.1.macros m hm
              · exact ⟨⟨hrepl, fun d hd => (by cases hd), ANE0_nil⟩, rfl⟩

/-! ### small ones -/

theorem expandShortMacro_spec (st : PState) (tok : Tok) (rest : Buf) (h : noCall tok = true) :
    noCall (expandShortMacro T st tok rest).1 = true ∧
    ((expandShortMacro T st tok rest).2 = rest ∨ (expandShortMacro T st tok rest).2 = rest.tail) := by
  unfold expandShortMacro
  split
  · exact ⟨h, Or.inl rfl⟩
  · rename_i cur rest'
    simp only []
    split
    · exact ⟨h, Or.inl rfl⟩
    · exact ⟨rfl, Or.inr rfl⟩

theorem expandVerbEnvToken_ANE (n : Nat) (t : Tok) (h : W T n t) (hk : t.kind = .verb true) :
    ANE T n (expandVerbEnvToken t) := by
  obtain ⟨hp, hext, hmb⟩ := h
  have he : (if t.fix = true then t.pos else t.pos + t.txt.length) < n := by
    split
    · exact hp
    · rename_i hf; exact hext hk (by simpa using hf)
  intro x hx
  simp only [expandVerbEnvToken, List.mem_cons, List.not_mem_nil, or_false] at hx
  rcases hx with rfl | rfl | rfl | rfl | rfl | rfl | rfl | rfl | rfl
  · simp [NE, W, NE0, MB, ctlEmpty, hp]
  · simp [NE, W, NE0, MB, ctlEmpty, hp]
  · simp [NE, W, NE0, MB, ctlEmpty, hp]
  · simp [NE, W, NE0, MB, ctlEmpty, hp]
  · simp [NE, W, NE0, MB, ctlEmpty, hp]
  · simp [NE, W, NE0, MB, ctlEmpty, he]
  · simp [NE, W, NE0, MB, ctlEmpty, he]
  · simp [NE, W, NE0, MB, ctlEmpty, he]
  · simp [NE, W, NE0, MB, ctlEmpty, he]

theorem lookupMacro_mem (st : PState) (name : Str) (m : MacroDef) (h : lookupMacro st name = some m) :
    m ∈ st.macros ∧ m.name = name := by
  unfold lookupMacro at h
  exact ⟨List.mem_of_find?_eq_some h, by simpa using List.find?_some h⟩

theorem lookupEnv_mem (st : PState) (name : Str) (m : MacroDef) (h : lookupEnv st name = some m) :
    m ∈ st.envs ∧ m.name = name := by
  unfold lookupEnv at h
  exact ⟨List.mem_of_find?_eq_some h, by simpa using List.find?_some h⟩

theorem setMacro_mem' (ms : List MacroDef) (m x : MacroDef) (h : x ∈ setMacro ms m) : x ∈ ms ∨ x = m :=
  setMacro_mem ms m x h

theorem foldl_setMacro_mem (add ms : List MacroDef) (x : MacroDef) (h : x ∈ add.foldl setMacro ms) :
    x ∈ ms ∨ x ∈ add := by
  induction add generalizing ms with
  | nil => exact Or.inl h
  | cons a as ih =>
    rw [List.foldl_cons] at h
    rcases ih _ h with h' | h'
    · rcases setMacro_mem _ _ _ h' with h'' | rfl
      · exact Or.inl h''
      · exact Or.inr (by simp)
    · exact Or.inr (by simp [h'])

end NoEmpty
end Yalafi
