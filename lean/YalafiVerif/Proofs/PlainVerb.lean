/-
  Proofs/PlainVerb.lean — `\verb`, end to end on the model: where C02/C03 ("verbatim material is
  copied literally, every character at its own position") and C08 ("an unterminated `\verb`
  yields exactly one diagnostic and the complete error mark at the position of the problem")
  meet.

  Documents: sequences of inert text segments (as in Proofs/Plain.lean), complete `\verb d s d`
  and unterminated `\verb d s` (no closing delimiter before the end of the line).

  Model facts used: `scanVerb` (Model/Scanner.lean) returns a `.verb false` token with the content
  at the position of the content, or the tokens of `latexErrorToks … errBadVerb` and the
  diagnostic `latexErrorDiag`; the `.verb` branch of `expandSequence` emits an Action token and a
  position-counting *text* token with the content — no re-scanning, no state change; the mark
  tokens are fixed text tokens that `expandSequence` copies.

  `VAtom`, `renderA`, `atomsOk`      : the documents, character by character (what the proofs use)
  `VSeg`, `renderV`, `vsegsOk`       : the documents as segments (what the statements use)
  `chrOk` / `verbOk` / `badOk`       : the side conditions (all computable)
  `outV`, `diagsV`, `markOut`        : expected output characters with positions, expected diagnostics
  `lineA`, `vlinesOK`                : the line automaton of the blank-line removal on the source
  `nextToken_verb`, `nextToken_bad`  : the scanner at `\verb`
  `scanSteps_verb` (`VFacts`)        : the scanner loop
  `seq_verb`                         : `expandSequence` on plain and `\verb` tokens
  `parserWork_verb`, `parse_verb`    : the lifts (state: only `diags` grows)
  `tex2txt_verb_atoms` / `_segs`     : the general end-to-end statement (complete result record)
  `tex2txt_verb_wellformed`          : (A)  C02/C03 at `\verb`
  `tex2txt_verb_unterminated`        : (B)  C08 at `\verb`
  `vsegsOk_of_simple`, `vlinesOK_of_visible` : simple sufficient conditions

  Side conditions (reasons)
    delimiter `d`: `macroChar d = false` — after a letter or `@` the scanner reads the control word
        `\verbd…`, not `\verb`; every other character is admitted by `scan_verb`, also `*`
        (`\verb*a*` has the delimiter `*`) and white space; a complete `\verb` needs `d ≠ '\n'`
        (the search for the end stops at a line break, which is then reported as the error);
    content `s`: ANY characters except `d` and the line break (`$ { } % # \ ~ &` … included);
    no special sequence of the tables matches at the backslash of `\verb` (`next_token` tests
        the special sequences first; `verbSpecialFree` is the table-level condition);
    text characters: `chrOk` = `inertAt` of Proofs/Plain.lean; the token behind an active
        character of the language settings is looked at by `expand_short_macro` — if it is a
        `\verb` token, its *content* is used: `"\verb|a|` yields `ä` for 'de' (rejected by `chrOk`);
    unterminated `\verb`: followed by the end of the source or a line break; `markOk`: the mark
        starts with a visible character and has no line break (else the mark itself could be
        deleted or split by the blank-line removal); the blank is no active character (the mark
        tokens start / end with a blank);
    `vlinesOK`: no line consists only of white space and `\verb`s with blank content — the Action
        token emitted for a `\verb` makes such a line a "pure action line", which is deleted
        together with the blank content (examples at the end);
    options / fuel as in `tex2txt_plain_text`: no --defs, --extr, --repl, --unkn, single-language
        mode, `src.length + 2 ≤ fuel`.
  Not covered: `\verb` as the very last characters of the source (no delimiter at all; the model
  reports the same error with length 5).
-/
import YalafiVerif.Proofs.Plain
import YalafiVerif.Proofs.PlainSpecial
import YalafiVerif.Proofs.PlainUnknown
namespace Yalafi

open M

/-! ### the documents -/

/-- an atom of the source: one text character, a complete `\verb d s d`, or an unterminated
    `\verb d s` (no closing `d` before the end of the line) -/
inductive VAtom where
  | chr (c : Char)
  | verb (d : Char) (s : Str)
  | bad (d : Char) (s : Str)
deriving Repr, DecidableEq

def VAtom.render : VAtom → Str
  | .chr c => [c]
  | .verb d s => sVerb ++ d :: (s ++ [d])
  | .bad d s => sVerb ++ d :: s

/-- the source text -/
def renderA : List VAtom → Str
  | [] => []
  | a :: r => a.render ++ renderA r

/-! ### the side conditions -/

/-- the text character `c` does not complete a short macro with the token behind it -/
def followOk (T : PTables) (st : PState) (c : Char) : List VAtom → Bool
  | [] => true
  | .chr d :: r => !(shortKeys T st).contains (c :: firstTokTxt (d :: renderA r))
  | .verb _ s :: _ => !(shortKeys T st).contains (c :: s)
  | .bad _ _ :: _ => false

/-- the text character `c` in front of the atoms `r` is inert (`inertAt` of Proofs/Plain.lean; the
    token behind `c` may be verbatim material, whose text is the *content*) -/
def chrOk (T : PTables) (st : PState) (c : Char) (r : List VAtom) : Bool :=
  (!(activeChars T st).contains [c] || (!isSpace c && followOk T st c r)) &&
  (isSpace c || (!structuralChar c && (matchSpecial T.toTables (c :: renderA r)).isNone))

/-- `\verb d s d` in front of `r` -/
def verbOk (T : Tables) (d : Char) (s : Str) (r : List VAtom) : Bool :=
  !macroChar d && d != nl && s.all (fun c => c != d && c != nl) &&
  (matchSpecial T (sVerb ++ d :: (s ++ d :: renderA r))).isNone

/-- the mark starts with a visible character and contains no line break -/
def markOk (T : Tables) : Bool :=
  (match T.mark with | c :: _ => !isSpace c | [] => false) && !hasNl T.mark

/-- `\verb d s` in front of `r`, which is empty or starts with a line break -/
def badOk (T : PTables) (st : PState) (d : Char) (s : Str) (r : List VAtom) : Bool :=
  !macroChar d && s.all (fun c => c != d && c != nl) &&
  (match r with | [] => true | .chr c :: _ => c == nl | _ => false) &&
  (matchSpecial T.toTables (sVerb ++ d :: (s ++ renderA r))).isNone &&
  markOk T.toTables && !(activeChars T st).contains [' ']

def atomsOk (T : PTables) (st : PState) : List VAtom → Bool
  | [] => true
  | .chr c :: r => chrOk T st c r && atomsOk T st r
  | .verb d s :: r => verbOk T.toTables d s r && atomsOk T st r
  | .bad d s :: r => badOk T st d s r && atomsOk T st r

/-! ### the expected result -/

/-- the characters of the error mark with their positions, for a problem at offset `p` of a
    source of length `n` (`utils.latex_error`: what does not fit in front of the end of the
    source is mapped to the last position) -/
def markOut (T : Tables) (n p : Nat) : List (Char × Nat) :=
  let mark := errMark T errBadVerb
  let mx := min mark.length (n - p)
  (mark.take mx).map (fun c => (c, p)) ++ (mark.drop mx).map (fun c => (c, p + mx - 1))

/-- output characters with their (0-based) source positions; `p` = offset of the first atom -/
def outA (T : Tables) (n : Nat) : Nat → List VAtom → List (Char × Nat)
  | _, [] => []
  | p, .chr c :: r => (c, p) :: outA T n (p + 1) r
  | p, .verb _ s :: r => posText (p + 6) s ++ outA T n (p + (s.length + 7)) r
  | p, .bad _ s :: r => markOut T n p ++ outA T n (p + (s.length + 6)) r

/-- the diagnostics, in order -/
def diagsA (src : Str) : Nat → List VAtom → List Diag
  | _, [] => []
  | p, .chr _ :: r => diagsA src (p + 1) r
  | p, .verb _ s :: r => diagsA src (p + (s.length + 7)) r
  | p, .bad _ s :: r => latexErrorDiag errBadVerb p src :: diagsA src (p + (s.length + 6)) r

/-- the line automaton (see `lineStateA` of Proofs/PlainSpecial.lean).  State `some a`: the
    current line consists of white space and `\verb` with blank content so far, `a` = there was
    such a `\verb`; `none`: the line has a visible character. -/
def lineA : Option Bool → List VAtom → Option (Option Bool)
  | σ, [] => some σ
  | σ, .chr c :: r =>
    if c == nl then (if σ == some true then none else lineA (some false) r)
    else if isSpace c then lineA σ r
    else lineA none r
  | σ, .verb _ s :: r => lineA (if isBlank s then σ.map (fun _ => true) else none) r
  | _, .bad _ _ :: r => lineA none r

/-- no line consists only of white space and `\verb` with blank content, with at least one `\verb` -/
def linesOKA (atoms : List VAtom) : Bool :=
  match lineA (some false) atoms with
  | some s => s != some true
  | none => false

/-! ### the scanner on `\verb` -/

theorem idxOf_append_stop (f : Char → Bool) (x : Char) (R : Str) :
    ∀ s : Str, (∀ c ∈ s, f c = false) → f x = true → idxOf f (s ++ x :: R) = s.length
  | [], _, hx => by simp [idxOf, hx]
  | c :: cs, hs, hx => by
    have := idxOf_append_stop f x R cs (fun y hy => hs y (List.mem_cons_of_mem _ hy)) hx
    simp [idxOf, hs c (List.mem_cons_self ..), this]

theorem idxOf_all_false (f : Char → Bool) :
    ∀ s : Str, (∀ c ∈ s, f c = false) → idxOf f s = s.length
  | [], _ => rfl
  | c :: cs, hs => by
    have := idxOf_all_false f cs (fun y hy => hs y (List.mem_cons_of_mem _ hy))
    simp [idxOf, hs c (List.mem_cons_self ..), this]

/-- `next_token` at `\verb` + a non-letter: `scan_verb` -/
theorem nextToken_sVerb (T : Tables) (src : Str) (pos : Nat) (d : Char) (X : Str)
    (hd : macroChar d = false) (hm : matchSpecial T (sVerb ++ d :: X) = none) :
    nextToken T src pos (sVerb ++ d :: X) = scanVerb T src pos (sVerb ++ d :: X) := by
  have hlen : macroLen (sVerb ++ d :: X) = 5 := by
    simp [macroLen, sVerb, hd, show macroChar 'v' = true by decide,
      show macroChar 'e' = true by decide, show macroChar 'r' = true by decide,
      show macroChar 'b' = true by decide]
  have htake : (sVerb ++ d :: X).take 5 = sVerb := by simp [sVerb]
  have hm' : matchSpecial T ('\\' :: 'v' :: 'e' :: 'r' :: 'b' :: d :: X) = none := hm
  show nextToken T src pos ('\\' :: 'v' :: 'e' :: 'r' :: 'b' :: d :: X) = _
  unfold nextToken
  simp only [show isSpace '\\' = false by decide, Bool.false_eq_true, if_false,
    show ('\\' == '%') = false by decide, show ('\\' == '#') = false by decide, hm',
    beq_self_eq_true, if_true]
  show scanMacro T src pos (sVerb ++ d :: X) = _
  simp only [scanMacro, hlen, htake, show (sVerb == sBegin) = false by decide,
    show (sVerb == sEnd) = false by decide, show (sVerb == sItem) = false by decide,
    beq_self_eq_true, Bool.false_eq_true, if_false, if_true]

/-- the token of a complete `\verb` -/
theorem nextToken_verb (T : Tables) (src : Str) (pos : Nat) (d : Char) (s R : Str)
    (hd : macroChar d = false) (hnl : d ≠ nl) (hs : ∀ c ∈ s, c ≠ d ∧ c ≠ nl)
    (hm : matchSpecial T (sVerb ++ d :: (s ++ d :: R)) = none) :
    nextToken T src pos (sVerb ++ d :: (s ++ d :: R))
      = { tok := { kind := .verb false, pos := pos + 6, txt := s }, len := s.length + 7 } := by
  rw [nextToken_sVerb T src pos d _ hd hm]
  have hdrop : (sVerb ++ d :: (s ++ d :: R)).drop 5 = d :: (s ++ d :: R) := by simp [sVerb]
  have hj : idxOf (fun c => c == d || c == nl) (s ++ d :: R) = s.length :=
    idxOf_append_stop _ d R s (fun c hc => by simp [(hs c hc).1, (hs c hc).2]) (by simp)
  have hdn : (d == nl) = false := by simpa using hnl
  simp only [scanVerb, hdrop, hj, List.drop_left, hdn, Bool.false_eq_true, if_false,
    List.take_left]
  congr 1
  omega

/-- the step of an unterminated `\verb` -/
def badStep (T : Tables) (src : Str) (pos : Nat) (k : Nat) : ScanStep :=
  { tok := (latexErrorToks T errBadVerb pos src.length).headD default,
    len := k, diag := some (latexErrorDiag errBadVerb pos src),
    extra := (latexErrorToks T errBadVerb pos src.length).tail }

theorem nextToken_bad (T : Tables) (src : Str) (pos : Nat) (d : Char) (s R : Str)
    (hd : macroChar d = false) (hs : ∀ c ∈ s, c ≠ d ∧ c ≠ nl)
    (hR : R = [] ∨ ∃ R', R = nl :: R')
    (hm : matchSpecial T (sVerb ++ d :: (s ++ R)) = none) :
    nextToken T src pos (sVerb ++ d :: (s ++ R)) = badStep T src pos (s.length + 6) := by
  rw [nextToken_sVerb T src pos d _ hd hm]
  have hdrop : (sVerb ++ d :: (s ++ R)).drop 5 = d :: (s ++ R) := by simp [sVerb]
  have hf : ∀ c ∈ s, (c == d || c == nl) = false := fun c hc => by simp [(hs c hc).1, (hs c hc).2]
  rcases hR with rfl | ⟨R', rfl⟩
  · have hj : idxOf (fun c => c == d || c == nl) (s ++ []) = s.length := by
      rw [List.append_nil]; exact idxOf_all_false _ s hf
    simp only [scanVerb, hdrop, hj, List.drop_left, badStep]
    congr 1
    omega
  · have hj : idxOf (fun c => c == d || c == nl) (s ++ nl :: R') = s.length :=
      idxOf_append_stop _ nl R' s hf (by simp)
    simp only [scanVerb, hdrop, hj, List.drop_left, beq_self_eq_true, if_true, badStep]
    congr 1
    omega

/-! ### the tokens of the error mark -/

theorem hasNl_append (a b : Str) : hasNl (a ++ b) = (hasNl a || hasNl b) := by
  simp [hasNl]

theorem hasNl_false_of_sublist {a b : Str} (h : List.Sublist a b) (hb : hasNl b = false) :
    hasNl a = false := by
  cases ha : hasNl a with
  | false => rfl
  | true =>
    have : hasNl b = true := by
      simp only [hasNl, List.contains_iff_mem] at ha ⊢
      exact h.subset ha
    rw [hb] at this; cases this

/-- the shape of the mark under `markOk`: a blank, a visible character, …, a blank; no line break -/
theorem errMark_shape (T : Tables) (hm : markOk T = true) :
    ∃ (c : Char) (Y : Str), errMark T errBadVerb = ' ' :: c :: (Y ++ [' ']) ∧ isSpace c = false ∧
      hasNl (errMark T errBadVerb) = false := by
  unfold markOk at hm
  cases hmk : T.mark with
  | nil => rw [hmk] at hm; simp at hm
  | cons c m =>
    rw [hmk] at hm
    simp only [Bool.and_eq_true, Bool.not_eq_true'] at hm
    obtain ⟨hc, hn⟩ := hm
    refine ⟨c, m ++ (if T.markVerbose then ' ' :: '(' :: (errBadVerb ++ [')']) else []), ?_, hc, ?_⟩
    · unfold errMark
      rw [hmk]
      cases T.markVerbose <;> simp
    · unfold errMark
      rw [hmk]
      have he : hasNl errBadVerb = false := by decide
      cases T.markVerbose <;>
        simp only [hasNl_append, hn, he, Bool.false_eq_true, if_false, if_true] <;> decide

/-- the tokens `latex_error` returns for a problem with at least two characters in front of the
    end of the source: one or two fixed text tokens, the first starts with a blank and a visible
    character, the second ends with a blank -/
theorem latexErrorToks_cases (T : Tables) (p n : Nat) (hk : 2 ≤ n - p) (hm : markOk T = true) :
    ∃ (c : Char) (u : Str), isSpace c = false ∧
      (latexErrorToks T errBadVerb p n = [{ kind := .text, pos := p, txt := ' ' :: c :: u, fix := true }] ∨
       ∃ (q : Nat) (v : Str), latexErrorToks T errBadVerb p n =
         [{ kind := .text, pos := p, txt := ' ' :: c :: u, fix := true },
          { kind := .text, pos := q, txt := v ++ [' '], fix := true }]) ∧
      (∀ t ∈ latexErrorToks T errBadVerb p n, hasNl t.txt = false) := by
  obtain ⟨c, Y, hsh, hc, hnl⟩ := errMark_shape T hm
  have hlen : (errMark T errBadVerb).length = Y.length + 3 := by rw [hsh]; simp
  obtain ⟨j, hj⟩ : ∃ j, min (errMark T errBadVerb).length (n - p) = j + 2 :=
    ⟨min (errMark T errBadVerb).length (n - p) - 2, by omega⟩
  refine ⟨c, (Y ++ [' ']).take j, hc, ?_, ?_⟩
  · unfold latexErrorToks
    simp only [hj]
    split
    · rename_i hlt
      right
      refine ⟨p + (j + 2) - 1, Y.drop j, ?_⟩
      rw [hsh]
      have : j ≤ Y.length := by omega
      simp [List.drop_append_of_le_length this]
    · left
      rw [hsh]
      simp
  · intro t ht
    have hsub : ∀ k, List.Sublist ((errMark T errBadVerb).take k) (errMark T errBadVerb) ∧
        List.Sublist ((errMark T errBadVerb).drop k) (errMark T errBadVerb) :=
      fun k => ⟨List.take_sublist _ _, List.drop_sublist _ _⟩
    unfold latexErrorToks at ht
    simp only [] at ht
    split at ht
    · simp only [List.mem_cons, List.not_mem_nil, or_false] at ht
      rcases ht with rfl | rfl
      · exact hasNl_false_of_sublist (hsub _).1 hnl
      · exact hasNl_false_of_sublist (hsub _).2 hnl
    · simp only [List.mem_cons, List.not_mem_nil, or_false] at ht
      subst ht
      exact hasNl_false_of_sublist (hsub _).1 hnl

theorem latexErrorToks_txtpos (T : Tables) (p n : Nat) :
    getTxtPos (latexErrorToks T errBadVerb p n)
      = ((markOut T n p).map (·.1), (markOut T n p).map (·.2)) := by
  unfold latexErrorToks markOut
  simp only []
  have hmx : min (errMark T errBadVerb).length (n - p) ≤ (errMark T errBadVerb).length := Nat.min_le_left _ _
  generalize min (errMark T errBadVerb).length (n - p) = mx at hmx
  generalize errMark T errBadVerb = mark at hmx
  split
  · simp [getTxtPos, tokPositions, Function.comp_def, List.map_const', Nat.min_eq_left hmx]
  · rename_i h
    have h1 : mark.length ≤ mx := by omega
    simp [getTxtPos, tokPositions, Function.comp_def, List.take_of_length_le h1,
      List.drop_of_length_le h1, List.map_const']

/-! ### `expandSequence` on plain tokens and `\verb` tokens -/

/-- what `expandSequence` emits for one scanner token: the token of a `\verb` becomes an Action
    token and a text token with the content, at the position of the content -/
def expTokV (t : Tok) : List Tok :=
  if t.kind == .verb false then
    [mkAction t.pos, { kind := .text, pos := t.pos, txt := t.txt, fix := t.fix }]
  else [t]

/-- a buffer of plain tokens and `\verb` tokens -/
def VSeq (T : PTables) (st : PState) : List Tok → Prop
  | [] => True
  | t :: rest => ((PlainTok t ∧ PassTok T st t rest) ∨ t.kind = .verb false) ∧ VSeq T st rest

theorem VSeq.congr {T : PTables} {st st' : PState} (hl : st'.langStack = st.langStack) :
    ∀ {toks : List Tok}, VSeq T st toks → VSeq T st' toks
  | [], _ => trivial
  | t :: rest, hs => by
    refine ⟨?_, VSeq.congr hl hs.2⟩
    rcases hs.1 with ⟨h1, h2⟩ | h
    · left
      refine ⟨h1, ?_⟩
      unfold PassTok
      rw [activeChars_congr T st st' hl, expandShortMacro_congr T st st' hl]
      exact h2
    · exact Or.inr h

theorem VSeq.notComment {T : PTables} {st : PState} : ∀ {toks : List Tok}, VSeq T st toks →
    ∀ t ∈ toks, t.kind ≠ .comment
  | [], _, _, h => nomatch h
  | _ :: _, hs, x, hx => by
    rcases List.mem_cons.mp hx with rfl | hx
    · rcases hs.1 with ⟨h1, _⟩ | h
      · exact h1.notComment
      · rw [h]; simp
    · exact VSeq.notComment hs.2 x hx

/-- tokens that are plain and not "active" in front of a buffer -/
theorem VSeq_append_plain {T : PTables} {st : PState} : ∀ (a b : List Tok),
    (∀ t ∈ a, PlainTok t ∧ (activeChars T st).contains t.txt = false) → VSeq T st b →
    VSeq T st (a ++ b)
  | [], _, _, hb => hb
  | t :: a, b, ha, hb =>
    ⟨Or.inl ⟨(ha t (List.mem_cons_self ..)).1, Or.inl (ha t (List.mem_cons_self ..)).2⟩,
      VSeq_append_plain a b (fun x hx => ha x (List.mem_cons_of_mem _ hx)) hb⟩

theorem expTokV_plain (t : Tok) (h : PlainTok t) : expTokV t = [t] := by
  unfold expTokV
  rcases h.kind with hk | hk | hk <;> simp [hk]

theorem seq_verb_step (T : PTables) (fuel : Nat) (tok : Tok) (rest : Buf) (envStop : Option Str)
    (out : List Tok) (st : PState) (hk : tok.kind = .verb false) :
    expandSequence T (fuel + 1) (tok :: rest) envStop out st
      = expandSequence T fuel rest envStop (out ++ expTokV tok) st := by
  rw [expandSequence.eq_3]
  show M.bind' M.get _ st = _
  simp only [M.bind', M.get]
  simp only [hk, Bool.false_eq_true, if_false, reduceCtorEq, beq_iff_eq, if_true, expTokV,
    beq_self_eq_true, Kind.verb.injEq]

/-- the loop on a buffer of plain and `\verb` tokens: every token costs one unit of fuel and
    the final call (empty buffer, blank-line removal) one more -/
theorem seq_verb (T : PTables) (st : PState) (envStop : Option Str) :
    ∀ (toks : List Tok) (fuel : Nat) (out : List Tok), toks.length + 1 ≤ fuel →
      VSeq T st toks →
      expandSequence T fuel toks envStop out st
        = match removeLines (out ++ toks.flatMap expTokV) with
          | some r => .ok ((r, []), st)
          | none => .outOfFuel := by
  intro toks
  induction toks with
  | nil =>
    intro fuel out hf _
    obtain ⟨f, rfl⟩ : ∃ f, fuel = f + 1 := ⟨fuel - 1, by simp at hf; omega⟩
    rw [expandSequence.eq_2, List.flatMap_nil, List.append_nil]
    cases removeLines out <;> rfl
  | cons t ts ih =>
    intro fuel out hf hp
    obtain ⟨f, rfl⟩ : ∃ f, fuel = f + 1 := ⟨fuel - 1, by simp at hf; omega⟩
    have hstep : expandSequence T (f + 1) (t :: ts) envStop out st
        = expandSequence T f ts envStop (out ++ expTokV t) st := by
      rcases hp.1 with ⟨h1, h2⟩ | h
      · rw [seq_plain_step T f t ts envStop out st h1 h2, expTokV_plain _ h1]
      · exact seq_verb_step T f t ts envStop out st h
    rw [hstep, ih f _ (by simp at hf ⊢; omega) hp.2, List.flatMap_cons, List.append_assoc]

/-! ### the scanner loop -/

def stepToks (steps : List ScanStep) : List Tok := (steps.map (fun s => s.tok :: s.extra)).flatten
def stepDiags (steps : List ScanStep) : List Diag := (steps.map (·.diag.toList)).flatten

theorem stepToks_cons (s : ScanStep) (ss : List ScanStep) :
    stepToks (s :: ss) = (s.tok :: s.extra) ++ stepToks ss := rfl

theorem stepDiags_cons (s : ScanStep) (ss : List ScanStep) :
    stepDiags (s :: ss) = s.diag.toList ++ stepDiags ss := rfl

/-- what the induction over the scanner loop carries (`n` = length of the whole source) -/
structure VFacts (T : PTables) (st : PState) (src : Str) (pos : Nat) (atoms : List VAtom)
    (steps : List ScanStep) : Prop where
  seq : VSeq T st (stepToks steps)
  first : ∀ t ts c, stepToks steps = t :: ts → followOk T st c atoms = true →
    (shortKeys T st).contains (c :: t.txt) = false
  txt : getTxtPos ((stepToks steps).flatMap expTokV)
    = ((outA T.toTables src.length pos atoms).map (·.1), (outA T.toTables src.length pos atoms).map (·.2))
  diags : stepDiags steps = diagsA src pos atoms
  len : (stepToks steps).length ≤ (renderA atoms).length
  lines : ∀ σ tail, tail ≠ [] →
    lineRun σ ((((stepToks steps).flatMap expTokV).filter keepIn).map evalTok ++ tail) =
      match lineA σ atoms with
      | none => false
      | some σ' => lineRun σ' tail

theorem VFacts_nil (T : PTables) (st : PState) (src : Str) (pos : Nat) : VFacts T st src pos [] [] where
  seq := trivial
  first := by intro t ts c h; cases h
  txt := rfl
  diags := rfl
  len := Nat.le_refl _
  lines := by intro σ tail _; simp [stepToks, lineA]

/-- one more step in front -/
theorem VFacts.cons {T : PTables} {st : PState} {src : Str} {pos : Nat} {atoms r' : List VAtom}
    (s : ScanStep) (ss : List ScanStep) (k : Nat) (A : List (Char × Nat))
    (I : VFacts T st src (pos + k) r' ss)
    (hseq : VSeq T st ((s.tok :: s.extra) ++ stepToks ss))
    (hfirst : ∀ c, followOk T st c atoms = true → (shortKeys T st).contains (c :: s.tok.txt) = false)
    (hout : getTxtPos ((s.tok :: s.extra).flatMap expTokV) = (A.map (·.1), A.map (·.2)))
    (houtA : outA T.toTables src.length pos atoms = A ++ outA T.toTables src.length (pos + k) r')
    (hdiag : diagsA src pos atoms = s.diag.toList ++ diagsA src (pos + k) r')
    (hlen : (s.tok :: s.extra).length + (renderA r').length ≤ (renderA atoms).length)
    (δ : Option Bool → Option (Option Bool))
    (hl1 : ∀ σ tail, tail ≠ [] →
      lineRun σ ((((s.tok :: s.extra).flatMap expTokV).filter keepIn).map evalTok ++ tail) =
        match δ σ with
        | none => false
        | some σ' => lineRun σ' tail)
    (hl2 : ∀ σ, lineA σ atoms = match δ σ with
        | none => none
        | some σ' => lineA σ' r') :
    VFacts T st src pos atoms (s :: ss) where
  seq := by rw [stepToks_cons]; exact hseq
  first := by
    intro t ts c he hc
    rw [stepToks_cons] at he
    simp only [List.cons_append, List.cons.injEq] at he
    rw [← he.1]; exact hfirst c hc
  txt := by
    rw [stepToks_cons, List.flatMap_append, getTxtPos_append, hout, I.txt, houtA]
    simp
  diags := by rw [stepDiags_cons, I.diags, hdiag]
  len := by
    have := I.len
    rw [stepToks_cons, List.length_append]
    omega
  lines := by
    intro σ tail ht
    rw [stepToks_cons, List.flatMap_append, List.filter_append, List.map_append, List.append_assoc]
    rw [hl1 σ _ (by simp [ht]), hl2 σ]
    cases δ σ with
    | none => rfl
    | some σ' => exact I.lines σ' tail ht

/-! ### one scanner step -/

/-- the first token behind a text character does not complete a short macro with it -/
def FirstOk (T : PTables) (st : PState) (r : List VAtom) (nxt : List Tok) : Prop :=
  ∀ t ts c, nxt = t :: ts → followOk T st c r = true → (shortKeys T st).contains (c :: t.txt) = false

/-- the link between one scanner step and the specification functions; `r'` = the atoms behind
    the step -/
structure VStep (T : PTables) (st : PState) (src : Str) (pos : Nat) (atoms r' : List VAtom)
    (s : ScanStep) : Prop where
  len_pos : 1 ≤ s.len
  len_le : s.len ≤ (renderA atoms).length
  drop : (renderA atoms).drop s.len = renderA r'
  ok : atomsOk T st r' = true
  tokn : (s.tok :: s.extra).length ≤ s.len
  seq : ∀ nxt, FirstOk T st r' nxt → VSeq T st nxt → VSeq T st ((s.tok :: s.extra) ++ nxt)
  first : ∀ c, followOk T st c atoms = true → (shortKeys T st).contains (c :: s.tok.txt) = false
  out : ∃ A, getTxtPos ((s.tok :: s.extra).flatMap expTokV) = (A.map (·.1), A.map (·.2)) ∧
    outA T.toTables src.length pos atoms = A ++ outA T.toTables src.length (pos + s.len) r'
  diag : diagsA src pos atoms = s.diag.toList ++ diagsA src (pos + s.len) r'
  lines : ∃ δ : Option Bool → Option (Option Bool),
    (∀ σ tail, tail ≠ [] →
      lineRun σ ((((s.tok :: s.extra).flatMap expTokV).filter keepIn).map evalTok ++ tail) =
        match δ σ with
        | none => false
        | some σ' => lineRun σ' tail) ∧
    (∀ σ, lineA σ atoms = match δ σ with
        | none => none
        | some σ' => lineA σ' r')

theorem VFacts.step {T : PTables} {st : PState} {src : Str} {pos : Nat} {atoms r' : List VAtom}
    (s : ScanStep) (ss : List ScanStep) (L : VStep T st src pos atoms r' s)
    (I : VFacts T st src (pos + s.len) r' ss) : VFacts T st src pos atoms (s :: ss) := by
  obtain ⟨A, ho1, ho2⟩ := L.out
  obtain ⟨δ, d1, d2⟩ := L.lines
  refine VFacts.cons s ss s.len A I (L.seq _ I.first I.seq) L.first ho1 ho2 L.diag ?_ δ d1 d2
  have h1 := L.tokn
  have h2 := congrArg List.length L.drop
  have h3 := L.len_le
  simp only [List.length_drop] at h2
  omega

theorem renderA_chr (c : Char) (r : List VAtom) : renderA (.chr c :: r) = c :: renderA r := rfl

theorem renderA_verb (d : Char) (s : Str) (r : List VAtom) :
    renderA (.verb d s :: r) = sVerb ++ d :: (s ++ d :: renderA r) := by
  simp [renderA, VAtom.render]

theorem renderA_bad (d : Char) (s : Str) (r : List VAtom) :
    renderA (.bad d s :: r) = sVerb ++ d :: (s ++ renderA r) := by
  simp [renderA, VAtom.render]

/-- a run of white space in front -/
theorem atoms_space_run (T : PTables) (st : PState) (n : Nat) (src : Str) :
    ∀ (k : Nat) (atoms : List VAtom), k ≤ (renderA atoms).length →
      (∀ x ∈ (renderA atoms).take k, isSpace x = true) → atomsOk T st atoms = true →
      ∃ r', renderA r' = (renderA atoms).drop k ∧ atomsOk T st r' = true ∧
        (∀ p, outA T.toTables n p atoms
          = posText p ((renderA atoms).take k) ++ outA T.toTables n (p + k) r') ∧
        (∀ p, diagsA src p atoms = diagsA src (p + k) r') ∧
        (∀ σ, lineA σ atoms = if hasNl ((renderA atoms).take k) then
            (if σ == some true then none else lineA (some false) r') else lineA σ r')
  | 0, atoms, _, _, h => ⟨atoms, by simp, h, by simp [posText], by simp, by simp [hasNl]⟩
  | k + 1, [], hk, _, _ => by simp [renderA] at hk
  | k + 1, .chr c :: r, hk, hsp, h => by
    simp only [atomsOk, Bool.and_eq_true] at h
    rw [renderA_chr] at hk hsp ⊢
    have hc : isSpace c = true := hsp c (by simp)
    obtain ⟨r', e1, e2, e3, e4, e5⟩ := atoms_space_run T st n src k r (by simpa using hk)
      (fun x hx => hsp x (by simp [hx])) h.2
    refine ⟨r', by simpa using e1, e2, ?_, ?_, ?_⟩
    · intro p
      simp only [outA, List.take_succ_cons, posText, e3, List.cons_append]
      rw [show p + 1 + k = p + (k + 1) by omega]
    · intro p
      simp only [diagsA, e4]
      rw [show p + 1 + k = p + (k + 1) by omega]
    · intro σ
      simp only [lineA, List.take_succ_cons, e5]
      by_cases hn : c = nl
      · subst hn
        have : hasNl (nl :: (renderA r).take k) = true := by simp [hasNl]
        simp only [beq_self_eq_true, if_true, this]
        cases σ with
        | none => simp
        | some a => cases a <;> simp
      · have h1 : (c == nl) = false := by simpa using hn
        have h2 : hasNl (c :: (renderA r).take k) = hasNl ((renderA r).take k) := by
          simp only [hasNl, List.contains_cons]
          have : (nl == c) = false := by simpa using fun e : nl = c => hn e.symm
          rw [this, Bool.false_or]
        simp only [h1, Bool.false_eq_true, if_false, hc, if_true, h2]
  | k + 1, .verb d s :: r, _, hsp, _ => by
    rw [renderA_verb] at hsp
    exact absurd (hsp '\\' (by simp [sVerb])) (by decide)
  | k + 1, .bad d s :: r, _, hsp, _ => by
    rw [renderA_bad] at hsp
    exact absurd (hsp '\\' (by simp [sVerb])) (by decide)

/-- a visible text character -/
theorem vstep_char (T : PTables) (st : PState) (src : Str) (pos : Nat) (c : Char) (r : List VAtom)
    (hsp : isSpace c = false) (hok : atomsOk T st (.chr c :: r) = true) :
    VStep T st src pos (.chr c :: r) r (nextToken T.toTables src pos (renderA (.chr c :: r))) := by
  simp only [atomsOk, Bool.and_eq_true] at hok
  obtain ⟨hc, hr⟩ := hok
  simp only [chrOk, Bool.and_eq_true, Bool.or_eq_true, Bool.not_eq_true', hsp, Bool.false_eq_true,
    false_or, true_and] at hc
  obtain ⟨hact, hst, hms⟩ := hc
  have hms' : matchSpecial T.toTables (c :: renderA r) = none := by
    cases hx : matchSpecial T.toTables (c :: renderA r) with
    | none => rfl
    | some _ => rw [hx] at hms; simp at hms
  have hst' := hst
  simp only [structuralChar, Bool.or_eq_false_iff, beq_eq_false_iff_ne] at hst'
  obtain ⟨⟨⟨⟨⟨h1, h2⟩, h3⟩, _⟩, _⟩, _⟩ := hst'
  have hnt : nextToken T.toTables src pos (c :: renderA r)
      = { tok := { kind := .text, pos := pos, txt := [c] }, len := 1 } := by
    simp [nextToken, hsp, h1, h2, h3, hms']
  rw [renderA_chr, hnt]
  have hpl : PlainTok ({ kind := .text, pos := pos, txt := [c] } : Tok) :=
    plainTok_of_head _ c [] rfl (Or.inl rfl) hst
  have hnn : hasNl [c] = false := by
    have : c ≠ nl := by intro e; rw [e] at hsp; exact absurd hsp (by decide)
    simpa [hasNl] using fun e : nl = c => this e.symm
  have hnb : isBlank [c] = false := by simp [isBlank, hsp]
  refine ⟨Nat.le_refl _, by simp [renderA_chr], by simp [renderA_chr], hr, by simp, ?_, ?_, ?_, ?_, ?_⟩
  · intro nxt hF hV
    refine ⟨Or.inl ⟨hpl, ?_⟩, hV⟩
    rcases hact with hact | hact
    · exact Or.inl hact
    · right
      cases nxt with
      | nil => rfl
      | cons t2 ts =>
        apply expandShortMacro_none
        exact hF t2 ts c rfl hact
  · intro c' hc'
    simpa [followOk, firstTokTxt, hsp] using hc'
  · refine ⟨[(c, pos)], ?_, rfl⟩
    simp [expTokV, getTxtPos, tokPositions]
  · rfl
  · refine ⟨fun _ => some none, ?_, ?_⟩
    · intro σ tail ht
      have := lineRun_txt { kind := .text, pos := pos, txt := [c] } rfl hnn σ tail ht
      simpa [expTokV, keepIn, hnb] using this
    · intro σ
      have : (c == nl) = false := by
        cases hb : c == nl with
        | false => rfl
        | true => rw [beq_iff_eq] at hb; rw [hb] at hsp; exact absurd hsp (by decide)
      simp [lineA, this, hsp]

/-- a run of white space -/
theorem vstep_ws (T : PTables) (st : PState) (src : Str) (pos : Nat) (c : Char) (r : List VAtom)
    (hsp : isSpace c = true) (hok : atomsOk T st (.chr c :: r) = true) :
    ∃ r', VStep T st src pos (.chr c :: r) r'
      (nextToken T.toTables src pos (renderA (.chr c :: r))) := by
  have hok0 := hok
  simp only [atomsOk, Bool.and_eq_true] at hok
  obtain ⟨hc, _⟩ := hok
  simp only [chrOk, Bool.and_eq_true, Bool.or_eq_true, Bool.not_eq_true', hsp, Bool.not_true,
    Bool.false_and, Bool.false_eq_true, or_false] at hc
  have hact : (activeChars T st).contains [c] = false := hc.1
  have hnt : nextToken T.toTables src pos (c :: renderA r) = scanSpace pos (c :: renderA r) := by
    simp [nextToken, hsp]
  generalize hw : (c :: renderA r).takeWhile isSpace = w
  have hw' : w = c :: (renderA r).takeWhile isSpace := by rw [← hw]; simp [hsp]
  have hall : ∀ d ∈ w, isSpace d = true := by
    intro d hd; rw [← hw] at hd; exact mem_takeWhile_true _ _ _ hd
  have htk : (c :: renderA r).take w.length = w := by
    rw [← hw]; exact ScannerAux.take_length_takeWhile _ _
  have hle : w.length ≤ (c :: renderA r).length := by
    rw [← hw]; exact ScannerAux.length_takeWhile_le' _ _
  obtain ⟨r', e1, e2, e3, e4, e5⟩ := atoms_space_run T st src.length src w.length (.chr c :: r)
    (by rw [renderA_chr]; exact hle) (by rw [renderA_chr, htk]; exact hall) hok0
  rw [renderA_chr, htk] at e3 e5
  rw [renderA_chr] at e1
  refine ⟨r', ?_⟩
  rw [renderA_chr, hnt]
  have hblank : isBlank w = true := by simpa [isBlank] using hall
  have hpl : PlainTok (scanSpace pos (c :: renderA r)).tok := by
    refine plainTok_of_head _ c ((renderA r).takeWhile isSpace) ?_ ?_ (structuralChar_of_isSpace c hsp)
    · simp only [scanSpace, hw, hw']
    · simp only [scanSpace]; split
      · exact Or.inr (Or.inl rfl)
      · exact Or.inr (Or.inr rfl)
  have htxt : (scanSpace pos (c :: renderA r)).tok.txt = w := by simp only [scanSpace, hw]
  have hlen : (scanSpace pos (c :: renderA r)).len = w.length := by simp only [scanSpace, hw]
  have hposn : (scanSpace pos (c :: renderA r)).tok.pos = pos := rfl
  have hfix : (scanSpace pos (c :: renderA r)).tok.fix = false := rfl
  have hkind : (scanSpace pos (c :: renderA r)).tok.kind = .space ∨
      (scanSpace pos (c :: renderA r)).tok.kind = .par := by
    simp only [scanSpace]; split
    · exact Or.inl rfl
    · exact Or.inr rfl
  have hdiag : (scanSpace pos (c :: renderA r)).diag = none := rfl
  have hextra : (scanSpace pos (c :: renderA r)).extra = [] := rfl
  generalize scanSpace pos (c :: renderA r) = s at hpl htxt hlen hposn hfix hdiag hextra hkind
  have hexp : expTokV s.tok = [s.tok] := expTokV_plain _ hpl
  have hwl : 1 ≤ w.length := by rw [hw']; simp
  refine ⟨by omega, ?_, ?_, e2, ?_, ?_, ?_, ?_, ?_, ?_⟩
  · rw [renderA_chr, hlen]; exact hle
  · rw [renderA_chr, hlen]; exact e1.symm
  · rw [hextra, hlen]; simpa using hwl
  · intro nxt _ hV
    rw [hextra]
    refine ⟨Or.inl ⟨hpl, Or.inl ?_⟩, hV⟩
    rw [htxt, hw']
    exact not_active_cons T st c _ hact
  · intro c' hc'
    rw [htxt, ← hw]
    simpa [followOk, firstTokTxt, hsp] using hc'
  · refine ⟨posText pos w, ?_, ?_⟩
    · rw [hextra]
      simp only [List.flatMap_cons, List.flatMap_nil, List.append_nil, hexp]
      rw [getTxtPos_cons_plain _ _ hfix, htxt, hposn, posText_fst, posText_snd]
      simp [getTxtPos]
    · rw [hlen]; exact e3 pos
  · rw [hdiag, hlen]; exact e4 pos
  · refine ⟨fun σ => if hasNl w then (if σ == some true then none else some (some false))
        else some σ, ?_, ?_⟩
    · intro σ tail ht
      have hk : keepIn s.tok = true := by simp [keepIn, htxt, hw']
      rw [hextra]
      simp only [List.flatMap_cons, List.flatMap_nil, List.append_nil, hexp, List.filter_cons, hk,
        if_true, List.filter_nil, List.map_cons, List.map_nil, List.cons_append, List.nil_append]
      rw [lineRun_ws s.tok hkind (by rw [htxt]; exact hblank) σ tail ht, htxt]
      cases hasNl w
      · simp
      · by_cases hσ : (σ == some true) = true <;> simp [hσ]
    · intro σ
      rw [e5 σ]
      cases hasNl w
      · simp
      · by_cases hσ : (σ == some true) = true <;> simp [hσ]

theorem verb_all_facts {d : Char} {s : Str} (h : s.all (fun c => c != d && c != nl) = true) :
    (∀ c ∈ s, c ≠ d ∧ c ≠ nl) ∧ hasNl s = false := by
  rw [List.all_eq_true] at h
  have h1 : ∀ c ∈ s, c ≠ d ∧ c ≠ nl := by
    intro c hc
    have := h c hc
    simpa using this
  refine ⟨h1, ?_⟩
  cases hn : hasNl s with
  | false => rfl
  | true =>
    simp only [hasNl, List.contains_iff_mem] at hn
    exact absurd rfl (h1 nl hn).2

theorem drop_verb (d : Char) (s R : Str) : (sVerb ++ d :: (s ++ d :: R)).drop (s.length + 7) = R := by
  have e : sVerb ++ d :: (s ++ d :: R) = (sVerb ++ d :: (s ++ [d])) ++ R := by simp
  rw [e, List.drop_left']
  simp [sVerb]

theorem drop_bad (d : Char) (s R : Str) : (sVerb ++ d :: (s ++ R)).drop (s.length + 6) = R := by
  have e : sVerb ++ d :: (s ++ R) = (sVerb ++ d :: s) ++ R := by simp
  rw [e, List.drop_left']
  simp [sVerb]

/-- a complete `\verb` -/
theorem vstep_verb (T : PTables) (st : PState) (src : Str) (pos : Nat) (d : Char) (s : Str)
    (r : List VAtom) (hok : atomsOk T st (.verb d s :: r) = true) :
    VStep T st src pos (.verb d s :: r) r
      (nextToken T.toTables src pos (renderA (.verb d s :: r))) := by
  simp only [atomsOk, Bool.and_eq_true] at hok
  obtain ⟨hv, hr⟩ := hok
  simp only [verbOk, Bool.and_eq_true, Bool.not_eq_true', bne_iff_ne, ne_eq,
    Option.isNone_iff_eq_none] at hv
  obtain ⟨⟨⟨hd, hdn⟩, hall⟩, hms⟩ := hv
  obtain ⟨hs, hsn⟩ := verb_all_facts hall
  rw [renderA_verb, nextToken_verb T.toTables src pos d s (renderA r) hd hdn hs hms]
  refine ⟨by simp, ?_, ?_, hr, by simp, ?_, ?_, ?_, ?_, ?_⟩
  · rw [renderA_verb]; simp [sVerb]
  · rw [renderA_verb]; exact drop_verb d s _
  · intro nxt _ hV
    exact ⟨Or.inr rfl, hV⟩
  · intro c' hc'
    simpa [followOk] using hc'
  · refine ⟨posText (pos + 6) s, ?_, rfl⟩
    simp [expTokV, getTxtPos, tokPositions, mkAction, posText_fst, posText_snd,
      List.range'_eq_map_range]
  · rfl
  · refine ⟨fun σ => some (if isBlank s then σ.map (fun _ => true) else none), ?_, ?_⟩
    · intro σ tail ht
      have hA : ∀ tl', tl' ≠ [] → lineRun σ (evalTok (mkAction (pos + 6)) :: tl')
          = lineRun (σ.map (fun _ => true)) tl' :=
        fun tl' h' => lineRun_action (mkAction (pos + 6)) rfl σ tl' h'
      cases hv : s with
      | nil =>
        have : lineRun σ (evalTok (mkAction (pos + 6)) :: tail)
            = lineRun (σ.map (fun _ => true)) tail := hA tail ht
        simpa [expTokV, keepIn, isAction, isLang, mkAction, isBlank] using this
      | cons a as =>
        have hn : hasNl (a :: as) = false := by rw [← hv]; exact hsn
        have h3 := hA (evalTok { kind := .text, pos := pos + 6, txt := a :: as, fix := false } :: tail)
          (by simp)
        have h4 := lineRun_txt { kind := .text, pos := pos + 6, txt := a :: as, fix := false } rfl hn
          (σ.map (fun _ => true)) tail ht
        rw [h4] at h3
        simp only [expTokV, beq_self_eq_true, if_true, List.filter_cons, keepIn, isAction, isLang,
          mkAction, List.isEmpty_nil, Bool.not_true, Bool.or_true, Bool.or_false,
          List.isEmpty_cons, Bool.not_false, Bool.true_or, List.filter_nil, List.map_cons,
          List.map_nil, List.cons_append, List.nil_append, List.flatMap_cons, List.flatMap_nil,
          List.append_nil]
        simp only [mkAction] at h3
        rw [h3]
    · intro σ
      rfl

theorem append_blank_ne (v x : Str) (hx : x.getLast? ≠ some ' ') : (v ++ [' '] == x) = false := by
  cases h : v ++ [' '] == x with
  | false => rfl
  | true =>
    rw [beq_iff_eq] at h
    rw [← h] at hx
    simp at hx

theorem plainTok_of_last (t : Tok) (v : Str) (ht : t.txt = v ++ [' ']) (hk : t.kind = .text) :
    PlainTok t := by
  refine ⟨Or.inl hk, ?_, ?_, ?_, ?_, ?_, ?_, ?_⟩ <;>
    (simp only [txtIs, ht]; exact append_blank_ne v _ (by decide))

/-- an unterminated `\verb` -/
theorem vstep_bad (T : PTables) (st : PState) (src : Str) (pos : Nat) (d : Char) (s : Str)
    (r : List VAtom) (hpos : pos + (renderA (.bad d s :: r)).length ≤ src.length)
    (hok : atomsOk T st (.bad d s :: r) = true) :
    VStep T st src pos (.bad d s :: r) r
      (nextToken T.toTables src pos (renderA (.bad d s :: r))) := by
  simp only [atomsOk, Bool.and_eq_true] at hok
  obtain ⟨hv, hr⟩ := hok
  simp only [badOk, Bool.and_eq_true, Bool.not_eq_true', Option.isNone_iff_eq_none] at hv
  obtain ⟨⟨⟨⟨⟨hd, hall⟩, hR⟩, hms⟩, hmark⟩, hblank⟩ := hv
  obtain ⟨hs, _⟩ := verb_all_facts hall
  have hR' : renderA r = [] ∨ ∃ R', renderA r = nl :: R' := by
    cases r with
    | nil => exact Or.inl rfl
    | cons a r2 =>
      cases a with
      | chr c =>
        have : c = nl := by simpa using hR
        subst this
        exact Or.inr ⟨renderA r2, rfl⟩
      | verb _ _ => simp at hR
      | bad _ _ => simp at hR
  have hk : 2 ≤ src.length - pos := by
    rw [renderA_bad] at hpos
    simp [sVerb] at hpos
    omega
  rw [renderA_bad, nextToken_bad T.toTables src pos d s (renderA r) hd hs hR' hms]
  obtain ⟨c, u, hc, hcases, hnl⟩ := latexErrorToks_cases T.toTables pos src.length hk hmark
  have htp := latexErrorToks_txtpos T.toTables pos src.length
  -- the tokens of the step are the tokens of the mark
  have htoks : (badStep T.toTables src pos (s.length + 6)).tok ::
      (badStep T.toTables src pos (s.length + 6)).extra
        = latexErrorToks T.toTables errBadVerb pos src.length := by
    rcases hcases with h | ⟨q, v, h⟩ <;> simp [badStep, h]
  have hlen : (badStep T.toTables src pos (s.length + 6)).len = s.length + 6 := rfl
  have hdiag : (badStep T.toTables src pos (s.length + 6)).diag
      = some (latexErrorDiag errBadVerb pos src) := rfl
  have htxt1 : ∀ c', followOk T st c' (.bad d s :: r) = true →
      (shortKeys T st).contains (c' :: (badStep T.toTables src pos (s.length + 6)).tok.txt) = false := by
    intro c' h; simp [followOk] at h
  generalize badStep T.toTables src pos (s.length + 6) = b at htoks hlen hdiag htxt1
  generalize hE : latexErrorToks T.toTables errBadVerb pos src.length = E at htoks hcases hnl htp
  -- facts about the mark tokens
  have hplain : ∀ t ∈ E, PlainTok t ∧ (activeChars T st).contains t.txt = false ∧ t.kind = .text ∧
      t.txt ≠ [] := by
    have h1 : PlainTok ({ kind := .text, pos := pos, txt := ' ' :: c :: u, fix := true } : Tok) ∧
        (activeChars T st).contains (' ' :: c :: u) = false :=
      ⟨plainTok_of_head _ ' ' (c :: u) rfl (Or.inl rfl) (by decide), not_active_cons T st ' ' _ hblank⟩
    have h2 : ∀ (q : Nat) (v : Str),
        PlainTok ({ kind := .text, pos := q, txt := v ++ [' '], fix := true } : Tok) ∧
        (activeChars T st).contains (v ++ [' ']) = false := by
      intro q v
      refine ⟨plainTok_of_last _ v rfl rfl, ?_⟩
      cases v with
      | nil => exact hblank
      | cons a v' =>
        cases hcn : (activeChars T st).contains (a :: v' ++ [' ']) with
        | false => rfl
        | true =>
          have := activeChars_length T st _ (List.contains_iff_mem.mp hcn)
          simp at this
    intro t ht
    rcases hcases with h | ⟨q, v, h⟩
    · rw [h] at ht
      simp only [List.mem_cons, List.not_mem_nil, or_false] at ht
      subst ht
      exact ⟨h1.1, h1.2, rfl, by simp⟩
    · rw [h] at ht
      simp only [List.mem_cons, List.not_mem_nil, or_false] at ht
      rcases ht with rfl | rfl
      · exact ⟨h1.1, h1.2, rfl, by simp⟩
      · exact ⟨(h2 q v).1, (h2 q v).2, rfl, by simp⟩
  have hexp : E.flatMap expTokV = E := by
    have : ∀ l : List Tok, (∀ t ∈ l, PlainTok t) → l.flatMap expTokV = l := by
      intro l
      induction l with
      | nil => intro _; rfl
      | cons t l ih =>
        intro h
        rw [List.flatMap_cons, expTokV_plain t (h t (List.mem_cons_self ..)),
          ih (fun x hx => h x (List.mem_cons_of_mem _ hx))]
        rfl
    exact this E (fun t ht => (hplain t ht).1)
  have hkeep : E.filter keepIn = E := by
    rw [List.filter_eq_self]
    intro t ht
    have := (hplain t ht).2.2.2
    cases hx : t.txt with
    | nil => exact absurd hx this
    | cons => simp [keepIn, hx]
  have hElen : E.length ≤ 2 := by
    rcases hcases with h | ⟨q, v, h⟩ <;> simp [h]
  refine ⟨by omega, ?_, ?_, hr, ?_, ?_, htxt1, ?_, ?_, ?_⟩
  · rw [renderA_bad, hlen]; simp [sVerb]
  · rw [renderA_bad, hlen]; exact drop_bad d s _
  · rw [htoks, hlen]; omega
  · intro nxt _ hV
    rw [htoks]
    exact VSeq_append_plain E nxt (fun t ht => ⟨(hplain t ht).1, (hplain t ht).2.1⟩) hV
  · refine ⟨markOut T.toTables src.length pos, ?_, ?_⟩
    · rw [htoks, hexp, htp]
    · rw [hlen]; rfl
  · rw [hdiag, hlen]; rfl
  · refine ⟨fun _ => some none, ?_, ?_⟩
    · intro σ tail ht
      rw [htoks, hexp, hkeep]
      have hnone : ∀ l : List Tok, (∀ t ∈ l, t.kind = .text ∧ hasNl t.txt = false) →
          lineRun none (l.map evalTok ++ tail) = lineRun none tail := by
        intro l
        induction l with
        | nil => intro _; rfl
        | cons t l ih =>
          intro h
          rw [List.map_cons, List.cons_append,
            lineRun_txt t (h t (List.mem_cons_self ..)).1 (h t (List.mem_cons_self ..)).2 none _
              (by simp [ht])]
          simp only [ite_self]
          exact ih (fun x hx => h x (List.mem_cons_of_mem _ hx))
      have hnb : isBlank (' ' :: c :: u) = false := by simp [isBlank, hc]
      rcases hcases with h | ⟨q, v, h⟩
      · rw [h]
        have := lineRun_txt { kind := .text, pos := pos, txt := ' ' :: c :: u, fix := true } rfl
          (hnl _ (by rw [h]; simp)) σ tail ht
        simpa [hnb] using this
      · rw [h]
        have h1 := lineRun_txt { kind := .text, pos := pos, txt := ' ' :: c :: u, fix := true } rfl
          (hnl _ (by rw [h]; simp)) σ
          (evalTok { kind := .text, pos := q, txt := v ++ [' '], fix := true } :: tail) (by simp)
        have h2 := hnone [{ kind := .text, pos := q, txt := v ++ [' '], fix := true }]
          (by
            intro t ht'
            simp only [List.mem_cons, List.not_mem_nil, or_false] at ht'
            subst ht'
            exact ⟨rfl, hnl _ (by rw [h]; simp)⟩)
        simp only [hnb, Bool.false_eq_true, if_false] at h1
        simp only [List.map_cons, List.map_nil, List.cons_append, List.nil_append] at h2 ⊢
        rw [h1, h2]
    · intro σ
      rfl

theorem render_ne_nil (a : VAtom) (r : List VAtom) : ∃ x xs, renderA (a :: r) = x :: xs := by
  cases a with
  | chr c => exact ⟨c, _, rfl⟩
  | verb d s => exact ⟨'\\', _, by rw [renderA_verb]; rfl⟩
  | bad d s => exact ⟨'\\', _, by rw [renderA_bad]; rfl⟩

/-- one scanner step on a well-formed document -/
theorem nextToken_vstep (T : PTables) (st : PState) (src : Str) (pos : Nat) (a : VAtom)
    (r : List VAtom) (hpos : pos + (renderA (a :: r)).length ≤ src.length)
    (hok : atomsOk T st (a :: r) = true) :
    ∃ r', VStep T st src pos (a :: r) r' (nextToken T.toTables src pos (renderA (a :: r))) := by
  cases a with
  | chr c =>
    cases hsp : isSpace c with
    | true => exact vstep_ws T st src pos c r hsp hok
    | false => exact ⟨r, vstep_char T st src pos c r hsp hok⟩
  | verb d s => exact ⟨r, vstep_verb T st src pos d s r hok⟩
  | bad d s => exact ⟨r, vstep_bad T st src pos d s r hpos hok⟩

/-- the scanner loop on a well-formed document -/
theorem scanSteps_verb (T : PTables) (st : PState) (src : Str) :
    ∀ (fuel pos : Nat) (atoms : List VAtom), (renderA atoms).length ≤ fuel →
      pos + (renderA atoms).length ≤ src.length → atomsOk T st atoms = true →
      (scanSteps T.toTables src fuel pos (renderA atoms)).2 = true ∧
      VFacts T st src pos atoms (scanSteps T.toTables src fuel pos (renderA atoms)).1 := by
  intro fuel
  induction fuel with
  | zero =>
    intro pos atoms hf _ _
    cases atoms with
    | nil => exact ⟨rfl, VFacts_nil T st src pos⟩
    | cons a r =>
      obtain ⟨x, xs, hx⟩ := render_ne_nil a r
      rw [hx] at hf; simp at hf
  | succ fuel ih =>
    intro pos atoms hf hpos hok
    cases atoms with
    | nil => exact ⟨rfl, VFacts_nil T st src pos⟩
    | cons a r =>
      obtain ⟨r', L⟩ := nextToken_vstep T st src pos a r hpos hok
      obtain ⟨x, xs, hx⟩ := render_ne_nil a r
      rw [hx] at L hf hpos ⊢
      generalize hs : nextToken T.toTables src pos (x :: xs) = s at L
      have h1 := L.len_pos
      have h2 := L.len_le
      have hd := L.drop
      rw [hx] at h2 hd
      simp only [scanSteps, hs]
      rw [if_neg (by simp; omega)]
      rw [hd]
      have hl : (renderA r').length = (x :: xs).length - s.len := by
        rw [← hd, List.length_drop]
      obtain ⟨i1, I⟩ := ih (pos + s.len) r' (by rw [hl]; simp only [List.length_cons] at hf h2 ⊢; omega)
        (by rw [hl]; simp only [List.length_cons] at hpos h2 ⊢; omega) L.ok
      exact ⟨i1, VFacts.step s _ L I⟩

/-! ### `scan`, `expandSequence`, `parserWork`, `parse`, `tex2txt` -/

/-- the tokens of the result: the scanner tokens, each `\verb` token replaced by a text token with
    its content (empty contents dropped) -/
def verbOut (T : Tables) (src : Str) : List Tok :=
  ((scan T src).toks.flatMap expTokV).filter keepOut

/-- `scan` on a well-formed document -/
theorem scan_verb (T : PTables) (st : PState) (atoms : List VAtom)
    (hok : atomsOk T st atoms = true) :
    (scan T.toTables (renderA atoms)).complete = true ∧
    (scan T.toTables (renderA atoms)).diags = diagsA (renderA atoms) 0 atoms ∧
    VSeq T st (scan T.toTables (renderA atoms)).toks ∧
    getTxtPos ((scan T.toTables (renderA atoms)).toks.flatMap expTokV)
      = ((outA T.toTables (renderA atoms).length 0 atoms).map (·.1),
         (outA T.toTables (renderA atoms).length 0 atoms).map (·.2)) ∧
    (scan T.toTables (renderA atoms)).toks.length ≤ (renderA atoms).length ∧
    (∀ σ tail, tail ≠ [] →
      lineRun σ ((((scan T.toTables (renderA atoms)).toks.flatMap expTokV).filter keepIn).map evalTok
          ++ tail) =
        match lineA σ atoms with
        | none => false
        | some σ' => lineRun σ' tail) := by
  obtain ⟨a, F⟩ := scanSteps_verb T st (renderA atoms) (renderA atoms).length 0 atoms (Nat.le_refl _)
    (by simp) hok
  exact ⟨a, F.diags, F.seq, F.txt, F.len, F.lines⟩

/-- the expander loop on the scanner tokens of a well-formed document with `linesOKA` -/
theorem seq_verb_id (T : PTables) (st st0 : PState) (atoms : List VAtom)
    (hl : st.langStack = st0.langStack) (hok : atomsOk T st0 atoms = true)
    (hlines : linesOKA atoms = true) (envStop : Option Str) (fuel : Nat)
    (hf : (renderA atoms).length + 1 ≤ fuel) :
    expandSequence T fuel (scan T.toTables (renderA atoms)).toks envStop [] st
      = .ok ((verbOut T.toTables (renderA atoms), []), st) := by
  obtain ⟨_, _, hseq, _, hlen, hlin⟩ := scan_verb T st0 atoms hok
  rw [seq_verb T st envStop _ fuel [] (by omega) (VSeq.congr hl hseq), List.nil_append]
  rw [removeLines_safe_id]
  · rfl
  · apply lineRun_linesInit
    intro p
    rw [hlin (some false) [lastItem p] (by simp)]
    unfold linesOKA at hlines
    cases hs : lineA (some false) atoms with
    | none => rw [hs] at hlines; cases hlines
    | some σ' =>
      rw [hs] at hlines
      simp only [] at hlines ⊢
      rw [lineRun_lastItem]
      exact hlines

theorem followOk_congr (T : PTables) (st st' : PState) (h : st'.langStack = st.langStack) (c : Char)
    (r : List VAtom) : followOk T st' c r = followOk T st c r := by
  cases r with
  | nil => rfl
  | cons a r => cases a <;> simp only [followOk, shortKeys_congr T st st' h]

theorem atomsOk_congr (T : PTables) (st st' : PState) (h : st'.langStack = st.langStack) :
    ∀ atoms : List VAtom, atomsOk T st' atoms = atomsOk T st atoms
  | [] => rfl
  | .chr c :: r => by
    simp only [atomsOk, chrOk, activeChars_congr T st st' h, followOk_congr T st st' h,
      atomsOk_congr T st st' h r]
  | .verb d s :: r => by simp only [atomsOk, atomsOk_congr T st st' h r]
  | .bad d s :: r => by
    simp only [atomsOk, badOk, activeChars_congr T st st' h, atomsOk_congr T st st' h r]

/-- **`parserWork` on a well-formed document.**  The result tokens are the scanner tokens with every
    `\verb` token replaced by its content; the diagnostics of the unterminated `\verb`s are
    appended to `diags`; nothing else in the state changes. -/
theorem parserWork_verb (T : PTables) (st : PState) (atoms : List VAtom) (fuel : Nat)
    (hf : (renderA atoms).length + 2 ≤ fuel) (hok : atomsOk T st atoms = true)
    (hlines : linesOKA atoms = true) :
    parserWork T fuel (renderA atoms) st
      = .ok (verbOut T.toTables (renderA atoms),
             { st with diags := st.diags ++ diagsA (renderA atoms) 0 atoms }) := by
  obtain ⟨f, rfl⟩ : ∃ f, fuel = f + 1 := ⟨fuel - 1, by omega⟩
  obtain ⟨_, hd, hseq, _, _, _⟩ := scan_verb T st atoms hok
  rw [parserWork.eq_2]
  refine (M.bind_ok _ _ _ _ _ (rfl : M.get st = _)).trans ?_
  refine (M.bind_ok _ _ _ _ _ (rfl : M.modify _ _ = _)).trans ?_
  refine (M.bind_ok _ _ _ _ _ (rfl : M.modify _ _ = _)).trans ?_
  refine (M.bind_ok _ _ _ _ _ (rfl : M.get _ = _)).trans ?_
  simp only [hd]
  rw [skipPass_nocomment _ _ _ (fun t ht' => hseq.notComment t ht')]
  simp only []
  refine (M.bind_ok _ _ _ _ _ (rfl : (pure _ : M (List Tok)) _ = _)).trans ?_
  have hs := seq_verb_id T
    { st with latex := renderA atoms, nest := st.nest + 1,
              diags := st.diags ++ diagsA (renderA atoms) 0 atoms } st atoms rfl hok hlines none f
    (by omega)
  refine (M.bind_ok _ _ _ _ _ hs).trans ?_
  refine (M.bind_ok _ _ _ _ _ (rfl : M.modify _ _ = _)).trans ?_
  show Outcome.ok _ = _
  simp only [Nat.add_sub_cancel]

theorem parse_verb (T : PTables) (st : PState) (atoms : List VAtom) (fuel : Nat)
    (hf : (renderA atoms).length + 2 ≤ fuel) (hok : atomsOk T st atoms = true)
    (hlines : linesOKA atoms = true) :
    parse T fuel (renderA atoms) [] [] st
      = .ok (verbOut T.toTables (renderA atoms),
             { st with extracted := [], unknowns := [], foreign := false, nest := 0,
                       diags := st.diags ++ diagsA (renderA atoms) 0 atoms }) := by
  unfold parse
  simp only [List.isEmpty_nil, Bool.not_true, Bool.false_eq_true, if_false, if_true]
  refine (M.bind_ok _ _ _ _ _ (rfl : M.modify _ _ = _)).trans ?_
  refine (M.bind_ok _ _ _ _ _ (rfl : (pure _ : M (List Tok)) _ = _)).trans ?_
  refine (M.bind_ok _ _ _ _ _ (rfl : M.modify _ _ = _)).trans ?_
  have hw := parserWork_verb T
    { st with extracted := [], unknowns := [], foreign := false, nest := 0 } atoms fuel hf
    ((atomsOk_congr T st
      { st with extracted := [], unknowns := [], foreign := false, nest := 0 } rfl atoms).trans hok)
    hlines
  refine (M.bind_ok _ _ _ _ _ hw).trans ?_
  refine (M.bind_ok _ _ _ _ _ (rfl : M.get _ = _)).trans ?_
  show Outcome.ok _ = _
  simp

/-- **`tex2txt` on a well-formed document, complete result record.**  `st1` is the state after
    `Parser.__init__`; no `--defs`, `--extr`, `--repl`, `--unkn`; single-language mode. -/
theorem tex2txt_verb_atoms (T : PTables) (o : Options) (fs : FS) (thresh : Nat) (atoms : List VAtom)
    (fuel : Nat) (st1 : PState)
    (hdefs : o.defs = []) (hextr : o.extr = []) (hrepl : o.hasRepl = false)
    (hunkn : o.unkn = false)
    (hinit : initParser T fuel o (initialState T o false fs) = .ok ((), st1))
    (hok : atomsOk T st1 atoms = true) (hlines : linesOKA atoms = true)
    (hf : (renderA atoms).length + 2 ≤ fuel) :
    tex2txt T fuel (renderA atoms) o false thresh fs
      = .ok { toks := verbOut T.toTables (renderA atoms),
              txt := (outA T.toTables (renderA atoms).length 0 atoms).map (·.1),
              pos := (outA T.toTables (renderA atoms).length 0 atoms).map (·.2 + 1),
              parts := [], unknowns := [],
              diags := st1.diags ++ diagsA (renderA atoms) 0 atoms, foreign := false } := by
  have hrun : (initParser T fuel o >>= fun _ => parse T fuel (renderA atoms) o.defs
        (if o.extr.isEmpty then [] else (splitOn ',' o.extr []).map (fun s => '\\' :: s)))
        (initialState T o false fs)
      = .ok (verbOut T.toTables (renderA atoms),
             { st1 with extracted := [], unknowns := [], foreign := false, nest := 0,
                        diags := st1.diags ++ diagsA (renderA atoms) 0 atoms }) := by
    refine (M.bind_ok _ _ _ _ _ hinit).trans ?_
    rw [hdefs, hextr]
    exact parse_verb T st1 atoms fuel hf hok hlines
  have htp : getTxtPos (verbOut T.toTables (renderA atoms))
      = ((outA T.toTables (renderA atoms).length 0 atoms).map (·.1),
         (outA T.toTables (renderA atoms).length 0 atoms).map (·.2)) := by
    unfold verbOut
    rw [getTxtPos_filter_keepOut]
    exact (scan_verb T st1 atoms hok).2.2.2.1
  unfold tex2txt
  simp only []
  rw [hrun]
  simp only [hrepl, hunkn, Bool.not_false, if_true, Bool.false_eq_true, if_false, htp,
    List.map_map]
  rfl

/-! ### documents as segments -/

/-- a segment of the source: a run of text, a complete `\verb d s d`, an unterminated `\verb d s` -/
inductive VSeg where
  | txt (s : Str)
  | verb (d : Char) (s : Str)
  | bad (d : Char) (s : Str)
deriving Repr, DecidableEq

def VSeg.render : VSeg → Str
  | .txt s => s
  | .verb d s => sVerb ++ d :: (s ++ [d])
  | .bad d s => sVerb ++ d :: s

/-- the source text -/
def renderV : List VSeg → Str
  | [] => []
  | a :: r => a.render ++ renderV r

def VSeg.atoms : VSeg → List VAtom
  | .txt s => s.map .chr
  | .verb d s => [.verb d s]
  | .bad d s => [.bad d s]

/-- a text segment is the list of its characters -/
def atomsOf (segs : List VSeg) : List VAtom := segs.flatMap VSeg.atoms

/-- all side conditions on the characters and the `\verb`s (see `chrOk`, `verbOk`, `badOk`) -/
def vsegsOk (T : PTables) (st : PState) (segs : List VSeg) : Bool := atomsOk T st (atomsOf segs)

/-- no line consists only of white space and `\verb` with blank content, with at least one `\verb` -/
def vlinesOK (segs : List VSeg) : Bool := linesOKA (atomsOf segs)

/-- the expected output: every character of a text segment and of the content of a complete
    `\verb` with its own (0-based) source position; the error mark for an unterminated `\verb`
    (`n` = length of the source, `p` = offset of the first segment) -/
def outV (T : Tables) (n : Nat) : Nat → List VSeg → List (Char × Nat)
  | _, [] => []
  | p, .txt s :: r => posText p s ++ outV T n (p + s.length) r
  | p, .verb _ s :: r => posText (p + 6) s ++ outV T n (p + (s.length + 7)) r
  | p, .bad _ s :: r => markOut T n p ++ outV T n (p + (s.length + 6)) r

/-- the expected diagnostics: one per unterminated `\verb`, at its offset -/
def diagsV (src : Str) : Nat → List VSeg → List Diag
  | _, [] => []
  | p, .txt s :: r => diagsV src (p + s.length) r
  | p, .verb _ s :: r => diagsV src (p + (s.length + 7)) r
  | p, .bad _ s :: r => latexErrorDiag errBadVerb p src :: diagsV src (p + (s.length + 6)) r

theorem renderA_append : ∀ a b : List VAtom, renderA (a ++ b) = renderA a ++ renderA b
  | [], _ => rfl
  | x :: a, b => by simp [renderA, renderA_append a b]

theorem renderA_chrs : ∀ s : Str, renderA (s.map .chr) = s
  | [] => rfl
  | c :: cs => by simp [renderA, VAtom.render, renderA_chrs cs]

theorem renderA_atomsOf : ∀ segs : List VSeg, renderA (atomsOf segs) = renderV segs
  | [] => rfl
  | a :: r => by
    have ih := renderA_atomsOf r
    simp only [atomsOf] at ih
    simp only [atomsOf, List.flatMap_cons, renderA_append, renderV, ih]
    cases a <;> simp [VSeg.atoms, VSeg.render, renderA, VAtom.render, renderA_chrs]

theorem outA_chrs (T : Tables) (n : Nat) (r : List VAtom) : ∀ (s : Str) (p : Nat),
    outA T n p (s.map .chr ++ r) = posText p s ++ outA T n (p + s.length) r
  | [], p => by simp [posText]
  | c :: cs, p => by
    simp only [List.map_cons, List.cons_append, outA, posText, outA_chrs T n r cs (p + 1),
      List.length_cons]
    rw [show p + 1 + cs.length = p + (cs.length + 1) by omega]

theorem diagsA_chrs (src : Str) (r : List VAtom) : ∀ (s : Str) (p : Nat),
    diagsA src p (s.map .chr ++ r) = diagsA src (p + s.length) r
  | [], p => by simp
  | c :: cs, p => by
    simp only [List.map_cons, List.cons_append, diagsA, diagsA_chrs src r cs (p + 1),
      List.length_cons]
    rw [show p + 1 + cs.length = p + (cs.length + 1) by omega]

theorem outA_atomsOf (T : Tables) (n : Nat) : ∀ (segs : List VSeg) (p : Nat),
    outA T n p (atomsOf segs) = outV T n p segs
  | [], _ => rfl
  | .txt s :: r, p => by
    have ih := outA_atomsOf T n r (p + s.length)
    simp only [atomsOf] at ih
    simp only [atomsOf, List.flatMap_cons, VSeg.atoms, outA_chrs, ih, outV]
  | .verb d s :: r, p => by
    have ih := outA_atomsOf T n r (p + (s.length + 7))
    simp only [atomsOf] at ih
    simp only [atomsOf, List.flatMap_cons, VSeg.atoms, List.singleton_append, outA, ih, outV]
  | .bad d s :: r, p => by
    have ih := outA_atomsOf T n r (p + (s.length + 6))
    simp only [atomsOf] at ih
    simp only [atomsOf, List.flatMap_cons, VSeg.atoms, List.singleton_append, outA, ih, outV]

theorem diagsA_atomsOf (src : Str) : ∀ (segs : List VSeg) (p : Nat),
    diagsA src p (atomsOf segs) = diagsV src p segs
  | [], _ => rfl
  | .txt s :: r, p => by
    have ih := diagsA_atomsOf src r (p + s.length)
    simp only [atomsOf] at ih
    simp only [atomsOf, List.flatMap_cons, VSeg.atoms, diagsA_chrs, ih, diagsV]
  | .verb d s :: r, p => by
    have ih := diagsA_atomsOf src r (p + (s.length + 7))
    simp only [atomsOf] at ih
    simp only [atomsOf, List.flatMap_cons, VSeg.atoms, List.singleton_append, diagsA, ih, diagsV]
  | .bad d s :: r, p => by
    have ih := diagsA_atomsOf src r (p + (s.length + 6))
    simp only [atomsOf] at ih
    simp only [atomsOf, List.flatMap_cons, VSeg.atoms, List.singleton_append, diagsA, ih, diagsV]

/-- **The general end-to-end statement.**  The document is a sequence of text segments, complete
    `\verb`s and unterminated `\verb`s (each of the latter at the end of its line); `st1` is the
    state after `Parser.__init__`; no `--defs`, `--extr`, `--repl`, `--unkn`; single-language mode.
    With one unit of fuel per source character plus two, `tex2txt` succeeds; text and positions
    are `outV` (positions 1-based), nothing is unknown, and the diagnostics are those of the
    unterminated `\verb`s, in order. -/
theorem tex2txt_verb_segs (T : PTables) (o : Options) (fs : FS) (thresh : Nat) (segs : List VSeg)
    (fuel : Nat) (st1 : PState)
    (hdefs : o.defs = []) (hextr : o.extr = []) (hrepl : o.hasRepl = false)
    (hunkn : o.unkn = false)
    (hinit : initParser T fuel o (initialState T o false fs) = .ok ((), st1))
    (hok : vsegsOk T st1 segs = true) (hlines : vlinesOK segs = true)
    (hf : (renderV segs).length + 2 ≤ fuel) :
    ∃ r, tex2txt T fuel (renderV segs) o false thresh fs = .ok r ∧
      r.txt = (outV T.toTables (renderV segs).length 0 segs).map (·.1) ∧
      r.pos = (outV T.toTables (renderV segs).length 0 segs).map (·.2 + 1) ∧
      r.unknowns = [] ∧
      r.diags = st1.diags ++ diagsV (renderV segs) 0 segs := by
  have h := tex2txt_verb_atoms T o fs thresh (atomsOf segs) fuel st1 hdefs hextr hrepl hunkn hinit
    hok hlines (by rw [renderA_atomsOf]; exact hf)
  rw [renderA_atomsOf, outA_atomsOf, diagsA_atomsOf] at h
  exact ⟨_, h, rfl, rfl, rfl, rfl⟩

/-! ### (A) well-formed documents: verbatim material is copied literally -/

/-- no unterminated `\verb` -/
def verbOnly : List VSeg → Bool
  | [] => true
  | .bad _ _ :: _ => false
  | _ :: r => verbOnly r

/-- the text with every `\verb d s d` replaced by its content `s` -/
def contentText : List VSeg → Str
  | [] => []
  | .txt s :: r => s ++ contentText r
  | .verb _ s :: r => s ++ contentText r
  | .bad _ _ :: r => contentText r

/-- the characters of the text segments and of the contents, each with its own (0-based) source
    position (`p` = offset of the first segment) -/
def outW : Nat → List VSeg → List (Char × Nat)
  | _, [] => []
  | p, .txt s :: r => posText p s ++ outW (p + s.length) r
  | p, .verb _ s :: r => posText (p + 6) s ++ outW (p + (s.length + 7)) r
  | p, .bad _ s :: r => outW (p + (s.length + 6)) r

theorem outV_verbOnly (T : Tables) (n : Nat) : ∀ (segs : List VSeg) (p : Nat), verbOnly segs = true →
    outV T n p segs = outW p segs
  | [], _, _ => rfl
  | .txt s :: r, p, h => by simp only [outV, outW, outV_verbOnly T n r _ (by simpa [verbOnly] using h)]
  | .verb d s :: r, p, h => by simp only [outV, outW, outV_verbOnly T n r _ (by simpa [verbOnly] using h)]
  | .bad d s :: r, p, h => by simp [verbOnly] at h

theorem diagsV_verbOnly (src : Str) : ∀ (segs : List VSeg) (p : Nat), verbOnly segs = true →
    diagsV src p segs = []
  | [], _, _ => rfl
  | .txt s :: r, p, h => by simp only [diagsV, diagsV_verbOnly src r _ (by simpa [verbOnly] using h)]
  | .verb d s :: r, p, h => by simp only [diagsV, diagsV_verbOnly src r _ (by simpa [verbOnly] using h)]
  | .bad d s :: r, p, h => by simp [verbOnly] at h

theorem outW_fst : ∀ (segs : List VSeg) (p : Nat), verbOnly segs = true →
    (outW p segs).map (·.1) = contentText segs
  | [], _, _ => rfl
  | .txt s :: r, p, h => by
    simp only [outW, contentText, List.map_append, posText_fst, outW_fst r _ (by simpa [verbOnly] using h)]
  | .verb d s :: r, p, h => by
    simp only [outW, contentText, List.map_append, posText_fst, outW_fst r _ (by simpa [verbOnly] using h)]
  | .bad d s :: r, p, h => by simp [verbOnly] at h

theorem posText_own : ∀ (s pre post : Str) (p : Nat), pre.length = p →
    ∀ cp ∈ posText p s, (pre ++ (s ++ post))[cp.2]? = some cp.1
  | [], _, _, _, _, _, h => by simp [posText] at h
  | c :: cs, pre, post, p, hp, cp, h => by
    simp only [posText, List.mem_cons] at h
    rcases h with rfl | h
    · simp [← hp]
    · have := posText_own cs (pre ++ [c]) post (p + 1) (by simp [hp]) cp h
      simpa using this

/-- every character of the expected output stands, in the source, at the position it is mapped to -/
theorem outW_own : ∀ (segs : List VSeg) (pre : Str) (p : Nat), pre.length = p →
    ∀ cp ∈ outW p segs, (pre ++ renderV segs)[cp.2]? = some cp.1
  | [], _, _, _, _, h => by simp [outW] at h
  | .txt s :: r, pre, p, hp, cp, h => by
    simp only [outW, List.mem_append] at h
    simp only [renderV, VSeg.render]
    rcases h with h | h
    · exact posText_own s pre (renderV r) p hp cp h
    · have := outW_own r (pre ++ s) (p + s.length) (by simp [hp]) cp h
      simpa using this
  | .verb d s :: r, pre, p, hp, cp, h => by
    simp only [outW, List.mem_append] at h
    simp only [renderV, VSeg.render]
    rcases h with h | h
    · have := posText_own s (pre ++ (sVerb ++ [d])) (d :: renderV r) (p + 6) (by simp [hp, sVerb]) cp h
      simpa using this
    · have := outW_own r (pre ++ (sVerb ++ d :: (s ++ [d]))) (p + (s.length + 7))
        (by simp [hp, sVerb]) cp h
      simpa using this
  | .bad d s :: r, pre, p, hp, cp, h => by
    simp only [outW] at h
    simp only [renderV, VSeg.render]
    have := outW_own r (pre ++ (sVerb ++ d :: s)) (p + (s.length + 6)) (by simp [hp, sVerb]) cp h
    simpa using this

/-- **(A) C02/C03 at `\verb`, end to end.**  The document consists of text segments and complete
    `\verb d s d` (`verbOnly`); the side conditions `vsegsOk` say: every text character is inert
    in its context (`chrOk`), every delimiter `d` is no letter and no `@` (otherwise the scanner
    reads the control word `\verbd…`) and no line break, the content `s` is ANY string without `d`
    and without line break, and no special sequence of the tables matches at the backslash;
    `vlinesOK`: no line consists only of white space and `\verb`s with blank content (such a line
    is deleted by the blank-line removal, examples below).  Then `tex2txt` succeeds and

    * the output text is the source with every `\verb d s d` replaced by `s`;
    * every output character (text and verbatim content alike) is mapped to its own source
      position (1-based): `r.pos` is `outW` + 1, and each `(c, q)` of `outW` satisfies `src[q] = c`;
    * nothing is reported as unknown and no diagnostic is added. -/
theorem tex2txt_verb_wellformed (T : PTables) (o : Options) (fs : FS) (thresh : Nat)
    (segs : List VSeg) (fuel : Nat) (st1 : PState)
    (hdefs : o.defs = []) (hextr : o.extr = []) (hrepl : o.hasRepl = false)
    (hunkn : o.unkn = false)
    (hinit : initParser T fuel o (initialState T o false fs) = .ok ((), st1))
    (hwf : verbOnly segs = true) (hok : vsegsOk T st1 segs = true) (hlines : vlinesOK segs = true)
    (hf : (renderV segs).length + 2 ≤ fuel) :
    ∃ r, tex2txt T fuel (renderV segs) o false thresh fs = .ok r ∧
      r.txt = contentText segs ∧
      r.txt = (outW 0 segs).map (·.1) ∧
      r.pos = (outW 0 segs).map (·.2 + 1) ∧
      (∀ cp ∈ outW 0 segs, (renderV segs)[cp.2]? = some cp.1) ∧
      r.unknowns = [] ∧ r.diags = st1.diags := by
  obtain ⟨r, h, h1, h2, h3, h4⟩ := tex2txt_verb_segs T o fs thresh segs fuel st1 hdefs hextr hrepl
    hunkn hinit hok hlines hf
  rw [outV_verbOnly _ _ _ _ hwf] at h1 h2
  rw [diagsV_verbOnly _ _ _ hwf, List.append_nil] at h4
  refine ⟨r, h, ?_, h1, h2, ?_, h3, h4⟩
  · rw [h1, outW_fst _ _ hwf]
  · intro cp hcp
    have := outW_own segs [] 0 rfl cp hcp
    simpa using this

/-! ### (B) an unterminated `\verb`: one diagnostic, the complete mark -/

theorem idxOf_eq_takeWhile (f : Char → Bool) : ∀ l : Str,
    idxOf f l = (l.takeWhile (fun c => !f c)).length
  | [] => rfl
  | c :: cs => by
    simp only [idxOf, List.takeWhile_cons]
    cases hf : f c <;> simp [idxOf_eq_takeWhile f cs]

/-- line and column (`lineOf`, `colOf` of the model = `lineCol` of Spec) of the offset behind `pre`:
    one more than the number of line breaks in `pre`; one more than the number of characters
    behind the last line break of `pre` -/
theorem lineCol_after (pre rest : Str) :
    lineOf (pre ++ rest) pre.length = countNl pre + 1 ∧
    colOf (pre ++ rest) pre.length = (afterLastNl pre).length + 1 := by
  have ht : (pre ++ rest).take pre.length = pre := by simp
  refine ⟨by simp [lineOf, ht], ?_⟩
  have hk : idxOf (· == nl) pre.reverse = (afterLastNl pre).length := by
    rw [idxOf_eq_takeWhile]
    simp [afterLastNl, bne]
  unfold colOf lineStart
  rw [ht]
  unfold rfindNl
  by_cases hn : hasNl pre = true
  · have hany : pre.reverse.any (· == nl) = true := by
      simp [hasNl] at hn; simpa using hn
    have hlt := idxOf_lt_of_any _ _ hany
    rw [List.length_reverse] at hlt
    simp only [hn, if_true]
    rw [← hk]
    omega
  · have hn' : hasNl pre = false := by simpa using hn
    have hall : ∀ c ∈ pre.reverse, (c == nl) = false := by
      intro c hc
      have hc' : c ∈ pre := by simpa using hc
      cases hb : c == nl with
      | false => rfl
      | true =>
        rw [beq_iff_eq] at hb; subst hb
        simp [hasNl] at hn'
        exact absurd hc' hn'
    have := idxOf_all_false _ _ hall
    rw [List.length_reverse] at this
    simp only [hn', Bool.false_eq_true, if_false]
    rw [← hk, this]
    omega

/-- text in front of an unterminated `\verb` never ends a line that could be deleted -/
theorem lineA_chrs (r : List VAtom) : ∀ (s : Str) (σ : Option Bool), σ ≠ some true →
    ∃ σ', σ' ≠ some true ∧ lineA σ (s.map .chr ++ r) = lineA σ' r
  | [], σ, h => ⟨σ, h, rfl⟩
  | c :: cs, σ, h => by
    simp only [List.map_cons, List.cons_append, lineA]
    have hσ : (σ == some true) = false := by
      cases σ with
      | none => rfl
      | some a => cases a <;> simp_all
    rw [hσ]
    simp only [Bool.false_eq_true, if_false]
    split
    · exact lineA_chrs r cs (some false) (by simp)
    · split
      · exact lineA_chrs r cs σ h
      · exact lineA_chrs r cs none (by simp)

theorem vlinesOK_bad (pre : Str) (d : Char) (content : Str) :
    vlinesOK [.txt pre, .bad d content] = true := by
  obtain ⟨σ', _, e⟩ := lineA_chrs [.bad d content] pre (some false) (by simp)
  simp only [vlinesOK, linesOKA, atomsOf, List.flatMap_cons, List.flatMap_nil, VSeg.atoms,
    List.append_nil, e, lineA]
  rfl

/-- **(B) C08 at `\verb`, end to end.**  `src = pre ++ "\verb" ++ [d] ++ content`, where `pre` is
    inert text and `content` contains neither `d` nor a line break and runs to the end of the
    source (all side conditions: `vsegsOk T st1 [.txt pre, .bad d content]`, i.e. `chrOk` for
    the characters of `pre` and `badOk`).  Then `tex2txt` succeeds and

    * exactly one diagnostic is added, `latexErrorDiag errBadVerb pre.length src`: message
      "bad \verb argument", line = number of line breaks in `pre` + 1, column = number of
      characters behind the last line break of `pre` + 1 — the line / column of the backslash;
    * the output text is `pre` (unchanged, every character at its own position) followed by the
      complete mark `errMark T errBadVerb` (" " ++ `T.mark` ++ " ", plus the message in verbose mode);
    * the first `mx = min |mark| (|content| + 6)` characters of the mark are mapped to the position
      of the backslash (1-based: `pre.length + 1`); if the mark is longer than `\verb d content`,
      the other characters are mapped to the last position of the source (`utils.latex_error`);
    * `content` is dropped; nothing is reported as unknown. -/
theorem tex2txt_verb_unterminated (T : PTables) (o : Options) (fs : FS) (thresh : Nat)
    (pre : Str) (d : Char) (content : Str) (fuel : Nat) (st1 : PState)
    (hdefs : o.defs = []) (hextr : o.extr = []) (hrepl : o.hasRepl = false)
    (hunkn : o.unkn = false)
    (hinit : initParser T fuel o (initialState T o false fs) = .ok ((), st1))
    (hok : vsegsOk T st1 [.txt pre, .bad d content] = true)
    (hf : (pre ++ (sVerb ++ d :: content)).length + 2 ≤ fuel) :
    ∃ r, tex2txt T fuel (pre ++ (sVerb ++ d :: content)) o false thresh fs = .ok r ∧
      r.txt = pre ++ errMark T.toTables errBadVerb ∧
      r.pos = List.range' 1 pre.length
        ++ List.replicate (min (errMark T.toTables errBadVerb).length (content.length + 6)) (pre.length + 1)
        ++ List.replicate ((errMark T.toTables errBadVerb).length
              - min (errMark T.toTables errBadVerb).length (content.length + 6))
            (pre.length + min (errMark T.toTables errBadVerb).length (content.length + 6)) ∧
      r.unknowns = [] ∧
      r.diags = st1.diags ++ [latexErrorDiag errBadVerb pre.length (pre ++ (sVerb ++ d :: content))] ∧
      (latexErrorDiag errBadVerb pre.length (pre ++ (sVerb ++ d :: content))).msg = errBadVerb ∧
      (latexErrorDiag errBadVerb pre.length (pre ++ (sVerb ++ d :: content))).line = countNl pre + 1 ∧
      (latexErrorDiag errBadVerb pre.length (pre ++ (sVerb ++ d :: content))).col
        = (afterLastNl pre).length + 1 := by
  have hsrc : renderV [.txt pre, .bad d content] = pre ++ (sVerb ++ d :: content) := by
    simp [renderV, VSeg.render]
  obtain ⟨r, h, h1, h2, h3, h4⟩ := tex2txt_verb_segs T o fs thresh [.txt pre, .bad d content] fuel
    st1 hdefs hextr hrepl hunkn hinit hok (vlinesOK_bad pre d content) (by rw [hsrc]; exact hf)
  rw [hsrc] at h h1 h2 h4
  have hn : (pre ++ (sVerb ++ d :: content)).length - (0 + pre.length) = content.length + 6 := by
    simp [sVerb]
  have hmx : min (errMark T.toTables errBadVerb).length (content.length + 6)
      ≤ (errMark T.toTables errBadVerb).length := Nat.min_le_left _ _
  have hl2 := errMark_length_pos T.toTables errBadVerb
  obtain ⟨hl, hc⟩ := lineCol_after pre (sVerb ++ d :: content)
  refine ⟨r, h, ?_, ?_, h3, ?_, rfl, hl, hc⟩
  · rw [h1]
    simp only [outV, markOut, hn, List.map_append, posText_fst, List.map_map, List.append_nil]
    simp [Function.comp_def]
  · rw [h2]
    simp only [outV, markOut, hn, List.map_append, List.map_map, List.append_nil]
    have e1 : (posText 0 pre).map (fun x => x.2 + 1) = List.range' 1 pre.length := by
      have e0 : (posText 0 pre).map (fun x => x.2 + 1) = ((posText 0 pre).map (·.2)).map (· + 1) := by
        simp [List.map_map, Function.comp_def]
      rw [e0, posText_snd 0 pre]
      simp [List.range'_eq_map_range, Nat.add_comm]
    rw [e1]
    have hmx2 : 2 ≤ min (errMark T.toTables errBadVerb).length (content.length + 6) := by omega
    generalize min (errMark T.toTables errBadVerb).length (content.length + 6) = mx at hmx hmx2
    simp [Function.comp_def, List.map_const', Nat.min_eq_left hmx, List.append_assoc]
    omega
  · rw [h4]; simp [diagsV]

/-! ### simpler sufficient conditions

  `vsegsOk` is context dependent; the following per-character / per-segment conditions imply it. -/

/-- no special sequence of the tables is empty, a lone backslash, or starts with `\v` (true for the
    tables of the repository); then none matches at the backslash of a `\verb` -/
def verbSpecialFree (T : Tables) : Bool :=
  T.specialSorted.all (fun t => match t with
    | [] => false
    | [c] => c != '\\'
    | c :: e :: _ => !(c == '\\' && e == 'v'))

theorem matchSpecial_sVerb_none (T : Tables) (h : verbSpecialFree T = true) (X : Str) :
    matchSpecial T (sVerb ++ X) = none := by
  unfold matchSpecial
  rw [List.find?_eq_none]
  intro t ht
  have := (List.all_eq_true.mp h) t ht
  match t, this with
  | [c], h1 =>
    have : c ≠ '\\' := by simpa using h1
    simp [startsWith, sVerb, Ne.symm this]
  | c :: e :: ds, h1 =>
    simp only [Bool.not_eq_true', Bool.and_eq_false_iff, beq_eq_false_iff_ne] at h1
    rcases h1 with h1 | h1
    · simp [startsWith, sVerb, Ne.symm h1]
    · simp [startsWith, sVerb, Ne.symm h1]

/-- text segments of inert characters (`inertChar` of Proofs/Plain.lean); delimiters that are no
    letters (and no line break for a complete `\verb`); contents without delimiter and line break;
    an unterminated `\verb` is followed by a line break or the end of the source, the mark is
    visible and free of line breaks, and the blank is no active character -/
def vsegSimple (T : PTables) (st : PState) : List VSeg → Bool
  | [] => true
  | .txt s :: r => s.all (inertChar T st) && vsegSimple T st r
  | .verb d s :: r =>
    !macroChar d && d != nl && s.all (fun c => c != d && c != nl) && vsegSimple T st r
  | .bad d s :: r =>
    !macroChar d && s.all (fun c => c != d && c != nl) && (renderV r).head?.all (· == nl) &&
    markOk T.toTables && !(activeChars T st).contains [' '] && vsegSimple T st r

theorem chrOk_of_inertChar (T : PTables) (st : PState) (c : Char) (r : List VAtom)
    (h : inertChar T st c = true) : chrOk T st c r = true := by
  unfold inertChar at h
  unfold chrOk
  simp only [Bool.and_eq_true, Bool.or_eq_true] at h ⊢
  refine ⟨Or.inl h.1, ?_⟩
  rcases h.2 with hs | ⟨h1, h2⟩
  · exact Or.inl hs
  · exact Or.inr ⟨h1, by rw [matchSpecial_none_of_startsNoSpecial _ _ _ h2]; rfl⟩

theorem atomsOk_chrs (T : PTables) (st : PState) (R : List VAtom) (hR : atomsOk T st R = true) :
    ∀ s : Str, s.all (inertChar T st) = true → atomsOk T st (s.map .chr ++ R) = true
  | [], _ => hR
  | c :: cs, h => by
    simp only [List.all_cons, Bool.and_eq_true] at h
    simp only [List.map_cons, List.cons_append, atomsOk, Bool.and_eq_true]
    exact ⟨chrOk_of_inertChar T st c _ h.1, atomsOk_chrs T st R hR cs h.2⟩

theorem head_atoms : ∀ atoms : List VAtom, (renderA atoms).head?.all (· == nl) = true →
    (match atoms with | [] => true | .chr c :: _ => c == nl | _ => false) = true
  | [], _ => rfl
  | .chr c :: r, h => by simpa [renderA_chr] using h
  | .verb d s :: r, h => by
    rw [renderA_verb] at h
    exact absurd h (by simp [sVerb]; decide)
  | .bad d s :: r, h => by
    rw [renderA_bad] at h
    exact absurd h (by simp [sVerb]; decide)

theorem vsegsOk_of_simple (T : PTables) (st : PState) (hs : verbSpecialFree T.toTables = true) :
    ∀ segs : List VSeg, vsegSimple T st segs = true → vsegsOk T st segs = true
  | [], _ => rfl
  | .txt s :: r, h => by
    simp only [vsegSimple, Bool.and_eq_true] at h
    have ih := vsegsOk_of_simple T st hs r h.2
    simp only [vsegsOk, atomsOf] at ih ⊢
    simp only [List.flatMap_cons, VSeg.atoms]
    exact atomsOk_chrs T st _ ih s h.1
  | .verb d s :: r, h => by
    simp only [vsegSimple, Bool.and_eq_true] at h
    obtain ⟨⟨⟨h1, h2⟩, h3⟩, h4⟩ := h
    have ih := vsegsOk_of_simple T st hs r h4
    simp only [vsegsOk, atomsOf] at ih ⊢
    simp only [List.flatMap_cons, VSeg.atoms, List.singleton_append, atomsOk, verbOk,
      Bool.and_eq_true]
    exact ⟨⟨⟨⟨h1, h2⟩, h3⟩, by rw [matchSpecial_sVerb_none _ hs]; rfl⟩, ih⟩
  | .bad d s :: r, h => by
    simp only [vsegSimple, Bool.and_eq_true] at h
    obtain ⟨⟨⟨⟨⟨h1, h2⟩, h3⟩, h4⟩, h5⟩, h6⟩ := h
    have ih := vsegsOk_of_simple T st hs r h6
    have h3' := head_atoms (atomsOf r) (by rw [renderA_atomsOf]; exact h3)
    simp only [vsegsOk, atomsOf] at ih h3' ⊢
    simp only [List.flatMap_cons, VSeg.atoms, List.singleton_append, atomsOk, badOk,
      Bool.and_eq_true]
    exact ⟨⟨⟨⟨⟨⟨h1, h2⟩, h3'⟩, by rw [matchSpecial_sVerb_none _ hs]; rfl⟩, h4⟩, h5⟩, ih⟩

/-- a sufficient condition for `vlinesOK`: no content of a `\verb` is blank -/
def contentsVisible : List VSeg → Bool
  | [] => true
  | .verb _ s :: r => !isBlank s && contentsVisible r
  | _ :: r => contentsVisible r

theorem lineA_visible : ∀ (segs : List VSeg) (σ : Option Bool), contentsVisible segs = true →
    σ ≠ some true → ∃ σ', σ' ≠ some true ∧ lineA σ (atomsOf segs) = some σ'
  | [], σ, _, h => ⟨σ, h, rfl⟩
  | .txt s :: r, σ, hv, h => by
    obtain ⟨σ1, h1, e1⟩ := lineA_chrs (atomsOf r) s σ h
    obtain ⟨σ2, h2, e2⟩ := lineA_visible r σ1 (by simpa [contentsVisible] using hv) h1
    refine ⟨σ2, h2, ?_⟩
    simp only [atomsOf, List.flatMap_cons, VSeg.atoms] at e1 e2 ⊢
    rw [e1, e2]
  | .verb d s :: r, σ, hv, _ => by
    simp only [contentsVisible, Bool.and_eq_true, Bool.not_eq_true'] at hv
    obtain ⟨σ2, h2, e2⟩ := lineA_visible r none hv.2 (by simp)
    refine ⟨σ2, h2, ?_⟩
    simp only [atomsOf, List.flatMap_cons, VSeg.atoms, List.singleton_append, lineA, hv.1] at e2 ⊢
    exact e2
  | .bad d s :: r, σ, hv, _ => by
    obtain ⟨σ2, h2, e2⟩ := lineA_visible r none (by simpa [contentsVisible] using hv) (by simp)
    refine ⟨σ2, h2, ?_⟩
    simp only [atomsOf, List.flatMap_cons, VSeg.atoms, List.singleton_append, lineA] at e2 ⊢
    exact e2

theorem vlinesOK_of_visible (segs : List VSeg) (h : contentsVisible segs = true) :
    vlinesOK segs = true := by
  obtain ⟨σ', h1, e⟩ := lineA_visible segs (some false) h (by simp)
  simp only [vlinesOK, linesOKA, e]
  simpa using h1

/-! ### the hypotheses can be met -/

namespace VerbExample
open PlainExample

theorem initParser_tinyV : initParser tinyT 40 oEn (initialState tinyT oEn false []) = .ok ((), stEn) := by
  with_unfolding_all rfl

/-- `"Use \verb|a$b{| here."` -/
def segsA : List VSeg := [.txt "Use ".toList, .verb '|' "a$b{".toList, .txt " here.".toList]

example : renderV segsA = "Use \\verb|a$b{| here.".toList := by decide
theorem segsA_ok : vsegsOk tinyT stEn segsA = true := by decide
theorem segsA_lines : vlinesOK segsA = true := by decide
example : vsegSimple tinyT stEn segsA = true ∧ verbSpecialFree tinyT.toTables = true ∧
    contentsVisible segsA = true := by decide

/-- (A) on the example: the content `a$b{` is copied, the characters keep their positions (1-based:
    `a` is the 11th character of the source), `\verb` and the delimiters (positions 5–10, 15) vanish -/
example : ∃ r, tex2txt tinyT 40 "Use \\verb|a$b{| here.".toList oEn false 0 [] = .ok r ∧
    r.txt = "Use a$b{ here.".toList ∧
    r.pos = [1, 2, 3, 4, 11, 12, 13, 14, 16, 17, 18, 19, 20, 21] ∧
    r.unknowns = [] ∧ r.diags = [] := by
  obtain ⟨r, h, h1, _, h3, _, h5, h6⟩ := tex2txt_verb_wellformed tinyT oEn [] 0 segsA 40 stEn
    rfl rfl rfl rfl initParser_tinyV (by decide) segsA_ok segsA_lines (by decide)
  exact ⟨r, h, by rw [h1]; decide, by rw [h3]; decide, h5, h6⟩

/-- `"Bad \verb|abc"` -/
theorem bad_ok : vsegsOk tinyT stEn [.txt "Bad ".toList, .bad '|' "abc".toList] = true := by decide

/-- (B) on the example: one diagnostic at line 1, column 5; the text in front is unchanged; the
    complete mark `" LTERROR "` (9 characters = the length of `\verb|abc`) stands at position 5 -/
example : ∃ r, tex2txt tinyT 40 "Bad \\verb|abc".toList oEn false 0 [] = .ok r ∧
    r.txt = "Bad  LTERROR ".toList ∧
    r.pos = [1, 2, 3, 4, 5, 5, 5, 5, 5, 5, 5, 5, 5] ∧
    r.unknowns = [] ∧
    r.diags = [{ line := 1, col := 5, msg := "bad \\verb argument".toList }] := by
  obtain ⟨r, h, h1, h2, h3, h4, _⟩ := tex2txt_verb_unterminated tinyT oEn [] 0 "Bad ".toList '|'
    "abc".toList 40 stEn rfl rfl rfl rfl initParser_tinyV bad_ok (by decide)
  exact ⟨r, h, by rw [h1]; decide, by rw [h2]; decide, h3, by rw [h4]; decide⟩

/-- a mark that is longer than the rest of the source is split: the first 7 characters (the length
    of `\verb|a`) are mapped to the backslash, the others to the last character of the source -/
example : ∃ r, tex2txt tinyT 40 "Bad \\verb|a".toList oEn false 0 [] = .ok r ∧
    r.txt = "Bad  LTERROR ".toList ∧ r.pos = [1, 2, 3, 4, 5, 5, 5, 5, 5, 5, 5, 11, 11] := by
  obtain ⟨r, h, h1, h2, _⟩ := tex2txt_verb_unterminated tinyT oEn [] 0 "Bad ".toList '|'
    "a".toList 40 stEn rfl rfl rfl rfl initParser_tinyV (by decide) (by decide)
  exact ⟨r, h, by rw [h1]; decide, by rw [h2]; decide⟩

/-- the general statement: two unterminated `\verb`s, each at the end of its line, a complete one
    in between — two diagnostics, in order, with line and column -/
def segsC : List VSeg :=
  [.txt "Bad ".toList, .bad '|' "abc".toList, .txt "\nok ".toList, .verb '+' "x|y".toList,
   .txt " next ".toList, .bad '+' "x".toList]

example : ∃ r, tex2txt tinyT 60 (renderV segsC) oEn false 0 [] = .ok r ∧
    r.txt = "Bad  LTERROR \nok x|y next  LTERROR ".toList ∧
    r.diags = [{ line := 1, col := 5, msg := errBadVerb }, { line := 2, col := 20, msg := errBadVerb }] := by
  obtain ⟨r, h, h1, _, _, h4⟩ := tex2txt_verb_segs tinyT oEn [] 0 segsC 60 stEn rfl rfl rfl rfl
    (by with_unfolding_all rfl) (by decide) (by decide) (by decide)
  exact ⟨r, h, by rw [h1]; decide, by rw [h4]; decide⟩

/-- the side conditions reject what they should:
    a letter as delimiter (`\verbxax` is the control word `\verbxax`), a line break as delimiter of
    a complete `\verb`, a delimiter or a line break in the content, text behind an unterminated
    `\verb` on the same line; `--` in front of `\verb` (a special sequence);
    an active character of the language settings (`"` for 'de') in front of a `\verb` whose
    content completes a short macro: `"\verb|a|` yields `ä` in the model -/
example : vsegsOk tinyT stEn [.verb 'x' "a".toList] = false := by decide
example : vsegsOk tinyT stEn [.verb '\n' "a".toList] = false := by decide
example : vsegsOk tinyT stEn [.verb '|' "a|b".toList] = false := by decide
example : vsegsOk tinyT stEn [.verb '|' "a\nb".toList] = false := by decide
example : vsegsOk tinyT stEn [.bad '|' "a".toList, .txt " b".toList] = false := by decide
example : vsegsOk tinyT stEn [.bad '|' "a".toList, .txt "\n b".toList] = true := by decide
example : vsegsOk tinyT stEn [.txt "--".toList, .verb '|' "a".toList] = false := by decide
example : vsegsOk tinyT stEn [.txt "-".toList, .verb '|' "-".toList] = true := by decide
example : vsegsOk tinyT stDe [.txt "\"".toList, .verb '|' "a".toList] = false := by decide
example : vsegsOk tinyT stDe [.txt "\"".toList, .verb '|' "b".toList] = true := by decide
example : vsegsOk tinyT stEn [.verb '*' "a".toList, .verb ' ' "b".toList, .verb '+' "%#{ $$ \\begin\\".toList] = true := by
  decide

/-- `vlinesOK` is needed: a line that holds only white space and `\verb`s with blank content is
    deleted by the blank-line removal (the Action token of the `\verb` makes it a "pure action line") -/
example : vlinesOK [.txt "x\n ".toList, .verb '|' " ".toList, .txt " \ny".toList] = false := by decide
example : vlinesOK [.txt "x\n ".toList, .verb '|' [], .txt " \ny".toList] = false := by decide
example : vlinesOK [.txt "x\n ".toList, .verb '|' [], .txt "a \ny".toList] = true := by decide
example : vlinesOK [.txt "x\n ".toList, .verb '|' "a".toList, .txt " \ny".toList] = true := by decide

/-
  Recorded `#eval`s.

  * tiny tables (`tinyT`, mark `LTERROR`):
      `tex2txt tinyT 40 "Use \verb|a$b{| here." oEn false 0 []` : text `"Use a$b{ here."`,
        positions `[1,2,3,4,11,12,13,14,16,17,18,19,20,21]`, no unknowns, no diagnostics;
      `tex2txt tinyT 40 "Bad \verb|abc" oEn false 0 []` : text `"Bad  LTERROR "`,
        positions `[1,2,3,4,5,5,5,5,5,5,5,5,5]`, diagnostic `(line 1, col 5, "bad \verb argument")`.
  * real tables (`import YalafiVerif.Generated.Tables`, `T := Generated.theTables`,
    `o := { lang := "en".toList }`, `st1` = the state after `initParser T 2000 o`, mark
    `LATEXXXERROR`): for each of the following documents `vsegsOk T st1`, `vlinesOK` are `true`
    and text, positions (`outV` + 1) and diagnostics (`st1.diags ++ diagsV`) of
    `tex2txt T 2000 (renderV segs) o false 0 []` agree with the statement:
      "Use \verb|a$b{| here."  ↦ "Use a$b{ here.", positions as above;
      "Bad \verb|abc"  ↦ "Bad  LATEXXXERROR ", positions `[1,2,3,4] ++ [5]*9 ++ [13]*5`, one diagnostic (1, 5);
      "Bad \verb|abc\nnext \verb+x"  ↦ "Bad  LATEXXXERROR \nnext  LATEXXXERROR ", two diagnostics;
      "x\n \verb||a \ny" ↦ "x\n a \ny";   "-\verb|b|-" ↦ "-b-";   "a\n\n\verb|b|\n\n\n c" unchanged but for the `\verb`;
      "\verb\na" (line break as delimiter, unterminated) ↦ the mark;   "\verb|" ↦ the mark.
    `vlinesOK` is sharp on the examples tried: "x\n \verb| | \ny" and "x\n \verb|| \ny" (in the
    class, not `vlinesOK`) yield "x\ny" — the line is deleted, the blank content with it.
    Rejected by `vsegsOk` (and the output differs from `outV`): "\verbxax" (unknown macro
    `\verbxax`, empty output); `[.bad '|' "a", .txt " b"]` (the content of an unterminated `\verb`
    runs to the end of the line: the document is `[.bad '|' "a b"]`); "--\verb|b|" ↦ "–b";
    with 'de': "\"\verb|a|" ↦ "ä" (the short macro `"a` fires on the verbatim token), while
    "\"\verb|b|" ↦ "\"b" is in the class.
  * the fuel bound `src.length + 2` is the one of `tex2txt_plain_text`; a `\verb` token costs one
    iteration of `expandSequence`, an unterminated `\verb` at most two tokens for at least six
    characters.
-/

end VerbExample

end Yalafi
