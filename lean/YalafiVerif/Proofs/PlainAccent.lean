/-
  Proofs/PlainAccent.lean — C02, second sentence ("a replaced sequence maps to the first character
  of the sequence it replaces"), end to end on the model, for the two kinds of replaced sequences
  that Proofs/PlainSpecial.lean does not cover: ACCENT MACROS and SHORT MACROS (the German
  `"`-shorthands).  Documents consist of inert text (as in Proofs/PlainUnknown.lean), accent calls
  and shorthands.

  What the model does (found with `#eval`, then proved)
  * ACCENTS (`Parser.expand_accent`, `expandAccent`).  The scanner turns `\acc` into ONE accent
    token iff `\acc` is a key of `accent_macros` (`T.accents`): either a control word (`\c`, `\v`,
    `\H`, … — ASCII letters, not continued by a letter) or a backslash with one other character
    (`\"`, `\'`, `\^`, …).  `expand_accent` takes one argument with `arg_buffer`: white space behind
    the accent token is skipped (`\c c`, `\" o`, also ONE line break), then either a group `{l}` or
    the next token — the scanner makes one text token of every character, so `\"ab` takes `a`.  The
    argument is expanded (`expand_sequence`: the letter token comes back), its first character `l`
    must be an ASCII letter, the name `LATIN SMALL/CAPITAL LETTER L WITH <first name part of the
    accent>` is looked up (`unicodedata.lookup`, translated to `T.unicodeNames`) and ONE text token
    with the result is APPENDED TO THE OUTPUT (it is not pushed back, so it is not scanned or
    expanded again), position = position of the backslash; the token is position-counting
    (`pos_fix` of the accent token, i.e. `false`) if the value is one character and PINNED
    (`pos_fix = True`) if it has more.  No Action token is left, nothing behind the call is
    skipped (`\"{a} b` keeps its blank), the state is unchanged.
    NB: for seven names of the real tables (`\~{l}`, `\~{m}`, `\~{r}`, `\~{J}`, `\~{L}`, `\~{M}`,
    `\~{R}`) `unicodedata.lookup` returns a NAMED SEQUENCE of two code points (letter + combining
    tilde).  Before the repair `pos_fix=tok.pos_fix or len(u) > 1` the second one was mapped to the
    character BEHIND the backslash (a defect found with this development); now EVERY character of
    the value is mapped to the backslash (`tokChars_resTok`).
  * SHORT MACROS (`Parser.expand_short_macro`, `expandShortMacro`).  A text token whose text is an
    "active character" of the current language settings (German: `"`) is joined with the text of
    the NEXT TOKEN; if that string is a key of `short_macros`, both tokens are replaced by one text
    token with the value (possibly empty: `"-`), all characters mapped to the position of the
    active character (`pos_fix=True`); otherwise the active character stays as it is (this case
    is "inert text": `okAtX`).  The value is appended to the output, not expanded again.
    Since the next TOKEN counts, a double quote followed by TWO backquotes is NOT the shorthand
    (the scanner reads the special sequence of two backquotes first; the quote stays, the two
    backquotes become the English opening quote); likewise `"--`, `"''`: `shOk` asks that the
    second character is scanned as a one-character text token.
  * No Action token arises, so `remove_pure_action_lines` only drops text-less tokens
    (`removeLines_noaction_id`): no line is deleted, even if a line consists of `"-` only.

  Documents
    `Seg`, `render`     text | `.acc name ws br l ↦ \name ws {l}` or `\name ws l` | `.sh a c ↦ ac`
    `accentName`, `accentChar T acc l`   the table look-up of the accent code (`Option Str`)
    `shortVal T st k`   the table look-up of the short macros of the language settings in force
    `refOut T st p segs`  THE REFERENCE: characters with (0-based) positions — text with its own
                        positions, an accent call or a shorthand at `p` ↦ every character of
                        the table value at `p`
  Expander level
    `argBuffer_acc`, `expandAccent_letter`, `seq_acc_step`, `seq_sh_step`, `Piece`, `PiecesOk`,
    `outP`, `cost`, `seq_pieces`
  Source level
    `okAtX`, `accOk`, `shOk`, `segsOk`, `OkSrc`, `nextToken_acc`, `nextToken_char`, `nextToken_ws`,
    `ScanRun` (composition of scanner steps), `scanRun_acc`, `scanRun_sh`, `scanSteps_segs`,
    `scan_segs`, `parserWork_segs`, `parse_segs`, `tex2txt_src`, `tex2txt_replaced`
  Readings of the reference
    `refOut_txt`, `refOut_acc_single`, `refOut_sh`   the defining equations
    `noSh`, `refAcc`, `refOut_noSh`   documents without shorthands: a reference without parser state
    `spans`, `refOut_pos_first`       no output position lies inside a replaced sequence behind its
                                      first character

  The end-to-end statement `tex2txt_replaced`: `tex2txt` succeeds, `r.txt` / `r.pos` are the two
  components of `refOut T st1 0 segs` (positions + 1), `r.unknowns = []`, `r.diags = st1.diags`.

  Side conditions (all in `segsOk T st1 segs`, computable; `st1` = state after `Parser.__init__`)
    text (`okAtX`)      as `okAt` of Proofs/PlainUnknown.lean (white space, or none of `% # \ $ { }`
                        and no special sequence matches; if the character is active it forms no
                        short macro with the text of the next token), but with the exact text of
                        a following accent token (`firstTokTxtX`)
    accent calls (`accOk`)
      * the name: ASCII letters / `@` and the next character is none (`\c c`, `\c{c}`), or exactly one
        character that is no letter (`\"`); no special sequence of the tables matches at the
        backslash; `\name` is an accent macro and none of `\begin \end \item \verb \( \[` (the
        scanner and `expand_sequence` test these first; real tables: never);
      * `ws`: white space with at most one line break (two make a paragraph token: then the
        argument is void — not covered);
      * braced form: `{` and `}` are scanned as brace tokens; the letter is scanned as a
        one-character text token (no special sequence of the tables starts there);
      * `accentChar T \name l` is defined: `l` is an ASCII letter, the accent has a first name
        part, the Unicode name is in `T.unicodeNames`.
    shorthands (`shOk`) both characters are scanned as one-character text tokens (no white space,
                        none of `% # \ $ { }`, no special sequence matches there) and the pair is
                        a key of the short macros in force (keys of other lengths, or with a
                        second part that is a longer token, are not covered; real tables: none)
    options             no --defs, --extr, --repl, --unkn; single-language mode
    fuel                `(render segs).length + 2 ≤ fuel`

  NOT covered: accents on non-letters (error mark: C08); an argument `{…}` with more than one
  character or a macro (`\"{ab}` works in the model: the rest is copied — not stated);
  `\i`, `\j` (`\"{\i}`); an accent on a blank or an empty group (`\"{}`: the spacing character);
  nested accents; a comment or a paragraph break between the accent and its letter; accents and
  shorthands inside arguments of other macros or in formulas; multi-language mode (there the
  active characters change at a language switch).
-/
import YalafiVerif.Proofs.PlainVanish
namespace Yalafi
namespace PlainAccent

open M
open PlainMacro

/-! ### facts about ASCII letters -/

theorem letter_toNat {l : Char} (h : isAsciiLetter l = true) :
    (97 ≤ l.toNat ∧ l.toNat ≤ 122) ∨ (65 ≤ l.toNat ∧ l.toNat ≤ 90) := by
  simp only [isAsciiLetter, Bool.or_eq_true, Bool.and_eq_true, decide_eq_true_eq, Char.le_def,
    UInt32.le_iff_toNat_le] at h
  exact h

theorem letter_not_space {l : Char} (h : isAsciiLetter l = true) : isSpace l = false := by
  have := letter_toNat h
  simp only [isSpace, Bool.or_eq_false_iff, Bool.and_eq_false_iff, decide_eq_false_iff_not,
    beq_eq_false_iff_ne, ne_eq]
  omega

theorem letter_ne {l c : Char} (h : isAsciiLetter l = true) (hc : isAsciiLetter c = false) : l ≠ c := by
  intro e; subst e; rw [h] at hc; cases hc

theorem letter_not_structural {l : Char} (h : isAsciiLetter l = true) : structuralChar l = false := by
  simp only [structuralChar, Bool.or_eq_false_iff, beq_eq_false_iff_ne]
  refine ⟨⟨⟨⟨⟨?_, ?_⟩, ?_⟩, ?_⟩, ?_⟩, ?_⟩ <;> exact letter_ne h (by decide)

/-! ### the table look-ups -/

/-- the Unicode name `expand_accent` builds for the letter `l` and the first name part `n0` of
    the accent: `LATIN SMALL LETTER A WITH DIAERESIS` -/
def accentName (n0 : Str) (l : Char) : Str :=
  "LATIN ".toList ++ (if 'a' ≤ l && l ≤ 'z' then "SMALL".toList else "CAPITAL".toList)
    ++ " LETTER ".toList ++ [if 'a' ≤ l && l ≤ 'z' then Char.ofNat (l.toNat - 32) else l]
    ++ " WITH ".toList ++ n0

/-- **the character(s) of the accent macro `acc` (with backslash) on the letter `l`**: `l` is an
    ASCII letter, `acc` is a key of `accent_macros` with a first name part, and the Unicode name
    is known (`unicodedata.lookup`) -/
def accentChar (T : PTables) (acc : Str) (l : Char) : Option Str :=
  if !isAsciiLetter l then none else
  match T.accents.find? (·.1 == acc) with
  | none => none
  | some e =>
    match e.2.head? with
    | none => none
    | some n0 => (T.unicodeNames.find? (·.1 == accentName n0 l)).map (·.2)

/-- the value of the short macro `k` in the language settings in force -/
def shortVal (T : PTables) (st : PState) (k : Str) : Option Str :=
  ((((settingsOf T (curSettings st)).map (·.shortMacros)).getD []).find? (·.1 == k)).map (·.2)

theorem shortVal_congr (T : PTables) (st st' : PState) (h : st'.langStack = st.langStack) (k : Str) :
    shortVal T st' k = shortVal T st k := by
  simp only [shortVal, curSettings, h]

structure AccFacts (T : PTables) (acc : Str) (l : Char) (u : Str) : Prop where
  letter : isAsciiLetter l = true
  ex : ∃ e n0 x, T.accents.find? (·.1 == acc) = some e ∧ e.2.head? = some n0 ∧
        T.unicodeNames.find? (·.1 == accentName n0 l) = some x ∧ x.2 = u

theorem accFacts {T : PTables} {acc : Str} {l : Char} {u : Str} (h : accentChar T acc l = some u) :
    AccFacts T acc l u := by
  unfold accentChar at h
  by_cases hl : isAsciiLetter l = true
  · simp only [hl, Bool.not_true, Bool.false_eq_true, if_false] at h
    refine ⟨hl, ?_⟩
    split at h
    · cases h
    · rename_i e he
      split at h
      · cases h
      · rename_i n0 hn
        cases hx : T.unicodeNames.find? (·.1 == accentName n0 l) with
        | none => rw [hx] at h; cases h
        | some x =>
          rw [hx] at h
          exact ⟨e, n0, x, he, hn, hx, by simpa using h⟩
  · simp [hl] at h

/-! ### tokens -/

def letTok (p : Nat) (c : Char) : Tok := { kind := .text, pos := p, txt := [c] }
def accTok (p : Nat) (name : Str) : Tok := { kind := .accent, pos := p, txt := '\\' :: name }
/-- the text token `expand_accent` returns: pinned to the accent macro if the value has more
    than one character -/
def resTok (p : Nat) (u : Str) : Tok :=
  { kind := .text, pos := p, txt := u, fix := decide (1 < u.length) }
def spTok (p : Nat) (ws : Str) : Tok := { kind := .space, pos := p, txt := ws }

/-- the argument of an accent call: the letter, or `{`, the letter, `}` -/
def argT : Option (Nat × Nat) → Nat → Char → List Tok
  | none, q, l => [letTok q l]
  | some qq, q, l => [lbr qq.1, letTok q l, rbr qq.2]

theorem plainTok_letTok (p : Nat) (c : Char) (h : structuralChar c = false) : PlainTok (letTok p c) :=
  plainTok_of_head _ c [] rfl (Or.inl rfl) h

/-! ### `arg_buffer` and `expand_accent` -/

theorem skipSpace_append_space : ∀ (sp : List Tok) (X : Buf), (∀ t ∈ sp, isSpaceTok t = true) →
    skipSpace (sp ++ X) = skipSpace X
  | [], _, _ => rfl
  | t :: ts, X, h => by
    have h1 := h t (List.mem_cons_self ..)
    have := skipSpace_append_space ts X (fun x hx => h x (List.mem_cons_of_mem _ hx))
    simp only [skipSpace, List.cons_append, List.dropWhile_cons, h1, if_true] at this ⊢
    exact this

theorem argBufferPure_skip (mark : Str) (sp : List Tok) (X : Buf) (start : Nat) (eb : Bool)
    (h : ∀ t ∈ sp, isSpaceTok t = true) :
    argBufferPure mark (sp ++ X) start eb = argBufferPure mark X start eb := by
  unfold argBufferPure
  rw [skipSpace_append_space sp X h]

/-- `arg_buffer` behind an accent token: white space is skipped, the argument is the letter token -/
theorem argBuffer_acc (T : Tables) (sp : List Tok) (hsp : ∀ t ∈ sp, isSpaceTok t = true)
    (br : Option (Nat × Nat)) (q : Nat) (l : Char) (hl1 : l ≠ '{') (hl2 : l ≠ '}') (rest : Buf)
    (start : Nat) (st : PState) :
    argBuffer T (sp ++ (argT br q l ++ rest)) start true st = .ok (([letTok q l], rest), st) := by
  have hp : argBufferPure T.mark (sp ++ (argT br q l ++ rest)) start true
      = { arg := [letTok q l], buf := rest } := by
    rw [argBufferPure_skip _ _ _ _ _ hsp]
    cases br with
    | none =>
      unfold argBufferPure
      simp only [argT, List.singleton_append]
      rw [skipSpace_cons_of_not _ _ (by rfl)]
      have h1 : ((letTok q l).kind == Kind.par) = false := by rfl
      have h2 : txtIsNV (letTok q l) "{" = false := by simp [txtIsNV, letTok, isVerb, hl1]
      simp only [h1, h2, Bool.false_eq_true, if_false, Bool.not_false, Bool.and_self, if_true]
    | some qq =>
      have := argBufferPure_brace T.mark qq.1 qq.2 [letTok q l] rest start (by
        intro t ht
        simp only [List.mem_singleton] at ht
        subst ht
        exact ⟨by simp [txtIsNV, letTok, isVerb, hl1], by simp [txtIsNV, letTok, isVerb, hl2]⟩) (by simp)
      simpa [argT] using this
  unfold argBuffer
  rw [hp]
  rfl

/-- **`expand_accent` on a letter**: one position-counting text token with the character(s) of
    the table at the position of the accent token; the buffer behind the argument; the state is
    unchanged -/
theorem expandAccent_letter (T : PTables) (fuel : Nat) (sp : List Tok)
    (hsp : ∀ t ∈ sp, isSpaceTok t = true) (br : Option (Nat × Nat)) (q : Nat) (l : Char)
    (rest : Buf) (tok : Tok) (u : Str) (st : PState)
    (hu : accentChar T tok.txt l = some u) :
    expandAccent T (fuel + 3) (sp ++ (argT br q l ++ rest)) tok st
      = .ok (([{ kind := .text, pos := tok.pos, txt := u,
                 fix := tok.fix || decide (1 < u.length) }], rest), st) := by
  obtain ⟨hl, e, n0, x, he, hn, hx, hxu⟩ := accFacts hu
  have hns := letter_not_structural hl
  have hsp' := letter_not_space hl
  have hseq : expandSequence T (fuel + 2) [letTok q l] none [] st = .ok (([letTok q l], []), st) :=
    seq_plain_id T st none [letTok q l] (fuel + 2) (by simp)
      ⟨plainTok_letTok q l hns, Or.inr (by simp [expandShortMacro]), trivial⟩
      (by intro t ht; simp only [List.mem_singleton] at ht; subst ht; simp [letTok])
  rw [expandAccent.eq_2]
  refine (M.bind_ok _ _ _ _ _ (argBuffer_acc T.toTables sp hsp br q l
    (letter_ne hl (by decide)) (letter_ne hl (by decide)) rest tok.pos st)).trans ?_
  refine (M.bind_ok _ _ _ _ _ hseq).trans ?_
  simp only [he, Option.map_some, letTok, hsp', Bool.false_eq_true, if_false, hl, Bool.not_true, hn]
  have hnm : "LATIN ".toList ++ (if (decide ('a' ≤ l) && decide (l ≤ 'z')) = true then "SMALL".toList
        else "CAPITAL".toList) ++ " LETTER ".toList
        ++ [if (decide ('a' ≤ l) && decide (l ≤ 'z')) = true then Char.ofNat (l.toNat - 32) else l]
        ++ " WITH ".toList ++ n0 = accentName n0 l := rfl
  rw [hnm, hx]
  simp only [hxu]
  rfl

/-! ### steps of `expandSequence` -/

/-- the name of an accent macro that `expand_sequence` hands to `expand_accent` -/
structure AccName (name : Str) : Prop where
  n1 : ('\\' :: name) ≠ "\\(".toList
  n2 : ('\\' :: name) ≠ "\\[".toList

/-- **the accent step**: the accent token, the white space and the argument are replaced by one
    text token in the output.  Three units of fuel must remain behind the step. -/
theorem seq_acc_step (T : PTables) (fuel : Nat) (p : Nat) (name : Str) (sp : List Tok)
    (hsp : ∀ t ∈ sp, isSpaceTok t = true) (br : Option (Nat × Nat)) (q : Nat) (l : Char)
    (rest : Buf) (envStop : Option Str) (out : List Tok) (u : Str) (st : PState)
    (hn : AccName name) (hu : accentChar T ('\\' :: name) l = some u) :
    expandSequence T (fuel + 4) (accTok p name :: (sp ++ (argT br q l ++ rest))) envStop out st
      = expandSequence T (fuel + 3) rest envStop (out ++ [resTok p u]) st := by
  rw [expandSequence.eq_3]
  show M.bind' M.get _ st = _
  simp only [M.bind', M.get]
  have hk : (accTok p name).kind = .accent := rfl
  have t1 : txtIs (accTok p name) "$" = false := by simp [txtIs, accTok]
  have t2 : txtIs (accTok p name) "\\(" = false := by
    simpa [txtIs, accTok] using hn.n1
  have t3 : txtIs (accTok p name) "$$" = false := by simp [txtIs, accTok]
  have t4 : txtIs (accTok p name) "\\[" = false := by
    simpa [txtIs, accTok] using hn.n2
  simp only [hk, t1, t2, t3, t4, Bool.or_self, Bool.false_eq_true, if_false, if_true, reduceCtorEq,
    beq_iff_eq, beq_self_eq_true]
  refine (M.bind_ok _ _ _ _ _ (expandAccent_letter T fuel sp hsp br q l rest (accTok p name) u st
    hu)).trans ?_
  rfl

/-- **the shorthand step**: the active character and the next token are replaced by one text
    token with the value of the table, all characters at the position of the active character -/
theorem seq_sh_step (T : PTables) (fuel : Nat) (p : Nat) (a : Char) (cur : Tok) (rest : Buf)
    (envStop : Option Str) (out : List Tok) (v : Str) (st : PState)
    (ha : structuralChar a = false) (hv : shortVal T st (a :: cur.txt) = some v) :
    expandSequence T (fuel + 1) (letTok p a :: cur :: rest) envStop out st
      = expandSequence T fuel rest envStop (out ++ [mkFix .text p v]) st := by
  obtain ⟨hk, n1, n2, n3, n4, n5, n6, n7⟩ := plainTok_letTok p a ha
  unfold shortVal at hv
  cases hf : (((settingsOf T (curSettings st)).map (·.shortMacros)).getD []).find?
      (·.1 == a :: cur.txt) with
  | none => rw [hf] at hv; cases hv
  | some e =>
    rw [hf] at hv
    have hev : e.2 = v := by simpa using hv
    have hmem := List.mem_of_find?_eq_some hf
    have hkey : e.1 = a :: cur.txt := by simpa using List.find?_some hf
    have hact : (activeChars T st).contains (letTok p a).txt = true := by
      rw [List.contains_iff_mem]
      unfold activeChars
      exact List.mem_map.mpr ⟨e, hmem, by simp [hkey, letTok]⟩
    have hex : expandShortMacro T st (letTok p a) (cur :: rest) = (mkFix .text p v, rest) := by
      have : (letTok p a).txt ++ cur.txt = a :: cur.txt := rfl
      simp only [expandShortMacro, this, hf, hev]
      rfl
    rw [expandSequence.eq_3]
    show M.bind' M.get _ st = _
    simp only [M.bind', M.get]
    have hk' : (letTok p a).kind = .text := rfl
    simp only [hk', n1, n2, n3, n4, n5, n6, n7, hact, hex, Bool.or_self, Bool.false_eq_true, if_false,
      if_true, reduceCtorEq, beq_iff_eq]

/-! ### the token buffers -/

/-- the pieces of a token buffer: a token that is copied, an accent call, a shorthand -/
inductive Piece where
  | tok (t : Tok)
  | acc (p : Nat) (name : Str) (sp : List Tok) (br : Option (Nat × Nat)) (q : Nat) (l : Char)
  | sh (p : Nat) (a : Char) (cur : Tok)

def Piece.toks : Piece → List Tok
  | .tok t => [t]
  | .acc p name sp br q l => accTok p name :: (sp ++ argT br q l)
  | .sh p a cur => [letTok p a, cur]

/-- the token buffer -/
def flat : List Piece → List Tok
  | [] => []
  | p :: ps => p.toks ++ flat ps

/-- the value of an accent call (empty if the look-up fails: excluded by the side conditions) -/
def accVal (T : PTables) (name : Str) (l : Char) : Str := (accentChar T ('\\' :: name) l).getD []
/-- the value of a shorthand -/
def shVal (T : PTables) (st : PState) (k : Str) : Str := (shortVal T st k).getD []

def PiecesOk (T : PTables) (st : PState) : List Piece → Prop
  | [] => True
  | .tok t :: rest => PlainTok t ∧ PassTok T st t (flat rest) ∧ PiecesOk T st rest
  | .acc _ name sp _ _ l :: rest =>
    AccName name ∧ (∀ t ∈ sp, t.kind = .space) ∧ (accentChar T ('\\' :: name) l).isSome = true ∧
      PiecesOk T st rest
  | .sh _ a cur :: rest =>
    structuralChar a = false ∧ cur.kind = .text ∧ (shortVal T st (a :: cur.txt)).isSome = true ∧
      PiecesOk T st rest

/-- what `expandSequence` emits for the pieces before `remove_pure_action_lines` -/
def outP (T : PTables) (st : PState) : List Piece → List Tok
  | [] => []
  | .tok t :: rest => t :: outP T st rest
  | .acc p name _ _ _ l :: rest => resTok p (accVal T name l) :: outP T st rest
  | .sh p a cur :: rest => mkFix .text p (shVal T st (a :: cur.txt)) :: outP T st rest

/-- iterations of `expandSequence` (an accent call: one, but it needs three more for the nested
    calls; it has at least three source characters) -/
def cost : List Piece → Nat
  | [] => 0
  | .tok _ :: rest => 1 + cost rest
  | .acc .. :: rest => 3 + cost rest
  | .sh .. :: rest => 1 + cost rest

theorem spaceKind_isSpaceTok {sp : List Tok} (h : ∀ t ∈ sp, t.kind = .space) :
    ∀ t ∈ sp, isSpaceTok t = true := by
  intro t ht
  simp [isSpaceTok, h t ht]

/-- **the loop on a buffer of plain tokens, accent calls and shorthands.**  The output is
    `remove_pure_action_lines` of `outP`; the state is unchanged. -/
theorem seq_pieces (T : PTables) (envStop : Option Str) (st : PState) :
    ∀ (ps : List Piece) (fuel : Nat) (out : List Tok),
      cost ps + 1 ≤ fuel → PiecesOk T st ps →
      expandSequence T fuel (flat ps) envStop out st
        = match removeLines (out ++ outP T st ps) with
          | some r => .ok ((r, []), st)
          | none => .outOfFuel := by
  intro ps
  induction ps with
  | nil =>
    intro fuel out hf _
    obtain ⟨f, rfl⟩ : ∃ f, fuel = f + 1 := ⟨fuel - 1, by omega⟩
    simp only [flat, outP, List.append_nil]
    rw [expandSequence.eq_2]
    cases removeLines out <;> rfl
  | cons pc ps ih =>
    intro fuel out hf hok
    cases pc with
    | tok t =>
      simp only [cost] at hf
      obtain ⟨f, rfl⟩ : ∃ f, fuel = f + 1 := ⟨fuel - 1, by omega⟩
      simp only [flat, Piece.toks, List.singleton_append]
      rw [seq_plain_step T f t (flat ps) envStop out st hok.1 hok.2.1,
        ih f (out ++ [t]) (by omega) hok.2.2]
      simp only [outP, List.append_assoc, List.singleton_append]
    | acc p name sp br q l =>
      obtain ⟨hn, hsp, hu, hrest⟩ := hok
      simp only [cost] at hf
      obtain ⟨f, rfl⟩ : ∃ f, fuel = f + 4 := ⟨fuel - 4, by omega⟩
      obtain ⟨u, hu'⟩ := Option.isSome_iff_exists.mp hu
      have hflat : flat (Piece.acc p name sp br q l :: ps)
          = accTok p name :: (sp ++ (argT br q l ++ flat ps)) := by
        simp [flat, Piece.toks]
      rw [hflat, seq_acc_step T f p name sp (spaceKind_isSpaceTok hsp) br q l (flat ps) envStop out u st
          hn hu', ih (f + 3) _ (by omega) hrest]
      simp only [outP, accVal, hu', Option.getD_some, List.append_assoc, List.singleton_append]
    | sh p a cur =>
      obtain ⟨ha, _, hv, hrest⟩ := hok
      simp only [cost] at hf
      obtain ⟨f, rfl⟩ : ∃ f, fuel = f + 1 := ⟨fuel - 1, by omega⟩
      obtain ⟨v, hv'⟩ := Option.isSome_iff_exists.mp hv
      have hflat : flat (Piece.sh p a cur :: ps) = letTok p a :: cur :: flat ps := by
        simp [flat, Piece.toks]
      rw [hflat, seq_sh_step T f p a cur (flat ps) envStop out v st ha hv',
        ih f _ (by omega) hrest]
      simp only [outP, shVal, hv', Option.getD_some, List.append_assoc, List.singleton_append]

theorem PiecesOk.notComment {T : PTables} {st : PState} : ∀ {ps : List Piece}, PiecesOk T st ps →
    ∀ t ∈ flat ps, t.kind ≠ .comment
  | [], _, _, h => by simp [flat] at h
  | .tok t :: rest, hok, x, hx => by
    simp only [flat, Piece.toks, List.singleton_append, List.mem_cons] at hx
    rcases hx with rfl | hx
    · exact hok.1.notComment
    · exact PiecesOk.notComment hok.2.2 x hx
  | .acc p name sp br q l :: rest, hok, x, hx => by
    obtain ⟨_, hsp, _, hrest⟩ := hok
    simp only [flat, Piece.toks, List.cons_append, List.append_assoc, List.mem_cons,
      List.mem_append] at hx
    rcases hx with rfl | hx | hx | hx
    · simp [accTok]
    · simp [hsp x hx]
    · cases br with
      | none =>
        simp only [argT, List.mem_singleton] at hx
        subst hx; simp [letTok]
      | some qq =>
        simp only [argT, List.mem_cons, List.not_mem_nil, or_false] at hx
        rcases hx with rfl | rfl | rfl <;> simp [lbr, rbr, letTok]
    · exact PiecesOk.notComment hrest x hx
  | .sh p a cur :: rest, hok, x, hx => by
    obtain ⟨_, hc, _, hrest⟩ := hok
    simp only [flat, Piece.toks, List.cons_append, List.nil_append, List.mem_cons] at hx
    rcases hx with rfl | rfl | hx
    · simp [letTok]
    · simp [hc]
    · exact PiecesOk.notComment hrest x hx

/-- the conditions depend on the state only through the language stack -/
theorem PiecesOk.congr {T : PTables} {st st' : PState} (hl : st'.langStack = st.langStack) :
    ∀ {ps : List Piece}, PiecesOk T st ps → PiecesOk T st' ps
  | [], _ => trivial
  | .tok t :: rest, h => ⟨h.1, PassTok_congr hl h.2.1, PiecesOk.congr hl h.2.2⟩
  | .acc p name sp br q l :: rest, h => ⟨h.1, h.2.1, h.2.2.1, PiecesOk.congr hl h.2.2.2⟩
  | .sh p a cur :: rest, h =>
    ⟨h.1, h.2.1, by rw [shortVal_congr T st st' hl]; exact h.2.2.1, PiecesOk.congr hl h.2.2.2⟩

theorem outP_congr {T : PTables} {st st' : PState} (hl : st'.langStack = st.langStack) :
    ∀ ps : List Piece, outP T st' ps = outP T st ps
  | [] => rfl
  | .tok t :: rest => by simp only [outP, outP_congr hl rest]
  | .acc p name sp br q l :: rest => by simp only [outP, outP_congr hl rest]
  | .sh p a cur :: rest => by simp only [outP, outP_congr hl rest, shVal, shortVal_congr T st st' hl]

/-! ### the documents -/

/-- a segment of the source: a run of text; an accent call `\name ws {l}` (`br = true`) or
    `\name ws l` (`ws` = the white space between the accent and its argument, mostly empty);
    a shorthand `a c` (German: `a = '"'`) -/
inductive Seg where
  | txt (s : Str)
  | acc (name ws : Str) (br : Bool) (l : Char)
  | sh (a c : Char)
deriving Repr, DecidableEq

/-- the argument of an accent call -/
def argStr (br : Bool) (l : Char) : Str := if br then ['{', l, '}'] else [l]

def Seg.render : Seg → Str
  | .txt s => s
  | .acc name ws br l => '\\' :: (name ++ (ws ++ argStr br l))
  | .sh a c => [a, c]

/-- the source text -/
def render : List Seg → Str
  | [] => []
  | s :: rest => s.render ++ render rest

/-- the number of source characters of an accent call -/
def accLen (name ws : Str) (br : Bool) : Nat := 1 + name.length + ws.length + (argStr br 'x').length

/-- **the reference output**: the characters of the output with their (0-based) source positions,
    for a document that starts at position `p`.  Text is copied with its own positions; an accent
    call whose backslash stands at `p` yields the character(s) `accentChar T \name l` of the
    tables, every one at `p`; a shorthand whose first character stands at `p` yields the value
    of the short-macro table, every character of it at `p`. -/
def refOut (T : PTables) (st : PState) : Nat → List Seg → List (Char × Nat)
  | _, [] => []
  | p, .txt s :: rest => posText p s ++ refOut T st (p + s.length) rest
  | p, .acc name ws br l :: rest =>
    (accVal T name l).map (fun x => (x, p)) ++ refOut T st (p + accLen name ws br) rest
  | p, .sh a c :: rest => (shVal T st [a, c]).map (fun x => (x, p)) ++ refOut T st (p + 2) rest

/-! ### the side conditions -/

/-- the text of the first scanner token of a well-formed source: a run of white space, a macro
    or accent token (`scan_macro`: a control word, or a backslash and one more character), or one
    character -/
def firstTokTxtX : Str → Str
  | [] => []
  | d :: ds =>
    if isSpace d then (d :: ds).takeWhile isSpace
    else if d == '\\' then (d :: ds).take (macroLen (d :: ds))
    else [d]

/-- the text character `c`, followed by `cs` (the *whole* rest of the source), is inert: `okAt` of
    Proofs/PlainUnknown.lean with the exact text of a following accent token:
    * `c` is not an active character of the current language settings, or it is no white space
      and does not form a short macro with the token behind it (or nothing is behind it), and
    * it is white space, or an ordinary character at which no special sequence matches -/
def okAtX (T : PTables) (st : PState) (c : Char) (cs : Str) : Bool :=
  (!(activeChars T st).contains [c] ||
    (!isSpace c && (cs.isEmpty || !(shortKeys T st).contains (c :: firstTokTxtX cs)))) &&
  (isSpace c || (!structuralChar c && (matchSpecial T.toTables (c :: cs)).isNone))

/-- the text `s`, followed by `R`, is inert -/
def textOk (T : PTables) (st : PState) : Str → Str → Bool
  | [], _ => true
  | c :: cs, R => okAtX T st c (cs ++ R) && textOk T st cs R

/-- the name of an accent macro, followed by `X`: a control word that `X` does not continue, or
    one character that is no letter -/
def nameOk (name X : Str) : Bool :=
  (!name.isEmpty && name.all macroChar && X.head?.all (fun d => !macroChar d)) ||
  (match name with | [x] => !macroChar x | _ => false)

/-- the character `c`, followed by `rest`, is scanned as a one-character text token that
    `expand_sequence` would copy -/
def charOk (T : PTables) (c : Char) (rest : Str) : Bool :=
  !isSpace c && !structuralChar c && (matchSpecial T.toTables (c :: rest)).isNone

/-- the accent call `\name ws {l}` / `\name ws l`, followed by `R` (see the header) -/
def accOk (T : PTables) (name ws : Str) (br : Bool) (l : Char) (R : Str) : Bool :=
  nameOk name (ws ++ (argStr br l ++ R)) &&
  (matchSpecial T.toTables ('\\' :: (name ++ (ws ++ (argStr br l ++ R))))).isNone &&
  ('\\' :: name) != sBegin && ('\\' :: name) != sEnd && ('\\' :: name) != sItem &&
  ('\\' :: name) != sVerb && T.toTables.isAccent ('\\' :: name) &&
  ('\\' :: name) != "\\(".toList && ('\\' :: name) != "\\[".toList &&
  ws.all isSpace && decide (countNl ws < 2) &&
  (if br then braceAt T '{' (l :: '}' :: R) && braceAt T '}' R &&
              (matchSpecial T.toTables (l :: '}' :: R)).isNone
   else (matchSpecial T.toTables (l :: R)).isNone) &&
  (accentChar T ('\\' :: name) l).isSome

/-- the shorthand `a c`, followed by `R`: both characters are scanned as one-character text tokens
    and the pair is a key of the short macros in force -/
def shOk (T : PTables) (st : PState) (a c : Char) (R : Str) : Bool :=
  charOk T a (c :: R) && charOk T c R && (shortVal T st [a, c]).isSome

/-- well-formed documents: every segment is fine in front of the rendering of the following ones -/
def segsOk (T : PTables) (st : PState) : List Seg → Bool
  | [] => true
  | .txt s :: rest => textOk T st s (render rest) && segsOk T st rest
  | .acc name ws br l :: rest => accOk T name ws br l (render rest) && segsOk T st rest
  | .sh a c :: rest => shOk T st a c (render rest) && segsOk T st rest

structure CharFacts (T : PTables) (c : Char) (rest : Str) : Prop where
  sp : isSpace c = false
  st : structuralChar c = false
  ms : matchSpecial T.toTables (c :: rest) = none

theorem charFacts {T : PTables} {c : Char} {rest : Str} (h : charOk T c rest = true) :
    CharFacts T c rest := by
  simp only [charOk, Bool.and_eq_true, Bool.not_eq_true', Option.isNone_iff_eq_none] at h
  exact ⟨h.1.1, h.1.2, h.2⟩

structure AccOkFacts (T : PTables) (name ws : Str) (br : Bool) (l : Char) (R : Str) : Prop where
  nm : nameOk name (ws ++ (argStr br l ++ R)) = true
  special : matchSpecial T.toTables ('\\' :: (name ++ (ws ++ (argStr br l ++ R)))) = none
  nBegin : ('\\' :: name) ≠ sBegin
  nEnd : ('\\' :: name) ≠ sEnd
  nItem : ('\\' :: name) ≠ sItem
  nVerb : ('\\' :: name) ≠ sVerb
  accent : T.toTables.isAccent ('\\' :: name) = true
  an : AccName name
  wsp : ∀ x ∈ ws, isSpace x = true
  nl : countNl ws < 2
  arg : if br = true then braceAt T '{' (l :: '}' :: R) = true ∧ braceAt T '}' R = true ∧
          matchSpecial T.toTables (l :: '}' :: R) = none
        else matchSpecial T.toTables (l :: R) = none
  val : (accentChar T ('\\' :: name) l).isSome = true

theorem accOkFacts {T : PTables} {name ws : Str} {br : Bool} {l : Char} {R : Str}
    (h : accOk T name ws br l R = true) : AccOkFacts T name ws br l R := by
  simp only [accOk, Bool.and_eq_true, bne_iff_ne, ne_eq, Option.isNone_iff_eq_none,
    List.all_eq_true, decide_eq_true_eq] at h
  obtain ⟨⟨⟨⟨⟨⟨⟨⟨⟨⟨⟨⟨h1, h2⟩, h3⟩, h4⟩, h5⟩, h6⟩, h7⟩, h8⟩, h9⟩, h10⟩, h11⟩, h12⟩, h13⟩ := h
  refine ⟨h1, h2, h3, h4, h5, h6, h7, ⟨h8, h9⟩, h10, h11, ?_, h13⟩
  cases br with
  | true => simpa [and_assoc] using h12
  | false => simpa using h12

/-- the source text, which starts at position `p`, with its reference output -/
inductive OkSrc (T : PTables) (st : PState) : Nat → Str → List (Char × Nat) → Prop
  | nil (p : Nat) : OkSrc T st p [] []
  | chr (p : Nat) (c : Char) (cs : Str) (vs : List (Char × Nat)) :
      okAtX T st c cs = true → OkSrc T st (p + 1) cs vs → OkSrc T st p (c :: cs) ((c, p) :: vs)
  | acc (p : Nat) (name ws : Str) (br : Bool) (l : Char) (R : Str) (vs : List (Char × Nat)) :
      accOk T name ws br l R = true → OkSrc T st (p + accLen name ws br) R vs →
      OkSrc T st p ('\\' :: (name ++ (ws ++ (argStr br l ++ R))))
        ((accVal T name l).map (fun x => (x, p)) ++ vs)
  | sh (p : Nat) (a c : Char) (R : Str) (vs : List (Char × Nat)) :
      shOk T st a c R = true → OkSrc T st (p + 2) R vs →
      OkSrc T st p (a :: c :: R) ((shVal T st [a, c]).map (fun x => (x, p)) ++ vs)

theorem OkSrc_text (T : PTables) (st : PState) (R : Str) (vs : List (Char × Nat)) :
    ∀ (s : Str) (p : Nat), OkSrc T st (p + s.length) R vs → textOk T st s R = true →
      OkSrc T st p (s ++ R) (posText p s ++ vs)
  | [], _, hR, _ => hR
  | c :: cs, p, hR, h => by
    simp only [textOk, Bool.and_eq_true] at h
    have hR' : OkSrc T st (p + 1 + cs.length) R vs := by
      have e : p + 1 + cs.length = p + (c :: cs).length := by simp; omega
      rw [e]; exact hR
    exact OkSrc.chr p c (cs ++ R) _ h.1 (OkSrc_text T st R vs cs (p + 1) hR' h.2)

theorem OkSrc_of_segsOk (T : PTables) (st : PState) :
    ∀ (segs : List Seg) (p : Nat), segsOk T st segs = true →
      OkSrc T st p (render segs) (refOut T st p segs)
  | [], p, _ => .nil p
  | .txt s :: rest, p, h => by
    simp only [segsOk, Bool.and_eq_true] at h
    exact OkSrc_text T st _ _ s p (OkSrc_of_segsOk T st rest _ h.2) h.1
  | .acc name ws br l :: rest, p, h => by
    simp only [segsOk, Bool.and_eq_true] at h
    have := OkSrc.acc p name ws br l (render rest) _ h.1 (OkSrc_of_segsOk T st rest _ h.2)
    simpa [render, Seg.render, refOut] using this
  | .sh a c :: rest, p, h => by
    simp only [segsOk, Bool.and_eq_true] at h
    have := OkSrc.sh p a c (render rest) _ h.1 (OkSrc_of_segsOk T st rest _ h.2)
    simpa [render, Seg.render, refOut] using this

/-- white space in front can be dropped -/
theorem OkSrc_drop_space (T : PTables) (st : PState) :
    ∀ (k : Nat) (p : Nat) (s : Str) (vs : List (Char × Nat)), k ≤ s.length → OkSrc T st p s vs →
      (∀ x ∈ s.take k, isSpace x = true) →
      ∃ vs', vs = posText p (s.take k) ++ vs' ∧ OkSrc T st (p + k) (s.drop k) vs'
  | 0, _, _, vs, _, h, _ => ⟨vs, rfl, h⟩
  | k + 1, _, [], _, hk, _, _ => by simp at hk
  | k + 1, p, c :: cs, _, hk, h, hsp => by
    have hc : isSpace c = true := hsp c (by simp)
    cases h with
    | chr _ _ _ vs0 _ h2 =>
      obtain ⟨vs', e, h3⟩ := OkSrc_drop_space T st k (p + 1) cs vs0 (by simpa using hk) h2
        (fun x hx => hsp x (by simp [hx]))
      refine ⟨vs', by simp [posText, e], ?_⟩
      have e : p + (k + 1) = p + 1 + k := by omega
      rw [e]; exact h3
    | acc _ name ws br l R _ _ _ => exact absurd hc (by decide)
    | sh _ _ c' R _ hd _ =>
      simp only [shOk, Bool.and_eq_true] at hd
      rw [(charFacts hd.1.1).sp] at hc; cases hc

/-- the conditions depend on the state only through the language stack -/
theorem OkSrc.congr {T : PTables} {st st' : PState} (hl : st'.langStack = st.langStack)
    {p : Nat} {s : Str} {vs : List (Char × Nat)} (h : OkSrc T st p s vs) : OkSrc T st' p s vs := by
  induction h with
  | nil p => exact .nil p
  | chr p c cs vs hat _ ih =>
    refine .chr p c cs vs ?_ ih
    rw [← hat]
    simp only [okAtX, activeChars_congr T st st' hl, shortKeys_congr T st st' hl]
  | acc p name ws br l R vs hd _ ih => exact .acc p name ws br l R vs hd ih
  | sh p a c R vs hd _ ih =>
    have e : shVal T st [a, c] = shVal T st' [a, c] := by
      simp only [shVal, shortVal_congr T st st' hl]
    rw [e]
    refine .sh p a c R vs ?_ ih
    rw [← hd]
    simp only [shOk, shortVal_congr T st st' hl]

/-! ### the scanner -/

/-- the scanner loop runs through the prefix `pre` of `pre ++ R` in the steps `steps` (one unit
    of fuel each) -/
def ScanRun (T : Tables) (src : Str) (steps : List ScanStep) (pos : Nat) (pre R : Str) : Prop :=
  ∀ fuel, scanSteps T src (fuel + steps.length) pos (pre ++ R)
    = (steps ++ (scanSteps T src fuel (pos + pre.length) R).1,
       (scanSteps T src fuel (pos + pre.length) R).2)

theorem ScanRun.nil (T : Tables) (src : Str) (pos : Nat) (R : Str) : ScanRun T src [] pos [] R := by
  intro fuel; simp

theorem ScanRun.one (T : Tables) (src : Str) (pos : Nat) (c : Char) (cs R : Str) (s : ScanStep)
    (h : nextToken T src pos (c :: (cs ++ R)) = s) (hl : s.len = cs.length + 1) :
    ScanRun T src [s] pos (c :: cs) R := by
  intro fuel
  simp only [List.length_singleton, List.cons_append]
  rw [scanSteps_step T src fuel pos c (cs ++ R) s h (by rw [hl]; simp), hl]
  simp

theorem ScanRun.append {T : Tables} {src : Str} {s1 s2 : List ScanStep} {pos : Nat} {pre1 pre2 R : Str}
    (h1 : ScanRun T src s1 pos pre1 (pre2 ++ R)) (h2 : ScanRun T src s2 (pos + pre1.length) pre2 R) :
    ScanRun T src (s1 ++ s2) pos (pre1 ++ pre2) R := by
  intro fuel
  have e : fuel + (s1 ++ s2).length = (fuel + s2.length) + s1.length := by
    simp only [List.length_append]; omega
  rw [e, List.append_assoc, h1 (fuel + s2.length), h2 fuel]
  simp [Nat.add_assoc]

theorem macroLen_name (name X : Str) (h : nameOk name X = true) :
    macroLen ('\\' :: (name ++ X)) = name.length + 1 ∧ name ≠ [] := by
  simp only [nameOk, Bool.or_eq_true, Bool.and_eq_true, Bool.not_eq_true', List.isEmpty_eq_false_iff] at h
  rcases h with ⟨⟨h1, h2⟩, h3⟩ | h
  · have htw := takeWhile_append_stop _ _ _ h2 h3
    obtain ⟨k, hk⟩ : ∃ k, name.length = k + 1 :=
      ⟨name.length - 1, by have := List.length_pos_iff.mpr h1; omega⟩
    refine ⟨?_, h1⟩
    simp only [macroLen, List.tail_cons, htw, hk]
    simp; omega
  · match name, h with
    | [x], h =>
      have hx : macroChar x = false := by simpa using h
      refine ⟨?_, by simp⟩
      simp [macroLen, hx]

/-- the scanner turns `\name` into one accent token -/
theorem nextToken_acc (T : PTables) (src : Str) (pos : Nat) (name X : Str)
    (hn : nameOk name X = true) (hs : matchSpecial T.toTables ('\\' :: (name ++ X)) = none)
    (e1 : ('\\' :: name) ≠ sBegin) (e2 : ('\\' :: name) ≠ sEnd) (e3 : ('\\' :: name) ≠ sItem)
    (e4 : ('\\' :: name) ≠ sVerb) (ha : T.toTables.isAccent ('\\' :: name) = true) :
    nextToken T.toTables src pos ('\\' :: (name ++ X))
      = { tok := accTok pos name, len := name.length + 1 } := by
  have hlen := (macroLen_name name X hn).1
  have htake : ('\\' :: (name ++ X)).take (name.length + 1) = '\\' :: name := by simp
  have e1' : (('\\' :: name) == sBegin) = false := beq_eq_false_iff_ne.mpr e1
  have e2' : (('\\' :: name) == sEnd) = false := beq_eq_false_iff_ne.mpr e2
  have e3' : (('\\' :: name) == sItem) = false := beq_eq_false_iff_ne.mpr e3
  have e4' : (('\\' :: name) == sVerb) = false := beq_eq_false_iff_ne.mpr e4
  unfold nextToken
  simp only [show isSpace '\\' = false by decide, Bool.false_eq_true, if_false,
    show ('\\' == '%') = false by decide, show ('\\' == '#') = false by decide, hs,
    beq_self_eq_true, if_true, scanMacro, hlen, htake, e1', e2', e3', e4', ha, accTok]

/-- a character that is scanned as a one-character text token -/
theorem nextToken_char (T : PTables) (src : Str) (pos : Nat) (c : Char) (rest : Str)
    (h : CharFacts T c rest) :
    nextToken T.toTables src pos (c :: rest) = { tok := letTok pos c, len := 1 } := by
  have hst := h.st
  simp only [structuralChar, Bool.or_eq_false_iff, beq_eq_false_iff_ne] at hst
  obtain ⟨⟨⟨⟨⟨h1, h2⟩, h3⟩, _⟩, _⟩, _⟩ := hst
  simp [nextToken, h.sp, h1, h2, h3, h.ms, letTok]

/-- a run of white space with at most one line break is one space token -/
theorem nextToken_ws (T : PTables) (src : Str) (pos : Nat) (c : Char) (cs X : Str)
    (hws : ∀ x ∈ c :: cs, isSpace x = true) (hnl : countNl (c :: cs) < 2)
    (hX : X.head?.all (fun d => !isSpace d) = true) :
    nextToken T.toTables src pos (c :: (cs ++ X))
      = { tok := spTok pos (c :: cs), len := cs.length + 1 } := by
  have hc : isSpace c = true := hws c (by simp)
  have htw : (c :: (cs ++ X)).takeWhile isSpace = c :: cs := by
    rw [show c :: (cs ++ X) = (c :: cs) ++ X from rfl]
    exact takeWhile_append_stop isSpace (c :: cs) X (by rw [List.all_eq_true]; exact hws) hX
  simp only [nextToken, hc, if_true, scanSpace, htw, hnl, spTok, List.length_cons]

def wsSteps (p : Nat) (ws : Str) : List ScanStep :=
  if ws.isEmpty then [] else [{ tok := spTok p ws, len := ws.length }]

def argSteps (br : Bool) (q : Nat) (l : Char) : List ScanStep :=
  if br then [{ tok := lbr q, len := 1 }, { tok := letTok (q + 1) l, len := 1 }, { tok := rbr (q + 2), len := 1 }]
  else [{ tok := letTok q l, len := 1 }]

/-- the scanner steps of an accent call -/
def accSteps (pos : Nat) (name ws : Str) (br : Bool) (l : Char) : List ScanStep :=
  { tok := accTok pos name, len := name.length + 1 } ::
    (wsSteps (pos + (name.length + 1)) ws ++ argSteps br (pos + (name.length + 1) + ws.length) l)

theorem scanRun_ws (T : PTables) (src : Str) (pos : Nat) (ws X : Str)
    (hws : ∀ x ∈ ws, isSpace x = true) (hnl : countNl ws < 2)
    (hX : X.head?.all (fun d => !isSpace d) = true) :
    ScanRun T.toTables src (wsSteps pos ws) pos ws X := by
  cases ws with
  | nil => exact ScanRun.nil _ _ _ _
  | cons c cs =>
    exact ScanRun.one _ _ _ c cs X _ (nextToken_ws T src pos c cs X hws hnl hX) rfl

theorem scanRun_arg (T : PTables) (src : Str) (q : Nat) (br : Bool) (l : Char) (R : Str)
    (hl : isAsciiLetter l = true)
    (harg : if br = true then braceAt T '{' (l :: '}' :: R) = true ∧ braceAt T '}' R = true ∧
          matchSpecial T.toTables (l :: '}' :: R) = none
        else matchSpecial T.toTables (l :: R) = none) :
    ScanRun T.toTables src (argSteps br q l) q (argStr br l) R := by
  cases br with
  | false =>
    simp only [Bool.false_eq_true, if_false] at harg
    exact ScanRun.one _ _ _ l [] R _
      (nextToken_char T src q l R ⟨letter_not_space hl, letter_not_structural hl, harg⟩) rfl
  | true =>
    simp only [if_true] at harg
    obtain ⟨b1, b2, hm⟩ := harg
    have r1 : ScanRun T.toTables src [{ tok := lbr q, len := 1 }] q ['{'] (([l] ++ ['}']) ++ R) :=
      ScanRun.one _ _ _ '{' [] _ _ (nextToken_brace T src q '{' _ (Or.inl rfl) b1) rfl
    have r2 : ScanRun T.toTables src [{ tok := letTok (q + 1) l, len := 1 }] (q + 1) [l] (['}'] ++ R) :=
      ScanRun.one _ _ _ l [] _ _
        (nextToken_char T src (q + 1) l _ ⟨letter_not_space hl, letter_not_structural hl, hm⟩) rfl
    have r3 : ScanRun T.toTables src [{ tok := rbr (q + 2), len := 1 }] (q + 2) ['}'] R :=
      ScanRun.one _ _ _ '}' [] _ _ (nextToken_brace T src (q + 2) '}' _ (Or.inr rfl) b2) rfl
    exact ScanRun.append r1 (ScanRun.append r2 r3)

theorem argStr_head (br : Bool) (l : Char) (hl : isAsciiLetter l = true) (R : Str) :
    (argStr br l ++ R).head?.all (fun d => !isSpace d) = true := by
  cases br <;> simp [argStr, letter_not_space hl, show isSpace '{' = false by decide]

/-- **the scanner on an accent call** -/
theorem scanRun_acc (T : PTables) (src : Str) (pos : Nat) (name ws : Str) (br : Bool) (l : Char)
    (R : Str) (F : AccOkFacts T name ws br l R) (hl : isAsciiLetter l = true) (fuel : Nat) :
    scanSteps T.toTables src (fuel + (accSteps pos name ws br l).length) pos
        ('\\' :: (name ++ (ws ++ (argStr br l ++ R))))
      = (accSteps pos name ws br l ++ (scanSteps T.toTables src fuel (pos + accLen name ws br) R).1,
         (scanSteps T.toTables src fuel (pos + accLen name ws br) R).2) := by
  have r1 : ScanRun T.toTables src [{ tok := accTok pos name, len := name.length + 1 }] pos
      ('\\' :: name) (ws ++ (argStr br l ++ R)) :=
    ScanRun.one _ _ _ '\\' name _ _
      (nextToken_acc T src pos name _ F.nm F.special F.nBegin F.nEnd F.nItem F.nVerb F.accent) rfl
  have r2 := scanRun_ws T src (pos + ('\\' :: name).length) ws (argStr br l ++ R) F.wsp F.nl
    (argStr_head br l hl R)
  have r3 := scanRun_arg T src (pos + ('\\' :: name).length + ws.length) br l R hl F.arg
  have r1' : ScanRun T.toTables src [{ tok := accTok pos name, len := name.length + 1 }] pos
      ('\\' :: name) ((ws ++ argStr br l) ++ R) := by
    rw [List.append_assoc]; exact r1
  have r := ScanRun.append r1' (ScanRun.append r2 r3) fuel
  have elen : (argStr br l).length = (argStr br 'x').length := by cases br <;> rfl
  have epos : pos + ('\\' :: name ++ (ws ++ argStr br l)).length = pos + accLen name ws br := by
    simp only [accLen, List.length_append, List.length_cons, elen]; omega
  rw [epos] at r
  simpa [accSteps, List.append_assoc] using r

/-- **the scanner on a shorthand** -/
theorem scanRun_sh (T : PTables) (src : Str) (pos : Nat) (a c : Char) (R : Str)
    (ha : CharFacts T a (c :: R)) (hc : CharFacts T c R) (fuel : Nat) :
    scanSteps T.toTables src (fuel + 2) pos (a :: c :: R)
      = ({ tok := letTok pos a, len := 1 } :: { tok := letTok (pos + 1) c, len := 1 } ::
            (scanSteps T.toTables src fuel (pos + 2) R).1,
         (scanSteps T.toTables src fuel (pos + 2) R).2) := by
  have r1 : ScanRun T.toTables src [{ tok := letTok pos a, len := 1 }] pos [a] ([c] ++ R) :=
    ScanRun.one _ _ _ a [] _ _ (nextToken_char T src pos a _ ha) rfl
  have r2 : ScanRun T.toTables src [{ tok := letTok (pos + 1) c, len := 1 }] (pos + 1) [c] R :=
    ScanRun.one _ _ _ c [] _ _ (nextToken_char T src (pos + 1) c _ hc) rfl
  simpa using ScanRun.append r1 r2 fuel

/-! ### the scanner loop on a well-formed source -/

theorem okAtX_snd {T : PTables} {st : PState} {c : Char} {cs : Str} (h : okAtX T st c cs = true) :
    isSpace c = true ∨ (structuralChar c = false ∧ matchSpecial T.toTables (c :: cs) = none) := by
  simp only [okAtX, Bool.and_eq_true, Bool.or_eq_true] at h
  rcases h.2 with h | ⟨h1, h2⟩
  · exact Or.inl h
  · refine Or.inr ⟨by simpa using h1, ?_⟩
    cases hx : matchSpecial T.toTables (c :: cs) with
    | none => rfl
    | some _ => rw [hx] at h2; simp at h2

theorem firstTokTxtX_of_text (c : Char) (cs : Str) (h : isSpace c = true ∨ structuralChar c = false) :
    firstTokTxtX (c :: cs) = firstTokTxt (c :: cs) := by
  unfold firstTokTxtX firstTokTxt
  by_cases hsp : isSpace c = true
  · simp [hsp]
  · rcases h with h | h
    · exact absurd h hsp
    · have : c ≠ '\\' := by
        intro e; subst e; exact absurd h (by decide)
      simp [hsp, this]

def brOpt (br : Bool) (q : Nat) : Option (Nat × Nat) := if br then some (q, q + 2) else none
def letPos (br : Bool) (q : Nat) : Nat := if br then q + 1 else q

theorem argSteps_toks (br : Bool) (q : Nat) (l : Char) :
    (argSteps br q l).map (·.tok) = argT (brOpt br q) (letPos br q) l := by
  cases br <;> rfl

theorem wsSteps_kind (p : Nat) (ws : Str) : ∀ t ∈ (wsSteps p ws).map (·.tok), t.kind = .space := by
  intro t ht
  unfold wsSteps at ht
  split at ht
  · simp at ht
  · simp only [List.map_cons, List.map_nil, List.mem_singleton] at ht
    subst ht; rfl

theorem accSteps_ok (pos : Nat) (name ws : Str) (br : Bool) (l : Char) :
    ∀ s ∈ accSteps pos name ws br l, s.diag = none ∧ s.extra = [] := by
  intro s hs
  simp only [accSteps, List.mem_cons, List.mem_append] at hs
  rcases hs with rfl | hs | hs
  · exact ⟨rfl, rfl⟩
  · unfold wsSteps at hs
    split at hs
    · simp at hs
    · simp only [List.mem_singleton] at hs
      subst hs; exact ⟨rfl, rfl⟩
  · cases br
    · simp only [argSteps, Bool.false_eq_true, if_false, List.mem_singleton] at hs
      subst hs; exact ⟨rfl, rfl⟩
    · simp only [argSteps, if_true, List.mem_cons, List.not_mem_nil, or_false] at hs
      rcases hs with rfl | rfl | rfl <;> exact ⟨rfl, rfl⟩

theorem accSteps_length (pos : Nat) (name ws : Str) (br : Bool) (l : Char) (hne : name ≠ []) :
    (accSteps pos name ws br l).length ≤ accLen name ws br ∧ 3 ≤ accLen name ws br := by
  have h1 : (wsSteps (pos + (name.length + 1)) ws).length ≤ ws.length := by
    unfold wsSteps
    cases ws <;> simp
  have h2 : (argSteps br (pos + (name.length + 1) + ws.length) l).length = (argStr br 'x').length := by
    cases br <;> rfl
  have h3 : 1 ≤ (argStr br 'x').length := by cases br <;> simp [argStr]
  have h4 := List.length_pos_iff.mpr hne
  simp only [accSteps, accLen, List.length_cons, List.length_append, h2]
  omega

theorem tokChars_mkFix (k : Kind) (p : Nat) (v : Str) :
    tokChars (mkFix k p v) = v.map (fun c => (c, p)) := by
  simp only [tokChars, tokPositions, mkFix, if_true]
  induction v with
  | nil => rfl
  | cons c cs ih => simp [List.replicate_succ, ih]

/-- every character of the result of an accent call stands at the position of the call -/
theorem tokChars_resTok (p : Nat) (u : Str) : tokChars (resTok p u) = u.map (fun c => (c, p)) := by
  by_cases h : 1 < u.length
  · have : resTok p u = mkFix .text p u := by simp [resTok, mkFix, h]
    rw [this, tokChars_mkFix]
  · have hf : (resTok p u).fix = false := by simp [resTok, h]
    rw [tokChars_nofix _ hf]
    match u, h with
    | [], _ => rfl
    | [c], _ => rfl
    | _ :: _ :: _, h => simp at h

/-- what the scanner loop yields on a well-formed source, and what the token buffer means -/
structure ScanFacts (T : PTables) (st : PState) (rest : Str) (vs : List (Char × Nat))
    (steps : List ScanStep) : Prop where
  ok : ∀ s ∈ steps, s.diag = none ∧ s.extra = []
  pieces : ∃ ps, steps.map (·.tok) = flat ps ∧ PiecesOk T st ps ∧ charsOf (outP T st ps) = vs ∧
    (∀ t ∈ outP T st ps, isAction t = false) ∧ cost ps ≤ rest.length
  first : ∀ s ss, steps = s :: ss → s.tok.txt = firstTokTxtX rest

theorem ScanFacts_nil (T : PTables) (st : PState) : ScanFacts T st [] [] [] :=
  ⟨by simp, ⟨[], rfl, trivial, rfl, by simp [outP], by simp [cost]⟩, by simp⟩

/-- the scanner loop on a well-formed source -/
theorem scanSteps_segs (T : PTables) (st : PState) (src : Str) :
    ∀ (n fuel pos : Nat) (rest : Str) (vs : List (Char × Nat)),
    rest.length ≤ n → rest.length ≤ fuel → OkSrc T st pos rest vs →
    (scanSteps T.toTables src fuel pos rest).2 = true ∧
    ScanFacts T st rest vs (scanSteps T.toTables src fuel pos rest).1 := by
  intro n
  induction n with
  | zero =>
    intro fuel pos rest vs hn _ hok
    cases rest with
    | nil => cases hok; exact ⟨by simp [scanSteps], by simpa [scanSteps] using ScanFacts_nil T st⟩
    | cons c cs => simp at hn
  | succ n ih =>
    intro fuel pos rest vs hn hf hok
    cases rest with
    | nil => cases hok; exact ⟨by simp [scanSteps], by simpa [scanSteps] using ScanFacts_nil T st⟩
    | cons c cs =>
      obtain ⟨fuel, rfl⟩ : ∃ f, fuel = f + 1 := ⟨fuel - 1, by simp at hf; omega⟩
      have hok0 := hok
      cases hok with
      | chr _ _ _ vs' hat hsub0 =>
        have hsnd := okAtX_snd hat
        obtain ⟨hp, hone⟩ := nextToken_text T src pos c cs hsnd
        generalize hs : nextToken T.toTables src pos (c :: cs) = s at hp hone
        have h1 := hp.len_pos
        have h2 := hp.len_le
        have hsub : ∃ vs1, (c, pos) :: vs' = posText pos ((c :: cs).take s.len) ++ vs1 ∧
            OkSrc T st (pos + s.len) ((c :: cs).drop s.len) vs1 := by
          by_cases hsp : isSpace c = true
          · refine OkSrc_drop_space T st s.len pos (c :: cs) _ h2 hok0 ?_
            intro x hx
            rw [← hp.txt, hp.first] at hx
            simp only [firstTokTxt, hsp, if_true] at hx
            exact mem_takeWhile_imp _ _ _ hx
          · have := (hone (by simpa using hsp)).1
            rw [this]
            exact ⟨vs', rfl, hsub0⟩
        obtain ⟨vs1, hvs1, hsub⟩ := hsub
        rw [scanSteps_step T.toTables src fuel pos c cs s hs (by omega)]
        have hl : ((c :: cs).drop s.len).length ≤ fuel := by
          simp only [List.length_drop]; simp only [List.length_cons] at hf h2 ⊢; omega
        have hl' : ((c :: cs).drop s.len).length ≤ n := by
          simp only [List.length_drop]; simp only [List.length_cons] at hn h2 ⊢; omega
        obtain ⟨i1, I⟩ := ih fuel (pos + s.len) ((c :: cs).drop s.len) vs1 hl' hl hsub
        obtain ⟨ps', hflat, hpok, hchars, hnoact, hcost⟩ := I.pieces
        refine ⟨i1, ?_, ?_, ?_⟩
        · intro x hx
          rcases List.mem_cons.mp hx with rfl | hx
          · exact ⟨hp.diag, hp.extra⟩
          · exact I.ok x hx
        · refine ⟨.tok s.tok :: ps', by simp [flat, Piece.toks, hflat], ⟨hp.tok, ?_, hpok⟩, ?_, ?_, ?_⟩
          · -- the short-macro branch
            rw [← hflat]
            have hact := hat
            simp only [okAtX, Bool.and_eq_true, Bool.or_eq_true, Bool.not_eq_true'] at hact
            rcases hact.1 with hna | ⟨hns, hk⟩
            · left
              have : s.tok.txt = c :: (cs.take (s.len - 1)) := by
                rw [hp.txt]
                obtain ⟨k, hk⟩ : ∃ k, s.len = k + 1 := ⟨s.len - 1, by omega⟩
                rw [hk]; simp
              rw [this]
              exact not_active_cons T st c _ hna
            · right
              have hlen := (hone hns).1
              have htxt : s.tok.txt = [c] := by rw [hp.txt, hlen]; rfl
              have i4 := I.first
              rw [hlen] at i4 ⊢
              simp only [List.drop_succ_cons, List.drop_zero] at i4 ⊢
              cases hr : (scanSteps T.toTables src fuel (pos + 1) cs).1 with
              | nil => rfl
              | cons s2 ss =>
                simp only [List.map_cons]
                apply expandShortMacro_none
                rw [htxt, i4 s2 ss hr]
                rcases hk with hk | hk
                · cases cs with
                  | nil => cases fuel <;> simp [scanSteps] at hr
                  | cons => simp at hk
                · simpa using hk
          · simp only [outP]
            rw [charsOf_cons, tokChars_nofix _ hp.fix, hchars, hp.txt, hp.pos, hvs1]
          · intro x hx
            simp only [outP, List.mem_cons] at hx
            rcases hx with rfl | hx
            · exact hp.tok.notAction
            · exact hnoact x hx
          · simp only [cost, List.length_cons, List.length_drop] at hcost h2 ⊢
            omega
        · intro s' ss' he
          simp only [List.cons.injEq] at he
          rw [← he.1, hp.first]
          refine (firstTokTxtX_of_text c cs ?_).symm
          rcases hsnd with h | h
          · exact Or.inl h
          · exact Or.inr h.1
      | acc _ name ws br l R vs' hd hsub =>
        have F := accOkFacts hd
        obtain ⟨u, hu⟩ := Option.isSome_iff_exists.mp F.val
        have hl := (accFacts hu).letter
        obtain ⟨hmlen, hne⟩ := macroLen_name _ _ F.nm
        obtain ⟨hsl, hal⟩ := accSteps_length pos name ws br l hne
        have hrl : ('\\' :: (name ++ (ws ++ (argStr br l ++ R)))).length = accLen name ws br + R.length := by
          have elen : (argStr br l).length = (argStr br 'x').length := by cases br <;> rfl
          simp only [accLen, List.length_append, List.length_cons, elen]; omega
        rw [hrl] at hf hn
        obtain ⟨g, hg⟩ : ∃ g, fuel + 1 = g + (accSteps pos name ws br l).length :=
          ⟨fuel + 1 - (accSteps pos name ws br l).length, by omega⟩
        rw [hg, scanRun_acc T src pos name ws br l R F hl g]
        obtain ⟨i1, I⟩ := ih g (pos + accLen name ws br) R vs' (by omega) (by omega) hsub
        obtain ⟨ps', hflat, hpok, hchars, hnoact, hcost⟩ := I.pieces
        refine ⟨i1, ?_, ?_, ?_⟩
        · intro x hx
          rcases List.mem_append.mp hx with hx | hx
          · exact accSteps_ok pos name ws br l x hx
          · exact I.ok x hx
        · refine ⟨.acc pos name ((wsSteps (pos + (name.length + 1)) ws).map (·.tok))
              (brOpt br (pos + (name.length + 1) + ws.length))
              (letPos br (pos + (name.length + 1) + ws.length)) l :: ps', ?_,
              ⟨F.an, wsSteps_kind _ _, F.val, hpok⟩, ?_, ?_, ?_⟩
          · simp [flat, Piece.toks, hflat, accSteps, argSteps_toks]
          · simp only [outP]
            rw [charsOf_cons, tokChars_resTok, hchars]
          · intro x hx
            simp only [outP, List.mem_cons] at hx
            rcases hx with rfl | hx
            · rfl
            · exact hnoact x hx
          · simp only [cost, hrl]
            omega
        · intro s' ss' he
          simp only [accSteps, List.cons_append, List.cons.injEq] at he
          rw [← he.1]
          simp only [firstTokTxtX, show isSpace '\\' = false by decide, Bool.false_eq_true, if_false,
            beq_self_eq_true, if_true, hmlen, accTok]
          simp
      | sh _ _ c' R vs' hd hsub =>
        have hd' := hd
        simp only [shOk, Bool.and_eq_true] at hd'
        obtain ⟨⟨h1, h2⟩, h3⟩ := hd'
        have A := charFacts h1
        have C := charFacts h2
        simp only [List.length_cons] at hf hn
        obtain ⟨g, hg⟩ : ∃ g, fuel + 1 = g + 2 := ⟨fuel - 1, by omega⟩
        rw [hg, scanRun_sh T src pos c c' R A C g]
        obtain ⟨i1, I⟩ := ih g (pos + 2) R vs' (by omega) (by omega) hsub
        obtain ⟨ps', hflat, hpok, hchars, hnoact, hcost⟩ := I.pieces
        refine ⟨i1, ?_, ?_, ?_⟩
        · intro x hx
          simp only [List.mem_cons] at hx
          rcases hx with rfl | rfl | hx
          · exact ⟨rfl, rfl⟩
          · exact ⟨rfl, rfl⟩
          · exact I.ok x hx
        · refine ⟨.sh pos c (letTok (pos + 1) c') :: ps', ?_, ⟨A.st, rfl, h3, hpok⟩, ?_, ?_, ?_⟩
          · simp [flat, Piece.toks, hflat]
          · simp only [outP]
            rw [charsOf_cons, tokChars_mkFix, hchars]
            rfl
          · intro x hx
            simp only [outP, List.mem_cons] at hx
            rcases hx with rfl | hx
            · rfl
            · exact hnoact x hx
          · simp only [cost, List.length_cons]
            omega
        · intro s' ss' he
          simp only [List.cons.injEq] at he
          rw [← he.1]
          have : c ≠ '\\' := by
            intro e; subst e; exact absurd A.st (by decide)
          simp [firstTokTxtX, A.sp, this, letTok]

/-- `scan` on a well-formed source: no diagnostics; the token buffer consists of plain tokens,
    accent calls and shorthands, and its output tokens spell the reference -/
theorem scan_segs (T : PTables) (st : PState) (src : Str) (vs : List (Char × Nat))
    (h : OkSrc T st 0 src vs) :
    (scan T.toTables src).diags = [] ∧
    ∃ ps, (scan T.toTables src).toks = flat ps ∧ PiecesOk T st ps ∧ charsOf (outP T st ps) = vs ∧
      (∀ t ∈ outP T st ps, isAction t = false) ∧ cost ps ≤ src.length := by
  obtain ⟨_, F⟩ := scanSteps_segs T st src src.length src.length 0 src vs (Nat.le_refl _)
    (Nat.le_refl _) h
  have he := flatten_tok_extra (scanSteps T.toTables src src.length 0 src).1 (fun s hs => (F.ok s hs).2)
  have hd := flatten_diag_nil (scanSteps T.toTables src src.length 0 src).1 (fun s hs => (F.ok s hs).1)
  obtain ⟨ps, h1, h2, h3, h4, h5⟩ := F.pieces
  simp only [scan]
  rw [he, hd]
  exact ⟨rfl, ps, h1, h2, h3, h4, h5⟩

/-! ### `parserWork`, `parse`, `tex2txt` -/

/-- **`parserWork` on a well-formed source.**  The characters of the result tokens, with their
    positions, are the reference output.  The state is unchanged. -/
theorem parserWork_segs (T : PTables) (st : PState) (src : Str) (fuel : Nat) (vs : List (Char × Nat))
    (hf : src.length + 2 ≤ fuel) (h : OkSrc T st 0 src vs) :
    ∃ r, parserWork T fuel src st = .ok (r, st) ∧ charsOf r = vs := by
  obtain ⟨f, rfl⟩ : ∃ f, fuel = f + 1 := ⟨fuel - 1, by omega⟩
  obtain ⟨hd, ps, hflat, hpok, hchars, hnoact, hcost⟩ := scan_segs T st src vs h
  let st' : PState := { st with latex := src, nest := st.nest + 1 }
  have hpok' : PiecesOk T st' ps := PiecesOk.congr (st := st) (st' := st') rfl hpok
  have hout : outP T st' ps = outP T st ps := outP_congr (st := st) (st' := st') rfl ps
  have hs := seq_pieces T none st' ps f [] (by omega) hpok'
  rw [List.nil_append, hout, removeLines_noaction_id _ hnoact] at hs
  simp only [] at hs
  refine ⟨(outP T st ps).filter keepOut, ?_, by rw [charsOf_filter_keepOut, hchars]⟩
  rw [parserWork.eq_2]
  refine (M.bind_ok _ _ _ _ _ (rfl : M.get st = _)).trans ?_
  refine (M.bind_ok _ _ _ _ _ (rfl : M.modify _ _ = _)).trans ?_
  refine (M.bind_ok _ _ _ _ _ (rfl : M.modify _ _ = _)).trans ?_
  refine (M.bind_ok _ _ _ _ _ (rfl : M.get _ = _)).trans ?_
  simp only [hd, List.append_nil]
  rw [skipPass_nocomment _ _ _ (fun t ht' => hpok.notComment t (by rw [← hflat]; exact ht'))]
  simp only []
  refine (M.bind_ok _ _ _ _ _ (rfl : (pure _ : M (List Tok)) _ = _)).trans ?_
  rw [hflat]
  refine (M.bind_ok _ _ _ _ _ hs).trans ?_
  refine (M.bind_ok _ _ _ _ _ (rfl : M.modify _ _ = _)).trans ?_
  show Outcome.ok _ = _
  simp only [st', Nat.add_sub_cancel]

theorem parse_segs (T : PTables) (st : PState) (src : Str) (fuel : Nat) (vs : List (Char × Nat))
    (hf : src.length + 2 ≤ fuel) (h : OkSrc T st 0 src vs) :
    ∃ r, parse T fuel src [] [] st
        = .ok (r, { st with extracted := [], unknowns := [], foreign := false, nest := 0 }) ∧
      charsOf r = vs := by
  have h' : OkSrc T { st with extracted := [], unknowns := [], foreign := false, nest := 0 } 0 src vs :=
    OkSrc.congr (st := st)
      (st' := { st with extracted := [], unknowns := [], foreign := false, nest := 0 }) rfl h
  obtain ⟨r, hw, hc⟩ := parserWork_segs T
    { st with extracted := [], unknowns := [], foreign := false, nest := 0 } src fuel vs hf h'
  refine ⟨r, ?_, hc⟩
  unfold parse
  simp only [List.isEmpty_nil, Bool.not_true, Bool.false_eq_true, if_false, if_true]
  refine (M.bind_ok _ _ _ _ _ (rfl : M.modify _ _ = _)).trans ?_
  refine (M.bind_ok _ _ _ _ _ (rfl : (pure _ : M (List Tok)) _ = _)).trans ?_
  refine (M.bind_ok _ _ _ _ _ (rfl : M.modify _ _ = _)).trans ?_
  refine (M.bind_ok _ _ _ _ _ hw).trans ?_
  refine (M.bind_ok _ _ _ _ _ (rfl : M.get _ = _)).trans ?_
  show Outcome.ok _ = _
  simp

/-- the result record of `tex2txt` on a well-formed source (no `--defs`, `--extr`, `--repl`,
    `--unkn`; single-language mode) -/
theorem tex2txt_src (T : PTables) (o : Options) (fs : FS) (thresh : Nat) (src : Str) (fuel : Nat)
    (st1 : PState) (vs : List (Char × Nat))
    (hdefs : o.defs = []) (hextr : o.extr = []) (hrepl : o.hasRepl = false) (hunkn : o.unkn = false)
    (hinit : initParser T fuel o (initialState T o false fs) = .ok ((), st1))
    (h : OkSrc T st1 0 src vs) (hf : src.length + 2 ≤ fuel) :
    ∃ toks, tex2txt T fuel src o false thresh fs
        = .ok { toks := toks, txt := vs.map (·.1), pos := vs.map (·.2 + 1), parts := [],
                unknowns := [], diags := st1.diags, foreign := false } := by
  obtain ⟨r, hp, hc⟩ := parse_segs T st1 src fuel vs hf h
  refine ⟨r, ?_⟩
  have hrun : (initParser T fuel o >>= fun _ => parse T fuel src o.defs
        (if o.extr.isEmpty then [] else (splitOn ',' o.extr []).map (fun s => '\\' :: s)))
        (initialState T o false fs)
      = .ok (r, { st1 with extracted := [], unknowns := [], foreign := false, nest := 0 }) := by
    refine (M.bind_ok _ _ _ _ _ hinit).trans ?_
    rw [hdefs, hextr]
    exact hp
  unfold tex2txt
  simp only []
  rw [hrun]
  simp only [hrepl, hunkn, Bool.not_false, if_true, Bool.false_eq_true, if_false,
    getTxtPos_charsOf, hc, List.map_map]
  rfl

/-- **C02 (replaced sequences: accent macros and short macros), end to end.**  The document
    consists of inert text, accent calls and shorthands (`segsOk`: all side conditions); `st1` is
    the state after `Parser.__init__`; no `--defs`, `--extr`, `--repl`, `--unkn`; single-language
    mode.  With one unit of fuel per source character and two more, `tex2txt` succeeds and the
    output text with its (1-based) positions is `refOut T st1 0 segs`; there are no unknowns and
    no diagnostic is added. -/
theorem tex2txt_replaced (T : PTables) (o : Options) (fs : FS) (thresh : Nat) (segs : List Seg)
    (fuel : Nat) (st1 : PState)
    (hdefs : o.defs = []) (hextr : o.extr = []) (hrepl : o.hasRepl = false) (hunkn : o.unkn = false)
    (hinit : initParser T fuel o (initialState T o false fs) = .ok ((), st1))
    (hok : segsOk T st1 segs = true) (hf : (render segs).length + 2 ≤ fuel) :
    ∃ r, tex2txt T fuel (render segs) o false thresh fs = .ok r ∧
      r.txt = (refOut T st1 0 segs).map (·.1) ∧
      r.pos = (refOut T st1 0 segs).map (·.2 + 1) ∧
      r.unknowns = [] ∧ r.diags = st1.diags ∧ r.parts = [] := by
  have hsrc := OkSrc_of_segsOk T st1 segs 0 hok
  obtain ⟨toks, ht⟩ := tex2txt_src T o fs thresh (render segs) fuel st1 _ hdefs hextr hrepl hunkn
    hinit hsrc hf
  exact ⟨_, ht, rfl, rfl, rfl, rfl, rfl⟩

/-! ### readings of the reference -/

/-- an accent call whose table value is ONE character `ch`: that character, at the position of
    the backslash -/
theorem refOut_acc_single (T : PTables) (st : PState) (p : Nat) (name ws : Str) (br : Bool) (l ch : Char)
    (rest : List Seg) (h : accentChar T ('\\' :: name) l = some [ch]) :
    refOut T st p (.acc name ws br l :: rest) = (ch, p) :: refOut T st (p + accLen name ws br) rest := by
  simp [refOut, accVal, h]

/-- a shorthand with the table value `v`: every character of `v` at the position of the first
    character of the shorthand (nothing, if `v` is empty) -/
theorem refOut_sh (T : PTables) (st : PState) (p : Nat) (a c : Char) (v : Str) (rest : List Seg)
    (h : shortVal T st [a, c] = some v) :
    refOut T st p (.sh a c :: rest) = v.map (fun x => (x, p)) ++ refOut T st (p + 2) rest := by
  simp [refOut, shVal, h]

/-- text keeps its positions -/
theorem refOut_txt (T : PTables) (st : PState) (p : Nat) (s : Str) (rest : List Seg) :
    refOut T st p (.txt s :: rest) = posText p s ++ refOut T st (p + s.length) rest := rfl

/-- documents without shorthands -/
def noSh : List Seg → Bool
  | [] => true
  | .sh _ _ :: _ => false
  | _ :: rest => noSh rest

/-- the reference for documents of text and accent calls (no parser state involved): text with its
    own positions; a call `\name…l` whose backslash stands at `p` ↦ the character(s)
    `accentChar T \name l`, every one at `p` -/
def refAcc (T : PTables) : Nat → List Seg → List (Char × Nat)
  | _, [] => []
  | p, .txt s :: rest => posText p s ++ refAcc T (p + s.length) rest
  | p, .acc name ws br l :: rest =>
    ((accentChar T ('\\' :: name) l).getD []).map (fun x => (x, p))
      ++ refAcc T (p + accLen name ws br) rest
  | p, .sh _ _ :: rest => refAcc T (p + 2) rest

theorem refOut_noSh (T : PTables) (st : PState) : ∀ (segs : List Seg) (p : Nat), noSh segs = true →
    refOut T st p segs = refAcc T p segs
  | [], _, _ => rfl
  | .txt s :: rest, p, h => by
    simp only [refOut, refAcc, refOut_noSh T st rest _ (by simpa [noSh] using h)]
  | .acc name ws br l :: rest, p, h => by
    simp only [refOut, refAcc, accVal, refOut_noSh T st rest _ (by simpa [noSh] using h)]
  | .sh a c :: rest, p, h => by simp [noSh] at h

/-- the spans `(start, length)` of the replaced sequences of a document that starts at `p` -/
def spans : Nat → List Seg → List (Nat × Nat)
  | _, [] => []
  | p, .txt s :: rest => spans (p + s.length) rest
  | p, .acc name ws br _ :: rest => (p, accLen name ws br) :: spans (p + accLen name ws br) rest
  | p, .sh _ _ :: rest => (p, 2) :: spans (p + 2) rest

theorem mem_posText' {cp : Char × Nat} : ∀ {s : Str} {p : Nat}, cp ∈ posText p s →
    p ≤ cp.2 ∧ cp.2 < p + s.length
  | [], _, h => by simp [posText] at h
  | c :: cs, p, h => by
    simp only [posText, List.mem_cons] at h
    rcases h with rfl | h
    · simp
    · have := mem_posText' h
      simp only [List.length_cons]; omega

theorem accLen_ge (name ws : Str) (br : Bool) : 2 ≤ accLen name ws br := by
  cases br <;> simp [accLen, argStr] <;> omega

theorem refOut_ge (T : PTables) (st : PState) {cp : Char × Nat} : ∀ {segs : List Seg} {p : Nat},
    cp ∈ refOut T st p segs → p ≤ cp.2
  | [], _, h => by simp [refOut] at h
  | .txt s :: rest, p, h => by
    simp only [refOut, List.mem_append] at h
    rcases h with h | h
    · exact (mem_posText' h).1
    · have := refOut_ge T st h; omega
  | .acc name ws br l :: rest, p, h => by
    simp only [refOut, List.mem_append, List.mem_map] at h
    rcases h with ⟨x, _, rfl⟩ | h
    · simp
    · have := refOut_ge T st h; omega
  | .sh a c :: rest, p, h => by
    simp only [refOut, List.mem_append, List.mem_map] at h
    rcases h with ⟨x, _, rfl⟩ | h
    · simp
    · have := refOut_ge T st h; omega

theorem spans_ge {q : Nat × Nat} : ∀ {segs : List Seg} {p : Nat}, q ∈ spans p segs → p ≤ q.1
  | [], _, h => by simp [spans] at h
  | .txt s :: rest, p, h => by
    simp only [spans] at h
    have := spans_ge h; omega
  | .acc name ws br l :: rest, p, h => by
    simp only [spans, List.mem_cons] at h
    rcases h with rfl | h
    · simp
    · have := spans_ge h; omega
  | .sh a c :: rest, p, h => by
    simp only [spans, List.mem_cons] at h
    rcases h with rfl | h
    · simp
    · have := spans_ge h; omega

/-- **an output position inside a replaced sequence is its FIRST character**: no output
    position lies inside an accent call or a shorthand behind its first character -/
theorem refOut_pos_first (T : PTables) (st : PState) {cp : Char × Nat} {q : Nat × Nat} :
    ∀ {segs : List Seg} {p : Nat},
    cp ∈ refOut T st p segs → q ∈ spans p segs → cp.2 ≤ q.1 ∨ q.1 + q.2 ≤ cp.2
  | [], _, h, _ => by simp [refOut] at h
  | .txt s :: rest, p, h, hq => by
    simp only [refOut, List.mem_append] at h
    simp only [spans] at hq
    rcases h with h | h
    · have := (mem_posText' h).2
      have := spans_ge hq
      left; omega
    · exact refOut_pos_first T st h hq
  | .acc name ws br l :: rest, p, h, hq => by
    simp only [refOut, List.mem_append, List.mem_map] at h
    simp only [spans, List.mem_cons] at hq
    have hlen := accLen_ge name ws br
    rcases h with ⟨x, _, rfl⟩ | h
    · rcases hq with rfl | hq
      · left; simp
      · have := spans_ge hq
        left; simp only; omega
    · rcases hq with rfl | hq
      · have := refOut_ge T st h
        right; simpa using this
      · exact refOut_pos_first T st h hq
  | .sh a c :: rest, p, h, hq => by
    simp only [refOut, List.mem_append, List.mem_map] at h
    simp only [spans, List.mem_cons] at hq
    rcases h with ⟨x, _, rfl⟩ | h
    · rcases hq with rfl | hq
      · left; simp
      · have := spans_ge hq
        left; simp only; omega
    · rcases hq with rfl | hq
      · have := refOut_ge T st h
        right; simpa using this
      · exact refOut_pos_first T st h hq

end PlainAccent
end Yalafi
