/-
  Proofs/SystemMLLang.lean — SYSTEM LEVEL, multi-language mode, for the documents of
  `C12_selectlanguage_e2e` (inert text and hard switches `\selectlanguage{name}`, package babel):
  the filter's theorem `PlainLang.tex2txt_selectlanguage` (`r.parts = refParts …`) composed with the
  shell's assembly of the pieces (Proofs/SystemML.lean) and its report pipeline.

  `shellPieces parts`   the requests of `run_proofreader_options`, in the order of its two loops
      (`for lang in plain_map: for plain, charmap in plain_map[lang]`): the languages in the order of
      `r.parts`, the pieces of a language in their order, a piece that is white space only skipped
      (`if not plain.strip(): continue`); each with the language code it is submitted under.

  (3a) `word_in_piece`  a stretch `w` of a text segment (`segs = pre ++ .txt (a ++ w ++ b) :: post`)
      whose first and last characters are no white space, `q = |render pre| + |a|` its offset in the
      file: the reference `refParts` has, in the list of the shell's requests, a piece with the run
      `RunAt pos off |w| (q+1)` that spells `w`.  Chain: `segMarks_append` (the marks of the word are
      consecutive in `segMarks`), `delLines_word` (LinesLang version: a word with visible ends survives
      the blank-line removal as a block), `cutRuns_block` (a block of characters without a language
      token in between lies in ONE section), `groupSecs_perm`, `shiftParts`.
  (3b) `refParts_lengths`, `shellPieces_nodup`, `piece_unique`, `runAt_unique`   every piece has a map
      as long as its text; no position occurs twice among all requests; hence the piece and the
      offset of the run are unique ("exactly one piece").
  (3c) `piece_language`  the piece that holds position `q+1` is submitted under `langAt … q`.
  (3d) `txt_not_backslash`  a visible character of a text segment is no backslash (the macro-name
      extension of `map_match_position` never applies).
  `flagged_word_ml`     the end-to-end theorem (statement: Properties/SystemMLStmt.lean,
      `C14_flagged_word_ml_e2e`);  `sorted_words_ml`  two flagged words, possibly in pieces of
      different languages, are reported in the order of the file.

  Side conditions: those of `C12_selectlanguage_e2e` (see Proofs/PlainLang.lean) and `wordEnds w`
  (first and last character of the flagged stretch no white space: white space at the ends may be
  deleted with the line of a switch).  NOT covered: see Properties/SystemMLStmt.lean.
-/
import YalafiVerif.Proofs.SystemML
import YalafiVerif.Proofs.SystemWordGroup
import YalafiVerif.Proofs.PlainLangCor
namespace Yalafi
namespace SystemML

open SystemWord Reports Html PlainLang
open LinesLang (Item Mark ch isLg delLines delGo delGo_nb)

/-! ### the requests of the shell -/

/-- a request: language code, text, position map -/
abbrev Req := Str × (Str × List Nat)

/-- the requests of `run_proofreader_options` in multi-language mode, in the order of its loops;
    `isBlank txt` is `not plain.strip()` -/
def shellPieces (parts : Parts) : List Req :=
  parts.flatMap (fun e => (e.2.filter (fun tp => !isBlank tp.1)).map (fun tp => (e.1, tp)))

theorem mem_shellPieces {parts : Parts} {pc : Req} :
    pc ∈ shellPieces parts ↔ ∃ e ∈ parts, e.1 = pc.1 ∧ pc.2 ∈ e.2 ∧ isBlank pc.2.1 = false := by
  simp only [shellPieces, List.mem_flatMap, List.mem_map, List.mem_filter, Bool.not_eq_true']
  constructor
  · rintro ⟨e, he, tp, ⟨htp, hb⟩, rfl⟩
    exact ⟨e, he, rfl, htp, hb⟩
  · rintro ⟨e, he, hk, htp, hb⟩
    exact ⟨e, he, pc.2, ⟨htp, hb⟩, by rw [hk]⟩

/-- the requests with the answers of the proofreader (one list of matches per request) -/
def withAnswers (pieces : List Req) (answers : List (List RawMatch)) : List Sub :=
  List.zipWith (fun pc ms => (pc.2, ms)) pieces answers

theorem withAnswers_pieces : ∀ (pieces : List Req) (answers : List (List RawMatch)),
    answers.length = pieces.length → (withAnswers pieces answers).map (·.1) = pieces.map (·.2)
  | [], [], _ => rfl
  | [], _ :: _, h => by simp at h
  | _ :: _, [], h => by simp at h
  | pc :: pieces, ms :: answers, h => by
    simp only [withAnswers, List.zipWith_cons_cons, List.map_cons]
    have := withAnswers_pieces pieces answers (by simpa using h)
    simp only [withAnswers] at this
    rw [this]

/-! ### (3a) a word survives the blank-line removal (version with language tokens) -/

theorem delGo_inner : ∀ (W : List (Char × Nat)) (cur : List Item) (b : Bool) (B : List Mark),
    (∀ wl, W.getLast? = some wl → isSpace wl.1 = false) → (W = [] → b = false) →
    delGo cur b false ((ch W).map some ++ B) = cur ++ ch W ++ delGo [] false false B
  | [], cur, b, B, _, hb => by
    rw [hb rfl]
    simp only [LinesLang.ch_nil, List.map_nil, List.nil_append, List.append_nil]
    exact delGo_nb B cur false
  | cp :: rest, cur, b, B, hlast, _ => by
    have hlast' : ∀ wl, rest.getLast? = some wl → isSpace wl.1 = false := by
      intro wl hwl
      apply hlast wl
      cases rest with
      | nil => simp at hwl
      | cons x xs => simpa [List.getLast?_cons_cons] using hwl
    simp only [LinesLang.ch_cons, List.map_cons, List.cons_append, delGo]
    by_cases hnl : (cp.1 == nl) = true
    · have hrest : rest ≠ [] := by
        intro hr
        subst hr
        have := hlast cp (by simp)
        have h2 := not_nl_of_not_space this
        rw [hnl] at h2; cases h2
      simp only [hnl, if_true, Bool.and_false, Bool.false_eq_true, if_false]
      rw [delGo_inner rest [] true B hlast' (fun h => absurd h hrest)]
      simp
    · simp only [hnl, Bool.false_eq_true, if_false]
      rw [delGo_inner rest (cur ++ [(Sum.inl cp : Item)]) (b && isSpace cp.1) B hlast' (fun h => by
        subst h
        have := hlast cp (by simp)
        simp [this])]
      simp

theorem delGo_word (w0 : Char × Nat) (W' : List (Char × Nat)) (cur : List Item) (b act : Bool)
    (B : List Mark) (h0 : isSpace w0.1 = false)
    (hlast : ∀ wl, (w0 :: W').getLast? = some wl → isSpace wl.1 = false) :
    delGo cur b act ((ch (w0 :: W')).map some ++ B) = cur ++ ch (w0 :: W') ++ delGo [] false false B := by
  have hnl := not_nl_of_not_space h0
  simp only [LinesLang.ch_cons, List.map_cons, List.cons_append, delGo, hnl, Bool.false_eq_true, if_false, h0,
    Bool.and_false]
  rw [delGo_nb, delGo_inner W' [] false B (fun wl hwl => by
    apply hlast wl
    cases W' with
    | nil => simp at hwl
    | cons x xs => simpa [List.getLast?_cons_cons] using hwl) (fun _ => rfl)]
  simp

theorem delGo_prefix (W : List (Char × Nat)) (B : List Mark)
    (hW : ∃ w0 W', W = w0 :: W' ∧ isSpace w0.1 = false)
    (hlast : ∀ wl, W.getLast? = some wl → isSpace wl.1 = false) :
    ∀ (A : List Mark) (cur : List Item) (b act : Bool),
      ∃ X, delGo cur b act (A ++ ((ch W).map some ++ B)) = X ++ (ch W ++ delGo [] false false B)
  | [], cur, b, act => by
    obtain ⟨w0, W', rfl, h0⟩ := hW
    exact ⟨cur, by rw [List.nil_append, delGo_word w0 W' cur b act B h0 hlast]; simp⟩
  | none :: xs, cur, b, act => by
    obtain ⟨X, hX⟩ := delGo_prefix W B hW hlast xs cur b true
    exact ⟨X, by simp only [List.cons_append, delGo]; exact hX⟩
  | some (.inr t) :: xs, cur, b, act => by
    simp only [List.cons_append, delGo]
    exact delGo_prefix W B hW hlast xs _ b act
  | some (.inl cp) :: xs, cur, b, act => by
    simp only [List.cons_append, delGo]
    split
    · obtain ⟨X, hX⟩ := delGo_prefix W B hW hlast xs [] true false
      exact ⟨_ ++ X, by rw [hX, List.append_assoc]⟩
    · exact delGo_prefix W B hW hlast xs _ _ act

/-- **a word of the reference is a contiguous block of the items** that the blank-line removal
    leaves (marks with language tokens) -/
theorem delLines_word (A B : List Mark) (W : List (Char × Nat))
    (hW : ∃ w0 W', W = w0 :: W' ∧ isSpace w0.1 = false)
    (hlast : ∀ wl, W.getLast? = some wl → isSpace wl.1 = false) :
    ∃ X Y, delLines (A ++ ((ch W).map some ++ B)) = X ++ (ch W ++ Y) := by
  obtain ⟨X, hX⟩ := delGo_prefix W B hW hlast A [] true false
  exact ⟨X, _, hX⟩

/-! ### (3a) a block of characters lies in one section -/

theorem cutRuns_acc : ∀ (items : List Item) (cur : Str) (brk : Bool) (acc : List (Char × Nat)), acc ≠ [] →
    ∃ D rest, cutRuns cur brk acc items =
      { lang := cur, back := false, brk := brk, txt := (acc ++ D).map (·.1), pos := (acc ++ D).map (·.2) } :: rest
  | [], cur, brk, acc, h => by
    refine ⟨[], [], ?_⟩
    have : acc.isEmpty = false := by cases acc with | nil => exact absurd rfl h | cons _ _ => rfl
    simp [cutRuns, emitRun, this]
  | .inl cp :: xs, cur, brk, acc, _ => by
    obtain ⟨D, rest, h⟩ := cutRuns_acc xs cur brk (acc ++ [cp]) (by simp)
    exact ⟨cp :: D, rest, by simp only [cutRuns]; rw [h]; simp⟩
  | .inr t :: xs, cur, brk, acc, hne => by
    simp only [cutRuns]
    split
    · exact cutRuns_acc xs cur brk acc hne
    · have : acc.isEmpty = false := by cases acc with | nil => exact absurd rfl hne | cons _ _ => rfl
      exact ⟨[], cutRuns (langCode t) (langBrk t) [] xs, by simp [emitRun, this]⟩

theorem cutRuns_block : ∀ (X : List Item) (cur : Str) (brk : Bool) (acc W : List (Char × Nat)) (Y : List Item),
    W ≠ [] → ∃ s ∈ cutRuns cur brk acc (X ++ (ch W ++ Y)), ∃ C D,
      s.txt = (C ++ (W ++ D)).map (·.1) ∧ s.pos = (C ++ (W ++ D)).map (·.2)
  | [], cur, brk, acc, W, Y, hW => by
    rw [List.nil_append, cutRuns_ch]
    obtain ⟨D, rest, h⟩ := cutRuns_acc Y cur brk (acc ++ W) (by simp [hW])
    rw [h]
    exact ⟨_, List.mem_cons_self .., acc, D, by simp, by simp⟩
  | .inl cp :: X, cur, brk, acc, W, Y, hW => by
    simp only [List.cons_append, cutRuns]
    exact cutRuns_block X cur brk _ W Y hW
  | .inr t :: X, cur, brk, acc, W, Y, hW => by
    simp only [List.cons_append, cutRuns]
    split
    · exact cutRuns_block X cur brk _ W Y hW
    · obtain ⟨s, hs, h⟩ := cutRuns_block X (langCode t) (langBrk t) [] W Y hW
      exact ⟨s, List.mem_append_right _ hs, h⟩

theorem emitRun_lengths (cur : Str) (brk : Bool) (acc : List (Char × Nat)) :
    ∀ s ∈ emitRun cur brk acc, s.txt.length = s.pos.length := by
  intro s hs
  unfold emitRun at hs
  split at hs
  · cases hs
  · rw [List.mem_singleton] at hs; subst hs; simp

theorem cutRuns_lengths : ∀ (items : List Item) (cur : Str) (brk : Bool) (acc : List (Char × Nat)),
    ∀ s ∈ cutRuns cur brk acc items, s.txt.length = s.pos.length
  | [], cur, brk, acc => emitRun_lengths cur brk acc
  | .inl cp :: xs, cur, brk, acc => by
    simp only [cutRuns]; exact cutRuns_lengths xs cur brk _
  | .inr t :: xs, cur, brk, acc => by
    simp only [cutRuns]
    split
    · exact cutRuns_lengths xs cur brk acc
    · intro s hs
      rcases List.mem_append.mp hs with hs | hs
      · exact emitRun_lengths cur brk acc s hs
      · exact cutRuns_lengths xs _ _ [] s hs

/-! ### the marks of a document `pre ++ rest` -/

theorem render_append : ∀ (pre rest : List PlainLang.Seg), PlainLang.render (pre ++ rest) = PlainLang.render pre ++ PlainLang.render rest
  | [], _ => rfl
  | s :: pre, rest => by simp [PlainLang.render, render_append pre rest]

theorem segMarks_append (T : PTables) (rest : List PlainLang.Seg) : ∀ (pre : List PlainLang.Seg) (p : Nat),
    segMarks T p (pre ++ rest) = segMarks T p pre ++ segMarks T (p + (PlainLang.render pre).length) rest
  | [], p => by simp [segMarks, PlainLang.render]
  | .txt s :: pre, p => by
    simp only [List.cons_append, segMarks, List.append_assoc]
    rw [segMarks_append T rest pre]
    simp only [PlainLang.render, PlainLang.Seg.render, List.length_append]
    rw [Nat.add_assoc]
  | .sel name :: pre, p => by
    simp only [List.cons_append, segMarks]
    rw [segMarks_append T rest pre, render_sel_length]
    rw [show p + (name.length + 17) + (PlainLang.render pre).length = p + (name.length + 17 + (PlainLang.render pre).length) by omega]

/-! ### (3b) lengths, uniqueness -/

/-- every piece of the reference has a map as long as its text -/
theorem refParts_lengths (T : PTables) (main : Str) (segs : List PlainLang.Seg) :
    ∀ e ∈ refParts T main segs, ∀ tp ∈ e.2, tp.1.length = tp.2.length := by
  intro e he tp htp
  obtain ⟨e0, he0, _, h2⟩ := mem_shiftParts _ e he
  rw [h2] at htp
  obtain ⟨tp0, htp0, rfl⟩ := List.mem_map.mp htp
  obtain ⟨s, hs, _, rfl⟩ := groupSecs_mem (refSecs T main segs) e0 he0 tp0 htp0
  simp only [shiftTp, List.length_map]
  exact cutRuns_lengths _ _ _ _ s hs

theorem flatMap_sublist {α β} (f g : α → List β) : ∀ (l : List α), (∀ a ∈ l, List.Sublist (f a) (g a)) →
    List.Sublist (l.flatMap f) (l.flatMap g)
  | [], _ => by simp
  | a :: l, h => by
    simp only [List.flatMap_cons]
    exact List.Sublist.append (h a (List.mem_cons_self ..))
      (flatMap_sublist f g l (fun b hb => h b (List.mem_cons_of_mem _ hb)))

theorem sublist_flatMap {α β} (f : α → List β) {l1 l2 : List α} (h : List.Sublist l1 l2) :
    List.Sublist (l1.flatMap f) (l2.flatMap f) := by
  induction h with
  | slnil => simp
  | cons a _ ih => simp only [List.flatMap_cons]; exact ih.trans (List.sublist_append_right _ _)
  | cons_cons a _ ih => simp only [List.flatMap_cons]; exact List.Sublist.append (List.Sublist.refl _) ih

theorem flatMap_congr' {α β} (f g : α → List β) : ∀ (l : List α), (∀ a ∈ l, f a = g a) →
    l.flatMap f = l.flatMap g
  | [], _ => rfl
  | a :: l, h => by
    simp only [List.flatMap_cons]
    rw [h a (List.mem_cons_self ..), flatMap_congr' f g l (fun b hb => h b (List.mem_cons_of_mem _ hb))]

/-- the positions of all requests form a sublist of the positions of all parts -/
theorem shellPieces_sublist (parts : Parts) (hlen : ∀ e ∈ parts, ∀ tp ∈ e.2, tp.1.length = tp.2.length) :
    List.Sublist ((shellPieces parts).flatMap (·.2.2)) ((partChars parts).map (·.2)) := by
  have h1 : (partChars parts).map (·.2) = parts.flatMap (fun e => e.2.flatMap (·.2)) := by
    simp only [partChars, List.map_flatMap]
    apply flatMap_congr'
    intro e he
    apply flatMap_congr'
    intro tp htp
    exact List.map_snd_zip (Nat.le_of_eq (hlen e he tp htp).symm)
  rw [h1]
  simp only [shellPieces, List.flatMap_assoc]
  apply flatMap_sublist
  intro e _
  rw [List.flatMap_map]
  exact sublist_flatMap _ List.filter_sublist

theorem shellPieces_nodup (T : PTables) (main : Str) (segs : List PlainLang.Seg) :
    ((shellPieces (refParts T main segs)).flatMap (·.2.2)).Nodup :=
  (refParts_nodup T main segs).sublist (shellPieces_sublist _ (refParts_lengths T main segs))

/-- in a list of lists without a repeated element, an element determines the index of its list -/
theorem nodup_flatMap_index {α β} [DecidableEq β] (f : α → List β) : ∀ (l : List α), (l.flatMap f).Nodup →
    ∀ (i j : Nat) (a b : α) (v : β), l[i]? = some a → l[j]? = some b → v ∈ f a → v ∈ f b → i = j
  | [], _, i, j, a, b, v, hi, _, _, _ => by simp at hi
  | x :: l, h, i, j, a, b, v, hi, hj, ha, hb => by
    simp only [List.flatMap_cons] at h
    obtain ⟨_, h2, h3⟩ := List.nodup_append.mp h
    cases i with
    | zero =>
      cases j with
      | zero => rfl
      | succ j =>
        simp only [List.getElem?_cons_zero, Option.some.injEq] at hi
        simp only [List.getElem?_cons_succ] at hj
        subst hi
        exact absurd rfl (h3 v ha v (List.mem_flatMap.mpr ⟨b, List.mem_of_getElem? hj, hb⟩))
    | succ i =>
      cases j with
      | zero =>
        simp only [List.getElem?_cons_zero, Option.some.injEq] at hj
        simp only [List.getElem?_cons_succ] at hi
        subst hj
        exact absurd rfl (h3 v hb v (List.mem_flatMap.mpr ⟨a, List.mem_of_getElem? hi, ha⟩))
      | succ j =>
        simp only [List.getElem?_cons_succ] at hi hj
        rw [nodup_flatMap_index f l h2 i j a b v hi hj ha hb]

/-- **exactly one piece**: a position occurs in at most one request -/
theorem piece_unique (T : PTables) (main : Str) (segs : List PlainLang.Seg) (i j : Nat) (pc1 pc2 : Req) (v : Nat)
    (hi : (shellPieces (refParts T main segs))[i]? = some pc1)
    (hj : (shellPieces (refParts T main segs))[j]? = some pc2) (h1 : v ∈ pc1.2.2) (h2 : v ∈ pc2.2.2) :
    i = j :=
  nodup_flatMap_index (·.2.2) _ (shellPieces_nodup T main segs) i j pc1 pc2 v hi hj h1 h2

theorem piece_nodup (T : PTables) (main : Str) (segs : List PlainLang.Seg) (pc : Req)
    (h : pc ∈ shellPieces (refParts T main segs)) : pc.2.2.Nodup := by
  have := shellPieces_nodup T main segs
  obtain ⟨P1, P2, hp⟩ := List.append_of_mem h
  rw [hp, List.flatMap_append, List.flatMap_cons] at this
  exact (List.nodup_append.mp (List.nodup_append.mp this).2.1).1

/-- in a map without a repeated entry a run stands at one offset only -/
theorem runAt_unique (pos : List Nat) (hnd : pos.Nodup) (o o' l q : Nat) (hl : 1 ≤ l)
    (h : RunAt pos o l q) (h' : RunAt pos o' l q) : o = o' := by
  have a := h.get 0 (by omega)
  have b := h'.get 0 (by omega)
  simp only [Nat.add_zero] at a b
  have ha : o < pos.length := by
    rcases Nat.lt_or_ge o pos.length with h3 | h3
    · exact h3
    · rw [List.getElem?_eq_none h3] at a; cases a
  have hb : o' < pos.length := by
    rcases Nat.lt_or_ge o' pos.length with h3 | h3
    · exact h3
    · rw [List.getElem?_eq_none h3] at b; cases b
  exact (List.getElem?_inj ha hnd).mp (by rw [a, b])

/-! ### (3a) the word in a piece -/

/-- **every word of a text segment gives a run in a request of the shell** (reference level) -/
theorem word_in_piece (T : PTables) (main : Str) (segs pre post : List PlainLang.Seg) (a w b : Str)
    (hsegs : segs = pre ++ .txt (a ++ (w ++ b)) :: post) (hw : wordEnds w = true) :
    ∃ pc ∈ shellPieces (refParts T main segs), ∃ off, off + w.length ≤ pc.2.1.length ∧
      RunAt pc.2.2 off w.length ((PlainLang.render pre).length + a.length + 1) ∧
      (pc.2.1.drop off).take w.length = w := by
  obtain ⟨hW, hlast⟩ := posText_word ((PlainLang.render pre).length + a.length) hw
  have hmarks : segMarks T 0 segs
      = (segMarks T 0 pre ++ (ch (posText (PlainLang.render pre).length a)).map some)
        ++ ((ch (posText ((PlainLang.render pre).length + a.length) w)).map some
          ++ ((ch (posText ((PlainLang.render pre).length + a.length + w.length) b)).map some
            ++ segMarks T ((PlainLang.render pre).length + (a ++ (w ++ b)).length) post)) := by
    rw [hsegs, segMarks_append T _ pre 0]
    simp only [Nat.zero_add, segMarks, posText_append, LinesLang.ch_append, List.map_append, List.append_assoc]
  obtain ⟨X, Y, hd⟩ := delLines_word _ _ (posText ((PlainLang.render pre).length + a.length) w) hW hlast
  rw [← hmarks] at hd
  have hne : posText ((PlainLang.render pre).length + a.length) w ≠ [] := by
    obtain ⟨w0, W', h0, _⟩ := hW
    rw [h0]; simp
  obtain ⟨s, hs, C, D, hst, hsp⟩ := cutRuns_block X main false [] _ Y hne
  rw [← hd] at hs
  have hs' : s ∈ refSecs T main segs := hs
  have hmem : (s.txt, s.pos) ∈ (groupSecs (refSecs T main segs)).flatMap (·.2) :=
    ((groupSecs_perm _).mem_iff).mpr (List.mem_map.mpr ⟨s, hs', rfl⟩)
  obtain ⟨e, he, htp⟩ := List.mem_flatMap.mp hmem
  have he' : (e.1, e.2.map shiftTp) ∈ refParts T main segs := by
    simp only [refParts, shiftParts, List.mem_map]
    exact ⟨e, he, rfl⟩
  have hout : C ++ (posText ((PlainLang.render pre).length + a.length) w ++ D)
      = C ++ (posText ((PlainLang.render pre).length + a.length) w ++ D) := rfl
  have hlw : (posText ((PlainLang.render pre).length + a.length) w).length = w.length := by
    rw [← List.length_map (f := (·.1)), posText_fst]
  obtain ⟨b1, b2, b3⟩ := run_of_decomp _ C _ D ((PlainLang.render pre).length + a.length) hout
    (by rw [posText_snd, hlw])
  rw [hlw] at b1 b2 b3
  rw [posText_fst] at b3
  have hpos : (shiftTp (s.txt, s.pos)).2
      = (C ++ (posText ((PlainLang.render pre).length + a.length) w ++ D)).map (·.2 + 1) := by
    simp only [shiftTp, hsp, List.map_map]; rfl
  have htxt : (shiftTp (s.txt, s.pos)).1
      = (C ++ (posText ((PlainLang.render pre).length + a.length) w ++ D)).map (·.1) := hst
  refine ⟨(e.1, shiftTp (s.txt, s.pos)), ?_, C.length, ?_, ?_, ?_⟩
  · refine mem_shellPieces.mpr ⟨_, he', rfl, List.mem_map.mpr ⟨_, htp, rfl⟩, ?_⟩
    obtain ⟨w0, W', h0, hv⟩ := hW
    show isBlank (shiftTp (s.txt, s.pos)).1 = false
    rw [htxt, h0]
    simp [isBlank, hv]
  · show C.length + w.length ≤ (shiftTp (s.txt, s.pos)).1.length
    rw [htxt]; simpa using b1
  · show RunAt (shiftTp (s.txt, s.pos)).2 _ _ _
    rw [hpos]; exact b2
  · show ((shiftTp (s.txt, s.pos)).1.drop _).take _ = w
    rw [htxt]; exact b3

/-! ### (3c) the language of the piece -/

/-- a request that holds the (1-based) position `p + 1` is submitted under the language code in
    force at `p` -/
theorem piece_language (T : PTables) (main : Str) (segs : List PlainLang.Seg) (pc : Req)
    (hpc : pc ∈ shellPieces (refParts T main segs)) (p : Nat) (hp : p + 1 ∈ pc.2.2) :
    pc.1 = PlainLang.langAt T main 0 segs p := by
  obtain ⟨e, he, hk, htp, _⟩ := mem_shellPieces.mp hpc
  have hlen := refParts_lengths T main segs e he pc.2 htp
  obtain ⟨i, hi, hget⟩ := List.getElem_of_mem hp
  have hi' : i < pc.2.1.length := by omega
  have hz : (pc.2.1[i], p + 1) ∈ tpChars pc.2 := by
    simp only [tpChars]
    rw [← hget]
    have : i < (pc.2.1.zip pc.2.2).length := by simp [List.length_zip]; omega
    have h2 := List.getElem_mem this
    rwa [List.getElem_zip] at h2
  obtain ⟨p', h1, _, h3⟩ := refParts_language T main segs e he pc.2 htp _ _ hz
  have : p' = p := by omega
  rw [← hk, h3, this]

/-! ### (3d) a visible text character is no backslash -/

theorem segsOk_drop (T : PTables) (rest : List PlainLang.Seg) : ∀ (pre : List PlainLang.Seg) (st : PState),
    PlainLang.segsOk T st (pre ++ rest) = true → ∃ st', PlainLang.segsOk T st' rest = true
  | [], st, h => ⟨st, h⟩
  | .txt s :: pre, st, h => by
    simp only [List.cons_append, PlainLang.segsOk, Bool.and_eq_true] at h
    exact segsOk_drop T rest pre st h.2
  | .sel name :: pre, st, h => by
    simp only [List.cons_append, PlainLang.segsOk, Bool.and_eq_true] at h
    exact segsOk_drop T rest pre _ h.2

theorem textOk_mid (T : PTables) (st : PState) (c : Char) (cs R : Str) :
    ∀ (a : Str), PlainFootnote.textOk T st (a ++ c :: cs) R = true → PlainFootnote.chrOk T st c (cs ++ R) = true
  | [], h => by
    simp only [List.nil_append, PlainFootnote.textOk, Bool.and_eq_true] at h
    exact h.1
  | x :: a, h => by
    simp only [List.cons_append, PlainFootnote.textOk, Bool.and_eq_true] at h
    exact textOk_mid T st c cs R a h.2

theorem txt_not_backslash (T : PTables) (st : PState) (pre post : List PlainLang.Seg) (a cs : Str) (c : Char)
    (h : PlainLang.segsOk T st (pre ++ .txt (a ++ c :: cs) :: post) = true) (hc : isSpace c = false) : c ≠ '\\' := by
  obtain ⟨st', h1⟩ := segsOk_drop T _ pre st h
  simp only [PlainLang.segsOk, Bool.and_eq_true] at h1
  have h2 := textOk_mid T st' c cs _ a h1.1.1
  simp only [PlainFootnote.chrOk, Bool.and_eq_true, Bool.or_eq_true, hc, Bool.false_eq_true, false_or,
    Bool.not_eq_true'] at h2
  intro he
  subst he
  have := h2.2.1
  revert this
  decide

/-! ### the end-to-end theorems -/

/-- a list of requests with answers whose pieces are `pieces`: the `i`-th request, split off -/
theorem subs_split (subs : List Sub) (pieces : List Req) (hsub : subs.map (·.1) = pieces.map (·.2))
    (i : Nat) (pc : Req) (hi : pieces[i]? = some pc) :
    ∃ x, subs[i]? = some x ∧ x.1 = pc.2 ∧ subs = subs.take i ++ x :: subs.drop (i + 1) ∧
      ∀ y ∈ subs.take i, ∃ pc' ∈ pieces, y.1 = pc'.2 := by
  have hl : subs.length = pieces.length := by simpa using congrArg List.length hsub
  have hlt : i < pieces.length := by
    rcases Nat.lt_or_ge i pieces.length with h | h
    · exact h
    · rw [List.getElem?_eq_none h] at hi; cases hi
  have hlt' : i < subs.length := by omega
  have hx : (subs.map (·.1))[i]? = (pieces.map (·.2))[i]? := by rw [hsub]
  rw [List.getElem?_map, List.getElem?_map, hi, List.getElem?_eq_getElem hlt'] at hx
  refine ⟨subs[i], List.getElem?_eq_getElem hlt', by simpa using hx, ?_, ?_⟩
  · conv => lhs; rw [← List.take_append_drop i subs]
    rw [List.drop_eq_getElem_cons hlt']
  · intro y hy
    have hy' : y ∈ subs := List.mem_of_mem_take hy
    have : y.1 ∈ subs.map (·.1) := List.mem_map_of_mem hy'
    rw [hsub] at this
    obtain ⟨pc', hpc', he⟩ := List.mem_map.mp this
    exact ⟨pc', hpc', he.symm⟩

/-- **a flagged word in multi-language mode, end to end through filter and shell** (documents of
    `C12_selectlanguage_e2e`); the statement is explained at `C14_flagged_word_ml_e2e` -/
theorem flagged_word_ml (T : PTables) (o : Options) (fs : FS) (thresh : Nat) (segs : List PlainLang.Seg)
    (fuel : Nat) (st1 : PState)
    (hdefs : o.defs = []) (hextr : o.extr = []) (hrepl : o.hasRepl = false)
    (hbrk : T.selectBrk = true)
    (hinit : initParser T fuel o (initialState T o true fs) = .ok ((), st1))
    (hml : st1.multiLanguage = true) (hok : PlainLang.segsOk T st1 segs = true)
    (hf : (PlainLang.render segs).length + 2 ≤ fuel)
    (pre post : List PlainLang.Seg) (a w b : Str) (hsegs : segs = pre ++ .txt (a ++ (w ++ b)) :: post)
    (hw : wordEnds w = true) :
    ((PlainLang.render segs).drop ((PlainLang.render pre).length + a.length)).take w.length = w ∧
    (PlainLang.render pre).length + a.length + w.length ≤ (PlainLang.render segs).length ∧
    ∃ r, tex2txt T fuel (PlainLang.render segs) o true thresh fs = .ok r ∧
      (∀ pc ∈ shellPieces r.parts, pc.2.1.length = pc.2.2.length ∧ isBlank pc.2.1 = false) ∧
      (∃ (i : Nat) (pc : Req) (off : Nat), (shellPieces r.parts)[i]? = some pc ∧ off + w.length ≤ pc.2.1.length ∧
        RunAt pc.2.2 off w.length ((PlainLang.render pre).length + a.length + 1) ∧
        (pc.2.1.drop off).take w.length = w ∧
        ∀ (j : Nat) (pc' : Req) (off' : Nat), (shellPieces r.parts)[j]? = some pc' →
          RunAt pc'.2.2 off' w.length ((PlainLang.render pre).length + a.length + 1) → j = i ∧ off' = off) ∧
      ∀ (i : Nat) (pc : Req) (off : Nat), (shellPieces r.parts)[i]? = some pc →
        RunAt pc.2.2 off w.length ((PlainLang.render pre).length + a.length + 1) →
        pc.1 = PlainLang.langAt T o.lang 0 segs ((PlainLang.render pre).length + a.length) ∧
        ∀ (subs : List Sub), subs.map (·.1) = (shellPieces r.parts).map (·.2) →
          ∃ x, subs[i]? = some x ∧ x.1 = pc.2 ∧
            (∀ m ∈ x.2, shiftMatch (shiftOf (subs.take i)) m ∈ (submit subs).hits) ∧
            off + shiftOf (subs.take i) + w.length < (submit subs).charmapTot.length ∧
            mapMatch (submit subs).charmapTot (PlainLang.render segs) ((off + shiftOf (subs.take i) : Nat) : Int)
                (some (.int w.length))
              = .ok ((((PlainLang.render pre).length + a.length : Nat) : Int), (w.length : Int)) ∧
            reportAll (submit subs).charmapTot (PlainLang.render segs) ((off + shiftOf (subs.take i) : Nat) : Int)
                (some (.int w.length))
              = .ok (locate (PlainLang.render segs) (((PlainLang.render pre).length + a.length : Nat) : Int) (w.length : Int)) ∧
            WordReported (PlainLang.render segs) ((PlainLang.render pre).length + a.length) w.length
              (locate (PlainLang.render segs) (((PlainLang.render pre).length + a.length : Nat) : Int) (w.length : Int)) ∧
            HtmlWord (PlainLang.render segs) (submit subs).charmapTot (off + shiftOf (subs.take i)) w.length
              ((PlainLang.render pre).length + a.length) := by
  obtain ⟨⟨c, cs, hwc, hc⟩, _⟩ := wordEnds_facts hw
  have hl : 1 ≤ w.length := by rw [hwc]; simp
  have hsrc : PlainLang.render segs = (PlainLang.render pre ++ a) ++ (w ++ (b ++ PlainLang.render post)) := by
    rw [hsegs, render_append]; simp [PlainLang.render, PlainLang.Seg.render]
  have hplen : (PlainLang.render pre ++ a).length = (PlainLang.render pre).length + a.length := by simp
  have hword : ((PlainLang.render segs).drop ((PlainLang.render pre).length + a.length)).take w.length = w := by
    rw [hsrc, ← hplen, List.drop_left, List.take_left]
  have hin : (PlainLang.render pre).length + a.length + w.length ≤ (PlainLang.render segs).length := by
    rw [hsrc]; simp; omega
  have hbs : ¬ (w.length = 1 ∧ (PlainLang.render segs)[(PlainLang.render pre).length + a.length]? = some '\\') := by
    rintro ⟨_, hb⟩
    have hget : (PlainLang.render segs)[(PlainLang.render pre).length + a.length]? = some c := by
      rw [hsrc, ← hplen, List.getElem?_append_right (Nat.le_refl _), hwc]; simp
    rw [hget] at hb
    cases hb
    rw [hsegs, hwc] at hok
    exact txt_not_backslash T st1 pre post a (cs ++ b) '\\' (by simpa using hok) hc rfl
  obtain ⟨r, h1, h2, _⟩ := tex2txt_selectlanguage T o fs thresh segs fuel st1 hdefs hextr hrepl
    hbrk hinit hml hok hf
  refine ⟨hword, hin, r, h1, ?_, ?_, ?_⟩
  · intro pc hpc
    rw [h2] at hpc
    obtain ⟨e, he, _, htp, hb⟩ := mem_shellPieces.mp hpc
    exact ⟨refParts_lengths T o.lang segs e he pc.2 htp, hb⟩
  · obtain ⟨pc, hpc, off, g1, g2, g3⟩ := word_in_piece T o.lang segs pre post a w b hsegs hw
    obtain ⟨i, hi, hget⟩ := List.getElem_of_mem hpc
    have hi' : (shellPieces (refParts T o.lang segs))[i]? = some pc := by
      rw [List.getElem?_eq_getElem hi, hget]
    rw [h2]
    refine ⟨i, pc, off, hi', g1, g2, g3, ?_⟩
    intro j pc' off' hj hrun'
    have m1 : (PlainLang.render pre).length + a.length + 1 ∈ pc.2.2 :=
      List.mem_of_getElem? (by simpa using g2.get 0 (by omega))
    have m2 : (PlainLang.render pre).length + a.length + 1 ∈ pc'.2.2 :=
      List.mem_of_getElem? (by simpa using hrun'.get 0 (by omega))
    have hji := piece_unique T o.lang segs j i pc' pc _ hj hi' m2 m1
    subst hji
    rw [hi'] at hj
    cases hj
    exact ⟨rfl, runAt_unique _ (piece_nodup T o.lang segs pc hpc) _ _ _ _ hl hrun' g2⟩
  · intro i pc off hi hrun
    rw [h2] at hi
    have hpc : pc ∈ shellPieces (refParts T o.lang segs) := List.mem_of_getElem? hi
    have m1 : (PlainLang.render pre).length + a.length + 1 ∈ pc.2.2 :=
      List.mem_of_getElem? (by simpa using hrun.get 0 (by omega))
    refine ⟨piece_language T o.lang segs pc hpc _ m1, ?_⟩
    intro subs hsub
    rw [h2] at hsub
    obtain ⟨x, hx1, hx2, hx3, hx4⟩ := subs_split subs _ hsub i pc hi
    have hlen : ∀ y ∈ subs.take i, y.1.1.length = y.1.2.length := by
      intro y hy
      obtain ⟨pc', hpc', he⟩ := hx4 y hy
      obtain ⟨e, he', _, htp, _⟩ := mem_shellPieces.mp hpc'
      rw [he]
      exact refParts_lengths T o.lang segs e he' pc'.2 htp
    rw [← hx2] at hrun
    obtain ⟨k1, _, _, k4, k5, k6, k7, k8⟩ := ml_run_reported (PlainLang.render segs) (subs.take i) (subs.drop (i + 1)) x
      off w.length _ hl hlen hrun hin hbs
    rw [← hx3] at k1 k4 k5 k6 k8
    exact ⟨x, hx1, hx2, k1, k4, k5, k6, k7, k8⟩

/-- **(4) two flagged words, possibly in pieces of different languages, are reported in the order of
    the file** (documents of `C12_selectlanguage_e2e`) -/
theorem sorted_words_ml (T : PTables) (o : Options) (fs : FS) (thresh : Nat) (segs : List PlainLang.Seg)
    (fuel : Nat) (st1 : PState)
    (hdefs : o.defs = []) (hextr : o.extr = []) (hrepl : o.hasRepl = false)
    (hbrk : T.selectBrk = true)
    (hinit : initParser T fuel o (initialState T o true fs) = .ok ((), st1))
    (hml : st1.multiLanguage = true) (hok : PlainLang.segsOk T st1 segs = true)
    (hf : (PlainLang.render segs).length + 2 ≤ fuel)
    (pre1 post1 : List PlainLang.Seg) (a1 w1 b1 : Str) (hsegs1 : segs = pre1 ++ .txt (a1 ++ (w1 ++ b1)) :: post1)
    (pre2 post2 : List PlainLang.Seg) (a2 w2 b2 : Str) (hsegs2 : segs = pre2 ++ .txt (a2 ++ (w2 ++ b2)) :: post2)
    (hw1 : wordEnds w1 = true) (hw2 : wordEnds w2 = true)
    (hlt : (PlainLang.render pre1).length + a1.length < (PlainLang.render pre2).length + a2.length) :
    ∃ r, tex2txt T fuel (PlainLang.render segs) o true thresh fs = .ok r ∧
      (∃ (i1 : Nat) (pc1 : Req) (off1 i2 : Nat) (pc2 : Req) (off2 : Nat), (shellPieces r.parts)[i1]? = some pc1 ∧ (shellPieces r.parts)[i2]? = some pc2 ∧
        RunAt pc1.2.2 off1 w1.length ((PlainLang.render pre1).length + a1.length + 1) ∧
        RunAt pc2.2.2 off2 w2.length ((PlainLang.render pre2).length + a2.length + 1)) ∧
      ∀ (subs : List Sub) (i1 i2 : Nat) (x1 x2 : Sub) (m1 m2 : RawMatch) (off1 off2 : Nat) (out : List RawMatch),
        subs.map (·.1) = (shellPieces r.parts).map (·.2) →
        subs[i1]? = some x1 → subs[i2]? = some x2 → m1 ∈ x1.2 → m2 ∈ x2.2 →
        m1.offset = (off1 : Int) → m2.offset = (off2 : Int) →
        RunAt x1.1.2 off1 w1.length ((PlainLang.render pre1).length + a1.length + 1) →
        RunAt x2.1.2 off2 w2.length ((PlainLang.render pre2).length + a2.length + 1) →
        sortMatches (submit subs).charmapTot (submit subs).hits = .ok out →
        ∃ X Y Z, out = X ++ shiftMatch (shiftOf (subs.take i1)) m1
          :: (Y ++ shiftMatch (shiftOf (subs.take i2)) m2 :: Z) := by
  obtain ⟨r, h1, h2, _⟩ := tex2txt_selectlanguage T o fs thresh segs fuel st1 hdefs hextr hrepl
    hbrk hinit hml hok hf
  obtain ⟨⟨c1, cs1, hc1, _⟩, _⟩ := wordEnds_facts hw1
  obtain ⟨⟨c2, cs2, hc2, _⟩, _⟩ := wordEnds_facts hw2
  have hl1 : 1 ≤ w1.length := by rw [hc1]; simp
  have hl2 : 1 ≤ w2.length := by rw [hc2]; simp
  refine ⟨r, h1, ?_, ?_⟩
  · obtain ⟨pc1, hpc1, off1, _, g1, _⟩ := word_in_piece T o.lang segs pre1 post1 a1 w1 b1 hsegs1 hw1
    obtain ⟨pc2, hpc2, off2, _, g2, _⟩ := word_in_piece T o.lang segs pre2 post2 a2 w2 b2 hsegs2 hw2
    obtain ⟨i1, hi1, hget1⟩ := List.getElem_of_mem hpc1
    obtain ⟨i2, hi2, hget2⟩ := List.getElem_of_mem hpc2
    rw [h2]
    have e1 : (shellPieces (refParts T o.lang segs))[i1]? = some pc1 := by
      rw [List.getElem?_eq_getElem hi1, hget1]
    have e2 : (shellPieces (refParts T o.lang segs))[i2]? = some pc2 := by
      rw [List.getElem?_eq_getElem hi2, hget2]
    exact ⟨i1, pc1, off1, i2, pc2, off2, e1, e2, g1, g2⟩
  · intro subs i1 i2 x1 x2 m1 m2 off1 off2 out hsub hx1 hx2 hm1 hm2 ho1 ho2 hr1 hr2 hs
    rw [h2] at hsub
    have hlenAll : ∀ y ∈ subs, y.1.1.length = y.1.2.length := by
      intro y hy
      have : y.1 ∈ subs.map (·.1) := List.mem_map_of_mem hy
      rw [hsub] at this
      obtain ⟨pc', hpc', he⟩ := List.mem_map.mp this
      obtain ⟨e, he', _, htp, _⟩ := mem_shellPieces.mp hpc'
      rw [← he]
      exact refParts_lengths T o.lang segs e he' pc'.2 htp
    have split : ∀ (i : Nat) (x : Sub), subs[i]? = some x → subs = subs.take i ++ x :: subs.drop (i + 1) := by
      intro i x hx
      have hlt : i < subs.length := by
        rcases Nat.lt_or_ge i subs.length with h | h
        · exact h
        · rw [List.getElem?_eq_none h] at hx; cases hx
      rw [List.getElem?_eq_getElem hlt] at hx
      cases hx
      conv => lhs; rw [← List.take_append_drop i subs]
      rw [List.drop_eq_getElem_cons hlt]
    exact ml_runs_sorted subs _ _ _ _ x1 x2 (split i1 x1 hx1) (split i2 x2 hx2)
      (fun y hy => hlenAll y (List.mem_of_mem_take hy)) (fun y hy => hlenAll y (List.mem_of_mem_take hy))
      m1 m2 hm1 hm2 off1 w1.length _ off2 w2.length _ ho1 ho2 hl1 hl2 hr1 hr2 hlt out hs

end SystemML
end Yalafi
