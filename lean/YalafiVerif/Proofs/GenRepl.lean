/-
  Proofs/GenRepl.lean — `Parser.generate_replacements` (model: `generateReplacements`):
  C09 (expansion = substitution of the arguments for the `#k`) and
  C04 (where the tokens of an expansion are anchored).
-/
import YalafiVerif.Model.PState
namespace Yalafi

/-- reference: the replacement text with every `#k` replaced by the k-th argument -/
def substRef (args : List (List Tok)) (repl : List Tok) : List Tok :=
  repl.flatMap (fun t => match argRef t with
    | some k => (pyIndex args k).getD []
    | none => [t])

def noAction (ts : List Tok) : List Tok := ts.filter (fun t => t.kind != .action)

/-- "position `p` is the start of the call or the position of a token of an argument" -/
def AnchorPos (args : List (List Tok)) (start p : Nat) : Prop :=
  p = start ∨ ∃ a ∈ args, ∃ u ∈ a, p = u.pos

theorem noAction_append (a b : List Tok) : noAction (a ++ b) = noAction a ++ noAction b := by
  simp [noAction]

theorem noAction_mkAction (p : Nat) : noAction [mkAction p] = [] := by
  simp [noAction, mkAction]

theorem pyIndex_mem' {α} (xs : List α) (k : Nat) (a : α) (h : pyIndex xs k = some a) : a ∈ xs := by
  unfold pyIndex at h
  split at h
  · exact List.mem_of_getLast? h
  · exact List.mem_of_getElem? h

/-! ### C09 -/

theorem substRef_cons (args : List (List Tok)) (t : Tok) (ts : List Tok) :
    substRef args (t :: ts) =
      (match argRef t with | some k => (pyIndex args k).getD [] | none => [t]) ++ substRef args ts := by
  simp [substRef]

theorem genReplLoop_subst (args : List (List Tok)) :
    ∀ (repl : List Tok) (cur : Nat) (out0 out : List Tok),
      genReplLoop args repl cur out0 = some out →
      (noAction out).map (fun t => (t.kind, t.txt))
        = (noAction out0).map (fun t => (t.kind, t.txt))
          ++ (noAction (substRef args repl)).map (fun t => (t.kind, t.txt)) := by
  intro repl
  induction repl with
  | nil =>
    intro cur out0 out h
    simp only [genReplLoop, Option.some.injEq] at h
    subst h
    simp [substRef, noAction]
  | cons t ts ih =>
    intro cur out0 out h
    simp only [genReplLoop] at h
    rw [substRef_cons]
    cases hk : argRef t with
    | none =>
      rw [hk] at h; dsimp only at h
      have := ih _ _ _ h
      rw [this]
      simp only [noAction_append, List.map_append, List.append_assoc]
      congr 1
      congr 1
      by_cases hka : t.kind = .action <;> simp [noAction, hka]
    | some k =>
      rw [hk] at h; dsimp only at h
      cases hp : pyIndex args k with
      | none => rw [hp] at h; simp at h
      | some a =>
        rw [hp] at h
        simp only at h
        simp only [hp, Option.getD_some]
        cases a with
        | nil =>
          simp only [List.head?_nil] at h
          have := ih _ _ _ h
          rw [this]
          simp [noAction]
        | cons x xs =>
          have hl : ∃ l, (x :: xs).getLast? = some l := by
            cases hl : (x :: xs).getLast? with
            | none => simp at hl
            | some l => exact ⟨l, rfl⟩
          obtain ⟨l, hl⟩ := hl
          rw [hl] at h
          simp only [List.head?_cons] at h
          have := ih _ _ _ h
          rw [this]
          simp only [noAction_append, noAction_mkAction, List.map_append, List.append_assoc,
            List.map_nil, List.nil_append]

/-- C09: a user definition expands by substitution (kinds and texts; positions are C04's subject) -/
theorem genRepl_subst (args : List (List Tok)) (repl : List Tok) (start : Nat) (out : List Tok)
    (h : generateReplacements args repl start = some out) :
    (noAction out).map (fun t => (t.kind, t.txt))
      = (noAction (substRef args repl)).map (fun t => (t.kind, t.txt)) := by
  unfold generateReplacements at h
  split at h
  · simp at h
  · have := genReplLoop_subst args repl _ [] out h
    simpa [noAction] using this

/-! ### C04 -/

theorem initCurPos_anchor (args : List (List Tok)) (start : Nat) :
    ∀ (repl : List Tok) (cur c : Nat), AnchorPos args start cur →
      initCurPos args repl cur = some c → AnchorPos args start c := by
  intro repl
  induction repl with
  | nil => intro cur c hc h; simp only [initCurPos, Option.some.injEq] at h; subst h; exact hc
  | cons t ts ih =>
    intro cur c hc h
    simp only [initCurPos] at h
    cases hk : argRef t with
    | none => rw [hk] at h; exact ih _ _ hc h
    | some k =>
      rw [hk] at h; dsimp only at h
      cases hp : pyIndex args k with
      | none => rw [hp] at h; simp at h
      | some a =>
        rw [hp] at h
        simp only at h
        refine ih _ _ ?_ h
        cases hh : a.head? with
        | none => exact hc
        | some x =>
          exact Or.inr ⟨a, pyIndex_mem' _ _ _ hp, x, List.mem_of_mem_head? hh, rfl⟩

/-- what is true of every token of an expansion -/
def AnchorTok (args : List (List Tok)) (start : Nat) (t : Tok) : Prop :=
  (∃ a ∈ args, t ∈ a) ∨
  (t.fix = true ∧ AnchorPos args start t.pos) ∨
  (∃ a ∈ args, ∃ u ∈ a, t = mkAction u.pos)

theorem genReplLoop_anchor (args : List (List Tok)) (start : Nat) :
    ∀ (repl : List Tok) (cur : Nat) (out0 out : List Tok),
      AnchorPos args start cur → (∀ t ∈ out0, AnchorTok args start t) →
      genReplLoop args repl cur out0 = some out → ∀ t ∈ out, AnchorTok args start t := by
  intro repl
  induction repl with
  | nil =>
    intro cur out0 out _ h0 h
    simp only [genReplLoop, Option.some.injEq] at h
    subst h; exact h0
  | cons t ts ih =>
    intro cur out0 out hc h0 h
    simp only [genReplLoop] at h
    cases hk : argRef t with
    | none =>
      rw [hk] at h; dsimp only at h
      refine ih _ _ _ hc ?_ h
      intro u hu
      rcases List.mem_append.1 hu with hu | hu
      · exact h0 u hu
      · simp only [List.mem_singleton] at hu
        subst hu
        exact Or.inr (Or.inl ⟨rfl, hc⟩)
    | some k =>
      rw [hk] at h; dsimp only at h
      cases hp : pyIndex args k with
      | none => rw [hp] at h; simp at h
      | some a =>
        rw [hp] at h
        simp only at h
        have ha := pyIndex_mem' _ _ _ hp
        cases hh : a.head? with
        | none => rw [hh] at h; exact ih _ _ _ hc h0 h
        | some x =>
          rw [hh] at h
          cases hl : a.getLast? with
          | none => rw [hl] at h; exact ih _ _ _ hc h0 h
          | some l =>
            rw [hl] at h
            simp only at h
            have hx : x ∈ a := List.mem_of_mem_head? hh
            have hlm : l ∈ a := List.mem_of_getLast? hl
            refine ih _ _ _ (Or.inr ⟨a, ha, l, hlm, rfl⟩) ?_ h
            intro u hu
            simp only [List.mem_append, List.mem_singleton] at hu
            rcases hu with ((hu | hu) | hu) | hu
            · exact h0 u hu
            · exact Or.inr (Or.inr ⟨a, ha, x, hx, hu⟩)
            · exact Or.inl ⟨a, ha, hu⟩
            · exact Or.inr (Or.inr ⟨a, ha, l, hlm, hu⟩)

/-- C04 (corrected: `mkAction` is NOT `fix`, so the action tokens the loop puts around an
    argument form a third class): every token of an expansion is either a token of an argument
    (unchanged), or is pinned (`fix = true`) to the start of the call or to the position of an
    argument token, or is the (empty, position-counting) action token `mkAction u.pos` at the
    position of an argument token `u`. -/
theorem genRepl_anchor (args : List (List Tok)) (repl : List Tok) (start : Nat) (out : List Tok)
    (h : generateReplacements args repl start = some out) :
    ∀ t ∈ out, (∃ a ∈ args, t ∈ a) ∨
      (t.fix = true ∧ (t.pos = start ∨ ∃ a ∈ args, ∃ u ∈ a, t.pos = u.pos)) ∨
      (∃ a ∈ args, ∃ u ∈ a, t = mkAction u.pos) := by
  unfold generateReplacements at h
  split at h
  · simp at h
  · rename_i cur hcur
    have hc := initCurPos_anchor args start repl start cur (Or.inl rfl) hcur
    exact genReplLoop_anchor args start repl cur [] out hc (by simp) h

/-- the statement as originally phrased, with the `fix` requirement relaxed for action tokens:
    an expansion token that is not an argument token is `fix` or an action token, and sits at the
    start of the call or at the position of an argument token -/
theorem genRepl_anchor' (args : List (List Tok)) (repl : List Tok) (start : Nat) (out : List Tok)
    (h : generateReplacements args repl start = some out) :
    ∀ t ∈ out, (∃ a ∈ args, t ∈ a) ∨
      ((t.fix = true ∨ (t.kind = .action ∧ t.txt = [])) ∧
        (t.pos = start ∨ ∃ a ∈ args, ∃ u ∈ a, t.pos = u.pos)) := by
  intro t ht
  rcases genRepl_anchor args repl start out h t ht with h1 | ⟨hf, hp⟩ | ⟨a, ha, u, hu, rfl⟩
  · exact Or.inl h1
  · exact Or.inr ⟨Or.inl hf, hp⟩
  · exact Or.inr ⟨Or.inr ⟨rfl, rfl⟩, Or.inr ⟨a, ha, u, hu, rfl⟩⟩

/-- the original second disjunct is false: witness -/
theorem genRepl_anchor_given_false :
    ∃ (args : List (List Tok)) (repl : List Tok) (start : Nat) (out : List Tok),
      generateReplacements args repl start = some out ∧
      ¬ ∀ t ∈ out, (∃ a ∈ args, t ∈ a) ∨
        (t.fix = true ∧ (t.pos = start ∨ ∃ a ∈ args, ∃ u ∈ a, t.pos = u.pos)) := by
  refine ⟨[[mkTok .text 5 ['x']]], [mkTok (.arg 1) 0 []], 0,
    [mkAction 5, mkTok .text 5 ['x'], mkAction 5], by decide, ?_⟩
  intro hall
  have := hall (mkAction 5) (by simp)
  revert this
  simp [mkAction, mkTok]

end Yalafi
