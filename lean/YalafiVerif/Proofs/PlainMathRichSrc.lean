/-
  Proofs/PlainMathRichSrc.lean — C10 for the FULL body class of the property, source level, part 1:
  documents, side conditions, the maths tokens of a body as a function of the source, and the
  scanner.  (Token level: Proofs/PlainMathRich.lean; `parserWork`, `parse`, `tex2txt`, the reference
  output and its readings: Proofs/PlainMathRichE2E.lean; statements: Properties/PlainMathRichStmt.lean.)

  Documents (`Seg`, `render`)
    `.txt s`               inert text
    `.math paren body`     an inline formula, `$ body $` (`paren = false`) or `\( body \)`
                           (`paren = true`); `body : List MPart` (the type of Proofs/PlainUnkn2Src.lean)
        `.chars s`         letters, digits, ASCII operators, punctuation, white space
        `.cw name`         `\name`, an undeclared control word (`\alpha`, `\frac`, `\sqrt`)
        `.spec t`          a special sequence of the tables: `^` `_` `&` `--` … (a maths token with the
                           text of its table entry), `{` `}` `\!` (`math_ignore`: nothing — any
                           nesting of braces, balanced or not), `~` `\,` `\;` `\:` `\ ` (`math_space`:
                           a MATHS-SPACE token)
  `mtoks T p body`         THE MATHS TOKENS OF A BODY that starts at offset `p`, as a function of the
                           source: position, text, maths space? (`MT`) — one per character that is no
                           white space, one per control word, one per special sequence that is not
                           ignored.  The reference output is defined through it.

  Side conditions (`segsOk`; all computable)
    `.txt s`     `textOkR`: `okAt` of Proofs/PlainUnknown.lean, except that the token behind an active
                 character is read off the tables (`firstTokTxtR`: white-space run, special sequence,
                 or one character — so it may be `$` or `\(`)
    `.math`      `mathOk`: the opening and the closing delimiter are scanned as the special tokens
                 `$` / `\(` / `\)` (`delimAt`; in particular no `$$`: formulas must not touch);
                 `mpartsOk`: `.chars` as `bodyOk` of Proofs/PlainMath.lean (white-space runs with at
                 most one line break; characters that are none of `% # \ $ { }`, neither ignored
                 nor maths space as one-character tokens, no special sequence matching there);
                 `.cw` as `mcwOk` of Proofs/PlainUnkn2Src.lean (one macro token, NOT DECLARED — `\quad`
                 and `\qquad` are declared in the real tables and therefore not admitted —, not in
                 `math_text_macros`, `math_space`, `math_ignore`); `.spec t` as `mspecOkR`: the
                 scanner makes the special token `t` here, `t` is not `$` / `\)`, and it is ignored,
                 maths space, or has a table entry (Python: `KeyError` otherwise);
                 `visible`: at least one maths token that is NOT maths space (otherwise no
                 placeholder is produced: `$\,$` yields one blank, `${}$` nothing, and the collection
                 is not rotated — outside the class)
-/
import YalafiVerif.Proofs.PlainMathRich
import YalafiVerif.Proofs.PlainUnkn2Src
namespace Yalafi
namespace PlainMathRich

open M
open PlainMath (Piece flat nMath TokShape mathAt mathAtFacts nextToken_body bodyTok_bodyTokAt bodyTokAt
  BodyTok)
open PlainUnkn2 (MPart renderM mcwOk mcwFacts McwFacts mcwTok_cwTok mcost McwTok SpecTok IgnTok)
open PlainMacro (scanSteps_step)

/-! ### the documents -/

/-- a segment of the source: a run of text, or an inline formula -/
inductive Seg where
  | txt (s : Str)
  | math (paren : Bool) (body : List MPart)
deriving Repr, DecidableEq

/-- the opening delimiter: `\(` or `$` -/
def opn (paren : Bool) : Str := if paren then ['\\', '('] else ['$']
/-- the closing delimiter: `\)` or `$` -/
def cls (paren : Bool) : Str := if paren then ['\\', ')'] else ['$']

def Seg.render : Seg → Str
  | .txt s => s
  | .math par body => opn par ++ (renderM body ++ cls par)

/-- the source text -/
def render : List Seg → Str
  | [] => []
  | s :: rest => s.render ++ render rest

/-! ### the maths tokens of a body, as a function of the source -/

/-- characters: one maths token per character that is no white space -/
def charToks : Nat → Str → List MT
  | _, [] => []
  | p, c :: cs => (if isSpace c then [] else [{ pos := p, txt := [c], sp := false }]) ++ charToks (p + 1) cs

/-- a special sequence: nothing if it is ignored, a maths-space token if it is in `math_space`,
    else a maths token with the text of its table entry -/
def specToks (T : PTables) (p : Nat) (t : Str) : List MT :=
  if T.mathIgnore.contains t then []
  else if T.mathSpace.contains t then [{ pos := p, txt := [' '], sp := true }]
  else [{ pos := p, txt := (T.toTables.specialVal t).getD [], sp := false }]

/-- the maths tokens of a formula body that starts at offset `p` -/
def mtoks (T : PTables) : Nat → List MPart → List MT
  | _, [] => []
  | p, .chars s :: r => charToks p s ++ mtoks T (p + s.length) r
  | p, .cw name :: r => { pos := p, txt := '\\' :: name, sp := false } :: mtoks T (p + (name.length + 1)) r
  | p, .spec t :: r => specToks T p t ++ mtoks T (p + t.length) r

/-- the body yields a maths token that is not maths space -/
def visible (T : PTables) : List MPart → Bool
  | [] => false
  | .chars s :: rest => s.any (fun c => !isSpace c) || visible T rest
  | .cw _ :: _ => true
  | .spec t :: rest => (!T.mathIgnore.contains t && !T.mathSpace.contains t) || visible T rest

theorem charToks_any : ∀ (p : Nat) (s : Str),
    (charToks p s).any (fun x => !x.sp) = s.any (fun c => !isSpace c)
  | _, [] => rfl
  | p, c :: cs => by
    by_cases h : isSpace c = true <;> simp [charToks, h, charToks_any (p + 1) cs]

theorem mtoks_any (T : PTables) : ∀ (parts : List MPart) (p : Nat),
    (mtoks T p parts).any (fun x => !x.sp) = visible T parts
  | [], _ => rfl
  | .chars s :: r, p => by
    simp only [mtoks, visible, List.any_append, charToks_any, mtoks_any T r]
  | .cw name :: r, p => by simp [mtoks, visible]
  | .spec t :: r, p => by
    simp only [mtoks, visible, List.any_append, mtoks_any T r, specToks]
    cases T.mathIgnore.contains t <;> cases T.mathSpace.contains t <;> simp

/-! ### the side conditions -/

/-- the text of the first scanner token of a well-formed source: a run of white space, the special
    sequence that matches (`$`, `\(`), or one character -/
def firstTokTxtR (T : PTables) : Str → Str
  | [] => []
  | d :: ds =>
    if isSpace d then (d :: ds).takeWhile isSpace
    else match matchSpecial T.toTables (d :: ds) with
      | some t => t
      | none => [d]

/-- the text character `c`, followed by `cs` (the whole rest of the source), is inert (`okAt` of
    Proofs/PlainUnknown.lean; the token behind `c` may be the opening delimiter of a formula) -/
def okAtR (T : PTables) (st : PState) (c : Char) (cs : Str) : Bool :=
  (!(activeChars T st).contains [c] ||
    (!isSpace c && (cs.isEmpty || !(shortKeys T st).contains (c :: firstTokTxtR T cs)))) &&
  (isSpace c || (!structuralChar c && (matchSpecial T.toTables (c :: cs)).isNone))

/-- the text `s`, followed by `R`, is inert -/
def textOkR (T : PTables) (st : PState) : Str → Str → Bool
  | [], _ => true
  | c :: cs, R => okAtR T st c (cs ++ R) && textOkR T st cs R

/-- the delimiter `d`, followed by `R`, is scanned as the special token `d` -/
def delimAt (T : PTables) (d R : Str) : Bool := matchSpecial T.toTables (d ++ R) == some d

/-- a special sequence `t` of the tables inside a formula, followed by `X`: the scanner makes the
    special token `t` of it here; it does not end the formula; it is ignored, maths space, or has a
    replacement text -/
def mspecOkR (T : PTables) (t X : Str) : Bool :=
  (match t with
   | [] => false
   | c :: _ => !isSpace c && c != '%' && c != '#') &&
  matchSpecial T.toTables (t ++ X) == some t &&
  !["$".toList, "\\)".toList].contains t &&
  (T.mathIgnore.contains t || T.mathSpace.contains t || (T.toTables.specialVal t).isSome)

/-- the parts of a formula body, followed by `R` (which starts with the closing delimiter) -/
def mpartsOk (T : PTables) (st : PState) : List MPart → Str → Bool
  | [], _ => true
  | .chars s :: rest, R => PlainMath.bodyOk T s (renderM rest ++ R) && mpartsOk T st rest R
  | .cw name :: rest, R => mcwOk T st name (renderM rest ++ R) && mpartsOk T st rest R
  | .spec t :: rest, R => mspecOkR T t (renderM rest ++ R) && mpartsOk T st rest R

/-- the formula with the body `body`, followed by `R` -/
def mathOk (T : PTables) (st : PState) (par : Bool) (body : List MPart) (R : Str) : Bool :=
  delimAt T (opn par) (renderM body ++ (cls par ++ R)) && mpartsOk T st body (cls par ++ R) &&
  visible T body && delimAt T (cls par) R

/-- well-formed documents: every segment is fine in front of the rendering of the following ones -/
def segsOk (T : PTables) (st : PState) : List Seg → Bool
  | [] => true
  | .txt s :: rest => textOkR T st s (render rest) && segsOk T st rest
  | .math par body :: rest => mathOk T st par body (render rest) && segsOk T st rest

/-- well-formedness of a document as a proposition -/
def SegsOk (T : PTables) (st : PState) (segs : List Seg) : Prop := segsOk T st segs = true

instance (T : PTables) (st : PState) (segs : List Seg) : Decidable (SegsOk T st segs) := by
  unfold SegsOk; infer_instance

/-! ### the same on the source text -/

/-- `c :: tl` is an opening delimiter -/
def IsOpen (d : Str) : Prop := d = "$".toList ∨ d = "\\(".toList
/-- `c :: tl` is a closing delimiter -/
def IsClose (d : Str) : Prop := d = "$".toList ∨ d = "\\)".toList

/-- a formula body in front of its closing delimiter: `MOk k p s R m` — `s`, which starts at offset
    `p`, consists of `k` characters (the rest of the body and the closing delimiter) and `R`; `m`
    are the maths tokens of the body -/
inductive MOk (T : PTables) (st : PState) : Nat → Nat → Str → Str → List MT → Prop
  | fin (p : Nat) (c : Char) (tl R : Str) : IsClose (c :: tl) → delimAt T (c :: tl) R = true →
      MOk T st (tl.length + 1) p (c :: (tl ++ R)) R []
  | sp (k p : Nat) (c : Char) (cs R : Str) (m : List MT) : isSpace c = true →
      countNl ((c :: cs).takeWhile isSpace) < 2 → MOk T st k (p + 1) cs R m →
      MOk T st (k + 1) p (c :: cs) R m
  | ch (k p : Nat) (c : Char) (cs R : Str) (m : List MT) : mathAt T c cs = true →
      MOk T st k (p + 1) cs R m →
      MOk T st (k + 1) p (c :: cs) R ({ pos := p, txt := [c], sp := false } :: m)
  | cw (k p : Nat) (name X R : Str) (m : List MT) : mcwOk T st name X = true →
      MOk T st k (p + (name.length + 1)) X R m →
      MOk T st (k + (name.length + 1)) p ('\\' :: (name ++ X)) R
        ({ pos := p, txt := '\\' :: name, sp := false } :: m)
  | spec (k p : Nat) (c : Char) (tl X R : Str) (m : List MT) : mspecOkR T (c :: tl) X = true →
      MOk T st k (p + (tl.length + 1)) X R m →
      MOk T st (k + (tl.length + 1)) p (c :: (tl ++ X)) R (specToks T p (c :: tl) ++ m)

/-- an item of the source: a text character with its position, or a formula with its maths tokens -/
inductive Item where
  | chr (c : Char) (p : Nat)
  | math (m : List MT)

/-- the source text (which starts at position `p`) as a list of items -/
inductive OkSrc (T : PTables) (st : PState) : Nat → Str → List Item → Prop
  | nil (p : Nat) : OkSrc T st p [] []
  | chr (p : Nat) (c : Char) (cs : Str) (items : List Item) :
      okAtR T st c cs = true → OkSrc T st (p + 1) cs items →
      OkSrc T st p (c :: cs) (.chr c p :: items)
  | math (p k : Nat) (c : Char) (tl X R : Str) (m : List MT) (items : List Item) :
      IsOpen (c :: tl) → delimAt T (c :: tl) X = true → MOk T st k (p + (tl.length + 1)) X R m →
      m.any (fun x => !x.sp) = true → OkSrc T st (p + (tl.length + 1) + k) R items →
      OkSrc T st p (c :: (tl ++ X)) (.math m :: items)

theorem MOk_len {T : PTables} {st : PState} {k p : Nat} {s R : Str} {m : List MT}
    (h : MOk T st k p s R m) : s.length = k + R.length := by
  induction h with
  | fin p c tl R _ _ => simp; omega
  | sp k p c cs R m _ _ _ ih => simp [ih]; omega
  | ch k p c cs R m _ _ ih => simp [ih]; omega
  | cw k p name X R m _ _ ih => simp [ih]; omega
  | spec k p c tl X R m _ _ ih => simp [ih]; omega

theorem IsClose.facts {c : Char} {tl : Str} (h : IsClose (c :: tl)) :
    isSpace c = false ∧ c ≠ '%' ∧ c ≠ '#' ∧ ["$".toList, "\\)".toList].contains (c :: tl) = true := by
  rcases h with h | h <;>
  · simp only [String.toList] at h
    obtain ⟨rfl, rfl⟩ := h
    decide

theorem IsOpen.facts {c : Char} {tl : Str} (h : IsOpen (c :: tl)) :
    isSpace c = false ∧ c ≠ '%' ∧ c ≠ '#' := by
  rcases h with h | h <;>
  · simp only [String.toList] at h
    obtain ⟨rfl, rfl⟩ := h
    decide

/-! ### from the computable conditions to the inductive ones -/

theorem MOk_chars (T : PTables) (st : PState) (Y R : Str) (m : List MT) :
    ∀ (s : Str) (p k : Nat), PlainMath.bodyOk T s Y = true → MOk T st k (p + s.length) Y R m →
      ∃ k', MOk T st k' p (s ++ Y) R (charToks p s ++ m)
  | [], p, k, _, h => ⟨k, by simpa [charToks] using h⟩
  | c :: cs, p, k, hs, h => by
    simp only [PlainMath.bodyOk, Bool.and_eq_true] at hs
    have h' : MOk T st k (p + 1 + cs.length) Y R m := by
      have e : p + 1 + cs.length = p + (c :: cs).length := by simp; omega
      rw [e]; exact h
    obtain ⟨k', hk'⟩ := MOk_chars T st Y R m cs (p + 1) k hs.2 h'
    by_cases hsp : isSpace c = true
    · have h1 := hs.1
      simp only [hsp, if_true, decide_eq_true_eq] at h1
      exact ⟨k' + 1, by simpa [charToks, hsp] using MOk.sp k' p c (cs ++ Y) R _ hsp h1 hk'⟩
    · have hsp' : isSpace c = false := by simpa using hsp
      have h1 := hs.1
      simp only [hsp', Bool.false_eq_true, if_false] at h1
      exact ⟨k' + 1, by simpa [charToks, hsp'] using MOk.ch k' p c (cs ++ Y) R _ h1 hk'⟩

theorem MOk_parts (T : PTables) (st : PState) (c : Char) (tl R : Str) (hc : IsClose (c :: tl))
    (hR : delimAt T (c :: tl) R = true) :
    ∀ (parts : List MPart) (p : Nat), mpartsOk T st parts (c :: (tl ++ R)) = true →
      ∃ k, MOk T st k p (renderM parts ++ c :: (tl ++ R)) R (mtoks T p parts)
  | [], p, _ => ⟨_, .fin p c tl R hc hR⟩
  | .spec t :: rest, p, h => by
    simp only [mpartsOk, Bool.and_eq_true] at h
    cases t with
    | nil => simp [mspecOkR] at h
    | cons d dl =>
      obtain ⟨k, hk⟩ := MOk_parts T st c tl R hc hR rest (p + (dl.length + 1)) h.2
      exact ⟨_, by simpa [renderM, MPart.render, mtoks] using MOk.spec k p d dl _ R _ h.1 hk⟩
  | .cw name :: rest, p, h => by
    simp only [mpartsOk, Bool.and_eq_true] at h
    obtain ⟨k, hk⟩ := MOk_parts T st c tl R hc hR rest (p + (name.length + 1)) h.2
    exact ⟨_, by simpa [renderM, MPart.render, mtoks] using MOk.cw k p name _ R _ h.1 hk⟩
  | .chars s :: rest, p, h => by
    simp only [mpartsOk, Bool.and_eq_true] at h
    obtain ⟨k, hk⟩ := MOk_parts T st c tl R hc hR rest (p + s.length) h.2
    obtain ⟨k', hk'⟩ := MOk_chars T st _ R _ s p k h.1 hk
    exact ⟨k', by simpa [renderM, MPart.render, mtoks, List.append_assoc] using hk'⟩

/-- the characters of a text with their positions -/
def chrItems : Nat → Str → List Item
  | _, [] => []
  | p, c :: cs => .chr c p :: chrItems (p + 1) cs

/-- the items of a document that starts at offset `p` -/
def itemsOf (T : PTables) : Nat → List Seg → List Item
  | _, [] => []
  | p, .txt s :: rest => chrItems p s ++ itemsOf T (p + s.length) rest
  | p, .math par body :: rest =>
    .math (mtoks T (p + (opn par).length) body)
      :: itemsOf T (p + ((opn par).length + ((renderM body).length + (cls par).length))) rest

theorem OkSrc_text (T : PTables) (st : PState) (R : Str) (items : List Item) :
    ∀ (s : Str) (p : Nat), OkSrc T st (p + s.length) R items → textOkR T st s R = true →
      OkSrc T st p (s ++ R) (chrItems p s ++ items)
  | [], _, hR, _ => hR
  | c :: cs, p, hR, h => by
    simp only [textOkR, Bool.and_eq_true] at h
    have hR' : OkSrc T st (p + 1 + cs.length) R items := by
      have e : p + 1 + cs.length = p + (c :: cs).length := by simp; omega
      rw [e]; exact hR
    exact OkSrc.chr p c (cs ++ R) _ h.1 (OkSrc_text T st R items cs (p + 1) hR' h.2)

theorem opn_cases (par : Bool) : ∃ c tl, opn par = c :: tl ∧ IsOpen (c :: tl) := by
  cases par
  · exact ⟨'$', [], rfl, Or.inl rfl⟩
  · exact ⟨'\\', ['('], rfl, Or.inr rfl⟩

theorem cls_cases (par : Bool) : ∃ c tl, cls par = c :: tl ∧ IsClose (c :: tl) := by
  cases par
  · exact ⟨'$', [], rfl, Or.inl rfl⟩
  · exact ⟨'\\', [')'], rfl, Or.inr rfl⟩

theorem OkSrc_of_segsOk (T : PTables) (st : PState) :
    ∀ (segs : List Seg) (p : Nat), segsOk T st segs = true →
      OkSrc T st p (render segs) (itemsOf T p segs)
  | [], p, _ => .nil p
  | .txt s :: rest, p, h => by
    simp only [segsOk, Bool.and_eq_true] at h
    exact OkSrc_text T st _ _ s p (OkSrc_of_segsOk T st rest _ h.2) h.1
  | .math par body :: rest, p, h => by
    simp only [segsOk, mathOk, Bool.and_eq_true] at h
    obtain ⟨⟨⟨⟨h1, h2⟩, h3⟩, h4⟩, h5⟩ := h
    obtain ⟨oc, otl, ho, hio⟩ := opn_cases par
    obtain ⟨cc, ctl, hcl, hic⟩ := cls_cases par
    rw [hcl] at h1 h2 h4
    rw [ho] at h1
    obtain ⟨k, hk⟩ := MOk_parts T st cc ctl (render rest) hic h4 body (p + (otl.length + 1)) h2
    have hlen := MOk_len hk
    have hk' : k = (renderM body).length + (ctl.length + 1) := by
      simp only [List.length_append, List.length_cons] at hlen; omega
    have hvis : (mtoks T (p + (otl.length + 1)) body).any (fun x => !x.sp) = true := by
      rw [mtoks_any]; exact h3
    have hrest := OkSrc_of_segsOk T st rest
      (p + ((opn par).length + ((renderM body).length + (cls par).length))) h5
    have e : p + ((opn par).length + ((renderM body).length + (cls par).length))
        = p + (otl.length + 1) + k := by
      rw [ho, hcl, hk']; simp only [List.length_cons]; omega
    rw [e] at hrest
    have := OkSrc.math p k oc otl _ (render rest) _ _ hio (by simpa using h1) hk hvis hrest
    have e2 : p + (otl.length + 1) + k
        = p + (otl.length + 1 + ((renderM body).length + (ctl.length + 1))) := by omega
    rw [e2] at this
    simpa [render, Seg.render, itemsOf, ho, hcl, List.append_assoc] using this

/-- the conditions depend on the state only through the fields of `Same` -/
theorem MOk.congr {T : PTables} {st st' : PState} (hs : Same st st') {k p : Nat} {s R : Str}
    {m : List MT} (h : MOk T st k p s R m) : MOk T st' k p s R m := by
  induction h with
  | fin p c tl R h1 h2 => exact .fin p c tl R h1 h2
  | sp k p c cs R m h1 h2 _ ih => exact .sp k p c cs R m h1 h2 ih
  | ch k p c cs R m h1 _ ih => exact .ch k p c cs R m h1 ih
  | cw k p name X R m h1 _ ih =>
    refine .cw k p name X R m ?_ ih
    rw [← h1]
    simp only [mcwOk, cwOk, lookupMacro, hs.macros, hs.mtm]
  | spec k p c tl X R m h1 _ ih => exact .spec k p c tl X R m h1 ih

theorem OkSrc.congr {T : PTables} {st st' : PState} (hs : Same st st') {p : Nat} {s : Str}
    {items : List Item} (h : OkSrc T st p s items) : OkSrc T st' p s items := by
  induction h with
  | nil p => exact .nil p
  | chr p c cs items hat _ ih =>
    refine .chr p c cs items ?_ ih
    rw [← hat]
    simp only [okAtR, activeChars_congr T st st' hs.lang, shortKeys_congr T st st' hs.lang]
  | math p k c tl X R m items h1 h2 h3 h4 _ ih => exact .math p k c tl X R m items h1 h2 (h3.congr hs) h4 ih

/-- white space in front can be dropped -/
theorem OkSrc_drop_space (T : PTables) (st : PState) :
    ∀ (k : Nat) (p : Nat) (s : Str) (items : List Item), k ≤ s.length → OkSrc T st p s items →
      (∀ x ∈ s.take k, isSpace x = true) →
      ∃ items', items = chrItems p (s.take k) ++ items' ∧ OkSrc T st (p + k) (s.drop k) items'
  | 0, _, _, items, _, h, _ => ⟨items, rfl, h⟩
  | k + 1, _, [], _, hk, _, _ => by simp at hk
  | k + 1, p, c :: cs, _, hk, h, hsp => by
    have hc : isSpace c = true := hsp c (by simp)
    cases h with
    | chr _ _ _ items0 _ h2 =>
      obtain ⟨items', e, h3⟩ := OkSrc_drop_space T st k (p + 1) cs items0 (by simpa using hk) h2
        (fun x hx => hsp x (by simp [hx]))
      refine ⟨items', by simp [chrItems, e], ?_⟩
      have e : p + (k + 1) = p + 1 + k := by omega
      rw [e]; exact h3
    | math _ k' _ tl X R m items0 ho _ _ _ _ =>
      have := ho.facts.1
      rw [hc] at this; cases this

theorem MOk_drop_space (T : PTables) (st : PState) (R : Str) (m : List MT) :
    ∀ (k : Nat) (n p : Nat) (s : Str), k ≤ s.length → MOk T st n p s R m →
      (∀ x ∈ s.take k, isSpace x = true) → ∃ n', MOk T st n' (p + k) (s.drop k) R m ∧ n = n' + k
  | 0, n, _, _, _, h, _ => ⟨n, h, rfl⟩
  | k + 1, _, _, [], hk, _, _ => by simp at hk
  | k + 1, _, p, c :: cs, hk, h, hsp => by
    have hc : isSpace c = true := hsp c (by simp)
    cases h with
    | fin _ _ tl _ hcl _ =>
      have := hcl.facts.1
      rw [hc] at this; cases this
    | sp n0 _ _ _ _ _ _ _ h2 =>
      obtain ⟨n', h3, e⟩ := MOk_drop_space T st R m k n0 (p + 1) cs (by simpa using hk) h2
        (fun x hx => hsp x (by simp [hx]))
      refine ⟨n', ?_, by omega⟩
      have e' : p + (k + 1) = p + 1 + k := by omega
      rw [e']; exact h3
    | ch n0 _ _ _ _ m0 hm _ =>
      have := (mathAtFacts hm).nsp
      rw [hc] at this; cases this
    | cw n0 _ name X _ m0 _ _ => exact absurd hc (by decide)
    | spec n0 _ _ tl X _ m0 hm _ =>
      simp only [mspecOkR, Bool.and_eq_true, Bool.not_eq_true'] at hm
      have := hm.1.1.1.1.1
      rw [hc] at this; cases this

/-! ### the scanner on a formula body -/

/-- the scanner on a special sequence -/
theorem nextToken_spec (T : PTables) (src : Str) (pos : Nat) (c : Char) (tl X : Str)
    (h1 : isSpace c = false) (h2 : c ≠ '%') (h3 : c ≠ '#')
    (h : matchSpecial T.toTables (c :: (tl ++ X)) = some (c :: tl)) :
    nextToken T.toTables src pos (c :: (tl ++ X))
      = { tok := { kind := .special, pos := pos, txt := c :: tl }, len := tl.length + 1 } := by
  have h2' : (c == '%') = false := by simpa using h2
  have h3' : (c == '#') = false := by simpa using h3
  simp [nextToken, h1, h2', h3', h]

theorem delimAt_eq {T : PTables} {c : Char} {tl R : Str} (h : delimAt T (c :: tl) R = true) :
    matchSpecial T.toTables (c :: (tl ++ R)) = some (c :: tl) := by
  simpa [delimAt] using h

structure MspecFactsR (T : PTables) (c : Char) (tl X : Str) : Prop where
  nsp : isSpace c = false
  npc : c ≠ '%'
  nhs : c ≠ '#'
  special : matchSpecial T.toTables (c :: (tl ++ X)) = some (c :: tl)
  nStop : ["$".toList, "\\)".toList].contains (c :: tl) = false
  val : T.mathIgnore.contains (c :: tl) = true ∨ T.mathSpace.contains (c :: tl) = true ∨
    ∃ v, T.toTables.specialVal (c :: tl) = some v

theorem mspecFactsR {T : PTables} {c : Char} {tl X : Str} (h : mspecOkR T (c :: tl) X = true) :
    MspecFactsR T c tl X := by
  simp only [mspecOkR, Bool.and_eq_true, Bool.not_eq_true', bne_iff_ne, ne_eq, beq_iff_eq,
    Bool.or_eq_true, List.cons_append] at h
  obtain ⟨⟨⟨⟨⟨h1, h2⟩, h3⟩, h4⟩, h5⟩, h6⟩ := h
  refine ⟨h1, h2, h3, h4, h5, ?_⟩
  rcases h6 with (h6 | h6) | h6
  · exact Or.inl h6
  · exact Or.inr (Or.inl h6)
  · exact Or.inr (Or.inr (Option.isSome_iff_exists.mp h6))

/-- the special token of an admissible special sequence is a body token, and its maths tokens are
    `specToks` -/
theorem mitem_spec (T : PTables) (st : PState) (pos : Nat) (c : Char) (tl X : Str)
    (h : MspecFactsR T c tl X) :
    MItem T st { kind := .special, pos := pos, txt := c :: tl } ∧
    mt T { kind := .special, pos := pos, txt := c :: tl } = specToks T pos (c :: tl) := by
  refine ⟨?_, ?_⟩
  · cases hi : T.mathIgnore.contains (c :: tl) with
    | true => exact Or.inr (Or.inr (Or.inr (Or.inr (Or.inl ⟨rfl, h.nStop, hi⟩))))
    | false =>
      cases hs : T.mathSpace.contains (c :: tl) with
      | true => exact Or.inr (Or.inr (Or.inr (Or.inr (Or.inr ⟨rfl, h.nStop, hi, hs⟩))))
      | false =>
        rcases h.val with hv | hv | hv
        · rw [hi] at hv; cases hv
        · rw [hs] at hv; cases hv
        · exact Or.inr (Or.inr (Or.inr (Or.inl ⟨rfl, h.nStop, hi, hs, hv⟩)))
  · simp [mt, specToks]

/-- what the scanner loop yields on a formula body of `k` characters including the closing
    delimiter: the steps of the body and the step `s2` of the closing delimiter -/
structure RRun (T : PTables) (st : PState) (k : Nat) (m : List MT) (steps : List ScanStep)
    (s2 : ScanStep) : Prop where
  ok : ∀ x ∈ steps, x.diag = none ∧ x.extra = [] ∧ MItem T st x.tok
  ok2 : s2.diag = none ∧ s2.extra = []
  close : CloseTok s2.tok
  cost : mcost (steps.map (·.tok)) + 1 ≤ k
  len : steps.length + 1 ≤ k
  abs : (steps.map (·.tok)).flatMap (mt T) = m

/-- the scanner loop runs through a formula body and its closing delimiter -/
theorem scanSteps_rbody (T : PTables) (st : PState) (src : Str) :
    ∀ (n k p : Nat) (s R : Str) (m : List MT) (fuel : Nat), k ≤ n → k ≤ fuel → MOk T st k p s R m →
      ∃ steps s2, RRun T st k m steps s2 ∧
        scanSteps T.toTables src fuel p s
          = (steps ++ s2 :: (scanSteps T.toTables src (fuel - steps.length - 1) (p + k) R).1,
             (scanSteps T.toTables src (fuel - steps.length - 1) (p + k) R).2) := by
  intro n
  induction n with
  | zero =>
    intro k p s R m fuel hn _ h
    cases h <;> simp at hn
  | succ n ih =>
    intro k p s R m fuel hn hf h
    cases h with
    | fin _ c tl _ hcl hd =>
      obtain ⟨f, rfl⟩ : ∃ f, fuel = f + 1 := ⟨fuel - 1, by omega⟩
      obtain ⟨c1, c2, c3, c4⟩ := hcl.facts
      have hnt := nextToken_spec T src p c tl R c1 c2 c3 (delimAt_eq hd)
      refine ⟨[], { tok := { kind := .special, pos := p, txt := c :: tl }, len := tl.length + 1 },
        ⟨by simp, ⟨rfl, rfl⟩, ⟨Or.inl rfl, c4⟩, by simp [mcost], by simp, rfl⟩, ?_⟩
      rw [scanSteps_step T.toTables src f p _ _ _ hnt (by simp)]
      simp
    | sp k0 _ c cs _ _ hsp hnl hsub =>
      obtain ⟨f, rfl⟩ : ∃ f, fuel = f + 1 := ⟨fuel - 1, by omega⟩
      generalize hw : (c :: cs).takeWhile isSpace = w at hnl
      have hw' : w = c :: cs.takeWhile isSpace := by rw [← hw]; simp [hsp]
      have hwpos : 1 ≤ w.length := by rw [hw']; simp
      have hwle : w.length ≤ (c :: cs).length := by
        rw [← hw]; exact ScannerAux.length_takeWhile_le' _ _
      have hnt : nextToken T.toTables src p (c :: cs)
          = { tok := { kind := .space, pos := p, txt := w }, len := w.length } := by
        have h1 : nextToken T.toTables src p (c :: cs) = scanSpace p (c :: cs) := by
          simp [nextToken, hsp]
        rw [h1]
        simp only [scanSpace, hw]
        simp [hnl]
      obtain ⟨n', hsub', e⟩ := MOk_drop_space T st _ _ w.length (k0 + 1) p (c :: cs) hwle
        (MOk.sp k0 p c cs _ _ hsp (by rw [hw]; exact hnl) hsub) (by
          intro x hx
          rw [← hw, ScannerAux.take_length_takeWhile] at hx
          exact mem_takeWhile_imp _ _ _ hx)
      obtain ⟨steps', s2, B, hsc⟩ := ih n' (p + w.length) _ _ _ f (by omega) (by omega) hsub'
      refine ⟨{ tok := { kind := .space, pos := p, txt := w }, len := w.length } :: steps', s2,
        ⟨?_, B.ok2, B.close, ?_, ?_, ?_⟩, ?_⟩
      · intro x hx
        rcases List.mem_cons.mp hx with rfl | hx
        · exact ⟨rfl, rfl, Or.inr (Or.inl rfl)⟩
        · exact B.ok x hx
      · have := B.cost
        simp only [List.map_cons, mcost, reduceCtorEq, beq_iff_eq, if_false, beq_self_eq_true,
          if_true]
        omega
      · have := B.len
        simp only [List.length_cons]; omega
      · simp only [List.map_cons, List.flatMap_cons, B.abs]
        simp [mt]
      · rw [scanSteps_step T.toTables src f p _ _ _ hnt (by show w.length ≠ 0; omega)]
        simp only []
        rw [hsc]
        simp only [List.cons_append, List.length_cons]
        have e1 : p + w.length + n' = p + (k0 + 1) := by omega
        have e2 : f + 1 - (steps'.length + 1) - 1 = f - steps'.length - 1 := by omega
        rw [e1, e2]
    | ch k0 _ c cs _ m0 hm hsub =>
      obtain ⟨f, rfl⟩ : ∃ f, fuel = f + 1 := ⟨fuel - 1, by omega⟩
      have facts := mathAtFacts hm
      have hnt := nextToken_body T src p c cs facts
      have hbt := bodyTok_bodyTokAt T p c cs facts
      obtain ⟨steps', s2, B, hsc⟩ := ih k0 (p + 1) _ _ _ f (by omega) (by omega) hsub
      refine ⟨{ tok := bodyTokAt p c, len := 1 } :: steps', s2, ⟨?_, B.ok2, B.close, ?_, ?_, ?_⟩, ?_⟩
      · intro x hx
        rcases List.mem_cons.mp hx with rfl | hx
        · exact ⟨rfl, rfl, Or.inl hbt⟩
        · exact B.ok x hx
      · have := B.cost
        simp only [List.map_cons, mcost, bodyTokAt, reduceCtorEq, beq_iff_eq, if_false]
        omega
      · have := B.len
        simp only [List.length_cons]; omega
      · simp only [List.map_cons, List.flatMap_cons, B.abs]
        simp [mt, bodyTokAt]
      · rw [scanSteps_step T.toTables src f p _ _ _ hnt (by simp)]
        simp only [List.drop_succ_cons, List.drop_zero]
        rw [hsc]
        simp only [List.cons_append, List.length_cons]
        have e1 : p + 1 + k0 = p + (k0 + 1) := by omega
        have e2 : f + 1 - (steps'.length + 1) - 1 = f - steps'.length - 1 := by omega
        rw [e1, e2]
    | cw k0 _ name X _ m0 hc hsub =>
      obtain ⟨f, rfl⟩ : ∃ f, fuel = f + 1 := ⟨fuel - 1, by omega⟩
      have facts := mcwFacts hc
      have hname := List.length_pos_iff.mpr facts.cw.ne
      have hnt := nextToken_cw T st src p name X facts.cw
      have hdrop : ('\\' :: (name ++ X)).drop (name.length + 1) = X := by simp
      obtain ⟨steps', s2, B, hsc⟩ := ih k0 (p + (name.length + 1)) _ _ _ f (by omega) (by omega) hsub
      refine ⟨{ tok := cwTok p name, len := name.length + 1 } :: steps', s2,
        ⟨?_, B.ok2, B.close, ?_, ?_, ?_⟩, ?_⟩
      · intro x hx
        rcases List.mem_cons.mp hx with rfl | hx
        · exact ⟨rfl, rfl, Or.inr (Or.inr (Or.inl (mcwTok_cwTok facts p)))⟩
        · exact B.ok x hx
      · have := B.cost
        simp only [List.map_cons, mcost, cwTok, beq_self_eq_true, if_true]
        omega
      · have := B.len
        simp only [List.length_cons]; omega
      · simp only [List.map_cons, List.flatMap_cons, B.abs]
        simp [mt, cwTok]
      · rw [scanSteps_step T.toTables src f p _ _ _ hnt (by simp)]
        simp only [hdrop]
        rw [hsc]
        simp only [List.cons_append, List.length_cons]
        have e1 : p + (name.length + 1) + k0 = p + (k0 + (name.length + 1)) := by omega
        have e2 : f + 1 - (steps'.length + 1) - 1 = f - steps'.length - 1 := by omega
        rw [e1, e2]
    | spec k0 _ c tl X _ m0 hc hsub =>
      obtain ⟨f, rfl⟩ : ∃ f, fuel = f + 1 := ⟨fuel - 1, by omega⟩
      have facts := mspecFactsR hc
      have hnt := nextToken_spec T src p c tl X facts.nsp facts.npc facts.nhs facts.special
      have hdrop : (c :: (tl ++ X)).drop (tl.length + 1) = X := by simp
      obtain ⟨steps', s2, B, hsc⟩ := ih k0 (p + (tl.length + 1)) _ _ _ f (by omega) (by omega) hsub
      obtain ⟨hitem, hmt⟩ := mitem_spec T st p c tl X facts
      refine ⟨{ tok := { kind := .special, pos := p, txt := c :: tl }, len := tl.length + 1 } :: steps',
        s2, ⟨?_, B.ok2, B.close, ?_, ?_, ?_⟩, ?_⟩
      · intro x hx
        rcases List.mem_cons.mp hx with rfl | hx
        · exact ⟨rfl, rfl, hitem⟩
        · exact B.ok x hx
      · have := B.cost
        simp only [List.map_cons, mcost, reduceCtorEq, beq_iff_eq, if_false]
        omega
      · have := B.len
        simp only [List.length_cons]; omega
      · simp only [List.map_cons, List.flatMap_cons, B.abs, hmt]
      · rw [scanSteps_step T.toTables src f p _ _ _ hnt (by simp)]
        simp only [hdrop]
        rw [hsc]
        simp only [List.cons_append, List.length_cons]
        have e1 : p + (tl.length + 1) + k0 = p + (k0 + (tl.length + 1)) := by omega
        have e2 : f + 1 - (steps'.length + 1) - 1 = f - steps'.length - 1 := by omega
        rw [e1, e2]

end PlainMathRich
end Yalafi
