/-
  Proofs/PlainFlowsRead.lean — readings of the reference output `refOut` of Proofs/PlainFlows.lean
  (`delLines (marks 0 segs) ++ flows 0 segs`), all by induction over the document:

    `textChars`, `bodies`, `optSpans`, `bodySpans`   the characters of the text segments; the calls in
                       source order (offset of the first body character, body); the source spans of
                       the hidden material (`[opt]`, `[placement]`, brackets included) and of the bodies
    `flows_eq_bodies`  the flows are, for the calls in source order, three line breaks, the body at
                       its own positions, one line break
    `bodies_sorted`    the calls are listed in source order (increasing, non-overlapping)
    `bodies_in_source`, `textChars_in_source`   the source has the body / the character there
    `main_sub_text`    every character of the main flow is a character of a text segment at its own
                       position (`delLines` only deletes)
    `text_avoids_bodies`   no character of the main flow has a position inside a body
    `out_avoids_opt`   no output position lies inside `[opt]` or `[placement]`
-/
import YalafiVerif.Proofs.PlainFlows
namespace Yalafi
namespace PlainFlows

open PlainMacro
open PlainFootnote (lastTokOff flowOut)
open PlainItem (nBegin nEnd)
open PlainVanish (mem_posText delLines_mem)

/-! ### per segment -/

/-- the characters of a text segment at `p`, with their positions -/
def Seg.text : Seg → Nat → List (Char × Nat)
  | .txt s, p => posText p s
  | _, _ => []

/-- the call of a segment at `p`: offset of the first body character, and the body -/
def Seg.body : Seg → Nat → List (Nat × Str)
  | .call name body, p => [(p + name.length + 2, body)]
  | .callO name opt body, p => [(p + name.length + opt.length + 4, body)]
  | _, _ => []

/-- the source span `(start, length)` of the hidden optional material of a segment at `p`: `[opt]`
    resp. `[placement]`, brackets included -/
def Seg.opt : Seg → Nat → List (Nat × Nat)
  | .callO name opt _, p => [(p + name.length + 1, opt.length + 2)]
  | .begN name note, p => [(p + name.length + 8, note.length + 2)]
  | _, _ => []

/-- collect `f` over the segments of a document that starts at `p` -/
def gather {α} (f : Seg → Nat → List α) : Nat → List Seg → List α
  | _, [] => []
  | p, s :: rest => f s p ++ gather f (p + s.len) rest

/-- the characters of the text segments, with their positions -/
def textChars (p : Nat) (segs : List Seg) : List (Char × Nat) := gather Seg.text p segs

/-- the calls in source order: offset of the first body character, and the body -/
def bodies (p : Nat) (segs : List Seg) : List (Nat × Str) := gather Seg.body p segs

/-- the spans of the hidden optional arguments and placements -/
def optSpans (p : Nat) (segs : List Seg) : List (Nat × Nat) := gather Seg.opt p segs

/-- the spans of the bodies, each with its closing brace -/
def bodySpans (p : Nat) (segs : List Seg) : List (Nat × Nat) :=
  (bodies p segs).map (fun b => (b.1, b.2.length + 1))

/-- the number of source characters -/
def totalLen : List Seg → Nat
  | [] => 0
  | s :: rest => s.len + totalLen rest

theorem Seg.len_eq (s : Seg) : s.render.length = s.len := by
  cases s <;> simp [Seg.render, Seg.len, nBegin, nEnd] <;> omega

theorem render_length : ∀ segs : List Seg, (render segs).length = totalLen segs
  | [] => rfl
  | s :: rest => by simp [render, totalLen, Seg.len_eq, render_length rest]

theorem mem_gather_map {α β} (f : Seg → Nat → List α) (g : α → β) :
    ∀ (segs : List Seg) (p : Nat), (gather f p segs).map g = gather (fun s q => (f s q).map g) p segs
  | [], _ => rfl
  | s :: rest, p => by simp [gather, mem_gather_map f g rest]

/-! ### marks and flows, per segment -/

theorem flows_eq_bodies : ∀ (segs : List Seg) (p : Nat),
    flows p segs = (bodies p segs).flatMap (fun b => flowOut b.1 b.2)
  | [], _ => rfl
  | .txt s :: rest, p => by simpa [flows, bodies, gather, Seg.body, Seg.len] using flows_eq_bodies rest _
  | .call name body :: rest, p => by
    have := flows_eq_bodies rest (p + (name.length + body.length + 3))
    simp only [flows, bodies, gather, Seg.body, Seg.len, List.flatMap_append, List.flatMap_cons,
      List.flatMap_nil, List.append_nil] at this ⊢
    rw [this]
  | .callO name opt body :: rest, p => by
    have := flows_eq_bodies rest (p + (name.length + opt.length + body.length + 5))
    simp only [flows, bodies, gather, Seg.body, Seg.len, List.flatMap_append, List.flatMap_cons,
      List.flatMap_nil, List.append_nil] at this ⊢
    rw [this]
  | .beg name ws :: rest, p => by simpa [flows, bodies, gather, Seg.body, Seg.len] using flows_eq_bodies rest _
  | .begN name note :: rest, p => by
    simpa [flows, bodies, gather, Seg.body, Seg.len] using flows_eq_bodies rest _
  | .en name :: rest, p => by simpa [flows, bodies, gather, Seg.body, Seg.len] using flows_eq_bodies rest _

/-- a character of the main flow (before the blank-line removal) is a character of a text segment -/
theorem marks_some {cp : Char × Nat} : ∀ {segs : List Seg} {p : Nat}, some cp ∈ marks p segs →
    cp ∈ textChars p segs
  | [], _, h => by simp [marks] at h
  | .txt s :: rest, p, h => by
    simp only [marks, List.mem_append, List.mem_map] at h
    simp only [textChars, gather, Seg.text, Seg.len, List.mem_append]
    rcases h with ⟨x, hx, e⟩ | h
    · cases e; exact Or.inl hx
    · exact Or.inr (marks_some h)
  | .call name body :: rest, p, h => by
    simp only [marks, List.mem_cons, reduceCtorEq, false_or] at h
    simpa [textChars, gather, Seg.text, Seg.len] using marks_some h
  | .callO name opt body :: rest, p, h => by
    simp only [marks, List.mem_cons, reduceCtorEq, false_or] at h
    simpa [textChars, gather, Seg.text, Seg.len] using marks_some h
  | .beg name ws :: rest, p, h => by
    simp only [marks, List.mem_cons, reduceCtorEq, false_or] at h
    simpa [textChars, gather, Seg.text, Seg.len] using marks_some h
  | .begN name note :: rest, p, h => by
    simp only [marks, List.mem_cons, reduceCtorEq, false_or] at h
    simpa [textChars, gather, Seg.text, Seg.len] using marks_some h
  | .en name :: rest, p, h => by
    simp only [marks, List.mem_cons, reduceCtorEq, false_or] at h
    simpa [textChars, gather, Seg.text, Seg.len] using marks_some h

/-- **the main flow only holds text**: every character the blank-line removal leaves is a character
    of a text segment, at its own position -/
theorem main_sub_text {cp : Char × Nat} {segs : List Seg} {p : Nat} (h : cp ∈ delLines (marks p segs)) :
    cp ∈ textChars p segs :=
  marks_some (delLines_mem h)

/-! ### ranges -/

theorem Seg.text_range {s : Seg} {p : Nat} {cp : Char × Nat} (h : cp ∈ s.text p) :
    p ≤ cp.2 ∧ cp.2 < p + s.len := by
  cases s <;> simp only [Seg.text, List.not_mem_nil] at h
  exact mem_posText h

theorem Seg.body_range {s : Seg} {p : Nat} {b : Nat × Str} (h : b ∈ s.body p) :
    p ≤ b.1 ∧ b.1 + b.2.length < p + s.len := by
  cases s <;> simp only [Seg.body, List.not_mem_nil, List.mem_singleton] at h
  · subst h; simp only [Seg.len]; omega
  · subst h; simp only [Seg.len]; omega

theorem Seg.opt_range {s : Seg} {p : Nat} {x : Nat × Nat} (h : x ∈ s.opt p) :
    p ≤ x.1 ∧ x.1 + x.2 ≤ p + s.len := by
  cases s <;> simp only [Seg.opt, List.not_mem_nil, List.mem_singleton] at h
  · subst h; simp only [Seg.len]; omega
  · subst h; simp only [Seg.len]; omega

theorem gather_range_lt {α} (f : Seg → Nat → List α) (pos : α → Nat)
    (hf : ∀ s p a, a ∈ f s p → p ≤ pos a ∧ pos a < p + s.len) :
    ∀ (segs : List Seg) (p : Nat) (a : α), a ∈ gather f p segs → p ≤ pos a ∧ pos a < p + totalLen segs
  | [], _, _, h => by simp [gather] at h
  | s :: rest, p, a, h => by
    simp only [gather, List.mem_append] at h
    simp only [totalLen]
    rcases h with h | h
    · have := hf s p a h; omega
    · have := gather_range_lt f pos hf rest _ a h; omega

theorem gather_range_span (f : Seg → Nat → List (Nat × Nat))
    (hf : ∀ s p x, x ∈ f s p → p ≤ x.1 ∧ x.1 + x.2 ≤ p + s.len) :
    ∀ (segs : List Seg) (p : Nat) (x : Nat × Nat), x ∈ gather f p segs →
      p ≤ x.1 ∧ x.1 + x.2 ≤ p + totalLen segs
  | [], _, _, h => by simp [gather] at h
  | s :: rest, p, x, h => by
    simp only [gather, List.mem_append] at h
    simp only [totalLen]
    rcases h with h | h
    · have := hf s p x h; omega
    · have := gather_range_span f hf rest _ x h; omega

/-- two families that are separated inside every segment are separated in the document -/
theorem gather_disjoint (out : Seg → Nat → List Nat) (sp : Seg → Nat → List (Nat × Nat))
    (hout : ∀ s p q, q ∈ out s p → p ≤ q ∧ q < p + s.len)
    (hsp : ∀ s p x, x ∈ sp s p → p ≤ x.1 ∧ x.1 + x.2 ≤ p + s.len)
    (hd : ∀ s p q x, q ∈ out s p → x ∈ sp s p → q < x.1 ∨ x.1 + x.2 ≤ q) :
    ∀ (segs : List Seg) (p q : Nat) (x : Nat × Nat), q ∈ gather out p segs → x ∈ gather sp p segs →
      q < x.1 ∨ x.1 + x.2 ≤ q
  | [], _, _, _, h, _ => by simp [gather] at h
  | s :: rest, p, q, x, h1, h2 => by
    simp only [gather, List.mem_append] at h1 h2
    rcases h1 with h1 | h1 <;> rcases h2 with h2 | h2
    · exact hd s p q x h1 h2
    · have a := hout s p q h1
      have b := gather_range_span sp hsp rest _ x h2
      left; omega
    · have a := gather_range_lt out id hout rest _ q h1
      have b := hsp s p x h2
      simp only [id] at a
      right; omega
    · exact gather_disjoint out sp hout hsp hd rest _ q x h1 h2

/-! ### the bodies: in the source, in source order -/

theorem drop_append_len {α} (l1 l2 : List α) (k : Nat) : (l1 ++ l2).drop (l1.length + k) = l2.drop k := by
  rw [List.drop_append, List.drop_eq_nil_of_le (by omega)]
  simp

/-- **the source has the body there**: for every call, the source text from the recorded offset on
    starts with the body -/
theorem bodies_in_source : ∀ (segs : List Seg) (p : Nat) (b : Nat × Str), b ∈ bodies p segs →
    p ≤ b.1 ∧ ((render segs).drop (b.1 - p)).take b.2.length = b.2
  | [], _, _, h => by simp [bodies, gather] at h
  | s :: rest, p, b, h => by
    simp only [bodies, gather, List.mem_append] at h
    rcases h with h | h
    · refine ⟨(Seg.body_range h).1, ?_⟩
      cases s <;> simp only [Seg.body, List.not_mem_nil, List.mem_singleton] at h
      · subst h
        rename_i name body
        have e : p + name.length + 2 - p = ('\\' :: (name ++ ['{'])).length + 0 := by simp; omega
        have r : render (Seg.call name body :: rest)
            = ('\\' :: (name ++ ['{'])) ++ (body ++ '}' :: render rest) := by
          simp [render, Seg.render]
        rw [e, r, drop_append_len]
        simp
      · subst h
        rename_i name opt body
        have e : p + name.length + opt.length + 4 - p
            = ('\\' :: (name ++ '[' :: (opt ++ [']', '{']))).length + 0 := by simp; omega
        have r : render (Seg.callO name opt body :: rest)
            = ('\\' :: (name ++ '[' :: (opt ++ [']', '{']))) ++ (body ++ '}' :: render rest) := by
          simp [render, Seg.render]
        rw [e, r, drop_append_len]
        simp
    · obtain ⟨h1, h2⟩ := bodies_in_source rest _ b h
      refine ⟨by omega, ?_⟩
      have e : b.1 - p = s.render.length + (b.1 - (p + s.len)) := by rw [Seg.len_eq]; omega
      show ((s.render ++ render rest).drop (b.1 - p)).take b.2.length = b.2
      rw [e, drop_append_len]
      exact h2

/-- the source has every text character at its own position -/
theorem textChars_in_source : ∀ (segs : List Seg) (p : Nat) (cp : Char × Nat), cp ∈ textChars p segs →
    p ≤ cp.2 ∧ (render segs)[cp.2 - p]? = some cp.1
  | [], _, _, h => by simp [textChars, gather] at h
  | s :: rest, p, cp, h => by
    simp only [textChars, gather, List.mem_append] at h
    rcases h with h | h
    · cases s <;> simp only [Seg.text, List.not_mem_nil] at h
      rename_i t
      have hr := mem_posText h
      refine ⟨hr.1, ?_⟩
      have key : ∀ (t : Str) (p : Nat) (cp : Char × Nat), cp ∈ posText p t → t[cp.2 - p]? = some cp.1 := by
        intro t
        induction t with
        | nil => intro p cp h; simp [posText] at h
        | cons c cs ih =>
          intro p cp h
          simp only [posText, List.mem_cons] at h
          rcases h with rfl | h
          · simp
          · have := mem_posText h
            have e : cp.2 - p = (cp.2 - (p + 1)) + 1 := by omega
            rw [e, List.getElem?_cons_succ]
            exact ih _ _ h
      show (t ++ render rest)[cp.2 - p]? = some cp.1
      rw [List.getElem?_append_left (by omega)]
      exact key t p cp h
    · obtain ⟨h1, h2⟩ := textChars_in_source rest _ cp h
      refine ⟨by omega, ?_⟩
      show (s.render ++ render rest)[cp.2 - p]? = some cp.1
      rw [List.getElem?_append_right (by rw [Seg.len_eq]; omega), Seg.len_eq]
      have e : cp.2 - p - s.len = cp.2 - (p + s.len) := by omega
      rw [e]; exact h2

/-- **source order**: the calls are listed with increasing offsets, and a body ends before the next
    one starts -/
theorem bodies_sorted : ∀ (segs : List Seg) (p : Nat),
    (bodies p segs).Pairwise (fun a b => a.1 + a.2.length < b.1)
  | [], _ => by simp [bodies, gather]
  | s :: rest, p => by
    simp only [bodies, gather]
    rw [List.pairwise_append]
    refine ⟨?_, bodies_sorted rest _, ?_⟩
    · cases s <;> simp [Seg.body]
    · intro a ha b hb
      have h1 := Seg.body_range ha
      have h2 := gather_range_lt Seg.body (fun b => b.1)
        (fun s p b hb => ⟨(Seg.body_range hb).1, by have := (Seg.body_range hb).2; omega⟩) rest _ b hb
      omega

/-! ### what stays out -/

theorem textChars_snd (p : Nat) (segs : List Seg) :
    (textChars p segs).map (·.2) = gather (fun s q => (s.text q).map (·.2)) p segs :=
  mem_gather_map Seg.text (·.2) segs p

theorem bodySpans_eq (p : Nat) (segs : List Seg) :
    bodySpans p segs = gather (fun s q => (s.body q).map (fun b => (b.1, b.2.length + 1))) p segs :=
  mem_gather_map Seg.body _ segs p

/-- **no text character lies inside a body**: the positions of the main flow avoid the spans of the
    bodies (closing brace included) -/
theorem text_avoids_bodies (segs : List Seg) (p : Nat) (cp : Char × Nat) (x : Nat × Nat)
    (h : cp ∈ textChars p segs) (hx : x ∈ bodySpans p segs) : cp.2 < x.1 ∨ x.1 + x.2 ≤ cp.2 := by
  have h1 : cp.2 ∈ gather (fun s q => (s.text q).map (·.2)) p segs := by
    rw [← textChars_snd]; exact List.mem_map_of_mem h
  rw [bodySpans_eq] at hx
  refine gather_disjoint _ _ ?_ ?_ ?_ segs p cp.2 x h1 hx
  · intro s p q hq
    obtain ⟨c, hc, rfl⟩ := List.mem_map.mp hq
    exact Seg.text_range hc
  · intro s p x hx
    obtain ⟨b, hb, rfl⟩ := List.mem_map.mp hx
    have := Seg.body_range hb
    simp only; omega
  · intro s p q x hq hx
    cases s <;> simp [Seg.text, Seg.body] at hq hx

/-- the positions of the flows of a segment -/
def Seg.flowPos : Seg → Nat → List Nat
  | s, p => (s.body p).flatMap (fun b => (flowOut b.1 b.2).map (·.2))

theorem flows_snd : ∀ (segs : List Seg) (p : Nat), (flows p segs).map (·.2) = gather Seg.flowPos p segs
  | [], _ => rfl
  | .txt s :: rest, p => by
    simpa [flows, gather, Seg.flowPos, Seg.body, Seg.len] using flows_snd rest _
  | .call name body :: rest, p => by
    have := flows_snd rest (p + (name.length + body.length + 3))
    simp only [flows, gather, Seg.flowPos, Seg.body, Seg.len, List.map_append, List.flatMap_cons,
      List.flatMap_nil, List.append_nil] at this ⊢
    rw [this]
  | .callO name opt body :: rest, p => by
    have := flows_snd rest (p + (name.length + opt.length + body.length + 5))
    simp only [flows, gather, Seg.flowPos, Seg.body, Seg.len, List.map_append, List.flatMap_cons,
      List.flatMap_nil, List.append_nil] at this ⊢
    rw [this]
  | .beg name ws :: rest, p => by
    simpa [flows, gather, Seg.flowPos, Seg.body, Seg.len] using flows_snd rest _
  | .begN name note :: rest, p => by
    simpa [flows, gather, Seg.flowPos, Seg.body, Seg.len] using flows_snd rest _
  | .en name :: rest, p => by
    simpa [flows, gather, Seg.flowPos, Seg.body, Seg.len] using flows_snd rest _

theorem mem_flowOut {q : Nat} {body : Str} {cp : Char × Nat} (h : cp ∈ flowOut q body) :
    q ≤ cp.2 ∧ cp.2 ≤ q + body.length := by
  simp only [flowOut, List.mem_append, List.mem_cons, List.not_mem_nil, or_false] at h
  have hl : lastTokOff body ≤ body.length := by unfold lastTokOff; omega
  rcases h with ((rfl | rfl | rfl) | h) | rfl
  · simp
  · simp
  · simp
  · have := mem_posText h; omega
  · simp only; omega

theorem Seg.flowPos_range {s : Seg} {p q : Nat} (h : q ∈ s.flowPos p) : p ≤ q ∧ q < p + s.len := by
  simp only [Seg.flowPos, List.mem_flatMap, List.mem_map] at h
  obtain ⟨b, hb, cp, hcp, rfl⟩ := h
  have h1 := Seg.body_range hb
  have h2 := mem_flowOut hcp
  omega

/-- **nothing of an optional argument appears**: no output position — of the main flow or of a
    flow — lies inside `[opt]` or `[placement]` (brackets included) -/
theorem out_avoids_opt (segs : List Seg) (p : Nat) (cp : Char × Nat) (x : Nat × Nat)
    (h : cp ∈ delLines (marks p segs) ++ flows p segs) (hx : x ∈ optSpans p segs) :
    cp.2 < x.1 ∨ x.1 + x.2 ≤ cp.2 := by
  have h1 : cp.2 ∈ gather (fun s q => (s.text q).map (·.2) ++ s.flowPos q) p segs := by
    have hsplit : ∀ (segs : List Seg) (p : Nat) (q : Nat),
        (q ∈ gather (fun s q => (s.text q).map (·.2)) p segs ∨ q ∈ gather Seg.flowPos p segs) →
        q ∈ gather (fun s q => (s.text q).map (·.2) ++ s.flowPos q) p segs := by
      intro segs
      induction segs with
      | nil => intro p q h; simp [gather] at h
      | cons s rest ih =>
        intro p q h
        simp only [gather, List.mem_append] at h ⊢
        rcases h with (h | h) | (h | h)
        · exact Or.inl (Or.inl h)
        · exact Or.inr (ih _ _ (Or.inl h))
        · exact Or.inl (Or.inr h)
        · exact Or.inr (ih _ _ (Or.inr h))
    apply hsplit
    rcases List.mem_append.mp h with h | h
    · left; rw [← textChars_snd]; exact List.mem_map_of_mem (main_sub_text h)
    · right; rw [← flows_snd]; exact List.mem_map_of_mem h
  refine gather_disjoint _ _ ?_ ?_ ?_ segs p cp.2 x h1 hx
  · intro s p q hq
    rcases List.mem_append.mp hq with hq | hq
    · obtain ⟨c, hc, rfl⟩ := List.mem_map.mp hq
      exact Seg.text_range hc
    · exact Seg.flowPos_range hq
  · intro s p x hx
    exact Seg.opt_range hx
  · intro s p q x hq hx
    cases s <;> simp only [Seg.opt, List.not_mem_nil, List.mem_singleton] at hx
    · -- `callO`
      subst hx
      rename_i name opt body
      simp only [Seg.text, List.map_nil, List.nil_append, Seg.flowPos, Seg.body, List.flatMap_cons,
        List.flatMap_nil, List.append_nil, List.mem_map] at hq
      obtain ⟨cp, hcp, rfl⟩ := hq
      have := mem_flowOut hcp
      right; simp only; omega
    · -- `begN`
      subst hx
      simp [Seg.text, Seg.flowPos, Seg.body] at hq

/-! ### every flow is one block of the output -/

/-- **each flow is complete and appears exactly once**: for every call (`b` = offset of the first body
    character and body) the output is `A ++ flowOut b.1 b.2 ++ B` — three line breaks, the body at its
    own positions, one line break — and NO other entry of the output, neither of the main flow nor of
    another flow, has a position in the span of the body (closing brace included) -/
theorem flow_block (segs : List Seg) (p : Nat) (b : Nat × Str) (hb : b ∈ bodies p segs) :
    ∃ A B, delLines (marks p segs) ++ flows p segs = A ++ flowOut b.1 b.2 ++ B ∧
      (∀ cp ∈ A, cp.2 < b.1 ∨ b.1 + b.2.length < cp.2) ∧
      (∀ cp ∈ B, cp.2 < b.1 ∨ b.1 + b.2.length < cp.2) := by
  obtain ⟨L, Rr, hsplit⟩ := List.append_of_mem hb
  have hsorted := bodies_sorted segs p
  rw [hsplit, List.pairwise_append] at hsorted
  obtain ⟨_, hR, hLR⟩ := hsorted
  rw [List.pairwise_cons] at hR
  refine ⟨delLines (marks p segs) ++ L.flatMap (fun b => flowOut b.1 b.2),
    Rr.flatMap (fun b => flowOut b.1 b.2), ?_, ?_, ?_⟩
  · rw [flows_eq_bodies, hsplit]
    simp [List.flatMap_append]
  · intro cp hcp
    rcases List.mem_append.mp hcp with h | h
    · have := text_avoids_bodies segs p cp (b.1, b.2.length + 1) (main_sub_text h)
        (by simp only [bodySpans, List.mem_map]; exact ⟨b, hb, rfl⟩)
      simp only at this; omega
    · obtain ⟨a, ha, hcpa⟩ := List.mem_flatMap.mp h
      have h1 := hLR a ha b (by simp)
      have h2 := mem_flowOut hcpa
      left; omega
  · intro cp hcp
    obtain ⟨c, hc, hcpc⟩ := List.mem_flatMap.mp hcp
    have h1 := hR.1 c hc
    have h2 := mem_flowOut hcpc
    right; omega

/-- the text of the flows: for every call in source order three line breaks, the body, one line
    break -/
theorem flows_text (segs : List Seg) (p : Nat) :
    (flows p segs).map (·.1) = (bodies p segs).flatMap (fun b => [nl, nl, nl] ++ b.2 ++ [nl]) := by
  rw [flows_eq_bodies, List.map_flatMap]
  congr 1
  funext b
  simp [flowOut, posText_fst]

end PlainFlows
end Yalafi
