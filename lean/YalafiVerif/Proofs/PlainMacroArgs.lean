/-
  Proofs/PlainMacroArgs.lean — C09 "a user definition expands by substitution", C04 "generated text maps
  into the construct", C02 "arguments handed to user-defined macros keep their own offsets", end to end
  on the model, for documents that consist of inert text (as in Proofs/Plain.lean / PlainUnknown.lean),
  definitions WITH parameters `\newcommand{\name}[n]{body}` and uses `\name{a1}…{am}`.
  (The parameterless `\newcommand{\name}{body}` / `\name` / `\name{}` is Proofs/PlainMacro.lean; the
  expander level of this file is Proofs/PlainMacroArgsExp.lean.)

  Documents
    `BP`                       a piece of a body: `lit s` (literal text) | `par k` (the reference `#k`)
    `Seg`, `render`            text | `.defn name n body ↦ \newcommand{\name}[n]{body}` |
                               `.use name [a1,…,am] ↦ \name{a1}…{am}`
    `segsOk`, `arityOk`, `SegsOk`   all side conditions (computable);
                               `segsOkSimple`, `tablesOk`, `segsOk_of_simple`: context-free sufficient conditions
  Reference output
    `argSpans`, `spanAt`, `lastTokStart`, `spanEnd`, `startCur`, `bodyMarks`, `groupMarks`, `segMarks`,
    `segUnknowns`; `PlainMacro.delLines` (the character-level model of `remove_pure_action_lines`);
    `expand`, `segMarks_chars`, `tex2txt_newcommand_args_kept`: the reading when no line is deleted
  Scanner
    `nextToken_inert'`, `RunFacts`, `scanSteps_run`   a run of inert characters in front of a visible
                               character: plain tokens that spell the run, the first one at its start, the
                               last one at `lastTokStart`
    `normBody`, `scanSteps_tail`, `scanSteps_body`   a body = text, then `#k` + text, …; `#k` is one
                               `ArgumentToken`
    `scanSteps_args`           the brace groups of a use
    `OkSrc`, `Link`, `scanSteps_macro`, `scan_macro`   the whole source
  Meaning
    `Rel`, `tail_sem`, `body_sem`, `groups_sem`, `link_sem`   marks / fuel / unknowns / arity of the token
                               buffer in terms of the source
  Lifts
    `parserWork_macro`, `parse_macro`, `tex2txt_macro_src`, `tex2txt_newcommand_args`

  The end-to-end statement (`tex2txt_newcommand_args`).  `tex2txt` succeeds; text and (1-based) positions are
  `delLines (segMarks [] 0 segs)`:
    * a text character is copied with its own position;
    * a definition leaves no text (one Action mark) and comes into force behind it (redefinition,
      also with another number of parameters, allowed: the latest earlier definition counts);
    * a use `\name{a1}…{am}` of a name whose definition in force has `n ≤ m` parameters is replaced by
      one Action mark and the body in which
        - `#k` is the text of `ak`, EVERY CHARACTER WITH ITS OWN SOURCE POSITION (the position inside
          the braces of the use), between two Action marks — also if `#k` occurs several times: all
          copies carry the same positions;
        - a literal character of the body carries the position `cur`, where (this is what
          `Parser.generate_replacements` does; it is NOT always the backslash of the use):
            `cur` = the backslash of the use, if the body contains no `#k` at all;
            `cur` = the first character of the argument that is referenced LAST in the body, for the
                    literal text in front of the first `#k` (`startCur`);
            `cur` = the last TOKEN of `ak` for the literal text behind `#k` up to the next reference: the
                    last character of `ak`, or, if `ak` ends with white space, the first character of
                    that trailing white space (`spanEnd`, `lastTokStart`);
      the groups `{a(n+1)}…{am}` that are left are copied: an Action mark per brace, the text with its
      own positions;
    * a use of a name that is not (yet) defined: `n = 0`, empty body, i.e. an Action mark and all
      groups copied; the name goes to the unknowns list (each name once, in order of first use);
    * then `remove_pure_action_lines` deletes every line (up to and including its line break) that
      consists of white space only and holds at least one mark (`delLines`); e.g. a definition on a
      line of its own disappears with the line; so does a line `\pp{ }` for `\newcommand{\pp}[1]{#1}`;
    * no diagnostic is added, `unknowns` as described.

  Side conditions (all in `SegsOk T st1 segs`, decidable; `st1` = state after `Parser.__init__`)
    `noEmptyActive T st1`      no short macro has an empty key (Proofs/PlainUnknown.lean)
    `ncOk st1`                 `\newcommand` is declared with arguments `*AOOA`, the handler
                               `h_newcommand`, no default values, no extraction text (real tables: yes)
    text segments              `textOk` of Proofs/PlainUnknown.lean: inert in their right context
    definitions (`defOk`)      `\newcommand` and `\name` are scanned as macro tokens, the four braces as
                               `{` `}`, and `[`, the digit, `]` as one-character text tokens (no special
                               sequence of the tables interferes); `name`: ASCII letters / `@`, none of
                               `\begin \end \item \verb \def`, no accent macro, not declared in `st1`
                               (`cwOk`), not in `newcommand_ignore`; `n ≤ 9` (one digit; `n = 0` is
                               allowed), the digit has the decimal value `n` in the tables (`h_newcommand`
                               computes the number with `int()`) and is no active character (the handler
                               expands `[n]` with `get_text_expanded`); the body is not empty (an empty
                               group would be collected as a void token) and consists of `inertChar`s
                               (never active, white space or no structural character `% # \ $ { }` and no
                               start of a special sequence; line breaks allowed) and references `#k`,
                               `1 ≤ k ≤ n`, whose digit has the decimal value `k` (the scanner's
                               `ArgumentToken`; a reference out of range is a LaTeX error of the handler)
    uses (`useOk`)             the same conditions on the name (defined or not); `m ≥ 1` groups directly
                               behind the name and behind each other, the braces scanned as such; every
                               argument non-empty (an empty group is a void token), only `inertChar`s
                               (hence brace-free; blanks and line breaks allowed)
    `arityOk [] segs`          every use has at least as many groups as the definition in force has
                               parameters (otherwise `expand_arguments` takes the following tokens of the
                               text as arguments)
    options                    no --defs, --extr, --repl, --unkn; single-language mode
    fuel                       `(render segs).length + segInserted [] 0 segs + 6 ≤ fuel`: one unit per source
                               character, one per inserted token (bound: per use the literal characters of
                               the body, and per reference the length of the argument plus two), six more
                               (`parserWork`, the last iteration of the loop, and the handler of
                               `\newcommand`, which nests six calls deep because it expands `[n]`)

  NOT covered: optional first parameter `\newcommand{\name}[n][default]{body}`; `\renewcommand`,
  `\def`; starred form; more than 9 / multi-digit `[n]`; `\newcommand\name…` without braces around the
  name; unbraced single-token arguments (`\pp x`), white space or line breaks between the name and `{`
  or between groups; nested braces, macros, maths, comments inside bodies or arguments (in particular
  nested uses); empty arguments / empty bodies; uses with fewer groups than parameters; definitions
  supplied by --defs or \LTinput.
-/
import YalafiVerif.Proofs.PlainMacroArgsExp
namespace Yalafi
namespace PlainMacroArgs

open M
open PlainMacro (lbr rbr NoBrace restamp ncName braceAt Shape bodyTxt Mark tokChars tokMarks marksOf charsOf
  delLines hasNl_single inertChar_facts takeWhile_append_stop1 nextToken_brace scanSteps_step nextToken_nc
  ncName_eq NcOk ncOk NcOk_of_ncOk NameOk nameOk_of_cwFacts)

/-! ### the documents -/

/-- a piece of a body: literal text, or a reference `#k` -/
inductive BP where
  | lit (s : Str)
  | par (k : Nat)
deriving Repr, DecidableEq

/-- a segment of the source: a run of text, a definition `\newcommand{\name}[n]{body}`, a use
    `\name{a1}…{am}` -/
inductive Seg where
  | txt (s : Str)
  | defn (name : Str) (n : Nat) (body : List BP)
  | use (name : Str) (args : List Str)
deriving Repr, DecidableEq

def BP.render : BP → Str
  | .lit s => s
  | .par k => ['#', digitChar k]

def bodyStr : List BP → Str
  | [] => []
  | b :: bs => b.render ++ bodyStr bs

/-- `{a1}…{am}` -/
def argsStr : List Str → Str
  | [] => []
  | a :: as => '{' :: (a ++ '}' :: argsStr as)

def Seg.render : Seg → Str
  | .txt s => s
  | .defn name n body =>
    '\\' :: (ncName ++ '{' :: '\\' :: (name ++ '}' :: '[' :: digitChar n :: ']' :: '{' :: (bodyStr body ++ ['}'])))
  | .use name args => '\\' :: (name ++ argsStr args)

/-- the source text -/
def render : List Seg → Str
  | [] => []
  | s :: rest => s.render ++ render rest

/-! ### the reference output -/

/-- the text `s` ends with `trailSp s` white-space characters -/
def trailSp (s : Str) : Nat := (s.reverse.takeWhile isSpace).length

/-- offset of the last scanner token of an inert text: its last character, or, if the text ends with
    white space, the first character of the trailing run of white space -/
def lastTokStart (s : Str) : Nat := s.length - (if trailSp s = 0 then 1 else trailSp s)

/-- the arguments of a use as (position of the first character, text); `q` is the position of the
    opening brace of the first argument -/
def argSpans : Nat → List Str → List (Nat × Str)
  | _, [] => []
  | q, a :: as => (q + 1, a) :: argSpans (q + a.length + 2) as

/-- the k-th argument (1-based) -/
def spanAt (spans : List (Nat × Str)) (k : Nat) : Nat × Str := (spans[k - 1]?).getD (0, [])

/-- the position of the last token of an argument -/
def spanEnd (sp : Nat × Str) : Nat := sp.1 + lastTokStart sp.2

/-- an argument in the output: its characters with their own positions between two Action marks -/
def argMarks (sp : Nat × Str) : List Mark := none :: ((posText sp.1 sp.2).map some ++ [none])

/-- where the literal text in front of the first `#k` goes: the start of the argument that is
    referenced LAST in the body; the position `cur` (the backslash of the use) if the body has no `#k` -/
def startCur (spans : List (Nat × Str)) : Nat → List BP → Nat
  | cur, [] => cur
  | cur, .lit _ :: rest => startCur spans cur rest
  | _, .par k :: rest => startCur spans (spanAt spans k).1 rest

/-- the expansion of a body: literal characters at `cur`; `#k` = the k-th argument with its own
    positions, and `cur` moves to the last token of that argument -/
def bodyMarks (spans : List (Nat × Str)) : Nat → List BP → List Mark
  | _, [] => []
  | cur, .lit s :: rest => s.map (fun c => some (c, cur)) ++ bodyMarks spans cur rest
  | _, .par k :: rest => argMarks (spanAt spans k) ++ bodyMarks spans (spanEnd (spanAt spans k)) rest

/-- brace groups that are not consumed as arguments -/
def groupMarks : List (Nat × Str) → List Mark
  | [] => []
  | sp :: rest => argMarks sp ++ groupMarks rest

/-- the definitions in force: name (without backslash), number of parameters, body; latest first -/
abbrev Env := List (Str × Nat × List BP)

def lookupDef (env : Env) (name : Str) : Option (Nat × List BP) := (env.find? (·.1 == name)).map (·.2)

/-- number of parameters and body of the latest definition of `name`; `(0, [])` if there is none -/
def defOf (env : Env) (name : Str) : Nat × List BP := (lookupDef env name).getD (0, [])

def argsLen : List Str → Nat
  | [] => 0
  | a :: as => a.length + 2 + argsLen as

/-- the marks of a document that starts at position `p`, `env` being the definitions in force:
    * a text character with its own position;
    * a definition: one Action mark; the definition comes into force;
    * a use at position `q` (the backslash) of a name whose definition in force has `n` parameters
      (`n = 0`, empty body for an undefined name): an Action mark, the expansion of the body
      (`bodyMarks`) on the first `n` arguments, and the remaining brace groups -/
def segMarks : Env → Nat → List Seg → List Mark
  | _, _, [] => []
  | env, p, .txt s :: rest => (posText p s).map some ++ segMarks env (p + s.length) rest
  | env, p, .defn name n body :: rest =>
    none :: segMarks ((name, n, body) :: env) (p + (name.length + (bodyStr body).length + 19)) rest
  | env, p, .use name args :: rest =>
    none :: (bodyMarks (argSpans (p + name.length + 1) args)
              (startCur (argSpans (p + name.length + 1) args) p (defOf env name).2) (defOf env name).2
      ++ (groupMarks ((argSpans (p + name.length + 1) args).drop (defOf env name).1)
      ++ segMarks env (p + (name.length + 1 + argsLen args)) rest))

/-- the names (with backslash) used while undefined, in order, with repetitions -/
def segUnknowns : Env → List Seg → List Str
  | _, [] => []
  | env, .txt _ :: rest => segUnknowns env rest
  | env, .defn name n body :: rest => segUnknowns ((name, n, body) :: env) rest
  | env, .use name _ :: rest =>
    (if (lookupDef env name).isNone then [('\\' :: name)] else []) ++ segUnknowns env rest

/-- tokens inserted by a body (upper bound): one per literal character, the argument and two
    Action tokens per reference -/
def bodyInserted (spans : List (Nat × Str)) : List BP → Nat
  | [] => 0
  | .lit s :: rest => s.length + bodyInserted spans rest
  | .par k :: rest => (spanAt spans k).2.length + 2 + bodyInserted spans rest

/-- the number of tokens inserted by the uses (upper bound) -/
def segInserted : Env → Nat → List Seg → Nat
  | _, _, [] => 0
  | env, p, .txt s :: rest => segInserted env (p + s.length) rest
  | env, p, .defn name n body :: rest =>
    segInserted ((name, n, body) :: env) (p + (name.length + (bodyStr body).length + 19)) rest
  | env, p, .use name args :: rest =>
    bodyInserted (argSpans (p + name.length + 1) args) (defOf env name).2
      + segInserted env (p + (name.length + 1 + argsLen args)) rest

/-- every use has at least as many arguments as the definition in force has parameters -/
def arityOk : Env → List Seg → Bool
  | _, [] => true
  | env, .txt _ :: rest => arityOk env rest
  | env, .defn name n body :: rest => arityOk ((name, n, body) :: env) rest
  | env, .use name args :: rest => decide ((defOf env name).1 ≤ args.length) && arityOk env rest

/-! ### the side conditions -/

/-- the character `c`, followed by `rest`, is scanned as a one-character text token -/
def txtAt (T : PTables) (c : Char) (rest : Str) : Bool :=
  !isSpace c && !structuralChar c && (matchSpecial T.toTables (c :: rest)).isNone

/-- a piece of a body with `n` parameters: inert characters; `#k` with `1 ≤ k ≤ n`, the digit having
    the value `k` in the tables -/
def bpOk (T : PTables) (st : PState) (n : Nat) : BP → Bool
  | .lit s => s.all (inertChar T st)
  | .par k => decide (1 ≤ k) && decide (k ≤ n) && decimalValue T.toTables.decimalZeros (digitChar k) == some k

/-- `\newcommand{\name}[n]{body}`, followed by `R`:
    * `\newcommand` is one macro token; the four braces are scanned as `{` / `}`;
    * `\name` is a control word as in Proofs/PlainUnknown.lean (`cwOk`), not protected against
      redefinition;
    * `[`, the digit and `]` are scanned as one-character text tokens; `n ≤ 9`, the digit has the
      value `n` in the tables and is not an active character;
    * the body is not empty and consists of inert characters and references `#k`, `1 ≤ k ≤ n` -/
def defOk (T : PTables) (st : PState) (name : Str) (n : Nat) (body : List BP) (R : Str) : Bool :=
  (matchSpecial T.toTables
    ('\\' :: (ncName ++ '{' :: '\\' :: (name ++ '}' :: '[' :: digitChar n :: ']' :: '{' ::
      (bodyStr body ++ '}' :: R))))).isNone &&
  !T.toTables.isAccent ('\\' :: ncName) &&
  braceAt T '{' ('\\' :: (name ++ '}' :: '[' :: digitChar n :: ']' :: '{' :: (bodyStr body ++ '}' :: R))) &&
  cwOk T st name ('}' :: '[' :: digitChar n :: ']' :: '{' :: (bodyStr body ++ '}' :: R)) &&
  !st.newcommandIgnore.contains ('\\' :: name) &&
  braceAt T '}' ('[' :: digitChar n :: ']' :: '{' :: (bodyStr body ++ '}' :: R)) &&
  txtAt T '[' (digitChar n :: ']' :: '{' :: (bodyStr body ++ '}' :: R)) &&
  txtAt T (digitChar n) (']' :: '{' :: (bodyStr body ++ '}' :: R)) &&
  txtAt T ']' ('{' :: (bodyStr body ++ '}' :: R)) &&
  decide (n ≤ 9) && decimalValue T.toTables.decimalZeros (digitChar n) == some n &&
  !(activeChars T st).contains [digitChar n] &&
  braceAt T '{' (bodyStr body ++ '}' :: R) &&
  !(bodyStr body).isEmpty && body.all (bpOk T st n) &&
  braceAt T '}' R

/-- `{a1}…{am}`, followed by `R`: the braces are scanned as such, every argument is a non-empty
    string of inert characters -/
def argsOk (T : PTables) (st : PState) : List Str → Str → Bool
  | [], _ => true
  | a :: as, R =>
    braceAt T '{' (a ++ '}' :: (argsStr as ++ R)) && !a.isEmpty && a.all (inertChar T st) &&
    braceAt T '}' (argsStr as ++ R) && argsOk T st as R

/-- `\name{a1}…{am}`, followed by `R`: a control word (`cwOk`), not protected; at least one group -/
def useOk (T : PTables) (st : PState) (name : Str) (args : List Str) (R : Str) : Bool :=
  cwOk T st name (argsStr args ++ R) && !st.newcommandIgnore.contains ('\\' :: name) &&
  !args.isEmpty && argsOk T st args R

/-- well-formed documents: every segment is fine in front of the rendering of the following ones -/
def segsOk (T : PTables) (st : PState) : List Seg → Bool
  | [] => true
  | .txt s :: rest => textOk T st s (render rest) && segsOk T st rest
  | .defn name n body :: rest => defOk T st name n body (render rest) && segsOk T st rest
  | .use name args :: rest => useOk T st name args (render rest) && segsOk T st rest

/-! ### `lastTokStart` -/

theorem takeWhile_append_of_stop {α} (p : α → Bool) : ∀ (a b : List α), (∃ x ∈ a, p x = false) →
    (a ++ b).takeWhile p = a.takeWhile p
  | [], _, h => by obtain ⟨x, hx, _⟩ := h; simp at hx
  | y :: a, b, h => by
    by_cases hy : p y = true
    · obtain ⟨x, hx, hpx⟩ := h
      rcases List.mem_cons.mp hx with rfl | hx
      · rw [hy] at hpx; cases hpx
      · simp [hy, takeWhile_append_of_stop p a b ⟨x, hx, hpx⟩]
    · simp [hy]

theorem trailSp_all (s : Str) (h : ∀ c ∈ s, isSpace c = true) : trailSp s = s.length := by
  unfold trailSp
  rw [takeWhile_all isSpace s.reverse (fun x hx => h x (List.mem_reverse.mp hx)), List.length_reverse]

theorem trailSp_append (a r : Str) (h : ∃ x ∈ r, isSpace x = false) : trailSp (a ++ r) = trailSp r := by
  unfold trailSp
  obtain ⟨x, hx, hpx⟩ := h
  rw [List.reverse_append, takeWhile_append_of_stop isSpace r.reverse a.reverse
    ⟨x, List.mem_reverse.mpr hx, hpx⟩]

theorem trailSp_cons_all (c : Char) (r : Str) (hc : isSpace c = false) (h : ∀ x ∈ r, isSpace x = true) :
    trailSp (c :: r) = r.length := by
  unfold trailSp
  rw [List.reverse_cons, takeWhile_append_stop isSpace r.reverse [c]
    (List.all_eq_true.mpr (fun x hx => h x (List.mem_reverse.mp hx))) (by simp [hc]), List.length_reverse]

theorem trailSp_le (s : Str) : trailSp s ≤ s.length := by
  unfold trailSp
  have := ScannerAux.length_takeWhile_le' isSpace s.reverse
  simpa using this

/-- a text that is one token -/
theorem lastTokStart_single (c : Char) (hc : isSpace c = false) : lastTokStart [c] = 0 := by
  have : trailSp [c] = 0 := by simp [trailSp, hc]
  simp [lastTokStart, this]

theorem lastTokStart_all (s : Str) (h : ∀ c ∈ s, isSpace c = true) : lastTokStart s = 0 := by
  unfold lastTokStart
  rw [trailSp_all s h]
  split <;> omega

/-- a first token `tk` (one visible character, or a maximal run of white space) in front of a
    non-empty rest -/
theorem lastTokStart_step (tk r : Str) (hr : r ≠ [])
    (h : (∃ c, tk = [c] ∧ isSpace c = false) ∨ (∃ x ∈ r, isSpace x = false)) :
    lastTokStart (tk ++ r) = tk.length + lastTokStart r := by
  have hrl : 1 ≤ r.length := List.length_pos_iff.mpr hr
  by_cases hall : ∀ x ∈ r, isSpace x = true
  · rcases h with ⟨c, rfl, hc⟩ | ⟨x, hx, hpx⟩
    · unfold lastTokStart
      rw [show [c] ++ r = c :: r from rfl, trailSp_cons_all c r hc hall, trailSp_all r hall]
      simp only [List.length_cons, List.length_nil]
      split <;> omega
    · rw [hall x hx] at hpx; cases hpx
  · have hex : ∃ x ∈ r, isSpace x = false := by
      apply Classical.byContradiction
      intro hno
      apply hall
      intro x hx
      cases hsx : isSpace x with
      | true => rfl
      | false => exact absurd ⟨x, hx, hsx⟩ hno
    unfold lastTokStart
    rw [trailSp_append tk r hex, List.length_append]
    have := trailSp_le r
    split <;> omega

/-! ### the scanner on a run of inert characters -/

/-- one scanner step on an inert character `c` in front of `cs ++ x :: R`, `x` no white space: the
    token is taken from `c :: cs`: the maximal run of white space, or one character -/
theorem nextToken_inert' (T : PTables) (st : PState) (src : Str) (pos : Nat) (c : Char) (cs : Str)
    (x : Char) (R : Str) (hx : isSpace x = false) (h : inertChar T st c = true) :
    ∃ s, nextToken T.toTables src pos (c :: (cs ++ x :: R)) = s ∧ s.diag = none ∧ s.extra = [] ∧
      1 ≤ s.len ∧ s.len ≤ (c :: cs).length ∧ PlainTok s.tok ∧ s.tok.fix = false ∧ s.tok.pos = pos ∧
      s.tok.txt = (c :: cs).take s.len ∧ (activeChars T st).contains s.tok.txt = false ∧ Shape s.tok ∧
      (isSpace c = true → (∀ y ∈ s.tok.txt, isSpace y = true) ∧
        ((c :: cs).drop s.len).head?.all (fun d => !isSpace d) = true) ∧
      (isSpace c = false → s.len = 1) := by
  obtain ⟨hact, hsnd⟩ := inertChar_facts h (cs ++ x :: R)
  obtain ⟨hp, hone⟩ := nextToken_text T src pos c (cs ++ x :: R) hsnd
  generalize hs : nextToken T.toTables src pos (c :: (cs ++ x :: R)) = s at hp hone
  have h1 := hp.len_pos
  have hlen : s.tok.txt.length = s.len := by
    rw [hp.txt, List.length_take]; exact Nat.min_eq_left hp.len_le
  have hbound : s.len ≤ (c :: cs).length ∧
      (isSpace c = true → s.tok.txt = (c :: cs).takeWhile isSpace) := by
    by_cases hsp : isSpace c = true
    · have hf := hp.first
      simp only [firstTokTxt, hsp, if_true] at hf
      rw [show c :: (cs ++ x :: R) = (c :: cs) ++ x :: R from rfl,
        takeWhile_append_stop1 isSpace x hx (c :: cs) R] at hf
      refine ⟨?_, fun _ => hf⟩
      rw [← hlen, hf]; exact ScannerAux.length_takeWhile_le' _ _
    · have := (hone (by simpa using hsp)).1
      exact ⟨by rw [this]; simp, fun h' => absurd h' hsp⟩
  have htxt : s.tok.txt = (c :: cs).take s.len := by
    rw [hp.txt, show c :: (cs ++ x :: R) = (c :: cs) ++ x :: R from rfl,
      List.take_append_of_le_length hbound.1]
  have hne : s.tok.txt ≠ [] := by
    intro e; rw [e] at hlen; simp at hlen; omega
  refine ⟨s, rfl, hp.diag, hp.extra, h1, hbound.1, hp.tok, hp.fix, hp.pos, htxt, ?_, ⟨hne, ?_⟩, ?_, ?_⟩
  · obtain ⟨k, hk⟩ : ∃ k, s.len = k + 1 := ⟨s.len - 1, by omega⟩
    rw [htxt, hk, List.take_succ_cons]
    exact not_active_cons T st c _ hact
  · intro hnl
    by_cases hsp : isSpace c = true
    · rw [hbound.2 hsp]
      simp only [isBlank, List.all_eq_true]
      exact fun y hy => mem_takeWhile_imp _ _ _ hy
    · have hsp' : isSpace c = false := by simpa using hsp
      have := (hone hsp').1
      rw [htxt, this] at hnl
      simp only [List.take_succ_cons, List.take_zero] at hnl
      rw [hasNl_single c hsp'] at hnl; cases hnl
  · intro hsp
    have hf := hbound.2 hsp
    refine ⟨fun y hy => by rw [hf] at hy; exact mem_takeWhile_imp _ _ _ hy, ?_⟩
    have hl2 : s.len = ((c :: cs).takeWhile isSpace).length := by rw [← hlen, hf]
    rw [hl2]
    generalize c :: cs = l
    induction l with
    | nil => rfl
    | cons a l ih =>
      by_cases ha : isSpace a = true
      · simpa [ha] using ih
      · simp [ha]
  · intro hsp
    exact (hone hsp).1

/-- what the scanner loop yields on a run of inert characters that starts at `pos` -/
structure RunFacts (T : PTables) (st : PState) (pos : Nat) (s : Str) (steps : List ScanStep) : Prop where
  ok : ∀ x ∈ steps, x.diag = none ∧ x.extra = [] ∧ PlainTok x.tok ∧
    (activeChars T st).contains x.tok.txt = false ∧ Shape x.tok
  len : steps.length ≤ s.length
  chars : charsOf (steps.map (·.tok)) = posText pos s
  ne : s ≠ [] → steps ≠ []
  head : ∀ x xs, steps = x :: xs → x.tok.pos = pos
  last : ∀ x, steps.getLast? = some x → x.tok.pos = pos + lastTokStart s

theorem charsOf_cons' (t : Tok) (ts : List Tok) : charsOf (t :: ts) = tokChars t ++ charsOf ts := by
  simp [charsOf]

theorem head_nonspace_mem (r : Str) (hr : r ≠ []) (h : r.head?.all (fun d => !isSpace d) = true) :
    ∃ x ∈ r, isSpace x = false := by
  cases r with
  | nil => exact absurd rfl hr
  | cons a r' => exact ⟨a, List.mem_cons_self .., by simpa using h⟩

/-- the scanner loop runs through a run of inert characters in front of a character that is no
    white space -/
theorem scanSteps_run (T : PTables) (st : PState) (src : Str) (x : Char) (R : Str)
    (hx : isSpace x = false) :
    ∀ (n : Nat) (s : Str) (pos fuel : Nat), s.length ≤ n → s.length ≤ fuel →
      (∀ c ∈ s, inertChar T st c = true) →
      ∃ steps, RunFacts T st pos s steps ∧
        scanSteps T.toTables src fuel pos (s ++ x :: R)
          = (steps ++ (scanSteps T.toTables src (fuel - steps.length) (pos + s.length) (x :: R)).1,
             (scanSteps T.toTables src (fuel - steps.length) (pos + s.length) (x :: R)).2) := by
  intro n
  induction n with
  | zero =>
    intro s pos fuel hn _ _
    have : s = [] := by cases s <;> simp_all
    subst this
    exact ⟨[], ⟨by simp, by simp, rfl, by simp, by simp, by simp⟩, by simp⟩
  | succ n ih =>
    intro s pos fuel hn hf hok
    cases s with
    | nil => exact ⟨[], ⟨by simp, by simp, rfl, by simp, by simp, by simp⟩, by simp⟩
    | cons c cs =>
      obtain ⟨f, rfl⟩ : ∃ f, fuel = f + 1 := ⟨fuel - 1, by simp at hf; omega⟩
      obtain ⟨y, hy, h1, h2, h3, h4, h5, h6, h7, h8, h9, h10, h11, h12⟩ :=
        nextToken_inert' T st src pos c cs x R hx (hok c (by simp))
      simp only [List.length_cons] at hn hf h4
      have hdrop : (c :: (cs ++ x :: R)).drop y.len = (c :: cs).drop y.len ++ x :: R := by
        rw [show c :: (cs ++ x :: R) = (c :: cs) ++ x :: R from rfl,
          List.drop_append_of_le_length (by simpa using h4)]
      have hl' : ((c :: cs).drop y.len).length = cs.length + 1 - y.len := by simp
      obtain ⟨steps', B, hsc⟩ := ih ((c :: cs).drop y.len) (pos + y.len) f (by omega) (by omega)
        (fun d hd => hok d (List.mem_of_mem_drop hd))
      have hsplit : c :: cs = y.tok.txt ++ (c :: cs).drop y.len := by
        rw [h8, List.take_append_drop]
      have htl : y.tok.txt.length = y.len := by
        rw [h8, List.length_take]; exact Nat.min_eq_left (by simpa using h4)
      refine ⟨y :: steps', ⟨?_, ?_, ?_, by simp, ?_, ?_⟩, ?_⟩
      · intro z hz
        rcases List.mem_cons.mp hz with rfl | hz
        · exact ⟨h1, h2, h5, h9, h10⟩
        · exact B.ok z hz
      · have := B.len
        simp only [List.length_cons]; omega
      · rw [List.map_cons, charsOf_cons', B.chars, PlainMacro.tokChars_nofix _ h6, h7]
        conv => rhs; rw [hsplit, posText_append, htl]
      · intro z zs he
        simp only [List.cons.injEq] at he
        rw [← he.1]; exact h7
      · intro z hz
        cases hst : steps' with
        | nil =>
          rw [hst] at hz
          simp only [List.getLast?_singleton, Option.some.injEq] at hz
          subst hz
          have hd0 : (c :: cs).drop y.len = [] := by
            cases hdr : (c :: cs).drop y.len with
            | nil => rfl
            | cons a l =>
              have := B.ne (by rw [hdr]; simp)
              exact absurd hst this
          have hall : c :: cs = y.tok.txt := by rw [hsplit, hd0, List.append_nil]
          rw [h7]
          by_cases hsp : isSpace c = true
          · rw [hall, lastTokStart_all _ (h11 hsp).1]; rfl
          · have hsp' : isSpace c = false := by simpa using hsp
            have hlen1 := h12 hsp'
            have : c :: cs = [c] := by
              rw [hall, h8, hlen1]; rfl
            rw [this, lastTokStart_single c hsp']; rfl
        | cons w ws =>
          rw [hst] at hz
          have hz' : (w :: ws).getLast? = some z := by
            simpa [List.getLast?_cons_cons] using hz
          have hB := B.last z (by rw [hst]; exact hz')
          have hrne : (c :: cs).drop y.len ≠ [] := by
            intro e
            have := B.len
            rw [e, hst] at this
            simp at this
          rw [hB, hsplit, lastTokStart_step y.tok.txt _ hrne ?_, htl]
          · rw [← hsplit]; omega
          · by_cases hsp : isSpace c = true
            · right
              exact head_nonspace_mem _ hrne (h11 hsp).2
            · left
              have hsp' : isSpace c = false := by simpa using hsp
              exact ⟨c, by rw [h8, h12 hsp']; rfl, hsp'⟩
      · rw [show (c :: cs) ++ x :: R = c :: (cs ++ x :: R) from rfl,
          scanSteps_step T.toTables src f pos c _ y hy (by omega), hdrop, hsc]
        simp only [List.cons_append, List.length_cons]
        have e1 : pos + y.len + ((c :: cs).drop y.len).length = pos + (cs.length + 1) := by omega
        have e2 : f + 1 - (steps'.length + 1) = f - steps'.length := by omega
        rw [e1, e2]

/-! ### bodies in normal form -/

/-- a body as: literal text, then references each followed by literal text -/
abbrev NB := Str × List (Nat × Str)

def normBody : List BP → NB
  | [] => ([], [])
  | .lit s :: rest => (s ++ (normBody rest).1, (normBody rest).2)
  | .par k :: rest => ([], (k, (normBody rest).1) :: (normBody rest).2)

def tailStr : List (Nat × Str) → Str
  | [] => []
  | ks :: r => '#' :: digitChar ks.1 :: (ks.2 ++ tailStr r)

theorem bodyStr_norm : ∀ body : List BP, bodyStr body = (normBody body).1 ++ tailStr (normBody body).2
  | [] => rfl
  | .lit s :: rest => by simp [bodyStr, BP.render, normBody, bodyStr_norm rest]
  | .par k :: rest => by simp [bodyStr, BP.render, normBody, tailStr, bodyStr_norm rest]

/-- the conditions on a body in normal form -/
def TailOk (T : PTables) (st : PState) (n : Nat) (l : List (Nat × Str)) : Prop :=
  ∀ ks ∈ l, 1 ≤ ks.1 ∧ ks.1 ≤ n ∧ decimalValue T.toTables.decimalZeros (digitChar ks.1) = some ks.1 ∧
    ∀ c ∈ ks.2, inertChar T st c = true

theorem normBody_ok (T : PTables) (st : PState) (n : Nat) : ∀ body : List BP,
    body.all (bpOk T st n) = true →
    (∀ c ∈ (normBody body).1, inertChar T st c = true) ∧ TailOk T st n (normBody body).2
  | [], _ => ⟨by simp [normBody], by simp [normBody, TailOk]⟩
  | .lit s :: rest, h => by
    simp only [List.all_cons, Bool.and_eq_true, bpOk, List.all_eq_true] at h
    obtain ⟨h1, h2⟩ := normBody_ok T st n rest (List.all_eq_true.mpr h.2)
    refine ⟨?_, h2⟩
    intro c hc
    simp only [normBody, List.mem_append] at hc
    rcases hc with hc | hc
    · exact h.1 c hc
    · exact h1 c hc
  | .par k :: rest, h => by
    simp only [List.all_cons, Bool.and_eq_true, bpOk, decide_eq_true_eq, beq_iff_eq, List.all_eq_true] at h
    obtain ⟨h1, h2⟩ := normBody_ok T st n rest (List.all_eq_true.mpr h.2)
    refine ⟨by simp [normBody], ?_⟩
    intro ks hks
    simp only [normBody, List.mem_cons] at hks
    rcases hks with rfl | hks
    · exact ⟨h.1.1.1, h.1.1.2, h.1.2, h1⟩
    · exact h2 ks hks

/-- the tokens of a body: a reference token, then plain tokens that spell the literal text -/
inductive TailLink : List Tok → List (Nat × Str) → Prop
  | nil : TailLink [] []
  | cons (t : Tok) (k : Nat) (ts : List Tok) (s : Str) (b : List Tok) (rest : List (Nat × Str)) :
      argRef t = some k → (∀ u ∈ ts, PlainTok u ∧ Shape u) → bodyTxt ts = s → TailLink b rest →
      TailLink (t :: (ts ++ b)) ((k, s) :: rest)

def BodyLink (b : List Tok) (nb : NB) : Prop :=
  ∃ ts b', b = ts ++ b' ∧ (∀ u ∈ ts, PlainTok u ∧ Shape u) ∧ bodyTxt ts = nb.1 ∧ TailLink b' nb.2

/-- the token of `#k` -/
def argTok (p k : Nat) (d : Char) : Tok := { kind := .arg k, pos := p, txt := ['#', d] }

theorem nextToken_arg (T : Tables) (src : Str) (pos : Nat) (d : Char) (k : Nat) (rest : Str)
    (h : decimalValue T.decimalZeros d = some k) :
    nextToken T src pos ('#' :: d :: rest) = { tok := argTok pos k d, len := 2 } := by
  simp [nextToken, scanArgToken, h, argTok, show isSpace '#' = false by decide]

theorem tail_head (l : List (Nat × Str)) (R : Str) :
    ∃ x R', tailStr l ++ '}' :: R = x :: R' ∧ isSpace x = false := by
  cases l with
  | nil => exact ⟨'}', R, rfl, by decide⟩
  | cons ks r => exact ⟨'#', _, rfl, by decide⟩

theorem charsOf_fst : ∀ toks : List Tok, (charsOf toks).map (·.1) = bodyTxt toks
  | [] => rfl
  | t :: ts => by
    have ih := charsOf_fst ts
    simp only [charsOf, bodyTxt] at ih ⊢
    simp only [List.flatMap_cons, List.map_append, PlainMacro.tokChars_fst, ih]

theorem bodyTxt_of_chars (toks : List Tok) (p : Nat) (s : Str) (h : charsOf toks = posText p s) :
    bodyTxt toks = s := by
  rw [← charsOf_fst, h, posText_fst]

structure TailRun (T : PTables) (st : PState) (n : Nat) (l : List (Nat × Str)) (steps : List ScanStep) :
    Prop where
  ok : ∀ x ∈ steps, x.diag = none ∧ x.extra = []
  toks : ∀ x ∈ steps, BodyTok T st n x.tok
  link : TailLink (steps.map (·.tok)) l
  len : steps.length ≤ (tailStr l).length
  ne : l ≠ [] → steps ≠ []

/-- the scanner loop on the part of a body that starts with a reference, in front of `}` -/
theorem scanSteps_tail (T : PTables) (st : PState) (src : Str) (n : Nat) (R : Str) :
    ∀ (l : List (Nat × Str)) (pos fuel : Nat), (tailStr l).length ≤ fuel → TailOk T st n l →
      ∃ steps, TailRun T st n l steps ∧
        scanSteps T.toTables src fuel pos (tailStr l ++ '}' :: R)
          = (steps ++ (scanSteps T.toTables src (fuel - steps.length) (pos + (tailStr l).length) ('}' :: R)).1,
             (scanSteps T.toTables src (fuel - steps.length) (pos + (tailStr l).length) ('}' :: R)).2)
  | [], pos, fuel, _, _ => ⟨[], ⟨by simp, by simp, .nil, by simp, by simp⟩, by simp [tailStr]⟩
  | ks :: r, pos, fuel, hf, hok => by
    obtain ⟨k, s⟩ := ks
    obtain ⟨k1, k2, k3, k4⟩ := hok (k, s) (List.mem_cons_self ..)
    simp only [tailStr, List.length_cons, List.length_append] at hf
    obtain ⟨f, rfl⟩ : ∃ f, fuel = f + 1 := ⟨fuel - 1, by omega⟩
    obtain ⟨x, R', hxR, hx⟩ := tail_head r R
    have hstr : tailStr ((k, s) :: r) ++ '}' :: R = '#' :: digitChar k :: (s ++ x :: R') := by
      simp [tailStr, hxR]
    obtain ⟨ssteps, B, hrun⟩ := scanSteps_run T st src x R' hx s.length s (pos + 2) f (Nat.le_refl _)
      (by omega) k4
    have hBl := B.len
    obtain ⟨rsteps, C, hrest⟩ := scanSteps_tail T st src n R r (pos + 2 + s.length) (f - ssteps.length)
      (by omega) (fun y hy => hok y (List.mem_cons_of_mem _ hy))
    refine ⟨{ tok := argTok pos k (digitChar k), len := 2 } :: (ssteps ++ rsteps), ⟨?_, ?_, ?_, ?_, by simp⟩, ?_⟩
    · intro y hy
      simp only [List.mem_cons, List.mem_append] at hy
      rcases hy with rfl | hy | hy
      · exact ⟨rfl, rfl⟩
      · exact ⟨(B.ok y hy).1, (B.ok y hy).2.1⟩
      · exact C.ok y hy
    · intro y hy
      simp only [List.mem_cons, List.mem_append] at hy
      rcases hy with rfl | hy | hy
      · exact Or.inr ⟨k, rfl, k1, k2, by constructor <;> simp [txtIsNV, argTok]⟩
      · exact Or.inl ⟨(B.ok y hy).2.2.1, (B.ok y hy).2.2.2.1⟩
      · exact C.toks y hy
    · simp only [List.map_cons, List.map_append]
      refine .cons _ k _ s _ r rfl ?_ (bodyTxt_of_chars _ _ _ B.chars) C.link
      intro u hu
      obtain ⟨y, hy, rfl⟩ := List.mem_map.mp hu
      exact ⟨(B.ok y hy).2.2.1, (B.ok y hy).2.2.2.2⟩
    · have := C.len
      simp only [List.length_cons, List.length_append, tailStr]
      omega
    · rw [hstr, scanSteps_step T.toTables src f pos '#' _ _
        (nextToken_arg T.toTables src pos (digitChar k) k _ k3) (by simp)]
      simp only [List.drop_succ_cons, List.drop_zero]
      rw [hrun, ← hxR, hrest]
      simp only [List.cons_append, List.append_assoc, List.length_cons, List.length_append, tailStr]
      have e1 : f + 1 - (ssteps.length + rsteps.length + 1) = f - ssteps.length - rsteps.length := by omega
      have e2 : pos + 2 + s.length + (tailStr r).length = pos + (s.length + (tailStr r).length + 1 + 1) := by
        omega
      rw [e1, e2]

structure BodyRun (T : PTables) (st : PState) (n : Nat) (nb : NB) (steps : List ScanStep) : Prop where
  ok : ∀ x ∈ steps, x.diag = none ∧ x.extra = []
  toks : ∀ x ∈ steps, BodyTok T st n x.tok
  link : BodyLink (steps.map (·.tok)) nb
  len : steps.length ≤ (nb.1 ++ tailStr nb.2).length
  ne : nb.1 ++ tailStr nb.2 ≠ [] → steps ≠ []

/-- the scanner loop on a body in front of `}` -/
theorem scanSteps_body (T : PTables) (st : PState) (src : Str) (n : Nat) (R : Str) (nb : NB)
    (pos fuel : Nat) (hf : (nb.1 ++ tailStr nb.2).length ≤ fuel)
    (h1 : ∀ c ∈ nb.1, inertChar T st c = true) (h2 : TailOk T st n nb.2) :
    ∃ steps, BodyRun T st n nb steps ∧
      scanSteps T.toTables src fuel pos ((nb.1 ++ tailStr nb.2) ++ '}' :: R)
        = (steps ++ (scanSteps T.toTables src (fuel - steps.length)
                      (pos + (nb.1 ++ tailStr nb.2).length) ('}' :: R)).1,
           (scanSteps T.toTables src (fuel - steps.length)
                      (pos + (nb.1 ++ tailStr nb.2).length) ('}' :: R)).2) := by
  obtain ⟨s, l⟩ := nb
  simp only [List.length_append] at hf ⊢
  simp only at h1 h2
  obtain ⟨x, R', hxR, hx⟩ := tail_head l R
  obtain ⟨ssteps, B, hrun⟩ := scanSteps_run T st src x R' hx s.length s pos fuel (Nat.le_refl _)
    (by omega) h1
  have hBl := B.len
  obtain ⟨rsteps, C, hrest⟩ := scanSteps_tail T st src n R l (pos + s.length) (fuel - ssteps.length)
    (by omega) h2
  refine ⟨ssteps ++ rsteps, ⟨?_, ?_, ?_, ?_, ?_⟩, ?_⟩
  · intro y hy
    rcases List.mem_append.mp hy with hy | hy
    · exact ⟨(B.ok y hy).1, (B.ok y hy).2.1⟩
    · exact C.ok y hy
  · intro y hy
    rcases List.mem_append.mp hy with hy | hy
    · exact Or.inl ⟨(B.ok y hy).2.2.1, (B.ok y hy).2.2.2.1⟩
    · exact C.toks y hy
  · refine ⟨ssteps.map (·.tok), rsteps.map (·.tok), by simp, ?_, bodyTxt_of_chars _ _ _ B.chars, C.link⟩
    intro u hu
    obtain ⟨y, hy, rfl⟩ := List.mem_map.mp hu
    exact ⟨(B.ok y hy).2.2.1, (B.ok y hy).2.2.2.2⟩
  · have := C.len
    simp only [List.length_append]; omega
  · intro hne
    cases s with
    | nil =>
      have : l ≠ [] := by
        intro e; subst e; simp [tailStr] at hne
      have := C.ne this
      simp [this]
    | cons c cs =>
      have := B.ne (by simp)
      simp [this]
  · rw [List.append_assoc, hxR, hrun, ← hxR, hrest]
    simp only [List.append_assoc, List.length_append]
    have e1 : fuel - (ssteps.length + rsteps.length) = fuel - ssteps.length - rsteps.length := by omega
    have e2 : pos + s.length + (tailStr l).length = pos + (s.length + (tailStr l).length) := by omega
    rw [e1, e2]

/-! ### the arguments of a use -/

/-- the tokens `toks` spell the argument text `a` that starts at position `q` -/
structure ArgFacts (q : Nat) (a : Str) (toks : List Tok) : Prop where
  chars : charsOf toks = posText q a
  head : headPos toks = q
  last : lastPos toks = q + lastTokStart a
  shape : ∀ t ∈ toks, Shape t

/-- the groups of a use and the argument texts; `q` = position of the first `{` -/
def GroupsLink : Nat → List Group → List Str → Prop
  | _, [], [] => True
  | q, g :: gs, a :: as =>
    g.p = q ∧ g.q = q + a.length + 1 ∧ ArgFacts (q + 1) a g.toks ∧ GroupsLink (q + a.length + 2) gs as
  | _, _, _ => False

theorem argFacts_of_run {T : PTables} {st : PState} {q : Nat} {a : Str} {steps : List ScanStep}
    (B : RunFacts T st q a steps) (hne : a ≠ []) : ArgFacts q a (steps.map (·.tok)) := by
  have hs := B.ne hne
  refine ⟨B.chars, ?_, ?_, ?_⟩
  · cases steps with
    | nil => exact absurd rfl hs
    | cons x xs => exact B.head x xs rfl
  · cases hl : steps.getLast? with
    | none => exact absurd (List.getLast?_eq_none_iff.mp hl) hs
    | some x =>
      have : (steps.map (·.tok)).getLast? = some x.tok := by
        rw [List.getLast?_map, hl]; rfl
      simp only [lastPos, this]
      exact B.last x hl
  · intro t ht
    obtain ⟨y, hy, rfl⟩ := List.mem_map.mp ht
    exact (B.ok y hy).2.2.2.2

structure ArgsFacts (T : PTables) (st : PState) (a : Str) (as : List Str) (R : Str) : Prop where
  b1 : braceAt T '{' (a ++ '}' :: (argsStr as ++ R)) = true
  ne : a ≠ []
  inert : ∀ c ∈ a, inertChar T st c = true
  b2 : braceAt T '}' (argsStr as ++ R) = true
  rest : argsOk T st as R = true

theorem argsFacts {T : PTables} {st : PState} {a : Str} {as : List Str} {R : Str}
    (h : argsOk T st (a :: as) R = true) : ArgsFacts T st a as R := by
  simp only [argsOk, Bool.and_eq_true, Bool.not_eq_true', List.all_eq_true] at h
  obtain ⟨⟨⟨⟨h1, h2⟩, h3⟩, h4⟩, h5⟩ := h
  exact ⟨h1, by simpa using h2, h3, h4, h5⟩

theorem argsStr_length : ∀ args : List Str, (argsStr args).length = argsLen args
  | [] => rfl
  | a :: as => by simp [argsStr, argsLen, argsStr_length as]; omega

structure ArgsRun (T : PTables) (st : PState) (q : Nat) (args : List Str) (steps : List ScanStep) : Prop where
  ok : ∀ x ∈ steps, x.diag = none ∧ x.extra = []
  gs : ∃ gs, steps.map (·.tok) = groupsFlat gs ∧ (∀ g ∈ gs, GroupGood T st g) ∧ GroupsLink q gs args
  len : steps.length ≤ argsLen args

/-- the scanner loop on the brace groups of a use -/
theorem scanSteps_args (T : PTables) (st : PState) (src : Str) (R : Str) :
    ∀ (args : List Str) (q fuel : Nat), argsLen args ≤ fuel → argsOk T st args R = true →
      ∃ steps, ArgsRun T st q args steps ∧
        scanSteps T.toTables src fuel q (argsStr args ++ R)
          = (steps ++ (scanSteps T.toTables src (fuel - steps.length) (q + argsLen args) R).1,
             (scanSteps T.toTables src (fuel - steps.length) (q + argsLen args) R).2)
  | [], q, fuel, _, _ =>
    ⟨[], ⟨by simp, ⟨[], rfl, by simp, trivial⟩, by simp⟩, by simp [argsStr, argsLen]⟩
  | a :: as, q, fuel, hf, hok => by
    have A := argsFacts hok
    simp only [argsLen] at hf
    obtain ⟨f, rfl⟩ : ∃ f, fuel = f + 1 := ⟨fuel - 1, by omega⟩
    have hn1 := nextToken_brace T src q '{' _ (Or.inl rfl) A.b1
    obtain ⟨asteps, B, hrun⟩ := scanSteps_run T st src '}' (argsStr as ++ R) (by decide) a.length a
      (q + 1) f (Nat.le_refl _) (by omega) A.inert
    have hBl := B.len
    obtain ⟨g', hg'⟩ : ∃ g', f - asteps.length = g' + 1 := ⟨f - asteps.length - 1, by omega⟩
    have hn2 := nextToken_brace T src (q + 1 + a.length) '}' _ (Or.inr rfl) A.b2
    obtain ⟨rsteps, C, hrest⟩ := scanSteps_args T st src R as (q + 1 + a.length + 1) g' (by omega) A.rest
    obtain ⟨gs, hgs1, hgs2, hgs3⟩ := C.gs
    refine ⟨{ tok := { kind := .special, pos := q, txt := ['{'] }, len := 1 } :: (asteps ++
        { tok := { kind := .special, pos := q + 1 + a.length, txt := ['}'] }, len := 1 } :: rsteps),
      ⟨?_, ?_, ?_⟩, ?_⟩
    · intro y hy
      simp only [List.mem_cons, List.mem_append] at hy
      rcases hy with rfl | hy | rfl | hy
      · exact ⟨rfl, rfl⟩
      · exact ⟨(B.ok y hy).1, (B.ok y hy).2.1⟩
      · exact ⟨rfl, rfl⟩
      · exact C.ok y hy
    · refine ⟨{ p := q, toks := asteps.map (·.tok), q := q + 1 + a.length } :: gs, ?_, ?_, ?_⟩
      · simp [groupsFlat, Group.flat, hgs1, lbr, rbr]
      · intro g hg
        rcases List.mem_cons.mp hg with rfl | hg
        · refine ⟨by simpa using B.ne A.ne, ?_⟩
          intro t ht
          obtain ⟨y, hy, rfl⟩ := List.mem_map.mp ht
          exact ⟨(B.ok y hy).2.2.1, (B.ok y hy).2.2.2.1⟩
        · exact hgs2 g hg
      · refine ⟨rfl, by simp only []; omega, argFacts_of_run B A.ne, ?_⟩
        have e : q + a.length + 2 = q + 1 + a.length + 1 := by omega
        rw [e]; exact hgs3
    · have := C.len
      simp only [List.length_cons, List.length_append, argsLen]
      omega
    · rw [show argsStr (a :: as) ++ R = '{' :: (a ++ '}' :: (argsStr as ++ R)) by simp [argsStr],
        scanSteps_step T.toTables src f q '{' _ _ hn1 (by simp)]
      simp only [List.drop_succ_cons, List.drop_zero]
      rw [hrun, hg', scanSteps_step T.toTables src g' _ '}' _ _ hn2 (by simp)]
      simp only [List.drop_succ_cons, List.drop_zero]
      rw [hrest]
      simp only [List.cons_append, List.append_assoc, List.length_cons, List.length_append, argsLen]
      have e1 : f + 1 - (asteps.length + (rsteps.length + 1) + 1) = g' - rsteps.length := by omega
      have e2 : q + 1 + a.length + 1 + argsLen as = q + (a.length + 2 + argsLen as) := by omega
      rw [e1, e2]

/-! ### items and well-formed sources -/

/-- the source as a list of text characters, definitions and uses, with their positions -/
inductive Item where
  | chr (c : Char) (p : Nat)
  | defn (p : Nat) (name : Str) (n : Nat) (body : List BP)
  | use (p : Nat) (name : Str) (args : List Str)

def chrItems : Nat → Str → List Item
  | _, [] => []
  | p, c :: cs => .chr c p :: chrItems (p + 1) cs

def itemsOf : Nat → List Seg → List Item
  | _, [] => []
  | p, .txt s :: rest => chrItems p s ++ itemsOf (p + s.length) rest
  | p, .defn name n body :: rest =>
    .defn p name n body :: itemsOf (p + (name.length + (bodyStr body).length + 19)) rest
  | p, .use name args :: rest => .use p name args :: itemsOf (p + (name.length + 1 + argsLen args)) rest

/-- the same on the source text (which starts at position `p`) -/
inductive OkSrc (T : PTables) (st : PState) : Nat → Str → List Item → Prop
  | nil (p : Nat) : OkSrc T st p [] []
  | chr (p : Nat) (c : Char) (cs : Str) (items : List Item) :
      okAt T st c cs = true → OkSrc T st (p + 1) cs items →
      OkSrc T st p (c :: cs) (.chr c p :: items)
  | defn (p : Nat) (name : Str) (n : Nat) (body : List BP) (R : Str) (items : List Item) :
      defOk T st name n body R = true →
      OkSrc T st (p + (name.length + (bodyStr body).length + 19)) R items →
      OkSrc T st p ('\\' :: (ncName ++ '{' :: '\\' :: (name ++ '}' :: '[' :: digitChar n :: ']' :: '{' ::
          (bodyStr body ++ '}' :: R))))
        (.defn p name n body :: items)
  | use (p : Nat) (name : Str) (args : List Str) (R : Str) (items : List Item) :
      useOk T st name args R = true → OkSrc T st (p + (name.length + 1 + argsLen args)) R items →
      OkSrc T st p ('\\' :: (name ++ (argsStr args ++ R))) (.use p name args :: items)

theorem OkSrc_text (T : PTables) (st : PState) (R : Str) (items : List Item) :
    ∀ (s : Str) (p : Nat), OkSrc T st (p + s.length) R items → textOk T st s R = true →
      OkSrc T st p (s ++ R) (chrItems p s ++ items)
  | [], _, hR, _ => hR
  | c :: cs, p, hR, h => by
    simp only [textOk, Bool.and_eq_true] at h
    have hR' : OkSrc T st (p + 1 + cs.length) R items := by
      have e : p + 1 + cs.length = p + (c :: cs).length := by simp; omega
      rw [e]; exact hR
    exact OkSrc.chr p c (cs ++ R) _ h.1 (OkSrc_text T st R items cs (p + 1) hR' h.2)

theorem OkSrc_of_segsOk (T : PTables) (st : PState) :
    ∀ (segs : List Seg) (p : Nat), segsOk T st segs = true →
      OkSrc T st p (render segs) (itemsOf p segs)
  | [], p, _ => .nil p
  | .txt s :: rest, p, h => by
    simp only [segsOk, Bool.and_eq_true] at h
    exact OkSrc_text T st _ _ s p (OkSrc_of_segsOk T st rest _ h.2) h.1
  | .defn name n body :: rest, p, h => by
    simp only [segsOk, Bool.and_eq_true] at h
    have := OkSrc.defn p name n body (render rest) _ h.1 (OkSrc_of_segsOk T st rest _ h.2)
    simpa [render, Seg.render, itemsOf] using this
  | .use name args :: rest, p, h => by
    simp only [segsOk, Bool.and_eq_true] at h
    have := OkSrc.use p name args (render rest) _ h.1 (OkSrc_of_segsOk T st rest _ h.2)
    simpa [render, Seg.render, itemsOf] using this

/-- white space in front can be dropped -/
theorem OkSrc_drop_space (T : PTables) (st : PState) :
    ∀ (k : Nat) (p : Nat) (s : Str) (items : List Item), k ≤ s.length → OkSrc T st p s items →
      (∀ x ∈ s.take k, isSpace x = true) →
      ∃ items', items = chrItems p (s.take k) ++ items' ∧ OkSrc T st (p + k) (s.drop k) items'
  | 0, _, _, items, _, h, _ => ⟨items, rfl, h⟩
  | k + 1, _, [], _, hk, _, _ => by simp at hk
  | k + 1, p, c :: cs, _, hk, h, hsp => by
    have hc : isSpace c = true := hsp c (by simp)
    cases h with
    | chr _ _ _ items0 _ h2 =>
      obtain ⟨items', e, h3⟩ := OkSrc_drop_space T st k (p + 1) cs items0 (by simpa using hk) h2
        (fun x hx => hsp x (by simp [hx]))
      refine ⟨items', by simp [chrItems, e], ?_⟩
      have e : p + (k + 1) = p + 1 + k := by omega
      rw [e]; exact h3
    | defn _ name n body R _ _ _ => exact absurd hc (by decide)
    | use _ name args R _ _ _ => exact absurd hc (by decide)

theorem argsOk_congr (T : PTables) (st st' : PState) (h : inertChar T st' = inertChar T st) (R : Str) :
    ∀ args : List Str, argsOk T st' args R = argsOk T st args R
  | [] => rfl
  | a :: as => by simp only [argsOk, h, argsOk_congr T st st' h R as]

/-- the conditions depend on the state only through the language stack, the macro table and
    the list of protected names -/
theorem OkSrc.congr {T : PTables} {st st' : PState} (hl : st'.langStack = st.langStack)
    (hm : st'.macros = st.macros) (hi : st'.newcommandIgnore = st.newcommandIgnore)
    {p : Nat} {s : Str} {items : List Item} (h : OkSrc T st p s items) : OkSrc T st' p s items := by
  have hinert : inertChar T st' = inertChar T st := by
    funext c; simp only [inertChar, activeChars_congr T st st' hl]
  induction h with
  | nil p => exact .nil p
  | chr p c cs items hat _ ih =>
    refine .chr p c cs items ?_ ih
    rw [← hat]
    simp only [okAt, activeChars_congr T st st' hl, shortKeys_congr T st st' hl]
  | defn p name n body R items hd _ ih =>
    refine .defn p name n body R items ?_ ih
    rw [← hd]
    have hb : bpOk T st' n = bpOk T st n := by
      funext b; cases b <;> simp only [bpOk, hinert]
    simp only [defOk, cwOk, lookupMacro, hm, hi, hb, activeChars_congr T st st' hl]
  | use p name args R items hu _ ih =>
    refine .use p name args R items ?_ ih
    rw [← hu]
    simp only [useOk, cwOk, lookupMacro, hm, hi, argsOk_congr T st st' hinert]

/-! ### pieces and items -/

/-- the token buffer (pieces) of a source (items) -/
inductive Link : List Piece → List Item → Prop
  | nil : Link [] []
  | tok (t : Tok) (ps : List Piece) (items : List Item) :
      t.fix = false → Shape t → Link ps items → Link (.tok t :: ps) (chrItems t.pos t.txt ++ items)
  | defn (p q1 q2 q3 q4 q5 q6 q7 q8 : Nat) (name : Str) (n : Nat) (body : List BP) (btoks : List Tok)
      (ps : List Piece) (items : List Item) :
      BodyLink btoks (normBody body) → Link ps items →
      Link (.defn p q1 q2 q3 q4 q5 q6 q7 q8 name n btoks :: ps) (.defn p name n body :: items)
  | use (p : Nat) (name : Str) (args : List Str) (gs : List Group) (ps : List Piece) (items : List Item) :
      name ≠ [] → GroupsLink (p + name.length + 1) gs args → Link ps items →
      Link (.use p name gs :: ps) (.use p name args :: items)

/-- what the scanner loop yields on a well-formed source -/
structure ScanFacts (T : PTables) (st : PState) (rest : Str) (items : List Item)
    (steps : List ScanStep) : Prop where
  ok : ∀ s ∈ steps, s.diag = none ∧ s.extra = []
  pieces : ∃ ps, steps.map (·.tok) = flat ps ∧ PiecesOk T st ps ∧ Link ps items
  first : ∀ s ss, steps = s :: ss → s.tok.txt = firstTokTxtM rest
  len : steps.length ≤ rest.length

theorem ScanFacts_nil (T : PTables) (st : PState) : ScanFacts T st [] [] [] :=
  ⟨by simp, ⟨[], rfl, trivial, .nil⟩, by simp, by simp⟩

theorem nextToken_txt (T : PTables) (src : Str) (pos : Nat) (c : Char) (rest : Str)
    (h : txtAt T c rest = true) :
    nextToken T.toTables src pos (c :: rest) = { tok := txtTok pos c, len := 1 } := by
  simp only [txtAt, Bool.and_eq_true, Bool.not_eq_true', Option.isNone_iff_eq_none] at h
  obtain ⟨⟨h1, h2⟩, h3⟩ := h
  simp only [structuralChar, Bool.or_eq_false_iff, beq_eq_false_iff_ne] at h2
  obtain ⟨⟨⟨⟨⟨k1, k2⟩, k3⟩, _⟩, _⟩, _⟩ := h2
  simp [nextToken, h1, h3, k1, k2, k3, txtTok]

theorem txtAt_structural {T : PTables} {c : Char} {rest : Str} (h : txtAt T c rest = true) :
    structuralChar c = false := by
  simp only [txtAt, Bool.and_eq_true, Bool.not_eq_true'] at h
  exact h.1.2

theorem digit_ne_rbr : ∀ n, n ≤ 9 → digitChar n ≠ ']' := by decide

structure DefFacts (T : PTables) (st : PState) (name : Str) (n : Nat) (body : List BP) (R : Str) : Prop where
  ncSpecial : matchSpecial T.toTables
    ('\\' :: (ncName ++ '{' :: '\\' :: (name ++ '}' :: '[' :: digitChar n :: ']' :: '{' ::
      (bodyStr body ++ '}' :: R)))) = none
  ncAccent : T.toTables.isAccent ('\\' :: ncName) = false
  b1 : braceAt T '{' ('\\' :: (name ++ '}' :: '[' :: digitChar n :: ']' :: '{' :: (bodyStr body ++ '}' :: R))) = true
  cw : CwFacts T st name ('}' :: '[' :: digitChar n :: ']' :: '{' :: (bodyStr body ++ '}' :: R))
  ign : st.newcommandIgnore.contains ('\\' :: name) = false
  b2 : braceAt T '}' ('[' :: digitChar n :: ']' :: '{' :: (bodyStr body ++ '}' :: R)) = true
  t1 : txtAt T '[' (digitChar n :: ']' :: '{' :: (bodyStr body ++ '}' :: R)) = true
  t2 : txtAt T (digitChar n) (']' :: '{' :: (bodyStr body ++ '}' :: R)) = true
  t3 : txtAt T ']' ('{' :: (bodyStr body ++ '}' :: R)) = true
  n9 : n ≤ 9
  dv : decimalValue T.toTables.decimalZeros (digitChar n) = some n
  nAct : (activeChars T st).contains [digitChar n] = false
  b3 : braceAt T '{' (bodyStr body ++ '}' :: R) = true
  bne : bodyStr body ≠ []
  bok : body.all (bpOk T st n) = true
  b4 : braceAt T '}' R = true

theorem defFacts {T : PTables} {st : PState} {name : Str} {n : Nat} {body : List BP} {R : Str}
    (h : defOk T st name n body R = true) : DefFacts T st name n body R := by
  simp only [defOk, Bool.and_eq_true, Bool.not_eq_true', Option.isNone_iff_eq_none,
    decide_eq_true_eq, beq_iff_eq] at h
  obtain ⟨⟨⟨⟨⟨⟨⟨⟨⟨⟨⟨⟨⟨⟨⟨h1, h2⟩, h3⟩, h4⟩, h5⟩, h6⟩, h7⟩, h8⟩, h9⟩, h10⟩, h11⟩, h12⟩, h13⟩, h14⟩, h15⟩, h16⟩ := h
  exact ⟨h1, h2, h3, cwFacts h4, h5, h6, h7, h8, h9, h10, h11, h12, h13, by simpa using h14, h15, h16⟩

theorem DefFacts.digit {T : PTables} {st : PState} {name : Str} {n : Nat} {body : List BP} {R : Str}
    (D : DefFacts T st name n body R) : DigitOk T st n :=
  ⟨D.dv, digit_ne_rbr n D.n9,
   fun p => plainTok_of_head (txtTok p (digitChar n)) (digitChar n) [] rfl (Or.inl rfl) (txtAt_structural D.t2),
   D.nAct⟩

structure UseFacts (T : PTables) (st : PState) (name : Str) (args : List Str) (R : Str) : Prop where
  cw : CwFacts T st name (argsStr args ++ R)
  ign : st.newcommandIgnore.contains ('\\' :: name) = false
  ne : args ≠ []
  args : argsOk T st args R = true

theorem useFacts {T : PTables} {st : PState} {name : Str} {args : List Str} {R : Str}
    (h : useOk T st name args R = true) : UseFacts T st name args R := by
  simp only [useOk, Bool.and_eq_true, Bool.not_eq_true'] at h
  obtain ⟨⟨⟨h1, h2⟩, h3⟩, h4⟩ := h
  exact ⟨cwFacts h1, h2, by simpa using h3, h4⟩

theorem groupsLink_ne : ∀ {q : Nat} {gs : List Group} {args : List Str}, GroupsLink q gs args → args ≠ [] →
    gs ≠ []
  | _, [], [], _, h => absurd rfl h
  | _, [], _ :: _, h, _ => nomatch h
  | _, _ :: _, _, _, _ => by simp

/-- the scanner loop on a well-formed source -/
theorem scanSteps_macro (T : PTables) (st : PState) (src : Str) :
    ∀ (n fuel pos : Nat) (rest : Str) (items : List Item),
    rest.length ≤ n → rest.length ≤ fuel → OkSrc T st pos rest items →
    (scanSteps T.toTables src fuel pos rest).2 = true ∧
    ScanFacts T st rest items (scanSteps T.toTables src fuel pos rest).1 := by
  intro n
  induction n with
  | zero =>
    intro fuel pos rest items hn _ hok
    cases rest with
    | nil => cases hok; exact ⟨by simp [scanSteps], by simpa [scanSteps] using ScanFacts_nil T st⟩
    | cons c cs => simp at hn
  | succ n ih =>
    intro fuel pos rest items hn hf hok
    cases rest with
    | nil => cases hok; exact ⟨by simp [scanSteps], by simpa [scanSteps] using ScanFacts_nil T st⟩
    | cons c cs =>
      obtain ⟨fuel, rfl⟩ : ∃ f, fuel = f + 1 := ⟨fuel - 1, by simp at hf; omega⟩
      have hok0 := hok
      cases hok with
      | chr _ _ _ items' hat hsub0 =>
        have hsnd := okAt_snd hat
        obtain ⟨hp, hone⟩ := nextToken_text T src pos c cs hsnd
        generalize hs : nextToken T.toTables src pos (c :: cs) = s at hp hone
        have h1 := hp.len_pos
        have h2 := hp.len_le
        have hsub : ∃ items1, Item.chr c pos :: items' = chrItems pos ((c :: cs).take s.len) ++ items1 ∧
            OkSrc T st (pos + s.len) ((c :: cs).drop s.len) items1 := by
          by_cases hsp : isSpace c = true
          · refine OkSrc_drop_space T st s.len pos (c :: cs) _ h2 hok0 ?_
            intro x hx
            rw [← hp.txt, hp.first] at hx
            simp only [firstTokTxt, hsp, if_true] at hx
            exact mem_takeWhile_imp _ _ _ hx
          · have := (hone (by simpa using hsp)).1
            rw [this]
            exact ⟨items', rfl, hsub0⟩
        obtain ⟨items1, hitems1, hsub⟩ := hsub
        rw [scanSteps_step T.toTables src fuel pos c cs s hs (by omega)]
        have hl : ((c :: cs).drop s.len).length ≤ fuel := by
          simp only [List.length_drop]; simp only [List.length_cons] at hf h2 ⊢; omega
        have hl' : ((c :: cs).drop s.len).length ≤ n := by
          simp only [List.length_drop]; simp only [List.length_cons] at hn h2 ⊢; omega
        obtain ⟨i1, I⟩ := ih fuel (pos + s.len) ((c :: cs).drop s.len) items1 hl' hl hsub
        obtain ⟨ps', hflat, hpok, hlink⟩ := I.pieces
        have hne : s.tok.txt ≠ [] := by
          rw [hp.txt]
          intro h0
          have := congrArg List.length h0
          simp only [List.length_take, List.length_nil] at this
          omega
        refine ⟨i1, ?_, ?_, ?_, ?_⟩
        · intro x hx
          rcases List.mem_cons.mp hx with rfl | hx
          · exact ⟨hp.diag, hp.extra⟩
          · exact I.ok x hx
        · refine ⟨.tok s.tok :: ps', by simp [flat, Piece.toks, hflat], ⟨hp.tok, ?_, hpok⟩, ?_⟩
          · -- the short-macro branch
            rw [← hflat]
            have hact := hat
            simp only [okAt, Bool.and_eq_true, Bool.or_eq_true, Bool.not_eq_true'] at hact
            rcases hact.1 with hna | ⟨hns, hk⟩
            · left
              have : s.tok.txt = c :: (cs.take (s.len - 1)) := by
                rw [hp.txt]
                obtain ⟨k, hk⟩ : ∃ k, s.len = k + 1 := ⟨s.len - 1, by omega⟩
                rw [hk]; simp
              rw [this]
              exact not_active_cons T st c _ hna
            · right
              have hlen := (hone hns).1
              have htxt : s.tok.txt = [c] := by rw [hp.txt, hlen]; rfl
              have i4 := I.first
              rw [hlen] at i4 ⊢
              simp only [List.drop_succ_cons, List.drop_zero] at i4 ⊢
              cases hr : (scanSteps T.toTables src fuel (pos + 1) cs).1 with
              | nil => rfl
              | cons s2 ss =>
                simp only [List.map_cons]
                apply expandShortMacro_none
                rw [htxt, i4 s2 ss hr]
                rcases hk with hk | hk
                · cases cs with
                  | nil => cases fuel <;> simp [scanSteps] at hr
                  | cons => simp at hk
                · simpa using hk
          · rw [hitems1, ← hp.txt, ← hp.pos]
            refine .tok s.tok ps' items1 hp.fix ⟨hne, ?_⟩ hlink
            intro hnl
            by_cases hsp : isSpace c = true
            · rw [hp.first]
              simp only [firstTokTxt, hsp, if_true, isBlank, List.all_eq_true]
              exact fun x hx => mem_takeWhile_imp _ _ _ hx
            · have hsp' : isSpace c = false := by simpa using hsp
              have := (hone hsp').1
              rw [hp.txt, this] at hnl
              simp only [List.take_succ_cons, List.take_zero] at hnl
              rw [hasNl_single c hsp'] at hnl; cases hnl
        · intro s' ss' he
          simp only [List.cons.injEq] at he
          rw [← he.1, hp.first]
          refine (firstTokTxtM_of_text c cs ?_).symm
          rcases hsnd with h | h
          · exact Or.inl h
          · exact Or.inr h.1
        · have := I.len
          simp only [List.length_cons, List.length_drop] at this h2 ⊢
          omega
      | defn _ name nn body R items' hd hsub =>
        have D := defFacts hd
        have hbl : (bodyStr body).length = ((normBody body).1 ++ tailStr (normBody body).2).length := by
          rw [← bodyStr_norm]
        simp only [List.length_cons, List.length_append, ncName_eq] at hf hn
        obtain ⟨g, hg⟩ : ∃ g, fuel = g + 7 := ⟨fuel - 7, by omega⟩
        -- the eight tokens in front of the body
        have hn1 := nextToken_nc T src pos _ D.ncSpecial D.ncAccent
        have hn2 := nextToken_brace T src (pos + 11) '{' _ (Or.inl rfl) D.b1
        have hn3 := nextToken_cw T st src (pos + 11 + 1) name _ D.cw
        have hn4 := nextToken_brace T src (pos + 11 + 1 + (name.length + 1)) '}' _ (Or.inr rfl) D.b2
        have hn5 := nextToken_txt T src (pos + 11 + 1 + (name.length + 1) + 1) '[' _ D.t1
        have hn6 := nextToken_txt T src (pos + 11 + 1 + (name.length + 1) + 1 + 1) (digitChar nn) _ D.t2
        have hn7 := nextToken_txt T src (pos + 11 + 1 + (name.length + 1) + 1 + 1 + 1) ']' _ D.t3
        have hn8 := nextToken_brace T src (pos + 11 + 1 + (name.length + 1) + 1 + 1 + 1 + 1) '{' _
          (Or.inl rfl) D.b3
        have hn9 := nextToken_brace T src
          (pos + 11 + 1 + (name.length + 1) + 1 + 1 + 1 + 1 + 1 + (bodyStr body).length) '}' R
          (Or.inr rfl) D.b4
        obtain ⟨hb1, hb2⟩ := normBody_ok T st nn body D.bok
        obtain ⟨bsteps, B, hrun⟩ := scanSteps_body T st src nn R (normBody body)
          (pos + 11 + 1 + (name.length + 1) + 1 + 1 + 1 + 1 + 1) g (by omega) hb1 hb2
        rw [← bodyStr_norm] at hrun
        have hBl := B.len
        obtain ⟨g', hg'⟩ : ∃ g', g - bsteps.length = g' + 1 := ⟨g - bsteps.length - 1, by omega⟩
        have hpos : pos + 11 + 1 + (name.length + 1) + 1 + 1 + 1 + 1 + 1 + (bodyStr body).length + 1
            = pos + (name.length + (bodyStr body).length + 19) := by omega
        obtain ⟨i1, I⟩ := ih g' (pos + (name.length + (bodyStr body).length + 19)) R items'
          (by omega) (by omega) hsub
        obtain ⟨ps', hflat, hpok, hlink⟩ := I.pieces
        have hd1 : ('\\' :: (ncName ++ '{' :: '\\' :: (name ++ '}' :: '[' :: digitChar nn :: ']' :: '{' ::
              (bodyStr body ++ '}' :: R)))).drop 11
            = '{' :: '\\' :: (name ++ '}' :: '[' :: digitChar nn :: ']' :: '{' :: (bodyStr body ++ '}' :: R)) := by
          rw [ncName_eq]; rfl
        have hd3 : ('\\' :: (name ++ '}' :: '[' :: digitChar nn :: ']' :: '{' :: (bodyStr body ++ '}' :: R))).drop
              (name.length + 1)
            = '}' :: '[' :: digitChar nn :: ']' :: '{' :: (bodyStr body ++ '}' :: R) := by simp
        have hsteps : scanSteps T.toTables src (fuel + 1) pos
              ('\\' :: (ncName ++ '{' :: '\\' :: (name ++ '}' :: '[' :: digitChar nn :: ']' :: '{' ::
                (bodyStr body ++ '}' :: R))))
            = ({ tok := cwTok pos ncName, len := 11 } ::
               { tok := { kind := .special, pos := pos + 11, txt := ['{'] }, len := 1 } ::
               { tok := cwTok (pos + 11 + 1) name, len := name.length + 1 } ::
               { tok := { kind := .special, pos := pos + 11 + 1 + (name.length + 1), txt := ['}'] }, len := 1 } ::
               { tok := txtTok (pos + 11 + 1 + (name.length + 1) + 1) '[', len := 1 } ::
               { tok := txtTok (pos + 11 + 1 + (name.length + 1) + 1 + 1) (digitChar nn), len := 1 } ::
               { tok := txtTok (pos + 11 + 1 + (name.length + 1) + 1 + 1 + 1) ']', len := 1 } ::
               { tok := { kind := .special, pos := pos + 11 + 1 + (name.length + 1) + 1 + 1 + 1 + 1,
                          txt := ['{'] }, len := 1 } ::
               (bsteps ++
                 { tok := { kind := .special,
                            pos := pos + 11 + 1 + (name.length + 1) + 1 + 1 + 1 + 1 + 1 + (bodyStr body).length,
                            txt := ['}'] }, len := 1 } ::
                 (scanSteps T.toTables src g' (pos + (name.length + (bodyStr body).length + 19)) R).1),
               (scanSteps T.toTables src g' (pos + (name.length + (bodyStr body).length + 19)) R).2) := by
          rw [hg, scanSteps_step T.toTables src (g + 7) pos _ _ _ hn1 (by simp), hd1]
          simp only []
          rw [scanSteps_step T.toTables src (g + 6) (pos + 11) _ _ _ hn2 (by simp)]
          simp only [List.drop_succ_cons, List.drop_zero]
          rw [scanSteps_step T.toTables src (g + 5) (pos + 11 + 1) _ _ _ hn3 (by simp), hd3]
          simp only []
          rw [scanSteps_step T.toTables src (g + 4) _ _ _ _ hn4 (by simp)]
          simp only [List.drop_succ_cons, List.drop_zero]
          rw [scanSteps_step T.toTables src (g + 3) _ _ _ _ hn5 (by simp)]
          simp only [List.drop_succ_cons, List.drop_zero]
          rw [scanSteps_step T.toTables src (g + 2) _ _ _ _ hn6 (by simp)]
          simp only [List.drop_succ_cons, List.drop_zero]
          rw [scanSteps_step T.toTables src (g + 1) _ _ _ _ hn7 (by simp)]
          simp only [List.drop_succ_cons, List.drop_zero]
          rw [scanSteps_step T.toTables src g _ _ _ _ hn8 (by simp)]
          simp only [List.drop_succ_cons, List.drop_zero]
          rw [hrun, hg', scanSteps_step T.toTables src g' _ _ _ _ hn9 (by simp)]
          simp only [List.drop_succ_cons, List.drop_zero, hpos]
        rw [hsteps]
        refine ⟨i1, ?_, ?_, ?_, ?_⟩
        · intro x hx
          simp only [List.mem_cons, List.mem_append] at hx
          rcases hx with rfl | rfl | rfl | rfl | rfl | rfl | rfl | rfl | hx | rfl | hx
          · exact ⟨rfl, rfl⟩
          · exact ⟨rfl, rfl⟩
          · exact ⟨rfl, rfl⟩
          · exact ⟨rfl, rfl⟩
          · exact ⟨rfl, rfl⟩
          · exact ⟨rfl, rfl⟩
          · exact ⟨rfl, rfl⟩
          · exact ⟨rfl, rfl⟩
          · exact B.ok x hx
          · exact ⟨rfl, rfl⟩
          · exact I.ok x hx
        · refine ⟨.defn pos (pos + 11) (pos + 11 + 1) (pos + 11 + 1 + (name.length + 1))
              (pos + 11 + 1 + (name.length + 1) + 1) (pos + 11 + 1 + (name.length + 1) + 1 + 1)
              (pos + 11 + 1 + (name.length + 1) + 1 + 1 + 1) (pos + 11 + 1 + (name.length + 1) + 1 + 1 + 1 + 1)
              (pos + 11 + 1 + (name.length + 1) + 1 + 1 + 1 + 1 + 1 + (bodyStr body).length) name nn
              (bsteps.map (·.tok)) :: ps',
            ?_, ⟨nameOk_of_cwFacts D.cw D.ign, D.digit, ⟨?_, ?_⟩, hpok⟩, ?_⟩
          · simp [flat, Piece.toks, hflat, lbr, rbr]
          · have := B.ne (by rw [← bodyStr_norm]; exact D.bne)
            simpa using this
          · intro t ht
            obtain ⟨x, hx, rfl⟩ := List.mem_map.mp ht
            exact B.toks x hx
          · exact .defn _ _ _ _ _ _ _ _ _ name nn body _ ps' items' B.link hlink
        · intro s' ss' he
          simp only [List.cons.injEq] at he
          rw [← he.1]
          have htw : (ncName ++ '{' :: '\\' :: (name ++ '}' :: '[' :: digitChar nn :: ']' :: '{' ::
                (bodyStr body ++ '}' :: R))).takeWhile macroChar
              = ncName := takeWhile_append_stop _ _ _ (by decide) rfl
          simp [firstTokTxtM, cwTok, show isSpace '\\' = false by decide, htw]
        · have := I.len
          simp only [List.length_cons, List.length_append, ncName_eq] at this ⊢
          omega
      | use _ name args R items' hu hsub =>
        have U := useFacts hu
        have hn1 := nextToken_cw T st src pos name _ U.cw
        have hd1 : ('\\' :: (name ++ (argsStr args ++ R))).drop (name.length + 1) = argsStr args ++ R := by simp
        have hne := List.length_pos_iff.mpr U.cw.ne
        have hfirst : (cwTok pos name).txt = firstTokTxtM ('\\' :: (name ++ (argsStr args ++ R))) := by
          simp [firstTokTxtM, cwTok, U.cw.tw, show isSpace '\\' = false by decide]
        simp only [List.length_cons, List.length_append, argsStr_length] at hf hn
        obtain ⟨asteps, A, hrun⟩ := scanSteps_args T st src R args (pos + (name.length + 1)) fuel (by omega) U.args
        have hAl := A.len
        have hpos : pos + (name.length + 1) + argsLen args = pos + (name.length + 1 + argsLen args) := by omega
        obtain ⟨i1, I⟩ := ih (fuel - asteps.length) (pos + (name.length + 1 + argsLen args)) R items'
          (by omega) (by omega) hsub
        obtain ⟨ps', hflat, hpok, hlink⟩ := I.pieces
        obtain ⟨gs, hgs1, hgs2, hgs3⟩ := A.gs
        rw [scanSteps_step T.toTables src fuel pos _ _ _ hn1 (by simp), hd1]
        simp only []
        rw [hrun, hpos]
        refine ⟨i1, ?_, ?_, ?_, ?_⟩
        · intro x hx
          simp only [List.mem_cons, List.mem_append] at hx
          rcases hx with rfl | hx | hx
          · exact ⟨rfl, rfl⟩
          · exact A.ok x hx
          · exact I.ok x hx
        · have e : pos + (name.length + 1) = pos + name.length + 1 := by omega
          refine ⟨.use pos name gs :: ps', by simp [flat, Piece.toks, hflat, hgs1],
            ⟨nameOk_of_cwFacts U.cw U.ign, groupsLink_ne hgs3 U.ne, hgs2, hpok⟩, ?_⟩
          exact .use pos name args gs ps' items' U.cw.ne (by rw [← e]; exact hgs3) hlink
        · intro s' ss' he
          simp only [List.cons.injEq] at he
          rw [← he.1]; exact hfirst
        · have := I.len
          simp only [List.length_cons, List.length_append, argsStr_length] at this ⊢
          omega

/-! ### the reference on items -/

def refMarks : Env → List Item → List Mark
  | _, [] => []
  | env, .chr c p :: rest => some (c, p) :: refMarks env rest
  | env, .defn _ name n body :: rest => none :: refMarks ((name, n, body) :: env) rest
  | env, .use p name args :: rest =>
    none :: (bodyMarks (argSpans (p + name.length + 1) args)
              (startCur (argSpans (p + name.length + 1) args) p (defOf env name).2) (defOf env name).2
      ++ (groupMarks ((argSpans (p + name.length + 1) args).drop (defOf env name).1) ++ refMarks env rest))

def refUnknowns : Env → List Item → List Str
  | _, [] => []
  | env, .chr _ _ :: rest => refUnknowns env rest
  | env, .defn _ name n body :: rest => refUnknowns ((name, n, body) :: env) rest
  | env, .use _ name _ :: rest =>
    (if (lookupDef env name).isNone then [('\\' :: name)] else []) ++ refUnknowns env rest

def refInserted : Env → List Item → Nat
  | _, [] => 0
  | env, .chr _ _ :: rest => refInserted env rest
  | env, .defn _ name n body :: rest => refInserted ((name, n, body) :: env) rest
  | env, .use p name args :: rest =>
    bodyInserted (argSpans (p + name.length + 1) args) (defOf env name).2 + refInserted env rest

def refArity : Env → List Item → Bool
  | _, [] => true
  | env, .chr _ _ :: rest => refArity env rest
  | env, .defn _ name n body :: rest => refArity ((name, n, body) :: env) rest
  | env, .use _ name args :: rest => decide ((defOf env name).1 ≤ args.length) && refArity env rest

def itemsLen : List Item → Nat
  | [] => 0
  | .chr _ _ :: rest => 1 + itemsLen rest
  | .defn _ name _ body :: rest => name.length + (bodyStr body).length + 19 + itemsLen rest
  | .use _ name args :: rest => name.length + 1 + argsLen args + itemsLen rest

/-- the state and the environment agree on the names that are not declared in `st1` -/
def Rel (st1 st : PState) (env : Env) : Prop :=
  ∀ name, lookupMacro st1 ('\\' :: name) = none →
    match lookupDef env name with
    | some nb => ∃ b, lookupMacro st ('\\' :: name) = some (userMacro ('\\' :: name) nb.1 b) ∧
        BodyLink b (normBody nb.2)
    | none => lookupMacro st ('\\' :: name) = none

theorem Rel_init (st1 st : PState) (h : st.macros = st1.macros) : Rel st1 st [] := by
  intro name hn
  simp only [lookupDef, List.find?_nil, Option.map_none]
  simpa [lookupMacro, h] using hn

theorem lookupDef_cons (env : Env) (n' : Str) (k : Nat) (b : List BP) (name : Str) :
    lookupDef ((n', k, b) :: env) name = if n' == name then some (k, b) else lookupDef env name := by
  unfold lookupDef
  rw [List.find?_cons]
  by_cases h : (n' == name) = true
  · simp [h]
  · simp [h]

theorem Rel.defSt {st1 st : PState} {env : Env} (h : Rel st1 st env) (name : Str) (n : Nat)
    (body : List BP) (btoks : List Tok) (hb : BodyLink btoks (normBody body)) :
    Rel st1 (defSt st name n btoks) ((name, n, body) :: env) := by
  intro name' hn
  rw [lookupDef_cons, PlainMacroArgs.defSt, PlainMacro.lookup_setMacro]
  by_cases e : name = name'
  · subst e
    simp only [beq_self_eq_true, if_true, userMacro]
    exact ⟨btoks, rfl, hb⟩
  · have e1 : (name == name') = false := by simpa using e
    have e2 : ((userMacro ('\\' :: name) n btoks).name == '\\' :: name') = false := by
      simpa [userMacro] using e
    rw [e1, e2]
    exact h name' hn

theorem Rel.useSt {st1 st : PState} {env : Env} (h : Rel st1 st env) (name : Str) :
    Rel st1 (useSt st name) env := by
  unfold PlainMacroArgs.useSt
  split
  · exact h
  · exact h

/-! ### what an expansion means -/

/-- marks of the part of a body that starts with a reference -/
def tailMarks (spans : List (Nat × Str)) : List (Nat × Str) → List Mark
  | [] => []
  | ks :: r =>
    argMarks (spanAt spans ks.1) ++
      (ks.2.map (fun c => some (c, spanEnd (spanAt spans ks.1))) ++ tailMarks spans r)

def tailCur (spans : List (Nat × Str)) : Nat → List (Nat × Str) → Nat
  | cur, [] => cur
  | _, ks :: r => tailCur spans (spanAt spans ks.1).1 r

def tailInserted (spans : List (Nat × Str)) : List (Nat × Str) → Nat
  | [] => 0
  | ks :: r => (spanAt spans ks.1).2.length + 2 + ks.2.length + tailInserted spans r

theorem bodyMarks_norm (spans : List (Nat × Str)) : ∀ (body : List BP) (cur : Nat),
    bodyMarks spans cur body
      = (normBody body).1.map (fun c => some (c, cur)) ++ tailMarks spans (normBody body).2
  | [], _ => rfl
  | .lit s :: rest, cur => by
    simp only [bodyMarks, normBody, bodyMarks_norm spans rest cur, List.map_append, List.append_assoc]
  | .par k :: rest, cur => by
    simp only [bodyMarks, normBody, bodyMarks_norm spans rest _, tailMarks, List.map_nil, List.nil_append]

theorem startCur_norm (spans : List (Nat × Str)) : ∀ (body : List BP) (cur : Nat),
    startCur spans cur body = tailCur spans cur (normBody body).2
  | [], _ => rfl
  | .lit s :: rest, cur => by simp only [startCur, normBody, startCur_norm spans rest cur]
  | .par k :: rest, cur => by simp only [startCur, normBody, tailCur, startCur_norm spans rest _]

theorem bodyInserted_norm (spans : List (Nat × Str)) : ∀ (body : List BP),
    bodyInserted spans body = (normBody body).1.length + tailInserted spans (normBody body).2
  | [] => rfl
  | .lit s :: rest => by
    simp only [bodyInserted, normBody, bodyInserted_norm spans rest, List.length_append]; omega
  | .par k :: rest => by
    simp only [bodyInserted, normBody, bodyInserted_norm spans rest, tailInserted, List.length_nil]; omega

/-- what is needed of the actual arguments: the k-th one spells the k-th span -/
def ArgsSem (A : List (List Tok)) (spans : List (Nat × Str)) (n : Nat) : Prop :=
  ∀ k, 1 ≤ k → k ≤ n →
    ArgFacts (spanAt spans k).1 (spanAt spans k).2 (argAt A k) ∧ ∀ t ∈ argAt A k, PlainTok t

theorem marksOf_plain : ∀ ts : List Tok, (∀ t ∈ ts, PlainTok t) → marksOf ts = (charsOf ts).map some
  | [], _ => rfl
  | t :: ts, h => by
    rw [PlainMacro.marksOf_cons, charsOf_cons', PlainMacro.tokMarks_nonaction _ (h t (List.mem_cons_self ..)).notAction,
      marksOf_plain ts (fun x hx => h x (List.mem_cons_of_mem _ hx)), List.map_append]

theorem genOut_plain_run (A : List (List Tok)) (b : List Tok) (cur : Nat) :
    ∀ ts : List Tok, (∀ u ∈ ts, PlainTok u) →
      genOut A (ts ++ b) cur = ts.map (restamp cur) ++ genOut A b cur
  | [], _ => rfl
  | t :: ts, h => by
    have ht := PlainMacro.plainTok_argRef (h t (List.mem_cons_self ..))
    simp only [List.cons_append, genOut, ht, List.map_cons,
      genOut_plain_run A b cur ts (fun x hx => h x (List.mem_cons_of_mem _ hx))]

theorem genCur_plain_run (A : List (List Tok)) (b : List Tok) (cur : Nat) :
    ∀ ts : List Tok, (∀ u ∈ ts, PlainTok u) → genCur A (ts ++ b) cur = genCur A b cur
  | [], _ => rfl
  | t :: ts, h => by
    have ht := PlainMacro.plainTok_argRef (h t (List.mem_cons_self ..))
    simp only [List.cons_append, genCur, ht,
      genCur_plain_run A b cur ts (fun x hx => h x (List.mem_cons_of_mem _ hx))]

theorem RefsOk.append_right {n : Nat} {a b : List Tok} (h : RefsOk n (a ++ b)) : RefsOk n b :=
  fun t ht => h t (List.mem_append_right _ ht)

theorem tail_sem (A : List (List Tok)) (spans : List (Nat × Str)) (n : Nat) (hA : ArgsSem A spans n) :
    ∀ {b : List Tok} {l : List (Nat × Str)}, TailLink b l → RefsOk n b → ∀ cur : Nat,
      marksOf (genOut A b cur) = tailMarks spans l ∧ genCur A b cur = tailCur spans cur l ∧
      (genOut A b cur).length ≤ tailInserted spans l ∧
      (∀ t ∈ genOut A b cur, PlainMacro.Simple t) := by
  intro b l hl
  induction hl with
  | nil => intro _ cur; exact ⟨rfl, rfl, Nat.le_refl _, by simp [genOut]⟩
  | cons t k ts s b rest hk hts hs _ ih =>
    intro hr cur
    obtain ⟨k1, k2⟩ := hr t (List.mem_cons_self ..) k hk
    obtain ⟨F, hpl⟩ := hA k k1 k2
    have hr' : RefsOk n b := (RefsOk.tail hr).append_right
    have htp : ∀ u ∈ ts, PlainTok u := fun u hu => (hts u hu).1
    obtain ⟨i1, i2, i3, i4⟩ := ih hr' (lastPos (argAt A k))
    have e1 : genOut A (t :: (ts ++ b)) cur
        = mkAction (headPos (argAt A k)) :: (argAt A k ++ mkAction (lastPos (argAt A k)) ::
            (ts.map (restamp (lastPos (argAt A k))) ++ genOut A b (lastPos (argAt A k)))) := by
      simp only [genOut, hk, genOut_plain_run A b _ ts htp]
    refine ⟨?_, ?_, ?_, ?_⟩
    · rw [e1, PlainMacro.marksOf_cons, PlainMacro.tokMarks_mkAction, PlainMacro.marksOf_append,
        PlainMacro.marksOf_cons, PlainMacro.tokMarks_mkAction, PlainMacro.marksOf_append,
        marksOf_plain _ hpl, F.chars, PlainMacro.marksOf_restamp _ ts htp, hs, i1, F.last]
      simp [tailMarks, argMarks, spanEnd]
    · simp only [genCur, hk, genCur_plain_run A b _ ts htp, tailCur]
      have := (ih hr' (headPos (argAt A k))).2.1
      rw [this, F.head]
    · rw [e1]
      have h1 : (argAt A k).length ≤ (spanAt spans k).2.length := by
        have := PlainMacro.length_le_bodyTxt (argAt A k) F.shape
        rw [bodyTxt_of_chars _ _ _ F.chars] at this
        exact this
      have h2 : ts.length ≤ s.length := by
        have := PlainMacro.length_le_bodyTxt ts (fun u hu => (hts u hu).2)
        rw [hs] at this; exact this
      simp only [List.length_cons, List.length_append, List.length_map, tailInserted]
      omega
    · rw [e1]
      intro u hu
      simp only [List.mem_cons, List.mem_append, List.mem_map] at hu
      rcases hu with rfl | hu | rfl | ⟨v, hv, rfl⟩ | hu
      · exact PlainMacro.simple_mkAction _
      · exact PlainMacro.simple_of_plain (hpl u hu) (F.shape u hu)
      · exact PlainMacro.simple_mkAction _
      · exact PlainMacro.simple_of_plain (PlainMacro.plainTok_restamp _ v (hts v hv).1) (hts v hv).2
      · exact i4 u hu

/-- **what an expansion means**: the marks of `genOut` are the reference `bodyMarks` -/
theorem body_sem (A : List (List Tok)) (spans : List (Nat × Str)) (n : Nat) (hA : ArgsSem A spans n)
    (b : List Tok) (body : List BP) (hl : BodyLink b (normBody body)) (hr : RefsOk n b) (p : Nat) :
    marksOf (genOut A b (genCur A b p)) = bodyMarks spans (startCur spans p body) body ∧
    (genOut A b (genCur A b p)).length ≤ bodyInserted spans body ∧
    (∀ t ∈ genOut A b (genCur A b p), PlainMacro.Simple t) := by
  obtain ⟨ts, b', rfl, hts, htxt, htl⟩ := hl
  have htp : ∀ u ∈ ts, PlainTok u := fun u hu => (hts u hu).1
  have hr' : RefsOk n b' := hr.append_right
  rw [genCur_plain_run A b' p ts htp, genOut_plain_run A b' _ ts htp, bodyMarks_norm, startCur_norm,
    bodyInserted_norm]
  obtain ⟨i1, _, i3, i4⟩ := tail_sem A spans n hA htl hr' (genCur A b' p)
  have hcur := (tail_sem A spans n hA htl hr' p).2.1
  refine ⟨?_, ?_, ?_⟩
  · rw [PlainMacro.marksOf_append, PlainMacro.marksOf_restamp _ ts htp, htxt, i1, hcur]
  · have h2 : ts.length ≤ (normBody body).1.length := by
      have := PlainMacro.length_le_bodyTxt ts (fun u hu => (hts u hu).2)
      rw [htxt] at this; exact this
    simp only [List.length_append, List.length_map]
    omega
  · intro u hu
    simp only [List.mem_append, List.mem_map] at hu
    rcases hu with ⟨v, hv, rfl⟩ | hu
    · exact PlainMacro.simple_of_plain (PlainMacro.plainTok_restamp _ v (hts v hv).1) (hts v hv).2
    · exact i4 u hu

/-! ### groups and spans -/

theorem groupsLink_get : ∀ {q : Nat} {gs : List Group} {args : List Str}, GroupsLink q gs args →
    ∀ (i : Nat) (g : Group), gs[i]? = some g →
      ∃ sp, (argSpans q args)[i]? = some sp ∧ ArgFacts sp.1 sp.2 g.toks
  | _, [], [], _, i, g, h => by simp at h
  | _, [], _ :: _, h, _, _, _ => nomatch h
  | _, _ :: _, [], h, _, _, _ => nomatch h
  | q, g0 :: gs, a :: as, h, i, g, hg => by
    obtain ⟨_, _, hF, hrest⟩ := h
    cases i with
    | zero =>
      simp only [List.getElem?_cons_zero, Option.some.injEq] at hg
      subst hg
      exact ⟨(q + 1, a), by simp [argSpans], hF⟩
    | succ i =>
      simp only [List.getElem?_cons_succ] at hg
      obtain ⟨sp, h1, h2⟩ := groupsLink_get hrest i g hg
      exact ⟨sp, by simpa [argSpans] using h1, h2⟩

theorem groupsLink_length : ∀ {q : Nat} {gs : List Group} {args : List Str}, GroupsLink q gs args →
    gs.length = args.length
  | _, [], [], _ => rfl
  | _, [], _ :: _, h => nomatch h
  | _, _ :: _, [], h => nomatch h
  | _, _ :: gs, _ :: as, h => by simp [groupsLink_length h.2.2.2]

theorem argsSem_of_link {T : PTables} {st : PState} {q : Nat} {gs : List Group} {args : List Str}
    (h : GroupsLink q gs args) (hg : ∀ g ∈ gs, GroupGood T st g) (n : Nat) (hn : n ≤ gs.length) :
    ArgsSem ((gs.take n).map (·.toks)) (argSpans q args) n := by
  intro k k1 k2
  have hlt : k - 1 < gs.length := by omega
  have hget : ((gs.take n).map (·.toks))[k - 1]? = some (gs[k - 1]).toks := by
    rw [List.getElem?_map, List.getElem?_take_of_lt (by omega), List.getElem?_eq_getElem hlt]
    rfl
  obtain ⟨sp, h1, h2⟩ := groupsLink_get h (k - 1) gs[k - 1] (List.getElem?_eq_getElem hlt)
  have e1 : argAt ((gs.take n).map (·.toks)) k = (gs[k - 1]).toks := by
    simp only [argAt, hget, Option.getD_some]
  have e2 : spanAt (argSpans q args) k = sp := by
    simp only [spanAt, h1, Option.getD_some]
  rw [e1, e2]
  exact ⟨h2, fun t ht => ((hg _ (List.getElem_mem hlt)).2 t ht).1⟩

theorem groups_sem {T : PTables} {st : PState} : ∀ (n : Nat) {q : Nat} {gs : List Group} {args : List Str},
    GroupsLink q gs args → (∀ g ∈ gs, GroupGood T st g) →
      marksOf (groupsOut (gs.drop n)) = groupMarks ((argSpans q args).drop n) ∧
      (groupsOut (gs.drop n)).length ≤ argsLen args ∧
      (∀ t ∈ groupsOut (gs.drop n), PlainMacro.Simple t)
  | _, _, [], [], _, _ => by simp [groupsOut, argSpans, groupMarks, marksOf]
  | _, _, [], _ :: _, h, _ => nomatch h
  | _, _, _ :: _, [], h, _ => nomatch h
  | 0, q, g :: gs, a :: as, h, hg => by
    obtain ⟨_, _, hF, hrest⟩ := h
    have hg0 := hg g (List.mem_cons_self ..)
    obtain ⟨i1, i2, i3⟩ := groups_sem 0 hrest (fun x hx => hg x (List.mem_cons_of_mem _ hx))
    simp only [List.drop_zero] at i1 i2 i3 ⊢
    have hpl : ∀ t ∈ g.toks, PlainTok t := fun t ht => (hg0.2 t ht).1
    refine ⟨?_, ?_, ?_⟩
    · simp only [groupsOut, argSpans, groupMarks]
      rw [PlainMacro.marksOf_cons, PlainMacro.tokMarks_mkAction, PlainMacro.marksOf_append,
        PlainMacro.marksOf_cons, PlainMacro.tokMarks_mkAction, marksOf_plain _ hpl, hF.chars, i1]
      simp [argMarks]
    · have h1 : g.toks.length ≤ a.length := by
        have := PlainMacro.length_le_bodyTxt g.toks hF.shape
        rw [bodyTxt_of_chars _ _ _ hF.chars] at this
        exact this
      simp only [groupsOut, List.length_cons, List.length_append, argsLen]
      omega
    · intro u hu
      simp only [groupsOut, List.mem_cons, List.mem_append] at hu
      rcases hu with rfl | hu | rfl | hu
      · exact PlainMacro.simple_mkAction _
      · exact PlainMacro.simple_of_plain (hpl u hu) (hF.shape u hu)
      · exact PlainMacro.simple_mkAction _
      · exact i3 u hu
  | n + 1, q, g :: gs, a :: as, h, hg => by
    obtain ⟨i1, i2, i3⟩ := groups_sem n h.2.2.2 (fun x hx => hg x (List.mem_cons_of_mem _ hx))
    refine ⟨by simpa [argSpans] using i1, ?_, by simpa using i3⟩
    simp only [List.drop_succ_cons, argsLen]
    omega

/-! ### what the pieces mean -/

theorem refMarks_chrItems (env : Env) (items : List Item) : ∀ (s : Str) (p : Nat),
    refMarks env (chrItems p s ++ items) = (posText p s).map some ++ refMarks env items
  | [], _ => rfl
  | c :: cs, p => by
    simp only [chrItems, List.cons_append, refMarks, posText, List.map_cons, refMarks_chrItems env items cs (p + 1)]

theorem refUnknowns_chrItems (env : Env) (items : List Item) : ∀ (s : Str) (p : Nat),
    refUnknowns env (chrItems p s ++ items) = refUnknowns env items
  | [], _ => rfl
  | c :: cs, p => by
    simp only [chrItems, List.cons_append, refUnknowns, refUnknowns_chrItems env items cs (p + 1)]

theorem refInserted_chrItems (env : Env) (items : List Item) : ∀ (s : Str) (p : Nat),
    refInserted env (chrItems p s ++ items) = refInserted env items
  | [], _ => rfl
  | c :: cs, p => by
    simp only [chrItems, List.cons_append, refInserted, refInserted_chrItems env items cs (p + 1)]

theorem refArity_chrItems (env : Env) (items : List Item) : ∀ (s : Str) (p : Nat),
    refArity env (chrItems p s ++ items) = refArity env items
  | [], _ => rfl
  | c :: cs, p => by
    simp only [chrItems, List.cons_append, refArity, refArity_chrItems env items cs (p + 1)]

theorem itemsLen_chrItems (items : List Item) : ∀ (s : Str) (p : Nat),
    itemsLen (chrItems p s ++ items) = s.length + itemsLen items
  | [], _ => by simp [chrItems]
  | c :: cs, p => by
    simp only [chrItems, List.cons_append, itemsLen, itemsLen_chrItems items cs (p + 1), List.length_cons]
    omega

theorem userMacro_inj {nm : Str} {n n' : Nat} {b b' : List Tok} (h : userMacro nm n b = userMacro nm n' b') :
    n = n' ∧ b = b' := by
  have h1 := congrArg MacroDef.repl h
  have h2 := congrArg (fun m => m.args.length) h
  simp only [userMacro, List.length_replicate] at h1 h2
  exact ⟨h2, h1⟩

/-- what the pieces of a source mean, for a state and an environment that agree -/
structure Sem (st : PState) (env : Env) (ps : List Piece) (items : List Item) : Prop where
  marks : marksOf (outP st ps) = refMarks env items
  simple : ∀ t ∈ outP st ps, PlainMacro.Simple t
  cost : cost st ps ≤ itemsLen items + refInserted env items
  unk : (finalSt st ps).unknowns = (refUnknowns env items).foldl addU st.unknowns
  arity : ArityOk st ps

theorem link_sem (T : PTables) (st1 : PState) {ps : List Piece} {items : List Item} (hl : Link ps items) :
    PiecesOk T st1 ps → ∀ (st : PState) (env : Env), StOk T st1 st → Rel st1 st env →
    refArity env items = true → Sem st env ps items := by
  induction hl with
  | nil => intro _ st env _ _ _; exact ⟨rfl, by simp [outP], by simp [cost], rfl, trivial⟩
  | tok t ps items hfix hshape _ ih =>
    intro hok st env hst hrel har
    obtain ⟨hp, _, hrest⟩ := hok
    rw [refArity_chrItems] at har
    have I := ih hrest st env hst hrel har
    refine ⟨?_, ?_, ?_, ?_, I.arity⟩
    · simp only [outP]
      rw [PlainMacro.marksOf_cons, PlainMacro.tokMarks_nonaction _ hp.notAction,
        PlainMacro.tokChars_nofix t hfix, refMarks_chrItems, I.marks]
    · intro x hx
      simp only [outP, List.mem_cons] at hx
      rcases hx with rfl | hx
      · exact PlainMacro.simple_of_plain hp hshape
      · exact I.simple x hx
    · have := I.cost
      have h1 := List.length_pos_iff.mpr hshape.1
      simp only [cost, itemsLen_chrItems, refInserted_chrItems]
      omega
    · simp only [finalSt, refUnknowns_chrItems]
      exact I.unk
  | defn p q1 q2 q3 q4 q5 q6 q7 q8 name n body btoks ps items hb _ ih =>
    intro hok st env hst hrel har
    obtain ⟨hn, _, hgb, hrest⟩ := hok
    simp only [refArity] at har
    have I := ih hrest (defSt st name n btoks) ((name, n, body) :: env) (hst.defSt name n btoks hn hgb)
      (hrel.defSt name n body btoks hb) har
    refine ⟨?_, ?_, ?_, ?_, I.arity⟩
    · simp only [outP, refMarks]
      rw [PlainMacro.marksOf_cons, PlainMacro.tokMarks_mkAction, I.marks]; rfl
    · intro x hx
      simp only [outP, List.mem_cons] at hx
      rcases hx with rfl | hx
      · exact PlainMacro.simple_mkAction p
      · exact I.simple x hx
    · have := I.cost
      simp only [cost, itemsLen, refInserted]
      omega
    · simp only [finalSt, refUnknowns]
      exact I.unk
  | use p name args gs ps items hne hgl _ ih =>
    intro hok st env hst hrel har
    obtain ⟨hn, _, hgg, hrest⟩ := hok
    simp only [refArity, Bool.and_eq_true, decide_eq_true_eq] at har
    obtain ⟨har1, har2⟩ := har
    have I := ih hrest (useSt st name) env (hst.useSt name) (hrel.useSt name) har2
    have hname := List.length_pos_iff.mpr hne
    have hR := hrel name hn.undecl
    have hlen := groupsLink_length hgl
    cases hbo : lookupDef env name with
    | none =>
      rw [hbo] at hR
      simp only [] at hR
      have e1 : useBody st p name gs = [] := by simp [useBody, hR]
      have e2 : useSt st name = { st with unknowns := addU st.unknowns ('\\' :: name) } := by
        simp [PlainMacroArgs.useSt, hR]
      have e3 : useN st name = 0 := by simp [useN, hR]
      have e4 : defOf env name = (0, []) := by simp [defOf, hbo]
      obtain ⟨g1, g2, g3⟩ := groups_sem 0 hgl hgg
      refine ⟨?_, ?_, ?_, ?_, ?_⟩
      · simp only [outP, refMarks, e1, e3, e4, List.nil_append, bodyMarks]
        rw [PlainMacro.marksOf_cons, PlainMacro.tokMarks_mkAction, PlainMacro.marksOf_append, g1, I.marks]; rfl
      · intro x hx
        simp only [outP, e1, e3, List.nil_append, List.mem_cons, List.mem_append] at hx
        rcases hx with rfl | hx | hx
        · exact PlainMacro.simple_mkAction p
        · exact g3 x hx
        · exact I.simple x hx
      · have := I.cost
        simp only [cost, itemsLen, refInserted, e1, e3, e4, List.length_nil, bodyInserted]
        omega
      · simp only [finalSt, refUnknowns, hbo, Option.isNone_none, if_true, List.singleton_append,
          List.foldl_cons]
        rw [I.unk, e2]
      · exact ⟨by rw [e3]; omega, I.arity⟩
    | some nb =>
      obtain ⟨n, body⟩ := nb
      rw [hbo] at hR
      obtain ⟨bt, hlk, hbl⟩ := hR
      obtain ⟨n', bt', hm, hgb⟩ := hst.user _ _ hn.undecl hlk
      obtain ⟨rfl, rfl⟩ := userMacro_inj hm
      have e1 : useBody st p name gs
          = genOut ((gs.take n).map (·.toks)) bt (genCur ((gs.take n).map (·.toks)) bt p) := by
        simp [useBody, hlk, userMacro]
      have e2 : useSt st name = st := by simp [PlainMacroArgs.useSt, hlk]
      have e3 : useN st name = n := by simp [useN, hlk, userMacro]
      have e4 : defOf env name = (n, body) := by simp [defOf, hbo]
      rw [e4] at har1
      simp only [] at har1
      obtain ⟨g1, g2, g3⟩ := groups_sem n hgl hgg
      obtain ⟨b1, b2, b3⟩ := body_sem _ _ n (argsSem_of_link hgl hgg n (by omega)) bt body hbl hgb.refs p
      rw [← e1] at b1 b2 b3
      refine ⟨?_, ?_, ?_, ?_, ?_⟩
      · simp only [outP, refMarks, e3, e4]
        rw [PlainMacro.marksOf_cons, PlainMacro.tokMarks_mkAction, PlainMacro.marksOf_append,
          PlainMacro.marksOf_append, b1, g1, I.marks]; rfl
      · intro x hx
        simp only [outP, e3, List.mem_cons, List.mem_append] at hx
        rcases hx with rfl | hx | hx | hx
        · exact PlainMacro.simple_mkAction p
        · exact b3 x hx
        · exact g3 x hx
        · exact I.simple x hx
      · have := I.cost
        simp only [cost, itemsLen, refInserted, e3, e4]
        omega
      · simp only [finalSt, refUnknowns, hbo, Option.isNone_some, Bool.false_eq_true, if_false,
          List.nil_append]
        rw [I.unk, e2]
      · exact ⟨by rw [e3]; omega, I.arity⟩

/-! ### `scan`, `parserWork`, `parse`, `tex2txt` -/

theorem OkSrc_len {T : PTables} {st : PState} {p : Nat} {s : Str} {items : List Item}
    (h : OkSrc T st p s items) : itemsLen items = s.length := by
  induction h with
  | nil p => rfl
  | chr p c cs items _ _ ih => simp only [itemsLen, ih, List.length_cons]; omega
  | defn p name n body R items _ _ ih =>
    simp only [itemsLen, ih, List.length_cons, List.length_append, ncName_eq]; simp; omega
  | use p name args R items _ _ ih =>
    simp only [itemsLen, ih, List.length_cons, List.length_append, argsStr_length]; omega

/-- `scan` on a well-formed source: no diagnostics; the token buffer consists of plain tokens,
    definitions and uses that correspond to the items -/
theorem scan_macro (T : PTables) (st : PState) (src : Str) (items : List Item)
    (h : OkSrc T st 0 src items) :
    (scan T.toTables src).diags = [] ∧
    ∃ ps, (scan T.toTables src).toks = flat ps ∧ PiecesOk T st ps ∧ Link ps items := by
  obtain ⟨_, F⟩ := scanSteps_macro T st src src.length src.length 0 src items (Nat.le_refl _)
    (Nat.le_refl _) h
  have he := flatten_tok_extra (scanSteps T.toTables src src.length 0 src).1 (fun s hs => (F.ok s hs).2)
  have hd := flatten_diag_nil (scanSteps T.toTables src src.length 0 src).1 (fun s hs => (F.ok s hs).1)
  obtain ⟨ps, h1, h2, h3⟩ := F.pieces
  simp only [scan]
  rw [he, hd]
  exact ⟨rfl, ps, h1, h2, h3⟩

theorem mem_groupsFlat {gs : List Group} {x : Tok} (h : x ∈ groupsFlat gs) :
    (∃ g ∈ gs, x = lbr g.p ∨ x = rbr g.q ∨ x ∈ g.toks) := by
  induction gs with
  | nil => simp [groupsFlat] at h
  | cons g gs ih =>
    simp only [groupsFlat, Group.flat, List.cons_append, List.append_assoc, List.mem_cons, List.mem_append,
      List.nil_append] at h
    rcases h with rfl | h | rfl | h
    · exact ⟨g, by simp, Or.inl rfl⟩
    · exact ⟨g, by simp, Or.inr (Or.inr h)⟩
    · exact ⟨g, by simp, Or.inr (Or.inl rfl)⟩
    · obtain ⟨g', hg', h'⟩ := ih h
      exact ⟨g', by simp [hg'], h'⟩

theorem PiecesOk.notComment {T : PTables} {st : PState} : ∀ {ps : List Piece}, PiecesOk T st ps →
    ∀ t ∈ flat ps, t.kind ≠ .comment
  | [], _, _, h => by simp [flat] at h
  | .tok t :: rest, hok, x, hx => by
    simp only [flat, Piece.toks, List.singleton_append, List.mem_cons] at hx
    rcases hx with rfl | hx
    · exact hok.1.notComment
    · exact PiecesOk.notComment hok.2.2 x hx
  | .defn p q1 q2 q3 q4 q5 q6 q7 q8 name n body :: rest, hok, x, hx => by
    obtain ⟨_, _, hb, hrest⟩ := hok
    simp only [flat, Piece.toks, List.cons_append, List.append_assoc, List.mem_cons,
      List.mem_append, List.nil_append] at hx
    rcases hx with rfl | rfl | rfl | rfl | rfl | rfl | rfl | rfl | hx | rfl | hx
    · simp [cwTok]
    · simp [lbr]
    · simp [cwTok]
    · simp [rbr]
    · simp [txtTok]
    · simp [txtTok]
    · simp [txtTok]
    · simp [lbr]
    · rcases hb.2 x hx with ⟨h1, _⟩ | ⟨k, hk, _⟩
      · exact h1.notComment
      · intro e
        simp [argRef, e] at hk
    · simp [rbr]
    · exact PiecesOk.notComment hrest x hx
  | .use p name gs :: rest, hok, x, hx => by
    obtain ⟨_, _, hg, hrest⟩ := hok
    simp only [flat, Piece.toks, List.cons_append, List.mem_cons, List.mem_append] at hx
    rcases hx with rfl | hx | hx
    · simp [cwTok]
    · obtain ⟨g, hgm, h⟩ := mem_groupsFlat hx
      rcases h with rfl | rfl | h
      · simp [lbr]
      · simp [rbr]
      · exact ((hg g hgm).2 x h).1.notComment
    · exact PiecesOk.notComment hrest x hx

/-- the state after the pieces differs from the state before only in the macro table and the
    list of unknowns -/
theorem finalSt_eq : ∀ (ps : List Piece) (st : PState),
    finalSt st ps = { st with macros := (finalSt st ps).macros, unknowns := (finalSt st ps).unknowns }
  | [], st => rfl
  | .tok _ :: rest, st => finalSt_eq rest st
  | .defn _ _ _ _ _ _ _ _ _ name n body :: rest, st => by
    have := finalSt_eq rest (defSt st name n body)
    simp only [finalSt]
    rw [this]
    rfl
  | .use _ name _ :: rest, st => by
    have := finalSt_eq rest (useSt st name)
    simp only [finalSt]
    rw [this]
    unfold PlainMacroArgs.useSt
    split <;> rfl

theorem StOk.of_eq (T : PTables) {st st' : PState} (hl : st'.langStack = st.langStack)
    (hi : st'.newcommandIgnore = st.newcommandIgnore) (hm : st'.macros = st.macros) : StOk T st st' := by
  have hlk : ∀ nm, lookupMacro st' nm = lookupMacro st nm := fun nm => by simp [lookupMacro, hm]
  exact ⟨hl, hi, fun nm m h => by rw [hlk]; exact h,
    fun nm m h1 h2 => by rw [hlk, h1] at h2; cases h2⟩

/-- **`parserWork` on a well-formed source.**  The characters of the result tokens, with their
    positions, are the reference output: the marks of the document with the pure Action lines
    deleted.  The state changes in the macro table (the definitions) and the list of unknowns. -/
theorem parserWork_macro (T : PTables) (st : PState) (src : Str) (fuel : Nat) (items : List Item)
    (hf : src.length + refInserted [] items + 6 ≤ fuel) (ha : noEmptyActive T st = true)
    (hnc : NcOk st) (h : OkSrc T st 0 src items) (har : refArity [] items = true) :
    ∃ r macros', parserWork T fuel src st
        = .ok (r, { st with macros := macros',
                            unknowns := (refUnknowns [] items).foldl addU st.unknowns }) ∧
      charsOf r = delLines (refMarks [] items) := by
  obtain ⟨f, rfl⟩ : ∃ f, fuel = f + 1 := ⟨fuel - 1, by omega⟩
  obtain ⟨hd, ps, hflat, hpok, hlink⟩ := scan_macro T st src items h
  have hstok : StOk T st { st with latex := src, nest := st.nest + 1 } := StOk.of_eq T rfl rfl rfl
  have S := link_sem T st hlink hpok { st with latex := src, nest := st.nest + 1 } [] hstok
    (Rel_init st _ rfl) har
  have hlen := OkSrc_len h
  have hs := seq_macro T none st hnc ha ps f [] { st with latex := src, nest := st.nest + 1 }
    (by have := S.cost; omega) hpok S.arity hstok
  rw [List.nil_append] at hs
  obtain ⟨r, hr, hchars⟩ := PlainMacro.removeLines_simple _ S.simple
  rw [hr] at hs
  simp only [] at hs
  rw [S.marks] at hchars
  refine ⟨r, (finalSt { st with latex := src, nest := st.nest + 1 } ps).macros, ?_, hchars⟩
  rw [parserWork.eq_2]
  refine (M.bind_ok _ _ _ _ _ (rfl : M.get st = _)).trans ?_
  refine (M.bind_ok _ _ _ _ _ (rfl : M.modify _ _ = _)).trans ?_
  refine (M.bind_ok _ _ _ _ _ (rfl : M.modify _ _ = _)).trans ?_
  refine (M.bind_ok _ _ _ _ _ (rfl : M.get _ = _)).trans ?_
  simp only [hd, List.append_nil]
  rw [skipPass_nocomment _ _ _ (fun t ht' => hpok.notComment t (by rw [← hflat]; exact ht'))]
  simp only []
  refine (M.bind_ok _ _ _ _ _ (rfl : (pure _ : M (List Tok)) _ = _)).trans ?_
  rw [hflat]
  refine (M.bind_ok _ _ _ _ _ hs).trans ?_
  refine (M.bind_ok _ _ _ _ _ (rfl : M.modify _ _ = _)).trans ?_
  show Outcome.ok _ = _
  rw [finalSt_eq ps, S.unk]
  simp only [Nat.add_sub_cancel]

theorem parse_macro (T : PTables) (st : PState) (src : Str) (fuel : Nat) (items : List Item)
    (hf : src.length + refInserted [] items + 6 ≤ fuel) (ha : noEmptyActive T st = true)
    (hnc : NcOk st) (h : OkSrc T st 0 src items) (har : refArity [] items = true) :
    ∃ r macros', parse T fuel src [] [] st
        = .ok (r, { st with extracted := [], unknowns := (refUnknowns [] items).eraseDups,
                            foreign := false, nest := 0, macros := macros' }) ∧
      charsOf r = delLines (refMarks [] items) := by
  have h' : OkSrc T { st with extracted := [], unknowns := [], foreign := false, nest := 0 } 0 src items :=
    OkSrc.congr (st := st)
      (st' := { st with extracted := [], unknowns := [], foreign := false, nest := 0 }) rfl rfl rfl h
  obtain ⟨r, macros', hw, hc⟩ := parserWork_macro T
    { st with extracted := [], unknowns := [], foreign := false, nest := 0 } src fuel items hf
    ((noEmptyActive_congr T st _ rfl).trans ha) (PlainMacro.NcOk_congr (st := st) rfl hnc) h' har
  refine ⟨r, macros', ?_, hc⟩
  unfold parse
  simp only [List.isEmpty_nil, Bool.not_true, Bool.false_eq_true, if_false, if_true]
  refine (M.bind_ok _ _ _ _ _ (rfl : M.modify _ _ = _)).trans ?_
  refine (M.bind_ok _ _ _ _ _ (rfl : (pure _ : M (List Tok)) _ = _)).trans ?_
  refine (M.bind_ok _ _ _ _ _ (rfl : M.modify _ _ = _)).trans ?_
  refine (M.bind_ok _ _ _ _ _ hw).trans ?_
  refine (M.bind_ok _ _ _ _ _ (rfl : M.get _ = _)).trans ?_
  show Outcome.ok _ = _
  simp [foldl_addU_nil]

/-- the result record of `tex2txt` on a well-formed source (no `--defs`, `--extr`, `--repl`,
    `--unkn`; single-language mode) -/
theorem tex2txt_macro_src (T : PTables) (o : Options) (fs : FS) (thresh : Nat) (src : Str) (fuel : Nat)
    (st1 : PState) (items : List Item)
    (hdefs : o.defs = []) (hextr : o.extr = []) (hrepl : o.hasRepl = false) (hunkn : o.unkn = false)
    (hinit : initParser T fuel o (initialState T o false fs) = .ok ((), st1))
    (ha : noEmptyActive T st1 = true) (hnc : NcOk st1) (h : OkSrc T st1 0 src items)
    (har : refArity [] items = true)
    (hf : src.length + refInserted [] items + 6 ≤ fuel) :
    ∃ toks, tex2txt T fuel src o false thresh fs
        = .ok { toks := toks, txt := (delLines (refMarks [] items)).map (·.1),
                pos := (delLines (refMarks [] items)).map (·.2 + 1), parts := [],
                unknowns := (refUnknowns [] items).eraseDups, diags := st1.diags, foreign := false } := by
  obtain ⟨r, macros', hp, hc⟩ := parse_macro T st1 src fuel items hf ha hnc h har
  refine ⟨r, ?_⟩
  have hrun : (initParser T fuel o >>= fun _ => parse T fuel src o.defs
        (if o.extr.isEmpty then [] else (splitOn ',' o.extr []).map (fun s => '\\' :: s)))
        (initialState T o false fs)
      = .ok (r, { st1 with extracted := [], unknowns := (refUnknowns [] items).eraseDups,
                           foreign := false, nest := 0, macros := macros' }) := by
    refine (M.bind_ok _ _ _ _ _ hinit).trans ?_
    rw [hdefs, hextr]
    exact hp
  unfold tex2txt
  simp only []
  rw [hrun]
  simp only [hrepl, hunkn, Bool.not_false, if_true, Bool.false_eq_true, if_false,
    PlainMacro.getTxtPos_charsOf, hc, List.map_map]
  rfl

/-! ### the reference on the level of segments -/

theorem refMarks_itemsOf : ∀ (segs : List Seg) (env : Env) (p : Nat),
    refMarks env (itemsOf p segs) = segMarks env p segs
  | [], _, _ => rfl
  | .txt s :: rest, env, p => by
    simp only [itemsOf, segMarks, refMarks_chrItems, refMarks_itemsOf rest]
  | .defn name n body :: rest, env, p => by
    simp only [itemsOf, segMarks, refMarks, refMarks_itemsOf rest]
  | .use name args :: rest, env, p => by
    simp only [itemsOf, segMarks, refMarks, refMarks_itemsOf rest]

theorem refUnknowns_itemsOf : ∀ (segs : List Seg) (env : Env) (p : Nat),
    refUnknowns env (itemsOf p segs) = segUnknowns env segs
  | [], _, _ => rfl
  | .txt s :: rest, env, p => by
    simp only [itemsOf, segUnknowns, refUnknowns_chrItems, refUnknowns_itemsOf rest]
  | .defn name n body :: rest, env, p => by
    simp only [itemsOf, segUnknowns, refUnknowns, refUnknowns_itemsOf rest]
  | .use name args :: rest, env, p => by
    simp only [itemsOf, segUnknowns, refUnknowns, refUnknowns_itemsOf rest]

theorem refInserted_itemsOf : ∀ (segs : List Seg) (env : Env) (p : Nat),
    refInserted env (itemsOf p segs) = segInserted env p segs
  | [], _, _ => rfl
  | .txt s :: rest, env, p => by
    simp only [itemsOf, segInserted, refInserted_chrItems, refInserted_itemsOf rest]
  | .defn name n body :: rest, env, p => by
    simp only [itemsOf, segInserted, refInserted, refInserted_itemsOf rest]
  | .use name args :: rest, env, p => by
    simp only [itemsOf, segInserted, refInserted, refInserted_itemsOf rest]

theorem refArity_itemsOf : ∀ (segs : List Seg) (env : Env) (p : Nat),
    refArity env (itemsOf p segs) = arityOk env segs
  | [], _, _ => rfl
  | .txt s :: rest, env, p => by
    simp only [itemsOf, arityOk, refArity_chrItems, refArity_itemsOf rest]
  | .defn name n body :: rest, env, p => by
    simp only [itemsOf, arityOk, refArity, refArity_itemsOf rest]
  | .use name args :: rest, env, p => by
    simp only [itemsOf, arityOk, refArity, refArity_itemsOf rest]

/-- all side conditions on the tables, the initialised parser state and the document -/
def SegsOk (T : PTables) (st : PState) (segs : List Seg) : Prop :=
  noEmptyActive T st = true ∧ ncOk st = true ∧ segsOk T st segs = true ∧ arityOk [] segs = true

instance (T : PTables) (st : PState) (segs : List Seg) : Decidable (SegsOk T st segs) := by
  unfold SegsOk; infer_instance

/-- **C09 / C04 / C02 end to end, definitions with parameters.** -/
theorem tex2txt_newcommand_args (T : PTables) (o : Options) (fs : FS) (thresh : Nat) (segs : List Seg)
    (fuel : Nat) (st1 : PState)
    (hdefs : o.defs = []) (hextr : o.extr = []) (hrepl : o.hasRepl = false) (hunkn : o.unkn = false)
    (hinit : initParser T fuel o (initialState T o false fs) = .ok ((), st1))
    (hok : SegsOk T st1 segs) (hf : (render segs).length + segInserted [] 0 segs + 6 ≤ fuel) :
    ∃ r, tex2txt T fuel (render segs) o false thresh fs = .ok r ∧
      r.txt = (delLines (segMarks [] 0 segs)).map (·.1) ∧
      r.pos = (delLines (segMarks [] 0 segs)).map (·.2 + 1) ∧
      r.unknowns = (segUnknowns [] segs).eraseDups ∧
      r.diags = st1.diags ∧ r.parts = [] := by
  obtain ⟨ha, hnc, hsegs, har⟩ := hok
  have hsrc := OkSrc_of_segsOk T st1 segs 0 hsegs
  obtain ⟨toks, ht⟩ := tex2txt_macro_src T o fs thresh (render segs) fuel st1 _ hdefs hextr hrepl hunkn
    hinit ha (NcOk_of_ncOk hnc) hsrc (by rw [refArity_itemsOf]; exact har)
    (by rw [refInserted_itemsOf]; exact hf)
  rw [refMarks_itemsOf, refUnknowns_itemsOf] at ht
  exact ⟨_, ht, rfl, rfl, rfl, rfl, rfl⟩

/-! ### when no line is deleted: the expansion -/

/-- the expansion of a body without the marks -/
def bodyChars (spans : List (Nat × Str)) : Nat → List BP → List (Char × Nat)
  | _, [] => []
  | cur, .lit s :: rest => s.map (fun c => (c, cur)) ++ bodyChars spans cur rest
  | _, .par k :: rest =>
    posText (spanAt spans k).1 (spanAt spans k).2 ++ bodyChars spans (spanEnd (spanAt spans k)) rest

def groupChars : List (Nat × Str) → List (Char × Nat)
  | [] => []
  | sp :: rest => posText sp.1 sp.2 ++ groupChars rest

/-- the expansion of a document that starts at position `p`: the rendering with every definition
    removed and every use replaced by the body of the latest earlier definition of its name, the
    parameters replaced by the arguments.  A text character and a character of an argument carry
    their own positions (also when `#k` occurs several times); a literal character of a body carries
    the position `startCur` (in front of the first `#k`) resp. the position of the last token of the
    argument substituted last. -/
def expand : Env → Nat → List Seg → List (Char × Nat)
  | _, _, [] => []
  | env, p, .txt s :: rest => posText p s ++ expand env (p + s.length) rest
  | env, p, .defn name n body :: rest =>
    expand ((name, n, body) :: env) (p + (name.length + (bodyStr body).length + 19)) rest
  | env, p, .use name args :: rest =>
    bodyChars (argSpans (p + name.length + 1) args)
        (startCur (argSpans (p + name.length + 1) args) p (defOf env name).2) (defOf env name).2
      ++ (groupChars ((argSpans (p + name.length + 1) args).drop (defOf env name).1)
      ++ expand env (p + (name.length + 1 + argsLen args)) rest)

theorem argMarks_chars (sp : Nat × Str) : (argMarks sp).filterMap id = posText sp.1 sp.2 := by
  simp [argMarks]

theorem bodyMarks_chars (spans : List (Nat × Str)) : ∀ (body : List BP) (cur : Nat),
    (bodyMarks spans cur body).filterMap id = bodyChars spans cur body
  | [], _ => rfl
  | .lit s :: rest, cur => by
    have h1 : (s.map (fun c => some (c, cur))).filterMap id = s.map (fun c => (c, cur)) := by
      rw [← PlainMacro.filterMap_map_some (s.map (fun c => (c, cur))), List.map_map]; rfl
    simp only [bodyMarks, bodyChars, List.filterMap_append, h1, bodyMarks_chars spans rest cur]
  | .par k :: rest, cur => by
    simp only [bodyMarks, bodyChars, List.filterMap_append, argMarks_chars, bodyMarks_chars spans rest _]

theorem groupMarks_chars : ∀ spans : List (Nat × Str), (groupMarks spans).filterMap id = groupChars spans
  | [] => rfl
  | sp :: rest => by
    simp only [groupMarks, groupChars, List.filterMap_append, argMarks_chars, groupMarks_chars rest]

theorem segMarks_chars : ∀ (segs : List Seg) (env : Env) (p : Nat),
    (segMarks env p segs).filterMap id = expand env p segs
  | [], _, _ => rfl
  | .txt s :: rest, env, p => by
    simp only [segMarks, expand, List.filterMap_append, PlainMacro.filterMap_map_some, segMarks_chars rest]
  | .defn name n body :: rest, env, p => by
    simp only [segMarks, expand, List.filterMap_cons, id, segMarks_chars rest]
  | .use name args :: rest, env, p => by
    simp only [segMarks, expand, List.filterMap_cons, id, List.filterMap_append, bodyMarks_chars,
      groupMarks_chars, segMarks_chars rest]

/-- **… when nothing is deleted.**  If in addition every line that holds a definition, a use or a
    brace also holds visible text (`linesKept`, decidable), the output is exactly the expansion
    `expand [] 0 segs`. -/
theorem tex2txt_newcommand_args_kept (T : PTables) (o : Options) (fs : FS) (thresh : Nat) (segs : List Seg)
    (fuel : Nat) (st1 : PState)
    (hdefs : o.defs = []) (hextr : o.extr = []) (hrepl : o.hasRepl = false) (hunkn : o.unkn = false)
    (hinit : initParser T fuel o (initialState T o false fs) = .ok ((), st1))
    (hok : SegsOk T st1 segs) (hf : (render segs).length + segInserted [] 0 segs + 6 ≤ fuel)
    (hk : PlainMacro.linesKept true false (segMarks [] 0 segs) = true) :
    ∃ r, tex2txt T fuel (render segs) o false thresh fs = .ok r ∧
      r.txt = (expand [] 0 segs).map (·.1) ∧ r.pos = (expand [] 0 segs).map (·.2 + 1) ∧
      r.unknowns = (segUnknowns [] segs).eraseDups ∧ r.diags = st1.diags := by
  obtain ⟨r, h1, h2, h3, h4, h5, _⟩ := tex2txt_newcommand_args T o fs thresh segs fuel st1 hdefs hextr hrepl
    hunkn hinit hok hf
  rw [PlainMacro.delLines_kept _ hk, segMarks_chars] at h2 h3
  exact ⟨r, h1, h2, h3, h4, h5⟩

/-! ### simpler sufficient conditions

  `segsOk` is context dependent; the following context-free conditions on the tables, the characters
  and the names imply it. -/

/-- `c` is always scanned as a one-character text token -/
def charTxtOk (T : Tables) (c : Char) : Bool := !isSpace c && !structuralChar c && startsNoSpecial T c

theorem txtAt_of_char (T : PTables) (c : Char) (h : charTxtOk T.toTables c = true) (rest : Str) :
    txtAt T c rest = true := by
  simp only [charTxtOk, Bool.and_eq_true] at h
  simp only [txtAt, Bool.and_eq_true]
  exact ⟨h.1, by rw [matchSpecial_none_of_startsNoSpecial _ _ _ h.2]; rfl⟩

/-- the conditions on the tables: those of Proofs/PlainMacro.lean (no special sequence is a backslash
    followed by a letter, `{` and `}` are scanned as such, `\newcommand` is no accent macro); `[`, `]`
    and the digits `0`…`9` are ordinary characters that start no special sequence; the digit `k` has
    the decimal value `k` -/
def tablesOk (T : PTables) : Bool :=
  PlainMacro.tablesOk T && charTxtOk T.toTables '[' && charTxtOk T.toTables ']' &&
  (List.range 10).all (fun k => charTxtOk T.toTables (digitChar k) &&
    decimalValue T.toTables.decimalZeros (digitChar k) == some k)

def bpOkSimple (T : PTables) (st : PState) (n : Nat) : BP → Bool
  | .lit s => s.all (inertChar T st)
  | .par k => decide (1 ≤ k) && decide (k ≤ n)

/-- text of inert characters; names that are good control words (`cwNameOk` of
    Proofs/PlainUnknown.lean) and not protected; `n ≤ 9`, the digit not active; bodies not empty, of
    inert characters and `#k` with `1 ≤ k ≤ n`; at least one argument, every argument a non-empty string
    of inert characters -/
def segsOkSimple (T : PTables) (st : PState) : List Seg → Bool
  | [] => true
  | .txt s :: rest => s.all (inertChar T st) && segsOkSimple T st rest
  | .defn name n body :: rest =>
    cwNameOk T st name && !st.newcommandIgnore.contains ('\\' :: name) && decide (n ≤ 9) &&
    !(activeChars T st).contains [digitChar n] && !(bodyStr body).isEmpty &&
    body.all (bpOkSimple T st n) && segsOkSimple T st rest
  | .use name args :: rest =>
    cwNameOk T st name && !st.newcommandIgnore.contains ('\\' :: name) && !args.isEmpty &&
    args.all (fun a => !a.isEmpty && a.all (inertChar T st)) && segsOkSimple T st rest

theorem argsOk_of_simple (T : PTables) (st : PState) (hl : PlainMacro.braceKey T.toTables '{' = true)
    (hr : PlainMacro.braceKey T.toTables '}' = true) (R : Str) :
    ∀ args : List Str, args.all (fun a => !a.isEmpty && a.all (inertChar T st)) = true →
      argsOk T st args R = true
  | [], _ => rfl
  | a :: as, h => by
    simp only [List.all_cons, Bool.and_eq_true] at h
    simp only [argsOk, Bool.and_eq_true]
    exact ⟨⟨⟨⟨PlainMacro.braceAt_of_key T '{' hl _, h.1.1⟩, h.1.2⟩, PlainMacro.braceAt_of_key T '}' hr _⟩,
      argsOk_of_simple T st hl hr R as h.2⟩

theorem segsOk_of_simple (T : PTables) (st : PState) (ht : tablesOk T = true) :
    ∀ segs : List Seg, segsOkSimple T st segs = true → segsOk T st segs = true := by
  simp only [tablesOk, PlainMacro.tablesOk, Bool.and_eq_true, Bool.not_eq_true', List.all_eq_true,
    beq_iff_eq, List.mem_range] at ht
  obtain ⟨⟨⟨⟨⟨⟨hs, hl⟩, hr⟩, hacc⟩, hlb⟩, hrb⟩, hdig⟩ := ht
  intro segs
  induction segs with
  | nil => intro _; rfl
  | cons sg rest ih =>
    intro h
    cases sg with
    | txt s =>
      simp only [segsOkSimple, Bool.and_eq_true] at h
      simp only [segsOk, Bool.and_eq_true]
      exact ⟨textOk_of_inertChar T st _ s h.1, ih h.2⟩
    | defn name n body =>
      simp only [segsOkSimple, Bool.and_eq_true, decide_eq_true_eq] at h
      obtain ⟨⟨⟨⟨⟨⟨hn, hi⟩, hn9⟩, hna⟩, hbne⟩, hb⟩, hrest⟩ := h
      simp only [segsOk, Bool.and_eq_true]
      refine ⟨?_, ih hrest⟩
      have hm : (matchSpecial T.toTables
          ('\\' :: (ncName ++ '{' :: '\\' :: (name ++ '}' :: '[' :: digitChar n :: ']' :: '{' ::
            (bodyStr body ++ '}' :: render rest))))).isNone = true := by
        rw [ncName_eq, List.cons_append, matchSpecial_cw_none T.toTables hs 'n' _ (by decide)]; rfl
      have hbody : body.all (bpOk T st n) = true := by
        rw [List.all_eq_true] at hb ⊢
        intro b hbm
        have := hb b hbm
        cases b with
        | lit s => exact this
        | par k =>
          simp only [bpOkSimple, Bool.and_eq_true, decide_eq_true_eq] at this
          simp only [bpOk, Bool.and_eq_true, decide_eq_true_eq, beq_iff_eq]
          exact ⟨this, (hdig k (by omega)).2⟩
      simp only [defOk, Bool.and_eq_true, decide_eq_true_eq, beq_iff_eq]
      exact ⟨⟨⟨⟨⟨⟨⟨⟨⟨⟨⟨⟨⟨⟨⟨hm, by simpa using hacc⟩, PlainMacro.braceAt_of_key T '{' hl _⟩,
        PlainMacro.cwOk_of_name T st hs name _ hn rfl⟩, hi⟩, PlainMacro.braceAt_of_key T '}' hr _⟩,
        txtAt_of_char T '[' hlb _⟩, txtAt_of_char T _ (hdig n (by omega)).1 _⟩, txtAt_of_char T ']' hrb _⟩,
        hn9⟩, (hdig n (by omega)).2⟩, hna⟩, PlainMacro.braceAt_of_key T '{' hl _⟩, hbne⟩, hbody⟩,
        PlainMacro.braceAt_of_key T '}' hr _⟩
    | use name args =>
      simp only [segsOkSimple, Bool.and_eq_true] at h
      obtain ⟨⟨⟨⟨hn, hi⟩, hne⟩, hargs⟩, hrest⟩ := h
      simp only [segsOk, Bool.and_eq_true]
      refine ⟨?_, ih hrest⟩
      simp only [useOk, Bool.and_eq_true]
      have hadj : (argsStr args ++ render rest).head?.all (fun d => !macroChar d) = true := by
        cases args with
        | nil => simp at hne
        | cons a as => rfl
      exact ⟨⟨⟨PlainMacro.cwOk_of_name T st hs name _ hn hadj, hi⟩, hne⟩,
        argsOk_of_simple T st hl hr _ args hargs⟩

end PlainMacroArgs
end Yalafi
