/-
  Proofs/NoEmptyStepWork.lean — step lemmas of the NoEmpty bundle for `parserWork`, `initPackage`,
  `modifyParameters`, `parseKeyvals`, `parseValue`, `expandKeyvals`, `modifyDescription`.
-/
import YalafiVerif.Proofs.NoEmptyBase1
import YalafiVerif.Proofs.NoEmptyBase2
namespace Yalafi
namespace NoEmpty
open M
set_option linter.unusedVariables false

variable {T : PTables}

/-! ### generic helpers -/

private theorem pbind {α β} {x : M α} {f : α → M β} {st : PState} {R : β → PState → Prop}
    (Q : α → PState → Prop) (hx : Post' (x st) Q) (hf : ∀ a s, Q a s → Post' (f a s) R) :
    Post' ((x >>= f) st) R := Post'_bind x f st Q R hx hf

private theorem ppure {α} {a : α} {st : PState} {Q : α → PState → Prop} (h : Q a st) :
    Post' ((pure a : M α) st) Q := Post'_pure a st Q h

private theorem pmono {α} {x : Outcome (α × PState)} {Q R : α → PState → Prop}
    (h : Post' x Q) (hi : ∀ a s, Q a s → R a s) : Post' x R := Post'_mono x Q R h hi

private theorem pget {st : PState} : Post' (M.get st) (fun a s => st = a ∧ st = s) :=
  Post'_get st _ ⟨rfl, rfl⟩

private theorem pmodify {f : PState → PState} {st : PState} : Post' (M.modify f st) (fun _ s => s = f st) :=
  Post'_modify f st _ rfl

/-! ### `modifyDescription` -/

private theorem NE_text (n p : Nat) (txt : Str) (hp : p < n) (ht : txt ≠ []) : NE T n (mkFix Kind.text p txt) := by
  simp [NE, W, NE0, MB, ctlEmpty, mkFix, hp, ht]

theorem modDesc_step (hne : tblOkB T = true) (hw : T.WFInv) (fuel : Nat) (IH : AllSpecs T fuel) :
    SpecModDesc T (fuel + 1) := by
  intro toks st hg hb
  rw [modifyDescription.eq_2]
  cases hc : capFirst T toks with
  | none =>
    obtain ⟨r, hr⟩ := capFirst_some (T := T) toks (ANE_ANE0 hb)
    rw [hr] at hc; cases hc
  | some ts =>
    dsimp only
    have hts := capFirst_ANE hne _ _ _ hb hc
    refine pbind (fun _ s => Fr T st s) (IH.text ts st hg (Buf3_of_ANE hts)) ?_
    intro txt s h
    cases txt.getLast? with
    | none => exact ppure ⟨h, hts⟩
    | some c =>
      dsimp only
      split
      · exact ppure ⟨h, hts⟩
      · cases hl : ts.getLast? with
        | none => exact Post'_crash _ _ _ (by decide)
        | some l =>
          refine ppure ⟨h, ?_⟩
          rw [ANE_append]
          refine ⟨hts, ?_⟩
          intro x hx
          simp only [List.mem_singleton] at hx
          subst hx
          have hlm : l ∈ ts := List.mem_of_getLast? hl
          exact NE_text _ _ _ (hts l hlm).1.1 (by simp)

/-! ### `expandKeyvals` -/

theorem expandKv_step (hne : tblOkB T = true) (hw : T.WFInv) (fuel : Nat) (IH : AllSpecs T fuel) :
    SpecExpandKv T (fuel + 1) := by
  intro kvs st hg hk
  cases kvs with
  | nil => rw [expandKeyvals.eq_2]; exact ppure (Fr.refl hg)
  | cons kv kvs =>
    obtain ⟨k, v⟩ := kv
    have hrest : ∀ s, Fr T st s →
        Post' (expandKeyvals T fuel kvs s) (fun _ s' => Fr T st s') := by
      intro s h
      have := IH.expandKv kvs s h.1 (by rw [h.2]; intro kv hkv; exact hk kv (by simp [hkv]))
      exact pmono this (fun a s' h' => Fr.trans h h')
    cases v with
    | none =>
      rw [expandKeyvals.eq_3]
      refine pbind (fun _ s => Fr T st s) (ppure (Fr.refl hg)) ?_
      intro a s h
      refine pbind (fun _ s' => Fr T st s') (hrest s h) ?_
      intro a s h; exact ppure h
    | some toks =>
      rw [expandKeyvals.eq_4]
      refine pbind (fun _ s => Fr T st s) ?_ ?_
      · refine pbind (fun _ s => Fr T st s) ?_ ?_
        · exact IH.text toks st hg (Buf3_of_ANE (hk (k, some toks) (by simp) _ rfl))
        · intro a s h; exact ppure h
      · intro a s h
        refine pbind (fun _ s' => Fr T st s') (hrest s h) ?_
        intro a s h; exact ppure h

/-! ### `parseValue` -/

private theorem NE_special (n p : Nat) (k : Str) (hp : p < n) : NE T n (mkTok .special p k) := by
  simp [NE, W, NE0, MB, ctlEmpty, mkTok, hp]

private theorem parseValue_seq_ANE (n : Nat) (t : Tok) (a : List Tok) (ht : t.pos < n)
    (ha : ANE T n a) :
    ANE T n (match (generalizing := false) a with
      | [v] => if v.kind == .void then [] else
          [mkTok .special t.pos ['{'], v, mkTok .special v.pos ['}']]
      | s => [mkTok .special t.pos ['{']] ++ s ++ [mkTok .special ((s.getLast?.map (·.pos)).getD 0) ['}']]) := by
  have h0 : 0 < n := by omega
  rcases a with _ | ⟨v, _ | ⟨w, tl⟩⟩
  · simp only [ANE_cons, List.append_nil, List.nil_append, List.cons_append, List.getLast?_nil,
      Option.map_none, Option.getD_none]
    exact ⟨NE_special _ _ _ ht, NE_special _ _ _ h0, ANE_nil _⟩
  · have hv := ha v (by simp)
    dsimp only
    split
    · exact ANE_nil _
    · simp only [ANE_cons]
      exact ⟨NE_special _ _ _ ht, hv, NE_special _ _ _ hv.1.1, ANE_nil _⟩
  · dsimp only
    rw [ANE_append, ANE_append]
    refine ⟨⟨?_, ha⟩, ?_⟩
    · simp only [ANE_cons]; exact ⟨NE_special _ _ _ ht, ANE_nil _⟩
    · simp only [ANE_cons]
      refine ⟨NE_special _ _ _ ?_, ANE_nil _⟩
      cases hl : (v :: w :: tl).getLast? with
      | none => simpa using h0
      | some l => simpa using (ha l (List.mem_of_getLast? hl)).1.1

theorem value_step (hne : tblOkB T = true) (hw : T.WFInv) (fuel : Nat) (IH : AllSpecs T fuel) :
    SpecValue T (fuel + 1) := by
  intro buf val st hg hb hv
  cases buf with
  | nil => rw [parseValue.eq_2]; exact ppure ⟨Fr.refl hg, hv, ANE_nil _⟩
  | cons t rest =>
    rw [parseValue.eq_3]
    have ht := (hb t (by simp)).1.1
    have hvt : ANE T st.latex.length (val ++ [t]) := by
      rw [ANE_append]; exact ⟨hv, by simp only [ANE_cons]; exact ⟨hb t (by simp), ANE_nil _⟩⟩
    split
    · exact ppure ⟨Fr.refl hg, hv, hb⟩
    · split
      · refine pbind _ (argBuffer_spec (t :: rest) 0 true st hg) ?_
        intro r s ⟨hfr, h12, _⟩
        obtain ⟨h1, h2⟩ := h12 hb (by omega)
        have hlen := hfr.len
        split
        · -- no closing brace: the brace is an ordinary token of the value
          refine pmono (IH.value (r.2.drop 1) _ s hfr.1
            (by rw [hlen]; exact ANE_drop 1 h2) (by rw [hlen]; exact hvt)) ?_
          intro a s' ⟨g, b1, b2⟩
          rw [hlen] at b1 b2
          exact ⟨Fr.trans hfr g, b1, b2⟩
        · refine pmono (IH.value r.2 _ s hfr.1 (by rw [hlen]; exact h2) ?_) ?_
          · rw [hlen, ANE_append]
            exact ⟨hv, parseValue_seq_ANE _ t r.1 ht h1⟩
          · intro a s' ⟨g, b1, b2⟩
            rw [hlen] at b1 b2
            exact ⟨Fr.trans hfr g, b1, b2⟩
      · refine IH.value rest _ st hg ?_ hvt
        exact fun x hx => hb x (by simp [hx])

/-! ### `parseKeyvals` -/

private theorem kvOk_snoc {n : Nat} {acc : List (Str × Option (List Tok))} {k : Str}
    {v : Option (List Tok)} (ha : kvOk T n acc) (hv : ∀ ts, v = some ts → ANE T n ts) :
    kvOk T n (acc ++ [(k, v)]) := by
  intro kv hkv ts hts
  rcases List.mem_append.1 hkv with h | h
  · exact ha kv h ts hts
  · simp only [List.mem_singleton] at h
    subst h
    exact hv ts hts

private theorem ANE_skipSpace {n : Nat} {b : List Tok} (h : ANE T n b) : ANE T n (skipSpace b) := by
  unfold skipSpace; exact ANE_dropWhile _ h

theorem keyvals_step (hne : tblOkB T = true) (hw : T.WFInv) (fuel : Nat) (IH : AllSpecs T fuel) :
    SpecKeyvals T (fuel + 1) := by
  intro buf acc st hg hb ha
  rw [parseKeyvals.eq_2]
  have hsk := ANE_skipSpace hb
  cases hb' : skipSpace buf with
  | nil => exact ppure ⟨Fr.refl hg, ha⟩
  | cons t0 l0 =>
    rw [hb'] at hsk
    dsimp only
    generalize t0 :: l0 = b at hsk
    refine pbind (fun _ s => Fr T st s)
      (IH.text _ st hg (Buf3_of_ANE (ANE_sublist (List.takeWhile_sublist _) hsk))) ?_
    intro key s hgood
    have hlen := hgood.len
    have hb1 := ANE_skipSpace (ANE_sublist (List.drop_sublist
      (List.takeWhile (fun t => t.kind == Kind.text && !(txtIs t "=" || txtIs t ",")) b).length b) hsk)
    have hnone : kvOk T st.latex.length (acc ++ [(key, none)]) :=
      kvOk_snoc ha (by intro ts h; cases h)
    cases hb1' : skipSpace (List.drop
      (List.takeWhile (fun t => t.kind == Kind.text && !(txtIs t "=" || txtIs t ",")) b).length b) with
    | nil => exact ppure ⟨hgood, hnone⟩
    | cons t rest =>
      rw [hb1'] at hb1
      have hrest : ANE T st.latex.length rest := fun x hx => hb1 x (by simp [hx])
      dsimp only
      split
      · refine pmono (IH.keyvals rest _ s hgood.1 (by rw [hlen]; exact hrest) (by rw [hlen]; exact hnone)) ?_
        intro a s' ⟨g, k⟩
        rw [hlen] at k
        exact ⟨Fr.trans hgood g, k⟩
      · refine pbind _ (IH.value (skipSpace rest) [] s hgood.1
          (by rw [hlen]; exact ANE_skipSpace hrest) (ANE_nil _)) ?_
        intro r s2 ⟨g2, r1, r2⟩
        rw [hlen] at r1 r2
        have hgood2 := Fr.trans hgood g2
        have hlen2 := hgood2.len
        refine pmono (IH.keyvals _ _ s2 hgood2.1 (by rw [hlen2]; exact ANE_drop 1 r2)
          (by
            rw [hlen2]
            refine kvOk_snoc ha ?_
            intro ts hts
            cases hts
            split
            · split
              · exact ANE_sublist (List.dropLast_sublist _) r1
              · exact r1
            · exact r1)) ?_
        intro a s' ⟨g, k⟩
        rw [hlen2] at k
        exact ⟨Fr.trans hgood2 g, k⟩

/-! ### `modifyParameters` / `initPackage` -/

private theorem InjOk_babel (n position : Nat) (opts : List KeyVal) :
    InjOk T n position (babelLanguageToken T opts) := by
  unfold babelLanguageToken
  split
  · refine ⟨fun hp t ht => ?_, fun t ht => ?_⟩
    · simp only [List.mem_singleton] at ht
      subst ht
      have h0 : 0 < n := by omega
      simp [NE, W, NE0, MB, ctlEmpty, mkLang, h0]
    · simp only [List.mem_singleton] at ht
      subst ht
      simp [mkLang]
  · exact InjOk_nil _ _ _

private theorem InjOk_of_ANC {n position : Nat} {r : List Tok} (hc : ANC r)
    (ha : position < n → ANE T n r) : InjOk T n position r := by
  refine ⟨ha, fun t ht hk => ?_⟩
  have := hc t ht
  simp [noCall, hk] at this

theorem modParams_step (hne : tblOkB T = true) (hw : T.WFInv) (fuel : Nat) (IH : AllSpecs T fuel) :
    SpecModParams T (fuel + 1) := by
  intro md options position st hg hm
  rw [modifyParameters.eq_2]
  split
  · exact Post'_crash _ _ _ (by decide)
  · refine pbind _ pget ?_
    rintro _ _ ⟨rfl, rfl⟩
    dsimp only
    have hinj : InjOk T st.latex.length position
        (if md.babelInject = true then babelLanguageToken T (st.globalOptions ++ options) else []) := by
      split
      · exact InjOk_babel _ _ _
      · exact InjOk_nil _ _ _
    generalize (if md.babelInject = true then babelLanguageToken T (st.globalOptions ++ options) else []) = inject0
      at hinj ⊢
    refine pbind (fun cinj s => Fr T st s ∧ InjOk T st.latex.length position cinj) ?_ ?_
    · split
      · refine pmono (latexError_spec _ position st hg) ?_
        intro r s ⟨hfr, hc, ha⟩
        exact ⟨hfr, InjOk_of_ANC hc ha⟩
      · exact ppure ⟨Fr.refl hg, InjOk_nil _ _ _⟩
    intro cinj s0 ⟨hfr0, hcinj⟩
    have hinj' := InjOk_append hinj hcinj
    generalize inject0 ++ cinj = inject at hinj' ⊢
    refine pbind _ pmodify ?_
    intro _ s1 hs1
    have hgood1 : Fr T st s1 := by
      refine Fr.trans hfr0 ?_
      refine ⟨⟨?_, ?_, ?_⟩, ?_⟩ <;> rw [hs1]
      · intro m hmem
        rcases foldl_setMacro_mem _ _ _ hmem with h | h
        · exact hfr0.1.macros m h
        · exact hm.1 m h
      · intro e hmem
        rcases foldl_setMacro_mem _ _ _ hmem with h | h
        · exact hfr0.1.envs e h
        · exact hm.2 e h
      · exact hfr0.1.gloss
    clear hs1
    split
    · refine pbind _ (IH.work md.macrosLatex s1 hgood1.1) ?_
      intro _ s2 ⟨g0, _⟩
      exact ppure ⟨Fr.trans hgood1 g0, hinj'⟩
    · exact ppure ⟨hgood1, hinj'⟩

private theorem Post'_foldlM {α β} (f : β → α → M β) (I : β → PState → Prop) (l : List α) (b : β) (st : PState)
    (hI : I b st) (hf : ∀ b a s, a ∈ l → I b s → Post' (f b a s) I) : Post' (l.foldlM f b st) I := by
  induction l generalizing b st with
  | nil => rw [List.foldlM_nil]; exact ppure hI
  | cons a l ih =>
    rw [List.foldlM_cons]
    refine pbind I (hf b a st (by simp) hI) ?_
    intro b' s' h'
    exact ih b' s' h' (fun b a s ha => hf b a s (by simp [ha]))

theorem init_step (hne : tblOkB T = true) (hw : T.WFInv) (fuel : Nat) (IH : AllSpecs T fuel) :
    SpecInit T (fuel + 1) := by
  intro name md builtin options position st hg hmd
  rw [initPackage.eq_2]
  refine pbind _ pget ?_
  rintro _ _ ⟨rfl, rfl⟩
  split
  · exact ppure ⟨Fr.refl hg, InjOk_nil _ _ _⟩
  · apply Post'_catchAll
    refine pbind (fun acc s => Fr T st s ∧ InjOk T st.latex.length position acc) ?_ ?_
    · apply Post'_foldlM
      · exact ⟨Fr.refl hg, InjOk_nil _ _ _⟩
      · intro acc requ s _ ⟨hgood, hacc⟩
        refine pbind _ pget ?_
        rintro _ _ ⟨rfl, rfl⟩
        dsimp only
        split
        · refine pbind _ (IH.init requ _ false options position s hgood.1 (findModule_ModOk hne false requ)) ?_
          intro o s' ⟨g', ho⟩
          rw [hgood.len] at ho
          exact ppure ⟨Fr.trans hgood g', InjOk_append hacc ho⟩
        · exact ppure ⟨hgood, hacc⟩
    · intro reqOut s ⟨hgood, hacc⟩
      dsimp only
      have hjp : ∀ s1, Fr T st s1 →
          Post' ((do let o ← modifyParameters T fuel md options position; pure (reqOut ++ o)) s1)
            (fun r st' => Fr T st st' ∧ InjOk T st.latex.length position r) := by
        intro s1 hgood1
        refine pbind _ (IH.modParams md options position s1 hgood1.1 hmd) ?_
        intro o s' ⟨g', ho⟩
        rw [hgood1.len] at ho
        exact ppure ⟨Fr.trans hgood1 g', InjOk_append hacc ho⟩
      split
      · refine pbind _ pmodify ?_
        intro _ s1 hs1
        refine hjp s1 ?_
        rw [hs1]
        exact Fr.trans hgood ⟨StOk_congr hgood.1 rfl rfl rfl, rfl⟩
      · exact hjp s hgood

/-! ### `parserWork` -/

theorem work_step (hne : tblOkB T = true) (hw : T.WFInv) (fuel : Nat) (IH : AllSpecs T fuel) :
    SpecWork T (fuel + 1) := by
  intro latex st hg
  rw [parserWork.eq_2]
  refine pbind _ pget ?_
  rintro _ _ ⟨rfl, rfl⟩
  refine pbind _ pmodify ?_
  intro _ s1 hs1
  refine pbind _ pmodify ?_
  intro _ s2 hs2
  rw [hs1] at hs2
  clear hs1 s1
  have hl2 : s2.latex = latex := by rw [hs2]
  have hG2 : StOk T s2 := by rw [hs2]; exact StOk_congr hg rfl rfl rfl
  clear hs2
  refine pbind _ pget ?_
  rintro _ _ ⟨rfl, rfl⟩
  dsimp only
  refine pbind (fun toks s3 => ANE T latex.length toks ∧ Fr T s2 s3) ?_ ?_
  · have hsp := skipPass_spec (T := T) latex.length s2 ((scan T.toTables latex).toks.length + 1)
      (scan T.toTables latex).toks [] (scan_ANE hw latex) (ANE_nil _)
    generalize skipPass s2 _ _ _ = sp at hsp ⊢
    obtain ⟨p1, p2, p3⟩ := hsp
    cases hb : sp.2.1 with
    | none => exact ppure ⟨p1, Fr.refl hG2⟩
    | some bpos =>
      dsimp only
      have hlt := p3 bpos hb
      refine pbind _ (latexError_spec _ bpos s2 hG2) ?_
      intro er s3 ⟨hfr, _, he⟩
      have he' := he (by rw [hl2]; exact hlt)
      rw [hl2] at he'
      exact ppure ⟨by rw [ANE_append, ANE_append]; exact ⟨⟨p1, he'⟩, p2⟩, hfr⟩
  · intro toks s3 ⟨ht, hfr3⟩
    have hl3 : s3.latex = latex := by rw [hfr3.2, hl2]
    refine pbind _ (IH.seq toks none [] s3 hfr3.1 (by rw [hl3]; exact Buf3_of_ANE ht) ANC_nil) ?_
    intro r s4 ⟨g4, _, ho, _⟩
    refine pbind _ pmodify ?_
    intro _ s5 hs5
    refine ppure ⟨⟨?_, ?_⟩, ho rfl⟩
    · rw [hs5]; exact StOk_congr g4.1 rfl rfl rfl
    · rw [hs5]

end NoEmpty
end Yalafi
