/-
  Proofs/SystemWord.lean — SYSTEM LEVEL, grammar-free part: the composition of the filter's result
  (`tex2txt`: plain text `r.txt` and 1-based position map `r.pos`) with the shell's pipeline
  (`map_match_position` = `mapMatch`, the generators of the text / JSON / XML / XML-b reports =
  `Reports.locate` / `Reports.reportAll`, the HTML highlight `Html.computeH`, the sort of the matches
  `sortMatches`).  Everything here holds for EVERY source text; the theorems that discharge the
  hypothesis "these output characters are copies of consecutive source characters" for document
  grammars are in Proofs/SystemWordGroup.lean (text, groups, undeclared macros with arguments) and
  Proofs/SystemWordMix2.lean (the union grammar of fourteen construct kinds).

  Definitions
    `natMap pos`            the map the shell receives: `r.pos` as a list of Python ints
    `RunAt pos o l q`       the `l` map entries from plain offset `o` are `q, q+1, …, q+l-1`: the
                            flagged characters are mapped to `l` CONSECUTIVE source characters
    `IsLineCol src q lin col`   `q` is the offset of the `col`-th character of line `lin` of `src`
                            (1-based; the definition of "line and column" used by
                            `C14_linecol_roundtrip`): line `lin` exists, it begins at
                            `starts[lin-1]`, `q` lies `col-1` characters behind that begin and no
                            line break stands in between
    `WordReported src p l L`    everything the reports `L` say about the place of a match, spelled
                            out for a match that IS the source word `src[p … p+l)`
    `ReportInFile src L`    every location of `L` is a place of the file (conclusion of
                            `C15_located_in_file`)
    `shellOne`              one match through the shell: offset check of the sort key function,
                            `map_match_position`, report arithmetic

  Theorems
    `isLineCol_unique`      a place has exactly one (line, column)
    `locate_word`           `WordReported src p l (locate src p l)` for `1 ≤ l`, `p + l ≤ |src|`
    `correctMark_word`      the macro-name extension is the identity unless the match is one single
                            backslash
    `mapMatch_run`, `reportAll_run`   for a run the pipeline yields offset `p`, length `l`, and
                            therefore `locate src p l` — with ANY padding appended to the map (the
                            shell appends two entries for its delimiter `'\n\n'`)
    `computeH_run`, `computeH_run_ok`, `html_run` (`HtmlWord`)   the HTML highlight is
                            `src[p : p+l]` on line `lin - 1`, and `computeH` accepts the match if an
                            entry follows the run (always, with the shell's padding)
    `assemble_single`, `shellPad`, `shellPad_mem`   the padding `run_proofreader_options` appends
    `sorted_before`, `runs_sorted`   (C) of two flagged runs the one that stands first in the file is
                            reported first
    `every_location_in_file`, `shellOne_dichotomy`, `shell_dichotomy_tex2txt`   (B) for EVERY source
                            text and ANY answer of the proofreader: all locations of all reports are
                            places of the file, or the shell stops with its own error exit; no
                            Python exception

  Side conditions and why
    `1 ≤ l`                 a zero or negative length is mapped differently (`C15_zero_length_mapped`)
    `RunAt pos off l (p+1)` consecutive map entries; otherwise `map_match_position` reports the
                            difference of the two end entries (markup in between is included)
    `¬ (l = 1 ∧ src[p] = '\\')`   `correct_mark_macroname` extends a single flagged backslash to the
                            macro name; never the case for a copied text character of the grammars
    `p + l ≤ |src|`         for `WordReported` (given by C01 / the grammar theorems)
    `∀ c ∈ pad, 0 ≤ c`      for `HtmlWord`: a negative entry would make the match "unsure" (the shell's
                            padding repeats an entry of the map; the model's map has none)
    (B) `T.WFInv` (decidable, true for the real tables), `r.foreign = false` (ghost flag of
        `C01_tex2txt`), no `--unkn` (the map is all zero then), plain text not empty (the shell does
        not call the proofreader on it), an INTEGER length (a missing or non-integer `length` is
        rejected by the sort key function: `C15_jsonGet_typed`), padding with entries of the map
  NOT covered: multi-language mode (several parts: offsets shifted by `C14_assemble_shift`, not
  composed here); the matches the shell creates itself (single letters, equation punctuation); the
  texts of the reports other than the numbers; `generate_html` beyond `computeH` (regions, overlaps:
  Proofs/Html.lean).
-/
import YalafiVerif.Proofs.Reports
import YalafiVerif.Proofs.Inv.Tex2txt
namespace Yalafi
namespace SystemWord

open Reports Html

/-! ### the map the shell receives; runs -/

/-- `r.pos` as the list of ints that `tex2txt` hands to the shell (no negative = "unsure" entries:
    the model's `r.pos` holds natural numbers) -/
def natMap (pos : List Nat) : List Int := pos.map Int.ofNat

/-- the `l` map entries from plain offset `o` are `q, q+1, …, q+l-1` -/
def RunAt (pos : List Nat) (o l q : Nat) : Prop := (pos.drop o).take l = List.range' q l

instance (pos : List Nat) (o l q : Nat) : Decidable (RunAt pos o l q) := by
  unfold RunAt; infer_instance

theorem RunAt.get {pos : List Nat} {o l q : Nat} (h : RunAt pos o l q) (i : Nat) (hi : i < l) :
    pos[o + i]? = some (q + i) := by
  have h1 : ((pos.drop o).take l)[i]? = (List.range' q l)[i]? := by rw [h]
  rw [List.getElem?_take_of_lt hi, List.getElem?_drop] at h1
  rw [h1, List.getElem?_range' hi]
  simp

theorem RunAt.le {pos : List Nat} {o l q : Nat} (h : RunAt pos o l q) : l = 0 ∨ o + l ≤ pos.length := by
  rcases Nat.eq_zero_or_pos l with h0 | h0
  · exact Or.inl h0
  · right
    have := h.get (l - 1) (by omega)
    have h2 : o + (l - 1) < pos.length := by
      rcases Nat.lt_or_ge (o + (l - 1)) pos.length with h3 | h3
      · exact h3
      · rw [List.getElem?_eq_none h3] at this; cases this
    omega

theorem runAt_of_get {pos : List Nat} {o l q : Nat} (h : ∀ i, i < l → pos[o + i]? = some (q + i)) :
    RunAt pos o l q := by
  unfold RunAt
  apply List.ext_getElem?
  intro i
  rcases Nat.lt_or_ge i l with hi | hi
  · rw [List.getElem?_take_of_lt hi, List.getElem?_drop, h i hi, List.getElem?_range' hi]
    simp
  · rw [List.getElem?_eq_none (by simp; omega), List.getElem?_eq_none (by simp; omega)]

theorem natMap_get (pos : List Nat) (pad : List Int) (i : Nat) (q : Nat) (h : pos[i]? = some q) :
    (natMap pos ++ pad)[i]? = some (q : Int) := by
  have hlt : i < pos.length := by
    rcases Nat.lt_or_ge i pos.length with h3 | h3
    · exact h3
    · rw [List.getElem?_eq_none h3] at h; cases h
  rw [List.getElem?_append_left (by simpa [natMap] using hlt)]
  simp [natMap, h]

/-- a run is a contiguous stretch of the (padded) map in the sense of `C14_mapMatch_word` -/
theorem contiguous_of_run (pos : List Nat) (pad : List Int) (o l q : Nat) (hl : 1 ≤ l)
    (h : RunAt pos o l q) :
    Contiguous (natMap pos ++ pad) o l ∧ (natMap pos ++ pad)[o]? = some (q : Int) := by
  have h0 := natMap_get pos pad o q (by simpa using h.get 0 (by omega))
  refine ⟨⟨?_, ?_⟩, h0⟩
  · rcases h.le with h1 | h1
    · omega
    · simp [natMap]; omega
  · intro i hi
    rw [natMap_get pos pad (o + i) (q + i) (h.get i hi), h0]
    simp

/-! ### "line and column" -/

/-- `q` is the offset of the `col`-th character of line `lin` (both 1-based) -/
def IsLineCol (src : Str) (q lin col : Nat) : Prop :=
  1 ≤ lin ∧ lin ≤ (getLineStarts src).length ∧ 1 ≤ col ∧
  (getLineStarts src).getD (lin - 1) 0 + (col - 1) = q ∧
  '\n' ∉ slice src ((getLineStarts src).getD (lin - 1) 0) q

/-- the line and column the text report prints (`textLineCol`) are the line and column of the offset -/
theorem isLineCol_textLineCol (src : Str) (q : Nat) :
    IsLineCol src q (textLineCol src q).1 (textLineCol src q).2 := by
  have ⟨a, b, c, d, e, _⟩ := linecol_roundtrip src q
  exact ⟨a, b, c, d, e⟩

/-- … and no other pair is -/
theorem isLineCol_unique (src : Str) (q lin col : Nat) (h : IsLineCol src q lin col) :
    (lin, col) = textLineCol src q := by
  have ⟨_, _, _, _, _, u⟩ := linecol_roundtrip src q
  obtain ⟨a, b, c, d, e⟩ := h
  exact u lin col a b c d e

/-! ### what the reports say about a word of the file -/

/-- All numbers of all reports for a match that is the source word `src[p … p+l)` (0-based offset
    `p`, length `l`), with `(lin, col)` = line and column of its first character and `(elin, ecol)`
    = line and column of its last character `p + l - 1` (all 1-based, `textLineCol`):
    * `offset`, `length` — JSON report and server answer: `p` and `l`;
    * `lin`, `col` — the text report prints `lin` and `col`; `first`: they ARE the line and column
      of the word's first character (`IsLineCol`), `last`: the same for the last character;
    * `json` — `priv` of the JSON report: begin `(lin-1, col-1)` (0-based), end `(elin-1, ecol)`
      (0-based line, column one past the last character); `xml`: XML carries the same numbers;
    * `xmlb` — `--output xml-b`: the same lines; the columns are the UTF-8 byte lengths of the line
      prefixes `src[starts[lin-1] : p]` and `src[starts[elin-1] : p+l]`. -/
structure WordReported (src : Str) (p l : Nat) (L : Located) : Prop where
  offset : L.offset = (p : Int)
  length : L.length = (l : Int)
  lin : L.lin = ((textLineCol src p).1 : Int)
  col : L.col = ((textLineCol src p).2 : Int)
  first : IsLineCol src p (textLineCol src p).1 (textLineCol src p).2
  last : IsLineCol src (p + l - 1) (textLineCol src (p + l - 1)).1 (textLineCol src (p + l - 1)).2
  json : L.json = { fromy := (((textLineCol src p).1 - 1 : Nat) : Int),
                    fromx := (((textLineCol src p).2 - 1 : Nat) : Int),
                    toy := (((textLineCol src (p + l - 1)).1 - 1 : Nat) : Int),
                    tox := ((textLineCol src (p + l - 1)).2 : Int) }
  xml : L.xml = L.json
  xmlb : L.xmlb = { fromy := (((textLineCol src p).1 - 1 : Nat) : Int),
                    fromx := (utf8Size (slice src ((getLineStarts src).getD ((textLineCol src p).1 - 1) 0) p) : Int),
                    toy := (((textLineCol src (p + l - 1)).1 - 1 : Nat) : Int),
                    tox := (utf8Size (slice src ((getLineStarts src).getD ((textLineCol src (p + l - 1)).1 - 1) 0) (p + l)) : Int) }

theorem priv_ext (a b : Priv) (h1 : a.fromy = b.fromy) (h2 : a.fromx = b.fromx) (h3 : a.toy = b.toy)
    (h4 : a.tox = b.tox) : a = b := by
  cases a; cases b; simp_all

theorem locate_word (src : Str) (p l : Nat) (hl : 1 ≤ l) (hp : p + l ≤ src.length) :
    WordReported src p l (locate src p l) := by
  have hj := jsonPriv_nat src p l hl
  have ⟨_, _, _, f4, f5, f6⟩ := formats_agree src p l
  have hb := xmlb_from src p l (by omega)
  have he := xmlb_to src p l (p + l - 1) (by omega) (by omega)
  have hs1 : (getLineStarts src).getD ((textLineCol src p).1 - 1) 0 = lastLineStart (src.take p) := by
    simp only [textLineCol, Nat.add_sub_cancel, lineIdx]; exact starts_eq_lastLineStart src p
  have hs2 : (getLineStarts src).getD ((textLineCol src (p + l - 1)).1 - 1) 0
      = lastLineStart (src.take (p + l - 1)) := by
    simp only [textLineCol, Nat.add_sub_cancel, lineIdx]; exact starts_eq_lastLineStart src (p + l - 1)
  have e1 : p + l - 1 + 1 = p + l := by omega
  refine ⟨rfl, rfl, ?_, ?_, isLineCol_textLineCol src p, isLineCol_textLineCol src (p + l - 1), ?_, ?_, ?_⟩
  · simp only [locate, textReport_nat]
  · simp only [locate, textReport_nat]
  · simp only [locate, hj, xmlFields, textLineCol, Nat.add_sub_cancel]
  · simp only [locate]; exact f4
  · have g1 := hb.1
    have g2 := he.1
    rw [e1] at g2
    simp only [locate]
    rw [hs1, hs2, ← g1, ← g2]
    have h5 : (xmlReport src true p l).fromy = (jsonPriv src p l).fromy := f5
    have h6 : (xmlReport src true p l).toy = (jsonPriv src p l).toy := f6
    have hy1 : (xmlReport src true p l).fromy = (((textLineCol src p).1 - 1 : Nat) : Int) := by
      rw [h5, hj]; simp only [xmlFields, textLineCol, Nat.add_sub_cancel]
    have hy2 : (xmlReport src true p l).toy = (((textLineCol src (p + l - 1)).1 - 1 : Nat) : Int) := by
      rw [h6, hj]; simp only [xmlFields, textLineCol, Nat.add_sub_cancel]
    exact priv_ext _ _ hy1 rfl hy2 rfl

/-! ### `map_match_position` and the reports on a run -/

/-- the macro-name extension `correct_mark_macroname` is the identity unless the match is one
    single backslash -/
theorem correctMark_word (p l : Nat) (src : Str) (h : ¬ (l = 1 ∧ src[p]? = some '\\')) :
    correctMarkMacroname (p : Int) (l : Int) src = (l : Int) := by
  by_cases h1 : l = 1
  · subst h1
    exact correctMark_not_backslash (p : Int) src (fun _ => by simpa using fun hx => h ⟨rfl, hx⟩)
  · exact correctMark_ne_one _ _ _ (by omega)

/-- **`map_match_position` on a run**: offset `p`, length `l` -/
theorem mapMatch_run (src : Str) (pos : List Nat) (pad : List Int) (o l p : Nat) (hl : 1 ≤ l)
    (hrun : RunAt pos o l (p + 1)) (hbs : ¬ (l = 1 ∧ src[p]? = some '\\')) :
    mapMatch (natMap pos ++ pad) src (o : Int) (some (.int l)) = .ok ((p : Int), (l : Int)) := by
  have ⟨hc, h0⟩ := contiguous_of_run pos pad o l (p + 1) hl hrun
  have := mapMatch_word (natMap pos ++ pad) src o l ((p + 1 : Nat) : Int) hl hc h0 (by omega)
  rw [this]
  have e : ((p + 1 : Nat) : Int) - 1 = (p : Int) := by omega
  rw [e, correctMark_word p l src hbs]

/-- **all reports on a run** -/
theorem reportAll_run (src : Str) (pos : List Nat) (pad : List Int) (o l p : Nat) (hl : 1 ≤ l)
    (hrun : RunAt pos o l (p + 1)) (hbs : ¬ (l = 1 ∧ src[p]? = some '\\')) :
    reportAll (natMap pos ++ pad) src (o : Int) (some (.int l)) = .ok (locate src p l) := by
  simp only [reportAll, mapMatch_run src pos pad o l p hl hrun hbs]

/-! ### the HTML highlight on a run -/

/-- **the HTML report on a run**: whenever `generate_html` accepts the match (`computeH`), the
    highlight is `src[p : p+l]`, a sure match, and its title names line `lin` (0-based `lin - 1`) -/
theorem computeH_run (T : Tables) (src : Str) (pos : List Nat) (pad : List Int) (idx o l p : Nat) (hl : 1 ≤ l)
    (hrun : RunAt pos o l (p + 1)) (hbs : ¬ (l = 1 ∧ src[p]? = some '\\')) (hpad : ∀ c ∈ pad, 0 ≤ c)
    (h : HData) (hh : computeH T src (natMap pos ++ pad) idx (o : Int) (l : Int) = .ok h) :
    h.beg = (p : Int) ∧ h.fin = p + l ∧ h.lin + 1 = (textLineCol src p).1 ∧ h.unsure = false ∧
    h.idx = idx := by
  have hm := mapMatch_run src pos pad o l p hl hrun hbs
  have ⟨a1, _, a3⟩ := html_agrees T src _ idx o l h _ hh hm
  have hsure : ∀ c ∈ natMap pos ++ pad, 0 ≤ c := by
    intro c hc
    rcases List.mem_append.mp hc with h1 | h1
    · simp only [natMap, List.mem_map] at h1
      obtain ⟨n, _, rfl⟩ := h1
      exact Int.natCast_nonneg n
    · exact hpad c h1
  have ⟨b1, b2⟩ := html_end_agrees T src _ idx o l h _ hh hm hsure (by omega) (by simp only; omega)
  simp only at a1 a3 b2
  rw [textReport_nat] at a3
  simp only at a3
  refine ⟨a1, by omega, by omega, b1, ?_⟩
  unfold computeH at hh
  simp only at hh
  split at hh
  · cases hh
  · split at hh
    · split at hh
      · cases hh
      · simp only [SOut.ok.injEq] at hh; subst hh; rfl
    · cases hh

theorem ite_some_some_ne {α} (b : Bool) (x : α) :
    (if b = true then some (some x) else none) ≠ some none := by
  cases b <;> simp

/-- `generate_html` accepts the match whenever a map entry follows the run (with the shell's two
    padding entries: always) and the word lies in the file -/
theorem computeH_run_ok (T : Tables) (src : Str) (pos : List Nat) (pad : List Int) (idx o l p : Nat) (hl : 1 ≤ l)
    (hrun : RunAt pos o l (p + 1)) (hnext : o + l < (natMap pos ++ pad).length) (hp : p < src.length) :
    ∃ h, computeH T src (natMap pos ++ pad) idx (o : Int) (l : Int) = .ok h := by
  have h0 := natMap_get pos pad o (p + 1) (by simpa using hrun.get 0 (by omega))
  have h1 := natMap_get pos pad (o + (l - 1)) (p + 1 + (l - 1)) (hrun.get (l - 1) (by omega))
  have e1 : (max (o : Int) ((o : Int) + max 1 (l : Int) - 1)).toNat = o + (l - 1) := by omega
  have hr : (decide ((o : Int) < 0) || decide ((o : Int) + max 1 (l : Int) < 0)
      || decide ((o : Int) ≥ ((natMap pos ++ pad).length : Int))
      || decide ((o : Int) + max 1 (l : Int) ≥ ((natMap pos ++ pad).length : Int))) = false := by
    simp only [Bool.or_eq_false_iff, decide_eq_false_iff_not]
    omega
  have hpi : Html.pyIndex src (iabs ((p + 1 : Nat) : Int) - 1) = some src[p] := by
    rw [iabs_pos _ (by omega)]
    have : ((p + 1 : Nat) : Int) - 1 = (p : Int) := by omega
    rw [this]
    simp [Html.pyIndex, hp]
  unfold computeH
  simp only [hr, Bool.false_eq_true, if_false, Int.toNat_natCast, h0, e1, h1, hpi]
  split
  · rename_i hc
    exact absurd hc (ite_some_some_ne _ _)
  · exact ⟨_, rfl⟩

/-- what the HTML report does with a match at plain offset `off`, length `l`, that is the source word
    `src[p … p+l)`: `generate_html` accepts it whenever a map entry follows the flagged stretch, and
    whenever it accepts it the highlighted text `tex[h.beg:h.end]` is the word, the match is "sure",
    and the title of the highlight names the line of the word -/
def HtmlWord (src : Str) (cm : List Int) (off l p : Nat) : Prop :=
  ∀ (T : Tables) (idx : Nat),
    (off + l < cm.length → ∃ h, computeH T src cm idx (off : Int) (l : Int) = .ok h) ∧
    ∀ h, computeH T src cm idx (off : Int) (l : Int) = .ok h →
      h.idx = idx ∧ h.beg = (p : Int) ∧ h.fin = p + l ∧ h.unsure = false ∧
      h.lin + 1 = (textLineCol src p).1 ∧
      slice src h.beg.toNat h.fin = (src.drop p).take l

theorem html_run (src : Str) (pos : List Nat) (pad : List Int) (off l p : Nat) (hl : 1 ≤ l)
    (hrun : RunAt pos off l (p + 1)) (hbs : ¬ (l = 1 ∧ src[p]? = some '\\')) (hp : p < src.length)
    (hpad : ∀ c ∈ pad, 0 ≤ c) : HtmlWord src (natMap pos ++ pad) off l p := by
  intro T idx
  refine ⟨fun hn => computeH_run_ok T src pos pad idx off l p hl hrun hn hp, ?_⟩
  intro h hh
  obtain ⟨a1, a2, a3, a4, a5⟩ := computeH_run T src pos pad idx off l p hl hrun hbs hpad h hh
  refine ⟨a5, a1, a2, a4, a3, ?_⟩
  rw [a1, a2]
  simp only [slice, Int.toNat_natCast, List.drop_take, Nat.add_sub_cancel_left]

/-! ### the shell's padding of the map (`run_proofreader_options`) -/

/-- the two entries the shell appends to the map for its delimiter `'\n\n'`: the last entry, twice -/
def shellPad (pos : List Nat) : List Int :=
  [((natMap pos).getLast?).getD 0, ((natMap pos).getLast?).getD 0]

/-- single-language mode, one part: what `run_proofreader_options` assembles from the filter's
    result and the proofreader's matches — text and map padded, offsets unchanged -/
theorem assemble_single (txt : Str) (pos : List Nat) (ms : List RawMatch) :
    assembleNB [({ plain := txt, charmap := natMap pos }, ms)] =
      { plainTot := txt ++ ['\n', '\n'], charmapTot := natMap pos ++ shellPad pos, hits := ms } := by
  simp [assembleNB, assembleStepNB, shellPad]

theorem shellPad_mem (pos : List Nat) (h : pos ≠ []) : ∀ c ∈ shellPad pos, c ∈ natMap pos ∧ 0 ≤ c := by
  intro c hc
  have hne : natMap pos ≠ [] := by simpa [natMap] using h
  have hl : ((natMap pos).getLast?).getD 0 ∈ natMap pos := by
    rw [List.getLast?_eq_some_getLast hne]; exact List.getLast_mem hne
  have hc' : c = ((natMap pos).getLast?).getD 0 := by simpa [shellPad] using hc
  rw [hc']
  refine ⟨hl, ?_⟩
  generalize ((natMap pos).getLast?).getD 0 = x at hl
  simp only [natMap, List.mem_map] at hl
  obtain ⟨n, _, hn⟩ := hl
  rw [← hn]; exact Int.natCast_nonneg n

/-! ### (C) the order of the reports -/

/-- after the shell's sort a match with the smaller key (mapped position) stands in front -/
theorem sorted_before (cmt : List Int) (ms out : List RawMatch) (h : sortMatches cmt ms = .ok out)
    (m1 m2 : RawMatch) (h1 : m1 ∈ ms) (h2 : m2 ∈ ms)
    (hk : iabs ((cmt[m1.offset.toNat]?).getD 0) < iabs ((cmt[m2.offset.toNat]?).getD 0)) :
    ∃ X Y Z, out = X ++ m1 :: (Y ++ m2 :: Z) := by
  obtain ⟨hperm, hpw, _⟩ := sortMatches_sorted cmt ms out h
  obtain ⟨X, R, rfl⟩ := List.append_of_mem ((hperm.mem_iff).mpr h1)
  have hm2 := (hperm.mem_iff).mpr h2
  rw [List.pairwise_append] at hpw
  obtain ⟨_, hR, hXR⟩ := hpw
  rcases List.mem_append.mp hm2 with hx | hx
  · have := hXR m2 hx m1 (List.mem_cons_self ..)
    omega
  · rcases List.mem_cons.mp hx with hx | hx
    · subst hx; omega
    · obtain ⟨Y, Z, rfl⟩ := List.append_of_mem hx
      exact ⟨X, Y, Z, rfl⟩

/-- **(C)** two flagged runs: the match whose word stands first in the file is reported first -/
theorem runs_sorted (pos : List Nat) (pad : List Int) (ms out : List RawMatch)
    (h : sortMatches (natMap pos ++ pad) ms = .ok out)
    (m1 m2 : RawMatch) (h1 : m1 ∈ ms) (h2 : m2 ∈ ms) (o1 l1 p1 o2 l2 p2 : Nat)
    (ho1 : m1.offset = (o1 : Int)) (ho2 : m2.offset = (o2 : Int)) (hl1 : 1 ≤ l1) (hl2 : 1 ≤ l2)
    (hr1 : RunAt pos o1 l1 (p1 + 1)) (hr2 : RunAt pos o2 l2 (p2 + 1)) (hlt : p1 < p2) :
    ∃ X Y Z, out = X ++ m1 :: (Y ++ m2 :: Z) := by
  apply sorted_before _ ms out h m1 m2 h1 h2
  have a1 := natMap_get pos pad o1 (p1 + 1) (by simpa using hr1.get 0 (by omega))
  have a2 := natMap_get pos pad o2 (p2 + 1) (by simpa using hr2.get 0 (by omega))
  rw [ho1, ho2]
  simp only [Int.toNat_natCast, a1, a2, Option.getD_some]
  rw [iabs_pos _ (by omega), iabs_pos _ (by omega)]
  omega

/-! ### (B) every location in the file -/

/-- every location of every report is a place of the file: first and last character of the
    reported match are characters of the text; the numbers are those the generators compute for
    the reported offset and length; text report, JSON, XML name existing lines and columns on
    them; XML-b the same lines and byte columns within the UTF-8 length of the line (`+ 1` for the
    end column: the line break); for a text that ends in a line break (what the shell hands over)
    never the empty "line" behind the last line break -/
def ReportInFile (tex : Str) (L : Located) : Prop :=
  InText tex L.offset ∧ InText tex (L.offset + L.length - 1) ∧ L = locate tex L.offset L.length ∧
  InFileLC tex L.lin L.col ∧
  InFileLC tex (L.json.fromy + 1) (L.json.fromx + 1) ∧ InFileLC tex (L.json.toy + 1) L.json.tox ∧
  L.xml = L.json ∧ L.xmlb.fromy = L.json.fromy ∧ L.xmlb.toy = L.json.toy ∧
  0 ≤ L.xmlb.fromx ∧ L.xmlb.fromx ≤ utf8Size (lineAt tex ((getLineStarts tex).getD L.json.fromy.toNat 0)) ∧
  0 ≤ L.xmlb.tox ∧ L.xmlb.tox ≤ utf8Size (lineAt tex ((getLineStarts tex).getD L.json.toy.toNat 0)) + 1 ∧
  (EndsNl tex → L.lin ≤ tex.count '\n' ∧ L.json.fromy + 1 ≤ tex.count '\n' ∧ L.json.toy + 1 ≤ tex.count '\n')

/-- with a C01 map and an integer length the pipeline `map_match_position` + generators answers,
    and everything it prints lies in the file -/
theorem reportAll_in_file (cm : List Int) (tex : Str) (offset len : Int)
    (hcm : ∀ p ∈ cm, 1 ≤ iabs p ∧ iabs p ≤ tex.length) (hne : cm ≠ []) :
    ∃ L, reportAll cm tex offset (some (.int len)) = .ok L ∧ ReportInFile tex L := by
  obtain ⟨r, hr⟩ := mapMatch_total cm tex offset len hne
  have hL : reportAll cm tex offset (some (.int len)) = .ok (locate tex r.1 r.2) := by
    simp only [reportAll, hr]
  refine ⟨_, hL, ?_⟩
  have ⟨a, b, c⟩ := mapped_report_in_file cm tex offset len _ hcm hL
  have rr := report_in_file tex (locate tex r.1 r.2).offset (locate tex r.1 r.2).length a b
  rw [← c] at rr
  exact ⟨a, b, c, rr⟩

/-- the map of a filter result that satisfies C01, padded with entries of its own -/
theorem natMap_c01 (n : Nat) (pos : List Nat) (pad : List Int) (h : ∀ p ∈ pos, 1 ≤ p ∧ p ≤ n)
    (hpad : ∀ c ∈ pad, c ∈ natMap pos) :
    ∀ c ∈ natMap pos ++ pad, 1 ≤ iabs c ∧ iabs c ≤ n := by
  have h1 : ∀ c ∈ natMap pos, 1 ≤ iabs c ∧ iabs c ≤ n := by
    intro c hc
    simp only [natMap, List.mem_map] at hc
    obtain ⟨q, hq, rfl⟩ := hc
    have := h q hq
    show 1 ≤ iabs (q : Int) ∧ iabs (q : Int) ≤ (n : Int)
    rw [iabs_pos _ (Int.natCast_nonneg q)]
    exact ⟨by show (1 : Int) ≤ (q : Int); omega, by show (q : Int) ≤ (n : Int); omega⟩
  intro c hc
  rcases List.mem_append.mp hc with hc | hc
  · exact h1 c hc
  · exact h1 c (hpad c hc)

/-- **(B)** for EVERY source text: whatever offset and integer length the proofreader sends for a
    non-empty plain text, `tex2txt` ∘ `map_match_position` ∘ generators answers, and every location
    it prints is a place of the file -/
theorem every_location_in_file (T : PTables) (hw : T.WFInv) (fuel : Nat) (src : Str) (o : Options)
    (thresh : Nat) (fs : FS) (r : T2TResult) (hr : tex2txt T fuel src o false thresh fs = .ok r)
    (hfor : r.foreign = false) (hunkn : o.unkn = false) (pad : List Int)
    (hpad : ∀ c ∈ pad, c ∈ natMap r.pos) (hne : r.txt ≠ []) (offset len : Int) :
    ∃ L, reportAll (natMap r.pos ++ pad) src offset (some (.int len)) = .ok L ∧ ReportInFile src L := by
  have h := tex2txt_inRange T hw fuel src o false thresh fs
  rw [hr] at h
  obtain ⟨hlen, hok, _⟩ := h
  obtain ⟨_, hrange⟩ := hok hfor hunkn
  apply reportAll_in_file _ _ _ _ (natMap_c01 src.length r.pos pad hrange hpad)
  intro he
  have : r.pos = [] := by
    have := congrArg List.length he
    simp [natMap] at this
    exact this.1
  rw [this] at hlen
  exact hne (List.eq_nil_of_length_eq_zero hlen)

/-- one match of the proofreader through the shell: the sort key function validates the offset
    (`tex2txt.fatal` otherwise), then `map_match_position` and the generators -/
def shellOne (cm : List Int) (src : Str) (offset len : Int) : SOut Located :=
  match sortMatches cm [{ offset := offset, rest := .null }] with
  | .ok _ => reportAll cm src offset (some (.int len))
  | .fatal => .fatal
  | .crash s => .crash s

/-- **(B), the dichotomy**: with a C01 map the shell either stops with its own error exit — exactly
    when the offset lies outside the (padded) plain text — or prints locations in the file; it
    never raises -/
theorem shellOne_dichotomy (cm : List Int) (src : Str) (offset len : Int)
    (hcm : ∀ p ∈ cm, 1 ≤ iabs p ∧ iabs p ≤ src.length) :
    ((offset < 0 ∨ offset ≥ cm.length) ∧ shellOne cm src offset len = .fatal) ∨
    ((0 ≤ offset ∧ offset < cm.length) ∧
      ∃ L, shellOne cm src offset len = .ok L ∧ ReportInFile src L) := by
  by_cases hb : offset < 0 ∨ offset ≥ cm.length
  · left
    refine ⟨hb, ?_⟩
    have : (decide (offset < 0) || decide (offset ≥ (cm.length : Int))) = true := by
      simpa using hb
    simp [shellOne, sortMatches, this]
  · right
    have hb' : 0 ≤ offset ∧ offset < cm.length := by omega
    refine ⟨hb', ?_⟩
    have : (decide (offset < 0) || decide (offset ≥ (cm.length : Int))) = false := by
      simp only [Bool.or_eq_false_iff, decide_eq_false_iff_not]; omega
    have hne : cm ≠ [] := by
      intro h; rw [h] at hb'; simp at hb'; omega
    obtain ⟨L, h1, h2⟩ := reportAll_in_file cm src offset len hcm hne
    refine ⟨L, ?_, h2⟩
    simp [shellOne, sortMatches, this, h1]

/-- **(B), composed with the filter**: for EVERY source text and ANY offset and integer length in
    the proofreader's answer, the shell (map padded as `run_proofreader_options` does it) either
    stops with its own error exit — exactly when the offset lies outside the padded plain text — or
    prints locations in the file -/
theorem shell_dichotomy_tex2txt (T : PTables) (hw : T.WFInv) (fuel : Nat) (src : Str) (o : Options)
    (thresh : Nat) (fs : FS) (r : T2TResult) (hr : tex2txt T fuel src o false thresh fs = .ok r)
    (hfor : r.foreign = false) (hunkn : o.unkn = false) (hne : r.txt ≠ []) (offset len : Int) :
    ((offset < 0 ∨ offset ≥ (r.txt.length : Int) + 2) ∧
      shellOne (natMap r.pos ++ shellPad r.pos) src offset len = .fatal) ∨
    ((0 ≤ offset ∧ offset < (r.txt.length : Int) + 2) ∧
      ∃ L, shellOne (natMap r.pos ++ shellPad r.pos) src offset len = .ok L ∧ ReportInFile src L) := by
  have h := tex2txt_inRange T hw fuel src o false thresh fs
  rw [hr] at h
  obtain ⟨hlen, hok, _⟩ := h
  obtain ⟨_, hrange⟩ := hok hfor hunkn
  have hpne : r.pos ≠ [] := by
    intro he; rw [he] at hlen; exact hne (List.eq_nil_of_length_eq_zero hlen)
  have hcm := natMap_c01 src.length r.pos (shellPad r.pos) hrange (fun c hc => (shellPad_mem r.pos hpne c hc).1)
  have hl : ((natMap r.pos ++ shellPad r.pos).length : Int) = (r.txt.length : Int) + 2 := by
    simp only [List.length_append, natMap, List.length_map, shellPad, List.length_cons, List.length_nil]
    omega
  have := shellOne_dichotomy (natMap r.pos ++ shellPad r.pos) src offset len hcm
  rw [hl] at this
  exact this

end SystemWord
end Yalafi
