/-
  Proofs/Utils.lean — lemmas about get_txt_pos, latex_error, line/column arithmetic,
  and the multi-language splitter.
-/
import YalafiVerif.Spec.Utils
namespace Yalafi

/-! ### get_txt_pos -/

theorem getTxtPos_length (ts : List Tok) : (getTxtPos ts).1.length = (getTxtPos ts).2.length := by
  sorry

theorem getTxtPos_append (a b : List Tok) :
    getTxtPos (a ++ b) = ((getTxtPos a).1 ++ (getTxtPos b).1, (getTxtPos a).2 ++ (getTxtPos b).2) := by
  sorry

/-- every emitted position is inside the source if every token is in range -/
theorem getTxtPos_range (n : Nat) (ts : List Tok) (h : ∀ t ∈ ts, t.txt ≠ [] → TokInRange n t) :
    ∀ p ∈ (getTxtPos ts).2, p < n := by
  sorry

/-- a non-fixed token contributes `(txt[i], pos+i)`, a fixed one `(txt[i], pos)` -/
theorem getTxtPos_single (t : Tok) :
    getTxtPos [t] = (t.txt, if t.fix then List.replicate t.txt.length t.pos
                             else (List.range t.txt.length).map (t.pos + ·)) := by
  sorry

/-! ### latex_error -/

/-- the mark is complete: the texts of the returned tokens concatenate to ' ' ++ mark ++ ' ' (…) -/
theorem latexErrorToks_text (T : Tables) (err : Str) (pos n : Nat) :
    (getTxtPos (latexErrorToks T err pos n)).1 = errMark T err := by
  sorry

/-- all mark tokens are fixed text tokens, the first one sits at `pos`, and for `pos < n`
    all are in range — also when the mark is longer than the rest of the text -/
theorem latexErrorToks_inv (T : Tables) (hm : T.mark ≠ []) (err : Str) (pos n : Nat) (hp : pos < n) :
    (∀ t ∈ latexErrorToks T err pos n, t.fix = true ∧ t.kind = .text ∧ t.pos < n) ∧
    (latexErrorToks T err pos n).head?.map (·.pos) = some pos ∧
    ∀ p ∈ (getTxtPos (latexErrorToks T err pos n)).2, p < n := by
  sorry

/-- when the mark fits, every character of it maps to `pos`; otherwise the overflow maps to
    the last position that is still inside the text -/
theorem latexErrorToks_positions (T : Tables) (err : Str) (pos n : Nat) (hp : pos < n) :
    ∀ p ∈ (getTxtPos (latexErrorToks T err pos n)).2, p = pos ∨ p = pos + (n - pos) - 1 := by
  sorry

/-! ### line / column of a diagnostic -/

/-- `(line, col)` is the unique pair with: `line - 1` line breaks before `pos`, the line
    starts at `lineStart`, and `pos = lineStart + col - 1` with no line break in between -/
theorem lineCol_correct (src : Str) (pos : Nat) (hp : pos ≤ src.length) :
    lineStart src pos ≤ pos ∧
    colOf src pos = pos - lineStart src pos + 1 ∧
    lineOf src pos = countNl (src.take pos) + 1 ∧
    countNl ((src.take pos).drop (lineStart src pos)) = 0 ∧
    (lineStart src pos = 0 ∨ src.getD (lineStart src pos - 1) ' ' = nl) := by
  sorry

/-! ### multi-language splitter -/

/-- sectioning conserves text and positions: the sections, in order, concatenate to
    `get_txt_pos` of the non-language tokens -/
theorem sections_conserve (toks : List Tok) (main : Str) :
    ((sections toks main).map (·.txt)).flatten = (getTxtPos (toks.filter (fun t => !isLangTok t))).1 ∧
    ((sections toks main).map (·.pos)).flatten = (getTxtPos (toks.filter (fun t => !isLangTok t))).2 := by
  sorry

/-- every section has text and positions of equal length and is non-empty -/
theorem sections_wf (toks : List Tok) (main : Str) :
    ∀ s ∈ sections toks main, s.txt.length = s.pos.length ∧ s.txt ≠ [] := by
  sorry

/-- the splitter never raises when the language-change table is usable -/
theorem getTxtPosML_total (toks : List Tok) (main : Str) (thresh : Nat) (lc : LangChange)
    (h : LangChangeOk lc) : (getTxtPosML toks main thresh lc).isSome = true := by
  sorry

/-- every part has equal lengths, and all its positions are positions of the token stream -/
theorem getTxtPosML_parts (toks : List Tok) (main : Str) (thresh : Nat) (lc lc' : LangChange) (parts : Parts)
    (h : getTxtPosML toks main thresh lc = some (parts, lc')) :
    ∀ tp ∈ allParts parts, tp.1.length = tp.2.length ∧
      ∀ p ∈ tp.2, p ∈ (getTxtPos (toks.filter (fun t => !isLangTok t))).2 := by
  sorry

/-- parts are grouped by language, each language once, in order of first appearance -/
theorem getTxtPosML_langs_nodup (toks : List Tok) (main : Str) (thresh : Nat) (lc lc' : LangChange) (parts : Parts)
    (h : getTxtPosML toks main thresh lc = some (parts, lc')) :
    (parts.map (·.1)).Nodup := by
  sorry

end Yalafi
