/-
  Proofs/Utils.lean — lemmas about get_txt_pos, latex_error, line/column arithmetic,
  and the multi-language splitter.
-/
import YalafiVerif.Spec.Utils
namespace Yalafi

/-! ### get_txt_pos -/

theorem tokPositions_length (t : Tok) : (tokPositions t).length = t.txt.length := by
  unfold tokPositions; split <;> simp

theorem getTxtPos_length (ts : List Tok) : (getTxtPos ts).1.length = (getTxtPos ts).2.length := by
  induction ts with
  | nil => simp [getTxtPos]
  | cons t ts ih => simp [getTxtPos, tokPositions_length, ih]

theorem getTxtPos_append (a b : List Tok) :
    getTxtPos (a ++ b) = ((getTxtPos a).1 ++ (getTxtPos b).1, (getTxtPos a).2 ++ (getTxtPos b).2) := by
  induction a with
  | nil => simp [getTxtPos]
  | cons t ts ih => simp [getTxtPos, ih]

theorem tokPositions_range (n : Nat) (t : Tok) (h : t.txt ≠ [] → TokInRange n t) :
    ∀ p ∈ tokPositions t, p < n := by
  intro p hp
  unfold tokPositions at hp
  by_cases he : t.txt = []
  · simp [he] at hp
  · have := h he
    unfold TokInRange at this
    split at hp
    · simp at hp; omega
    · simp at hp
      obtain ⟨a, ha, rfl⟩ := hp
      have := this.2 (by simpa using ‹¬ t.fix = true›)
      omega

/-- every emitted position is inside the source if every token is in range -/
theorem getTxtPos_range (n : Nat) (ts : List Tok) (h : ∀ t ∈ ts, t.txt ≠ [] → TokInRange n t) :
    ∀ p ∈ (getTxtPos ts).2, p < n := by
  induction ts with
  | nil => simp [getTxtPos]
  | cons t ts ih =>
    intro p hp
    simp only [getTxtPos, List.mem_append] at hp
    rcases hp with hp | hp
    · exact tokPositions_range n t (h t (by simp)) p hp
    · exact ih (fun t ht => h t (by simp [ht])) p hp

/-- a non-fixed token contributes `(txt[i], pos+i)`, a fixed one `(txt[i], pos)` -/
theorem getTxtPos_single (t : Tok) :
    getTxtPos [t] = (t.txt, if t.fix then List.replicate t.txt.length t.pos
                             else (List.range t.txt.length).map (t.pos + ·)) := by
  simp [getTxtPos, tokPositions]

/-! ### latex_error -/

/-- the mark is complete: the texts of the returned tokens concatenate to ' ' ++ mark ++ ' ' (…) -/
theorem latexErrorToks_text (T : Tables) (err : Str) (pos n : Nat) :
    (getTxtPos (latexErrorToks T err pos n)).1 = errMark T err := by
  unfold latexErrorToks
  simp only []
  split
  · simp [getTxtPos, List.take_append_drop]
  · rename_i h
    simp only [getTxtPos, List.append_nil]
    apply List.take_of_length_le
    omega

theorem errMark_length_pos (T : Tables) (err : Str) : 2 ≤ (errMark T err).length := by
  simp [errMark]; omega

/-- all mark tokens are fixed text tokens, the first one sits at `pos`, and for `pos < n`
    all are in range — also when the mark is longer than the rest of the text -/
theorem latexErrorToks_inv (T : Tables) (hm : T.mark ≠ []) (err : Str) (pos n : Nat) (hp : pos < n) :
    (∀ t ∈ latexErrorToks T err pos n, t.fix = true ∧ t.kind = .text ∧ t.pos < n) ∧
    (latexErrorToks T err pos n).head?.map (·.pos) = some pos ∧
    ∀ p ∈ (getTxtPos (latexErrorToks T err pos n)).2, p < n := by
  have hl := errMark_length_pos T err
  have _ := hm
  unfold latexErrorToks
  simp only []
  split
  · refine ⟨?_, by simp, ?_⟩
    · intro t ht
      simp at ht
      rcases ht with rfl | rfl <;> simp <;> omega
    · intro p hp'
      simp [getTxtPos, tokPositions] at hp'
      omega
  · refine ⟨?_, by simp, ?_⟩
    · intro t ht
      simp at ht
      subst ht; simp; omega
    · intro p hp'
      simp [getTxtPos, tokPositions] at hp'
      omega

/-- when the mark fits, every character of it maps to `pos`; otherwise the overflow maps to
    the last position that is still inside the text -/
theorem latexErrorToks_positions (T : Tables) (err : Str) (pos n : Nat) (hp : pos < n) :
    ∀ p ∈ (getTxtPos (latexErrorToks T err pos n)).2, p = pos ∨ p = pos + (n - pos) - 1 := by
  unfold latexErrorToks
  simp only []
  split
  · intro p hp'
    simp [getTxtPos, tokPositions] at hp'
    omega
  · intro p hp'
    simp [getTxtPos, tokPositions] at hp'
    omega

/-! ### line / column of a diagnostic -/

theorem idxOf_le (f : Char → Bool) (l : Str) : idxOf f l ≤ l.length := by
  induction l with
  | nil => simp [idxOf]
  | cons c cs ih => simp only [idxOf]; split <;> simp; omega

theorem idxOf_lt_of_any (f : Char → Bool) (l : Str) (h : l.any f = true) :
    idxOf f l < l.length := by
  induction l with
  | nil => simp at h
  | cons c cs ih =>
    simp only [idxOf]; split
    · simp
    · rename_i hc
      simp only [List.any_cons, hc, Bool.false_or] at h
      have := ih h
      simp; omega

theorem idxOf_get (f : Char → Bool) (l : Str) (h : idxOf f l < l.length) :
    f (l[idxOf f l]) = true := by
  induction l with
  | nil => simp at h
  | cons c cs ih =>
    simp only [idxOf] at h ⊢
    split
    · simpa
    · rename_i hc
      simp only [hc] at h
      simp only [List.getElem_cons_succ]
      exact ih (by simpa using h)

theorem idxOf_take_not (f : Char → Bool) (l : Str) : ∀ x ∈ l.take (idxOf f l), f x = false := by
  induction l with
  | nil => simp
  | cons c cs ih =>
    simp only [idxOf]; split
    · simp
    · rename_i hc
      intro x hx
      simp only [List.take_succ_cons, List.mem_cons] at hx
      rcases hx with rfl | hx
      · simpa using hc
      · exact ih x hx

theorem rfindNl_spec (s : Str) : match rfindNl s with
    | some i => i < s.length ∧ s[i]? = some nl ∧ countNl (s.drop (i+1)) = 0
    | none => countNl s = 0 := by
  unfold rfindNl
  by_cases h : hasNl s = true
  · simp only [h, if_true]
    have hany : s.reverse.any (· == nl) = true := by
      simp [hasNl] at h; simpa using h
    have hk := idxOf_lt_of_any _ _ hany
    have hg := idxOf_get _ _ hk
    have ht := idxOf_take_not (· == nl) s.reverse
    generalize idxOf (· == nl) s.reverse = k at hk hg ht
    simp only [List.length_reverse] at hk
    refine ⟨by omega, ?_, ?_⟩
    · rw [List.getElem_reverse] at hg
      simp at hg
      rw [List.getElem?_eq_getElem (by omega)]
      simp [hg]
    · have e : s.length - 1 - k + 1 = s.length - k := by omega
      rw [e]
      rw [List.take_reverse] at ht
      simp only [countNl]
      apply List.count_eq_zero.2
      intro hm
      have := ht nl (by simpa using hm)
      simp at this
  · simp only [h]
    simp [hasNl] at h
    simp [countNl, List.count_eq_zero.2 h]

/-- `(line, col)` is the unique pair with: `line - 1` line breaks before `pos`, the line
    starts at `lineStart`, and `pos = lineStart + col - 1` with no line break in between -/
theorem lineCol_correct (src : Str) (pos : Nat) (hp : pos ≤ src.length) :
    lineStart src pos ≤ pos ∧
    colOf src pos = pos - lineStart src pos + 1 ∧
    lineOf src pos = countNl (src.take pos) + 1 ∧
    countNl ((src.take pos).drop (lineStart src pos)) = 0 ∧
    (lineStart src pos = 0 ∨ src.getD (lineStart src pos - 1) ' ' = nl) := by
  refine ⟨?_, rfl, rfl, ?_⟩
  all_goals
    have hs := rfindNl_spec (src.take pos)
    have hl : (src.take pos).length = pos := by simp [hp]
    unfold lineStart
    split at hs
    · rename_i i hi
      simp only [hi]
      obtain ⟨h1, h2, h3⟩ := hs
      first
      | omega
      | refine ⟨h3, Or.inr ?_⟩
        rw [List.getElem?_take_of_lt (by omega)] at h2
        simp [List.getD_eq_getElem?_getD, h2]
    · rename_i hi
      simp only [hi]
      first
      | omega
      | simpa using hs

/-! ### multi-language splitter -/

theorem closeSec_txt (s : SecState) :
    ((closeSec s).map (·.txt)).flatten = (s.secs.map (·.txt)).flatten ++ (getTxtPos s.cur).1 := by
  unfold closeSec
  simp only []
  split
  · rename_i h
    simp at h
    simp [h]
  · simp

theorem closeSec_pos (s : SecState) :
    ((closeSec s).map (·.pos)).flatten = (s.secs.map (·.pos)).flatten ++ (getTxtPos s.cur).2 := by
  unfold closeSec
  simp only []
  split
  · rename_i h
    simp at h
    have := getTxtPos_length s.cur
    rw [h] at this
    have h2 : (getTxtPos s.cur).2 = [] := by
      apply List.eq_nil_of_length_eq_zero; simpa using this.symm
    simp [h2]
  · simp

theorem filter_nonlang_cons_lang (t : Tok) (ts : List Tok) (h : isLangTok t = true) :
    (t :: ts).filter (fun t => !isLangTok t) = ts.filter (fun t => !isLangTok t) := by
  simp [h]

/-- a language token either leaves `cur`/`secs` alone or closes the current section -/
theorem secStep_lang_cases (s : SecState) (t : Tok) (l : Str) (back hard brk : Bool)
    (hk : t.kind = .lang l back hard brk) :
    ((secStep s t).secs = s.secs ∧ (secStep s t).cur = s.cur) ∨
    ((secStep s t).secs = closeSec s ∧ (secStep s t).cur = []) := by
  unfold secStep
  rw [hk]
  simp only []
  repeat' split
  all_goals first | exact Or.inl ⟨rfl, rfl⟩ | exact Or.inr ⟨rfl, rfl⟩

theorem secStep_nonlang (s : SecState) (t : Tok) (hk : ∀ l b h k, t.kind ≠ .lang l b h k) :
    secStep s t = { s with cur := s.cur ++ [t] } := by
  unfold secStep
  split
  · rename_i l b h k hk'; exact absurd hk' (hk l b h k)
  · rfl

theorem sections_conserve_gen (toks : List Tok) (s : SecState) :
    ((closeSec (toks.foldl secStep s)).map (·.txt)).flatten =
      (s.secs.map (·.txt)).flatten ++ (getTxtPos s.cur).1 ++
        (getTxtPos (toks.filter (fun t => !isLangTok t))).1 ∧
    ((closeSec (toks.foldl secStep s)).map (·.pos)).flatten =
      (s.secs.map (·.pos)).flatten ++ (getTxtPos s.cur).2 ++
        (getTxtPos (toks.filter (fun t => !isLangTok t))).2 := by
  induction toks generalizing s with
  | nil => simp [closeSec_txt, closeSec_pos, getTxtPos]
  | cons t ts ih =>
    simp only [List.foldl_cons]
    have := ih (secStep s t)
    rw [this.1, this.2]
    by_cases hk : ∃ l b h k, t.kind = .lang l b h k
    · obtain ⟨l, back, hard, brk, hk⟩ := hk
      have hl : isLangTok t = true := by simp [isLangTok, hk]
      rw [filter_nonlang_cons_lang t ts hl]
      rcases secStep_lang_cases s t l back hard brk hk with ⟨h1, h2⟩ | ⟨h1, h2⟩
      · rw [h1, h2]; exact ⟨rfl, rfl⟩
      · rw [h1, h2]; simp [closeSec_txt, closeSec_pos, getTxtPos]
    · have hk' : ∀ l b h k, t.kind ≠ .lang l b h k := by
        intro l b h k e; exact hk ⟨l, b, h, k, e⟩
      have hl : isLangTok t = false := by
        unfold isLangTok; split
        · rename_i l b h k hk''; exact absurd hk'' (hk' l b h k)
        · rfl
      rw [secStep_nonlang s t hk']
      simp [hl, getTxtPos_append, getTxtPos]

/-- sectioning conserves text and positions: the sections, in order, concatenate to
    `get_txt_pos` of the non-language tokens -/
theorem sections_conserve (toks : List Tok) (main : Str) :
    ((sections toks main).map (·.txt)).flatten = (getTxtPos (toks.filter (fun t => !isLangTok t))).1 ∧
    ((sections toks main).map (·.pos)).flatten = (getTxtPos (toks.filter (fun t => !isLangTok t))).2 := by
  unfold sections
  have := sections_conserve_gen toks { stack := [main], swBack := false, swBrk := false, cur := [], secs := [] }
  simpa [getTxtPos] using this

def SecWF (s : Sec) : Prop := s.txt.length = s.pos.length ∧ s.txt ≠ []

theorem closeSec_wf (s : SecState) (h : ∀ x ∈ s.secs, SecWF x) : ∀ x ∈ closeSec s, SecWF x := by
  unfold closeSec
  simp only []
  split
  · exact h
  · rename_i hne
    intro x hx
    simp only [List.mem_append, List.mem_singleton] at hx
    rcases hx with hx | rfl
    · exact h x hx
    · exact ⟨getTxtPos_length _, by simpa using hne⟩

theorem secStep_wf (s : SecState) (t : Tok) (h : ∀ x ∈ s.secs, SecWF x) :
    ∀ x ∈ (secStep s t).secs, SecWF x := by
  by_cases hk : ∃ l b h k, t.kind = .lang l b h k
  · obtain ⟨l, back, hard, brk, hk⟩ := hk
    rcases secStep_lang_cases s t l back hard brk hk with ⟨h1, _⟩ | ⟨h1, _⟩
    · rw [h1]; exact h
    · rw [h1]; exact closeSec_wf s h
  · rw [secStep_nonlang s t (fun l b h k e => hk ⟨l, b, h, k, e⟩)]
    exact h

theorem foldl_secStep_wf (toks : List Tok) (s : SecState) (h : ∀ x ∈ s.secs, SecWF x) :
    ∀ x ∈ (toks.foldl secStep s).secs, SecWF x := by
  induction toks generalizing s with
  | nil => exact h
  | cons t ts ih => exact ih _ (secStep_wf s t h)

/-- every section has text and positions of equal length and is non-empty -/
theorem sections_wf (toks : List Tok) (main : Str) :
    ∀ s ∈ sections toks main, s.txt.length = s.pos.length ∧ s.txt ≠ [] := by
  unfold sections
  apply closeSec_wf
  apply foldl_secStep_wf
  simp

def SecGood (P : List Nat) (s : Sec) : Prop :=
  s.txt.length = s.pos.length ∧ s.txt ≠ [] ∧ ∀ p ∈ s.pos, p ∈ P

theorem appendPlaceholder_good (P : List Nat) (lc lc' : LangChange) (sec incl sec' : Sec)
    (hs : SecGood P sec) (hi : SecGood P incl)
    (h : appendPlaceholder lc sec incl = some (sec', lc')) : SecGood P sec' ∧ sec'.lang = sec.lang := by
  obtain ⟨hs1, hs2, hs3⟩ := hs
  obtain ⟨hi1, hi2, hi3⟩ := hi
  unfold appendPlaceholder at h
  split at h
  · simp only [Option.some.injEq, Prod.mk.injEq] at h
    obtain ⟨rfl, rfl⟩ := h
    refine ⟨⟨by simp [hs1, hi1], by simp [hs2], ?_⟩, rfl⟩
    intro p hp
    simp only [List.mem_append] at hp
    rcases hp with hp | hp
    · exact hs3 p hp
    · exact hi3 p hp
  · simp only [] at h
    split at h
    · simp at h
    · split at h
      · simp at h
      · split at h
        · rename_i p c0 cl p0 pl hp hc0 hcl hp0 hpl
          simp only [Option.some.injEq, Prod.mk.injEq] at h
          obtain ⟨rfl, rfl⟩ := h
          have mp : p ∈ P := hi3 p (List.mem_of_getElem? hp)
          have mp0 : p0 ∈ P := hi3 p0 (List.mem_of_head? hp0)
          have mpl : pl ∈ P := hi3 pl (List.mem_of_getLast? hpl)
          refine ⟨⟨?_, by simp [hs2], ?_⟩, rfl⟩
          · simp only [List.length_append, List.length_replicate, hs1]
            split <;> split <;> simp
          · intro q hq
            simp only [List.mem_append, List.mem_replicate] at hq
            rcases hq with ((hq | hq) | hq) | hq
            · exact hs3 q hq
            · split at hq <;> simp at hq; subst hq; exact mp0
            · rw [hq.2]; exact mp
            · split at hq <;> simp at hq; subst hq; exact mpl
        · simp at h

theorem rotate_ne_nil (l : List Str) (h : l ≠ []) : rotate l ≠ [] := by
  cases l with
  | nil => exact absurd rfl h
  | cons a as => simp [rotate]

theorem lcSet_keys (lc : LangChange) (k : Str) (v : List Str) :
    (lcSet lc k v).map (·.1) = lc.map (·.1) := by
  unfold lcSet
  rw [List.map_map]
  apply List.map_congr_left
  intro e _
  simp only [Function.comp]
  split
  · rename_i h; simp at h; simp [h]
  · rfl

theorem lcSet_ok (lc : LangChange) (k : Str) (v : List Str) (hv : v ≠ []) (h : LangChangeOk lc) :
    LangChangeOk (lcSet lc k v) := by
  refine ⟨?_, ?_⟩
  · intro e he
    unfold lcSet at he
    simp only [List.mem_map] at he
    obtain ⟨e0, he0, rfl⟩ := he
    split
    · exact hv
    · exact h.1 e0 he0
  · rw [lcSet_keys]; exact h.2

theorem checkParserLang_mem (known : List Str) (lang : Str) (h : "en".toList ∈ known) :
    checkParserLang known lang ∈ known := by
  unfold checkParserLang
  simp only []
  split
  · rename_i hc; simpa using hc
  · exact h

theorem lcGet_some (lc : LangChange) (k : Str) (hk : k ∈ lc.map (·.1)) (h : ∀ e ∈ lc, e.2 ≠ []) :
    ∃ v, lcGet lc k = some v ∧ v ≠ [] := by
  unfold lcGet
  cases hf : lc.find? (·.1 == k) with
  | none =>
    simp only [List.find?_eq_none] at hf
    simp only [List.mem_map] at hk
    obtain ⟨e, he, rfl⟩ := hk
    exact absurd (by simp) (hf e he)
  | some e =>
    exact ⟨e.2, rfl, h e (List.mem_of_find?_eq_some hf)⟩

theorem idxOf_lt_of_not_blank (s : Str) (h : isBlank s = false) :
    idxOf (fun c => !isSpace c) s < s.length := by
  apply idxOf_lt_of_any
  unfold isBlank at h
  rw [← Bool.not_eq_true, List.all_eq_true] at h
  simp only [List.any_eq_true]
  simp at h
  obtain ⟨x, hx, hx2⟩ := h
  exact ⟨x, hx, by simp [hx2]⟩

theorem appendPlaceholder_some (P : List Nat) (lc : LangChange) (hlc : LangChangeOk lc) (sec incl : Sec)
    (hi : SecGood P incl) :
    ∃ sec' lc', appendPlaceholder lc sec incl = some (sec', lc') ∧ LangChangeOk lc' := by
  obtain ⟨hi1, hi2, hi3⟩ := hi
  unfold appendPlaceholder
  split
  · exact ⟨_, _, rfl, hlc⟩
  · rename_i hb
    simp only []
    have hk := checkParserLang_mem (lc.map (·.1)) sec.lang hlc.2
    obtain ⟨v, hv, hvne⟩ := lcGet_some lc _ hk hlc.1
    rw [hv]
    simp only []
    have hr := rotate_ne_nil v hvne
    obtain ⟨r0, hr0⟩ : ∃ r0, (rotate v).head? = some r0 := by
      cases hrv : rotate v with
      | nil => exact absurd hrv hr
      | cons a as => exact ⟨a, rfl⟩
    rw [hr0]
    simp only []
    have hst := idxOf_lt_of_not_blank incl.txt (by simpa using hb)
    rw [hi1] at hst
    have hpne : incl.pos ≠ [] := by
      intro h0; rw [h0] at hst; simp at hst
    rw [List.getElem?_eq_getElem hst, List.head?_eq_some_head hi2, List.getLast?_eq_some_getLast hi2,
      List.head?_eq_some_head hpne, List.getLast?_eq_some_getLast hpne]
    exact ⟨_, _, rfl, lcSet_ok _ _ _ hr hlc⟩

theorem SecGood_merge (P : List Nat) (a b : Sec) (ha : SecGood P a) (hb : SecGood P b) :
    SecGood P { a with txt := a.txt ++ b.txt, pos := a.pos ++ b.pos } := by
  obtain ⟨a1, a2, a3⟩ := ha
  obtain ⟨b1, b2, b3⟩ := hb
  refine ⟨by simp [a1, b1], by simp [a2], ?_⟩
  intro p hp
  simp only [List.mem_append] at hp
  rcases hp with hp | hp
  · exact a3 p hp
  · exact b3 p hp

theorem forall_mem_snoc {α} {Q : α → Prop} {l : List α} {a : α} (hl : ∀ x ∈ l, Q x) (ha : Q a) :
    ∀ x ∈ l ++ [a], Q x := by
  intro x hx
  simp only [List.mem_append, List.mem_singleton] at hx
  rcases hx with hx | rfl
  · exact hl x hx
  · exact ha

theorem joinLoop_nil (t f : Nat) (lc : LangChange) (out : List Sec) :
    joinLoop t f lc [] out = some (out, lc) := by
  cases f <;> rfl

theorem joinLoop_one (t f : Nat) (lc : LangChange) (s0 : Sec) (out : List Sec) :
    joinLoop t (f+1) lc [s0] out = some (out ++ [s0], lc) := by
  rw [joinLoop, joinLoop_nil]

def joinCond (t : Nat) (s0 s1 : Sec) (rest2 : List Sec) : Bool :=
  !s1.brk && !s1.back
    && (match rest2 with | [] => true | s2 :: _ => s0.lang == s2.lang)
    && checkLangSection t s1

theorem joinLoop_cons2 (t f : Nat) (lc : LangChange) (s0 s1 : Sec) (rest2 out : List Sec) :
    joinLoop t (f+1) lc (s0 :: s1 :: rest2) out =
      if joinCond t s0 s1 rest2 then
        match appendPlaceholder lc s0 s1 with
        | none => none
        | some (s0', lc') =>
          match rest2 with
          | [] => joinLoop t f lc' [s0'] (out ++ [s1])
          | s2 :: rest3 =>
            joinLoop t f lc' ({ s0' with txt := s0'.txt ++ s2.txt, pos := s0'.pos ++ s2.pos } :: rest3) (out ++ [s1])
      else joinLoop t f lc (s1 :: rest2) (out ++ [s0]) := by
  rfl

theorem joinLoop_good (P : List Nat) (thresh fuel : Nat) (lc : LangChange) (work out : List Sec)
    (hw : ∀ s ∈ work, SecGood P s) (ho : ∀ s ∈ out, SecGood P s)
    (res : List Sec) (lc' : LangChange) (h : joinLoop thresh fuel lc work out = some (res, lc')) :
    ∀ s ∈ res, SecGood P s := by
  induction fuel generalizing lc work out with
  | zero =>
    cases work with
    | nil => simp [joinLoop] at h; rw [← h.1]; exact ho
    | cons s0 rest => simp [joinLoop] at h
  | succ fuel ih =>
    cases work with
    | nil => simp [joinLoop] at h; rw [← h.1]; exact ho
    | cons s0 rest =>
      have h0 : SecGood P s0 := hw s0 (by simp)
      cases rest with
      | nil =>
        rw [joinLoop_one] at h
        simp only [Option.some.injEq, Prod.mk.injEq] at h
        rw [← h.1]
        exact forall_mem_snoc ho h0
      | cons s1 rest2 =>
        have h1 : SecGood P s1 := hw s1 (by simp)
        rw [joinLoop_cons2] at h
        by_cases hc : joinCond thresh s0 s1 rest2 = true
        · rw [if_pos hc] at h
          cases hap : appendPlaceholder lc s0 s1 with
          | none => rw [hap] at h; simp at h
          | some r =>
            obtain ⟨s0', lc1⟩ := r
            rw [hap] at h
            simp only [] at h
            have hg := (appendPlaceholder_good P lc lc1 s0 s1 s0' h0 h1 hap).1
            cases rest2 with
            | nil =>
              simp only [] at h
              refine ih lc1 [s0'] _ ?_ (forall_mem_snoc ho h1) h
              intro s hs; simp at hs; subst hs; exact hg
            | cons s2 rest3 =>
              simp only [] at h
              have h2 : SecGood P s2 := hw s2 (by simp)
              refine ih lc1 _ _ ?_ (forall_mem_snoc ho h1) h
              intro s hs
              simp only [List.mem_cons] at hs
              rcases hs with rfl | hs
              · exact SecGood_merge P s0' s2 hg h2
              · exact hw s (by simp [hs])
        · rw [if_neg hc] at h
          refine ih lc _ _ ?_ (forall_mem_snoc ho h0) h
          intro s hs; exact hw s (by simp [hs])

theorem joinLoop_total (P : List Nat) (thresh fuel : Nat) (lc : LangChange) (work out : List Sec)
    (hlc : LangChangeOk lc) (hw : ∀ s ∈ work, SecGood P s) (hf : work.length ≤ fuel) :
    (joinLoop thresh fuel lc work out).isSome = true := by
  induction fuel generalizing lc work out with
  | zero =>
    cases work with
    | nil => simp [joinLoop]
    | cons s0 rest => simp at hf
  | succ fuel ih =>
    cases work with
    | nil => simp [joinLoop]
    | cons s0 rest =>
      have h0 : SecGood P s0 := hw s0 (by simp)
      cases rest with
      | nil => rw [joinLoop_one]; rfl
      | cons s1 rest2 =>
        have h1 : SecGood P s1 := hw s1 (by simp)
        rw [joinLoop_cons2]
        by_cases hc : joinCond thresh s0 s1 rest2 = true
        · rw [if_pos hc]
          obtain ⟨s0', lc1, hap, hlc1⟩ := appendPlaceholder_some P lc hlc s0 s1 h1
          have hg := (appendPlaceholder_good P lc lc1 s0 s1 s0' h0 h1 hap).1
          rw [hap]
          simp only []
          cases rest2 with
          | nil =>
            simp only []
            refine ih lc1 [s0'] _ hlc1 ?_ (by simp only [List.length_cons, List.length_nil] at hf ⊢; omega)
            intro s hs; simp at hs; subst hs; exact hg
          | cons s2 rest3 =>
            simp only []
            have h2 : SecGood P s2 := hw s2 (by simp)
            refine ih lc1 _ _ hlc1 ?_ (by simp only [List.length_cons] at hf ⊢; omega)
            intro s hs
            simp only [List.mem_cons] at hs
            rcases hs with rfl | hs
            · exact SecGood_merge P s0' s2 hg h2
            · exact hw s (by simp [hs])
        · rw [if_neg hc]
          refine ih lc _ _ hlc ?_ (by simp only [List.length_cons] at hf ⊢; omega)
          intro s hs; exact hw s (by simp [hs])

theorem mem_allParts (p : Parts) (tp : Str × List Nat) :
    tp ∈ allParts p ↔ ∃ e ∈ p, tp ∈ e.2 := by
  simp [allParts, List.mem_flatten]
  constructor
  · rintro ⟨l, ⟨a, h1⟩, h2⟩; exact ⟨a, l, h1, h2⟩
  · rintro ⟨a, l, h1, h2⟩; exact ⟨l, ⟨a, h1⟩, h2⟩

theorem groupParts_mem (ss : List Sec) (acc : Parts) :
    ∀ tp ∈ allParts (groupParts ss acc), tp ∈ allParts acc ∨ ∃ s ∈ ss, tp = (s.txt, s.pos) := by
  induction ss generalizing acc with
  | nil => intro tp h; exact Or.inl h
  | cons s ss ih =>
    intro tp h
    unfold groupParts at h
    split at h
    · rcases ih _ tp h with h' | ⟨s', hs', e⟩
      · rw [mem_allParts] at h'
        obtain ⟨e, he, hte⟩ := h'
        simp only [List.mem_map] at he
        obtain ⟨e0, he0, rfl⟩ := he
        split at hte
        · simp only [List.mem_append, List.mem_singleton] at hte
          rcases hte with hte | rfl
          · exact Or.inl ((mem_allParts _ _).2 ⟨e0, he0, hte⟩)
          · exact Or.inr ⟨s, by simp, rfl⟩
        · exact Or.inl ((mem_allParts _ _).2 ⟨e0, he0, hte⟩)
      · exact Or.inr ⟨s', by simp [hs'], e⟩
    · rcases ih _ tp h with h' | ⟨s', hs', e⟩
      · rw [mem_allParts] at h'
        obtain ⟨e, he, hte⟩ := h'
        simp only [List.mem_append, List.mem_singleton] at he
        rcases he with he | rfl
        · exact Or.inl ((mem_allParts _ _).2 ⟨e, he, hte⟩)
        · simp only [List.mem_singleton] at hte
          exact Or.inr ⟨s, by simp, hte⟩
      · exact Or.inr ⟨s', by simp [hs'], e⟩

theorem groupParts_nodup (ss : List Sec) (acc : Parts) (h : (acc.map (·.1)).Nodup) :
    ((groupParts ss acc).map (·.1)).Nodup := by
  induction ss generalizing acc with
  | nil => exact h
  | cons s ss ih =>
    unfold groupParts
    split
    · apply ih
      have : (acc.map (fun e => if e.1 == s.lang then (e.1, e.2 ++ [(s.txt, s.pos)]) else e)).map (·.1)
          = acc.map (·.1) := by
        rw [List.map_map]
        apply List.map_congr_left
        intro e _
        simp only [Function.comp]
        split <;> rfl
      rw [this]; exact h
    · rename_i hn
      apply ih
      simp only [List.map_append, List.map_cons, List.map_nil]
      rw [List.nodup_append]
      refine ⟨h, by simp, ?_⟩
      intro a ha b hb
      simp only [List.mem_singleton] at hb
      subst hb
      intro hab
      subst hab
      apply hn
      simp only [List.mem_map] at ha
      obtain ⟨e, he, hee⟩ := ha
      simp only [List.any_eq_true]
      exact ⟨e, he, by simp [hee]⟩

theorem sections_good (toks : List Tok) (main : Str) :
    ∀ s ∈ sections toks main, SecGood (getTxtPos (toks.filter (fun t => !isLangTok t))).2 s := by
  intro s hs
  have hw := sections_wf toks main s hs
  refine ⟨hw.1, hw.2, ?_⟩
  intro p hp
  rw [← (sections_conserve toks main).2]
  simp only [List.mem_flatten, List.mem_map]
  exact ⟨s.pos, ⟨s, hs, rfl⟩, hp⟩

/-- the splitter never raises when the language-change table is usable -/
theorem getTxtPosML_total (toks : List Tok) (main : Str) (thresh : Nat) (lc : LangChange)
    (h : LangChangeOk lc) : (getTxtPosML toks main thresh lc).isSome = true := by
  unfold getTxtPosML
  simp only []
  have := joinLoop_total _ thresh (sections toks main).length lc (sections toks main) [] h
    (sections_good toks main) (Nat.le_refl _)
  cases hj : joinLoop thresh (sections toks main).length lc (sections toks main) [] with
  | none => rw [hj] at this; simp at this
  | some r => rfl

/-- every part has equal lengths, and all its positions are positions of the token stream -/
theorem getTxtPosML_parts (toks : List Tok) (main : Str) (thresh : Nat) (lc lc' : LangChange) (parts : Parts)
    (h : getTxtPosML toks main thresh lc = some (parts, lc')) :
    ∀ tp ∈ allParts parts, tp.1.length = tp.2.length ∧
      ∀ p ∈ tp.2, p ∈ (getTxtPos (toks.filter (fun t => !isLangTok t))).2 := by
  unfold getTxtPosML at h
  simp only [] at h
  cases hj : joinLoop thresh (sections toks main).length lc (sections toks main) [] with
  | none => rw [hj] at h; simp at h
  | some r =>
    obtain ⟨out, lc1⟩ := r
    rw [hj] at h
    simp only [Option.some.injEq, Prod.mk.injEq] at h
    obtain ⟨rfl, rfl⟩ := h
    have hg := joinLoop_good _ thresh _ lc _ [] (sections_good toks main) (by simp) out lc1 hj
    intro tp htp
    rcases groupParts_mem out [] tp htp with h' | ⟨s, hs, rfl⟩
    · simp [allParts] at h'
    · have := hg s hs
      exact ⟨this.1, this.2.2⟩

/-- parts are grouped by language, each language once, in order of first appearance -/
theorem getTxtPosML_langs_nodup (toks : List Tok) (main : Str) (thresh : Nat) (lc lc' : LangChange) (parts : Parts)
    (h : getTxtPosML toks main thresh lc = some (parts, lc')) :
    (parts.map (·.1)).Nodup := by
  unfold getTxtPosML at h
  simp only [] at h
  cases hj : joinLoop thresh (sections toks main).length lc (sections toks main) [] with
  | none => rw [hj] at h; simp at h
  | some r =>
    obtain ⟨out, lc1⟩ := r
    rw [hj] at h
    simp only [Option.some.injEq, Prod.mk.injEq] at h
    obtain ⟨rfl, rfl⟩ := h
    exact groupParts_nodup out [] (by simp)

/-- one sectioning step updates the language stack exactly as the reference `langAt` does -/
theorem secStep_stack (s : SecState) (t : Tok) :
    (secStep s t).stack = langAt s.stack [t] := by
  by_cases hk : ∃ l b h k, t.kind = .lang l b h k
  · obtain ⟨l, back, hard, brk, hk⟩ := hk
    unfold secStep
    simp only [langAt, hk]
    repeat' split
    all_goals rfl
  · have hk' : ∀ l b h k, t.kind ≠ .lang l b h k := fun l b h k e => hk ⟨l, b, h, k, e⟩
    rw [secStep_nonlang s t hk']
    simp only [langAt]

theorem langAt_cons (st : List Str) (t : Tok) (ts : List Tok) :
    langAt st (t :: ts) = langAt (langAt st [t]) ts := by
  simp only [langAt]
  repeat' split
  all_goals rfl

/-- the stack carried by the sectioning fold is the reference language stack -/
theorem sections_fold_stack (toks : List Tok) (s : SecState) :
    (toks.foldl secStep s).stack = langAt s.stack toks := by
  induction toks generalizing s with
  | nil => rfl
  | cons t ts ih =>
    simp only [List.foldl_cons]
    rw [ih, secStep_stack, ← langAt_cons]

end Yalafi
