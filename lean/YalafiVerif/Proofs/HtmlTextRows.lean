/-
  Proofs/HtmlTextRows.lean — from the string `res_tot` to the rows of the big table.  `res_tot` is the rendering of
  ITEMS: chunks of pieces (one line of a plain piece, or one line of a highlighted piece inside its tag pair) and
  `<br>\n` (`resItems`, `renderItems_res`); every chunk lets the search for `<br>\n` through (`ItemsOk`), so the
  matches of the regular expression of `add_line_numbers` are the chunks between the `<br>\n` (`rowsP`,
  `brMatchesAux_items`), and the table is the rendering of row templates around these cells
  (`addLineNumbers_pieces`).
-/
import YalafiVerif.Proofs.HtmlTextTag
namespace Yalafi
namespace HtmlText
open Html

/-! ### the text in front of `add_line_numbers` as items: chunks of pieces and `<br>\n` -/

inductive Item where
  | chunk (ps : List TPiece)
  | brk
deriving Repr, Inhabited

def Item.render : Item → Str
  | .chunk ps => renderPieces ps
  | .brk => br

def renderItems (its : List Item) : Str := its.flatMap Item.render

/-- the items as pieces: a `<br>\n` is the image of a line break -/
def Item.pieces : Item → List TPiece
  | .chunk ps => ps
  | .brk => [.esc ['\n']]

def itemPieces (its : List Item) : List TPiece := its.flatMap Item.pieces

theorem render_esc_nl : renderPieces [.esc ['\n']] = br := by decide

theorem renderPieces_itemPieces (its : List Item) : renderPieces (itemPieces its) = renderItems its := by
  induction its with
  | nil => rfl
  | cons i its ih =>
    simp only [itemPieces, renderItems, List.flatMap_cons] at ih ⊢
    rw [renderPieces_append, ih]
    cases i with
    | chunk ps => rfl
    | brk => rw [Item.pieces, render_esc_nl]; rfl

theorem renderItems_append (a b : List Item) : renderItems (a ++ b) = renderItems a ++ renderItems b := by
  simp [renderItems]

/-- the lines of a text, each wrapped by `w`, with `<br>\n` behind every line that has a line break -/
def lineItems (w : Str → List TPiece) (s : Str) : List Item :=
  (hlLines s).flatMap (fun l => .chunk (w l.1) :: (if l.2 then [.brk] else []))

def plainW (l : Str) : List TPiece := [.esc l]

/-- the pieces around one line of a highlighted text -/
def wrap (t : Tag) (l : Str) : List TPiece := t.1 ++ [.esc l] ++ t.2 ++ endMatch

theorem render_wrap (t : Tag) (l : Str) : renderPieces (wrap t l) = t.pre ++ protectHtml l ++ t.post := by
  simp [wrap, Tag.pre, Tag.post, renderPieces, TPiece.render]

theorem renderItems_lineItems (w : Str → List TPiece) (s : Str) :
    renderItems (lineItems w s) = (hlLines s).flatMap (fun l => renderPieces (w l.1) ++ brGroup2 l.2) := by
  unfold lineItems renderItems
  rw [List.flatMap_assoc]
  congr 1
  funext l
  cases l.2 <;> simp [Item.render, brGroup2]

theorem renderItems_plain (s : Str) : renderItems (lineItems plainW s) = protectHtml s := by
  rw [renderItems_lineItems]
  have h := protectHtml_joinLines (hlLines s)
  rw [hlLines, hlLinesAux_join] at h
  simp only [List.nil_append] at h
  rw [h]
  simp [plainW, renderPieces, TPiece.render, hlLines]

theorem renderItems_wrap (t : Tag) (s : Str) : renderItems (lineItems (wrap t) s) = highlightWith t.pre t.post s := by
  rw [renderItems_lineItems, highlightWith_eq]
  congr 1
  funext l
  rw [render_wrap]

def pieceItems (tags : List Tag) : Piece → List Item
  | .plain s => lineItems plainW s
  | .hi idx s => lineItems (wrap (tags.getD idx ([], []))) s

def regionItems (tags : List Tag) (ps : List Piece) : List Item := ps.flatMap (pieceItems tags)

theorem renderItems_region (tags : List Tag) (ps : List Piece) :
    renderItems (regionItems tags ps) = regionText tags ps := by
  induction ps with
  | nil => rfl
  | cons p ps ih =>
    simp only [regionItems, regionText, List.flatMap_cons] at ih ⊢
    rw [renderItems_append, ih]
    cases p with
    | plain s => simp [pieceItems, renderItems_plain]
    | hi idx s => simp [pieceItems, renderItems_wrap, hlText]

/-- `res_tot` as items -/
def resItems (tags : List Tag) (rep : Report) : List Item :=
  match rep.first with
  | some f => lineItems plainW f.1
  | none => rep.regions.flatMap (fun r => regionItems tags r.pieces ++ [.brk])

theorem renderItems_res (tags : List Tag) (rep : Report) : renderItems (resItems tags rep) = resTot tags rep := by
  unfold resItems resTot
  cases hf : rep.first with
  | some f => exact renderItems_plain _
  | none =>
    simp only []
    generalize rep.regions = rs
    induction rs with
    | nil => rfl
    | cons r rs ih =>
      simp only [List.flatMap_cons]
      rw [renderItems_append, ih, renderItems_append, renderItems_region]
      rfl

/-! ### rows -/

/-- all chunks let the search for `<br>\n` through, and leave the tokenizer in text -/
structure ItemsOk (its : List Item) : Prop where
  br : ∀ ps, Item.chunk ps ∈ its → BrFree (renderPieces ps)
  flow : ∀ ps, Item.chunk ps ∈ its → ∀ rest, flow .text (ps ++ rest) = flow .text rest

theorem ItemsOk.nil : ItemsOk [] := ⟨by simp, by simp⟩

theorem ItemsOk.append {a b : List Item} (ha : ItemsOk a) (hb : ItemsOk b) : ItemsOk (a ++ b) := by
  constructor
  · intro ps h; rcases List.mem_append.1 h with h | h
    · exact ha.br ps h
    · exact hb.br ps h
  · intro ps h; rcases List.mem_append.1 h with h | h
    · exact ha.flow ps h
    · exact hb.flow ps h

theorem ItemsOk.tail {i : Item} {its : List Item} (h : ItemsOk (i :: its)) : ItemsOk its :=
  ⟨fun ps hp => h.br ps (by simp [hp]), fun ps hp => h.flow ps (by simp [hp])⟩

theorem ItemsOk.brk : ItemsOk [.brk] := ⟨by simp, by simp⟩

theorem flow_esc (s : Str) (rest : List TPiece) : flow .text (.esc s :: rest) = flow .text rest := rfl

theorem itemsOk_lineItems (w : Str → List TPiece)
    (hbr : ∀ l, '\n' ∉ l → BrFree (renderPieces (w l)))
    (hfl : ∀ l rest, flow .text (w l ++ rest) = flow .text rest) (s : Str) : ItemsOk (lineItems w s) := by
  have hnl := hlLinesAux_no_nl [] s (by simp)
  constructor
  · intro ps h
    simp only [lineItems, List.mem_flatMap] at h
    obtain ⟨l, hl, hm⟩ := h
    have : ps = w l.1 := by
      cases l.2 <;> simp at hm <;> exact hm
    subst this
    exact hbr _ (hnl l hl)
  · intro ps h
    simp only [lineItems, List.mem_flatMap] at h
    obtain ⟨l, hl, hm⟩ := h
    have : ps = w l.1 := by
      cases l.2 <;> simp at hm <;> exact hm
    subst this
    exact hfl _

theorem itemsOk_plain (s : Str) : ItemsOk (lineItems plainW s) := by
  apply itemsOk_lineItems
  · intro l hl
    apply brFree_pieces
    simp [plainW, brOkP, hl]
  · intro l rest; rfl

theorem itemsOk_wrap (t : Tag) (ht : TagOk t) (s : Str) : ItemsOk (lineItems (wrap t) s) := by
  apply itemsOk_lineItems
  · intro l hl
    rw [render_wrap]
    exact (ht.brPre.append (BrFree.noLt (protectHtml_noLt l hl))).append ht.brPost
  · intro l rest
    simp only [wrap, List.append_assoc]
    rw [ht.flowPre]
    simp only [List.cons_append, List.nil_append, flow_esc]
    have := ht.flowPost rest
    simp only [List.append_assoc] at this
    exact this

theorem itemsOk_region (tags : List Tag) (ht : ∀ t ∈ tags, TagOk t) (ps : List Piece) : ItemsOk (regionItems tags ps) := by
  induction ps with
  | nil => exact ItemsOk.nil
  | cons p ps ih =>
    simp only [regionItems, List.flatMap_cons] at ih ⊢
    refine ItemsOk.append ?_ ih
    cases p with
    | plain s => exact itemsOk_plain s
    | hi idx s => exact itemsOk_wrap _ (tagOk_getD tags ht idx) s

theorem itemsOk_res (tags : List Tag) (ht : ∀ t ∈ tags, TagOk t) (rep : Report) : ItemsOk (resItems tags rep) := by
  unfold resItems
  split
  · exact itemsOk_plain _
  · generalize rep.regions = rs
    induction rs with
    | nil => exact ItemsOk.nil
    | cons r rs ih =>
      simp only [List.flatMap_cons]
      exact ((itemsOk_region tags ht r.pieces).append ItemsOk.brk).append ih

/-- the matches of the regular expression as pieces: the cell of every table row, and whether `<br>\n`
    follows; `acc` = the pieces since the last `<br>\n` -/
def rowsP : List TPiece → List Item → List (List TPiece × Bool)
  | acc, [] => if (renderPieces acc).isEmpty then [] else [(acc, false)]
  | acc, .brk :: its => (acc, true) :: rowsP [] its
  | acc, .chunk ps :: its => rowsP (acc ++ ps) its

theorem brMatchesAux_items (its : List Item) (h : ItemsOk its) (acc : List TPiece) :
    brMatchesAux (renderPieces acc) (renderItems its) = (rowsP acc its).map (fun r => (renderPieces r.1, r.2)) := by
  induction its generalizing acc with
  | nil =>
    have : renderItems [] = [] := rfl
    rw [this, brMatchesAux, rowsP]
    split <;> simp
  | cons i its ih =>
    have hr : renderItems (i :: its) = i.render ++ renderItems its := by simp [renderItems]
    rw [hr]
    cases i with
    | brk =>
      rw [Item.render, brMatchesAux_br, rowsP]
      have := ih h.tail []
      have e : renderPieces [] = [] := rfl
      rw [e] at this
      simp [this]
    | chunk ps =>
      rw [Item.render, h.br ps (by simp), rowsP, ← renderPieces_append]
      exact ih h.tail _

theorem rowsP_flow (its : List Item) (h : ItemsOk its) (acc : List TPiece)
    (hacc : ∀ rest, flow .text (acc ++ rest) = flow .text rest) :
    ∀ r ∈ rowsP acc its, ∀ rest, flow .text (r.1 ++ rest) = flow .text rest := by
  induction its generalizing acc with
  | nil =>
    rw [rowsP]; split
    · simp
    · intro r hr; simp at hr; subst hr; exact hacc
  | cons i its ih =>
    cases i with
    | brk =>
      rw [rowsP]
      intro r hr
      simp only [List.mem_cons] at hr
      rcases hr with e | e
      · subst e; exact hacc
      · exact ih h.tail [] (fun _ => rfl) r e
    | chunk ps =>
      rw [rowsP]
      apply ih h.tail
      intro rest
      rw [List.append_assoc, hacc, h.flow ps (by simp)]

/-- the rows of the big table: cells with their numbers -/
def numberedP (numberStyle : Str) : List (List TPiece × Bool) → List Int → List TPiece
  | r :: rs, n :: nums => rowHead numberStyle n ++ r.1 ++ rowTail ++ numberedP numberStyle rs nums
  | _, _ => []

theorem numberRows_pieces (ns : Str) (rows : List (List TPiece × Bool)) (nums : List Int) (out : Str)
    (h : numberRows ns (rows.map (fun r => (renderPieces r.1, r.2))) nums = .ok out) :
    out = renderPieces (numberedP ns rows nums) := by
  induction rows generalizing nums out with
  | nil => simp [numberRows] at h; subst h; rfl
  | cons r rs ih =>
    cases nums with
    | nil => simp [numberRows] at h
    | cons n nums =>
      simp only [List.map_cons, numberRows] at h
      split at h
      · rename_i o ho
        cases h
        rw [numberedP, renderPieces_append, renderPieces_append, renderPieces_append, ← ih nums o ho]
      · cases h
      · cases h

/-- `add_line_numbers` on a text of items: the table as pieces -/
theorem addLineNumbers_pieces (ns : Str) (its : List Item) (h : ItemsOk its) (nums : List Int) (tab : Str)
    (hok : addLineNumbers ns (renderItems its) nums = .ok tab) :
    tab = renderPieces ([tableOpen] ++ numberedP ns (rowsP [] its) nums ++ [tableClose]) := by
  unfold addLineNumbers at hok
  have hm := brMatchesAux_items its h []
  have e : renderPieces [] = [] := rfl
  rw [e] at hm
  rw [brMatches, hm] at hok
  split at hok
  · rename_i o ho
    cases hok
    have := numberRows_pieces ns _ nums o ho
    rw [renderPieces_append, renderPieces_append, ← this]
    simp [renderPieces]
  · cases hok
  · cases hok

end HtmlText
end Yalafi
