/-
  Proofs/PlainLangCor.lean — readings of the reference `PlainLang.refParts`:

    `partChars`            the characters of all parts with their positions
    `textChars`            the text characters of the document with their source positions
    `langAt`               the language code in force at a source position
    `refParts_nodup`       no position occurs twice in the parts (of all languages together)
    `refParts_visible`     every visible text character occurs in a part, at its own position
    `refParts_language`    a character of a part under the key `k` is a text character of the
                           source at its own position, and `k` is the code of the last switch in
                           front of it (the main language if there is none)
    `textChars_render`     `textChars` are characters of the source
-/
import YalafiVerif.Proofs.PlainLang
namespace Yalafi
namespace PlainLang

open LinesLang (Item Mark ch isLg delLines)

/-! ### characters of sections and parts -/

def secChars (s : Sec) : List (Char × Nat) := s.txt.zip s.pos

/-- the characters of a piece of text with their positions -/
def tpChars (tp : Str × List Nat) : List (Char × Nat) := tp.1.zip tp.2

/-- the characters of all parts, with their positions -/
def partChars (ps : Parts) : List (Char × Nat) := ps.flatMap (fun e => e.2.flatMap tpChars)

/-- the character items of a list of items -/
def itemChars (l : List Item) : List (Char × Nat) := l.filterMap Sum.getLeft?

theorem zip_fst_snd : ∀ (l : List (Char × Nat)), (l.map (·.1)).zip (l.map (·.2)) = l
  | [] => rfl
  | a :: l => by simp [zip_fst_snd l]

theorem emitRun_chars (cur : Str) (brk : Bool) (acc : List (Char × Nat)) :
    (emitRun cur brk acc).flatMap secChars = acc := by
  unfold emitRun
  split
  · rename_i h; simp at h; simp [h]
  · simp [secChars, zip_fst_snd]

/-- the sections spell the character items, in order -/
theorem cutRuns_chars : ∀ (items : List Item) (cur : Str) (brk : Bool) (acc : List (Char × Nat)),
    (cutRuns cur brk acc items).flatMap secChars = acc ++ itemChars items
  | [], cur, brk, acc => by simp [cutRuns, emitRun_chars, itemChars]
  | .inl cp :: xs, cur, brk, acc => by
    simp only [cutRuns]
    rw [cutRuns_chars xs]
    simp [itemChars]
  | .inr t :: xs, cur, brk, acc => by
    simp only [cutRuns]
    split
    · rw [cutRuns_chars xs]; simp [itemChars, List.filterMap_cons, Sum.getLeft?_inr]
    · rw [List.flatMap_append, emitRun_chars, cutRuns_chars xs]
      simp [itemChars, List.filterMap_cons, Sum.getLeft?_inr]

/-- characters paired with the language code in force: a language token changes the code -/
def attr : Str → List Item → List (Str × (Char × Nat))
  | _, [] => []
  | cur, .inl cp :: xs => (cur, cp) :: attr cur xs
  | _, .inr t :: xs => attr (langCode t) xs

theorem emitRun_attr (cur : Str) (brk : Bool) (acc : List (Char × Nat)) :
    ∀ s ∈ emitRun cur brk acc, ∀ cp ∈ secChars s, s.lang = cur ∧ cp ∈ acc := by
  intro s hs cp hcp
  unfold emitRun at hs
  split at hs
  · cases hs
  · rw [List.mem_singleton] at hs
    subst hs
    simp only [secChars, zip_fst_snd] at hcp
    exact ⟨rfl, hcp⟩

/-- every character of a section belongs to the language of the section -/
theorem cutRuns_attr : ∀ (items : List Item) (cur : Str) (brk : Bool) (acc : List (Char × Nat)),
    ∀ s ∈ cutRuns cur brk acc items, ∀ cp ∈ secChars s,
      (s.lang = cur ∧ cp ∈ acc) ∨ (s.lang, cp) ∈ attr cur items
  | [], cur, brk, acc => by
    intro s hs cp hcp
    exact Or.inl (emitRun_attr cur brk acc s hs cp hcp)
  | .inl c :: xs, cur, brk, acc => by
    intro s hs cp hcp
    simp only [cutRuns] at hs
    rcases cutRuns_attr xs cur brk _ s hs cp hcp with ⟨h1, h2⟩ | h
    · rcases List.mem_append.mp h2 with h2 | h2
      · exact Or.inl ⟨h1, h2⟩
      · right
        simp only [List.mem_singleton] at h2
        rw [h1, h2]
        simp [attr]
    · right; simp [attr, h]
  | .inr t :: xs, cur, brk, acc => by
    intro s hs cp hcp
    simp only [cutRuns] at hs
    split at hs
    · rename_i hsame
      rw [beq_iff_eq] at hsame
      rcases cutRuns_attr xs cur brk _ s hs cp hcp with h | h
      · exact Or.inl h
      · right; simp only [attr, hsame]; exact h
    · rcases List.mem_append.mp hs with hs | hs
      · exact Or.inl (emitRun_attr cur brk acc s hs cp hcp)
      · rcases cutRuns_attr xs _ _ _ s hs cp hcp with ⟨_, h2⟩ | h
        · cases h2
        · right; simp only [attr]; exact h

theorem attr_ch : ∀ (l : List (Char × Nat)) (cur : Str) (xs : List Item),
    attr cur (ch l ++ xs) = l.map (fun cp => (cur, cp)) ++ attr cur xs
  | [], _, _ => rfl
  | a :: l, cur, xs => by
    simp only [LinesLang.ch_cons, List.cons_append, attr, List.map_cons, attr_ch l cur xs]

/-- deleting characters (but no language token) does not change the language of the others -/
theorem attr_sublist {l1 l2 : List Item} (h : List.Sublist l1 l2) :
    l1.filter isLg = l2.filter isLg → ∀ cur, List.Sublist (attr cur l1) (attr cur l2) := by
  induction h with
  | slnil => intro _ _; exact List.Sublist.refl _
  | @cons l1 l2 a hsub ih =>
    intro hf cur
    cases a with
    | inl cp =>
      have hf' : l1.filter isLg = l2.filter isLg := by
        rw [hf, List.filter_cons_of_neg (by simp [isLg])]
      simp only [attr]
      exact List.Sublist.cons _ (ih hf' cur)
    | inr t =>
      exfalso
      have h1 := (hsub.filter isLg).length_le
      rw [hf, List.filter_cons_of_pos (by rfl)] at h1
      simp only [List.length_cons] at h1
      omega
  | @cons_cons l1 l2 a hsub ih =>
    intro hf cur
    cases a with
    | inl cp =>
      have hf' : l1.filter isLg = l2.filter isLg := by
        rw [List.filter_cons_of_neg (by simp [isLg]), List.filter_cons_of_neg (by simp [isLg])] at hf
        exact hf
      simp only [attr]
      exact List.Sublist.cons_cons _ (ih hf' cur)
    | inr t =>
      have hf' : l1.filter isLg = l2.filter isLg := by
        rw [List.filter_cons_of_pos (by rfl), List.filter_cons_of_pos (by rfl)] at hf
        exact List.tail_eq_of_cons_eq hf
      simp only [attr]
      exact ih hf' _

/-! ### grouping -/

theorem addPart_keys (ps : Parts) (k : Str) (tp : Str × List Nat)
    (h : (ps.map (·.1)).Nodup) : ((addPart ps k tp).map (·.1)).Nodup := by
  unfold addPart
  split
  · have : (ps.map (fun e => if (e.1 == k) = true then (e.1, e.2 ++ [tp]) else e)).map (·.1)
        = ps.map (·.1) := by
      rw [List.map_map]
      apply List.map_congr_left
      intro e _
      simp only [Function.comp]
      split <;> rfl
    rw [this]; exact h
  · rename_i hany
    rw [List.map_append, List.nodup_append]
    refine ⟨h, by simp, ?_⟩
    intro a ha b hb
    simp only [List.map_cons, List.map_nil, List.mem_singleton] at hb
    subst hb
    intro e
    apply hany
    obtain ⟨x, hx, rfl⟩ := List.mem_map.mp ha
    rw [List.any_eq_true]
    exact ⟨x, hx, by simp [e]⟩

theorem map_if_id (ps : Parts) (k : Str) (tp : Str × List Nat) (h : ∀ e ∈ ps, e.1 ≠ k) :
    ps.map (fun e => if (e.1 == k) = true then (e.1, e.2 ++ [tp]) else e) = ps := by
  conv => rhs; rw [← List.map_id ps]
  apply List.map_congr_left
  intro e he
  have : (e.1 == k) = false := by simpa using h e he
  simp [this]

/-- a piece of text is added exactly once -/
theorem addPart_perm : ∀ (ps : Parts) (k : Str) (tp : Str × List Nat), (ps.map (·.1)).Nodup →
    List.Perm ((addPart ps k tp).flatMap (·.2)) (ps.flatMap (·.2) ++ [tp])
  | [], k, tp, _ => by simp [addPart]
  | e :: ps, k, tp, h => by
    rw [List.map_cons, List.nodup_cons] at h
    by_cases hk : e.1 = k
    · have hno : ∀ x ∈ ps, x.1 ≠ k := by
        intro x hx e'
        exact h.1 (by rw [hk, ← e']; exact List.mem_map_of_mem hx)
      have hany : (e :: ps).any (·.1 == k) = true := by simp [hk]
      simp only [addPart, hany, if_true, List.map_cons, hk, beq_self_eq_true]
      rw [map_if_id ps k tp hno]
      simp only [List.flatMap_cons, List.append_assoc]
      exact List.Perm.append_left _ List.perm_append_comm
    · have hk' : (e.1 == k) = false := by simpa using hk
      by_cases hany : ps.any (·.1 == k) = true
      · have hany' : (e :: ps).any (·.1 == k) = true := by simp [hany]
        have ih := addPart_perm ps k tp h.2
        simp only [addPart, hany, if_true] at ih
        simp only [addPart, hany', if_true, List.map_cons, hk', Bool.false_eq_true, if_false,
          List.flatMap_cons, List.append_assoc]
        exact List.Perm.append_left _ ih
      · have hany' : ¬ ((e :: ps).any (·.1 == k) = true) := by simp [hk', hany]
        simp only [addPart, hany']
        simp

theorem groupFold_perm : ∀ (secs : List Sec) (acc : Parts), (acc.map (·.1)).Nodup →
    List.Perm ((secs.foldl (fun ps s => addPart ps s.lang (s.txt, s.pos)) acc).flatMap (·.2))
      (acc.flatMap (·.2) ++ secs.map (fun s => (s.txt, s.pos)))
  | [], acc, _ => by simp
  | s :: ss, acc, h => by
    rw [List.foldl_cons]
    refine (groupFold_perm ss _ (addPart_keys acc _ _ h)).trans ?_
    rw [List.map_cons]
    have := addPart_perm acc s.lang (s.txt, s.pos) h
    refine (List.Perm.append_right _ this).trans ?_
    simp

/-- the pieces of text of the grouped parts are the sections, up to order -/
theorem groupSecs_perm (secs : List Sec) :
    List.Perm ((groupSecs secs).flatMap (·.2)) (secs.map (fun s => (s.txt, s.pos))) := by
  have := groupFold_perm secs [] (by simp)
  simpa [groupSecs] using this

theorem addPart_mem (ps : Parts) (k : Str) (tp : Str × List Nat) :
    ∀ e ∈ addPart ps k tp, ∀ x ∈ e.2, (∃ e0 ∈ ps, e0.1 = e.1 ∧ x ∈ e0.2) ∨ (e.1 = k ∧ x = tp) := by
  intro e he x hx
  unfold addPart at he
  split at he
  · obtain ⟨e0, he0, rfl⟩ := List.mem_map.mp he
    split at hx
    · rename_i hk
      rw [beq_iff_eq] at hk
      rcases List.mem_append.mp hx with hx | hx
      · exact Or.inl ⟨e0, he0, by simp [hk], hx⟩
      · right; simp only [List.mem_singleton] at hx; simp [hk, hx]
    · rename_i hk
      exact Or.inl ⟨e0, he0, by simp [hk], hx⟩
  · rcases List.mem_append.mp he with he | he
    · exact Or.inl ⟨e, he, rfl, hx⟩
    · simp only [List.mem_singleton] at he
      subst he
      right; simp only [List.mem_singleton] at hx; exact ⟨rfl, hx⟩

theorem groupFold_mem : ∀ (secs : List Sec) (acc : Parts),
    ∀ e ∈ secs.foldl (fun ps s => addPart ps s.lang (s.txt, s.pos)) acc, ∀ x ∈ e.2,
      (∃ e0 ∈ acc, e0.1 = e.1 ∧ x ∈ e0.2) ∨ ∃ s ∈ secs, s.lang = e.1 ∧ x = (s.txt, s.pos)
  | [], acc => by
    intro e he x hx
    exact Or.inl ⟨e, he, rfl, hx⟩
  | s :: ss, acc => by
    intro e he x hx
    rw [List.foldl_cons] at he
    rcases groupFold_mem ss _ e he x hx with ⟨e0, he0, hk, hx0⟩ | ⟨s', hs', h1, h2⟩
    · rcases addPart_mem acc s.lang (s.txt, s.pos) e0 he0 x hx0 with ⟨e1, he1, hk1, hx1⟩ | ⟨hk1, hx1⟩
      · exact Or.inl ⟨e1, he1, hk1.trans hk, hx1⟩
      · exact Or.inr ⟨s, List.mem_cons_self .., hk1.symm.trans hk, hx1⟩
    · exact Or.inr ⟨s', List.mem_cons_of_mem _ hs', h1, h2⟩

/-- a piece of text under the key `k` is a section of language `k` -/
theorem groupSecs_mem (secs : List Sec) : ∀ e ∈ groupSecs secs, ∀ x ∈ e.2,
    ∃ s ∈ secs, s.lang = e.1 ∧ x = (s.txt, s.pos) := by
  intro e he x hx
  rcases groupFold_mem secs [] e he x hx with ⟨e0, he0, _, _⟩ | h
  · cases he0
  · exact h

/-! ### the text characters of a document -/

/-- the characters of the text segments of a document that starts at position `p`, each with its
    (0-based) source position -/
def textChars : Nat → List Seg → List (Char × Nat)
  | _, [] => []
  | p, .txt s :: rest => posText p s ++ textChars (p + s.length) rest
  | p, .sel name :: rest => textChars (p + (name.length + 17)) rest

/-- the language code in force at source position `q`: the code of the last switch in front of
    it, `cur` if there is none (`p` = position of the first segment) -/
def langAt (T : PTables) : Str → Nat → List Seg → Nat → Str
  | cur, _, [], _ => cur
  | cur, p, .txt s :: rest, q => if q < p + s.length then cur else langAt T cur (p + s.length) rest q
  | _, p, .sel name :: rest, q => langAt T (codeOfName T name) (p + (name.length + 17)) rest q

/-- the items of a document before the blank-line removal -/
def segItems (T : PTables) (p : Nat) (segs : List Seg) : List Item := (segMarks T p segs).filterMap id

theorem filterMap_id_map_some {α} (l : List α) : (l.map some).filterMap id = l := by
  induction l with
  | nil => rfl
  | cons a l ih => simp [ih]

theorem segItems_txt (T : PTables) (p : Nat) (s : Str) (rest : List Seg) :
    segItems T p (.txt s :: rest) = ch (posText p s) ++ segItems T (p + s.length) rest := by
  simp [segItems, segMarks, List.filterMap_append]

theorem segItems_sel (T : PTables) (p : Nat) (name : Str) (rest : List Seg) :
    segItems T p (.sel name :: rest)
      = .inr (selTok T p (codeOfName T name)) :: segItems T (p + (name.length + 17)) rest := by
  simp [segItems, segMarks]

theorem itemChars_ch (l : List (Char × Nat)) (xs : List Item) :
    itemChars (ch l ++ xs) = l ++ itemChars xs := by
  induction l with
  | nil => rfl
  | cons a l ih =>
    simp only [LinesLang.ch_cons, List.cons_append, itemChars, List.filterMap_cons, Sum.getLeft?_inl]
    exact congrArg _ ih

theorem segItems_chars (T : PTables) : ∀ (segs : List Seg) (p : Nat),
    itemChars (segItems T p segs) = textChars p segs
  | [], _ => rfl
  | .txt s :: rest, p => by
    rw [segItems_txt, itemChars_ch, segItems_chars T rest]; rfl
  | .sel name :: rest, p => by
    rw [segItems_sel]
    simp only [itemChars, List.filterMap_cons, Sum.getLeft?_inr]
    exact segItems_chars T rest _

theorem posText_mem : ∀ (s : Str) (p : Nat) (cp : Char × Nat), cp ∈ posText p s →
    p ≤ cp.2 ∧ cp.2 < p + s.length
  | [], _, _, h => by cases h
  | c :: cs, p, cp, h => by
    simp only [posText, List.mem_cons] at h
    rcases h with rfl | h
    · simp
    · have := posText_mem cs (p + 1) cp h
      simp only [List.length_cons]
      omega

theorem textChars_ge (segs : List Seg) : ∀ (p : Nat) (cp : Char × Nat), cp ∈ textChars p segs → p ≤ cp.2 := by
  induction segs with
  | nil => intro p cp h; cases h
  | cons sg rest ih =>
    intro p cp h
    cases sg with
    | txt s =>
      simp only [textChars] at h
      rcases List.mem_append.mp h with h | h
      · exact (posText_mem s p cp h).1
      · have := ih _ cp h; omega
    | sel name =>
      simp only [textChars] at h
      have := ih _ cp h; omega

theorem posText_pairwise : ∀ (s : Str) (p : Nat), (posText p s).Pairwise (fun a b => a.2 < b.2)
  | [], _ => List.Pairwise.nil
  | c :: cs, p => by
    simp only [posText]
    refine List.Pairwise.cons ?_ (posText_pairwise cs (p + 1))
    intro b hb
    have := (posText_mem cs (p + 1) b hb).1
    show p < b.2
    omega

/-- the source positions of the text characters are strictly increasing -/
theorem textChars_pairwise : ∀ (segs : List Seg) (p : Nat),
    (textChars p segs).Pairwise (fun a b => a.2 < b.2)
  | [], _ => List.Pairwise.nil
  | .txt s :: rest, p => by
    simp only [textChars]
    rw [List.pairwise_append]
    refine ⟨posText_pairwise s p, textChars_pairwise rest _, ?_⟩
    intro a ha b hb
    have h1 := (posText_mem s p a ha).2
    have h2 := textChars_ge rest _ b hb
    omega
  | .sel name :: rest, p => by
    simp only [textChars]
    exact textChars_pairwise rest _

/-- a character of `attr` belongs to the code of the last switch in front of it -/
theorem attr_segItems (T : PTables) : ∀ (segs : List Seg) (cur : Str) (p : Nat),
    ∀ x ∈ attr cur (segItems T p segs), x.1 = langAt T cur p segs x.2.2 ∧ p ≤ x.2.2
  | [], _, _ => by intro x h; cases h
  | .txt s :: rest, cur, p => by
    intro x hx
    rw [segItems_txt, attr_ch] at hx
    rcases List.mem_append.mp hx with hx | hx
    · obtain ⟨cp, hcp, rfl⟩ := List.mem_map.mp hx
      have := posText_mem s p cp hcp
      simp only [langAt, this.2, if_true]
      exact ⟨trivial, this.1⟩
    · have := attr_segItems T rest cur _ x hx
      have hn : ¬ (x.2.2 < p + s.length) := by omega
      simp only [langAt, hn, if_false]
      exact ⟨this.1, by omega⟩
  | .sel name :: rest, cur, p => by
    intro x hx
    rw [segItems_sel] at hx
    simp only [attr] at hx
    have hc : langCode (selTok T p (codeOfName T name)) = codeOfName T name := rfl
    rw [hc] at hx
    have := attr_segItems T rest _ _ x hx
    simp only [langAt]
    exact ⟨this.1, by omega⟩

theorem attr_mem_chars : ∀ (l : List Item) (cur : Str) (x : Str × (Char × Nat)),
    x ∈ attr cur l → x.2 ∈ itemChars l
  | [], _, _, h => by cases h
  | .inl cp :: xs, cur, x, h => by
    simp only [attr, List.mem_cons] at h
    simp only [itemChars, List.filterMap_cons, Sum.getLeft?_inl, List.mem_cons]
    rcases h with rfl | h
    · exact Or.inl rfl
    · exact Or.inr (attr_mem_chars xs cur x h)
  | .inr t :: xs, cur, x, h => by
    simp only [attr] at h
    simp only [itemChars, List.filterMap_cons, Sum.getLeft?_inr]
    exact attr_mem_chars xs _ x h

/-! ### the readings of `refParts` -/

theorem refItems_sublist (T : PTables) (segs : List Seg) :
    List.Sublist (refItems T segs) (segItems T 0 segs) :=
  LinesLang.delLines_sublist _

theorem refItems_langs (T : PTables) (segs : List Seg) :
    (refItems T segs).filter isLg = (segItems T 0 segs).filter isLg :=
  LinesLang.delLines_langs _

/-- the characters of the sections, in order: a sublist of the text characters -/
theorem refSecs_chars (T : PTables) (main : Str) (segs : List Seg) :
    (refSecs T main segs).flatMap secChars = itemChars (refItems T segs) ∧
    List.Sublist (itemChars (refItems T segs)) (textChars 0 segs) := by
  refine ⟨by simp [refSecs, cutRuns_chars], ?_⟩
  rw [← segItems_chars T segs 0]
  exact (refItems_sublist T segs).filterMap _

def shiftTp (tp : Str × List Nat) : Str × List Nat := (tp.1, tp.2.map (· + 1))

theorem tpChars_shift (tp : Str × List Nat) :
    tpChars (shiftTp tp) = (tpChars tp).map (fun cp => (cp.1, cp.2 + 1)) := by
  simp only [tpChars, shiftTp]
  rw [List.zip_map_right]
  rfl

theorem flatMap_shiftTp : ∀ (l : List (Str × List Nat)),
    (l.map shiftTp).flatMap tpChars = (l.flatMap tpChars).map (fun cp => (cp.1, cp.2 + 1))
  | [] => rfl
  | tp :: l => by
    rw [List.map_cons, List.flatMap_cons, List.flatMap_cons, List.map_append, tpChars_shift,
      flatMap_shiftTp l]

theorem partChars_shift : ∀ (ps : Parts),
    partChars (shiftParts ps) = ((ps.flatMap (·.2)).flatMap tpChars).map (fun cp => (cp.1, cp.2 + 1))
  | [] => rfl
  | e :: ps => by
    have ih := partChars_shift ps
    have h1 : partChars (shiftParts (e :: ps))
        = (e.2.map shiftTp).flatMap tpChars ++ partChars (shiftParts ps) := rfl
    rw [h1, ih, flatMap_shiftTp, List.flatMap_cons, List.flatMap_append, List.map_append]

/-- the characters of the parts are those of the sections, up to the order of the sections,
    with 1-based positions -/
theorem refParts_perm (T : PTables) (main : Str) (segs : List Seg) :
    List.Perm (partChars (refParts T main segs))
      ((itemChars (refItems T segs)).map (fun cp => (cp.1, cp.2 + 1))) := by
  rw [refParts, partChars_shift]
  apply List.Perm.map
  have h1 := (groupSecs_perm (refSecs T main segs)).flatMap_right tpChars
  refine h1.trans ?_
  rw [← (refSecs_chars T main segs).1]
  rw [List.flatMap_map]
  exact List.Perm.refl _

/-- **no position occurs twice** in the parts of all languages together -/
theorem refParts_nodup (T : PTables) (main : Str) (segs : List Seg) :
    ((partChars (refParts T main segs)).map (·.2)).Nodup := by
  rw [((refParts_perm T main segs).map _).nodup_iff]
  have hpw := (textChars_pairwise segs 0).sublist (refSecs_chars T main segs).2
  rw [List.map_map]
  rw [List.Nodup, List.pairwise_map]
  refine hpw.imp ?_
  intro a b hab
  simp only [Function.comp]
  omega

/-- **every visible text character occurs in a part**, at its own (1-based) position -/
theorem refParts_visible (T : PTables) (main : Str) (segs : List Seg) (c : Char) (p : Nat)
    (h : (c, p) ∈ textChars 0 segs) (hv : isSpace c = false) :
    (c, p + 1) ∈ partChars (refParts T main segs) := by
  rw [(refParts_perm T main segs).mem_iff]
  refine List.mem_map.mpr ⟨(c, p), ?_, rfl⟩
  have hm : some (Sum.inl (c, p)) ∈ segMarks T 0 segs := by
    rw [← segItems_chars T segs 0] at h
    simp only [itemChars, List.mem_filterMap] at h
    obtain ⟨i, hi, hg⟩ := h
    cases i with
    | inr t => simp at hg
    | inl cp =>
      simp only [Sum.getLeft?_inl, Option.some.injEq] at hg
      subst hg
      simp only [segItems, List.mem_filterMap] at hi
      obtain ⟨m, hm, hid⟩ := hi
      simp only [id] at hid
      rw [← hid]; exact hm
  have := LinesLang.delLines_visible (segMarks T 0 segs) (c, p) hm hv
  simp only [itemChars, List.mem_filterMap]
  exact ⟨_, this, rfl⟩

theorem mem_shiftParts (ps : Parts) (e : Str × List (Str × List Nat)) (h : e ∈ shiftParts ps) :
    ∃ e0 ∈ ps, e.1 = e0.1 ∧ e.2 = e0.2.map shiftTp := by
  simp only [shiftParts, List.mem_map] at h
  obtain ⟨e0, he0, rfl⟩ := h
  exact ⟨e0, he0, rfl, rfl⟩

/-- **the language of a part**: a character of a piece of text under the key `k` is a text
    character of the source at its own position `p` (reported as `p + 1`), and `k` is the code of
    the last switch in front of `p` (the main language if there is none) -/
theorem refParts_language (T : PTables) (main : Str) (segs : List Seg) :
    ∀ e ∈ refParts T main segs, ∀ tp ∈ e.2, ∀ c q, (c, q) ∈ tpChars tp →
      ∃ p, q = p + 1 ∧ (c, p) ∈ textChars 0 segs ∧ e.1 = langAt T main 0 segs p := by
  intro e he tp htp c q hcq
  obtain ⟨e0, he0, hk, h2⟩ := mem_shiftParts _ e he
  rw [h2] at htp
  obtain ⟨tp0, htp0, rfl⟩ := List.mem_map.mp htp
  rw [tpChars_shift] at hcq
  obtain ⟨cp, hcp, hx⟩ := List.mem_map.mp hcq
  simp only [Prod.mk.injEq] at hx
  obtain ⟨s, hs, hlang, rfl⟩ := groupSecs_mem (refSecs T main segs) e0 he0 tp0 htp0
  have hcp' : cp ∈ secChars s := hcp
  rcases cutRuns_attr (refItems T segs) main false [] s hs cp hcp' with ⟨_, h⟩ | h
  · cases h
  · have hsub := (attr_sublist (refItems_sublist T segs) (refItems_langs T segs) main).subset h
    have ha := attr_segItems T segs main 0 _ hsub
    have hc := attr_mem_chars _ _ _ hsub
    rw [segItems_chars] at hc
    refine ⟨cp.2, hx.2.symm, ?_, ?_⟩
    · rw [← hx.1]; exact hc
    · rw [hk, ← hlang]; exact ha.1

theorem posText_getElem : ∀ (s : Str) (p0 : Nat) (cp : Char × Nat), cp ∈ posText p0 s →
    s[cp.2 - p0]? = some cp.1
  | [], _, _, h => by cases h
  | c :: cs, p0, cp, h => by
    simp only [posText, List.mem_cons] at h
    rcases h with rfl | h
    · simp
    · have hb := (posText_mem cs (p0 + 1) cp h).1
      have := posText_getElem cs (p0 + 1) cp h
      rw [show cp.2 - p0 = (cp.2 - (p0 + 1)) + 1 by omega, List.getElem?_cons_succ]
      exact this

/-- the text characters are characters of the source: `(c, p) ∈ textChars` means that the source
    has `c` at (0-based) position `p` -/
theorem textChars_render : ∀ (segs : List Seg) (p0 : Nat) (cp : Char × Nat), cp ∈ textChars p0 segs →
    p0 ≤ cp.2 ∧ (render segs)[cp.2 - p0]? = some cp.1
  | [], _, _, h => by cases h
  | .txt s :: rest, p0, cp, h => by
    simp only [textChars] at h
    have hr : render (.txt s :: rest) = s ++ render rest := rfl
    rcases List.mem_append.mp h with h | h
    · have hb := posText_mem s p0 cp h
      refine ⟨hb.1, ?_⟩
      rw [hr, List.getElem?_append_left (by omega)]
      exact posText_getElem s p0 cp h
    · have ih := textChars_render rest (p0 + s.length) cp h
      refine ⟨by omega, ?_⟩
      rw [hr, List.getElem?_append_right (by omega)]
      rw [show cp.2 - p0 - s.length = cp.2 - (p0 + s.length) by omega]
      exact ih.2
  | .sel name :: rest, p0, cp, h => by
    simp only [textChars] at h
    have ih := textChars_render rest (p0 + (name.length + 17)) cp h
    have hr : render (.sel name :: rest) = Seg.render (.sel name) ++ render rest := rfl
    have hl : (Seg.render (.sel name)).length = name.length + 17 := by
      simp only [Seg.render, List.length_cons, List.length_append, selName_length, List.length_nil]
      omega
    refine ⟨by omega, ?_⟩
    rw [hr, List.getElem?_append_right (by omega), hl]
    rw [show cp.2 - p0 - (name.length + 17) = cp.2 - (p0 + (name.length + 17)) by omega]
    exact ih.2

end PlainLang
end Yalafi
