/-
  Proofs/PlainRef.lean (with Proofs/PlainRefBase.lean) — C04 "every output character that is not a
  copy of body text maps to an offset inside the source span of the construct that produced it" and
  C03 "nothing from labels, keys … appears", end to end on the model, for documents that consist of
  inert text (as in Proofs/PlainUnknown.lean) and
    * REFERENCES `\name{key}`: `\name` any macro declared like `\ref` / `\pageref` in the tables of
      /repo — one mandatory argument, no Python handler, no extraction, a replacement text of one
      or two visible text tokens (`\newcommand{\ref}[1]{0}` in `macro_defs_latex`: the placeholder
      is the text token `0`);
    * CITATIONS `\name{key}` and `\name[note]{key}`: `\name` any macro declared like `\cite`
      (`Macro(self, '\\cite', args='OA', repl=hs.h_cite)`).
  `\eqref` is NOT declared by the default tables (it comes with the package module `amsmath`); in the
  default configuration it is an unknown macro, `\eqref{eq:1}` yields the TEXT `eq:1` and the entry
  `\eqref` in the unknowns list (`#eval`; Proofs/PlainUnknown.lean is about that) — not covered here.

  What the model does with such a call (found with `#eval`, then proved)
    `\ref{key}`        `expand_macro` collects `{key}`, throws it away (the replacement has no `#1`)
                       and returns an Action token and the replacement tokens, re-stamped at the
                       backslash and pinned (`fix`); the loop copies them.
    `\cite{key}`       `collectArgs` stores `[]` for the missing optional argument; `h_cite` returns
                       the pinned text token `[0]` and an Action token at the backslash;
                       `expand_arguments` puts an Action token in front.
    `\cite[note]{key}` `arg_buffer` collects the note tokens up to the first `]`; `h_cite` returns
                       pinned `[0,` and a pinned blank at the backslash, THE NOTE TOKENS THEMSELVES
                       (position counting, with their own positions), a position-counting text token
                       `]` and an Action token at the position of the LAST NOTE TOKEN.  The tokens are
                       pushed back and expanded again by the loop (they are copied).
  At the end `remove_pure_action_lines` runs; every Action token stands next to a visible generated
  character (`0`, `[`, `]`) on the same line, so no line is deleted (`marks_safe`, `delLines_marks`).

  Structure
    PlainRefBase.lean      declarations, expander level, loop, documents, scanner pieces
    `ScanFacts`, `scanSteps_ref`, `scan_ref`   the scanner on a well-formed source: one macro token,
                           `[` note tokens `]` as text tokens, `{` key tokens `}`; what the token
                           buffer means (`marksOf (outP …) = marks`, all tokens `Simple`, cost)
    `parserWork_ref`, `parse_ref`, `tex2txt_ref_src`   the lifts (blank-line removal:
                           `PlainMacro.removeLines_simple`)
    `Safe`, `marks_safe`, `delLines_marks`   no line is deleted
    `refOut`, `marks_chars`, `tex2txt_ref_cite`   the reference output and THE END-TO-END STATEMENT
    `spans`, `keySpans`, `textChars`, `refOut_no_key`, `refOut_span`   readings

  The end-to-end statement `tex2txt_ref_cite`.  `tex2txt` succeeds; text and (1-based) positions
  are `refOut st1 0 segs`:
    text               every character with its own position
    `\ref{key}`        the placeholder `phOf st1 name` (real tables: `0`), every character at the
                       position of the BACKSLASH
    `\cite{key}`       `[0]`, every character at the position of the backslash
    `\cite[note]{key}` `[0, ` at the position of the backslash, the note at its OWN positions, `]` at
                       the start of the last scanner token of the note (`PlainFootnote.lastTokOff`:
                       its last character, or the start of the run of white space it ends with)
    nothing of a key appears (`refOut_no_key`: no output position lies inside `{key}`);
    `unknowns = []`, no diagnostic is added.
  `refOut_span`: every output character is a text character at its own position, or its position
  lies in the span [backslash, closing brace of the key] of a call.

  Side conditions (all in `SegsOk T st1 segs`, decidable; `st1` = state after `Parser.__init__`)
    `stateOk T st1`     the empty string, the blank and `]` are no "active characters" of the language
                        settings (else the Action tokens, the blank of `[0, ` and the closing `]`
                        would go to `expand_short_macro`); real tables: yes
    text segments       `textOk` of Proofs/PlainUnknown.lean: inert in their right context
    calls               * `\name` is scanned as one macro token (`nameOk` = `cwOk` of
                          Proofs/PlainUnknown.lean without "undeclared": a non-empty string of
                          ASCII letters / `@`, no special sequence of the tables matches at the
                          backslash, none of `\begin \end \item \verb \def`, no accent macro);
                        * it is declared in `st1` with `refDeclOk` (arguments `A`, no handler, no
                          extraction; the replacement: one or two text tokens that are visible — no
                          white space —, never "active" and none of `$ \( $$ \[ \\ { }`; "at most
                          two" keeps the fuel bound free of the tables) resp. `citeDeclOk`
                          (arguments `OA`, handler `h_cite`, no extraction, no default values);
                        * `{` stands directly behind the name resp. behind `]`, the braces are
                          scanned as `{` / `}`; the key is `PlainVanish.keyOk`: every character is
                          white space, or none of `% # \ { }` and a special sequence of the tables
                          that matches there is not empty and contains no `}` — so `eq:1`,
                          `sec:a_1-b`, `a,b`, `knuth84` are fine;
                        * a note: `[` directly behind the name, `[` and `]` are scanned as text (no
                          special sequence matches there), the note is not empty, contains no `]`
                          (the first `]` ends the optional argument) and is inert in front of `]`
                          (`PlainFootnote.textOk`: no "active character", white space or none of
                          `% # \ $ { }` with no special sequence matching; line breaks allowed).
    options             no --defs, --extr, --repl, --unkn; single-language mode
    fuel                `(render segs).length + 2 ≤ fuel`

  Model behaviour worth knowing (seen with `#eval`; not covered by the theorem)
    * `\cite[]{k}` yields `[0, ]`, the `]` at the position of `[` (the empty argument is a void token);
    * `\cite[see [1]]{k}` yields `[0, see [1]k`: the first `]` ends the note, the second one becomes the
      mandatory argument, and THE KEY IS COPIED AS TEXT (LaTeX would also end the optional argument
      at the first `]`); likewise `\cite[x][y]{k}` (two optional arguments belong to natbib / biblatex)
      yields `[0, x]y]k` with the default tables;
    * white space between the name and `{` / `[`, also a line break, is accepted and skipped.
  NOT covered: keys with macros, braces, `%` or `#`; `\cite` with two optional arguments; the biblatex
  / natbib variants of the package modules (`\citep`, `\textcite`, `\footcite`, … : handlers
  `bibCite`, `footcite`), `\eqref` (amsmath), `\autoref` (hyperref), cleveref; white space between the name
  and the brace or bracket; empty notes and notes with `]`, macros, braces or maths; multi-language mode.
-/
import YalafiVerif.Proofs.PlainRefBase
namespace Yalafi
namespace PlainRef

open M
open PlainMacro
open PlainFootnote (CopyTok seq_copy_prefix lastTokOff)

/-- what the scanner loop yields on a well-formed source, and what the token buffer means -/
structure ScanFacts (T : PTables) (st : PState) (rest : Str) (ms : List Mark)
    (steps : List ScanStep) : Prop where
  ok : ∀ s ∈ steps, s.diag = none ∧ s.extra = []
  pieces : ∃ ps, steps.map (·.tok) = flat ps ∧ PiecesOk T st ps ∧ marksOf (outP st ps) = ms ∧
    (∀ t ∈ outP st ps, Simple t) ∧ cost st ps ≤ rest.length
  first : ∀ s ss, steps = s :: ss → s.tok.txt = firstTokTxtM rest

theorem ScanFacts_nil (T : PTables) (st : PState) : ScanFacts T st [] [] [] :=
  ⟨by simp, ⟨[], rfl, trivial, rfl, by simp [outP], by simp [cost]⟩, by simp⟩

theorem KeyRun.toks {key : Str} {ksteps : List ScanStep} (B : PlainVanish.KeyRun key ksteps) :
    KeyToks (ksteps.map (·.tok)) := by
  intro t ht
  obtain ⟨x, hx, rfl⟩ := List.mem_map.mp ht
  exact (B.ok x hx).2.2

theorem firstTok_cw (name X : Str) (h : (name ++ X).takeWhile macroChar = name) :
    firstTokTxtM ('\\' :: (name ++ X)) = '\\' :: name := by
  simp [firstTokTxtM, h, show isSpace '\\' = false by decide]

/-- the scanner loop on a well-formed source -/
theorem scanSteps_ref (T : PTables) (st : PState) (src : Str) :
    ∀ (n fuel pos : Nat) (rest : Str) (ms : List Mark),
    rest.length ≤ n → rest.length ≤ fuel → OkSrc T st pos rest ms →
    (scanSteps T.toTables src fuel pos rest).2 = true ∧
    ScanFacts T st rest ms (scanSteps T.toTables src fuel pos rest).1 := by
  intro n
  induction n with
  | zero =>
    intro fuel pos rest ms hn _ hok
    cases rest with
    | nil => cases hok; exact ⟨by simp [scanSteps], by simpa [scanSteps] using ScanFacts_nil T st⟩
    | cons c cs => simp at hn
  | succ n ih =>
    intro fuel pos rest ms hn hf hok
    cases rest with
    | nil => cases hok; exact ⟨by simp [scanSteps], by simpa [scanSteps] using ScanFacts_nil T st⟩
    | cons c cs =>
      obtain ⟨fuel, rfl⟩ : ∃ f, fuel = f + 1 := ⟨fuel - 1, by simp at hf; omega⟩
      have hok0 := hok
      cases hok with
      | chr _ _ _ ms' hat hsub0 =>
        have hsnd := okAt_snd hat
        obtain ⟨hp, hone⟩ := nextToken_text T src pos c cs hsnd
        generalize hs : nextToken T.toTables src pos (c :: cs) = s at hp hone
        have h1 := hp.len_pos
        have h2 := hp.len_le
        have hsub : ∃ ms1, some (c, pos) :: ms' = (posText pos ((c :: cs).take s.len)).map some ++ ms1 ∧
            OkSrc T st (pos + s.len) ((c :: cs).drop s.len) ms1 := by
          by_cases hsp : isSpace c = true
          · refine OkSrc_drop_space T st s.len pos (c :: cs) _ h2 hok0 ?_
            intro x hx
            rw [← hp.txt, hp.first] at hx
            simp only [firstTokTxt, hsp, if_true] at hx
            exact mem_takeWhile_imp _ _ _ hx
          · have := (hone (by simpa using hsp)).1
            rw [this]
            exact ⟨ms', rfl, hsub0⟩
        obtain ⟨ms1, hms1, hsub⟩ := hsub
        rw [scanSteps_step T.toTables src fuel pos c cs s hs (by omega)]
        have hl : ((c :: cs).drop s.len).length ≤ fuel := by
          simp only [List.length_drop]; simp only [List.length_cons] at hf h2 ⊢; omega
        have hl' : ((c :: cs).drop s.len).length ≤ n := by
          simp only [List.length_drop]; simp only [List.length_cons] at hn h2 ⊢; omega
        obtain ⟨i1, I⟩ := ih fuel (pos + s.len) ((c :: cs).drop s.len) ms1 hl' hl hsub
        obtain ⟨ps', hflat, hpok, hmarks, hsimple, hcost⟩ := I.pieces
        have hne : s.tok.txt ≠ [] := by
          rw [hp.txt]
          intro h0
          have := congrArg List.length h0
          simp only [List.length_take, List.length_nil] at this
          omega
        have hshape : Shape s.tok := by
          refine ⟨hne, ?_⟩
          intro hnl
          by_cases hsp : isSpace c = true
          · rw [hp.first]
            simp only [firstTokTxt, hsp, if_true, isBlank, List.all_eq_true]
            exact fun x hx => mem_takeWhile_imp _ _ _ hx
          · have hsp' : isSpace c = false := by simpa using hsp
            have := (hone hsp').1
            rw [hp.txt, this] at hnl
            simp only [List.take_succ_cons, List.take_zero] at hnl
            rw [hasNl_single c hsp'] at hnl; cases hnl
        refine ⟨i1, ?_, ?_, ?_⟩
        · intro x hx
          rcases List.mem_cons.mp hx with rfl | hx
          · exact ⟨hp.diag, hp.extra⟩
          · exact I.ok x hx
        · refine ⟨.tok s.tok :: ps', by simp [flat, Piece.toks, hflat], ⟨hp.tok, ?_, hpok⟩, ?_, ?_, ?_⟩
          · -- the short-macro branch
            rw [← hflat]
            have hact := hat
            simp only [okAt, Bool.and_eq_true, Bool.or_eq_true, Bool.not_eq_true'] at hact
            rcases hact.1 with hna | ⟨hns, hk⟩
            · left
              have : s.tok.txt = c :: (cs.take (s.len - 1)) := by
                rw [hp.txt]
                obtain ⟨k, hk⟩ : ∃ k, s.len = k + 1 := ⟨s.len - 1, by omega⟩
                rw [hk]; simp
              rw [this]
              exact not_active_cons T st c _ hna
            · right
              have hlen := (hone hns).1
              have htxt : s.tok.txt = [c] := by rw [hp.txt, hlen]; rfl
              have i4 := I.first
              rw [hlen] at i4 ⊢
              simp only [List.drop_succ_cons, List.drop_zero] at i4 ⊢
              cases hr : (scanSteps T.toTables src fuel (pos + 1) cs).1 with
              | nil => rfl
              | cons s2 ss =>
                simp only [List.map_cons]
                apply expandShortMacro_none
                rw [htxt, i4 s2 ss hr]
                rcases hk with hk | hk
                · cases cs with
                  | nil => cases fuel <;> simp [scanSteps] at hr
                  | cons => simp at hk
                · simpa using hk
          · simp only [outP]
            rw [marksOf_cons, tokMarks_nonaction _ hp.tok.notAction, tokChars_nofix _ hp.fix, hmarks,
              hp.txt, hp.pos, hms1]
          · intro x hx
            simp only [outP, List.mem_cons] at hx
            rcases hx with rfl | hx
            · exact simple_of_plain hp.tok hshape
            · exact hsimple x hx
          · simp only [cost, List.length_cons, List.length_drop] at hcost h2 ⊢
            omega
        · intro s' ss' he
          simp only [List.cons.injEq] at he
          rw [← he.1, hp.first]
          refine (firstTokTxtM_of_text c cs ?_).symm
          rcases hsnd with h | h
          · exact Or.inl h
          · exact Or.inr h.1
      | ref _ name key R ms' hd hsub =>
        have V := refFacts hd
        have hname := List.length_pos_iff.mpr V.cw.ne
        simp only [List.length_cons, List.length_append] at hf hn
        have hn1 := nextToken_cw T _ src pos name _ V.cw
        obtain ⟨ksteps, B, hrun⟩ := scanSteps_braced T src (pos + (name.length + 1)) fuel key R
          (by omega) V.br
        have hBl := B.len
        have hpos : pos + (name.length + 1) + (key.length + 2) = pos + callLen name key := by
          simp only [callLen]; omega
        obtain ⟨i1, I⟩ := ih (fuel - ksteps.length - 2) (pos + callLen name key) R ms' (by omega)
          (by omega) hsub
        obtain ⟨ps', hflat, hpok, hmarks, hsimple, hcost⟩ := I.pieces
        have hd1 : ('\\' :: (name ++ '{' :: (key ++ '}' :: R))).drop (name.length + 1)
            = '{' :: (key ++ '}' :: R) := by simp
        rw [scanSteps_step T.toTables src fuel pos _ _ _ hn1 (by simp), hd1]
        simp only []
        rw [hrun, hpos]
        obtain ⟨hph, hrne, hrlen⟩ := V.rn.repl
        refine ⟨i1, ?_, ?_, ?_⟩
        · intro x hx
          simp only [List.mem_cons, List.mem_append] at hx
          rcases hx with rfl | rfl | hx | rfl | hx
          · exact ⟨rfl, rfl⟩
          · exact ⟨rfl, rfl⟩
          · exact ⟨(B.ok x hx).1, (B.ok x hx).2.1⟩
          · exact ⟨rfl, rfl⟩
          · exact I.ok x hx
        · refine ⟨.ref pos (pos + (name.length + 1)) (pos + (name.length + 1) + 1 + key.length) name
              (ksteps.map (·.tok)) :: ps', ?_, ⟨V.rn, KeyRun.toks B, hpok⟩, ?_, ?_, ?_⟩
          · simp [flat, Piece.toks, hflat]
          · simp only [outP]
            rw [marksOf_cons, tokMarks_mkAction, marksOf_append,
              marksOf_restamp _ _ (fun t ht => (hph t ht).plain), hmarks]
            rfl
          · intro x hx
            simp only [outP, List.mem_cons, List.mem_append] at hx
            rcases hx with rfl | hx | hx
            · exact simple_mkAction pos
            · obtain ⟨u, hu, rfl⟩ := List.mem_map.mp hx
              exact simple_restamp pos (hph u hu)
            · exact hsimple x hx
          · simp only [cost, List.length_cons, List.length_append]
            omega
        · intro s' ss' he
          simp only [List.cons.injEq] at he
          rw [← he.1]
          exact (firstTok_cw name _ V.cw.tw).symm
      | cite _ name key R ms' hd hsub =>
        have V := citeFacts hd
        have hname := List.length_pos_iff.mpr V.cw.ne
        simp only [List.length_cons, List.length_append] at hf hn
        have hn1 := nextToken_cw T _ src pos name _ V.cw
        obtain ⟨ksteps, B, hrun⟩ := scanSteps_braced T src (pos + (name.length + 1)) fuel key R
          (by omega) V.br
        have hBl := B.len
        have hpos : pos + (name.length + 1) + (key.length + 2) = pos + callLen name key := by
          simp only [callLen]; omega
        obtain ⟨i1, I⟩ := ih (fuel - ksteps.length - 2) (pos + callLen name key) R ms' (by omega)
          (by omega) hsub
        obtain ⟨ps', hflat, hpok, hmarks, hsimple, hcost⟩ := I.pieces
        have hd1 : ('\\' :: (name ++ '{' :: (key ++ '}' :: R))).drop (name.length + 1)
            = '{' :: (key ++ '}' :: R) := by simp
        rw [scanSteps_step T.toTables src fuel pos _ _ _ hn1 (by simp), hd1]
        simp only []
        rw [hrun, hpos]
        refine ⟨i1, ?_, ?_, ?_⟩
        · intro x hx
          simp only [List.mem_cons, List.mem_append] at hx
          rcases hx with rfl | rfl | hx | rfl | hx
          · exact ⟨rfl, rfl⟩
          · exact ⟨rfl, rfl⟩
          · exact ⟨(B.ok x hx).1, (B.ok x hx).2.1⟩
          · exact ⟨rfl, rfl⟩
          · exact I.ok x hx
        · refine ⟨.cite pos (pos + (name.length + 1)) (pos + (name.length + 1) + 1 + key.length) name
              (ksteps.map (·.tok)) :: ps', ?_, ⟨V.cn, KeyRun.toks B, hpok⟩, ?_, ?_, ?_⟩
          · simp [flat, Piece.toks, hflat]
          · simp only [outP]
            rw [marksOf_cons, tokMarks_mkAction, marksOf_append, marksOf_citeToks, hmarks]
            simp
          · intro x hx
            simp only [outP, citeToks, List.mem_cons, List.cons_append, List.nil_append] at hx
            rcases hx with rfl | rfl | rfl | hx
            · exact simple_mkAction pos
            · exact simple_vis _ rfl (by simp [mkFix]; decide)
            · exact simple_mkAction pos
            · exact hsimple x hx
          · simp only [cost, List.length_cons, List.length_append]
            omega
        · intro s' ss' he
          simp only [List.cons.injEq] at he
          rw [← he.1]
          exact (firstTok_cw name _ V.cw.tw).symm
      | citeN _ name note key R ms' hd hsub =>
        have V := citeNFacts hd
        have hname := List.length_pos_iff.mpr V.cw.ne
        simp only [List.length_cons, List.length_append] at hf hn
        have hn1 := nextToken_cw T _ src pos name _ V.cw
        obtain ⟨nsteps, N, hnrun⟩ := scanSteps_note T st src (pos + (name.length + 1)) fuel note
          ('{' :: (key ++ '}' :: R)) (by omega) V.lb V.txt V.rb
        have hNl := N.len
        obtain ⟨ksteps, B, hrun⟩ := scanSteps_braced T src
          (pos + (name.length + 1) + (note.length + 2)) (fuel - nsteps.length - 2) key R
          (by omega) V.br
        have hBl := B.len
        have hpos : pos + (name.length + 1) + (note.length + 2) + (key.length + 2)
            = pos + callNLen name note key := by
          simp only [callNLen]; omega
        obtain ⟨i1, I⟩ := ih (fuel - nsteps.length - 2 - ksteps.length - 2)
          (pos + callNLen name note key) R ms' (by omega) (by omega) hsub
        obtain ⟨ps', hflat, hpok, hmarks, hsimple, hcost⟩ := I.pieces
        have hd1 : ('\\' :: (name ++ '[' :: (note ++ ']' :: '{' :: (key ++ '}' :: R)))).drop
            (name.length + 1) = '[' :: (note ++ ']' :: '{' :: (key ++ '}' :: R)) := by simp
        rw [scanSteps_step T.toTables src fuel pos _ _ _ hn1 (by simp), hd1]
        simp only []
        rw [hnrun, hrun, hpos]
        have hnne : nsteps.map (·.tok) ≠ [] := by
          intro e
          exact V.ne (N.nil_iff (by simpa using e))
        have hnote : ∀ t ∈ nsteps.map (·.tok), CopyTok T st t ∧ t.txt ≠ [']'] := by
          intro t ht
          obtain ⟨x, hx, rfl⟩ := List.mem_map.mp ht
          refine ⟨(N.ok x hx).2.2, ?_⟩
          intro e
          have hmem := mem_txt_of_getTxtPos (c := ']') ht (by rw [e]; simp)
          rw [N.txt] at hmem
          exact V.nrb hmem
        have hlast : lastPos (nsteps.map (·.tok)) = pos + (name.length + 1) + 1 + lastTokOff note := by
          cases hgl : (nsteps.map (·.tok)).getLast? with
          | none => exact absurd (List.getLast?_eq_none_iff.mp hgl) hnne
          | some l => rw [lastPos_of_getLast hgl, N.last l hgl]
        refine ⟨i1, ?_, ?_, ?_⟩
        · intro x hx
          simp only [List.mem_cons, List.mem_append] at hx
          rcases hx with rfl | rfl | hx | rfl | rfl | hx | rfl | hx
          · exact ⟨rfl, rfl⟩
          · exact ⟨rfl, rfl⟩
          · exact ⟨(N.ok x hx).1, (N.ok x hx).2.1⟩
          · exact ⟨rfl, rfl⟩
          · exact ⟨rfl, rfl⟩
          · exact ⟨(B.ok x hx).1, (B.ok x hx).2.1⟩
          · exact ⟨rfl, rfl⟩
          · exact I.ok x hx
        · refine ⟨.citeN pos (pos + (name.length + 1)) (pos + (name.length + 1) + 1 + note.length)
              (pos + (name.length + 1) + (note.length + 2))
              (pos + (name.length + 1) + (note.length + 2) + 1 + key.length) name
              (nsteps.map (·.tok)) (ksteps.map (·.tok)) :: ps', ?_,
              ⟨V.cn, hnne, hnote, KeyRun.toks B, hpok⟩, ?_, ?_, ?_⟩
          · simp [flat, Piece.toks, hflat]
          · simp only [outP]
            rw [marksOf_cons, tokMarks_mkAction, marksOf_append,
              marksOf_citeNToks pos _ _ note _ (marksOf_textrun N) hlast, hmarks]
            have e : pos + (name.length + 1) + 1 = pos + name.length + 2 := by omega
            simp [e]
          · intro x hx
            simp only [outP, citeNToks, List.mem_cons, List.cons_append, List.mem_append,
              List.append_assoc, List.nil_append] at hx
            rcases hx with rfl | rfl | rfl | hx | rfl | rfl | hx
            · exact simple_mkAction pos
            · exact simple_vis _ rfl (by simp [mkFix]; decide)
            · exact ⟨fun ha => by simp [isAction, mkFix] at ha, rfl, fun _ => by simp [mkFix]; decide⟩
            · exact simple_of_copy (hnote x hx).1
            · exact simple_vis _ rfl (by simp [mkTok]; decide)
            · exact simple_mkAction _
            · exact hsimple x hx
          · simp only [cost, List.length_cons, List.length_append, List.length_map]
            omega
        · intro s' ss' he
          simp only [List.cons.injEq] at he
          rw [← he.1]
          exact (firstTok_cw name _ V.cw.tw).symm

/-- `scan` on a well-formed source: no diagnostics; the token buffer consists of plain tokens and
    calls, and its output tokens spell the marks of the source -/
theorem scan_ref (T : PTables) (st : PState) (src : Str) (ms : List Mark)
    (h : OkSrc T st 0 src ms) :
    (scan T.toTables src).diags = [] ∧
    ∃ ps, (scan T.toTables src).toks = flat ps ∧ PiecesOk T st ps ∧ marksOf (outP st ps) = ms ∧
      (∀ t ∈ outP st ps, Simple t) ∧ cost st ps ≤ src.length := by
  obtain ⟨_, F⟩ := scanSteps_ref T st src src.length src.length 0 src ms (Nat.le_refl _)
    (Nat.le_refl _) h
  have he := flatten_tok_extra (scanSteps T.toTables src src.length 0 src).1 (fun s hs => (F.ok s hs).2)
  have hd := flatten_diag_nil (scanSteps T.toTables src src.length 0 src).1 (fun s hs => (F.ok s hs).1)
  obtain ⟨ps, h1, h2, h3, h4, h5⟩ := F.pieces
  simp only [scan]
  rw [he, hd]
  exact ⟨rfl, ps, h1, h2, h3, h4, h5⟩

/-! ### `parserWork`, `parse`, `tex2txt` -/

/-- **`parserWork` on a well-formed source.**  The characters of the result tokens, with their
    positions, are the marks of the document with the pure Action lines deleted.  The state is
    unchanged. -/
theorem parserWork_ref (T : PTables) (st : PState) (src : Str) (fuel : Nat) (ms : List Mark)
    (hf : src.length + 2 ≤ fuel) (S : StateFacts T st) (h : OkSrc T st 0 src ms) :
    ∃ r, parserWork T fuel src st = .ok (r, st) ∧ charsOf r = delLines ms := by
  obtain ⟨f, rfl⟩ : ∃ f, fuel = f + 1 := ⟨fuel - 1, by omega⟩
  obtain ⟨hd, ps, hflat, hpok, hmarks, hsimple, hcost⟩ := scan_ref T st src ms h
  let st' : PState := { st with latex := src, nest := st.nest + 1 }
  have hpok' : PiecesOk T st' ps := PiecesOk.congr (st := st) (st' := st') rfl rfl hpok
  have hout : outP st' ps = outP st ps := outP_congr (st := st) (st' := st') rfl ps
  have hc : cost st' ps = cost st ps := cost_congr (st := st) (st' := st') rfl ps
  have hs := seq_ref T none st' (StateFacts.congr (st := st) (st' := st') rfl S) ps f [] (by omega) hpok'
  rw [List.nil_append, hout] at hs
  obtain ⟨r, hr, hchars⟩ := removeLines_simple _ hsimple
  rw [hr] at hs
  simp only [] at hs
  rw [hmarks] at hchars
  refine ⟨r, ?_, hchars⟩
  rw [parserWork.eq_2]
  refine (M.bind_ok _ _ _ _ _ (rfl : M.get st = _)).trans ?_
  refine (M.bind_ok _ _ _ _ _ (rfl : M.modify _ _ = _)).trans ?_
  refine (M.bind_ok _ _ _ _ _ (rfl : M.modify _ _ = _)).trans ?_
  refine (M.bind_ok _ _ _ _ _ (rfl : M.get _ = _)).trans ?_
  simp only [hd, List.append_nil]
  rw [skipPass_nocomment _ _ _ (fun t ht' => hpok.notComment t (by rw [← hflat]; exact ht'))]
  simp only []
  refine (M.bind_ok _ _ _ _ _ (rfl : (pure _ : M (List Tok)) _ = _)).trans ?_
  rw [hflat]
  refine (M.bind_ok _ _ _ _ _ hs).trans ?_
  refine (M.bind_ok _ _ _ _ _ (rfl : M.modify _ _ = _)).trans ?_
  show Outcome.ok _ = _
  simp only [st', Nat.add_sub_cancel]

theorem parse_ref (T : PTables) (st : PState) (src : Str) (fuel : Nat) (ms : List Mark)
    (hf : src.length + 2 ≤ fuel) (S : StateFacts T st) (h : OkSrc T st 0 src ms) :
    ∃ r, parse T fuel src [] [] st
        = .ok (r, { st with extracted := [], unknowns := [], foreign := false, nest := 0 }) ∧
      charsOf r = delLines ms := by
  have h' : OkSrc T { st with extracted := [], unknowns := [], foreign := false, nest := 0 } 0 src ms :=
    OkSrc.congr (st := st)
      (st' := { st with extracted := [], unknowns := [], foreign := false, nest := 0 }) rfl rfl h
  obtain ⟨r, hw, hc⟩ := parserWork_ref T
    { st with extracted := [], unknowns := [], foreign := false, nest := 0 } src fuel ms hf
    (StateFacts.congr (st := st) rfl S) h'
  refine ⟨r, ?_, hc⟩
  unfold parse
  simp only [List.isEmpty_nil, Bool.not_true, Bool.false_eq_true, if_false, if_true]
  refine (M.bind_ok _ _ _ _ _ (rfl : M.modify _ _ = _)).trans ?_
  refine (M.bind_ok _ _ _ _ _ (rfl : (pure _ : M (List Tok)) _ = _)).trans ?_
  refine (M.bind_ok _ _ _ _ _ (rfl : M.modify _ _ = _)).trans ?_
  refine (M.bind_ok _ _ _ _ _ hw).trans ?_
  refine (M.bind_ok _ _ _ _ _ (rfl : M.get _ = _)).trans ?_
  show Outcome.ok _ = _
  simp

/-- the result record of `tex2txt` on a well-formed source (no `--defs`, `--extr`, `--repl`,
    `--unkn`; single-language mode) -/
theorem tex2txt_ref_src (T : PTables) (o : Options) (fs : FS) (thresh : Nat) (src : Str) (fuel : Nat)
    (st1 : PState) (ms : List Mark)
    (hdefs : o.defs = []) (hextr : o.extr = []) (hrepl : o.hasRepl = false) (hunkn : o.unkn = false)
    (hinit : initParser T fuel o (initialState T o false fs) = .ok ((), st1))
    (S : StateFacts T st1) (h : OkSrc T st1 0 src ms)
    (hf : src.length + 2 ≤ fuel) :
    ∃ toks, tex2txt T fuel src o false thresh fs
        = .ok { toks := toks, txt := (delLines ms).map (·.1),
                pos := (delLines ms).map (·.2 + 1), parts := [],
                unknowns := [], diags := st1.diags, foreign := false } := by
  obtain ⟨r, hp, hc⟩ := parse_ref T st1 src fuel ms hf S h
  refine ⟨r, ?_⟩
  have hrun : (initParser T fuel o >>= fun _ => parse T fuel src o.defs
        (if o.extr.isEmpty then [] else (splitOn ',' o.extr []).map (fun s => '\\' :: s)))
        (initialState T o false fs)
      = .ok (r, { st1 with extracted := [], unknowns := [], foreign := false, nest := 0 }) := by
    refine (M.bind_ok _ _ _ _ _ hinit).trans ?_
    rw [hdefs, hextr]
    exact hp
  unfold tex2txt
  simp only []
  rw [hrun]
  simp only [hrepl, hunkn, Bool.not_false, if_true, Bool.false_eq_true, if_false,
    getTxtPos_charsOf, hc, List.map_map]
  rfl

/-! ### no line is deleted -/

/-- every continuation from a state that is not "blank and marked" keeps all lines -/
def Safe (X : List Mark) : Prop := ∀ b a, (b && a) = false → linesKept b a X = true

theorem Safe_nil : Safe [] := by
  intro b a h; simp [linesKept, h]

theorem Safe_chr (cp : Char × Nat) {X : List Mark} (hX : Safe X) : Safe (some cp :: X) := by
  intro b a h
  simp only [linesKept]
  split
  · simp [h, hX true false rfl]
  · refine hX _ a ?_
    cases b <;> cases a <;> simp_all

theorem Safe_chars {X : List Mark} (hX : Safe X) : ∀ (l : List (Char × Nat)), Safe (l.map some ++ X)
  | [] => hX
  | cp :: l => Safe_chr cp (Safe_chars hX l)

/-- an Action mark in front of a visible character -/
theorem Safe_mark_vis (cp : Char × Nat) (hv : isSpace cp.1 = false) {X : List Mark} (hX : Safe X) :
    Safe (none :: some cp :: X) := by
  intro b a _
  have hn : (cp.1 == nl) = false := by
    cases hb : cp.1 == nl with
    | false => rfl
    | true => rw [beq_iff_eq] at hb; rw [hb] at hv; exact absurd hv (by decide)
  simp only [linesKept, hn, Bool.false_eq_true, if_false, hv, Bool.and_false]
  exact hX false true rfl

/-- an Action mark behind a visible character -/
theorem Safe_vis_mark (cp : Char × Nat) (hv : isSpace cp.1 = false) {X : List Mark} (hX : Safe X) :
    Safe (some cp :: none :: X) := by
  intro b a _
  have hn : (cp.1 == nl) = false := by
    cases hb : cp.1 == nl with
    | false => rfl
    | true => rw [beq_iff_eq] at hb; rw [hb] at hv; exact absurd hv (by decide)
  simp only [linesKept, hn, Bool.false_eq_true, if_false, hv, Bool.and_false]
  exact hX false true rfl

theorem fixMarks_eq (p : Nat) (s : Str) : fixMarks p s = (s.map (fun c => (c, p))).map some := by
  simp [fixMarks]

/-- the placeholder of a reference macro is not empty and starts with a visible character -/
def PhVisible (st : PState) (name : Str) : Prop :=
  ∃ c cs, phOf st name = c :: cs ∧ isSpace c = false

theorem RefName.visible {T : PTables} {st : PState} {name : Str} (h : RefName T st name) :
    PhVisible st name := by
  obtain ⟨hph, hne, _⟩ := h.repl
  unfold PhVisible phOf
  cases hr : replOf st name with
  | nil => exact absurd hr hne
  | cons t ts =>
    have P := hph t (by rw [hr]; simp)
    cases ht : t.txt with
    | nil => exact absurd ht P.ne
    | cons c cs =>
      exact ⟨c, cs ++ bodyTxt ts, by simp [bodyTxt, ht], P.vis c (by rw [ht]; simp)⟩

/-- the placeholders of all references of the document are visible -/
def RefsVisible (st : PState) : List Seg → Prop
  | [] => True
  | .ref name _ :: rest => PhVisible st name ∧ RefsVisible st rest
  | _ :: rest => RefsVisible st rest

theorem refsVisible_of_segsOk (T : PTables) (st : PState) : ∀ (segs : List Seg),
    segsOk T st segs = true → RefsVisible st segs
  | [], _ => trivial
  | .txt s :: rest, h => by
    simp only [segsOk, Bool.and_eq_true] at h
    exact refsVisible_of_segsOk T st rest h.2
  | .ref name key :: rest, h => by
    simp only [segsOk, Bool.and_eq_true] at h
    exact ⟨(refFacts h.1).rn.visible, refsVisible_of_segsOk T st rest h.2⟩
  | .cite name none key :: rest, h => by
    simp only [segsOk, Bool.and_eq_true] at h
    exact refsVisible_of_segsOk T st rest h.2
  | .cite name (some note) key :: rest, h => by
    simp only [segsOk, Bool.and_eq_true] at h
    exact refsVisible_of_segsOk T st rest h.2

/-- every call leaves a visible character next to each of its Action marks: no line is deleted -/
theorem marks_safe (st : PState) : ∀ (segs : List Seg) (p : Nat), RefsVisible st segs →
    Safe (marks st p segs)
  | [], _, _ => Safe_nil
  | .txt s :: rest, p, h => by
    simp only [marks]
    exact Safe_chars (marks_safe st rest _ h) _
  | .ref name key :: rest, p, h => by
    obtain ⟨⟨c, cs, hc, hv⟩, hr⟩ := h
    simp only [marks, hc, fixMarks, List.map_cons, List.cons_append]
    refine Safe_mark_vis (c, p) hv ?_
    have := Safe_chars (marks_safe st rest (p + callLen name key) hr) (cs.map (fun c => (c, p)))
    rw [List.map_map] at this
    exact this
  | .cite name none key :: rest, p, h => by
    have hr : RefsVisible st rest := h
    have h1 := marks_safe st rest (p + callLen name key) hr
    show Safe (none :: some ('[', p) :: some ('0', p) :: some (']', p) :: none :: _)
    exact Safe_mark_vis ('[', p) (show isSpace '[' = false by decide) (Safe_chr _ (Safe_vis_mark (']', p) (show isSpace ']' = false by decide) h1))
  | .cite name (some note) key :: rest, p, h => by
    have hr : RefsVisible st rest := h
    have h1 := marks_safe st rest (p + callNLen name note key) hr
    have h2 := Safe_vis_mark (']', p + name.length + 2 + lastTokOff note)
      (show isSpace ']' = false by decide) h1
    have h3 := Safe_chars h2 (posText (p + name.length + 2) note)
    show Safe (none :: some ('[', p) :: some ('0', p) :: some (',', p) :: some (' ', p) :: _)
    exact Safe_mark_vis ('[', p) (show isSpace '[' = false by decide) (Safe_chr _ (Safe_chr _ (Safe_chr _ h3)))

/-! ### the reference output -/

/-- generated characters, all at position `p` -/
def fixChars (p : Nat) (s : Str) : List (Char × Nat) := s.map (fun c => (c, p))

/-- **the reference output** of a document that starts at position `p`: characters with their
    (0-based) source positions —
    * a text character is copied with its own position;
    * `\ref{key}` is replaced by the placeholder text of the declaration (`phOf`; real tables: `0`),
      every character of it at the position of the backslash;
    * `\cite{key}` is replaced by `[0]`, every character at the position of the backslash;
    * `\cite[note]{key}` is replaced by `[0, note]`: `[0, ` at the position of the backslash, the
      note at its own positions (it starts `|name| + 2` characters behind the backslash), the
      closing `]` at the start of the last token of the note (`lastTokOff`: its last character,
      or the start of the run of white space the note ends with);
    * nothing of a key appears. -/
def refOut (st : PState) : Nat → List Seg → List (Char × Nat)
  | _, [] => []
  | p, .txt s :: rest => posText p s ++ refOut st (p + s.length) rest
  | p, .ref name key :: rest => fixChars p (phOf st name) ++ refOut st (p + callLen name key) rest
  | p, .cite name none key :: rest =>
    fixChars p "[0]".toList ++ refOut st (p + callLen name key) rest
  | p, .cite name (some note) key :: rest =>
    fixChars p "[0, ".toList ++ (posText (p + name.length + 2) note ++
      (']', p + name.length + 2 + lastTokOff note) :: refOut st (p + callNLen name note key) rest)

theorem filterMap_fixMarks (p : Nat) (s : Str) : (fixMarks p s).filterMap id = fixChars p s := by
  simp only [fixMarks_eq, filterMap_map_some, fixChars]

theorem marks_chars (st : PState) : ∀ (segs : List Seg) (p : Nat),
    (marks st p segs).filterMap id = refOut st p segs
  | [], _ => rfl
  | .txt s :: rest, p => by
    simp only [marks, refOut, List.filterMap_append, filterMap_map_some, marks_chars st rest]
  | .ref name key :: rest, p => by
    simp only [marks, refOut, List.filterMap_cons, id, List.filterMap_append, filterMap_fixMarks,
      marks_chars st rest]
  | .cite name none key :: rest, p => by
    simp only [marks, refOut, List.filterMap_cons, id, List.filterMap_append, filterMap_fixMarks,
      marks_chars st rest]
  | .cite name (some note) key :: rest, p => by
    simp only [marks, refOut, List.filterMap_cons, id, List.filterMap_append, filterMap_fixMarks,
      filterMap_map_some, marks_chars st rest]

/-- no line is deleted: the blank-line removal only drops the Action marks -/
theorem delLines_marks (T : PTables) (st : PState) (segs : List Seg)
    (h : segsOk T st segs = true) : delLines (marks st 0 segs) = refOut st 0 segs := by
  rw [delLines_kept _ (marks_safe st segs 0 (refsVisible_of_segsOk T st segs h) true false rfl),
    marks_chars]

/-- **C04 / C03 end to end, references and citations.**  The document consists of inert text,
    references `\name{key}` and citations `\name{key}`, `\name[note]{key}` (`SegsOk`: all side
    conditions); `st1` is the state after `Parser.__init__`; no `--defs`, `--extr`, `--repl`,
    `--unkn`; single-language mode.  With one unit of fuel per source character and two more,
    `tex2txt` succeeds, the output text with its (1-based) positions is `refOut st1 0 segs`,
    there are no unknowns and no diagnostic is added. -/
theorem tex2txt_ref_cite (T : PTables) (o : Options) (fs : FS) (thresh : Nat) (segs : List Seg)
    (fuel : Nat) (st1 : PState)
    (hdefs : o.defs = []) (hextr : o.extr = []) (hrepl : o.hasRepl = false) (hunkn : o.unkn = false)
    (hinit : initParser T fuel o (initialState T o false fs) = .ok ((), st1))
    (hok : SegsOk T st1 segs) (hf : (render segs).length + 2 ≤ fuel) :
    ∃ r, tex2txt T fuel (render segs) o false thresh fs = .ok r ∧
      r.txt = (refOut st1 0 segs).map (·.1) ∧
      r.pos = (refOut st1 0 segs).map (·.2 + 1) ∧
      r.unknowns = [] ∧ r.diags = st1.diags ∧ r.parts = [] := by
  obtain ⟨hst, hsegs⟩ := hok
  have hsrc := OkSrc_of_segsOk T st1 segs 0 hsegs
  obtain ⟨toks, ht⟩ := tex2txt_ref_src T o fs thresh (render segs) fuel st1 _ hdefs hextr hrepl hunkn
    hinit (stateFacts hst) hsrc hf
  rw [delLines_marks T st1 segs hsegs] at ht
  exact ⟨_, ht, rfl, rfl, rfl, rfl, rfl⟩

/-! ### readings of the reference -/

/-- the spans `(start, length)` of the calls: from the backslash through the closing brace of the key -/
def spans : Nat → List Seg → List (Nat × Nat)
  | _, [] => []
  | p, .txt s :: rest => spans (p + s.length) rest
  | p, .ref name key :: rest => (p, callLen name key) :: spans (p + callLen name key) rest
  | p, .cite name none key :: rest => (p, callLen name key) :: spans (p + callLen name key) rest
  | p, .cite name (some note) key :: rest =>
    (p, callNLen name note key) :: spans (p + callNLen name note key) rest

/-- the spans `(start, length)` of the keys with their braces: `{key}` -/
def keySpans : Nat → List Seg → List (Nat × Nat)
  | _, [] => []
  | p, .txt s :: rest => keySpans (p + s.length) rest
  | p, .ref name key :: rest =>
    (p + name.length + 1, key.length + 2) :: keySpans (p + callLen name key) rest
  | p, .cite name none key :: rest =>
    (p + name.length + 1, key.length + 2) :: keySpans (p + callLen name key) rest
  | p, .cite name (some note) key :: rest =>
    (p + name.length + note.length + 3, key.length + 2) :: keySpans (p + callNLen name note key) rest

/-- the characters of the text segments with their own positions -/
def textChars : Nat → List Seg → List (Char × Nat)
  | _, [] => []
  | p, .txt s :: rest => posText p s ++ textChars (p + s.length) rest
  | p, s :: rest => textChars (p + s.len) rest

theorem lastTokOff_le (s : Str) : lastTokOff s ≤ s.length := by
  unfold lastTokOff; omega

theorem mem_fixChars {cp : Char × Nat} {p : Nat} {s : Str} (h : cp ∈ fixChars p s) : cp.2 = p := by
  simp only [fixChars, List.mem_map] at h
  obtain ⟨c, _, rfl⟩ := h
  rfl

open PlainVanish (mem_posText)

theorem refOut_ge (st : PState) {cp : Char × Nat} : ∀ {segs : List Seg} {p : Nat},
    cp ∈ refOut st p segs → p ≤ cp.2
  | [], _, h => by simp [refOut] at h
  | .txt s :: rest, p, h => by
    simp only [refOut, List.mem_append] at h
    rcases h with h | h
    · exact (mem_posText h).1
    · have := refOut_ge st h; omega
  | .ref name key :: rest, p, h => by
    simp only [refOut, List.mem_append] at h
    rcases h with h | h
    · rw [mem_fixChars h]; exact Nat.le_refl _
    · have := refOut_ge st h; omega
  | .cite name none key :: rest, p, h => by
    simp only [refOut, List.mem_append] at h
    rcases h with h | h
    · rw [mem_fixChars h]; exact Nat.le_refl _
    · have := refOut_ge st h; omega
  | .cite name (some note) key :: rest, p, h => by
    simp only [refOut, List.mem_append, List.mem_cons] at h
    rcases h with h | h | rfl | h
    · rw [mem_fixChars h]; exact Nat.le_refl _
    · have := (mem_posText h).1; omega
    · simp only []; omega
    · have := refOut_ge st h; omega

theorem keySpans_ge {q : Nat × Nat} : ∀ {segs : List Seg} {p : Nat}, q ∈ keySpans p segs → p ≤ q.1
  | [], _, h => by simp [keySpans] at h
  | .txt s :: rest, p, h => by
    simp only [keySpans] at h
    have := keySpans_ge h; omega
  | .ref name key :: rest, p, h => by
    simp only [keySpans, List.mem_cons] at h
    rcases h with rfl | h
    · simp only []; omega
    · have := keySpans_ge h; omega
  | .cite name none key :: rest, p, h => by
    simp only [keySpans, List.mem_cons] at h
    rcases h with rfl | h
    · simp only []; omega
    · have := keySpans_ge h; omega
  | .cite name (some note) key :: rest, p, h => by
    simp only [keySpans, List.mem_cons] at h
    rcases h with rfl | h
    · simp only []; omega
    · have := keySpans_ge h; omega

/-- **no output position lies inside the braces of a key** -/
theorem refOut_no_key (st : PState) {cp : Char × Nat} {q : Nat × Nat} :
    ∀ {segs : List Seg} {p : Nat}, cp ∈ refOut st p segs → q ∈ keySpans p segs →
      cp.2 < q.1 ∨ q.1 + q.2 ≤ cp.2
  | [], _, h, _ => by simp [refOut] at h
  | .txt s :: rest, p, h, hq => by
    simp only [refOut, List.mem_append] at h
    simp only [keySpans] at hq
    rcases h with h | h
    · have := (mem_posText h).2
      have := keySpans_ge hq
      left; omega
    · exact refOut_no_key st h hq
  | .ref name key :: rest, p, h, hq => by
    simp only [refOut, List.mem_append] at h
    simp only [keySpans, List.mem_cons] at hq
    rcases h with h | h
    · have e := mem_fixChars h
      rcases hq with rfl | hq
      · left; simp only []; omega
      · have := keySpans_ge hq
        simp only [callLen] at this
        left; omega
    · rcases hq with rfl | hq
      · have := refOut_ge st h
        simp only [callLen] at this
        right; simp only []; omega
      · exact refOut_no_key st h hq
  | .cite name none key :: rest, p, h, hq => by
    simp only [refOut, List.mem_append] at h
    simp only [keySpans, List.mem_cons] at hq
    rcases h with h | h
    · have e := mem_fixChars h
      rcases hq with rfl | hq
      · left; simp only []; omega
      · have := keySpans_ge hq
        simp only [callLen] at this
        left; omega
    · rcases hq with rfl | hq
      · have := refOut_ge st h
        simp only [callLen] at this
        right; simp only []; omega
      · exact refOut_no_key st h hq
  | .cite name (some note) key :: rest, p, h, hq => by
    simp only [refOut, List.mem_append, List.mem_cons] at h
    simp only [keySpans, List.mem_cons] at hq
    have hlt := lastTokOff_le note
    rcases h with h | h | rfl | h
    · have e := mem_fixChars h
      rcases hq with rfl | hq
      · left; simp only []; omega
      · have := keySpans_ge hq
        simp only [callNLen] at this
        left; omega
    · have := mem_posText h
      rcases hq with rfl | hq
      · left; simp only []; omega
      · have := keySpans_ge hq
        simp only [callNLen] at this
        left; omega
    · rcases hq with rfl | hq
      · left; simp only []; omega
      · have := keySpans_ge hq
        simp only [callNLen] at this
        left; simp only []; omega
    · rcases hq with rfl | hq
      · have := refOut_ge st h
        simp only [callNLen] at this
        right; simp only []; omega
      · exact refOut_no_key st h hq

/-- **every output character is a text character at its own position, or its position lies in the
    span of a call** (from the backslash through the closing brace of the key) -/
theorem refOut_span (st : PState) {cp : Char × Nat} : ∀ {segs : List Seg} {p : Nat},
    cp ∈ refOut st p segs →
      cp ∈ textChars p segs ∨ ∃ q ∈ spans p segs, q.1 ≤ cp.2 ∧ cp.2 < q.1 + q.2
  | [], _, h => by simp [refOut] at h
  | .txt s :: rest, p, h => by
    simp only [refOut, List.mem_append] at h
    simp only [textChars, spans, List.mem_append]
    rcases h with h | h
    · exact Or.inl (Or.inl h)
    · rcases refOut_span st h with h | h
      · exact Or.inl (Or.inr h)
      · exact Or.inr h
  | .ref name key :: rest, p, h => by
    simp only [refOut, List.mem_append] at h
    simp only [textChars, spans, Seg.len, List.mem_cons]
    rcases h with h | h
    · have e := mem_fixChars h
      exact Or.inr ⟨_, Or.inl rfl, by simp only []; omega, by simp only [callLen]; omega⟩
    · rcases refOut_span st h with h | ⟨q, hq, h⟩
      · exact Or.inl h
      · exact Or.inr ⟨q, Or.inr hq, h⟩
  | .cite name none key :: rest, p, h => by
    simp only [refOut, List.mem_append] at h
    simp only [textChars, spans, Seg.len, List.mem_cons]
    rcases h with h | h
    · have e := mem_fixChars h
      exact Or.inr ⟨_, Or.inl rfl, by simp only []; omega, by simp only [callLen]; omega⟩
    · rcases refOut_span st h with h | ⟨q, hq, h⟩
      · exact Or.inl h
      · exact Or.inr ⟨q, Or.inr hq, h⟩
  | .cite name (some note) key :: rest, p, h => by
    simp only [refOut, List.mem_append, List.mem_cons] at h
    simp only [textChars, spans, Seg.len, List.mem_cons]
    have hlt := lastTokOff_le note
    rcases h with h | h | rfl | h
    · have e := mem_fixChars h
      exact Or.inr ⟨_, Or.inl rfl, by simp only []; omega, by simp only [callNLen]; omega⟩
    · have := mem_posText h
      exact Or.inr ⟨_, Or.inl rfl, by simp only []; omega, by simp only [callNLen]; omega⟩
    · exact Or.inr ⟨_, Or.inl rfl, by simp only []; omega, by simp only [callNLen]; omega⟩
    · rcases refOut_span st h with h | ⟨q, hq, h⟩
      · exact Or.inl h
      · exact Or.inr ⟨q, Or.inr hq, h⟩

end PlainRef
end Yalafi
