/-
  Proofs/HtmlTextHl.lean — the regular expression over `<br>\n` and `generate_highlight`.
  * `BrFree x`: the search of the regular expression runs through `x` (no `<br>\n` inside, none begun at its
    end); closed under `++`; `BrFree.noLt` (no `<` at all), `BrFree.ofB` (decidable: `brFreeB`).
  * `brMatches_protectHtml`: on a protected text the matches are its protected lines (`hlLines`).
  * `highlightWith_eq`, `highlightWith_strip`, and the facts about `hlLines` (no line break inside a piece, the
    pieces joined give the text, one terminated piece per line break, only the last piece unterminated).
-/
import YalafiVerif.Proofs.HtmlTextTok
namespace Yalafi
namespace HtmlText
open Html

/-! ### the regular expression over `<br>\n` -/

theorem brMatchesAux_cons_ne (a : Str) (c : Char) (rest : Str) (h : c ≠ '<') :
    brMatchesAux a (c :: rest) = brMatchesAux (a ++ [c]) rest := by
  rw [brMatchesAux]
  intro _ h2; exact absurd h2 h

theorem brMatchesAux_lt_ne (a : Str) (d : Char) (rest : Str) (h : d ≠ 'b') :
    brMatchesAux a ('<' :: d :: rest) = brMatchesAux (a ++ ['<']) (d :: rest) := by
  rw [brMatchesAux]
  intro r _ h2
  simp only [List.cons.injEq] at h2
  exact h h2.1

theorem brMatchesAux_br (a rest : Str) : brMatchesAux a (br ++ rest) = (a, true) :: brMatchesAux [] rest := by
  simp [br, brMatchesAux]

/-- `x` contains no `<br>\n`, and does not end in a begin of one: in front of any `rest` the search of
    the regular expression runs through `x` -/
def BrFree (x : Str) : Prop := ∀ a rest, brMatchesAux a (x ++ rest) = brMatchesAux (a ++ x) rest

theorem BrFree.nil : BrFree [] := by intro a rest; simp

theorem BrFree.append {x y : Str} (hx : BrFree x) (hy : BrFree y) : BrFree (x ++ y) := by
  intro a rest
  rw [List.append_assoc, hx, hy, List.append_assoc]

theorem BrFree.noLt {x : Str} (h : ∀ c ∈ x, c ≠ '<') : BrFree x := by
  induction x with
  | nil => exact BrFree.nil
  | cons c cs ih =>
    intro a rest
    have := ih (fun d hd => h d (by simp [hd])) (a ++ [c]) rest
    simp only [List.cons_append]
    rw [brMatchesAux_cons_ne _ _ _ (h c (by simp)), this]
    simp

/-- a decidable sufficient condition: no `<` at the end, none in front of a `b` -/
def brFreeB : Str → Bool
  | [] => true
  | c :: rest =>
    if c == '<' then (match rest with | [] => false | d :: _ => d != 'b') && brFreeB rest else brFreeB rest

theorem BrFree.ofB {x : Str} (h : brFreeB x = true) : BrFree x := by
  induction x with
  | nil => exact BrFree.nil
  | cons c cs ih =>
    unfold brFreeB at h
    split at h
    · rename_i hc
      simp only [beq_iff_eq] at hc; subst hc
      simp only [Bool.and_eq_true] at h
      cases cs with
      | nil => simp at h
      | cons d ds =>
        have hd : d ≠ 'b' := by simpa using h.1
        intro a rest
        have := ih h.2 (a ++ ['<']) rest
        simp only [List.cons_append] at this ⊢
        rw [brMatchesAux_lt_ne _ _ _ hd, this]; simp
    · rename_i hc
      have hc' : c ≠ '<' := by simpa using hc
      intro a rest
      have := ih h (a ++ [c]) rest
      simp only [List.cons_append]
      rw [brMatchesAux_cons_ne _ _ _ hc', this]; simp

/-! ### the line pieces of a text -/

/-- the pieces `generate_highlight` wraps: the lines of the text, each with the mark "a line break
    follows"; the rest behind the last line break only if it is not empty -/
def hlLinesAux : Str → Str → List (Str × Bool)
  | acc, [] => if acc.isEmpty then [] else [(acc, false)]
  | acc, c :: cs => if c == '\n' then (acc, true) :: hlLinesAux [] cs else hlLinesAux (acc ++ [c]) cs

def hlLines (s : Str) : List (Str × Bool) := hlLinesAux [] s

theorem phStep_ne_nil (c : Char) : phStep c ≠ [] := by
  unfold phStep
  split; · decide
  split; · decide
  split; · decide
  split; · decide
  split; · decide
  split; · decide
  split; · decide
  simp

theorem protectHtml_isEmpty (s : Str) : (protectHtml s).isEmpty = s.isEmpty := by
  cases s with
  | nil => rfl
  | cons c cs =>
    have := phStep_ne_nil c
    rw [protectHtml_eq, List.flatMap_cons]
    cases h : phStep c with
    | nil => exact absurd h this
    | cons d ds => rfl

theorem protectHtml_snoc (a : Str) (c : Char) : protectHtml (a ++ [c]) = protectHtml a ++ phStep c := by
  rw [protectHtml_append]; simp [protectHtml_eq]

theorem protectHtml_cons (c : Char) (s : Str) : protectHtml (c :: s) = phStep c ++ protectHtml s := by
  simp [protectHtml_eq]

/-- the matches of the regular expression in a protected text are its protected lines -/
theorem brMatchesAux_protectHtml (acc s : Str) :
    brMatchesAux (protectHtml acc) (protectHtml s) = (hlLinesAux acc s).map (fun l => (protectHtml l.1, l.2)) := by
  induction s generalizing acc with
  | nil =>
    have : protectHtml [] = [] := rfl
    rw [this, brMatchesAux, hlLinesAux, protectHtml_isEmpty]
    split <;> simp
  | cons c cs ih =>
    rw [protectHtml_cons, hlLinesAux]
    by_cases hc : c = '\n'
    · subst hc
      rw [phStep_nl, brMatchesAux_br]
      have := ih []
      have h0 : protectHtml [] = [] := rfl
      rw [h0] at this
      simp [this]
    · have hb : (c == '\n') = false := by simp [hc]
      rw [BrFree.noLt (phStep_noLt c hc), ← protectHtml_snoc, ih]
      simp [hb]

theorem brMatches_protectHtml (s : Str) :
    brMatches (protectHtml s) = (hlLines s).map (fun l => (protectHtml l.1, l.2)) := by
  have := brMatchesAux_protectHtml [] s
  exact this

/-- the text of the line pieces with their line breaks -/
def joinLines (ls : List (Str × Bool)) : Str := ls.flatMap (fun l => l.1 ++ (if l.2 then ['\n'] else []))

theorem hlLinesAux_join (acc s : Str) : joinLines (hlLinesAux acc s) = acc ++ s := by
  induction s generalizing acc with
  | nil =>
    rw [hlLinesAux]
    cases acc <;> simp [joinLines]
  | cons c cs ih =>
    rw [hlLinesAux]
    by_cases hc : c = '\n'
    · subst hc
      have := ih []
      simp [joinLines] at this ⊢
      exact this
    · have hb : (c == '\n') = false := by simp [hc]
      simp only [hb, Bool.false_eq_true, ↓reduceIte]
      rw [ih]; simp

theorem hlLinesAux_no_nl (acc s : Str) (hacc : '\n' ∉ acc) : ∀ l ∈ hlLinesAux acc s, '\n' ∉ l.1 := by
  induction s generalizing acc with
  | nil =>
    rw [hlLinesAux]
    split
    · simp
    · intro l hl; simp at hl; subst hl; exact hacc
  | cons c cs ih =>
    rw [hlLinesAux]
    by_cases hc : c = '\n'
    · subst hc
      intro l hl
      simp at hl
      rcases hl with hl | hl
      · subst hl; exact hacc
      · exact ih [] (by simp) l hl
    · have hb : (c == '\n') = false := by simp [hc]
      simp only [hb, Bool.false_eq_true, ↓reduceIte]
      apply ih
      simp only [List.mem_append, List.mem_singleton, not_or]
      exact ⟨hacc, fun e => hc e.symm⟩

/-- only the last line piece can be without a line break behind it, and then it is not empty -/
theorem hlLinesAux_shape (acc s : Str) :
    ∃ (ls : List Str) (last : Str), hlLinesAux acc s = ls.map (fun l => (l, true)) ++ (if last.isEmpty then [] else [(last, false)]) := by
  induction s generalizing acc with
  | nil => exact ⟨[], acc, by rw [hlLinesAux]; simp⟩
  | cons c cs ih =>
    rw [hlLinesAux]
    by_cases hc : c = '\n'
    · subst hc
      obtain ⟨ls, last, h⟩ := ih []
      exact ⟨acc :: ls, last, by simp [h]⟩
    · have hb : (c == '\n') = false := by simp [hc]
      simp only [hb, Bool.false_eq_true, ↓reduceIte]
      exact ih _

theorem hlLinesAux_count (acc s : Str) : ((hlLinesAux acc s).filter (·.2)).length = s.count '\n' := by
  induction s generalizing acc with
  | nil => rw [hlLinesAux]; split <;> simp
  | cons c cs ih =>
    rw [hlLinesAux]
    by_cases hc : c = '\n'
    · subst hc; simp [ih]
    · have hb : (c == '\n') = false := by simp [hc]
      simp [hb, ih, List.count_cons]

/-! ### generate_highlight -/

theorem highlightWith_eq (pre post s : Str) :
    highlightWith pre post s = (hlLines s).flatMap (fun l => pre ++ protectHtml l.1 ++ post ++ brGroup2 l.2) := by
  unfold highlightWith
  rw [brMatches_protectHtml, List.flatMap_map]

theorem protectHtml_joinLines (ls : List (Str × Bool)) :
    protectHtml (joinLines ls) = ls.flatMap (fun l => protectHtml l.1 ++ brGroup2 l.2) := by
  induction ls with
  | nil => rfl
  | cons l ls ih =>
    simp only [joinLines, List.flatMap_cons] at ih ⊢
    rw [protectHtml_append, protectHtml_append, ih]
    congr 2
    cases l.2 <;> simp [brGroup2, protectHtml_eq, phStep_nl]

/-- without the tags the highlighted text is the protected text -/
theorem highlightWith_strip (s : Str) : highlightWith [] [] s = protectHtml s := by
  rw [highlightWith_eq]
  have h := protectHtml_joinLines (hlLines s)
  rw [hlLines, hlLinesAux_join] at h
  simp only [List.nil_append] at h
  rw [h]
  simp [hlLines]

end HtmlText
end Yalafi
