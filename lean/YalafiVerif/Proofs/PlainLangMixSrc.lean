/-
  Proofs/PlainLangMixSrc.lean — the documents of the mixed-language theorem and the scanner on them
  (file header with grammar, reference and side conditions: Proofs/PlainLangMixE2E.lean).

    `Seg`, `render`, `env`        the documents
    `stepSt`                      the parser state behind a segment
    `frnOk`, `begOk`, `finOk`, `segsOk`   the computable side conditions
    `segMarks`                    what the expander leaves of a document (before the blank-line removal)
    `nextToken_sp`                the scanner on the white space behind `\end{otherlanguage[*]}`
    `PieceFacts`, `scanSteps_segs`, `scan_segs`
-/
import YalafiVerif.Proofs.PlainLangMix
namespace Yalafi
namespace PlainLangMix

open M
open PlainFootnote (CopyTok BraceTok TextRun lastTokOff)
open PlainMacro (lbr rbr tokChars)
open PlainItem (begTok endTok nBegin nEnd nextToken_begin nextToken_end)
open PlainThm (NameToks txtOf SpToks)
open PlainLang (setLang selTok codeOf codeOfName langOf selName SelTok marksOf_copy charsOf_of_txtpos
  simple_of_copy)
open PlainForeign (pushLang openTok backTok frnOut FrnTok lastPos frnName bodyOff frnLen frnDeclOk
  marksOf_cons marksOf_append nextToken_frn frnName_length)
open LinesLang (Item Mark ch marksOf)
open PlainHeading (scanSteps_step)

/-! ### the documents -/

/-- a segment of the source: a run of text; `\selectlanguage{name}`; `\foreignlanguage{name}{body}`;
    `\begin{otherlanguage}{name}` (`star`: `otherlanguage*`); `\end{otherlanguage}` resp.
    `\end{otherlanguage*}` together with the white space `sp` directly behind it -/
inductive Seg where
  | txt (s : Str)
  | sel (name : Str)
  | frn (name body : Str)
  | beg (star : Bool) (name : Str)
  | fin (star : Bool) (sp : Str)
deriving Repr, DecidableEq

/-- `otherlanguage` / `otherlanguage*` -/
def envName (star : Bool) : Str := "otherlanguage".toList ++ (if star then ['*'] else [])

def Seg.render : Seg → Str
  | .txt s => s
  | .sel name => '\\' :: (selName ++ '{' :: (name ++ ['}']))
  | .frn name body => '\\' :: (frnName ++ '{' :: (name ++ '}' :: '{' :: (body ++ ['}'])))
  | .beg star name => '\\' :: (nBegin ++ '{' :: (envName star ++ '}' :: '{' :: (name ++ ['}'])))
  | .fin star sp => '\\' :: (nEnd ++ '{' :: (envName star ++ '}' :: sp))

/-- the source text -/
def render : List Seg → Str
  | [] => []
  | s :: rest => s.render ++ render rest

/-- the environment `\begin{otherlanguage[*]}{name} body \end{otherlanguage[*]}sp` as a list of
    segments (`body` may contain further environments, switches and insertions) -/
def env (star : Bool) (name : Str) (body : List Seg) (sp : Str) : List Seg :=
  .beg star name :: (body ++ [.fin star sp])

/-- length of `\begin{otherlanguage[*]}{name}` -/
def begLen (star : Bool) (name : Str) : Nat := (envName star).length + name.length + 10
/-- length of `\end{otherlanguage[*]}sp` -/
def finLen (star : Bool) (sp : Str) : Nat := (envName star).length + sp.length + 6

/-- the length of the rendering of a segment -/
def Seg.len : Seg → Nat
  | .txt s => s.length
  | .sel name => name.length + 17
  | .frn name body => frnLen name body
  | .beg star name => begLen star name
  | .fin star sp => finLen star sp

theorem selName_length : selName.length = 14 := by decide
theorem nBegin_length : nBegin.length = 5 := by decide
theorem nEnd_length : nEnd.length = 3 := by decide

theorem Seg.render_length (s : Seg) : s.render.length = s.len := by
  cases s <;>
    simp only [Seg.render, Seg.len, List.length_cons, List.length_append, List.length_nil,
      selName_length, frnName_length, nBegin_length, nEnd_length, frnLen, begLen, finLen] <;> omega

theorem render_cons_length (s : Seg) (rest : List Seg) :
    (render (s :: rest)).length = s.len + (render rest).length := by
  simp [render, Seg.render_length]

/-- the parser state behind a segment: `\selectlanguage` replaces the top of the language stack,
    `\begin{otherlanguage}` pushes, `\end{otherlanguage}` pops (unless one entry is left);
    `\foreignlanguage` pushes in front of its text and pops behind it -/
def stepSt (T : PTables) (st : PState) : Seg → PState
  | .txt _ => st
  | .sel name => setLang T st (codeOfName T name)
  | .frn _ _ => st
  | .beg _ name => pushLang T st (codeOfName T name)
  | .fin _ _ => popLang T st

/-- `\babel@skip@space` swallows the white space `sp` behind `\end{otherlanguage}` (no star): a run
    with at most one line break (a space token); a paragraph break stays -/
def swallow (star : Bool) (sp : Str) : Bool := !star && decide (countNl sp < 2)

/-! ### the side conditions -/

/-- `\foreignlanguage{name}{body}`, followed by `R`, read in the parser state `st` -/
def frnOk (T : PTables) (st : PState) (name body R : Str) : Bool :=
  (matchSpecial T.toTables ('\\' :: (frnName ++ '{' :: (name ++ '}' :: '{' :: (body ++ '}' :: R))))).isNone &&
  !T.toTables.isAccent ('\\' :: frnName) &&
  (match lookupMacro st ('\\' :: frnName) with | some m => frnDeclOk m | none => false) &&
  PlainFootnote.braceAt T '{' (name ++ '}' :: '{' :: (body ++ '}' :: R)) &&
  PlainFootnote.braceAt T '}' ('{' :: (body ++ '}' :: R)) &&
  PlainFootnote.braceAt T '{' (body ++ '}' :: R) && PlainFootnote.braceAt T '}' R &&
  PlainFootnote.textOk T st name ('}' :: '{' :: (body ++ '}' :: R)) && !name.isEmpty &&
  (langOf T name).isSome &&
  PlainFootnote.textOk T (pushLang T st (codeOfName T name)) body ('}' :: R) && !body.isEmpty &&
  noEmptyActive T st

/-- `\begin{otherlanguage[*]}{name}`, followed by `R`, read in the parser state `st` -/
def begOk (T : PTables) (st : PState) (star : Bool) (name R : Str) : Bool :=
  (matchSpecial T.toTables
    ('\\' :: (nBegin ++ '{' :: (envName star ++ '}' :: '{' :: (name ++ '}' :: R))))).isNone &&
  PlainMacro.braceAt T '{' (envName star ++ '}' :: '{' :: (name ++ '}' :: R)) &&
  PlainFootnote.textOk T st (envName star) ('}' :: '{' :: (name ++ '}' :: R)) &&
  PlainMacro.braceAt T '}' ('{' :: (name ++ '}' :: R)) &&
  (match lookupEnv st (envName star) with | some m => envDeclOk star m | none => false) &&
  PlainFootnote.braceAt T '{' (name ++ '}' :: R) && PlainFootnote.braceAt T '}' R &&
  PlainFootnote.textOk T st name ('}' :: R) && !name.isEmpty && (langOf T name).isSome &&
  noEmptyActive T st

def skipOk (st : PState) : Bool :=
  match lookupMacro st ('\\' :: skipName) with | some m => skipDeclOk m | none => false

/-- `\end{otherlanguage[*]}sp`, followed by `R`, read in the parser state `st` -/
def finOk (T : PTables) (st : PState) (star : Bool) (sp R : Str) : Bool :=
  (matchSpecial T.toTables ('\\' :: (nEnd ++ '{' :: (envName star ++ '}' :: (sp ++ R))))).isNone &&
  PlainMacro.braceAt T '{' (envName star ++ '}' :: (sp ++ R)) &&
  PlainFootnote.textOk T st (envName star) ('}' :: (sp ++ R)) &&
  PlainMacro.braceAt T '}' (sp ++ R) &&
  (match lookupEnv st (envName star) with | some m => envDeclOk star m | none => false) &&
  noEmptyActive T st &&
  sp.all isSpace && R.head?.all (fun d => !isSpace d) &&
  (star || (noEmptyActive T (popLang T st) && skipOk st)) &&
  (sp.isEmpty || swallow star sp || !(activeChars T (popLang T st)).contains sp)

/-- well-formed documents, read in the parser state `st`: every segment is fine in front of the
    rendering of the following ones, which are read in the state behind it (`stepSt`); what follows
    a text segment does not start with white space (merge the segments) -/
def segsOk (T : PTables) : PState → List Seg → Bool
  | _, [] => true
  | st, .txt s :: rest =>
    PlainFootnote.textOk T st s (render rest) && (render rest).head?.all (fun d => !isSpace d) &&
    segsOk T st rest
  | st, .sel name :: rest =>
    PlainLang.selOk T st name (render rest) && segsOk T (setLang T st (codeOfName T name)) rest
  | st, .frn name body :: rest => frnOk T st name body (render rest) && segsOk T st rest
  | st, .beg star name :: rest =>
    begOk T st star name (render rest) && segsOk T (pushLang T st (codeOfName T name)) rest
  | st, .fin star sp :: rest => finOk T st star sp (render rest) && segsOk T (popLang T st) rest

/-! ### the reference: what the expander leaves -/

/-- the marks of a document that starts at position `p`: every text character with its (0-based)
    source position; a switch leaves an Action mark and its language token; an insertion an Action
    mark, its opening language token, the characters of its text and its closing language token;
    `\begin{otherlanguage}` two Action marks and its language token; `\end{otherlanguage*}` an Action mark
    and the language token that switches back, then the white space behind it; `\end{otherlanguage}`
    one more Action mark, and the white space behind it only if it is a paragraph break -/
def segMarks (T : PTables) : Nat → List Seg → List Mark
  | _, [] => []
  | p, .txt s :: rest => (ch (posText p s)).map some ++ segMarks T (p + s.length) rest
  | p, .sel name :: rest =>
    none :: some (.inr (selTok T p (codeOfName T name))) :: segMarks T (p + (name.length + 17)) rest
  | p, .frn n b :: rest =>
    none :: some (.inr (openTok T p (codeOfName T n))) :: ((ch (posText (p + bodyOff n) b)).map some ++
      some (.inr (backTok (p + bodyOff n + lastTokOff b))) :: segMarks T (p + frnLen n b) rest)
  | p, .beg star n :: rest =>
    none :: none :: some (.inr (obegTok T p (codeOfName T n))) :: segMarks T (p + begLen star n) rest
  | p, .fin star sp :: rest =>
    none :: some (.inr (backTok p)) :: ((if star then [] else [none]) ++
      (if swallow star sp then [] else (ch (posText (p + ((envName star).length + 6)) sp)).map some) ++
      segMarks T (p + finLen star sp) rest)

/-! ### the facts behind the Boolean side conditions -/

structure FrnFacts (T : PTables) (st : PState) (name body R : Str) : Prop where
  special : matchSpecial T.toTables ('\\' :: (frnName ++ '{' :: (name ++ '}' :: '{' :: (body ++ '}' :: R)))) = none
  nAccent : T.toTables.isAccent ('\\' :: frnName) = false
  decl : ∃ m, lookupMacro st ('\\' :: frnName) = some m ∧ frnDeclOk m = true
  lb1 : PlainFootnote.braceAt T '{' (name ++ '}' :: '{' :: (body ++ '}' :: R)) = true
  rb1 : PlainFootnote.braceAt T '}' ('{' :: (body ++ '}' :: R)) = true
  lb2 : PlainFootnote.braceAt T '{' (body ++ '}' :: R) = true
  rb2 : PlainFootnote.braceAt T '}' R = true
  text : PlainFootnote.textOk T st name ('}' :: '{' :: (body ++ '}' :: R)) = true
  ne : name ≠ []
  code : (langOf T name).isSome = true
  btext : PlainFootnote.textOk T (pushLang T st (codeOfName T name)) body ('}' :: R) = true
  bne : body ≠ []
  nea : noEmptyActive T st = true

theorem frnFacts {T : PTables} {st : PState} {name body R : Str}
    (h : frnOk T st name body R = true) : FrnFacts T st name body R := by
  simp only [frnOk, Bool.and_eq_true, Bool.not_eq_true', Option.isNone_iff_eq_none,
    List.isEmpty_eq_false_iff] at h
  obtain ⟨⟨⟨⟨⟨⟨⟨⟨⟨⟨⟨⟨h1, h2⟩, h3⟩, h4⟩, h5⟩, h6⟩, h7⟩, h8⟩, h9⟩, h10⟩, h11⟩, h12⟩, h13⟩ := h
  refine ⟨h1, h2, ?_, h4, h5, h6, h7, h8, h9, h10, h11, h12, h13⟩
  cases hm : lookupMacro st ('\\' :: frnName) with
  | none => rw [hm] at h3; cases h3
  | some m => rw [hm] at h3; exact ⟨m, rfl, h3⟩

structure BegFacts (T : PTables) (st : PState) (star : Bool) (name R : Str) : Prop where
  special : matchSpecial T.toTables
    ('\\' :: (nBegin ++ '{' :: (envName star ++ '}' :: '{' :: (name ++ '}' :: R)))) = none
  lb0 : PlainMacro.braceAt T '{' (envName star ++ '}' :: '{' :: (name ++ '}' :: R)) = true
  etext : PlainFootnote.textOk T st (envName star) ('}' :: '{' :: (name ++ '}' :: R)) = true
  rb0 : PlainMacro.braceAt T '}' ('{' :: (name ++ '}' :: R)) = true
  decl : ∃ m, lookupEnv st (envName star) = some m ∧ envDeclOk star m = true
  lb : PlainFootnote.braceAt T '{' (name ++ '}' :: R) = true
  rb : PlainFootnote.braceAt T '}' R = true
  text : PlainFootnote.textOk T st name ('}' :: R) = true
  ne : name ≠ []
  code : (langOf T name).isSome = true
  nea : noEmptyActive T st = true

theorem begFacts {T : PTables} {st : PState} {star : Bool} {name R : Str}
    (h : begOk T st star name R = true) : BegFacts T st star name R := by
  simp only [begOk, Bool.and_eq_true, Bool.not_eq_true', Option.isNone_iff_eq_none,
    List.isEmpty_eq_false_iff] at h
  obtain ⟨⟨⟨⟨⟨⟨⟨⟨⟨⟨h1, h2⟩, h3⟩, h4⟩, h5⟩, h6⟩, h7⟩, h8⟩, h9⟩, h10⟩, h11⟩ := h
  refine ⟨h1, h2, h3, h4, ?_, h6, h7, h8, h9, h10, h11⟩
  cases hm : lookupEnv st (envName star) with
  | none => rw [hm] at h5; cases h5
  | some m => rw [hm] at h5; exact ⟨m, rfl, h5⟩

structure FinFacts (T : PTables) (st : PState) (star : Bool) (sp R : Str) : Prop where
  special : matchSpecial T.toTables ('\\' :: (nEnd ++ '{' :: (envName star ++ '}' :: (sp ++ R)))) = none
  lb0 : PlainMacro.braceAt T '{' (envName star ++ '}' :: (sp ++ R)) = true
  etext : PlainFootnote.textOk T st (envName star) ('}' :: (sp ++ R)) = true
  rb0 : PlainMacro.braceAt T '}' (sp ++ R) = true
  decl : ∃ m, lookupEnv st (envName star) = some m ∧ envDeclOk star m = true
  nea : noEmptyActive T st = true
  blank : ∀ c ∈ sp, isSpace c = true
  head : R.head?.all (fun d => !isSpace d) = true
  nostar : star = false → noEmptyActive T (popLang T st) = true ∧ SkipOk st
  keep : sp ≠ [] → swallow star sp = false → (activeChars T (popLang T st)).contains sp = false

theorem finFacts {T : PTables} {st : PState} {star : Bool} {sp R : Str}
    (h : finOk T st star sp R = true) : FinFacts T st star sp R := by
  simp only [finOk, Bool.and_eq_true, Option.isNone_iff_eq_none, List.all_eq_true, Bool.or_eq_true,
    Bool.not_eq_true', List.isEmpty_iff] at h
  obtain ⟨⟨⟨⟨⟨⟨⟨⟨⟨h1, h2⟩, h3⟩, h4⟩, h5⟩, h6⟩, h7⟩, h8⟩, h9⟩, h10⟩ := h
  refine ⟨h1, h2, h3, h4, ?_, h6, h7, by simpa using h8, ?_, ?_⟩
  · cases hm : lookupEnv st (envName star) with
    | none => rw [hm] at h5; cases h5
    | some m => rw [hm] at h5; exact ⟨m, rfl, h5⟩
  · intro hs
    rcases h9 with h9 | h9
    · rw [hs] at h9; cases h9
    · refine ⟨h9.1, ?_⟩
      unfold skipOk at h9
      cases hm : lookupMacro st ('\\' :: skipName) with
      | none => rw [hm] at h9; exact absurd h9.2 (by simp)
      | some m => rw [hm] at h9; exact ⟨m, hm, h9.2⟩
  · intro hne hsw
    rcases h10 with (h10 | h10) | h10
    · exact absurd h10 hne
    · rw [hsw] at h10; cases h10
    · exact h10

/-! ### the scanner on the white space behind `\end{otherlanguage[*]}` -/

/-- the token of a run of white space: a space token, or a paragraph token if it holds two line
    breaks -/
def spTok (q : Nat) (sp : Str) : Tok :=
  { kind := if countNl sp < 2 then .space else .par, pos := q, txt := sp }

theorem nextToken_sp (T : PTables) (src : Str) (pos : Nat) (c : Char) (ws X : Str)
    (hc : isSpace c = true) (hws : ∀ d ∈ ws, isSpace d = true)
    (hX : X.head?.all (fun d => !isSpace d) = true) :
    nextToken T.toTables src pos (c :: (ws ++ X))
      = { tok := spTok pos (c :: ws), len := ws.length + 1 } := by
  have htw : (c :: (ws ++ X)).takeWhile isSpace = c :: ws := by
    rw [show c :: (ws ++ X) = (c :: ws) ++ X from rfl]
    exact takeWhile_append_stop _ _ _ (by simpa [hc] using hws) hX
  unfold nextToken
  simp only [hc, if_true, scanSpace, htw, List.length_cons, spTok]

/-- the white-space token behind `\end{otherlanguage}` that is swallowed -/
def skipToks (star : Bool) (q : Nat) (sp : Str) : List Tok :=
  if sp.isEmpty then [] else if swallow star sp then [spTok q sp] else []
/-- the white-space token behind `\end{otherlanguage[*]}` that is copied -/
def keepToks (star : Bool) (q : Nat) (sp : Str) : List Tok :=
  if sp.isEmpty then [] else if swallow star sp then [] else [spTok q sp]

theorem spTok_copy {T : PTables} {st : PState} (q : Nat) (sp : Str) (hne : sp ≠ [])
    (hb : ∀ c ∈ sp, isSpace c = true) (hn : (activeChars T st).contains sp = false) :
    CopyTok T st (spTok q sp) := by
  obtain ⟨c, cs, rfl⟩ : ∃ c cs, sp = c :: cs := by
    cases sp with
    | nil => exact absurd rfl hne
    | cons c cs => exact ⟨c, cs, rfl⟩
  have hc : isSpace c = true := hb c (List.mem_cons_self ..)
  have hk : (spTok q (c :: cs)).kind = .space ∨ (spTok q (c :: cs)).kind = .par := by
    unfold spTok; simp only []; split
    · exact Or.inl rfl
    · exact Or.inr rfl
  have hx : ∀ (s : String), (s.toList.head?.all (fun d => !isSpace d)) = true → s.toList ≠ [] →
      txtIs (spTok q (c :: cs)) s = false := by
    intro s h1 h2
    simp only [txtIs, spTok]
    cases hs : s.toList with
    | nil => exact absurd hs h2
    | cons d ds =>
      rw [hs] at h1
      simp only [List.head?_cons, Option.all_some, Bool.not_eq_true'] at h1
      simp only [beq_eq_false_iff_ne, ne_eq, List.cons.injEq, not_and]
      intro e; rw [e] at hc; rw [hc] at h1; cases h1
  refine ⟨⟨?_, hx "$" (by decide) (by decide), hx "\\(" (by decide) (by decide),
    hx "$$" (by decide) (by decide), hx "\\[" (by decide) (by decide), hx "\\\\" (by decide) (by decide),
    hx "{" (by decide) (by decide), hx "}" (by decide) (by decide)⟩, hn, ?_⟩
  · rcases hk with k | k
    · exact Or.inr (Or.inl k)
    · exact Or.inr (Or.inr k)
  · refine ⟨by simp [spTok], Or.inr ⟨hk, ?_⟩⟩
    simpa [isBlank, spTok] using hb

/-! ### pieces of copied tokens -/

def tokPieces (toks : List Tok) : List Piece := toks.map Piece.tok

theorem flat_tokPieces (ps : List Piece) : ∀ toks : List Tok, flat (tokPieces toks ++ ps) = toks ++ flat ps
  | [] => rfl
  | t :: ts => by
    show [t] ++ flat (tokPieces ts ++ ps) = _
    rw [flat_tokPieces ps ts]; rfl

theorem outMain_tokPieces (T : PTables) (ps : List Piece) : ∀ toks : List Tok,
    outMain T (tokPieces toks ++ ps) = toks ++ outMain T ps
  | [] => rfl
  | t :: ts => by
    show t :: outMain T (tokPieces ts ++ ps) = _
    rw [outMain_tokPieces T ps ts]; rfl

theorem cost_tokPieces (ps : List Piece) : ∀ toks : List Tok,
    cost (tokPieces toks ++ ps) = toks.length + cost ps
  | [] => by simp [tokPieces]
  | t :: ts => by
    show 1 + cost (tokPieces ts ++ ps) = _
    rw [cost_tokPieces ps ts, List.length_cons]; omega

theorem PiecesOk_tokPieces {T : PTables} {st : PState} (ps : List Piece) (hps : PiecesOk T st ps) :
    ∀ toks : List Tok, (∀ t ∈ toks, CopyTok T st t) → PiecesOk T st (tokPieces toks ++ ps)
  | [], _ => hps
  | t :: ts, h =>
    ⟨h t (List.mem_cons_self ..),
      PiecesOk_tokPieces ps hps ts (fun x hx => h x (List.mem_cons_of_mem _ hx))⟩

/-! ### the scanner loop on a document -/

/-- what the scanner loop yields on a well-formed document that starts at `pos` -/
structure PieceFacts (T : PTables) (st : PState) (pos : Nat) (segs : List Seg) (ps : List Piece) :
    Prop where
  ok : PiecesOk T st ps
  marks : marksOf (outMain T ps) = segMarks T pos segs
  simple : ∀ t ∈ outMain T ps, LinesLang.Simple t
  cost : cost ps ≤ (render segs).length
  head : (render segs).head?.all (fun d => !isSpace d) = true →
    ∀ t, (flat ps).head? = some t → isSpaceTok t = false

theorem PieceFacts_nil (T : PTables) (st : PState) (pos : Nat) : PieceFacts T st pos [] [] where
  ok := trivial
  marks := rfl
  simple := by intro t ht; cases ht
  cost := Nat.le_refl _
  head := by intro _ t ht; cases ht

theorem copies_of_run {T : PTables} {st : PState} {pos : Nat} {s : Str} {steps : List ScanStep}
    (B : TextRun T st pos s steps) : ∀ t ∈ steps.map (·.tok), CopyTok T st t := by
  intro t ht
  obtain ⟨x, hx, rfl⟩ := List.mem_map.mp ht
  exact (B.ok x hx).2.2

/-- the first token of a run of text that starts with a visible character is no white space -/
theorem run_head {T : PTables} {st : PState} {pos : Nat} {c : Char} {cs : Str} {steps : List ScanStep}
    (B : TextRun T st pos (c :: cs) steps) (hc : isSpace c = false) :
    ∀ t, (steps.map (·.tok)).head? = some t → isSpaceTok t = false := by
  intro t ht
  cases hs : steps.map (·.tok) with
  | nil => rw [hs] at ht; cases ht
  | cons t0 ts =>
    rw [hs] at ht
    simp only [List.head?_cons, Option.some.injEq] at ht
    subst ht
    have hcp := copies_of_run B t0 (by rw [hs]; exact List.mem_cons_self ..)
    have htxt := B.txt
    rw [hs] at htxt
    simp only [getTxtPos, Prod.mk.injEq] at htxt
    obtain ⟨hne, hshape⟩ := hcp.shape
    rcases hshape with ⟨hk, _⟩ | ⟨_, hb⟩
    · simp [isSpaceTok, hk]
    · exfalso
      cases htx : t0.txt with
      | nil => exact hne htx
      | cons d ds =>
        rw [htx] at htxt hb
        simp only [List.cons_append, List.cons.injEq] at htxt
        simp only [isBlank, List.all_cons, Bool.and_eq_true] at hb
        rw [htxt.1.1, hc] at hb
        exact absurd hb.1 (by simp)

theorem PieceFacts_txt {T : PTables} {st : PState} {pos : Nat} {s : Str} {rest : List Seg}
    {steps : List ScanStep} {ps : List Piece} (B : TextRun T st pos s steps)
    (I : PieceFacts T st (pos + s.length) rest ps) :
    PieceFacts T st pos (.txt s :: rest) (tokPieces (steps.map (·.tok)) ++ ps) := by
  have hc := copies_of_run B
  refine ⟨PiecesOk_tokPieces ps I.ok _ hc, ?_, ?_, ?_, ?_⟩
  · rw [outMain_tokPieces, LinesLang.marksOf, List.flatMap_append]
    show marksOf _ ++ marksOf _ = _
    rw [marksOf_copy _ hc, charsOf_of_txtpos _ s pos B.txt, I.marks]
    rfl
  · intro t ht
    rw [outMain_tokPieces] at ht
    rcases List.mem_append.mp ht with ht | ht
    · exact (simple_of_copy (hc t ht)).1
    · exact I.simple t ht
  · have h1 := B.len
    have h2 := I.cost
    rw [cost_tokPieces]
    simp only [render, Seg.render, List.length_append, List.length_map]
    omega
  · intro hh t ht
    rw [flat_tokPieces] at ht
    cases s with
    | nil =>
      have : steps = [] := by
        have := B.len
        cases steps with
        | nil => rfl
        | cons x xs => simp at this
      rw [this] at ht
      exact I.head (by simpa [render, Seg.render] using hh) t (by simpa using ht)
    | cons c cs =>
      have hcv : isSpace c = false := by simpa [render, Seg.render] using hh
      have hne : steps.map (·.tok) ≠ [] := by
        intro e
        have := B.nil_iff (by simpa using e)
        cases this
      cases hs : steps.map (·.tok) with
      | nil => exact absurd hs hne
      | cons t0 ts =>
        rw [hs] at ht
        simp only [List.cons_append, List.head?_cons, Option.some.injEq] at ht
        exact run_head B hcv t (by rw [hs, ← ht]; rfl)

theorem render_sel (name : Str) (rest : List Seg) :
    render (.sel name :: rest) = '\\' :: (selName ++ '{' :: (name ++ '}' :: render rest)) := by
  simp [render, Seg.render]

theorem render_frn (n b : Str) (rest : List Seg) :
    render (.frn n b :: rest)
      = '\\' :: (frnName ++ '{' :: (n ++ '}' :: '{' :: (b ++ '}' :: render rest))) := by
  simp [render, Seg.render]

theorem render_beg (star : Bool) (n : Str) (rest : List Seg) :
    render (.beg star n :: rest)
      = '\\' :: (nBegin ++ '{' :: (envName star ++ '}' :: '{' :: (n ++ '}' :: render rest))) := by
  simp [render, Seg.render]

theorem render_fin (star : Bool) (sp : Str) (rest : List Seg) :
    render (.fin star sp :: rest)
      = '\\' :: (nEnd ++ '{' :: (envName star ++ '}' :: (sp ++ render rest))) := by
  simp [render, Seg.render]

theorem notSpace_xmacro {t : Tok} (h : t.kind = .xmacro) : isSpaceTok t = false := by
  simp [isSpaceTok, h]

theorem PieceFacts_sel {T : PTables} {st : PState} {pos : Nat} {name : Str} {rest : List Seg}
    {bsteps : List ScanStep} {ps : List Piece} (k1 k2 : Kind)
    (hk1 : k1 = Kind.special ∨ k1 = Kind.text) (hk2 : k2 = Kind.special ∨ k2 = Kind.text)
    (F : PlainLang.SelFacts T st name (render rest))
    (B : TextRun T st (pos + 16) name bsteps)
    (I : PieceFacts T (setLang T st (codeOfName T name)) (pos + (name.length + 17)) rest ps) :
    PieceFacts T st pos (.sel name :: rest)
      (.sel (cwTok pos selName)
             { kind := k1, pos := pos + 15, txt := ['{'] } (bsteps.map (·.tok))
             { kind := k2, pos := pos + 16 + name.length, txt := ['}'] } :: ps) := by
  have hc := copies_of_run B
  have hbne : bsteps.map (·.tok) ≠ [] := by
    intro e
    exact F.ne (B.nil_iff (by simpa using e))
  have htxt : (getTxtPos (bsteps.map (·.tok))).1 = name := by rw [B.txt]
  have hcode : codeOf T (bsteps.map (·.tok)) = codeOfName T name := by
    simp [codeOf, codeOfName, langOf, htxt]
  have hsome : (translateLang T (strip (getTxtPos (bsteps.map (·.tok))).1)).isSome = true := by
    rw [htxt]; exact F.code
  refine ⟨?_, ?_, ?_, ?_, ?_⟩
  · exact ⟨PlainLang.selTok_cwTok F pos, ⟨hk1, rfl⟩, ⟨hk2, rfl⟩, hbne, hc, hsome, F.nea,
      by rw [hcode]; exact I.ok⟩
  · simp only [outMain, segMarks, hcode, cwTok]
    rw [marksOf_cons, marksOf_cons, I.marks, LinesLang.tokMarks_action _ rfl,
      LinesLang.tokMarks_lang _ rfl rfl]
    rfl
  · intro t ht
    simp only [outMain, List.mem_cons] at ht
    rcases ht with rfl | rfl | ht
    · exact LinesLang.Simple_of_nil _ rfl
    · exact LinesLang.Simple_of_nil _ rfl
    · exact I.simple t ht
  · have h1 := B.len
    have h2 := I.cost
    rw [render_cons_length]
    simp only [cost, List.length_map, Seg.len]
    omega
  · intro _ t ht
    simp only [flat, Piece.toks, List.cons_append, List.head?_cons, Option.some.injEq] at ht
    rw [← ht]; rfl

theorem frnTok_cwTok {T : PTables} {st : PState} {name body R : Str}
    (h : FrnFacts T st name body R) (pos : Nat) : FrnTok st (cwTok pos frnName) :=
  ⟨rfl, (by decide : (('\\' :: frnName) == "\\def".toList) = false), h.decl⟩

theorem PieceFacts_frn {T : PTables} {st : PState} {pos : Nat} {n b : Str} {rest : List Seg}
    {nsteps bsteps : List ScanStep} {ps : List Piece} (k1 k2 k3 k4 : Kind)
    (hk1 : k1 = Kind.special ∨ k1 = Kind.text) (hk2 : k2 = Kind.special ∨ k2 = Kind.text)
    (hk3 : k3 = Kind.special ∨ k3 = Kind.text) (hk4 : k4 = Kind.special ∨ k4 = Kind.text)
    (F : FrnFacts T st n b (render rest))
    (N : TextRun T st (pos + 17) n nsteps)
    (B : TextRun T (pushLang T st (codeOfName T n)) (pos + bodyOff n) b bsteps)
    (I : PieceFacts T st (pos + frnLen n b) rest ps) :
    PieceFacts T st pos (.frn n b :: rest)
      (.frn (cwTok pos frnName)
             { kind := k1, pos := pos + 16, txt := ['{'] } (nsteps.map (·.tok))
             { kind := k2, pos := pos + 17 + n.length, txt := ['}'] }
             { kind := k3, pos := pos + 18 + n.length, txt := ['{'] } (bsteps.map (·.tok))
             { kind := k4, pos := pos + bodyOff n + b.length, txt := ['}'] } :: ps) := by
  have hcn := copies_of_run N
  have hcb := copies_of_run B
  have hnne : nsteps.map (·.tok) ≠ [] := by
    intro e
    exact F.ne (N.nil_iff (by simpa using e))
  have hbne : bsteps.map (·.tok) ≠ [] := by
    intro e
    exact F.bne (B.nil_iff (by simpa using e))
  have htxt : (getTxtPos (nsteps.map (·.tok))).1 = n := by rw [N.txt]
  have hcode : codeOf T (nsteps.map (·.tok)) = codeOfName T n := by
    simp [codeOf, PlainLang.codeOfName, langOf, htxt]
  have hsome : (translateLang T (strip (getTxtPos (nsteps.map (·.tok))).1)).isSome = true := by
    rw [htxt]; exact F.code
  obtain ⟨last, hlast⟩ : ∃ last, (bsteps.map (·.tok)).getLast? = some last := by
    cases h : (bsteps.map (·.tok)).getLast? with
    | none => exact absurd (List.getLast?_eq_none_iff.mp h) hbne
    | some l => exact ⟨l, rfl⟩
  have hlp : lastPos (bsteps.map (·.tok)) = pos + bodyOff n + lastTokOff b := by
    simp [lastPos, hlast, B.last last hlast]
  refine ⟨?_, ?_, ?_, ?_, ?_⟩
  · exact ⟨frnTok_cwTok F pos, ⟨hk1, rfl⟩, ⟨hk2, rfl⟩, ⟨hk3, rfl⟩, ⟨hk4, rfl⟩, hnne, hcn, hsome, F.nea,
      hbne, by rw [hcode]; exact hcb, I.ok⟩
  · simp only [outMain, segMarks, hcode, hlp, cwTok, frnOut, List.cons_append, List.append_assoc,
      List.nil_append]
    rw [marksOf_cons, marksOf_cons, marksOf_append, marksOf_cons, I.marks,
      LinesLang.tokMarks_action _ rfl, LinesLang.tokMarks_lang _ rfl rfl,
      LinesLang.tokMarks_lang _ rfl rfl, marksOf_copy _ hcb,
      charsOf_of_txtpos _ b (pos + bodyOff n) B.txt]
    rfl
  · intro t ht
    simp only [outMain, frnOut, List.cons_append, List.append_assoc, List.mem_cons,
      List.mem_append, List.nil_append] at ht
    rcases ht with rfl | rfl | ht | rfl | ht
    · exact LinesLang.Simple_of_nil _ rfl
    · exact LinesLang.Simple_of_nil _ rfl
    · exact (simple_of_copy (hcb t ht)).1
    · exact LinesLang.Simple_of_nil _ rfl
    · exact I.simple t ht
  · have h1 := N.len
    have h2 := B.len
    have h3 := I.cost
    rw [render_cons_length]
    simp only [cost, List.length_map, Seg.len, frnLen]
    omega
  · intro _ t ht
    simp only [flat, Piece.toks, List.cons_append, List.head?_cons, Option.some.injEq] at ht
    rw [← ht]; rfl

theorem envName_ne (star : Bool) : envName star ≠ [] := by cases star <;> decide

theorem PieceFacts_beg {T : PTables} {st : PState} {pos : Nat} {star : Bool} {n : Str} {rest : List Seg}
    {esteps nsteps : List ScanStep} {ps : List Piece} (k1 k2 : Kind)
    (hk1 : k1 = Kind.special ∨ k1 = Kind.text) (hk2 : k2 = Kind.special ∨ k2 = Kind.text)
    (F : BegFacts T st star n (render rest))
    (E : TextRun T st (pos + 7) (envName star) esteps)
    (N : TextRun T st (pos + (envName star).length + 9) n nsteps)
    (I : PieceFacts T (pushLang T st (codeOfName T n)) (pos + begLen star n) rest ps) :
    PieceFacts T st pos (.beg star n :: rest)
      (.beg pos (pos + 6) (esteps.map (·.tok)) (pos + 7 + (envName star).length)
             { kind := k1, pos := pos + 8 + (envName star).length, txt := ['{'] } (nsteps.map (·.tok))
             { kind := k2, pos := pos + (envName star).length + 9 + n.length, txt := ['}'] } :: ps) := by
  have hce := copies_of_run E
  have hcn := copies_of_run N
  have hene : esteps.map (·.tok) ≠ [] := by
    intro e
    exact envName_ne star (E.nil_iff (by simpa using e))
  have hnne : nsteps.map (·.tok) ≠ [] := by
    intro e
    exact F.ne (N.nil_iff (by simpa using e))
  have hetxt : txtOf (esteps.map (·.tok)) = envName star := by rw [txtOf, E.txt]
  have htxt : (getTxtPos (nsteps.map (·.tok))).1 = n := by rw [N.txt]
  have hcode : codeOf T (nsteps.map (·.tok)) = codeOfName T n := by
    simp [codeOf, PlainLang.codeOfName, langOf, htxt]
  have hsome : (translateLang T (strip (getTxtPos (nsteps.map (·.tok))).1)).isSome = true := by
    rw [htxt]; exact F.code
  obtain ⟨m, hm1, hm2⟩ := F.decl
  refine ⟨?_, ?_, ?_, ?_, ?_⟩
  · exact ⟨⟨hene, hce⟩, ⟨star, m, by rw [hetxt]; exact hm1, hm2⟩, ⟨hk1, rfl⟩, ⟨hk2, rfl⟩, hnne, hcn,
      hsome, F.nea, by rw [hcode]; exact I.ok⟩
  · simp only [outMain, segMarks, hcode]
    rw [marksOf_cons, marksOf_cons, marksOf_cons, I.marks, LinesLang.tokMarks_action _ rfl,
      LinesLang.tokMarks_lang _ rfl rfl]
    rfl
  · intro t ht
    simp only [outMain, List.mem_cons] at ht
    rcases ht with rfl | rfl | rfl | ht
    · exact LinesLang.Simple_of_nil _ rfl
    · exact LinesLang.Simple_of_nil _ rfl
    · exact LinesLang.Simple_of_nil _ rfl
    · exact I.simple t ht
  · have h1 := E.len
    have h2 := N.len
    have h3 := I.cost
    rw [render_cons_length]
    simp only [cost, List.length_map, Seg.len, begLen]
    omega
  · intro _ t ht
    simp only [flat, Piece.toks, List.cons_append, List.head?_cons, Option.some.injEq] at ht
    rw [← ht]; rfl

theorem swallow_star (sp : Str) : swallow true sp = false := rfl

theorem PieceFacts_fin {T : PTables} {st : PState} {pos : Nat} {star : Bool} {sp : Str} {rest : List Seg}
    {esteps : List ScanStep} {ps : List Piece}
    (F : FinFacts T st star sp (render rest))
    (E : TextRun T st (pos + 5) (envName star) esteps)
    (I : PieceFacts T (popLang T st) (pos + finLen star sp) rest ps) :
    PieceFacts T st pos (.fin star sp :: rest)
      (.fin pos (pos + 4) (esteps.map (·.tok)) (pos + 5 + (envName star).length) star
          (skipToks star (pos + ((envName star).length + 6)) sp) ::
        (tokPieces (keepToks star (pos + ((envName star).length + 6)) sp) ++ ps)) := by
  have hce := copies_of_run E
  have hene : esteps.map (·.tok) ≠ [] := by
    intro e
    exact envName_ne star (E.nil_iff (by simpa using e))
  have hetxt : txtOf (esteps.map (·.tok)) = envName star := by rw [txtOf, E.txt]
  obtain ⟨m, hm1, hm2⟩ := F.decl
  -- the copied white-space token
  have hkeep : ∀ t ∈ keepToks star (pos + ((envName star).length + 6)) sp, CopyTok T (popLang T st) t := by
    intro t ht
    unfold keepToks at ht
    split at ht
    · cases ht
    · rename_i hne
      split at ht
      · cases ht
      · rename_i hsw
        rw [List.mem_singleton] at ht
        subst ht
        have hne' : sp ≠ [] := by simpa using hne
        exact spTok_copy _ sp hne' F.blank (F.keep hne' (by simpa using hsw))
  have hkeepM : marksOf (keepToks star (pos + ((envName star).length + 6)) sp)
      = if swallow star sp then [] else (ch (posText (pos + ((envName star).length + 6)) sp)).map some := by
    unfold keepToks
    by_cases hne : sp.isEmpty = true
    · have : sp = [] := by simpa using hne
      subst this
      simp [marksOf, posText]
    · have hne' : sp ≠ [] := by simpa using hne
      simp only [hne, Bool.false_eq_true, if_false]
      by_cases hsw : swallow star sp = true
      · simp [hsw, marksOf]
      · simp only [hsw, Bool.false_eq_true, if_false]
        have hc1 : ∀ t ∈ [spTok (pos + ((envName star).length + 6)) sp], CopyTok T (popLang T st) t := by
          intro t ht
          rw [List.mem_singleton] at ht
          subst ht
          exact spTok_copy _ sp hne' F.blank (F.keep hne' (by simpa using hsw))
        rw [marksOf_copy _ hc1, charsOf_of_txtpos _ sp (pos + ((envName star).length + 6))]
        rw [getTxtPos_cons_plain _ _ rfl]
        simp [getTxtPos, spTok]
  refine ⟨?_, ?_, ?_, ?_, ?_⟩
  · refine ⟨⟨hene, hce⟩, ⟨m, by rw [hetxt]; exact hm1, hm2⟩, F.nea, ?_, ?_,
      PiecesOk_tokPieces ps I.ok _ hkeep⟩
    · intro hs
      subst hs
      simp [skipToks, swallow_star]
    · intro hs
      obtain ⟨h1, h2⟩ := F.nostar hs
      refine ⟨h1, h2, ?_, ?_⟩
      · intro t ht
        unfold skipToks at ht
        split at ht
        · cases ht
        · split at ht
          · rename_i hsw
            rw [List.mem_singleton] at ht
            subst ht
            have : countNl sp < 2 := by
              simp only [swallow, Bool.and_eq_true, decide_eq_true_eq] at hsw
              exact hsw.2
            simp [spTok, this]
          · cases ht
      · intro t ht
        rw [flat_tokPieces] at ht
        unfold keepToks at ht
        split at ht
        · rename_i he
          have : sp = [] := by simpa using he
          subst this
          exact I.head (by simpa using F.head) t (by simpa using ht)
        · split at ht
          · exact I.head (by simpa using F.head) t (by simpa using ht)
          · rename_i hsw
            simp only [List.cons_append, List.nil_append, List.head?_cons, Option.some.injEq] at ht
            subst ht
            have : ¬ countNl sp < 2 := by
              intro hlt
              apply hsw
              simp [swallow, hs, hlt]
            simp [spTok, this, isSpaceTok]
  · simp only [outMain, segMarks, outMain_tokPieces]
    rw [marksOf_append, marksOf_append, I.marks, hkeepM]
    cases star <;> simp [finOut, LinesLang.tokMarks_action (mkAction pos) rfl,
      LinesLang.tokMarks_lang (backTok pos) rfl rfl, marksOf]
  · intro t ht
    simp only [outMain, outMain_tokPieces, List.mem_append] at ht
    rcases ht with ht | ht | ht
    · have : t.txt = [] := by
        unfold finOut at ht
        simp only [List.mem_cons] at ht
        rcases ht with rfl | rfl | ht
        · rfl
        · rfl
        · split at ht
          · cases ht
          · rw [List.mem_singleton] at ht; subst ht; rfl
      exact LinesLang.Simple_of_nil _ this
    · exact (simple_of_copy (hkeep t ht)).1
    · exact I.simple t ht
  · have h1 := E.len
    have h3 := I.cost
    have hsk : (skipToks star (pos + ((envName star).length + 6)) sp).length
        + (keepToks star (pos + ((envName star).length + 6)) sp).length ≤ sp.length := by
      unfold skipToks keepToks
      cases sp with
      | nil => simp
      | cons c cs => simp only [List.isEmpty_cons, Bool.false_eq_true, if_false]; split <;> simp
    rw [render_cons_length]
    simp only [cost, cost_tokPieces, List.length_map, Seg.len, finLen]
    omega
  · intro _ t ht
    simp only [flat, Piece.toks, List.cons_append, List.head?_cons, Option.some.injEq] at ht
    rw [← ht]; rfl

theorem envName_verb (star : Bool) (X : Str) : startsWith ('{' :: (envName star ++ X)) sVerbatimArg = false := by
  cases star <;> rfl

/-- the scanner loop on a well-formed document: complete, no diagnostics, the token buffer
    consists of the pieces of `PieceFacts` -/
theorem scanSteps_segs (T : PTables) (src : Str) :
    ∀ (segs : List Seg) (fuel pos : Nat) (st : PState), (render segs).length ≤ fuel →
      segsOk T st segs = true →
      ∃ steps ps, scanSteps T.toTables src fuel pos (render segs) = (steps, true) ∧
        (∀ x ∈ steps, x.diag = none ∧ x.extra = []) ∧ steps.map (·.tok) = flat ps ∧
        PieceFacts T st pos segs ps := by
  intro segs
  induction segs with
  | nil =>
    intro fuel pos st _ _
    exact ⟨[], [], by simp [render, scanSteps], by simp, rfl, PieceFacts_nil T st pos⟩
  | cons sg rest ih =>
    intro fuel pos st hf hok
    cases sg with
    | txt s =>
      simp only [segsOk, Bool.and_eq_true] at hok
      obtain ⟨⟨htext, hhead⟩, hrest⟩ := hok
      rw [render_cons_length] at hf
      simp only [Seg.len] at hf
      obtain ⟨bsteps, B, hrun⟩ := PlainFootnote.scanSteps_textrun T st src (render rest) hhead
        s.length s pos fuel (Nat.le_refl _) (by omega) htext
      have hBl := B.len
      obtain ⟨steps', ps', hsc, hok', hflat, I⟩ := ih (fuel - bsteps.length) (pos + s.length) st
        (by omega) hrest
      refine ⟨bsteps ++ steps', tokPieces (bsteps.map (·.tok)) ++ ps', ?_, ?_, ?_, PieceFacts_txt B I⟩
      · show scanSteps T.toTables src fuel pos (s ++ render rest) = _
        rw [hrun, hsc]
      · intro x hx
        rcases List.mem_append.mp hx with hx | hx
        · exact ⟨(B.ok x hx).1, (B.ok x hx).2.1⟩
        · exact hok' x hx
      · rw [List.map_append, flat_tokPieces, hflat]
    | sel name =>
      simp only [segsOk, Bool.and_eq_true] at hok
      obtain ⟨hsel, hrest⟩ := hok
      have F := PlainLang.selFacts hsel
      rw [render_cons_length] at hf
      simp only [Seg.len] at hf
      rw [render_sel]
      have hn1 := PlainLang.nextToken_sel T st src pos name (render rest) F
      obtain ⟨k1, hk1, hn2⟩ := PlainFootnote.nextToken_brace T src (pos + 15) '{'
        (name ++ '}' :: render rest) (Or.inl rfl) F.lb
      obtain ⟨k2, hk2, hn3⟩ := PlainFootnote.nextToken_brace T src
        (pos + 16 + name.length) '}' (render rest) (Or.inr rfl) F.rb
      obtain ⟨f, rfl⟩ : ∃ f, fuel = f + 2 := ⟨fuel - 2, by omega⟩
      obtain ⟨bsteps, B, hrun⟩ := PlainFootnote.scanSteps_textrun T st src ('}' :: render rest)
        (by simp; decide) name.length name (pos + 16) f (Nat.le_refl _) (by omega) F.text
      have hBl := B.len
      obtain ⟨g, hg⟩ : ∃ g, f - bsteps.length = g + 1 := ⟨f - bsteps.length - 1, by omega⟩
      obtain ⟨steps', ps', hsc, hok', hflat, I⟩ := ih g (pos + (name.length + 17))
        (setLang T st (codeOfName T name)) (by omega) hrest
      have hpos2 : pos + 16 + name.length + 1 = pos + (name.length + 17) := by omega
      have hd1 : ('\\' :: (selName ++ '{' :: (name ++ '}' :: render rest))).drop 15
          = '{' :: (name ++ '}' :: render rest) := by
        have h15 : (15 : Nat) = selName.length + 1 := by decide
        rw [h15, List.drop_succ_cons, List.drop_left]
      have hsteps : scanSteps T.toTables src (f + 2) pos
            ('\\' :: (selName ++ '{' :: (name ++ '}' :: render rest)))
          = ({ tok := cwTok pos selName, len := 15 } ::
              { tok := { kind := k1, pos := pos + 15, txt := ['{'] }, len := 1 } ::
              (bsteps ++
                { tok := { kind := k2, pos := pos + 16 + name.length, txt := ['}'] },
                  len := 1 } :: steps'), true) := by
        rw [scanSteps_step T.toTables src (f + 1) pos _ _ _ hn1 (by simp)]
        simp only [hd1]
        rw [scanSteps_step T.toTables src f _ _ _ _ hn2 (by simp)]
        simp only [List.drop_succ_cons, List.drop_zero]
        rw [show pos + 15 + 1 = pos + 16 by omega, hrun, hg]
        have hn3' := scanSteps_step T.toTables src g _ _ _ _ hn3 (by simp)
        simp only [List.drop_succ_cons, List.drop_zero, hpos2, hsc] at hn3'
        rw [hn3']
      refine ⟨_, .sel (cwTok pos selName) { kind := k1, pos := pos + 15, txt := ['{'] }
            (bsteps.map (·.tok))
            { kind := k2, pos := pos + 16 + name.length, txt := ['}'] } :: ps',
        hsteps, ?_, ?_, ?_⟩
      · intro x hx
        simp only [List.mem_cons, List.mem_append] at hx
        rcases hx with rfl | rfl | hx | rfl | hx
        · exact ⟨rfl, rfl⟩
        · exact ⟨rfl, rfl⟩
        · exact ⟨(B.ok x hx).1, (B.ok x hx).2.1⟩
        · exact ⟨rfl, rfl⟩
        · exact hok' x hx
      · simp [flat, Piece.toks, hflat]
      · exact PieceFacts_sel k1 k2 hk1 hk2 F B I
    | frn n b =>
      simp only [segsOk, Bool.and_eq_true] at hok
      obtain ⟨hfrn, hrest⟩ := hok
      have F := frnFacts hfrn
      rw [render_cons_length] at hf
      simp only [Seg.len, frnLen] at hf
      rw [render_frn]
      have hn1 := nextToken_frn T src pos (n ++ '}' :: '{' :: (b ++ '}' :: render rest)) F.special F.nAccent
      obtain ⟨k1, hk1, hn2⟩ := PlainFootnote.nextToken_brace T src (pos + 16) '{'
        (n ++ '}' :: '{' :: (b ++ '}' :: render rest)) (Or.inl rfl) F.lb1
      obtain ⟨k2, hk2, hn3⟩ := PlainFootnote.nextToken_brace T src
        (pos + 17 + n.length) '}' ('{' :: (b ++ '}' :: render rest)) (Or.inr rfl) F.rb1
      obtain ⟨k3, hk3, hn4⟩ := PlainFootnote.nextToken_brace T src
        (pos + 18 + n.length) '{' (b ++ '}' :: render rest) (Or.inl rfl) F.lb2
      obtain ⟨k4, hk4, hn5⟩ := PlainFootnote.nextToken_brace T src
        (pos + bodyOff n + b.length) '}' (render rest) (Or.inr rfl) F.rb2
      obtain ⟨f, rfl⟩ : ∃ f, fuel = f + 2 := ⟨fuel - 2, by omega⟩
      obtain ⟨nsteps, N, hrunN⟩ := PlainFootnote.scanSteps_textrun T st src
        ('}' :: '{' :: (b ++ '}' :: render rest)) (by simp; decide) n.length n (pos + 17) f
        (Nat.le_refl _) (by omega) F.text
      have hNl := N.len
      obtain ⟨g, hg⟩ : ∃ g, f - nsteps.length = g + 2 := ⟨f - nsteps.length - 2, by omega⟩
      obtain ⟨bsteps, B, hrunB⟩ := PlainFootnote.scanSteps_textrun T (pushLang T st (codeOfName T n)) src
        ('}' :: render rest) (by simp; decide) b.length b (pos + bodyOff n) g
        (Nat.le_refl _) (by omega) F.btext
      have hBl := B.len
      obtain ⟨g', hg'⟩ : ∃ g', g - bsteps.length = g' + 1 := ⟨g - bsteps.length - 1, by omega⟩
      obtain ⟨steps', ps', hsc, hok', hflat, I⟩ := ih g' (pos + frnLen n b) st
        (by omega) hrest
      have hd1 : ('\\' :: (frnName ++ '{' :: (n ++ '}' :: '{' :: (b ++ '}' :: render rest)))).drop 16
          = '{' :: (n ++ '}' :: '{' :: (b ++ '}' :: render rest)) := by
        have h16 : (16 : Nat) = frnName.length + 1 := by decide
        rw [h16, List.drop_succ_cons, List.drop_left]
      have hp1 : pos + 16 + 1 = pos + 17 := by omega
      have hp2 : pos + 17 + n.length + 1 = pos + 18 + n.length := by omega
      have hp3 : pos + 18 + n.length + 1 = pos + bodyOff n := by simp only [bodyOff]; omega
      have hp4 : pos + bodyOff n + b.length + 1 = pos + frnLen n b := by
        simp only [bodyOff, frnLen]; omega
      have hsteps : scanSteps T.toTables src (f + 2) pos
            ('\\' :: (frnName ++ '{' :: (n ++ '}' :: '{' :: (b ++ '}' :: render rest))))
          = ({ tok := cwTok pos frnName, len := 16 } ::
              { tok := { kind := k1, pos := pos + 16, txt := ['{'] }, len := 1 } ::
              (nsteps ++
                { tok := { kind := k2, pos := pos + 17 + n.length, txt := ['}'] }, len := 1 } ::
                { tok := { kind := k3, pos := pos + 18 + n.length, txt := ['{'] }, len := 1 } ::
                (bsteps ++
                  { tok := { kind := k4, pos := pos + bodyOff n + b.length, txt := ['}'] }, len := 1 } ::
                  steps')), true) := by
        rw [scanSteps_step T.toTables src (f + 1) pos _ _ _ hn1 (by simp)]
        simp only [hd1]
        rw [scanSteps_step T.toTables src f _ _ _ _ hn2 (by simp)]
        simp only [List.drop_succ_cons, List.drop_zero]
        rw [hp1, hrunN, hg]
        have hn3' := scanSteps_step T.toTables src (g + 1) _ _ _ _ hn3 (by simp)
        simp only [List.drop_succ_cons, List.drop_zero, hp2] at hn3'
        have hn4' := scanSteps_step T.toTables src g _ _ _ _ hn4 (by simp)
        simp only [List.drop_succ_cons, List.drop_zero, hp3, hrunB, hg'] at hn4'
        have hn5' := scanSteps_step T.toTables src g' _ _ _ _ hn5 (by simp)
        simp only [List.drop_succ_cons, List.drop_zero, hp4, hsc] at hn5'
        rw [hn3', hn4', hn5']
      refine ⟨_, .frn (cwTok pos frnName) { kind := k1, pos := pos + 16, txt := ['{'] }
            (nsteps.map (·.tok))
            { kind := k2, pos := pos + 17 + n.length, txt := ['}'] }
            { kind := k3, pos := pos + 18 + n.length, txt := ['{'] }
            (bsteps.map (·.tok))
            { kind := k4, pos := pos + bodyOff n + b.length, txt := ['}'] } :: ps',
        hsteps, ?_, ?_, ?_⟩
      · intro x hx
        simp only [List.mem_cons, List.mem_append] at hx
        rcases hx with rfl | rfl | hx | rfl | rfl | hx | rfl | hx
        · exact ⟨rfl, rfl⟩
        · exact ⟨rfl, rfl⟩
        · exact ⟨(N.ok x hx).1, (N.ok x hx).2.1⟩
        · exact ⟨rfl, rfl⟩
        · exact ⟨rfl, rfl⟩
        · exact ⟨(B.ok x hx).1, (B.ok x hx).2.1⟩
        · exact ⟨rfl, rfl⟩
        · exact hok' x hx
      · simp [flat, Piece.toks, hflat]
      · exact PieceFacts_frn k1 k2 k3 k4 hk1 hk2 hk3 hk4 F N B I
    | beg star n =>
      simp only [segsOk, Bool.and_eq_true] at hok
      obtain ⟨hbeg, hrest⟩ := hok
      have F := begFacts hbeg
      rw [render_cons_length] at hf
      simp only [Seg.len, begLen] at hf
      rw [render_beg]
      have hn1 := nextToken_begin T src pos (envName star ++ '}' :: '{' :: (n ++ '}' :: render rest))
        F.special (envName_verb star _)
      have hn2 := PlainMacro.nextToken_brace T src (pos + 6) '{'
        (envName star ++ '}' :: '{' :: (n ++ '}' :: render rest)) (Or.inl rfl) F.lb0
      have hn3 := PlainMacro.nextToken_brace T src (pos + 7 + (envName star).length) '}'
        ('{' :: (n ++ '}' :: render rest)) (Or.inr rfl) F.rb0
      obtain ⟨k1, hk1, hn4⟩ := PlainFootnote.nextToken_brace T src (pos + 8 + (envName star).length) '{'
        (n ++ '}' :: render rest) (Or.inl rfl) F.lb
      obtain ⟨k2, hk2, hn5⟩ := PlainFootnote.nextToken_brace T src (pos + (envName star).length + 9 + n.length) '}'
        (render rest) (Or.inr rfl) F.rb
      obtain ⟨f, rfl⟩ : ∃ f, fuel = f + 2 := ⟨fuel - 2, by omega⟩
      obtain ⟨esteps, E, hrunE⟩ := PlainFootnote.scanSteps_textrun T st src
        ('}' :: '{' :: (n ++ '}' :: render rest)) (by simp; decide) (envName star).length (envName star)
        (pos + 7) f (Nat.le_refl _) (by omega) F.etext
      have hEl := E.len
      obtain ⟨g, hg⟩ : ∃ g, f - esteps.length = g + 2 := ⟨f - esteps.length - 2, by omega⟩
      obtain ⟨nsteps, N, hrunN⟩ := PlainFootnote.scanSteps_textrun T st src
        ('}' :: render rest) (by simp; decide) n.length n (pos + (envName star).length + 9) g
        (Nat.le_refl _) (by omega) F.text
      have hNl := N.len
      obtain ⟨g', hg'⟩ : ∃ g', g - nsteps.length = g' + 1 := ⟨g - nsteps.length - 1, by omega⟩
      obtain ⟨steps', ps', hsc, hok', hflat, I⟩ := ih g' (pos + begLen star n)
        (pushLang T st (codeOfName T n)) (by omega) hrest
      have hd1 : ('\\' :: (nBegin ++ '{' :: (envName star ++ '}' :: '{' :: (n ++ '}' :: render rest)))).drop 6
          = '{' :: (envName star ++ '}' :: '{' :: (n ++ '}' :: render rest)) := rfl
      have hp1 : pos + 6 + 1 = pos + 7 := by omega
      have hp2 : pos + 7 + (envName star).length + 1 = pos + 8 + (envName star).length := by omega
      have hp3 : pos + 8 + (envName star).length + 1 = pos + (envName star).length + 9 := by omega
      have hp4 : pos + (envName star).length + 9 + n.length + 1 = pos + begLen star n := by
        simp only [begLen]; omega
      have hsteps : scanSteps T.toTables src (f + 2) pos
            ('\\' :: (nBegin ++ '{' :: (envName star ++ '}' :: '{' :: (n ++ '}' :: render rest))))
          = ({ tok := begTok pos, len := 6 } ::
              { tok := lbr (pos + 6), len := 1 } ::
              (esteps ++
                { tok := rbr (pos + 7 + (envName star).length), len := 1 } ::
                { tok := { kind := k1, pos := pos + 8 + (envName star).length, txt := ['{'] }, len := 1 } ::
                (nsteps ++
                  { tok := { kind := k2, pos := pos + (envName star).length + 9 + n.length, txt := ['}'] }, len := 1 } ::
                  steps')), true) := by
        rw [scanSteps_step T.toTables src (f + 1) pos _ _ _ hn1 (by simp)]
        simp only [hd1]
        rw [scanSteps_step T.toTables src f _ _ _ _ hn2 (by simp)]
        simp only [List.drop_succ_cons, List.drop_zero]
        rw [hp1, hrunE, hg]
        have hn3' := scanSteps_step T.toTables src (g + 1) _ _ _ _ hn3 (by simp)
        simp only [List.drop_succ_cons, List.drop_zero, hp2] at hn3'
        have hn4' := scanSteps_step T.toTables src g _ _ _ _ hn4 (by simp)
        simp only [List.drop_succ_cons, List.drop_zero, hp3, hrunN, hg'] at hn4'
        have hn5' := scanSteps_step T.toTables src g' _ _ _ _ hn5 (by simp)
        simp only [List.drop_succ_cons, List.drop_zero, hp4, hsc] at hn5'
        rw [show pos + 7 + (envName star).length = pos + 7 + (envName star).length from rfl, hn3', hn4', hn5']
        rfl
      refine ⟨_, _, hsteps, ?_, ?_, PieceFacts_beg (pos := pos) k1 k2 hk1 hk2 F E N I⟩
      · intro x hx
        simp only [List.mem_cons, List.mem_append] at hx
        rcases hx with rfl | rfl | hx | rfl | rfl | hx | rfl | hx
        · exact ⟨rfl, rfl⟩
        · exact ⟨rfl, rfl⟩
        · exact ⟨(E.ok x hx).1, (E.ok x hx).2.1⟩
        · exact ⟨rfl, rfl⟩
        · exact ⟨rfl, rfl⟩
        · exact ⟨(N.ok x hx).1, (N.ok x hx).2.1⟩
        · exact ⟨rfl, rfl⟩
        · exact hok' x hx
      · simp [flat, Piece.toks, hflat]
    | fin star sp =>
      simp only [segsOk, Bool.and_eq_true] at hok
      obtain ⟨hfin, hrest⟩ := hok
      have F := finFacts hfin
      rw [render_cons_length] at hf
      simp only [Seg.len, finLen] at hf
      rw [render_fin]
      have hn1 := nextToken_end T src pos (envName star ++ '}' :: (sp ++ render rest)) F.special
      have hn2 := PlainMacro.nextToken_brace T src (pos + 4) '{'
        (envName star ++ '}' :: (sp ++ render rest)) (Or.inl rfl) F.lb0
      have hn3 := PlainMacro.nextToken_brace T src (pos + 5 + (envName star).length) '}'
        (sp ++ render rest) (Or.inr rfl) F.rb0
      obtain ⟨f, rfl⟩ : ∃ f, fuel = f + 2 := ⟨fuel - 2, by omega⟩
      obtain ⟨esteps, E, hrunE⟩ := PlainFootnote.scanSteps_textrun T st src
        ('}' :: (sp ++ render rest)) (by simp; decide) (envName star).length (envName star)
        (pos + 5) f (Nat.le_refl _) (by omega) F.etext
      have hEl := E.len
      obtain ⟨g, hg⟩ : ∃ g, f - esteps.length = g + 1 := ⟨f - esteps.length - 1, by omega⟩
      have hd1 : ('\\' :: (nEnd ++ '{' :: (envName star ++ '}' :: (sp ++ render rest)))).drop 4
          = '{' :: (envName star ++ '}' :: (sp ++ render rest)) := rfl
      have hp1 : pos + 4 + 1 = pos + 5 := by omega
      have hp2 : pos + 5 + (envName star).length + 1 = pos + ((envName star).length + 6) := by omega
      -- the white space
      have hspstep : ∀ (steps' : List ScanStep),
          scanSteps T.toTables src (g - (if sp.isEmpty then 0 else 1)) (pos + finLen star sp) (render rest)
            = (steps', true) →
          scanSteps T.toTables src g (pos + ((envName star).length + 6)) (sp ++ render rest)
            = ((skipToks star (pos + ((envName star).length + 6)) sp ++ keepToks star (pos + ((envName star).length + 6)) sp).map
                (fun t => ({ tok := t, len := sp.length } : ScanStep)) ++ steps', true) := by
        intro steps' hsc
        cases sp with
        | nil =>
          simp only [List.isEmpty_nil, if_true, Nat.sub_zero, finLen, List.length_nil,
            Nat.add_zero] at hsc
          simp [skipToks, keepToks, hsc]
        | cons c cs =>
          have hc : isSpace c = true := F.blank c (List.mem_cons_self ..)
          have hcs : ∀ d ∈ cs, isSpace d = true := fun d hd => F.blank d (List.mem_cons_of_mem _ hd)
          have hn := nextToken_sp T src (pos + ((envName star).length + 6)) c cs (render rest) hc hcs F.head
          simp only [List.isEmpty_cons, Bool.false_eq_true, if_false, finLen, List.length_cons] at hsc
          obtain ⟨g1, rfl⟩ : ∃ g1, g = g1 + 1 := ⟨g - 1, by simp only [List.length_cons] at hf; omega⟩
          have hstep := scanSteps_step T.toTables src g1 (pos + ((envName star).length + 6)) c (cs ++ render rest) _ hn
            (by simp)
          simp only [List.drop_succ_cons, List.cons_append] at hstep ⊢
          rw [hstep, List.drop_left]
          rw [show pos + ((envName star).length + 6) + (cs.length + 1) = pos + ((envName star).length + (cs.length + 1) + 6) by omega]
          simp only [Nat.add_sub_cancel] at hsc
          rw [hsc]
          simp only [skipToks, keepToks, List.isEmpty_cons, Bool.false_eq_true, if_false,
            List.length_cons]
          split <;> simp
      obtain ⟨steps', ps', hsc, hok', hflat, I⟩ := ih (g - (if sp.isEmpty then 0 else 1))
        (pos + finLen star sp) (popLang T st)
        (by cases sp with
            | nil => simp; omega
            | cons c cs => simp only [List.length_cons] at hf; simp; omega) hrest
      have hsp := hspstep steps' hsc
      have hsteps : scanSteps T.toTables src (f + 2) pos
            ('\\' :: (nEnd ++ '{' :: (envName star ++ '}' :: (sp ++ render rest))))
          = ({ tok := endTok pos, len := 4 } ::
              { tok := lbr (pos + 4), len := 1 } ::
              (esteps ++
                { tok := rbr (pos + 5 + (envName star).length), len := 1 } ::
                ((skipToks star (pos + ((envName star).length + 6)) sp ++ keepToks star (pos + ((envName star).length + 6)) sp).map
                  (fun t => ({ tok := t, len := sp.length } : ScanStep)) ++ steps')), true) := by
        rw [scanSteps_step T.toTables src (f + 1) pos _ _ _ hn1 (by simp)]
        simp only [hd1]
        rw [scanSteps_step T.toTables src f _ _ _ _ hn2 (by simp)]
        simp only [List.drop_succ_cons, List.drop_zero]
        rw [hp1, hrunE, hg]
        have hn3' := scanSteps_step T.toTables src g _ _ _ _ hn3 (by simp)
        simp only [List.drop_succ_cons, List.drop_zero, hp2] at hn3'
        rw [hn3', hsp]
        rfl
      refine ⟨_, _, hsteps, ?_, ?_, PieceFacts_fin (pos := pos) F E I⟩
      · intro x hx
        simp only [List.mem_cons, List.mem_append, List.mem_map] at hx
        rcases hx with rfl | rfl | hx | rfl | ⟨t, _, rfl⟩ | hx
        · exact ⟨rfl, rfl⟩
        · exact ⟨rfl, rfl⟩
        · exact ⟨(E.ok x hx).1, (E.ok x hx).2.1⟩
        · exact ⟨rfl, rfl⟩
        · exact ⟨rfl, rfl⟩
        · exact hok' x hx
      · simp [flat, Piece.toks, hflat, flat_tokPieces, Function.comp_def]

end PlainLangMix
end Yalafi
