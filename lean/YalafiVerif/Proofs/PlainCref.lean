/-
  Proofs/PlainCref.lean — C04 "generated text maps into the span of the construct that generated it"
  for the reference macros of package cleveref (`\cref`, `\Cref`, `\crefrange`, `\Crefrange` after
  `\YYCleverefInput`), on the model, at three levels:

  (1) the handler (`cref_call`, `crefrange_call`, `cref_tokens_fixed`, `crefrange_tokens_fixed`): a hit
      returns the scanned replacement text of the sed file, EVERY token at the position of the call and
      position-fixed (`pos_fix`), only the diagnostics of the state change; a miss returns the error
      mark of `latex_error` at the call.  No side condition.
  (2) the macro call (`expandArguments_cref`, `expandMacro_cref`): `\cref{label}` with a known label —
      `{`, plain label tokens, `}` — is replaced by an Action token at the backslash and the generated
      tokens; the label tokens vanish.
  (3) the main loop (`seq_cref_step`, `seq_pieces`): a token buffer made of tokens that are copied and
      of such calls whose replacement text consists of tokens that are copied (words, blanks: the
      tokens `CopyTok` of Proofs/PlainFootnote.lean) — `expand_sequence` appends, for every call, an
      Action token and the replacement characters, all pinned to the backslash of THAT call, and
      nothing of the label; the state is unchanged.

  Side conditions of (2), (3): the macro is declared as `h_read_sed` declares it (`CrefDecl`: arguments
  `*A`, handler `.cref plain star`, no extraction); no star; `{` directly behind the name; the label is
  not empty and consists of plain tokens (text / space tokens that are no `$ \( $$ \[ \\ { }`); the
  look-up of the label text in the plain table succeeds; scanning the replacement text yields no
  scanner message (else the state changes: its `diags` grow — level (1) covers that); for (3) the
  empty string is no "active character" of the language settings (`noEmptyActive`, true for the
  real tables) and the generated tokens are `CopyTok` in the state.

  NOT covered here: the scanner level and `tex2txt` (the documents of `Properties/CleverefStmt.lean`
  are evaluated by the kernel instead), the star form, `\crefrange` at levels (2)/(3), replacement
  texts with macros (`\nobreakspace`, `\textup {(\ref {eq:1})}` are pushed back and expanded again, at
  the position of the call: level (1) says that they start there), multi-language mode.
-/
import YalafiVerif.Proofs.PlainHeading
namespace Yalafi
namespace PlainCref

open M
open Cleveref
open PlainFootnote (BraceTok CopyTok argBuffer_braced skipSpace_brace skippedLangs_brace seq_copy_prefix)

/-! ### (1) the handler -/

/-- the tokens a hit generates: the replacement text scanned, every token pinned to the call -/
def genToks (T : PTables) (str : Str) (pos : Nat) : List Tok :=
  (scan T.toTables str).toks.map (fun t => { t with pos := pos, fix := true })

/-- the result of a hit -/
def crefHit (T : PTables) (str : Str) (pos : Nat) (st : PState) : Outcome (List Tok × PState) :=
  .ok (genToks T str pos, { st with diags := st.diags ++ (scan T.toTables str).diags })

theorem crefToks_eq (T : PTables) (str : Str) (pos : Nat) (st : PState) :
    crefToks T str pos st = crefHit T str pos st := rfl

/-- `\cref` / `\Cref` after `\YYCleverefInput` (arguments: star, label) -/
theorem cref_call (T : PTables) (fuel : Nat) (plain star : List (Str × Str)) (buf : Buf) (mac : MacroDef)
    (a0 a1 : List Tok) (rest : List (List Tok)) (pos : Nat) (st : PState) :
    callHandler T (fuel + 1) (.cref plain star) buf mac (a0 :: a1 :: rest) pos st =
      match lookupLast (if (getTextDirect a0).isEmpty then plain else star) (getTextDirect a1) with
      | some str => crefHit T str pos st
      | none => latexError T.toTables (fmt T.crefMsgs.crefUndef [mac.name, getTextDirect a1]) pos st := by
  simp only [callHandler, List.getElem?_cons_zero, List.getElem?_cons_succ]
  show (match lookupLast _ _ with | some str => crefToks T str pos | none => _) st = _
  cases lookupLast (if (getTextDirect a0).isEmpty then plain else star) (getTextDirect a1) <;> rfl

/-- `\crefrange` / `\Crefrange` (arguments: star, first label, second label) -/
theorem crefrange_call (T : PTables) (fuel : Nat) (plain star : List ((Str × Str) × Str)) (buf : Buf)
    (mac : MacroDef) (a0 a1 a2 : List Tok) (rest : List (List Tok)) (pos : Nat) (st : PState) :
    callHandler T (fuel + 1) (.crefrange plain star) buf mac (a0 :: a1 :: a2 :: rest) pos st =
      match lookupLast (if (getTextDirect a0).isEmpty then plain else star) (getTextDirect a1, getTextDirect a2) with
      | some str => crefHit T str pos st
      | none => latexError T.toTables
          (fmt T.crefMsgs.crefrangeUndef [mac.name, getTextDirect a1, getTextDirect a2]) pos st := by
  simp only [callHandler, List.getElem?_cons_zero, List.getElem?_cons_succ]
  show (match lookupLast _ _ with | some str => crefToks T str pos | none => _) st = _
  cases lookupLast (if (getTextDirect a0).isEmpty then plain else star) (getTextDirect a1, getTextDirect a2) <;> rfl

/-- what "generated by this call" means for the tokens a reference macro returns: all position-fixed;
    all at the position of the call, or the error mark `latex_error` puts there -/
def AtCall (T : PTables) (pos : Nat) (st : PState) (r : List Tok) : Prop :=
  (∀ t ∈ r, t.fix = true) ∧
  ((∀ t ∈ r, t.pos = pos) ∨ ∃ err, r = latexErrorToks T.toTables err pos st.latex.length)

theorem genToks_at (T : PTables) (str : Str) (pos : Nat) : ∀ t ∈ genToks T str pos, t.pos = pos ∧ t.fix = true := by
  intro t ht
  simp only [genToks, List.mem_map] at ht
  obtain ⟨u, -, rfl⟩ := ht
  exact ⟨rfl, rfl⟩

theorem atCall_hit (T : PTables) (str : Str) (pos : Nat) (st st' : PState) (r : List Tok)
    (h : crefHit T str pos st = .ok (r, st')) : AtCall T pos st r := by
  simp only [crefHit, Outcome.ok.injEq, Prod.mk.injEq] at h
  obtain ⟨rfl, -⟩ := h
  exact ⟨fun t ht => (genToks_at T str pos t ht).2, Or.inl (fun t ht => (genToks_at T str pos t ht).1)⟩

theorem latexErrorToks_fix (T : Tables) (err : Str) (pos n : Nat) :
    ∀ t ∈ latexErrorToks T err pos n, t.fix = true := by
  intro t ht
  unfold latexErrorToks at ht
  dsimp only at ht
  split at ht
  · simp only [List.mem_cons, List.not_mem_nil, or_false] at ht
    rcases ht with rfl | rfl <;> rfl
  · simp only [List.mem_singleton] at ht
    subst ht; rfl

theorem atCall_miss (T : PTables) (err : Str) (pos : Nat) (st st' : PState) (r : List Tok)
    (h : latexError T.toTables err pos st = .ok (r, st')) : AtCall T pos st r := by
  simp only [latexError, Outcome.ok.injEq, Prod.mk.injEq] at h
  obtain ⟨rfl, -⟩ := h
  exact ⟨latexErrorToks_fix _ _ _ _, Or.inr ⟨err, rfl⟩⟩

/-- **C04 for `\cref`**: every token a call returns is position-fixed; they all carry the position of
    the call (a hit: the generated text maps to the backslash of the call), or they are the error mark
    `latex_error` puts at the call (a miss) -/
theorem cref_tokens_fixed (T : PTables) (fuel : Nat) (plain star : List (Str × Str)) (buf : Buf) (mac : MacroDef)
    (a0 a1 : List Tok) (rest : List (List Tok)) (pos : Nat) (st st' : PState) (r : List Tok)
    (h : callHandler T (fuel + 1) (.cref plain star) buf mac (a0 :: a1 :: rest) pos st = .ok (r, st')) :
    AtCall T pos st r := by
  rw [cref_call] at h
  split at h
  · exact atCall_hit T _ pos st st' r h
  · exact atCall_miss T _ pos st st' r h

/-- **C04 for `\crefrange`** -/
theorem crefrange_tokens_fixed (T : PTables) (fuel : Nat) (plain star : List ((Str × Str) × Str)) (buf : Buf)
    (mac : MacroDef) (a0 a1 a2 : List Tok) (rest : List (List Tok)) (pos : Nat) (st st' : PState) (r : List Tok)
    (h : callHandler T (fuel + 1) (.crefrange plain star) buf mac (a0 :: a1 :: a2 :: rest) pos st = .ok (r, st')) :
    AtCall T pos st r := by
  rw [crefrange_call] at h
  split at h
  · exact atCall_hit T _ pos st st' r h
  · exact atCall_miss T _ pos st st' r h

/-- with fewer arguments than the handler indexes the call is a crash `handler:args[k]`, never a result
    (`expand_arguments` always passes one list per argument code: `arityOk` of the bundle) -/
theorem cref_short_args (T : PTables) (fuel : Nat) (plain star : List (Str × Str)) (buf : Buf) (mac : MacroDef)
    (args : List (List Tok)) (hlen : args.length < 2) (pos : Nat) (st : PState) :
    callHandler T (fuel + 1) (.cref plain star) buf mac args pos st = .crash "handler:args[k]" := by
  match args, hlen with
  | [], _ => simp only [callHandler, List.getElem?_nil]; rfl
  | [a], _ => simp only [callHandler, List.getElem?_cons_zero, List.getElem?_cons_succ, List.getElem?_nil]; rfl

/-! ### (2) the macro call `\cref{label}` -/

/-- the macro as `h_read_sed` declares it -/
structure CrefDecl (mac : MacroDef) (plain star : List (Str × Str)) : Prop where
  args : mac.args = ['*', 'A']
  handler : mac.handler = .cref plain star
  extract : mac.extract = []

/-- `*A` on `{label}`: no star, the tokens between the braces -/
theorem collectArgs_cref (T : PTables) (mac : MacroDef) (lb rb : Tok) (body : List Tok)
    (rest : Buf) (start : Nat) (st : PState) (hlb : BraceTok '{' lb) (hrb : BraceTok '}' rb)
    (hb : ∀ t ∈ body, PlainTok t) (hne : body ≠ []) :
    collectArgs T mac ['*', 'A'] 0 (lb :: (body ++ rb :: rest)) start {} st
      = .ok (({ args := [[], body], extr := [[], body], langs := [] }, rest), st) := by
  have h0 : txtIsNV lb "*" = false := by simp [txtIsNV, hlb.txt]
  have h2 : txtIsNV lb "}" = false := by simp [txtIsNV, hlb.txt]
  simp only [collectArgs, skipSpace_brace lb _ hlb, skippedLangs_brace lb _ hlb, List.head?_cons,
    h0, h2, show ('*' == '*') = true by decide,
    show ('A' == '*') = false by decide, show ('A' == 'O') = false by decide,
    show ('A' == 'A') = true by decide, Bool.false_eq_true, if_false, if_true, List.append_nil,
    List.nil_append]
  refine (M.bind_ok _ _ _ _ _ (argBuffer_braced T.toTables lb rb body rest lb.pos st hlb hrb hb hne)).trans ?_
  rfl

/-- the state after a hit whose replacement text scans without a message is the state before -/
theorem diags_same (st : PState) (d : List Diag) (h : d = []) : { st with diags := st.diags ++ d } = st := by
  subst h
  cases st
  simp

/-- **(2) `expand_arguments`**: an Action token at the position of the macro and the generated tokens,
    all at that position and pinned; the buffer behind the closing brace; the state is unchanged.  The
    label tokens are gone. -/
theorem expandArguments_cref (T : PTables) (fuel : Nat) (mac : MacroDef) (plain star : List (Str × Str))
    (lb rb : Tok) (body : List Tok) (rest : Buf) (start : Nat) (st : PState) (hm : CrefDecl mac plain star)
    (hlb : BraceTok '{' lb) (hrb : BraceTok '}' rb) (hb : ∀ t ∈ body, PlainTok t) (hne : body ≠ [])
    (str : Str) (hlk : lookupLast plain (getTextDirect body) = some str)
    (hd : (scan T.toTables str).diags = []) (hf : 2 ≤ fuel) :
    expandArguments T fuel (lb :: (body ++ rb :: rest)) mac start st
      = .ok ((mkAction start :: genToks T str start, rest), st) := by
  obtain ⟨f, rfl⟩ : ∃ f, fuel = f + 2 := ⟨fuel - 2, by omega⟩
  rw [expandArguments.eq_2, hm.args]
  refine (M.bind_ok _ _ _ _ _ (collectArgs_cref T mac lb rb body rest start st hlb hrb hb hne)).trans ?_
  have hne' : (Handler.cref plain star != Handler.none) = true := by simp
  simp only [hm.extract, hm.handler, List.isEmpty_nil, Bool.not_true, Bool.false_eq_true, if_false, hne', if_true]
  have hc := cref_call T f plain star rest mac [] body [] start st
  simp only [getTextDirect, List.filter_nil, List.flatMap_nil, List.isEmpty_nil, if_true] at hc
  have hlk' : lookupLast plain (List.flatMap (fun x => x.txt) (List.filter (fun t => t.kind != Kind.comment) body)) = some str := hlk
  rw [hlk'] at hc
  refine (M.bind_ok _ _ _ _ _ (hc.trans rfl)).trans ?_
  show Outcome.ok _ = _
  rw [diags_same st _ hd]
  simp

theorem expandMacro_cref (T : PTables) (fuel : Nat) (mac : MacroDef) (plain star : List (Str × Str))
    (hd lb rb : Tok) (body : List Tok) (rest : Buf) (st : PState)
    (hmac : lookupMacro st hd.txt = some mac) (hm : CrefDecl mac plain star)
    (hlb : BraceTok '{' lb) (hrb : BraceTok '}' rb) (hb : ∀ t ∈ body, PlainTok t) (hne : body ≠ [])
    (str : Str) (hlk : lookupLast plain (getTextDirect body) = some str)
    (hdg : (scan T.toTables str).diags = []) (hf : 3 ≤ fuel) :
    expandMacro T fuel (lb :: (body ++ rb :: rest)) hd false st
      = .ok ((mkAction hd.pos :: genToks T str hd.pos, rest), st) := by
  obtain ⟨f, rfl⟩ : ∃ f, fuel = f + 1 := ⟨fuel - 1, by omega⟩
  have hsk : skipSpaceStopLangAct (lb :: (body ++ rb :: rest)) = lb :: (body ++ rb :: rest) := by
    simp [skipSpaceStopLangAct, hlb.notSpace]
  rw [expandMacro.eq_2]
  show M.bind' M.get _ st = _
  simp only [M.bind', M.get, hmac, hsk]
  exact expandArguments_cref T f mac plain star lb rb body rest hd.pos st hm hlb hrb hb hne str hlk hdg (by omega)

/-! ### (3) the loop -/

/-- one call `\cref{label}` in the token buffer with everything the loop needs to know about it -/
structure CallOk (T : PTables) (st : PState) (hd lb : Tok) (lab : List Tok) (rb : Tok) (str : Str) : Prop where
  kind : hd.kind = .xmacro
  nDef : txtIs hd "\\def" = false
  decl : ∃ mac plain star, lookupMacro st hd.txt = some mac ∧ CrefDecl mac plain star ∧
    lookupLast plain (getTextDirect lab) = some str
  hlb : BraceTok '{' lb
  hrb : BraceTok '}' rb
  plainLab : ∀ t ∈ lab, PlainTok t
  ne : lab ≠ []
  quiet : (scan T.toTables str).diags = []
  gen : ∀ t ∈ genToks T str hd.pos, CopyTok T st t

/-- one call in the loop: the macro token, the braces and the label are replaced by an Action token and
    the generated tokens at the position of the backslash, which are then copied; the state is unchanged -/
theorem seq_cref_step (T : PTables) (fuel : Nat) (hd lb rb : Tok) (body : List Tok) (str : Str)
    (rest : Buf) (envStop : Option Str) (out : List Tok) (st : PState)
    (hs : noEmptyActive T st = true) (hc : CallOk T st hd lb body rb str) :
    expandSequence T (fuel + (genToks T str hd.pos).length + 4) (hd :: lb :: (body ++ rb :: rest)) envStop out st
      = expandSequence T (fuel + 2) rest envStop (out ++ mkAction hd.pos :: genToks T str hd.pos) st := by
  obtain ⟨mac, plain, star, hmac, hm, hlk⟩ := hc.decl
  rw [expandSequence.eq_3]
  show M.bind' M.get _ st = _
  simp only [M.bind', M.get]
  simp only [hc.kind, hc.nDef, Bool.false_eq_true, if_false, if_true, reduceCtorEq, beq_iff_eq,
    beq_self_eq_true]
  refine (M.bind_ok _ _ _ _ _ (expandMacro_cref T (fuel + (genToks T str hd.pos).length + 3) mac plain star hd lb rb
    body rest st hmac hm hc.hlb hc.hrb hc.plainLab hc.ne str hlk hc.quiet (by omega))).trans ?_
  have hg : fuel + (genToks T str hd.pos).length + 3 = ((fuel + 2) + (genToks T str hd.pos).length) + 1 := by omega
  rw [hg]
  simp only [List.cons_append]
  rw [seq_action_step T _ hd.pos _ envStop out st hs,
    seq_copy_prefix T st envStop rest (genToks T str hd.pos) (fuel + 2) _ hc.gen]
  simp

/-- the pieces of a token buffer: a token that is copied, or a call `\cref{label}` whose label stands
    for the replacement text `str` -/
inductive Piece where
  | tok (t : Tok)
  | call (hd lb : Tok) (body : List Tok) (rb : Tok) (str : Str)

def Piece.toks : Piece → List Tok
  | .tok t => [t]
  | .call hd lb b rb _ => hd :: lb :: (b ++ [rb])

/-- what the loop appends for a piece -/
def Piece.out (T : PTables) : Piece → List Tok
  | .tok t => [t]
  | .call hd _ _ _ str => mkAction hd.pos :: genToks T str hd.pos

/-- loop iterations a piece needs at most -/
def Piece.cost (T : PTables) : Piece → Nat
  | .tok _ => 1
  | .call hd _ _ _ str => (genToks T str hd.pos).length + 4

def Piece.Ok (T : PTables) (st : PState) : Piece → Prop
  | .tok t => CopyTok T st t
  | .call hd lb b rb str => CallOk T st hd lb b rb str

def flat (ps : List Piece) : List Tok := (ps.map Piece.toks).flatten
def outP (T : PTables) (ps : List Piece) : List Tok := (ps.map (Piece.out T)).flatten
def cost (T : PTables) (ps : List Piece) : Nat := (ps.map (Piece.cost T)).sum

/-- **(3) the loop on a buffer of pieces**: `expand_sequence` works the pieces off one after the other;
    afterwards the output has grown by the tokens that are copied and, for every call, by an Action
    token and the replacement text of its label, every generated token at the position of the
    backslash of ITS call and pinned (`outP_call_at`); no token of a label is appended; the state is
    the same.  (With more fuel than `cost` the equation holds a fortiori: the fuel on the right is
    what is left.) -/
theorem seq_pieces (T : PTables) (st : PState) (envStop : Option Str) (rest : Buf)
    (hs : noEmptyActive T st = true) :
    ∀ (ps : List Piece) (fuel : Nat) (out : List Tok), (∀ p ∈ ps, p.Ok T st) →
      ∃ fuel', fuel ≤ fuel' ∧
      expandSequence T (fuel + cost T ps) (flat ps ++ rest) envStop out st
        = expandSequence T fuel' rest envStop (out ++ outP T ps) st
  | [], fuel, out, _ => ⟨fuel, Nat.le_refl _, by simp [cost, flat, outP]⟩
  | .tok t :: ps, fuel, out, h => by
    have ht : CopyTok T st t := h (.tok t) (List.mem_cons_self ..)
    obtain ⟨f', hle, ih⟩ := seq_pieces T st envStop rest hs ps fuel (out ++ [t])
      (fun p hp => h p (List.mem_cons_of_mem _ hp))
    refine ⟨f', hle, ?_⟩
    have h1 := seq_copy_prefix T st envStop (flat ps ++ rest) [t] (fuel + cost T ps) out
      (by intro x hx; rw [List.mem_singleton] at hx; subst hx; exact ht)
    have hc : fuel + cost T (.tok t :: ps) = fuel + cost T ps + [t].length := by
      simp [cost, Piece.cost]; omega
    have hfl : flat (.tok t :: ps) ++ rest = [t] ++ (flat ps ++ rest) := by simp [flat, Piece.toks]
    rw [hc, hfl, h1, ih]
    simp [outP, Piece.out]
  | .call hd lb b rb str :: ps, fuel, out, h => by
    have hc : CallOk T st hd lb b rb str := h (.call hd lb b rb str) (List.mem_cons_self ..)
    obtain ⟨f', hle, ih⟩ := seq_pieces T st envStop rest hs ps (fuel + 2) (out ++ mkAction hd.pos :: genToks T str hd.pos)
      (fun p hp => h p (List.mem_cons_of_mem _ hp))
    refine ⟨f', by omega, ?_⟩
    have h1 := seq_cref_step T (fuel + cost T ps) hd lb rb b str (flat ps ++ rest) envStop out st hs hc
    have hcst : fuel + cost T (.call hd lb b rb str :: ps)
        = fuel + cost T ps + (genToks T str hd.pos).length + 4 := by
      simp [cost, Piece.cost]; omega
    have hfl : flat (.call hd lb b rb str :: ps) ++ rest = hd :: lb :: (b ++ rb :: (flat ps ++ rest)) := by
      simp [flat, Piece.toks]
    have h2 : fuel + cost T ps + 2 = fuel + 2 + cost T ps := by omega
    rw [hcst, hfl, h1, h2, ih]
    simp [outP, Piece.out]

/-- reading of `outP`: every token appended for a call is the Action token or a generated token, at the
    position of the backslash of that call; generated tokens are pinned -/
theorem outP_call_at (T : PTables) (hd lb : Tok) (b : List Tok) (rb : Tok) (str : Str) :
    ∀ t ∈ Piece.out T (.call hd lb b rb str), t.pos = hd.pos ∧ (t = mkAction hd.pos ∨ t.fix = true) := by
  intro t ht
  simp only [Piece.out, List.mem_cons] at ht
  rcases ht with rfl | ht
  · exact ⟨rfl, Or.inl rfl⟩
  · exact ⟨(genToks_at T str hd.pos t ht).1, Or.inr (genToks_at T str hd.pos t ht).2⟩

/-! ### (4) computable side conditions -/

def plainTokB (t : Tok) : Bool :=
  (t.kind == .text || t.kind == .space || t.kind == .par) &&
  !txtIs t "$" && !txtIs t "\\(" && !txtIs t "$$" && !txtIs t "\\[" && !txtIs t "\\\\" && !txtIs t "{" && !txtIs t "}"

theorem plainTok_of {t : Tok} (h : plainTokB t = true) : PlainTok t := by
  simp only [plainTokB, Bool.and_eq_true, Bool.or_eq_true, beq_iff_eq, Bool.not_eq_true'] at h
  obtain ⟨⟨⟨⟨⟨⟨⟨hk, h1⟩, h2⟩, h3⟩, h4⟩, h5⟩, h6⟩, h7⟩ := h
  exact ⟨by rcases hk with (hk | hk) | hk <;> simp [hk], h1, h2, h3, h4, h5, h6, h7⟩

def copyTokB (T : PTables) (st : PState) (t : Tok) : Bool :=
  plainTokB t && !(activeChars T st).contains t.txt && !t.txt.isEmpty &&
  ((t.kind == .text && !hasNl t.txt) || ((t.kind == .space || t.kind == .par) && isBlank t.txt))

theorem copyTok_of {T : PTables} {st : PState} {t : Tok} (h : copyTokB T st t = true) : CopyTok T st t := by
  simp only [copyTokB, Bool.and_eq_true, Bool.or_eq_true, beq_iff_eq, Bool.not_eq_true', List.isEmpty_eq_false_iff] at h
  obtain ⟨⟨⟨hp, ha⟩, hne⟩, hs⟩ := h
  refine ⟨plainTok_of hp, ha, hne, ?_⟩
  rcases hs with ⟨hk, hn⟩ | ⟨hk, hb⟩
  · exact Or.inl ⟨hk, hn⟩
  · exact Or.inr ⟨hk, hb⟩

def braceTokB (c : Char) (t : Tok) : Bool := (t.kind == .special || t.kind == .text) && t.txt == [c]

theorem braceTok_of {c : Char} {t : Tok} (h : braceTokB c t = true) : BraceTok c t := by
  simp only [braceTokB, Bool.and_eq_true, Bool.or_eq_true, beq_iff_eq] at h
  exact ⟨h.1, h.2⟩

/-- the declaration part of `CallOk`, computed -/
def declB (st : PState) (hd : Tok) (lab : List Tok) (str : Str) : Bool :=
  match lookupMacro st hd.txt with
  | some mac =>
    mac.args == ['*', 'A'] && mac.extract.isEmpty &&
    (match mac.handler with
     | .cref plain _ => lookupLast plain (getTextDirect lab) == some str
     | _ => false)
  | none => false

def callOkB (T : PTables) (st : PState) (hd lb : Tok) (lab : List Tok) (rb : Tok) (str : Str) : Bool :=
  hd.kind == .xmacro && !txtIs hd "\\def" && declB st hd lab str &&
  braceTokB '{' lb && braceTokB '}' rb && lab.all plainTokB && !lab.isEmpty &&
  (scan T.toTables str).diags.isEmpty && (genToks T str hd.pos).all (copyTokB T st)

theorem callOk_of {T : PTables} {st : PState} {hd lb : Tok} {lab : List Tok} {rb : Tok} {str : Str}
    (h : callOkB T st hd lb lab rb str = true) : CallOk T st hd lb lab rb str := by
  simp only [callOkB, Bool.and_eq_true, beq_iff_eq, Bool.not_eq_true', List.all_eq_true,
    List.isEmpty_eq_false_iff, List.isEmpty_iff] at h
  obtain ⟨⟨⟨⟨⟨⟨⟨⟨hk, hnd⟩, hdecl⟩, hlb⟩, hrb⟩, hpl⟩, hne⟩, hq⟩, hg⟩ := h
  refine ⟨hk, hnd, ?_, braceTok_of hlb, braceTok_of hrb, fun t ht => plainTok_of (hpl t ht), hne, hq,
    fun t ht => copyTok_of (hg t ht)⟩
  unfold declB at hdecl
  split at hdecl
  · rename_i mac hmac
    simp only [Bool.and_eq_true, beq_iff_eq, List.isEmpty_iff] at hdecl
    obtain ⟨⟨ha, he⟩, hh⟩ := hdecl
    split at hh
    · rename_i plain star hhd
      exact ⟨mac, plain, star, hmac, ⟨ha, hhd, he⟩, by simpa using hh⟩
    · cases hh
  · cases hdecl

def Piece.okB (T : PTables) (st : PState) : Piece → Bool
  | .tok t => copyTokB T st t
  | .call hd lb b rb str => callOkB T st hd lb b rb str

theorem pieces_ok_of {T : PTables} {st : PState} {ps : List Piece} (h : ps.all (Piece.okB T st) = true) :
    ∀ p ∈ ps, p.Ok T st := by
  intro p hp
  have := List.all_eq_true.mp h p hp
  cases p with
  | tok t => exact copyTok_of this
  | call hd lb b rb str => exact callOk_of this

/-! ### (5) `\YYCleverefInput` replaces the reference macros completely (C17: nothing of an earlier sed
    file survives in them) -/

theorem find_setMacro_same (ms : List MacroDef) (m : MacroDef) :
    (setMacro ms m).find? (·.name == m.name) = some m := by
  unfold setMacro
  split
  · rename_i hany
    induction ms with
    | nil => simp at hany
    | cons x xs ih =>
      simp only [List.map_cons]
      by_cases hx : (x.name == m.name) = true
      · simp [hx]
      · have hx' : (x.name == m.name) = false := by simpa using hx
        have hany' : xs.any (·.name == m.name) = true := by simpa [hx'] using hany
        simp only [hx', Bool.false_eq_true, if_false, List.find?_cons]
        exact ih hany'
  · rename_i hany
    have hnone : ms.find? (·.name == m.name) = none := by
      rw [List.find?_eq_none]
      intro x hx hxe
      exact hany (List.any_eq_true.mpr ⟨x, hx, hxe⟩)
    simp [List.find?_append, hnone]

theorem find_setMacro_other (ms : List MacroDef) (m : MacroDef) (n : Str) (hn : (m.name == n) = false) :
    (setMacro ms m).find? (·.name == n) = ms.find? (·.name == n) := by
  unfold setMacro
  split
  · rename_i hany
    clear hany
    induction ms with
    | nil => rfl
    | cons x xs ih =>
      simp only [List.map_cons, List.find?_cons]
      by_cases hx : (x.name == m.name) = true
      · have hxe : x.name = m.name := by simpa using hx
        have hxn : (x.name == n) = false := by rw [hxe]; exact hn
        simp only [hx, if_true, hn, hxn]
        exact ih
      · have hx' : (x.name == m.name) = false := by simpa using hx
        simp only [hx', Bool.false_eq_true, if_false]
        cases hxn : (x.name == n) with
        | true => rfl
        | false => exact ih
  · simp [List.find?_append, hn]

theorem bind_ok_inv {α β} (x : M α) (f : α → M β) (s s' : PState) (b : β)
    (h : (x >>= f) s = .ok (b, s')) : ∃ a s1, x s = .ok (a, s1) ∧ f a s1 = .ok (b, s') := by
  have h' : M.bind' x f s = .ok (b, s') := h
  unfold M.bind' at h'
  cases hx : x s with
  | ok r => obtain ⟨a, s1⟩ := r; rw [hx] at h'; exact ⟨a, s1, rfl, h'⟩
  | fatal m => rw [hx] at h'; cases h'
  | crash c => rw [hx] at h'; cases h'
  | outOfFuel => rw [hx] at h'; cases h'

/-- after `h_read_sed` the four reference macros are the closures over the tables of THIS file, whatever
    the macro table held before (an earlier sed file, a `\renewcommand{\cref}`, the warning macros of the
    package) -/
theorem readSedText_macros (T : PTables) (sed : Str) (st st' : PState)
    (h : readSedText T sed st = .ok ((), st')) :
    ∀ m ∈ crefMacros (sedLines sed), lookupMacro st' m.name = some m := by
  simp only [readSedText] at h
  have hb : ∃ s1 : PState, st' = { s1 with macros := (crefMacros (sedLines sed)).foldl setMacro s1.macros } := by
    obtain ⟨u, s1, -, h2⟩ := bind_ok_inv _ _ _ _ _ h
    simp only [M.modify, Outcome.ok.injEq, Prod.mk.injEq] at h2
    exact ⟨s1, h2.2.symm⟩
  obtain ⟨s1, rfl⟩ := hb
  intro m hm
  simp only [crefMacros, List.mem_cons, List.not_mem_nil, or_false] at hm
  simp only [lookupMacro, crefMacros, List.foldl_cons, List.foldl_nil]
  have n21 : (nameCrefU == nameCref) = false := by decide
  have n31 : (nameCrefrange == nameCref) = false := by decide
  have n41 : (nameCrefrangeU == nameCref) = false := by decide
  have n32 : (nameCrefrange == nameCrefU) = false := by decide
  have n42 : (nameCrefrangeU == nameCrefU) = false := by decide
  have n43 : (nameCrefrangeU == nameCrefrange) = false := by decide
  rcases hm with rfl | rfl | rfl | rfl
  · rw [find_setMacro_other _ _ _ n41, find_setMacro_other _ _ _ n31, find_setMacro_other _ _ _ n21]
    exact find_setMacro_same _ _
  · rw [find_setMacro_other _ _ _ n42, find_setMacro_other _ _ _ n32]
    exact find_setMacro_same _ _
  · rw [find_setMacro_other _ _ _ n43]
    exact find_setMacro_same _ _
  · exact find_setMacro_same _ _

end PlainCref
end Yalafi
