/-
  Proofs/PlainMathRich.lean — C10 "every inline formula is rendered as exactly one placeholder of
  the rotating inline collection, followed by its closing punctuation mark, with a blank where the
  formula starts or ends with maths space", TOKEN LEVEL, for formula bodies of the full class of the
  property: letters, digits, operators, `^` `_`, braces, undeclared control words (`\alpha`, `\frac`),
  maths-space tokens (`\,` `\;` `\:` `\ ` `~`) and closing punctuation; both delimiters `$…$` and
  `\(…\)`.  (Source level — documents, side conditions, scanner, `parserWork`, `parse`, `tex2txt`,
  the reference output — : Proofs/PlainMathRichSrc.lean; statements: Properties/PlainMathRichStmt.lean.)

  What the section parser of `mathparser.py` (model: `expandMathSection`) does with the body tokens
  (found with `#eval`, then proved; the step lemmas for characters, control words, special tokens and
  ignored tokens are those of Proofs/PlainMath.lean and Proofs/PlainUnkn2.lean):
    * a character that is no white space   ↦ one maths token (operator / element) with its text;
    * white space                          ↦ nothing (`skip_space`);
    * an undeclared control word `\name`   ↦ one maths token with the text `\name`; nothing is
                                             recorded as unknown (`add_unknown(…, math=True)`); the
                                             white space behind it is skipped anyway;
    * a special token of `math_ignore` (`{`, `}`, `\!`) ↦ nothing — braces are NOT parsed as groups:
                                             any nesting, balanced or not, is fine;
    * a special token of `math_space` (`~`, `\,`, `\;`, `\:`, `\ `)  ↦ one MATHS-SPACE token with the
                                             text `" "` (new here: `SpTok`, `mathSection_sp_step`);
    * any other special token (`^`, `_`, `&`, `--`, `''`, …) ↦ one maths token with the text of its
                                             table entry;
    * the first token whose text is `$` or `\)` ends the section — whatever the opening delimiter was.
  `expand_inline_math` then hands the maths tokens (one part) to `replace_section`
  (`C10_inline_shape` of Proofs/InlineShape.lean): if they are not only maths space the result is
      Action(p)  [blank]  placeholder  [punctuation]  [blank]  Action(q)
  with `p` the position of the opening delimiter and all other tokens position-fixed at `q`, the
  position of the FIRST MATHS TOKEN; blank in front iff the first maths token is maths space, blank
  behind iff the last one is; punctuation = the last character of the concatenated token texts that
  is no white space, if it is in `math_punctuation`.

  Contents
    `SpTok`, `MItem`, `CloseTok`, `OpenTok`      token classes
    `MT`, `mt`, `mout`, `toMT`                   the maths tokens of a body token, and their abstraction
                                                 (position, text, maths space?) that does not depend
                                                 on the parser state
    `mathSection_sp_step`, `mathSection_close`, `mathSection_rbody`   the section parser
    `fOut`, `inlineMath_rich`                    `expandInlineMath` returns exactly `fOut`
    `shapeTxt`, `getTxtPos_fOut`, `lineRun_fOut` text / positions of `fOut`; blank-line removal
    `PiecesOk`, `outP`, `cost`, `seq_rich`, `removeLines_outP`   the loop `expandSequence`
-/
import YalafiVerif.Proofs.PlainUnkn2
namespace Yalafi
namespace PlainMathRich

open M
open PlainMath (BodyTok mathTokOf Piece flat nMath TokShape rotN VisibleRepls)
open PlainUnkn2 (McwTok SpecTok IgnTok mcost)

/-! ### token classes -/

/-- a maths-space token inside a formula: a special token of `math_space` (`~`, `\,`, `\;`, `\:`,
    `\ `) that does not end the formula and is not ignored (`math_ignore` is tested first) -/
structure SpTok (T : PTables) (t : Tok) : Prop where
  kind : t.kind = .special
  nStop : ["$".toList, "\\)".toList].contains t.txt = false
  nIgnore : T.mathIgnore.contains t.txt = false
  space : T.mathSpace.contains t.txt = true

/-- a token of a formula body: a character token, white space, an undeclared control word, a
    special token that becomes a maths token, an ignored special token, or a maths-space token -/
def MItem (T : PTables) (st : PState) (t : Tok) : Prop :=
  BodyTok T t ∨ t.kind = .space ∨ McwTok T st t ∨ SpecTok T t ∨ IgnTok T t ∨ SpTok T t

/-- the token that ends an inline formula: `$` or `\)` -/
structure CloseTok (t : Tok) : Prop where
  kind : t.kind = .special ∨ t.kind = .text
  stop : ["$".toList, "\\)".toList].contains t.txt = true

/-- the token that opens an inline formula: `$` or `\(` -/
structure OpenTok (t : Tok) : Prop where
  kind : t.kind = .special ∨ t.kind = .text
  txt : t.txt = "$".toList ∨ t.txt = "\\(".toList

/-- the fields of the state the side conditions depend on -/
structure Same (st st' : PState) : Prop where
  lang : st'.langStack = st.langStack
  macros : st'.macros = st.macros
  mtm : st'.mathTextMacros = st.mathTextMacros
  ops : st'.mathOperators = st.mathOperators

theorem Same.refl (st : PState) : Same st st := ⟨rfl, rfl, rfl, rfl⟩

theorem MItem.congr {T : PTables} {st st' : PState} (h : Same st st') {t : Tok} :
    MItem T st t → MItem T st' t := by
  rintro (hb | hs | hc | hx)
  · exact Or.inl hb
  · exact Or.inr (Or.inl hs)
  · refine Or.inr (Or.inr (Or.inl ⟨hc.kind, hc.nStop, ?_, ?_, hc.nSpace, hc.nIgnore⟩))
    · rw [h.mtm]; exact hc.nText
    · have := hc.undecl; simpa [lookupMacro, h.macros] using this
  · exact Or.inr (Or.inr (Or.inr hx))

theorem MItem.notComment {T : PTables} {st : PState} {t : Tok} (h : MItem T st t) :
    t.kind ≠ .comment := by
  rcases h with h | h | h | h | h | h
  · simp [h.kind]
  · simp [h]
  · simp [h.kind]
  · simp [h.kind]
  · simp [h.kind]
  · simp [h.kind]

/-! ### the maths tokens of a body token -/

/-- the maths tokens the section parser makes of a body token -/
def mout (T : PTables) (st : PState) (t : Tok) : List Tok :=
  if t.kind == .space then []
  else if t.kind == .special then
    (if T.mathIgnore.contains t.txt then []
     else if T.mathSpace.contains t.txt then [mkTok .mathSpace t.pos [' ']]
     else [mkTok (if st.mathOperators.contains t.txt then .mathOper else .mathElem) t.pos
            ((T.toTables.specialVal t.txt).getD [])])
  else [mathTokOf st t]

/-- what matters of a maths token: its position, its text, and whether it is maths space -/
structure MT where
  pos : Nat
  txt : Str
  sp : Bool
deriving Repr, DecidableEq

def toMT (t : Tok) : MT := { pos := t.pos, txt := t.txt, sp := t.kind == .mathSpace }

/-- the same as `mout`, without the kinds operator / element (independent of the parser state) -/
def mt (T : PTables) (t : Tok) : List MT :=
  if t.kind == .space then []
  else if t.kind == .special then
    (if T.mathIgnore.contains t.txt then []
     else if T.mathSpace.contains t.txt then [{ pos := t.pos, txt := [' '], sp := true }]
     else [{ pos := t.pos, txt := (T.toTables.specialVal t.txt).getD [], sp := false }])
  else [{ pos := t.pos, txt := t.txt, sp := false }]

theorem mout_toMT (T : PTables) (st : PState) (t : Tok) : (mout T st t).map toMT = mt T t := by
  unfold mout mt
  split
  · rfl
  · split
    · split
      · rfl
      · split
        · rfl
        · cases st.mathOperators.contains t.txt <;> rfl
    · unfold mathTokOf mkTok toMT
      cases st.mathOperators.contains t.txt <;> rfl

theorem flatMap_mout_toMT (T : PTables) (st : PState) (body : List Tok) :
    (body.flatMap (mout T st)).map toMT = body.flatMap (mt T) := by
  induction body with
  | nil => rfl
  | cons t ts ih => simp only [List.flatMap_cons, List.map_append, mout_toMT, ih]

theorem mout_math (T : PTables) (st : PState) (t : Tok) :
    ∀ x ∈ mout T st t, isMathTok x = true := by
  intro x hx
  unfold mout at hx
  split at hx
  · simp at hx
  · split at hx
    · split at hx
      · simp at hx
      · split at hx
        · simp only [List.mem_singleton] at hx; subst hx; rfl
        · simp only [List.mem_singleton] at hx
          subst hx
          cases hc : st.mathOperators.contains t.txt <;> simp [mkTok, isMathTok]
    · simp only [List.mem_singleton] at hx
      subst hx
      exact PlainMath.isMathTok_mathTokOf st t

theorem mout_congr (T : PTables) (st st' : PState) (h : st'.mathOperators = st.mathOperators) (t : Tok) :
    mout T st' t = mout T st t := by
  unfold mout mathTokOf
  rw [h]

/-! ### the section parser -/

/-- a maths-space token becomes one token of kind `mathSpace` with the text `" "` -/
theorem mathSection_sp_step (T : PTables) (fuel : Nat) (t : Tok) (rest : Buf) (start : Nat)
    (out : List Tok) (st : PState) (h : SpTok T t) :
    expandMathSection T (fuel + 1) (t :: rest) start ["$".toList, "\\)".toList] none out st
      = expandMathSection T fuel rest start ["$".toList, "\\)".toList] none
          (out ++ [mkTok .mathSpace t.pos [' ']]) st := by
  obtain ⟨hk, hstop, hi, hs⟩ := h
  have hsk : skipSpace (t :: rest) = t :: rest := by simp [skipSpace, isSpaceTok, hk]
  have hvb : isVerb t = false := by simp [isVerb, hk]
  rw [expandMathSection.eq_2, hsk]
  simp only [hk, hvb, hstop, reduceCtorEq, beq_iff_eq, Bool.false_eq_true, if_false]
  show M.bind' M.get _ st = _
  simp only [M.bind', M.get]
  have hm : isMathTok t = false := by simp [isMathTok, hk]
  have hl : isLang t = false := by simp [isLang, hk]
  simp only [hm, hi, hl, hs, Bool.false_eq_true, if_false, if_true]

/-- the closing token (`$` or `\)`) ends the section -/
theorem mathSection_close (T : PTables) (fuel : Nat) (d2 : Tok) (rest : Buf) (start : Nat)
    (out : List Tok) (st : PState) (hd : CloseTok d2) (ho : ∀ t ∈ out, isMathTok t = true) :
    expandMathSection T (fuel + 1) (d2 :: rest) start ["$".toList, "\\)".toList] none out st
      = .ok ({ out := out, term := some d2, buf := rest }, st) := by
  have hsk : skipSpace (d2 :: rest) = d2 :: rest := by
    rcases hd.kind with hk | hk <;> simp [skipSpace, isSpaceTok, hk]
  have hp : (d2.kind == Kind.par) = false := by
    rcases hd.kind with hk | hk <;> simp [hk]
  have hv : isVerb d2 = false := by
    rcases hd.kind with hk | hk <;> simp [isVerb, hk]
  rw [expandMathSection.eq_2, hsk]
  simp only [hp, hv, hd.stop, Bool.false_eq_true, if_false, if_true]
  rw [PlainMath.finFilter_math out ho]
  rfl

/-- the section parser on a formula body: the maths tokens `mout` of the body tokens, in order;
    the closing token ends the section; the state is unchanged (nothing is recorded as unknown) -/
theorem mathSection_rbody (T : PTables) (st : PState) (start : Nat) (d2 : Tok) (rest : Buf)
    (hd : CloseTok d2) :
    ∀ (body : List Tok) (fuel : Nat) (out : List Tok), mcost body + 1 ≤ fuel →
      (∀ t ∈ body, MItem T st t) → (∀ t ∈ out, isMathTok t = true) →
      expandMathSection T fuel (body ++ d2 :: rest) start ["$".toList, "\\)".toList] none out st
        = .ok ({ out := out ++ body.flatMap (mout T st), term := some d2, buf := rest }, st) := by
  intro body
  induction body with
  | nil =>
    intro fuel out hf _ ho
    obtain ⟨f, rfl⟩ : ∃ f, fuel = f + 1 := ⟨fuel - 1, by omega⟩
    simpa using mathSection_close T f d2 rest start out st hd ho
  | cons t ts ih =>
    intro fuel out hf hb ho
    have ho' : ∀ x ∈ out ++ mout T st t, isMathTok x = true := by
      intro x hx
      rcases List.mem_append.mp hx with hx | hx
      · exact ho x hx
      · exact mout_math T st t x hx
    have hbs : ∀ x ∈ ts, MItem T st x := fun x hx => hb x (by simp [hx])
    rcases hb t (by simp) with hbt | hsp | hcw | hspec | hign | hms
    · have hk := hbt.kind
      simp only [mcost, hk, reduceCtorEq, beq_iff_eq, if_false] at hf
      obtain ⟨f, rfl⟩ : ∃ f, fuel = f + 1 := ⟨fuel - 1, by omega⟩
      have e : mout T st t = [mathTokOf st t] := by simp [mout, hk]
      rw [e] at ho'
      rw [List.cons_append, PlainMath.mathSection_step T f t _ start out st hbt,
        ih f _ (by omega) hbs ho']
      simp [e]
    · simp only [mcost, hsp, reduceCtorEq, beq_iff_eq, if_false, beq_self_eq_true, if_true] at hf
      have e : mout T st t = [] := by simp [mout, hsp]
      rw [List.cons_append, PlainMath.mathSection_space_step T fuel t _ start _ none out hsp,
        ih fuel out (by omega) hbs ho]
      simp [e]
    · have hk := hcw.kind
      simp only [mcost, hk, beq_self_eq_true, if_true] at hf
      obtain ⟨f, rfl⟩ : ∃ f, fuel = f + 2 := ⟨fuel - 2, by omega⟩
      have e : mout T st t = [mathTokOf st t] := by simp [mout, hk]
      rw [e] at ho'
      rw [List.cons_append, PlainUnkn2.mathSection_cw_step T f t _ start out st hcw,
        ih f _ (by omega) hbs ho']
      simp [e]
    · have hk := hspec.kind
      simp only [mcost, hk, reduceCtorEq, beq_iff_eq, if_false] at hf
      obtain ⟨f, rfl⟩ : ∃ f, fuel = f + 1 := ⟨fuel - 1, by omega⟩
      have e : mout T st t = [mkTok (if st.mathOperators.contains t.txt then .mathOper else .mathElem)
          t.pos ((T.toTables.specialVal t.txt).getD [])] := by
        unfold mout; rw [hspec.nIgnore, hspec.nSpace]; simp [hk]
      rw [e] at ho'
      rw [List.cons_append, PlainUnkn2.mathSection_spec_step T f t _ start out st hspec,
        ih f _ (by omega) hbs ho']
      simp [e]
    · have hk := hign.kind
      simp only [mcost, hk, reduceCtorEq, beq_iff_eq, if_false] at hf
      obtain ⟨f, rfl⟩ : ∃ f, fuel = f + 1 := ⟨fuel - 1, by omega⟩
      have e : mout T st t = [] := by unfold mout; rw [hign.ignore]; simp [hk]
      rw [List.cons_append, PlainUnkn2.mathSection_ign_step T f t _ start out st hign,
        ih f out (by omega) hbs ho]
      simp [e]
    · have hk := hms.kind
      simp only [mcost, hk, reduceCtorEq, beq_iff_eq, if_false] at hf
      obtain ⟨f, rfl⟩ : ∃ f, fuel = f + 1 := ⟨fuel - 1, by omega⟩
      have e : mout T st t = [mkTok .mathSpace t.pos [' ']] := by
        unfold mout; rw [hms.nIgnore, hms.space]; simp [hk]
      rw [e] at ho'
      rw [List.cons_append, mathSection_sp_step T f t _ start out st hms,
        ih f _ (by omega) hbs ho']
      simp [e]

/-! ### `expandInlineMath` -/

/-- first / last token of a list of maths tokens -/
def hdTok (mb : List Tok) : Tok := mb.head?.getD default
def ltTok (mb : List Tok) : Tok := mb.getLast?.getD default

/-- what `expand_inline_math` returns for a formula with the maths tokens `mb`, the opening
    delimiter at `p`, `ph` being the placeholder whose turn it is: an Action token at `p`; then
    `[blank] ph [punctuation] [blank]` (`inlineShape`), all position-fixed at the position of the
    first maths token; an Action token there -/
def fOut (T : PTables) (ph : Str) (p : Nat) (mb : List Tok) : List Tok :=
  mkAction p :: (inlineShape T mb (hdTok mb) (ltTok mb) ph ++ [mkAction (hdTok mb).pos])

theorem inlineShape_ne_nil (T : PTables) (ts : List Tok) (t0 tl : Tok) (r0 : Str) :
    inlineShape T ts t0 tl r0 ≠ [] := by
  unfold inlineShape
  simp

theorem getLast?_cons_shape (T : PTables) (ts : List Tok) (t0 tl : Tok) (r0 : Str) (a : Tok) (d : Nat) :
    (((a :: inlineShape T ts t0 tl r0).getLast?).map (·.pos)).getD d = t0.pos := by
  have hne := inlineShape_ne_nil T ts t0 tl r0
  have h1 : (a :: inlineShape T ts t0 tl r0).getLast?
      = some ((inlineShape T ts t0 tl r0).getLast hne) := by
    rw [List.getLast?_cons]
    simp [List.getLast?_eq_some_getLast hne]
  rw [h1]
  simp only [Option.map_some, Option.getD_some]
  exact (inlineShape_fix_pos T ts t0 tl r0 _ (List.getLast_mem hne)).2

/-- **C10 on `expandInlineMath`.**  For a formula whose body tokens are of the class and yield at
    least one maths token that is not maths space, the call returns exactly `fOut` with the head of
    the once-rotated collection as the placeholder, the remaining buffer, and the state in which the
    rotated collection is stored; nothing else in the state changes. -/
theorem inlineMath_rich (T : PTables) (st : PState) (fuel : Nat) (d1 d2 : Tok) (body : List Tok)
    (rest : Buf) (rot : Rot) (ls : LangSettings) (r0 : Str)
    (hd2 : CloseTok d2) (hvis : (body.flatMap (mt T)).any (fun x => !x.sp) = true)
    (hb : ∀ t ∈ body, MItem T st t) (hf : mcost body + 1 ≤ fuel)
    (hrot : rotOf st (curSettings st) = some rot) (hls : settingsOf T (curSettings st) = some ls)
    (hr : (rotL rot.inl).head? = some r0) :
    expandInlineMath T (fuel + 1) (body ++ d2 :: rest) d1 st
      = .ok ((fOut T r0 d1.pos (body.flatMap (mout T st)), rest),
             setRot st { rot with inl := rotL rot.inl }) := by
  have hsec := mathSection_rbody T st d1.pos d2 rest hd2 body fuel [] hf hb (by simp)
  rw [List.nil_append] at hsec
  have hmath : ∀ t ∈ body.flatMap (mout T st), isMathTok t = true := by
    intro t ht
    obtain ⟨u, _, hu⟩ := List.mem_flatMap.mp ht
    exact mout_math T st u t hu
  rw [← flatMap_mout_toMT T st body] at hvis
  generalize body.flatMap (mout T st) = mb at hsec hmath hvis
  obtain ⟨x, hx, hxs⟩ := List.any_eq_true.mp hvis
  obtain ⟨u, hu, rfl⟩ := List.mem_map.mp hx
  have hmne : mb ≠ [] := List.ne_nil_of_mem hu
  have hns : mb.all (·.kind == .mathSpace) = false := by
    cases hall : mb.all (·.kind == .mathSpace) with
    | false => rfl
    | true =>
      have := List.all_eq_true.mp hall u hu
      simp only [toMT, Bool.not_eq_true'] at hxs
      rw [hxs] at this; cases this
  have h0 : mb.head? = some (hdTok mb) := by
    cases mb with
    | nil => exact absurd rfl hmne
    | cons a l => rfl
  have hl : mb.getLast? = some (ltTok mb) := by
    unfold ltTok
    rw [List.getLast?_eq_some_getLast hmne]; rfl
  obtain ⟨rs, hrs, hrepls, _, hout⟩ := replaceSection_inline_single T ls.opText ls.opDefault
    mb true true rot.inl (hdTok mb) (ltTok mb) r0 h0 hl hns hr
  rw [← detectMathParts_single _ hmath hmne] at hrs
  rw [expandInlineMath.eq_2]
  refine (M.bind_ok _ _ _ _ _ hsec).trans ?_
  refine (M.bind_ok _ _ _ _ _ (rfl : M.get st = _)).trans ?_
  simp only [hrot, hls, hrs]
  refine (M.bind_ok _ _ _ _ _ (rfl : M.modify _ _ = _)).trans ?_
  show Outcome.ok _ = _
  rw [hrepls, hout, getLast?_cons_shape]
  rfl

/-! ### text and positions of `fOut` -/

/-- the text of the rendering of a formula with the maths tokens `mb` -/
def shapeTxt (T : PTables) (mb : List Tok) (ph : Str) : Str :=
  (if (hdTok mb).kind = .mathSpace then [' '] else []) ++ ph ++ (partPunct T mb).toList
    ++ (if (ltTok mb).kind = .mathSpace then [' '] else [])

theorem getTxtPos_fixed (q : Nat) : ∀ (l rest : List Tok), (∀ t ∈ l, t.fix = true ∧ t.pos = q) →
    getTxtPos (l ++ rest)
      = ((getTxtPos l).1 ++ (getTxtPos rest).1,
         List.replicate (getTxtPos l).1.length q ++ (getTxtPos rest).2)
  | [], rest, _ => by simp [getTxtPos]
  | t :: l, rest, h => by
    have ht := h t (by simp)
    have ih := getTxtPos_fixed q l rest (fun x hx => h x (by simp [hx]))
    simp only [List.cons_append, getTxtPos, ih, tokPositions, ht.1, ht.2, if_true, List.length_append,
      List.append_assoc, ← List.replicate_append_replicate]

theorem getTxtPos_action_cons (p : Nat) (ts : List Tok) : getTxtPos (mkAction p :: ts) = getTxtPos ts := by
  simp [getTxtPos, mkAction, tokPositions]

theorem inlineShape_txt (T : PTables) (mb : List Tok) (ph : Str) :
    (getTxtPos (inlineShape T mb (hdTok mb) (ltTok mb) ph)).1 = shapeTxt T mb ph := by
  unfold inlineShape shapeTxt
  cases partPunct T mb <;> by_cases h0 : (hdTok mb).kind = .mathSpace <;>
    by_cases hl : (ltTok mb).kind = .mathSpace <;>
    simp [h0, hl, getTxtPos, mkFix, mathSp]

theorem getTxtPos_fOut (T : PTables) (ph : Str) (p : Nat) (mb : List Tok) (rest : List Tok) :
    getTxtPos (fOut T ph p mb ++ rest)
      = (shapeTxt T mb ph ++ (getTxtPos rest).1,
         List.replicate (shapeTxt T mb ph).length (hdTok mb).pos ++ (getTxtPos rest).2) := by
  unfold fOut
  rw [List.cons_append, getTxtPos_action_cons, List.append_assoc,
    getTxtPos_fixed (hdTok mb).pos _ _ (inlineShape_fix_pos T mb (hdTok mb) (ltTok mb) ph),
    List.singleton_append, getTxtPos_action_cons, inlineShape_txt]

/-! ### the blank-line removal -/

theorem lastNonBlank_nonspace (s : Str) (c : Char) (h : lastNonBlank s = some c) : isSpace c = false := by
  unfold lastNonBlank at h
  have := List.find?_some h
  simpa using this

theorem partPunct_nonspace (T : PTables) (mb : List Tok) (c : Char) (h : partPunct T mb = some c) :
    isSpace c = false := by
  unfold partPunct at h
  cases hl : lastNonBlank (getTextDirect mb) with
  | none => simp [hl] at h
  | some d =>
    simp only [hl] at h
    split at h
    · have : d = c := by simpa using h
      subst this
      exact lastNonBlank_nonspace _ _ hl
    · cases h

theorem lineRun_mathSp (q : Nat) (σ : Option Bool) (tail : List LItem) (ht : tail ≠ []) :
    lineRun σ (evalTok (mathSp q) :: tail) = lineRun σ tail := by
  rw [lineRun_ws (mathSp q) (Or.inl rfl) (show isBlank [' '] = true by decide) σ tail ht]
  have : hasNl (mathSp q).txt = false := show hasNl [' '] = false by decide
  simp [this]

theorem lineRun_optSp (b : Prop) [Decidable b] (q : Nat) (σ : Option Bool) (tail : List LItem)
    (ht : tail ≠ []) :
    lineRun σ ((if b then [mathSp q] else []).map evalTok ++ tail) = lineRun σ tail := by
  split
  · simpa using lineRun_mathSp q σ tail ht
  · rfl

/-- the line automaton passes a formula and is behind visible text afterwards -/
theorem lineRun_fOut (T : PTables) (ph : Str) (p : Nat) (mb : List Tok)
    (hph : hasNl ph = false ∧ isBlank ph = false)
    (σ : Option Bool) (tail : List LItem) (ht : tail ≠ []) :
    lineRun σ (((fOut T ph p mb).filter keepIn).map evalTok ++ tail) = lineRun none tail := by
  have hphne : ph ≠ [] := by
    intro e; rw [e] at hph; simp [isBlank] at hph
  have hkeep : (fOut T ph p mb).filter keepIn = fOut T ph p mb := by
    rw [List.filter_eq_self]
    intro t ht'
    unfold fOut inlineShape at ht'
    simp only [List.mem_cons, List.mem_append, List.not_mem_nil, or_false] at ht'
    rcases ht' with rfl | ((((h | rfl) | h) | h) | rfl)
    · rfl
    · split at h
      · simp only [List.mem_singleton] at h; subst h; rfl
      · simp at h
    · cases ph with
      | nil => exact absurd rfl hphne
      | cons => rfl
    · split at h
      · simp only [List.mem_singleton] at h; subst h; rfl
      · simp at h
    · split at h
      · simp only [List.mem_singleton] at h; subst h; rfl
      · simp at h
    · rfl
  rw [hkeep]
  unfold fOut inlineShape
  simp only [List.map_cons, List.map_append, List.cons_append, List.append_assoc, List.map_nil,
    List.nil_append]
  rw [lineRun_action (mkAction p) rfl σ _ (by simp)]
  rw [lineRun_optSp _ _ _ _ (by simp)]
  rw [lineRun_txt (mkFix .text (hdTok mb).pos ph) rfl hph.1 _ _ (by simp)]
  simp only [mkFix, hph.2, Bool.false_eq_true, if_false]
  have hpun : lineRun none
      ((match partPunct T mb with
          | some c => [({ kind := .text, pos := (hdTok mb).pos, txt := [c], fix := true } : Tok)]
          | none => []).map evalTok ++
        ((if (ltTok mb).kind = .mathSpace then [mathSp (hdTok mb).pos] else []).map evalTok ++
          evalTok (mkAction (hdTok mb).pos) :: tail))
      = lineRun none tail := by
    have hrest : lineRun none
        ((if (ltTok mb).kind = .mathSpace then [mathSp (hdTok mb).pos] else []).map evalTok ++
          evalTok (mkAction (hdTok mb).pos) :: tail) = lineRun none tail := by
      rw [lineRun_optSp _ _ _ _ (by simp), lineRun_action (mkAction _) rfl none tail ht]
      rfl
    cases hp : partPunct T mb with
    | none => simpa using hrest
    | some c =>
      have hc : hasNl [c] = false := PlainMath.hasNl_single c (partPunct_nonspace T mb c hp)
      simp only [List.map_cons, List.map_nil, List.cons_append, List.nil_append]
      rw [lineRun_txt { kind := .text, pos := (hdTok mb).pos, txt := [c], fix := true } rfl hc _ _
        (by simp)]
      simp only [ite_self]
      exact hrest
  exact hpun

/-! ### `expandSequence` on plain tokens and formulas -/

theorem seq_open_step (T : PTables) (fuel : Nat) (d1 : Tok) (rest : Buf) (envStop : Option Str)
    (out : List Tok) (st : PState) (hd1 : OpenTok d1) :
    expandSequence T (fuel + 1) (d1 :: rest) envStop out st
      = (expandInlineMath T fuel rest d1 >>= fun r =>
          expandSequence T fuel r.2 envStop (out ++ r.1)) st := by
  rw [expandSequence.eq_3]
  show M.bind' M.get _ st = _
  simp only [M.bind', M.get]
  have h1 : (txtIs d1 "$" || txtIs d1 "\\(") = true := by
    rcases hd1.txt with h | h <;> simp [txtIs, h]
  rcases hd1.kind with hk | hk <;>
    simp only [hk, h1, if_true, Bool.false_eq_true, if_false, reduceCtorEq, beq_iff_eq] <;>
    rfl

/-- a buffer of plain tokens (copied by `expandSequence`) and formulas -/
def PiecesOk (T : PTables) (st : PState) : List Piece → Prop
  | [] => True
  | .tok t :: rest => PlainTok t ∧ PassTok T st t (flat rest) ∧ TokShape t ∧ PiecesOk T st rest
  | .math d1 b d2 :: rest =>
    OpenTok d1 ∧ (b.flatMap (mt T)).any (fun x => !x.sp) = true ∧ (∀ t ∈ b, MItem T st t) ∧
      CloseTok d2 ∧ PiecesOk T st rest

/-- what `expandSequence` emits for the pieces before the blank-line removal, `l` being the stored
    placeholder collection: the formulas take the heads of `rotL l`, `rotL (rotL l)`, … -/
def outP (T : PTables) (st : PState) : List Str → List Piece → List Tok
  | _, [] => []
  | l, .tok t :: rest => t :: outP T st l rest
  | l, .math d1 b _ :: rest =>
    fOut T ((rotL l).headD []) d1.pos (b.flatMap (mout T st)) ++ outP T st (rotL l) rest

/-- fuel: one iteration per copied token; for a formula one iteration of the loop, the call, one
    step of the section parser per body token (two per control word, none for white space) and
    one for the closing token -/
def cost : List Piece → Nat
  | [] => 0
  | .tok _ :: rest => 1 + cost rest
  | .math _ b _ :: rest => mcost b + 2 + cost rest

theorem PiecesOk.congr {T : PTables} {st st' : PState} (h : Same st st') :
    ∀ {ps : List Piece}, PiecesOk T st ps → PiecesOk T st' ps
  | [], _ => trivial
  | .tok t :: rest, hp => by
    refine ⟨hp.1, ?_, hp.2.2.1, PiecesOk.congr h hp.2.2.2⟩
    unfold PassTok
    rw [activeChars_congr T st st' h.lang, expandShortMacro_congr T st st' h.lang]
    exact hp.2.1
  | .math d1 b d2 :: rest, hp =>
    ⟨hp.1, hp.2.1, fun t ht => MItem.congr h (hp.2.2.1 t ht), hp.2.2.2.1, PiecesOk.congr h hp.2.2.2.2⟩

theorem outP_congr (T : PTables) (st st' : PState) (h : st'.mathOperators = st.mathOperators) :
    ∀ (ps : List Piece) (l : List Str), outP T st' l ps = outP T st l ps
  | [], _ => rfl
  | .tok t :: rest, l => by simp only [outP, outP_congr T st st' h rest l]
  | .math d1 b d2 :: rest, l => by
    have : b.flatMap (mout T st') = b.flatMap (mout T st) := by
      congr 1; funext t; exact mout_congr T st st' h t
    simp only [outP, outP_congr T st st' h rest (rotL l), this]

/-- the loop on a buffer of plain tokens and formulas: the output is the blank-line removal
    applied to `outP`; the state changes only in the rotation records, and the record of the
    current language holds the collection rotated once per formula. -/
theorem seq_rich (T : PTables) (envStop : Option Str) (ls : LangSettings) :
    ∀ (ps : List Piece) (fuel : Nat) (out : List Tok) (st : PState) (rot : Rot),
      cost ps + 1 ≤ fuel → PiecesOk T st ps →
      rotOf st (curSettings st) = some rot → rot.inl ≠ [] →
      settingsOf T (curSettings st) = some ls →
      ∃ st', expandSequence T fuel (flat ps) envStop out st
          = (match removeLines (out ++ outP T st rot.inl ps) with
             | some r => .ok ((r, []), st')
             | none => .outOfFuel) ∧
        st' = { st with rots := st'.rots } ∧
        rotOf st' (curSettings st) = some { rot with inl := rotN (nMath ps) rot.inl } := by
  intro ps
  induction ps with
  | nil =>
    intro fuel out st rot hf _ hrot _ _
    obtain ⟨f, rfl⟩ : ∃ f, fuel = f + 1 := ⟨fuel - 1, by omega⟩
    refine ⟨st, ?_, rfl, hrot⟩
    simp only [flat, outP, List.append_nil]
    rw [expandSequence.eq_2]
    cases removeLines out <;> rfl
  | cons p ps ih =>
    intro fuel out st rot hf hok hrot hne hls
    cases p with
    | tok t =>
      simp only [cost] at hf
      simp only [flat, Piece.toks, List.singleton_append]
      obtain ⟨f, rfl⟩ : ∃ f, fuel = f + 1 := ⟨fuel - 1, by omega⟩
      rw [seq_plain_step T f t (flat ps) envStop out st hok.1 hok.2.1]
      obtain ⟨st', h1, h2, h3⟩ := ih f (out ++ [t]) st rot (by omega) hok.2.2.2 hrot hne hls
      refine ⟨st', ?_, h2, h3⟩
      rw [h1]
      simp only [outP, List.append_assoc, List.singleton_append]
    | math d1 b d2 =>
      obtain ⟨hd1, hvis, hb, hd2, hrest⟩ := hok
      have hflat : flat (Piece.math d1 b d2 :: ps) = d1 :: (b ++ d2 :: flat ps) := by
        simp [flat, Piece.toks]
      rw [hflat]
      simp only [cost] at hf
      obtain ⟨f, rfl⟩ : ∃ f, fuel = f + 2 := ⟨fuel - 2, by omega⟩
      have hr := PlainMath.headD_of_ne_nil _ (rotL_ne_nil _ hne)
      have him := inlineMath_rich T st f d1 d2 b (flat ps) rot ls _ hd2 hvis hb (by omega) hrot hls hr
      rw [seq_open_step T (f + 1) d1 _ envStop out st hd1]
      rw [M.bind_ok _ (fun r => expandSequence T (f + 1) r.2 envStop (out ++ r.1)) _ _ _ him]
      simp only []
      have hrot2 := PlainMath.rotOf_setRot st (curSettings st) rot (rotL rot.inl) hrot
      have hS : Same st (setRot st { rot with inl := rotL rot.inl }) := ⟨rfl, rfl, rfl, rfl⟩
      obtain ⟨st', h1, h2, h3⟩ := ih (f + 1)
        (out ++ fOut T ((rotL rot.inl).headD []) d1.pos (b.flatMap (mout T st)))
        (setRot st { rot with inl := rotL rot.inl }) { rot with inl := rotL rot.inl }
        (by omega) (PiecesOk.congr hS hrest) hrot2 (rotL_ne_nil _ hne) hls
      refine ⟨st', ?_, h2.trans rfl, ?_⟩
      · rw [h1, outP_congr T st (setRot st { rot with inl := rotL rot.inl }) rfl]
        simp only [outP, List.append_assoc]
      · rw [show curSettings st = curSettings (setRot st { rot with inl := rotL rot.inl }) from rfl, h3]
        simp only [nMath, rotN]

/-! ### the blank-line removal deletes nothing: every formula leaves visible text -/

theorem lineRun_outP (T : PTables) (st : PState) :
    ∀ (ps : List Piece) (l : List Str) (σ : Option Bool) (tail : List LItem),
      PiecesOk T st ps → VisibleRepls l → l ≠ [] → tail ≠ [] → σ ≠ some true →
      ∃ σ', σ' ≠ some true ∧
        lineRun σ (((outP T st l ps).filter keepIn).map evalTok ++ tail) = lineRun σ' tail := by
  intro ps
  induction ps with
  | nil =>
    intro l σ tail _ _ _ _ hσ
    exact ⟨σ, hσ, by simp [outP]⟩
  | cons p ps ih =>
    intro l σ tail hok hl hne ht hσ
    cases p with
    | tok t =>
      obtain ⟨hp, _, ⟨htne, hshape⟩, hrest⟩ := hok
      have hk : keepIn t = true := by
        cases hx : t.txt with
        | nil => exact absurd hx htne
        | cons => simp [keepIn, hx]
      simp only [outP, List.filter_cons, hk, if_true, List.map_cons, List.cons_append]
      have hne2 : ((outP T st l ps).filter keepIn).map evalTok ++ tail ≠ [] := by simp [ht]
      rcases hshape with ⟨hkind, hnl⟩ | ⟨hkind, hbl⟩
      · rw [lineRun_txt t hkind hnl σ _ hne2]
        refine ih l _ tail hrest hl hne ht ?_
        split
        · exact hσ
        · simp
      · rw [lineRun_ws t hkind hbl σ _ hne2]
        have hσ' : (σ == some true) = false := by
          cases σ with
          | none => rfl
          | some a => cases a <;> simp at hσ ⊢
        simp only [hσ', Bool.false_eq_true, if_false]
        split
        · exact ih l _ tail hrest hl hne ht (by simp)
        · exact ih l _ tail hrest hl hne ht hσ
    | math d1 b d2 =>
      obtain ⟨_, _, _, _, hrest⟩ := hok
      simp only [outP, List.filter_append, List.map_append, List.append_assoc]
      have hne2 : ((outP T st (rotL l) ps).filter keepIn).map evalTok ++ tail ≠ [] := by simp [ht]
      have hmem : (rotL l).headD [] ∈ rotL l := by
        have := PlainMath.headD_of_ne_nil _ (rotL_ne_nil l hne)
        exact List.mem_of_mem_head? (by rw [this]; rfl)
      rw [lineRun_fOut T _ d1.pos _ (hl.rotL _ hmem) σ _ hne2]
      exact ih (rotL l) none tail hrest hl.rotL (rotL_ne_nil l hne) ht (by simp)

/-- the blank-line removal only drops the (empty) Action tokens -/
theorem removeLines_outP (T : PTables) (st : PState) (ps : List Piece) (l : List Str)
    (hok : PiecesOk T st ps) (hl : VisibleRepls l) (hne : l ≠ []) :
    removeLines (outP T st l ps) = some ((outP T st l ps).filter keepOut) := by
  apply removeLines_safe_id
  apply lineRun_linesInit
  intro p
  obtain ⟨σ', h1, h2⟩ := lineRun_outP T st ps l (some false) [lastItem p] hok hl hne (by simp) (by simp)
  rw [h2, lineRun_lastItem]
  cases σ' with
  | none => rfl
  | some a => cases a <;> simp at h1 ⊢

theorem PiecesOk.notComment {T : PTables} {st : PState} : ∀ {ps : List Piece}, PiecesOk T st ps →
    ∀ t ∈ flat ps, t.kind ≠ .comment
  | [], _, _, h => by simp [flat] at h
  | .tok t :: rest, hok, x, hx => by
    simp only [flat, Piece.toks, List.singleton_append, List.mem_cons] at hx
    rcases hx with rfl | hx
    · exact hok.1.notComment
    · exact PiecesOk.notComment hok.2.2.2 x hx
  | .math d1 b d2 :: rest, hok, x, hx => by
    obtain ⟨h1, _, hb, h2, hrest⟩ := hok
    simp only [flat, Piece.toks, List.cons_append, List.append_assoc, List.mem_cons,
      List.mem_append, List.nil_append] at hx
    rcases hx with rfl | hx | rfl | hx
    · rcases h1.kind with k | k <;> simp [k]
    · exact (hb x hx).notComment
    · rcases h2.kind with k | k <;> simp [k]
    · exact PiecesOk.notComment hrest x hx

end PlainMathRich
end Yalafi
