/-
  Proofs/PlainOptArgExp.lean — the expander level of Proofs/PlainOptArg.lean: token buffers that consist
  of plain tokens, definitions `\kw{\name}[n][dflt]{body}` (`kw` = `newcommand`, `renewcommand`, … any
  keyword declared like `\newcommand`) and uses `\name[a1]{a2}…{am}` / `\name{a2}…{am}`.

    `argBuffer_bracketRun`              `[ tokens ]` is collected as an optional argument
    `collectArgs_defD`, `callHandler_newcommandD`, `expandMacro_defD`, `seq_defD_step`
                                        the definition: `h_newcommand` stores
                                        `{name, args := 'O' 'A'^(n-1), repl := body, defaults := [dflt]}`
    `collectArgs_opt`, `expandMacro_useO`, `seq_useO_step`   the use: `[a1]` present, or the default
                                        re-stamped (fixed) at the position of the macro token
    `OPiece`, `OPiecesOk`, `OStOk`, `ooutP`, `ofinalSt`, `ocost`, `seq_opt`   the loop
-/
import YalafiVerif.Proofs.PlainMacroArgs
namespace Yalafi
namespace PlainOptArg

open M
open PlainMacro (lbr rbr NoBrace restamp argBuffer_brace skipSpace_cons_of_not skippedLangs_cons_of_not
  ncDeclOk ncDeclOk_facts skipSpaceStopLang_cons_of_not seq_brace_step plainTok_noBrace
  plainTok_argRef cwTok_noBrace find_setMacro lookup_setMacro NameOk plainTok_restamp PassTok_congr Shape)
open PlainMacroArgs (argAt headPos lastPos genCur genOut RefsOk genRepl_eq Group groupsFlat GroupOk
  groupsFlat_append collectArgs_groups txtTok argBuffer_bracket getTextExpanded_single decimalValue_le9
  CopyTok seq_copy_run groupsOut GroupGood groupsFlat_length seq_groups digitChar BodyTok GoodBody DigitOk
  genOut_copy skip_groups)

/-! ### `[ tokens ]` -/

/-- the token is no brace and does not end an optional argument -/
def NoBrk (t : Tok) : Prop := NoBrace t ∧ t.txt ≠ [']']

theorem collectArg_bracket (q : Nat) (rest : Buf) : ∀ (arg : List Tok) (acc : List Tok),
    (∀ t ∈ arg, NoBrk t) →
    collectArg [']'] 0 (arg ++ txtTok q ']' :: rest) acc = some (acc.reverse ++ arg, rest)
  | [], acc, _ => by
    simp [collectArg, txtTok, txtIsNV, isVerb]
  | t :: ts, acc, h => by
    obtain ⟨⟨h1, h2⟩, h3⟩ := h t (List.mem_cons_self ..)
    have h3' : (t.txt == [']']) = false := by simpa using h3
    simp only [List.cons_append, collectArg, h1, h2, Bool.false_eq_true, if_false, h3', Bool.and_false,
      Bool.false_and]
    rw [collectArg_bracket q rest ts (t :: acc) (fun x hx => h x (List.mem_cons_of_mem _ hx))]
    simp

theorem argBufferPure_bracketRun (mark : Str) (p q : Nat) (arg : List Tok) (rest : Buf) (start : Nat)
    (h : ∀ t ∈ arg, NoBrk t) (hne : arg ≠ []) :
    argBufferPure mark (txtTok p '[' :: (arg ++ txtTok q ']' :: rest)) start false
      = { arg := arg, buf := rest } := by
  have hc := collectArg_bracket q rest arg [] h
  have he : arg.isEmpty = false := by cases arg <;> simp_all
  unfold argBufferPure
  rw [skipSpace_cons_of_not _ _ (by rfl)]
  have h1 : ((txtTok p '[').kind == Kind.par) = false := by rfl
  have h2 : txtIsNV (txtTok p '[') "{" = false := by rfl
  simp only [h1, h2, Bool.false_eq_true, if_false, Bool.false_and, hc, he,
    List.reverse_nil, List.nil_append]

theorem argBuffer_bracketRun (T : Tables) (p q : Nat) (arg : List Tok) (rest : Buf) (start : Nat)
    (st : PState) (h : ∀ t ∈ arg, NoBrk t) (hne : arg ≠ []) :
    argBuffer T (txtTok p '[' :: (arg ++ txtTok q ']' :: rest)) start false st = .ok ((arg, rest), st) := by
  unfold argBuffer
  rw [argBufferPure_bracketRun T.mark p q arg rest start h hne]
  rfl

/-! ### the definition -/

/-- the macro stored by `\newcommand{\name}[n][dflt]{body}` -/
def optMacro (name : Str) (n : Nat) (dt body : List Tok) : MacroDef :=
  { name := name, args := 'O' :: List.replicate (n - 1) 'A', repl := body, defaults := [dt] }

/-- `collectArgs` on `{\name}[d][dflt]{body}` for the signature `*AOOA` -/
theorem collectArgs_defD (T : PTables) (mac : MacroDef)
    (p1 p2 p3 p4 p5 r1 r2 p6 p7 : Nat) (nameTok : Tok) (hname : NoBrace nameTok) (d : Char)
    (h1 : d ≠ ']') (h2 : d ≠ '{') (h3 : d ≠ '}') (dt : List Tok) (hdt : ∀ t ∈ dt, NoBrk t) (hdne : dt ≠ [])
    (b : List Tok) (hb : ∀ t ∈ b, NoBrace t) (hbne : b ≠ []) (rest : Buf) (start : Nat) (st : PState) :
    collectArgs T mac ['*', 'A', 'O', 'O', 'A'] 0
        (lbr p1 :: nameTok :: rbr p2 :: txtTok p3 '[' :: txtTok p4 d :: txtTok p5 ']' ::
          txtTok r1 '[' :: (dt ++ txtTok r2 ']' :: lbr p6 :: (b ++ rbr p7 :: rest))) start {} st
      = .ok (({ args := [[], [nameTok], [txtTok p4 d], dt, b],
                extr := [[], [nameTok], [txtTok p4 d], dt, b], langs := [] }, rest), st) := by
  have hl : ∀ p, isSpaceTok (lbr p) = false := fun _ => rfl
  have hl' : ∀ p, isSpaceTok (txtTok p '[') = false := fun _ => rfl
  have a1 := argBuffer_brace T.toTables p1 p2 [nameTok]
    (txtTok p3 '[' :: txtTok p4 d :: txtTok p5 ']' :: txtTok r1 '[' ::
      (dt ++ txtTok r2 ']' :: lbr p6 :: (b ++ rbr p7 :: rest))) p1 st
    (by simpa using hname) (by simp)
  have a2 := argBuffer_bracket T.toTables p3 p4 p5 d h1 h2 h3
    (txtTok r1 '[' :: (dt ++ txtTok r2 ']' :: lbr p6 :: (b ++ rbr p7 :: rest))) p3 st
  have a3 := argBuffer_bracketRun T.toTables r1 r2 dt (lbr p6 :: (b ++ rbr p7 :: rest)) r1 st hdt hdne
  have a4 := argBuffer_brace T.toTables p6 p7 b rest p6 st hb hbne
  simp only [List.cons_append, List.nil_append] at a1
  -- '*'
  rw [collectArgs]
  simp only [skippedLangs_cons_of_not _ _ (hl p1), skipSpace_cons_of_not _ _ (hl p1), List.append_nil,
    List.head?_cons, beq_self_eq_true, if_true, show txtIsNV (lbr p1) "*" = false by rfl,
    Bool.false_eq_true, if_false]
  -- 'A'
  rw [collectArgs]
  simp only [skippedLangs_cons_of_not _ _ (hl p1), skipSpace_cons_of_not _ _ (hl p1), List.append_nil,
    List.head?_cons, show ('A' == '*') = false by decide, show ('A' == 'O') = false by decide,
    beq_self_eq_true, if_true, show txtIsNV (lbr p1) "}" = false by rfl, Bool.false_eq_true, if_false]
  refine (M.bind_ok _ _ _ _ _ a1).trans ?_
  -- 'O': `[d]`
  rw [collectArgs]
  simp only [skippedLangs_cons_of_not _ _ (hl' p3), skipSpace_cons_of_not _ _ (hl' p3), List.append_nil,
    List.head?_cons, show ('O' == '*') = false by decide, beq_self_eq_true, if_true,
    show txtIsNV (txtTok p3 '[') "[" = true by rfl]
  refine (M.bind_ok _ _ _ _ _ a2).trans ?_
  -- 'O': `[dflt]`
  rw [collectArgs]
  simp only [skippedLangs_cons_of_not _ _ (hl' r1), skipSpace_cons_of_not _ _ (hl' r1), List.append_nil,
    List.head?_cons, show ('O' == '*') = false by decide, beq_self_eq_true, if_true,
    show txtIsNV (txtTok r1 '[') "[" = true by rfl]
  refine (M.bind_ok _ _ _ _ _ a3).trans ?_
  -- 'A'
  rw [collectArgs]
  simp only [skippedLangs_cons_of_not _ _ (hl p6), skipSpace_cons_of_not _ _ (hl p6), List.append_nil,
    List.head?_cons, show ('A' == '*') = false by decide, show ('A' == 'O') = false by decide,
    beq_self_eq_true, if_true, show txtIsNV (lbr p6) "}" = false by rfl, Bool.false_eq_true, if_false]
  refine (M.bind_ok _ _ _ _ _ a4).trans ?_
  rw [collectArgs]
  rfl

/-- **the handler step.**  On the arguments collected from `{\name}[d][dflt]{body}` (no star, the
    digit `d` with value `n ≥ 1`, a non-empty default) `h_newcommand` stores the macro with an optional
    first argument and `n - 1` mandatory ones and returns no tokens. -/
theorem callHandler_newcommandD (T : PTables) (fuel : Nat) (buf : Buf) (mac : MacroDef) (nameTok : Tok)
    (hk : nameTok.kind ≠ .comment) (pd : Nat) (d : Char) (n : Nat)
    (hdv : decimalValue T.decimalZeros d = some n) (hn1 : 1 ≤ n) (dt : List Tok) (hdne : dt ≠ [])
    (b : List Tok) (hb : RefsOk n b) (pos : Nat)
    (st : PState) (hdp : PlainTok (txtTok pd d))
    (hda : (activeChars T st).contains [d] = false)
    (hign : st.newcommandIgnore.contains nameTok.txt = false) :
    callHandler T (fuel + 4) .newcommand buf mac [[], [nameTok], [txtTok pd d], dt, b] pos st
      = .ok ([], { st with macros := setMacro st.macros (optMacro nameTok.txt n dt b) }) := by
  have hname : getTextDirect [nameTok] = nameTok.txt := by
    simp [getTextDirect, hk]
  have he : dt.isEmpty = false := by cases dt <;> simp_all
  rw [callHandler.eq_4]
  simp only [List.getElem?_cons_succ, List.getElem?_cons_zero]
  refine (M.bind_ok _ _ _ _ _ (rfl : (pure [nameTok] : M (List Tok)) st = _)).trans ?_
  refine (M.bind_ok _ _ _ _ _ (rfl : (pure [txtTok pd d] : M (List Tok)) st = _)).trans ?_
  refine (M.bind_ok _ _ _ _ _ (rfl : (pure dt : M (List Tok)) st = _)).trans ?_
  refine (M.bind_ok _ _ _ _ _ (rfl : (pure b : M (List Tok)) st = _)).trans ?_
  refine (M.bind_ok _ _ _ _ _ (rfl : M.get st = _)).trans ?_
  simp only [hname, hign, Bool.false_eq_true, if_false]
  refine (M.bind_ok _ _ _ _ _ (getTextExpanded_single T fuel (txtTok pd d) st hdp hda (by simp [txtTok]))).trans ?_
  simp only [txtTok, List.isEmpty_cons, Bool.not_false, List.all_cons, List.all_nil, hdv,
    Option.isSome_some, Bool.and_self, if_true, List.foldl_cons, List.foldl_nil, Nat.zero_mul,
    Nat.zero_add, Option.getD_some, he, Bool.not_true, Bool.false_eq_true, if_false]
  have hn9 : ¬ n > 9 := by have := decimalValue_le9 _ _ _ hdv; omega
  have hn1' : ¬ n < 1 := by omega
  simp only [hn9, hn1', if_false]
  generalize hfd : List.find? _ b = r
  cases r with
  | some bad =>
    have h1 := List.mem_of_find?_eq_some hfd
    have h2 := List.find?_some hfd
    cases hr : argRef bad with
    | none => simp [hr] at h2
    | some k =>
      obtain ⟨k1, k2⟩ := hb bad h1 k hr
      simp [hr] at h2
      omega
  | none => rfl

theorem expandArguments_defD (T : PTables) (fuel : Nat) (mac : MacroDef) (hmac : ncDeclOk mac = true)
    (p1 p2 p3 p4 p5 r1 r2 p6 p7 : Nat) (nameTok : Tok) (hname : NoBrace nameTok) (hk : nameTok.kind ≠ .comment)
    (d : Char) (n : Nat) (h1 : d ≠ ']') (hdv : decimalValue T.decimalZeros d = some n) (hn1 : 1 ≤ n)
    (dt : List Tok) (hdt : ∀ t ∈ dt, NoBrk t) (hdne : dt ≠ [])
    (b : List Tok) (hb : ∀ t ∈ b, NoBrace t) (hbr : RefsOk n b) (hbne : b ≠ [])
    (rest : Buf) (start : Nat) (st : PState) (hdp : PlainTok (txtTok p4 d))
    (hda : (activeChars T st).contains [d] = false)
    (hign : st.newcommandIgnore.contains nameTok.txt = false) :
    expandArguments T (fuel + 5)
        (lbr p1 :: nameTok :: rbr p2 :: txtTok p3 '[' :: txtTok p4 d :: txtTok p5 ']' ::
          txtTok r1 '[' :: (dt ++ txtTok r2 ']' :: lbr p6 :: (b ++ rbr p7 :: rest))) mac start st
      = .ok (([mkAction start], rest),
             { st with macros := setMacro st.macros (optMacro nameTok.txt n dt b) }) := by
  obtain ⟨ha, hh, hd, he⟩ := ncDeclOk_facts hmac
  have hnb := plainTok_noBrace hdp
  have h2 : d ≠ '{' := by
    intro e; have := hnb.1; simp [txtIsNV, txtTok, isVerb, e] at this
  have h3 : d ≠ '}' := by
    intro e; have := hnb.2; simp [txtIsNV, txtTok, isVerb, e] at this
  rw [expandArguments.eq_2, ha]
  refine (M.bind_ok _ _ _ _ _
    (collectArgs_defD T mac p1 p2 p3 p4 p5 r1 r2 p6 p7 nameTok hname d h1 h2 h3 dt hdt hdne b hb hbne
      rest start st)).trans ?_
  simp only [he, hh, List.isEmpty_nil, Bool.not_true, Bool.false_eq_true, if_false,
    show (Handler.newcommand != Handler.none) = true by decide, if_true]
  refine (M.bind_ok _ _ _ _ _
    (callHandler_newcommandD T fuel rest mac nameTok hk p4 d n hdv hn1 dt hdne b hbr start st hdp hda
      hign)).trans ?_
  rfl

/-- **the definition step of `expandMacro`** -/
theorem expandMacro_defD (T : PTables) (fuel : Nat) (mac : MacroDef) (hmac : ncDeclOk mac = true)
    (p1 p2 p3 p4 p5 r1 r2 p6 p7 : Nat) (nameTok : Tok) (hname : NoBrace nameTok) (hk : nameTok.kind ≠ .comment)
    (d : Char) (n : Nat) (h1 : d ≠ ']') (hdv : decimalValue T.decimalZeros d = some n) (hn1 : 1 ≤ n)
    (dt : List Tok) (hdt : ∀ t ∈ dt, NoBrk t) (hdne : dt ≠ [])
    (b : List Tok) (hb : ∀ t ∈ b, NoBrace t) (hbr : RefsOk n b) (hbne : b ≠ [])
    (rest : Buf) (tok : Tok) (st : PState) (hdp : PlainTok (txtTok p4 d))
    (hda : (activeChars T st).contains [d] = false)
    (hl : lookupMacro st tok.txt = some mac)
    (hign : st.newcommandIgnore.contains nameTok.txt = false) :
    expandMacro T (fuel + 6)
        (lbr p1 :: nameTok :: rbr p2 :: txtTok p3 '[' :: txtTok p4 d :: txtTok p5 ']' ::
          txtTok r1 '[' :: (dt ++ txtTok r2 ']' :: lbr p6 :: (b ++ rbr p7 :: rest))) tok false st
      = .ok (([mkAction tok.pos], rest),
             { st with macros := setMacro st.macros (optMacro nameTok.txt n dt b) }) := by
  rw [expandMacro.eq_2]
  refine (M.bind_ok _ _ _ _ _ (rfl : M.get st = _)).trans ?_
  simp only [hl, skipSpaceStopLang_cons_of_not _ _ (rfl : isSpaceTok (lbr p1) = false)]
  exact expandArguments_defD T fuel mac hmac p1 p2 p3 p4 p5 r1 r2 p6 p7 nameTok hname hk d n h1 hdv hn1
    dt hdt hdne b hb hbr hbne rest tok.pos st hdp hda hign

/-! ### the use -/

/-- the optional argument of a use: `[ toks ]` with the positions of the brackets -/
abbrev Opt := Option (Nat × List Tok × Nat)

def optFlat : Opt → List Tok
  | none => []
  | some o => txtTok o.1 '[' :: (o.2.1 ++ [txtTok o.2.2 ']'])

/-- the first actual argument: the tokens between the brackets, or the default re-stamped (fixed) at
    the position of the macro token -/
def firstArg (p : Nat) (dt : List Tok) : Opt → List Tok
  | none => dt.map (restamp p)
  | some o => o.2.1

/-- `collectArgs` for the signature `O A…A` on `[a1]{a2}…` / `{a2}…` -/
theorem collectArgs_opt (T : PTables) (nm : Str) (n : Nat) (dt b : List Tok) (rest : Buf) (st : PState)
    (opt : Opt) (gs : List Group) (p : Nat)
    (hopt : ∀ o, opt = some o → (∀ t ∈ o.2.1, NoBrk t) ∧ o.2.1 ≠ [])
    (hne : opt = none → gs ≠ []) (hg : ∀ g ∈ gs, GroupOk g) (hn : n - 1 ≤ gs.length) :
    collectArgs T (optMacro nm n dt b) ('O' :: List.replicate (n - 1) 'A') 0
        (optFlat opt ++ (groupsFlat gs ++ rest)) p {} st
      = .ok (({ args := firstArg p dt opt :: (gs.take (n - 1)).map (·.toks),
                extr := (match opt with | none => [] | some o => o.2.1) :: (gs.take (n - 1)).map (·.toks),
                langs := [] },
              groupsFlat (gs.drop (n - 1)) ++ rest), st) := by
  have hlen : (gs.take (n - 1)).length = n - 1 := by simp; omega
  have hsplit : groupsFlat gs ++ rest
      = groupsFlat (gs.take (n - 1)) ++ (groupsFlat (gs.drop (n - 1)) ++ rest) := by
    rw [← List.append_assoc, ← groupsFlat_append, List.take_append_drop]
  cases opt with
  | some o =>
    obtain ⟨a, ts, c⟩ := o
    obtain ⟨h1, h2⟩ := hopt _ rfl
    have hl' : isSpaceTok (txtTok a '[') = false := rfl
    have a1 := argBuffer_bracketRun T.toTables a c ts (groupsFlat gs ++ rest) a st h1 h2
    have hc := collectArgs_groups T (optMacro nm n dt b) (groupsFlat (gs.drop (n - 1)) ++ rest) st
      (gs.take (n - 1)) 1 a { args := [ts], extr := [ts], langs := [] }
      (fun g hg' => hg g (List.mem_of_mem_take hg'))
    rw [hlen] at hc
    simp only [optFlat, List.cons_append, List.append_assoc, List.nil_append]
    rw [collectArgs]
    simp only [skippedLangs_cons_of_not _ _ hl', skipSpace_cons_of_not _ _ hl', List.append_nil,
      List.head?_cons, show ('O' == '*') = false by decide, beq_self_eq_true, if_true,
      show txtIsNV (txtTok a '[') "[" = true by rfl]
    refine (M.bind_ok _ _ _ _ _ a1).trans ?_
    simp only [List.nil_append]
    rw [hsplit]
    exact hc
  | none =>
    obtain ⟨g, gs', rfl⟩ : ∃ g gs', gs = g :: gs' := by
      cases gs with
      | nil => exact absurd rfl (hne rfl)
      | cons g gs' => exact ⟨g, gs', rfl⟩
    have hl : isSpaceTok (lbr g.p) = false := rfl
    have hc := collectArgs_groups T (optMacro nm n dt b) (groupsFlat ((g :: gs').drop (n - 1)) ++ rest) st
      ((g :: gs').take (n - 1)) 1 g.p
      { args := [dt.map (restamp p)], extr := [[]], langs := [] }
      (fun x hx => hg x (List.mem_of_mem_take hx))
    rw [hlen] at hc
    have hflat : groupsFlat (g :: gs') ++ rest = lbr g.p :: (g.toks ++ rbr g.q :: (groupsFlat gs' ++ rest)) := by
      simp [groupsFlat, Group.flat]
    simp only [optFlat, List.nil_append]
    rw [collectArgs]
    have hfl := hflat
    rw [hfl]
    simp only [skippedLangs_cons_of_not _ _ hl, skipSpace_cons_of_not _ _ hl, List.append_nil,
      List.head?_cons, show ('O' == '*') = false by decide, beq_self_eq_true, if_true,
      show txtIsNV (lbr g.p) "[" = false by rfl, Bool.false_eq_true, if_false,
      show (optMacro nm n dt b).defaults = [dt] from rfl, List.getElem?_cons_zero, List.nil_append]
    rw [← hflat, hsplit]
    have e : (dt.map fun t => { t with pos := p, fix := true }) = dt.map (restamp p) := rfl
    simp only [lbr]
    rw [e]
    exact hc

/-- **the use step of `expandMacro`** for a macro with an optional first argument -/
theorem expandMacro_useO (T : PTables) (fuel : Nat) (opt : Opt) (gs : List Group) (rest : Buf) (tok : Tok)
    (st : PState) (nm : Str) (n : Nat) (dt b : List Tok)
    (hl : lookupMacro st tok.txt = some (optMacro nm n dt b)) (hn1 : 1 ≤ n) (hn : n - 1 ≤ gs.length)
    (hopt : ∀ o, opt = some o → (∀ t ∈ o.2.1, NoBrk t) ∧ o.2.1 ≠ [])
    (hne : opt = none → gs ≠ []) (hdne : dt ≠ [])
    (hg : ∀ g ∈ gs, GroupOk g) (hr : RefsOk n b) :
    expandMacro T (fuel + 2) (optFlat opt ++ (groupsFlat gs ++ rest)) tok false st
      = .ok ((mkAction tok.pos ::
                genOut (firstArg tok.pos dt opt :: (gs.take (n - 1)).map (·.toks)) b
                  (genCur (firstArg tok.pos dt opt :: (gs.take (n - 1)).map (·.toks)) b tok.pos),
              groupsFlat (gs.drop (n - 1)) ++ rest), st) := by
  have hskip : skipSpaceStopLangAct (optFlat opt ++ (groupsFlat gs ++ rest))
      = optFlat opt ++ (groupsFlat gs ++ rest) := by
    cases opt with
    | some o => exact skipSpaceStopLang_cons_of_not _ _ (rfl : isSpaceTok (txtTok o.1 '[') = false)
    | none => simpa [optFlat] using skip_groups gs rest (hne rfl)
  have hlen : (gs.take (n - 1)).length = n - 1 := by simp; omega
  rw [expandMacro.eq_2]
  refine (M.bind_ok _ _ _ _ _ (rfl : M.get st = _)).trans ?_
  simp only [hl, hskip]
  rw [expandArguments.eq_2]
  simp only [show (optMacro nm n dt b).args = 'O' :: List.replicate (n - 1) 'A' from rfl]
  refine (M.bind_ok _ _ _ _ _ (collectArgs_opt T nm n dt b rest st opt gs tok.pos hopt hne hg hn)).trans ?_
  have hne' : ∀ a ∈ firstArg tok.pos dt opt :: (gs.take (n - 1)).map (·.toks), a ≠ [] := by
    intro a ha
    rcases List.mem_cons.mp ha with rfl | ha
    · cases opt with
      | none => simpa [firstArg] using hdne
      | some o => exact (hopt o rfl).2
    · obtain ⟨g, hg', rfl⟩ := List.mem_map.mp ha
      exact (hg g (List.mem_of_mem_take hg')).1
  have hr' : RefsOk (firstArg tok.pos dt opt :: (gs.take (n - 1)).map (·.toks)).length b := by
    rw [List.length_cons, List.length_map, hlen]
    have : n - 1 + 1 = n := by omega
    rw [this]; exact hr
  have hgen := genRepl_eq _ hne' b tok.pos hr'
  simp only [optMacro, List.isEmpty_nil, Bool.not_true, Bool.false_eq_true, if_false,
    show (Handler.none != Handler.none) = false by decide, hgen, List.append_nil]
  rfl

/-! ### the token buffers -/

/-- the pieces of a token buffer: a token that is copied, a definition
    `\kw { \name } [ n ] [ dflt ] { body }`, a use `\name [ a1 ] { a2 } … { am }` / `\name { a2 } … { am }` -/
inductive OPiece where
  | tok (t : Tok)
  | defn (kw : Str) (p q1 q2 q3 q4 q5 q6 r1 r2 q7 q8 : Nat) (name : Str) (n : Nat) (dt body : List Tok)
  | use (p : Nat) (name : Str) (opt : Opt) (gs : List Group)

def OPiece.toks : OPiece → List Tok
  | .tok t => [t]
  | .defn kw p q1 q2 q3 q4 q5 q6 r1 r2 q7 q8 name n dt body =>
    cwTok p kw :: lbr q1 :: cwTok q2 name :: rbr q3 :: txtTok q4 '[' :: txtTok q5 (digitChar n) ::
      txtTok q6 ']' :: txtTok r1 '[' :: (dt ++ txtTok r2 ']' :: lbr q7 :: (body ++ [rbr q8]))
  | .use p name opt gs => cwTok p name :: (optFlat opt ++ groupsFlat gs)

/-- the token buffer -/
def oflat : List OPiece → List Tok
  | [] => []
  | p :: ps => p.toks ++ oflat ps

/-- the tokens of a default value / of an optional argument: not empty, plain, never active, no `]` -/
def GoodRun (T : PTables) (st : PState) (ts : List Tok) : Prop :=
  ts ≠ [] ∧ ∀ t ∈ ts, PlainTok t ∧ (activeChars T st).contains t.txt = false ∧ t.txt ≠ [']']

theorem GoodRun.noBrk {T : PTables} {st : PState} {ts : List Tok} (h : GoodRun T st ts) :
    ∀ t ∈ ts, NoBrk t :=
  fun t ht => ⟨plainTok_noBrace (h.2 t ht).1, (h.2 t ht).2.2⟩

/-- the keyword of a definition: not `\def`, declared like `\newcommand` -/
structure KwOk (st1 : PState) (kw : Str) : Prop where
  nDef : ('\\' :: kw) ≠ sDef
  decl : ∃ m, lookupMacro st1 ('\\' :: kw) = some m ∧ ncDeclOk m = true

def OPiecesOk (T : PTables) (st1 : PState) : List OPiece → Prop
  | [] => True
  | .tok t :: rest => PlainTok t ∧ PassTok T st1 t (oflat rest) ∧ OPiecesOk T st1 rest
  | .defn kw _ _ _ _ _ _ _ _ _ _ _ name n dt body :: rest =>
    KwOk st1 kw ∧ NameOk st1 name ∧ DigitOk T st1 n ∧ 1 ≤ n ∧ GoodRun T st1 dt ∧ GoodBody T st1 n body ∧
    OPiecesOk T st1 rest
  | .use _ name opt gs :: rest =>
    NameOk st1 name ∧ (∀ o, opt = some o → GoodRun T st1 o.2.1) ∧ (opt = none → gs ≠ []) ∧
    (∀ g ∈ gs, GroupGood T st1 g) ∧ OPiecesOk T st1 rest

/-- the parser state while the document is expanded, relative to the initialised state `st1`:
    declared macros keep their meaning, every other macro is a user macro with an optional first
    argument, a good default and a good body -/
structure OStOk (T : PTables) (st1 st : PState) : Prop where
  lang : st.langStack = st1.langStack
  ign : st.newcommandIgnore = st1.newcommandIgnore
  decl : ∀ nm m, lookupMacro st1 nm = some m → lookupMacro st nm = some m
  user : ∀ nm m, lookupMacro st1 nm = none → lookupMacro st nm = some m →
    ∃ n dt b, m = optMacro nm n dt b ∧ 1 ≤ n ∧ GoodRun T st1 dt ∧ GoodBody T st1 n b

/-- the state after a definition -/
def odefSt (st : PState) (name : Str) (n : Nat) (dt body : List Tok) : PState :=
  { st with macros := setMacro st.macros (optMacro ('\\' :: name) n dt body) }

/-- the state after a use: an undefined name is recorded -/
def ouseSt (st : PState) (name : Str) : PState :=
  match lookupMacro st ('\\' :: name) with
  | some _ => st
  | none => { st with unknowns := addU st.unknowns ('\\' :: name) }

/-- the number of groups a use consumes: the number of mandatory parameters of the macro, 0 if
    undefined -/
def ouseN (st : PState) (name : Str) : Nat :=
  match lookupMacro st ('\\' :: name) with
  | some m => m.args.length - 1
  | none => 0

/-- the tokens a use at position `p` inserts -/
def ouseBody (st : PState) (p : Nat) (name : Str) (opt : Opt) (gs : List Group) : List Tok :=
  match lookupMacro st ('\\' :: name) with
  | some m =>
    genOut (firstArg p (m.defaults.head?.getD []) opt :: (gs.take (m.args.length - 1)).map (·.toks)) m.repl
      (genCur (firstArg p (m.defaults.head?.getD []) opt :: (gs.take (m.args.length - 1)).map (·.toks))
        m.repl p)
  | none => []

theorem OStOk.defSt {T : PTables} {st1 st : PState} (h : OStOk T st1 st) (name : Str) (n : Nat)
    (dt body : List Tok) (hn : NameOk st1 name) (hn1 : 1 ≤ n) (hd : GoodRun T st1 dt)
    (hb : GoodBody T st1 n body) : OStOk T st1 (odefSt st name n dt body) := by
  refine ⟨h.lang, h.ign, ?_, ?_⟩
  · intro nm m hm
    rw [odefSt, lookup_setMacro]
    have : (optMacro ('\\' :: name) n dt body).name ≠ nm := by
      intro e
      have : lookupMacro st1 nm = none := by rw [← e]; exact hn.undecl
      rw [this] at hm; cases hm
    rw [if_neg (by simpa using this)]
    exact h.decl nm m hm
  · intro nm m h1 h2
    rw [odefSt, lookup_setMacro] at h2
    by_cases e : (optMacro ('\\' :: name) n dt body).name = nm
    · rw [if_pos (by simpa using e)] at h2
      cases h2
      exact ⟨n, dt, body, by rw [← e]; rfl, hn1, hd, hb⟩
    · rw [if_neg (by simpa using e)] at h2
      exact h.user nm m h1 h2

theorem OStOk.useSt {T : PTables} {st1 st : PState} (h : OStOk T st1 st) (name : Str) :
    OStOk T st1 (ouseSt st name) := by
  unfold ouseSt
  split
  · exact h
  · exact ⟨h.lang, h.ign, h.decl, h.user⟩

/-- what `expandSequence` emits for the pieces before the blank-line removal -/
def ooutP : PState → List OPiece → List Tok
  | _, [] => []
  | st, .tok t :: rest => t :: ooutP st rest
  | st, .defn _ p _ _ _ _ _ _ _ _ _ _ name n dt body :: rest => mkAction p :: ooutP (odefSt st name n dt body) rest
  | st, .use p name opt gs :: rest =>
    mkAction p :: (ouseBody st p name opt gs
      ++ (groupsOut (gs.drop (ouseN st name)) ++ ooutP (ouseSt st name) rest))

/-- the state after the pieces -/
def ofinalSt : PState → List OPiece → PState
  | st, [] => st
  | st, .tok _ :: rest => ofinalSt st rest
  | st, .defn _ _ _ _ _ _ _ _ _ _ _ _ name n dt body :: rest => ofinalSt (odefSt st name n dt body) rest
  | st, .use _ name _ _ :: rest => ofinalSt (ouseSt st name) rest

/-- iterations of `expandSequence` -/
def ocost : PState → List OPiece → Nat
  | _, [] => 0
  | st, .tok _ :: rest => 1 + ocost st rest
  | st, .defn _ _ _ _ _ _ _ _ _ _ _ _ name n dt body :: rest => 2 + ocost (odefSt st name n dt body) rest
  | st, .use p name opt gs :: rest =>
    2 + (ouseBody st p name opt gs).length + (groupsOut (gs.drop (ouseN st name))).length
      + ocost (ouseSt st name) rest

/-- every use has at least as many groups as the macro in force has mandatory parameters; only a
    defined name is followed by `[…]` -/
def OArityOk : PState → List OPiece → Prop
  | _, [] => True
  | st, .tok _ :: rest => OArityOk st rest
  | st, .defn _ _ _ _ _ _ _ _ _ _ _ _ name n dt body :: rest => OArityOk (odefSt st name n dt body) rest
  | st, .use _ name opt gs :: rest =>
    (lookupMacro st ('\\' :: name) = none → opt = none) ∧ ouseN st name ≤ gs.length ∧
    OArityOk (ouseSt st name) rest

theorem noEmptyActive_of_OStOk {T : PTables} {st1 st : PState} (h : OStOk T st1 st)
    (ha : noEmptyActive T st1 = true) : noEmptyActive T st = true :=
  (noEmptyActive_congr T st1 st h.lang).trans ha

/-- **the definition step of `expandSequence`** -/
theorem seq_defD_step (T : PTables) (fuel : Nat) (kw : Str) (p q1 q2 q3 q4 q5 q6 r1 r2 q7 q8 : Nat)
    (name : Str) (n : Nat) (dt body : List Tok) (rest : Buf) (envStop : Option Str) (out : List Tok)
    (st1 st : PState) (hst : OStOk T st1 st) (hkw : KwOk st1 kw) (hn : NameOk st1 name)
    (hd : DigitOk T st1 n) (hn1 : 1 ≤ n) (hdt : GoodRun T st1 dt)
    (hb : GoodBody T st1 n body) (ha : noEmptyActive T st1 = true) :
    expandSequence T (fuel + 7)
        (cwTok p kw :: lbr q1 :: cwTok q2 name :: rbr q3 :: txtTok q4 '[' :: txtTok q5 (digitChar n) ::
          txtTok q6 ']' :: txtTok r1 '[' :: (dt ++ txtTok r2 ']' :: lbr q7 :: (body ++ rbr q8 :: rest)))
        envStop out st
      = expandSequence T (fuel + 5) rest envStop (out ++ [mkAction p]) (odefSt st name n dt body) := by
  obtain ⟨m, hm, hmd⟩ := hkw.decl
  have hm' : lookupMacro st (cwTok p kw).txt = some m := hst.decl _ _ hm
  have hign : st.newcommandIgnore.contains (cwTok q2 name).txt = false := by
    rw [hst.ign]; exact hn.nIgn
  have hda : (activeChars T st).contains [digitChar n] = false := by
    rw [activeChars_congr T st1 st hst.lang]; exact hd.nAct
  have hmac := expandMacro_defD T fuel m hmd q1 q3 q4 q5 q6 r1 r2 q7 q8 (cwTok q2 name)
    (cwTok_noBrace q2 name) (by simp [cwTok]) (digitChar n) n hd.nBr hd.val hn1 dt hdt.noBrk hdt.1
    body hb.noBrace hb.refs hb.1 rest (cwTok p kw) st (hd.plain q5) hda hm' hign
  rw [expandSequence.eq_3]
  show M.bind' M.get _ st = _
  simp only [M.bind', M.get]
  have hk : (cwTok p kw).kind = .xmacro := rfl
  have hdf : txtIs (cwTok p kw) "\\def" = false := by
    simpa [txtIs, cwTok, sDef] using hkw.nDef
  simp only [hk, hdf, Bool.false_eq_true, if_false, if_true, reduceCtorEq, beq_iff_eq, beq_self_eq_true]
  refine (M.bind_ok _ _ _ _ _ hmac).trans ?_
  simp only [List.singleton_append]
  exact seq_action_step T (fuel + 5) p rest envStop out _
    (noEmptyActive_of_OStOk (hst.defSt name n dt body hn hn1 hdt hb) ha)

theorem GoodRun.congr {T : PTables} {st st' : PState} (hl : st'.langStack = st.langStack)
    {ts : List Tok} (h : GoodRun T st ts) : GoodRun T st' ts :=
  ⟨h.1, fun t ht => ⟨(h.2 t ht).1, by rw [activeChars_congr T st st' hl]; exact (h.2 t ht).2.1,
    (h.2 t ht).2.2⟩⟩

/-- **the use step of `expandSequence`.** -/
theorem seq_useO_step (T : PTables) (fuel : Nat) (p : Nat) (name : Str) (opt : Opt) (gs : List Group)
    (rest : Buf) (envStop : Option Str) (out : List Tok) (st1 st : PState)
    (hst : OStOk T st1 st) (hn : NameOk st1 name) (ha : noEmptyActive T st1 = true)
    (hopt : ∀ o, opt = some o → GoodRun T st1 o.2.1)
    (hne : opt = none → gs ≠ []) (hg : ∀ g ∈ gs, GroupGood T st1 g)
    (hund : lookupMacro st ('\\' :: name) = none → opt = none) (har : ouseN st name ≤ gs.length) :
    expandSequence T
        (fuel + (2 + (ouseBody st p name opt gs).length + (groupsOut (gs.drop (ouseN st name))).length))
        (cwTok p name :: (optFlat opt ++ (groupsFlat gs ++ rest))) envStop out st
      = expandSequence T fuel rest envStop
          (out ++ mkAction p :: (ouseBody st p name opt gs ++ groupsOut (gs.drop (ouseN st name))))
          (ouseSt st name) := by
  have ha' := noEmptyActive_of_OStOk hst ha
  have hk : (cwTok p name).kind = .xmacro := rfl
  have hd : txtIs (cwTok p name) "\\def" = false := by
    simpa [txtIs, cwTok, sDef] using hn.nDef
  cases hl : lookupMacro st ('\\' :: name) with
  | none =>
    have ho := hund hl
    subst ho
    have hne' := hne rfl
    have e1 : ouseBody st p name none gs = [] := by simp [ouseBody, hl]
    have e2 : ouseSt st name = { st with unknowns := addU st.unknowns ('\\' :: name) } := by
      simp [ouseSt, hl]
    have e3 : ouseN st name = 0 := by simp [ouseN, hl]
    rw [e1, e2, e3, List.drop_zero]
    have hf : fuel + (2 + ([] : List Tok).length + (groupsOut gs).length)
        = fuel + (groupsFlat gs).length + 2 := by
      rw [groupsFlat_length]; simp; omega
    have hs := seq_groups T envStop { st with unknowns := addU st.unknowns (cwTok p name).txt } rest
      ((noEmptyActive_congr T st _ rfl).trans ha') gs fuel (out ++ [mkAction (cwTok p name).pos])
      (fun g hg' => (hg g hg').congr hst.lang)
    simp only [optFlat, List.nil_append]
    rw [hf, seq_cw_step T _ (cwTok p name) _ envStop out st ⟨hk, hd, hl⟩ ha',
      skip_groups gs rest hne', hs]
    simp [cwTok]
  | some m =>
    obtain ⟨n, dt, b, rfl, hn1, hdt, hb⟩ := hst.user _ m hn.undecl hl
    have hlen : (optMacro ('\\' :: name) n dt b).args.length - 1 = n - 1 := by
      simp [optMacro]
    have e3 : ouseN st name = n - 1 := by simp [ouseN, hl, hlen]
    rw [e3] at har ⊢
    have e1 : ouseBody st p name opt gs
        = genOut (firstArg p dt opt :: (gs.take (n - 1)).map (·.toks)) b
            (genCur (firstArg p dt opt :: (gs.take (n - 1)).map (·.toks)) b p) := by
      simp only [ouseBody, hl, hlen]
      rfl
    have e2 : ouseSt st name = st := by simp [ouseSt, hl]
    rw [e1, e2]
    have hGpos : 1 ≤ (genOut (firstArg p dt opt :: (gs.take (n - 1)).map (·.toks)) b
        (genCur (firstArg p dt opt :: (gs.take (n - 1)).map (·.toks)) b p)).length := by
      have := hb.1
      cases b with
      | nil => exact absurd rfl this
      | cons u us => simp only [genOut]; split <;> simp
    generalize hG : genOut (firstArg p dt opt :: (gs.take (n - 1)).map (·.toks)) b
        (genCur (firstArg p dt opt :: (gs.take (n - 1)).map (·.toks)) b p) = G at hGpos
    obtain ⟨g, hg'⟩ : ∃ g, fuel + (2 + G.length + (groupsOut (gs.drop (n - 1))).length) = g + 2 + 1 :=
      ⟨fuel + G.length + (groupsOut (gs.drop (n - 1))).length - 1, by omega⟩
    rw [hg', expandSequence.eq_3]
    show M.bind' M.get _ st = _
    simp only [M.bind', M.get]
    simp only [hk, hd, Bool.false_eq_true, if_false, if_true, reduceCtorEq, beq_iff_eq,
      beq_self_eq_true]
    have hgst : ∀ x ∈ gs, GroupGood T st x := fun x hx => (hg x hx).congr hst.lang
    have hoptst : ∀ o, opt = some o → GoodRun T st o.2.1 := fun o ho => (hopt o ho).congr hst.lang
    have hdtst : GoodRun T st dt := hdt.congr hst.lang
    refine (M.bind_ok _ _ _ _ _ (expandMacro_useO T g opt gs rest (cwTok p name) st _ n dt b hl hn1 har
      (fun o ho => ⟨(hopt o ho).noBrk, (hopt o ho).1⟩) hne hdt.1
      (fun x hx => (hgst x hx).ok) hb.refs)).trans ?_
    simp only [show (cwTok p name).pos = p from rfl, hG]
    have hcopy : ∀ t ∈ mkAction p :: G, CopyTok T st t := by
      intro t ht
      rcases List.mem_cons.mp ht with rfl | ht
      · exact Or.inl ⟨_, rfl⟩
      · rw [← hG] at ht
        refine genOut_copy T st n _ ?_ b _ ?_ t ht
        · intro a ha2 u hu
          rcases List.mem_cons.mp ha2 with rfl | ha2
          · cases opt with
            | none =>
              simp only [firstArg, List.mem_map] at hu
              obtain ⟨v, hv, rfl⟩ := hu
              exact ⟨plainTok_restamp p v (hdtst.2 v hv).1, (hdtst.2 v hv).2.1⟩
            | some o =>
              have := (hoptst o rfl).2 u hu
              exact ⟨this.1, this.2.1⟩
          · obtain ⟨x, hx, rfl⟩ := List.mem_map.mp ha2
            exact (hgst x (List.mem_of_mem_take hx)).2 u hu
        · intro u hu
          rcases hb.2 u hu with ⟨h1, h2⟩ | h3
          · exact Or.inl ⟨h1, by rw [activeChars_congr T st1 st hst.lang]; exact h2⟩
          · exact Or.inr h3
    have hg2 : g + 2 = fuel + (groupsFlat (gs.drop (n - 1))).length + (mkAction p :: G).length := by
      rw [groupsFlat_length]; simp only [List.length_cons]; omega
    rw [hg2, seq_copy_run T envStop st _ ha' (mkAction p :: G) _ _ hcopy,
      seq_groups T envStop st rest ha' (gs.drop (n - 1)) fuel _
        (fun x hx => hgst x (List.mem_of_mem_drop hx))]
    simp

/-- **the loop on a buffer of plain tokens, definitions and uses.** -/
theorem seq_opt (T : PTables) (envStop : Option Str) (st1 : PState)
    (ha : noEmptyActive T st1 = true) :
    ∀ (ps : List OPiece) (fuel : Nat) (out : List Tok) (st : PState),
      ocost st ps + 5 ≤ fuel → OPiecesOk T st1 ps → OArityOk st ps → OStOk T st1 st →
      expandSequence T fuel (oflat ps) envStop out st
        = match removeLines (out ++ ooutP st ps) with
          | some r => .ok ((r, []), ofinalSt st ps)
          | none => .outOfFuel := by
  intro ps
  induction ps with
  | nil =>
    intro fuel out st hf _ _ _
    obtain ⟨f, rfl⟩ : ∃ f, fuel = f + 1 := ⟨fuel - 1, by omega⟩
    simp only [oflat, ooutP, ofinalSt, List.append_nil]
    rw [expandSequence.eq_2]
    cases removeLines out <;> rfl
  | cons pc ps ih =>
    intro fuel out st hf hok har hst
    cases pc with
    | tok t =>
      simp only [ocost] at hf
      obtain ⟨f, rfl⟩ : ∃ f, fuel = f + 1 := ⟨fuel - 1, by omega⟩
      simp only [oflat, OPiece.toks, List.singleton_append]
      rw [seq_plain_step T f t (oflat ps) envStop out st hok.1 (PassTok_congr hst.lang hok.2.1),
        ih f (out ++ [t]) st (by omega) hok.2.2 har hst]
      simp only [ooutP, ofinalSt, List.append_assoc, List.singleton_append]
    | defn kw p q1 q2 q3 q4 q5 q6 r1 r2 q7 q8 name n dt body =>
      obtain ⟨hkw, hn, hd, hn1, hdt, hb, hrest⟩ := hok
      simp only [ocost] at hf
      obtain ⟨f, rfl⟩ : ∃ f, fuel = f + 7 := ⟨fuel - 7, by omega⟩
      have hflat : oflat (OPiece.defn kw p q1 q2 q3 q4 q5 q6 r1 r2 q7 q8 name n dt body :: ps)
          = cwTok p kw :: lbr q1 :: cwTok q2 name :: rbr q3 :: txtTok q4 '[' ::
            txtTok q5 (digitChar n) :: txtTok q6 ']' :: txtTok r1 '[' ::
            (dt ++ txtTok r2 ']' :: lbr q7 :: (body ++ rbr q8 :: oflat ps)) := by
        simp [oflat, OPiece.toks]
      rw [hflat, seq_defD_step T f kw p q1 q2 q3 q4 q5 q6 r1 r2 q7 q8 name n dt body (oflat ps) envStop out
        st1 st hst hkw hn hd hn1 hdt hb ha,
        ih (f + 5) _ _ (by omega) hrest har (hst.defSt name n dt body hn hn1 hdt hb)]
      simp only [ooutP, ofinalSt, List.append_assoc, List.singleton_append]
    | use p name opt gs =>
      obtain ⟨hn, hopt, hne, hg, hrest⟩ := hok
      obtain ⟨hund, har1, har2⟩ := har
      simp only [ocost] at hf
      obtain ⟨f, hf'⟩ : ∃ f, fuel = f + (2 + (ouseBody st p name opt gs).length
          + (groupsOut (gs.drop (ouseN st name))).length) :=
        ⟨fuel - (2 + (ouseBody st p name opt gs).length + (groupsOut (gs.drop (ouseN st name))).length),
          by omega⟩
      have hflat : oflat (OPiece.use p name opt gs :: ps)
          = cwTok p name :: (optFlat opt ++ (groupsFlat gs ++ oflat ps)) := by
        simp [oflat, OPiece.toks]
      rw [hflat, hf', seq_useO_step T f p name opt gs (oflat ps) envStop out st1 st hst hn ha hopt hne hg
        hund har1, ih f _ _ (by omega) hrest har2 (hst.useSt name)]
      simp only [ooutP, ofinalSt, List.append_assoc, List.cons_append]

end PlainOptArg
end Yalafi
