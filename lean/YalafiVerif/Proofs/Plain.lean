/-
  Proofs/Plain.lean — C06 "plain prose is a fixed point", end to end on the model.

  `inertChar T st c`   : per-character condition (computable)
  `inertText T st src` : the weaker, context dependent condition the proofs really use
                         (a character may start a special sequence as long as none matches
                         at its offset, e.g. a single `-` or `'`; an active character of the
                         language settings, e.g. `"` for 'de', is allowed where it does not
                         complete a short macro with the token behind it)
  `parserWork_plain`   : `parserWork` returns the scanner tokens, unchanged state,
                         text = source, positions = 0,1,2,…
  `tex2txt_plain`      : the lift to `tex2txt` (1-based positions)
-/
import YalafiVerif.Proofs.Inv.Basic
import YalafiVerif.Proofs.Scanner
import YalafiVerif.Proofs.Lines
import YalafiVerif.Proofs.Utils
namespace Yalafi

open M

/-! ### the predicates -/

/-- the characters on which the scanner dispatches through the first character (`% # \`) and
    `expandSequence` through the *text* of a token (`$ $$ \( \[ \\ { }`) -/
def structuralChar (c : Char) : Bool :=
  c == '%' || c == '#' || c == '\\' || c == '$' || c == '{' || c == '}'

/-- keys of the short macros of the current language settings -/
def shortKeys (T : PTables) (st : PState) : List Str :=
  (((settingsOf T (curSettings st)).map (·.shortMacros)).getD []).map (·.1)

/-- the text of the first scanner token of an inert text: a run of white space or one character -/
def firstTokTxt : Str → Str
  | [] => []
  | d :: ds => if isSpace d then (d :: ds).takeWhile isSpace else [d]

/-- `c` followed by `cs` is inert:
    * it is not an active character of the current language settings, or it is no white space
      and does not form a short macro with the token behind it (or nothing is behind it), and
    * it is white space, or an ordinary character at which no special sequence matches -/
def inertAt (T : PTables) (st : PState) (c : Char) (cs : Str) : Bool :=
  (!(activeChars T st).contains [c] ||
    (!isSpace c && (cs.isEmpty || !(shortKeys T st).contains (c :: firstTokTxt cs)))) &&
  (isSpace c || (!structuralChar c && (matchSpecial T.toTables (c :: cs)).isNone))

/-- every suffix of the text starts with an inert character -/
def inertText (T : PTables) (st : PState) : Str → Bool
  | [] => true
  | c :: cs => inertAt T st c cs && inertText T st cs

/-- no entry of the special table is empty or starts with `c` -/
def startsNoSpecial (T : Tables) (c : Char) : Bool :=
  T.specialSorted.all (fun t => match t with | [] => false | d :: _ => d != c)

/-- per-character inertness (depends on `st` only through `curSettings st`):
    not an active character, and white space or a non-structural character that starts no
    special sequence -/
def inertChar (T : PTables) (st : PState) (c : Char) : Bool :=
  !(activeChars T st).contains [c] &&
  (isSpace c || (!structuralChar c && startsNoSpecial T.toTables c))

theorem matchSpecial_none_of_startsNoSpecial (T : Tables) (c : Char) (cs : Str)
    (h : startsNoSpecial T c = true) : matchSpecial T (c :: cs) = none := by
  unfold matchSpecial
  rw [List.find?_eq_none]
  intro t ht
  have := (List.all_eq_true.mp h) t ht
  cases t with
  | nil => simp at this
  | cons d ds =>
    have hd : d ≠ c := by simpa using this
    simp [startsWith, Ne.symm hd]

theorem inertAt_of_inertChar (T : PTables) (st : PState) (c : Char) (cs : Str)
    (h : inertChar T st c = true) : inertAt T st c cs = true := by
  unfold inertChar at h
  unfold inertAt
  simp only [Bool.and_eq_true, Bool.or_eq_true] at h ⊢
  refine ⟨Or.inl h.1, ?_⟩
  rcases h.2 with hs | ⟨h1, h2⟩
  · exact Or.inl hs
  · exact Or.inr ⟨h1, by rw [matchSpecial_none_of_startsNoSpecial _ _ _ h2]; rfl⟩

theorem inertText_of_inertChar (T : PTables) (st : PState) (src : Str)
    (h : ∀ c ∈ src, inertChar T st c = true) : inertText T st src = true := by
  induction src with
  | nil => rfl
  | cons c cs ih =>
    simp only [inertText, Bool.and_eq_true]
    exact ⟨inertAt_of_inertChar T st c cs (h c (List.mem_cons_self ..)),
      ih (fun d hd => h d (List.mem_cons_of_mem _ hd))⟩

theorem inertText_drop (T : PTables) (st : PState) (k : Nat) (s : Str)
    (h : inertText T st s = true) : inertText T st (s.drop k) = true := by
  induction k generalizing s with
  | zero => simpa using h
  | succ k ih =>
    cases s with
    | nil => simpa using h
    | cons c cs =>
      simp only [inertText, Bool.and_eq_true] at h
      simpa using ih cs h.2

/-- the predicates depend on the state only through the language stack -/
theorem activeChars_congr (T : PTables) (st st' : PState) (h : st'.langStack = st.langStack) :
    activeChars T st' = activeChars T st := by
  unfold activeChars curSettings
  rw [h]

theorem shortKeys_congr (T : PTables) (st st' : PState) (h : st'.langStack = st.langStack) :
    shortKeys T st' = shortKeys T st := by
  unfold shortKeys curSettings
  rw [h]

theorem expandShortMacro_congr (T : PTables) (st st' : PState) (h : st'.langStack = st.langStack)
    (t : Tok) (rest : Buf) : expandShortMacro T st' t rest = expandShortMacro T st t rest := by
  cases rest with
  | nil => rfl
  | cons cur rest' => simp only [expandShortMacro, curSettings, h]

theorem inertText_congr (T : PTables) (st st' : PState) (h : st'.langStack = st.langStack) (s : Str) :
    inertText T st' s = inertText T st s := by
  induction s with
  | nil => rfl
  | cons c cs ih =>
    simp only [inertText, inertAt, activeChars_congr T st st' h, shortKeys_congr T st st' h, ih]

/-! ### `expandSequence` on plain tokens -/

/-- a text / space / paragraph token whose text is none of the texts `expandSequence`
    dispatches on -/
structure PlainTok (t : Tok) : Prop where
  kind : t.kind = .text ∨ t.kind = .space ∨ t.kind = .par
  n1 : txtIs t "$" = false
  n2 : txtIs t "\\(" = false
  n3 : txtIs t "$$" = false
  n4 : txtIs t "\\[" = false
  n5 : txtIs t "\\\\" = false
  n6 : txtIs t "{" = false
  n7 : txtIs t "}" = false

/-- the short-macro branch does not fire, or does not change anything -/
def PassTok (T : PTables) (st : PState) (t : Tok) (rest : Buf) : Prop :=
  (activeChars T st).contains t.txt = false ∨ expandShortMacro T st t rest = (t, rest)

/-- a buffer that `expandSequence` copies to the output -/
def PlainSeq (T : PTables) (st : PState) : List Tok → Prop
  | [] => True
  | t :: rest => PlainTok t ∧ PassTok T st t rest ∧ PlainSeq T st rest

theorem PlainTok.notAction {t : Tok} (h : PlainTok t) : isAction t = false := by
  unfold isAction
  rcases h.kind with hk | hk | hk <;> simp [hk]

theorem PlainTok.notComment {t : Tok} (h : PlainTok t) : t.kind ≠ .comment := by
  rcases h.kind with hk | hk | hk <;> simp [hk]

theorem PlainSeq.all {T : PTables} {st : PState} : ∀ {toks : List Tok}, PlainSeq T st toks →
    ∀ t ∈ toks, PlainTok t
  | [], _, _, h => nomatch h
  | _ :: _, hs, x, hx => by
    rcases List.mem_cons.mp hx with rfl | hx
    · exact hs.1
    · exact PlainSeq.all hs.2.2 x hx

theorem PlainSeq.congr {T : PTables} {st st' : PState} (hl : st'.langStack = st.langStack) :
    ∀ {toks : List Tok}, PlainSeq T st toks → PlainSeq T st' toks
  | [], _ => trivial
  | t :: rest, hs => by
    refine ⟨hs.1, ?_, PlainSeq.congr hl hs.2.2⟩
    unfold PassTok
    rw [activeChars_congr T st st' hl, expandShortMacro_congr T st st' hl]
    exact hs.2.1

theorem seq_plain_step (T : PTables) (fuel : Nat) (tok : Tok) (rest : Buf) (envStop : Option Str)
    (out : List Tok) (st : PState) (h : PlainTok tok) (ha : PassTok T st tok rest) :
    expandSequence T (fuel + 1) (tok :: rest) envStop out st
      = expandSequence T fuel rest envStop (out ++ [tok]) st := by
  rw [expandSequence.eq_3]
  show M.bind' M.get _ st = _
  simp only [M.bind', M.get]
  obtain ⟨hk, n1, n2, n3, n4, n5, n6, n7⟩ := h
  cases hc : (activeChars T st).contains tok.txt with
  | false =>
    rcases hk with hk | hk | hk <;>
      simp only [hk, n1, n2, n3, n4, n5, n6, n7, Bool.or_self, Bool.false_eq_true, if_false,
        reduceCtorEq, beq_iff_eq]
  | true =>
    have ha' : expandShortMacro T st tok rest = (tok, rest) := by
      rcases ha with ha | ha
      · rw [hc] at ha; cases ha
      · exact ha
    rcases hk with hk | hk | hk <;>
      simp only [hk, n1, n2, n3, n4, n5, n6, n7, ha', Bool.or_self, Bool.false_eq_true, if_false,
        if_true, reduceCtorEq, beq_iff_eq]

/-- the loop copies a buffer of plain tokens; every token costs one unit of fuel and the
    final call (empty buffer, blank-line removal) one more -/
theorem seq_plain (T : PTables) (st : PState) (envStop : Option Str) :
    ∀ (toks : List Tok) (fuel : Nat) (out : List Tok), toks.length + 1 ≤ fuel →
      PlainSeq T st toks →
      expandSequence T fuel toks envStop out st
        = match removeLines (out ++ toks) with
          | some r => .ok ((r, []), st)
          | none => .outOfFuel := by
  intro toks
  induction toks with
  | nil =>
    intro fuel out hf _
    obtain ⟨f, rfl⟩ : ∃ f, fuel = f + 1 := ⟨fuel - 1, by simp at hf; omega⟩
    rw [expandSequence.eq_2, List.append_nil]
    cases removeLines out <;> rfl
  | cons t ts ih =>
    intro fuel out hf hp
    obtain ⟨f, rfl⟩ : ∃ f, fuel = f + 1 := ⟨fuel - 1, by simp at hf; omega⟩
    rw [seq_plain_step T f t ts envStop out st hp.1 hp.2.1]
    rw [ih f (out ++ [t]) (by simp at hf ⊢; omega) hp.2.2]
    rw [List.append_assoc, List.singleton_append]

theorem filter_keepOut_id (ts : List Tok) (h : ∀ t ∈ ts, t.txt ≠ []) : ts.filter keepOut = ts := by
  rw [List.filter_eq_self]
  intro t ht
  have := h t ht
  unfold keepOut
  cases hx : t.txt with
  | nil => exact absurd hx this
  | cons => simp

/-- without Action tokens the blank-line removal at the end of the loop is the identity -/
theorem seq_plain_id (T : PTables) (st : PState) (envStop : Option Str) (toks : List Tok) (fuel : Nat)
    (hf : toks.length + 1 ≤ fuel) (hp : PlainSeq T st toks) (hne : ∀ t ∈ toks, t.txt ≠ []) :
    expandSequence T fuel toks envStop [] st = .ok ((toks, []), st) := by
  rw [seq_plain T st envStop toks fuel [] hf hp, List.nil_append,
    removeLines_noaction_id toks (fun t ht => (hp.all t ht).notAction), filter_keepOut_id toks hne]

/-! ### the scanner on inert text -/

theorem activeChars_length (T : PTables) (st : PState) : ∀ a ∈ activeChars T st, a.length ≤ 1 := by
  intro a ha
  unfold activeChars at ha
  obtain ⟨e, _, rfl⟩ := List.mem_map.mp ha
  simp only [List.length_take]
  omega

theorem not_active_cons (T : PTables) (st : PState) (c : Char) (tl : Str)
    (h : (activeChars T st).contains [c] = false) : (activeChars T st).contains (c :: tl) = false := by
  cases tl with
  | nil => exact h
  | cons d ds =>
    cases hc : (activeChars T st).contains (c :: d :: ds) with
    | false => rfl
    | true =>
      have := activeChars_length T st _ (List.contains_iff_mem.mp hc)
      simp at this

theorem expandShortMacro_none (T : PTables) (st : PState) (t cur : Tok) (rest' : Buf)
    (h : (shortKeys T st).contains (t.txt ++ cur.txt) = false) :
    expandShortMacro T st t (cur :: rest') = (t, cur :: rest') := by
  have hf : (((settingsOf T (curSettings st)).map (·.shortMacros)).getD []).find?
      (·.1 == t.txt ++ cur.txt) = none := by
    rw [List.find?_eq_none]
    intro e he heq
    have hm : (shortKeys T st).contains (t.txt ++ cur.txt) = true := by
      rw [List.contains_iff_mem]
      unfold shortKeys
      exact List.mem_map.mpr ⟨e, he, by simpa using heq⟩
    rw [h] at hm; cases hm
  simp only [expandShortMacro, hf]

theorem plainTok_of_head (t : Tok) (c : Char) (tl : Str)
    (ht : t.txt = c :: tl) (hk : t.kind = .text ∨ t.kind = .space ∨ t.kind = .par)
    (hs : structuralChar c = false) : PlainTok t := by
  simp only [structuralChar, Bool.or_eq_false_iff, beq_eq_false_iff_ne] at hs
  obtain ⟨⟨⟨⟨⟨_, _⟩, h3⟩, h4⟩, h5⟩, h6⟩ := hs
  refine ⟨hk, ?_, ?_, ?_, ?_, ?_, ?_, ?_⟩
  · simp [txtIs, ht, h4]
  · simp [txtIs, ht, h3]
  · simp [txtIs, ht, h4]
  · simp [txtIs, ht, h3]
  · simp [txtIs, ht, h3]
  · simp [txtIs, ht, h5]
  · simp [txtIs, ht, h6]

theorem structuralChar_of_isSpace (c : Char) (h : isSpace c = true) : structuralChar c = false := by
  cases hs : structuralChar c with
  | false => rfl
  | true =>
    simp only [structuralChar, Bool.or_eq_true, beq_iff_eq] at hs
    rcases hs with ((((rfl | rfl) | rfl) | rfl) | rfl) | rfl <;> exact absurd h (by decide)

/-- what one scanner step on inert text looks like: a plain token at `pos` whose text is the
    consumed prefix — the whole run of white space, or one character -/
structure PlainStep (pos : Nat) (rest : Str) (s : ScanStep) : Prop where
  diag : s.diag = none
  extra : s.extra = []
  len_pos : 1 ≤ s.len
  len_le : s.len ≤ rest.length
  tok : PlainTok s.tok
  fix : s.tok.fix = false
  pos : s.tok.pos = pos
  txt : s.tok.txt = rest.take s.len
  first : s.tok.txt = firstTokTxt rest

theorem nextToken_plain (T : PTables) (st : PState) (src : Str) (pos : Nat) (c : Char) (cs : Str)
    (h : inertAt T st c cs = true) :
    PlainStep pos (c :: cs) (nextToken T.toTables src pos (c :: cs)) ∧
    (isSpace c = false → (nextToken T.toTables src pos (c :: cs)).len = 1) := by
  simp only [inertAt, Bool.and_eq_true, Bool.or_eq_true] at h
  obtain ⟨_, hc⟩ := h
  unfold nextToken
  by_cases hsp : isSpace c = true
  · simp only [hsp, if_true]
    have hne : (c :: cs).takeWhile isSpace = c :: cs.takeWhile isSpace := by
      simp [hsp]
    refine ⟨⟨rfl, rfl, ?_, ?_, ?_, rfl, rfl, ?_, ?_⟩, fun h0 => by simp at h0⟩
    · simp [scanSpace, hne]
    · exact ScannerAux.length_takeWhile_le' _ _
    · refine plainTok_of_head _ c (cs.takeWhile isSpace) ?_ ?_ (structuralChar_of_isSpace c hsp)
      · simp only [scanSpace]; exact hne
      · simp only [scanSpace]; split
        · exact Or.inr (Or.inl rfl)
        · exact Or.inr (Or.inr rfl)
    · simp only [scanSpace]
      exact (ScannerAux.take_length_takeWhile _ _).symm
    · simp only [scanSpace, firstTokTxt, hsp, if_true]
  · rcases hc with hc | ⟨hst, hm⟩
    · exact absurd hc hsp
    · simp only [Bool.not_eq_true'] at hst
      have hst' := hst
      simp only [structuralChar, Bool.or_eq_false_iff, beq_eq_false_iff_ne] at hst'
      obtain ⟨⟨⟨⟨⟨h1, h2⟩, h3⟩, _⟩, _⟩, _⟩ := hst'
      have hm' : matchSpecial T.toTables (c :: cs) = none := by
        cases hx : matchSpecial T.toTables (c :: cs) with
        | none => rfl
        | some _ => rw [hx] at hm; simp at hm
      simp only [hsp, Bool.false_eq_true, if_false, beq_iff_eq, h1, h2, h3, hm']
      refine ⟨⟨rfl, rfl, Nat.le_refl _, by simp, ?_, rfl, rfl, by simp, ?_⟩, by first | trivial | exact fun _ => rfl⟩
      · exact plainTok_of_head _ c [] rfl (Or.inl rfl) hst
      · simp only [firstTokTxt, hsp, Bool.false_eq_true, if_false]

theorem getTxtPos_cons_plain (t : Tok) (ts : List Tok) (hf : t.fix = false) :
    getTxtPos (t :: ts) = (t.txt ++ (getTxtPos ts).1, List.range' t.pos t.txt.length ++ (getTxtPos ts).2) := by
  simp only [getTxtPos, tokPositions, hf, Bool.false_eq_true, if_false, List.range'_eq_map_range]

/-- the scanner loop on inert text: complete, no diagnostics, one plain non-empty token per
    step (the buffer passes `expandSequence`), and the tokens spell the text with consecutive
    positions -/
theorem scanSteps_plain (T : PTables) (st : PState) (src : Str) :
    ∀ (fuel pos : Nat) (rest : Str), rest.length ≤ fuel → inertText T st rest = true →
    (scanSteps T.toTables src fuel pos rest).2 = true ∧
    (∀ s ∈ (scanSteps T.toTables src fuel pos rest).1,
        s.diag = none ∧ s.extra = [] ∧ s.tok.txt ≠ [] ∧ s.tok.fix = false) ∧
    PlainSeq T st ((scanSteps T.toTables src fuel pos rest).1.map (·.tok)) ∧
    (∀ s ss, (scanSteps T.toTables src fuel pos rest).1 = s :: ss → s.tok.txt = firstTokTxt rest) ∧
    getTxtPos ((scanSteps T.toTables src fuel pos rest).1.map (·.tok))
      = (rest, List.range' pos rest.length) ∧
    (scanSteps T.toTables src fuel pos rest).1.length ≤ rest.length := by
  intro fuel
  induction fuel with
  | zero =>
    intro pos rest hf _
    cases rest with
    | nil => simp [scanSteps, getTxtPos, PlainSeq]
    | cons c cs => simp at hf
  | succ fuel ih =>
    intro pos rest hf hin
    cases rest with
    | nil => simp [scanSteps, getTxtPos, PlainSeq]
    | cons c cs =>
      have hin' := hin
      simp only [inertText, Bool.and_eq_true] at hin'
      obtain ⟨hp, hone⟩ := nextToken_plain T st src pos c cs hin'.1
      generalize hs : nextToken T.toTables src pos (c :: cs) = s at hp hone
      have h1 := hp.len_pos
      have h2 := hp.len_le
      simp only [scanSteps, hs]
      rw [if_neg (by simp; omega)]
      have hl : ((c :: cs).drop s.len).length ≤ fuel := by
        simp only [List.length_drop]; simp only [List.length_cons] at hf h2 ⊢; omega
      obtain ⟨i1, i2, i3, i4, i5, i6⟩ := ih (pos + s.len) ((c :: cs).drop s.len) hl
        (inertText_drop T st _ _ hin)
      refine ⟨i1, ?_, ?_, ?_, ?_, ?_⟩
      · intro x hx
        rcases List.mem_cons.mp hx with rfl | hx
        · refine ⟨hp.diag, hp.extra, ?_, hp.fix⟩
          rw [hp.txt]
          intro h0
          have := congrArg List.length h0
          simp only [List.length_take, List.length_nil] at this
          omega
        · exact i2 x hx
      · simp only [List.map_cons]
        refine ⟨hp.tok, ?_, i3⟩
        -- the short-macro branch
        have hact := hin'.1
        simp only [inertAt, Bool.and_eq_true, Bool.or_eq_true, Bool.not_eq_true'] at hact
        rcases hact.1 with hna | ⟨hns, hk⟩
        · left
          have : s.tok.txt = c :: (cs.take (s.len - 1)) := by
            rw [hp.txt]
            obtain ⟨k, hk⟩ : ∃ k, s.len = k + 1 := ⟨s.len - 1, by omega⟩
            rw [hk]; simp
          rw [this]
          exact not_active_cons T st c _ hna
        · right
          have hlen := hone hns
          have htxt : s.tok.txt = [c] := by rw [hp.txt, hlen]; rfl
          rw [hlen] at i4 ⊢
          simp only [List.drop_succ_cons, List.drop_zero] at i4 ⊢
          cases hr : (scanSteps T.toTables src fuel (pos + 1) cs).1 with
          | nil => rfl
          | cons s2 ss =>
            simp only [List.map_cons]
            apply expandShortMacro_none
            rw [htxt, i4 s2 ss hr]
            rcases hk with hk | hk
            · -- `cs = []`: nothing is scanned behind `c`
              cases cs with
              | nil => cases fuel <;> simp [scanSteps] at hr
              | cons => simp at hk
            · simpa using hk
      · intro s' ss' he
        simp only [List.cons.injEq] at he
        rw [← he.1]; exact hp.first
      · simp only [List.map_cons]
        rw [getTxtPos_cons_plain _ _ hp.fix, i5, hp.pos, hp.txt]
        simp only [List.length_take, List.length_drop, Nat.min_eq_left h2]
        rw [List.take_append_drop, List.range'_append_1]
        congr 2
        omega
      · simp only [List.length_cons, List.length_drop] at i6 ⊢
        omega

theorem flatten_tok_extra (l : List ScanStep) (h : ∀ s ∈ l, s.extra = []) :
    (l.map (fun s => s.tok :: s.extra)).flatten = l.map (·.tok) := by
  induction l with
  | nil => rfl
  | cons a l ih =>
    simp only [List.map_cons, List.flatten_cons, h a (List.mem_cons_self ..), List.singleton_append]
    rw [ih (fun s hs => h s (List.mem_cons_of_mem _ hs))]

theorem flatten_diag_nil (l : List ScanStep) (h : ∀ s ∈ l, s.diag = none) :
    (l.map (·.diag.toList)).flatten = [] := by
  induction l with
  | nil => rfl
  | cons a l ih =>
    simp only [List.map_cons, List.flatten_cons, h a (List.mem_cons_self ..), Option.toList_none,
      List.nil_append]
    exact ih (fun s hs => h s (List.mem_cons_of_mem _ hs))

/-- `scan` on inert text: complete, no diagnostics; the tokens are non-empty position-counting
    text / space / paragraph tokens that pass `expandSequence`, spell the source and carry the
    positions 0, 1, 2, …; at most one token per character -/
theorem scan_plain (T : PTables) (st : PState) (src : Str) (h : inertText T st src = true) :
    (scan T.toTables src).complete = true ∧ (scan T.toTables src).diags = [] ∧
    PlainSeq T st (scan T.toTables src).toks ∧
    (∀ t ∈ (scan T.toTables src).toks, t.txt ≠ [] ∧ t.fix = false) ∧
    getTxtPos (scan T.toTables src).toks = (src, List.range src.length) ∧
    (scan T.toTables src).toks.length ≤ src.length := by
  obtain ⟨a, b, c, _, d, e⟩ := scanSteps_plain T st src src.length 0 src (Nat.le_refl _) h
  have he := flatten_tok_extra (scanSteps T.toTables src src.length 0 src).1 (fun s hs => (b s hs).2.1)
  have hd := flatten_diag_nil (scanSteps T.toTables src src.length 0 src).1 (fun s hs => (b s hs).1)
  simp only [scan]
  rw [he, hd]
  refine ⟨a, rfl, c, ?_, ?_, ?_⟩
  · intro t ht
    obtain ⟨s, hs, rfl⟩ := List.mem_map.mp ht
    exact ⟨(b s hs).2.2.1, (b s hs).2.2.2⟩
  · rw [d, List.range_eq_range']
  · simpa using e

/-! ### `parserWork` -/

theorem takeWhile_all {α} (p : α → Bool) (l : List α) (h : ∀ x ∈ l, p x = true) :
    l.takeWhile p = l := by
  induction l with
  | nil => rfl
  | cons a l ih =>
    rw [List.takeWhile_cons, h a (List.mem_cons_self ..), if_pos rfl,
      ih (fun x hx => h x (List.mem_cons_of_mem _ hx))]

/-- without comment tokens the skip pre-pass keeps everything, whatever the skip markers are -/
theorem skipPass_nocomment (st : PState) (fuel : Nat) (toks : List Tok)
    (h : ∀ t ∈ toks, t.kind ≠ .comment) : skipPass st (fuel + 1) toks [] = (toks, none, []) := by
  have hpre : toks.takeWhile
      (fun t => !(t.kind == .comment && startsWith t.txt st.skipBegin)) = toks := by
    apply takeWhile_all
    intro t ht
    have := h t ht
    simp [this]
  simp only [skipPass, hpre, List.drop_length, List.nil_append]

theorem M.bind_ok {α β} (x : M α) (f : α → M β) (s s' : PState) (a : α) (h : x s = .ok (a, s')) :
    (x >>= f) s = f a s' := by
  show M.bind' x f s = _
  simp only [M.bind', h]

/-- **C06 on `parserWork`, context form.**  On inert text `parserWork` returns exactly the scanner
    tokens and the *unchanged* state (`latex` and `nest` are restored, nothing is added to
    `diags`, `unknowns`, …; no hypothesis on the state is needed).  Fuel: one unit for
    `parserWork`, one per token (at most one per character) and one for the final call of the
    loop. -/
theorem parserWork_plain_text (T : PTables) (st : PState) (src : Str) (fuel : Nat)
    (hf : src.length + 2 ≤ fuel) (h : inertText T st src = true) :
    parserWork T fuel src st = .ok ((scan T.toTables src).toks, st) := by
  obtain ⟨f, rfl⟩ : ∃ f, fuel = f + 1 := ⟨fuel - 1, by omega⟩
  obtain ⟨_, hd, hseq, ht, _, hl⟩ := scan_plain T st src h
  rw [parserWork.eq_2]
  refine (M.bind_ok _ _ _ _ _ (rfl : M.get st = _)).trans ?_
  refine (M.bind_ok _ _ _ _ _ (rfl : M.modify _ _ = _)).trans ?_
  refine (M.bind_ok _ _ _ _ _ (rfl : M.modify _ _ = _)).trans ?_
  refine (M.bind_ok _ _ _ _ _ (rfl : M.get _ = _)).trans ?_
  simp only [hd, List.append_nil]
  rw [skipPass_nocomment _ _ _ (fun t ht' => (hseq.all t ht').notComment)]
  simp only []
  refine (M.bind_ok _ _ _ _ _ (rfl : (pure _ : M (List Tok)) _ = _)).trans ?_
  have hseq' : PlainSeq T { st with latex := src, nest := st.nest + 1 } (scan T.toTables src).toks :=
    PlainSeq.congr (st := st) (st' := { st with latex := src, nest := st.nest + 1 }) rfl hseq
  have hs := seq_plain_id T { st with latex := src, nest := st.nest + 1 } none _ f (by omega)
    hseq' (fun t ht' => (ht t ht').1)
  refine (M.bind_ok _ _ _ _ _ hs).trans ?_
  refine (M.bind_ok _ _ _ _ _ (rfl : M.modify _ _ = _)).trans ?_
  show Outcome.ok _ = _
  simp only [Nat.add_sub_cancel]

/-- what `parserWork_plain_text` says about the result tokens -/
theorem scan_plain_txtpos (T : PTables) (st : PState) (src : Str) (h : inertText T st src = true) :
    getTxtPos (scan T.toTables src).toks = (src, List.range src.length) ∧
    ∀ t ∈ (scan T.toTables src).toks,
      (t.kind = .text ∨ t.kind = .space ∨ t.kind = .par) ∧ t.fix = false ∧ t.txt ≠ [] := by
  obtain ⟨_, _, hseq, ht, hg, _⟩ := scan_plain T st src h
  exact ⟨hg, fun t ht' => ⟨(hseq.all t ht').kind, (ht t ht').2, (ht t ht').1⟩⟩

/-- **C06 on `parserWork`.**  A text of inert characters is a fixed point: the result tokens
    spell the source, the i-th output character maps to source position i (0-based), every
    token is a position-counting text / space / paragraph token, and the state is unchanged. -/
theorem parserWork_plain (T : PTables) (st : PState) (src : Str) (fuel : Nat)
    (hf : src.length + 2 ≤ fuel) (h : ∀ c ∈ src, inertChar T st c = true) :
    ∃ toks, parserWork T fuel src st = .ok (toks, st) ∧
      getTxtPos toks = (src, List.range src.length) ∧
      toks = (scan T.toTables src).toks ∧
      ∀ t ∈ toks, (t.kind = .text ∨ t.kind = .space ∨ t.kind = .par) ∧ t.fix = false ∧ t.txt ≠ [] := by
  have hi := inertText_of_inertChar T st src h
  exact ⟨_, parserWork_plain_text T st src fuel hf hi, (scan_plain_txtpos T st src hi).1, rfl,
    (scan_plain_txtpos T st src hi).2⟩

/-! ### `parse` and `tex2txt` -/

theorem parse_plain_text (T : PTables) (st : PState) (src : Str) (fuel : Nat)
    (hf : src.length + 2 ≤ fuel) (h : inertText T st src = true) :
    parse T fuel src [] [] st
      = .ok ((scan T.toTables src).toks,
             { st with extracted := [], unknowns := [], foreign := false, nest := 0 }) := by
  unfold parse
  simp only [List.isEmpty_nil, Bool.not_true, Bool.false_eq_true, if_false, if_true]
  refine (M.bind_ok _ _ _ _ _ (rfl : M.modify _ _ = _)).trans ?_
  refine (M.bind_ok _ _ _ _ _ (rfl : (pure _ : M (List Tok)) _ = _)).trans ?_
  refine (M.bind_ok _ _ _ _ _ (rfl : M.modify _ _ = _)).trans ?_
  have hw := parserWork_plain_text T
    { st with extracted := [], unknowns := [], foreign := false, nest := 0 } src fuel hf
    ((inertText_congr T st
      { st with extracted := [], unknowns := [], foreign := false, nest := 0 } rfl src).trans h)
  refine (M.bind_ok _ _ _ _ _ hw).trans ?_
  refine (M.bind_ok _ _ _ _ _ (rfl : M.get _ = _)).trans ?_
  show Outcome.ok _ = _
  simp

/-- **C06 on `tex2txt`, context form.**  `st1` is the state after `Parser.__init__` (built-in
    definitions, `--dcls`, `--pack`); no `--defs`, `--extr`, `--repl`, `--unkn`; single-language
    mode.  The complete result record is determined. -/
theorem tex2txt_plain_text (T : PTables) (o : Options) (fs : FS) (thresh : Nat) (src : Str) (fuel : Nat)
    (st1 : PState) (hdefs : o.defs = []) (hextr : o.extr = []) (hrepl : o.hasRepl = false)
    (hunkn : o.unkn = false)
    (hinit : initParser T fuel o (initialState T o false fs) = .ok ((), st1))
    (h : inertText T st1 src = true) (hf : src.length + 2 ≤ fuel) :
    tex2txt T fuel src o false thresh fs
      = .ok { toks := (scan T.toTables src).toks, txt := src,
              pos := (List.range src.length).map (· + 1), parts := [], unknowns := [],
              diags := st1.diags, foreign := false } := by
  have hrun : (initParser T fuel o >>= fun _ => parse T fuel src o.defs
        (if o.extr.isEmpty then [] else (splitOn ',' o.extr []).map (fun s => '\\' :: s)))
        (initialState T o false fs)
      = .ok ((scan T.toTables src).toks,
             { st1 with extracted := [], unknowns := [], foreign := false, nest := 0 }) := by
    refine (M.bind_ok _ _ _ _ _ hinit).trans ?_
    rw [hdefs, hextr]
    exact parse_plain_text T st1 src fuel hf h
  unfold tex2txt
  simp only []
  rw [hrun]
  simp only [hrepl, hunkn, Bool.not_false, if_true, Bool.false_eq_true, if_false,
    (scan_plain T st1 src h).2.2.2.2.1]

/-- **C06 on `tex2txt`.**  Plain prose is returned unchanged and its i-th character maps to
    source position i (1-based, as `tex2txt` reports positions). -/
theorem tex2txt_plain (T : PTables) (o : Options) (fs : FS) (thresh : Nat) (src : Str) (fuel : Nat)
    (st1 : PState) (hdefs : o.defs = []) (hextr : o.extr = []) (hrepl : o.hasRepl = false)
    (hunkn : o.unkn = false)
    (hinit : initParser T fuel o (initialState T o false fs) = .ok ((), st1))
    (h : ∀ c ∈ src, inertChar T st1 c = true) (hf : src.length + 2 ≤ fuel) :
    ∃ r, tex2txt T fuel src o false thresh fs = .ok r ∧ r.txt = src ∧
      r.pos = (List.range src.length).map (· + 1) ∧ r.unknowns = [] ∧ r.diags = st1.diags :=
  ⟨_, tex2txt_plain_text T o fs thresh src fuel st1 hdefs hextr hrepl hunkn hinit
    (inertText_of_inertChar T st1 src h) hf, rfl, rfl, rfl, rfl⟩

/-! ### the hypotheses can be met

  Small concrete tables (the theorems are parametric in `T`; the real tables are used below in
  the recorded `#eval`s only, so that this file does not depend on the generated file). -/

namespace PlainExample

def deSettings : LangSettings :=
  { code := "de".toList, proofName := [], inlineRepl := [], displayRepl := [], opText := [],
    opDefault := none, langChange := [],
    shortMacros := [("\"a".toList, "ä".toList), ("\"-".toList, [])] }
def enSettings : LangSettings := { deSettings with code := "en".toList, shortMacros := [] }

def tinyT : PTables :=
  { (default : PTables) with
    special := [("---".toList, "—".toList), ("--".toList, "–".toList), ("\\\\".toList, " ".toList),
                ("~".toList, " ".toList), ("{".toList, []), ("}".toList, []), ("$".toList, []),
                ("&".toList, " ".toList), ("_".toList, []), ("^".toList, [])]
    specialSorted := ["---".toList, "--".toList, "\\\\".toList, "~".toList, "{".toList, "}".toList,
                      "$".toList, "&".toList, "_".toList, "^".toList]
    langs := [enSettings, deSettings]
    mark := "LTERROR".toList }

def oEn : Options := { lang := "en".toList }
def oDe : Options := { lang := "de".toList }
def stEn : PState := initialState tinyT oEn false []
def stDe : PState := initialState tinyT oDe false []
def text1 : Str := "Hello, world (1 + 2)!\n\nNext.".toList
def text2 : Str := "Er sagte \"hallo\" - so, don't.".toList

/-- the per-character hypothesis holds for ordinary prose (28 characters, fuel 30) … -/
theorem text1_inert : ∀ c ∈ text1, inertChar tinyT stEn c = true := by decide

example : ∃ toks, parserWork tinyT 30 text1 stEn = .ok (toks, stEn) ∧
    getTxtPos toks = (text1, List.range 28) := by
  obtain ⟨toks, h1, h2, _⟩ := parserWork_plain tinyT stEn text1 30 (by decide) text1_inert
  exact ⟨toks, h1, h2⟩

/-- … `Parser.__init__` succeeds (here it leaves the initial state unchanged) … -/
theorem initParser_tiny : initParser tinyT 30 oEn (initialState tinyT oEn false []) = .ok ((), stEn) := by
  with_unfolding_all rfl

/-- … so the end-to-end statement applies. -/
example : tex2txt tinyT 30 text1 oEn false 0 []
    = .ok { toks := (scan tinyT.toTables text1).toks, txt := text1,
            pos := (List.range text1.length).map (· + 1), parts := [], unknowns := [],
            diags := [], foreign := false } :=
  tex2txt_plain_text tinyT oEn [] 0 text1 30 stEn rfl rfl rfl rfl initParser_tiny
    (inertText_of_inertChar _ _ _ text1_inert) (by decide)

/-- the context form also admits an isolated `-` and `'`, and the active character `"` of the
    'de' settings where it completes no short macro; it rejects `--` and `"a` -/
example : inertText tinyT stDe text2 = true := by decide
example : (text2.all (inertChar tinyT stDe)) = false := by decide
example : inertText tinyT stDe "a--b".toList = false := by decide
example : inertText tinyT stDe "\"a".toList = false := by decide
example : inertText tinyT stEn "\"a".toList = true := by decide

/-
  With the real tables (`import YalafiVerif.Generated.Tables`, `T := Generated.theTables`,
  `o := { lang := "en".toList }`, `st0 := initialState T o false []`), `#eval` gives:

  * ASCII characters with `inertChar T st0 c = true`: all control characters `\x00`–`\x1f`
    and `\x7f`, blank, `! " ( ) * + , . / 0-9 : ; < = > ? @ A-Z [ ] a-z |`;
    not inert: `# $ % & ' - \ ^ _ ` { } ~`  (for 'de' additionally `"`; 'ru' as 'en');
    `activeChars T st0 = []`.
  * `initParser T 1000 o st0 = .ok ((), st1)` with `st1.langStack = [("en", "en")]`,
    `st1.diags = []`, and `"Hello, world (1 + 2)!\n\nNext."` is inert w.r.t. `st1`;
    `tex2txt T 1000 "Hello, world (1 + 2)!\n\nNext." o false 3 []` returns that text,
    positions `[1, …, 28]`, no unknowns, no diagnostics  (`initParser` needs more than 31 units).
  * `inertText T st0 "don't - well-known `x'" = true`, `inertText T st0 "a--b" = false`;
    for 'de': `inertText … "Er sagte \"hallo\" und 3\" x\"" = true`, and
    `"… \"Tsch\"u\" …"` is not inert (it yields `Tschü`).
  * the fuel bound is tight: `parserWork T 5 "abcd" st0 = outOfFuel`, `parserWork T 6 "abcd" st0 = ok`.
-/

end PlainExample

end Yalafi
