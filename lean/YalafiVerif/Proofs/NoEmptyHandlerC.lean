/-
  Proofs/NoEmptyHandlerC.lean — NoEmpty bundle: one lemma per handler of `callHandler`, part C
  (package cleveref: `crefWarn`, `readSed`, `cref`, `crefrange`).
-/
import YalafiVerif.Proofs.NoEmptyBase1
import YalafiVerif.Proofs.NoEmptyBase2
namespace Yalafi
namespace NoEmpty
open M

set_option linter.unusedVariables false

variable {T : PTables}

/-! ### helpers -/

private theorem HRes_of_ANE {n : Nat} {h : Handler} {r : List Tok} (hr : ANE T n r) : HRes T n h r := by
  refine ⟨fun _ => hr, ?_⟩
  cases r with
  | nil => trivial
  | cons t ts => exact ⟨(hr t (by simp)).1, fun x hx => hr x (by simp [hx])⟩

private theorem hc_argBind {β} (args : List (List Tok)) (k : Nat) (f : List Tok → M β) (st : PState)
    (R : β → PState → Prop)
    (h : ∀ a ∈ args, args[k]? = some a → Post' (f a st) R) :
    Post' (((match args[k]? with
            | some a => pure a
            | none => M.crash "handler:args[k]" : M (List Tok)) >>= f) st) R := by
  apply Post'_bind _ _ _ (fun a s => s = st ∧ a ∈ args ∧ args[k]? = some a)
  · cases he : args[k]? with
    | none => exact Post'_crash _ _ _ (by decide)
    | some a => exact Post'_pure _ _ _ ⟨rfl, List.mem_of_getElem? he, rfl⟩
  · rintro a s ⟨rfl, ha, he⟩
    exact h a ha he

private theorem hc_getBind {β} (f : PState → M β) (st : PState) (R : β → PState → Prop)
    (h : Post' (f st st) R) : Post' ((M.get >>= f) st) R := by
  apply Post'_bind _ _ _ (fun a s => a = st ∧ s = st) _ (Post'_get _ _ ⟨rfl, rfl⟩)
  rintro a s ⟨rfl, rfl⟩
  exact h

private theorem hc_text {fuel : Nat} (IH : AllSpecs T fuel) {st0 s : PState} (h0 : Fr T st0 s) (toks : List Tok)
    (hb : ANE T st0.latex.length toks) :
    Post' (getTextExpanded T fuel toks s) (fun _ s' => Fr T st0 s') := by
  apply Post'_mono _ _ _ (IH.text toks s h0.1 (Buf3_of_ANE (by rw [h0.len]; exact hb)))
  intro _ s' h1
  exact h0.trans h1

private theorem hc_latexError {st0 s : PState} (h0 : Fr T st0 s) (err : Str) (pos : Nat)
    (hp : pos < st0.latex.length) (h : Handler) :
    Post' (latexError T.toTables err pos s) (fun r s' => Fr T st0 s' ∧ HRes T st0.latex.length h r) := by
  apply Post'_mono _ _ _ (latexError_spec err pos s h0.1)
  intro r s' ⟨h1, _, h3⟩
  exact ⟨h0.trans h1, HRes_of_ANE (by rw [← h0.len]; exact h3 (by rw [h0.len]; exact hp))⟩

private theorem NE_restamp {n p : Nat} {t : Tok} (h : NE0 T t) (hp : p < n) :
    NE T n { t with pos := p, fix := true } := by
  obtain ⟨h1, h2, h3⟩ := h
  refine ⟨⟨hp, ?_, ?_, ?_⟩, h1, ?_, ?_⟩
  · intro _ hf; cases hf
  · exact h2
  · simpa [ctlEmpty] using h3
  · exact h2
  · simpa [ctlEmpty] using h3

/-! ### `crefToks`, `readSedText` -/

private theorem crefToks_spec (hw : T.WFInv) {st0 s : PState} (h0 : Fr T st0 s) (str : Str) (pos : Nat)
    (hp : pos < st0.latex.length) (h : Handler) :
    Post' (crefToks T str pos s) (fun r s' => Fr T st0 s' ∧ HRes T st0.latex.length h r) := by
  unfold crefToks
  apply Post'_bind _ _ _ (fun _ s' => Fr T st0 s')
  · exact Post'_modify _ _ _ ⟨StOk_congr h0.1 rfl rfl rfl, h0.2⟩
  · intro _ s' hs'
    refine Post'_pure _ _ _ ⟨hs', HRes_of_ANE ?_⟩
    intro x hx
    obtain ⟨t, ht, rfl⟩ := List.mem_map.1 hx
    exact NE_restamp (ANE_ANE0 (scan_ANE hw str) t ht) hp

private theorem defineSedMacro_spec (hw : T.WFInv) (m : Cleveref.SedMacro) (st : PState) (hs : StOk T st) :
    Post' (defineSedMacro T m st) (fun _ st' => Fr T st st') := by
  unfold defineSedMacro
  apply Post'_bind _ _ _ (fun _ s' => Fr T st s')
  · exact Post'_modify _ _ _ ⟨StOk_congr hs rfl rfl rfl, rfl⟩
  · intro _ s hfr
    generalize List.find? _ (scan T.toTables m.repl).toks = o
    cases o with
    | some bad => exact Post'_fatal _ _ _
    | none =>
      dsimp only
      refine Post'_modify _ _ _ ⟨StOk_setMacro s _ hfr.1 ⟨?_, ?_, ?_⟩ rfl, hfr.2⟩
      · exact ANE_ANE0 (scan_ANE hw m.repl)
      · intro d hd; cases hd
      · exact ANE0_nil

private theorem forM_sed_spec (hw : T.WFInv) (ms : List Cleveref.SedMacro) (st0 st : PState) (hs : Fr T st0 st) :
    Post' (ms.forM (defineSedMacro T) st) (fun _ s => Fr T st0 s) := by
  induction ms generalizing st with
  | nil => exact Post'_pure (α := PUnit) _ _ _ hs
  | cons m rest ih =>
    apply Post'_bind (β := PUnit) _ (fun _ => rest.forM _) _ (Q := fun _ s => Fr T st0 s)
    · exact Post'_mono _ _ _ (defineSedMacro_spec hw m st hs.1) (fun _ s h => hs.trans h)
    · intro _ s h
      exact ih s h

private theorem crefMacros_ok (ls : List Cleveref.SedLine) :
    ∀ m ∈ crefMacros ls, MacOk T m ∧ isFront m.handler = false := by
  intro m hm
  simp only [crefMacros, List.mem_cons, List.not_mem_nil, or_false] at hm
  rcases hm with rfl | rfl | rfl | rfl <;>
    exact ⟨⟨ANE0_nil, fun d hd => (by cases hd), ANE0_nil⟩, rfl⟩

private theorem readSedText_spec (hw : T.WFInv) (sed : Str) (st : PState) (hs : StOk T st) :
    Post' (readSedText T sed st) (fun _ st' => Fr T st st') := by
  unfold readSedText
  apply Post'_bind _ _ _ (fun _ s => Fr T st s)
  · exact forM_sed_spec hw _ st st (Fr.refl hs)
  · intro _ s hfr
    refine Post'_modify _ _ _ ⟨⟨?_, hfr.1.envs, hfr.1.gloss⟩, hfr.2⟩
    intro m hm
    rcases foldl_setMacro_mem _ _ m hm with h | h
    · exact hfr.1.macros m h
    · exact crefMacros_ok _ m h

/-! ### the handlers -/

theorem handler_crefWarn (hne : tblOkB T = true) (hw : T.WFInv) (fuel : Nat) (IH : AllSpecs T fuel)
    (buf : Buf) (mac : MacroDef) (args : List (List Tok)) (pos : Nat) (st : PState) (hs : StOk T st)
    (ha : ∀ a ∈ args, ANE T st.latex.length a) (hp : pos < st.latex.length) :
    Post' (callHandler T (fuel + 1) .crefWarn buf mac args pos st)
      (fun r st' => Fr T st st' ∧ HRes T st.latex.length .crefWarn r) := by
  simp only [callHandler]
  exact hc_latexError (Fr.refl hs) _ _ hp _

theorem handler_readSed (hne : tblOkB T = true) (hw : T.WFInv) (fuel : Nat) (IH : AllSpecs T fuel)
    (buf : Buf) (mac : MacroDef) (args : List (List Tok)) (pos : Nat) (st : PState) (hs : StOk T st)
    (ha : ∀ a ∈ args, ANE T st.latex.length a) (hp : pos < st.latex.length) :
    Post' (callHandler T (fuel + 1) .readSed buf mac args pos st)
      (fun r st' => Fr T st st' ∧ HRes T st.latex.length .readSed r) := by
  simp only [callHandler]
  refine hc_getBind _ st _ ?_
  split
  · exact Post'_pure _ _ _ ⟨Fr.refl hs, HRes_of_ANE (ANE_nil _)⟩
  · refine hc_argBind args 0 _ st _ (fun a0 h0 _ => ?_)
    refine Post'_bind _ _ _ _ _ (hc_text IH (Fr.refl hs) a0 (ha a0 h0)) (fun file s hfr => ?_)
    refine hc_getBind _ s _ ?_
    cases hf : List.find? (fun x => x.fst == file) s.fs with
    | none => exact hc_latexError hfr _ _ hp _
    | some f =>
      dsimp only
      refine Post'_bind _ _ _ (fun _ s' => Fr T st s') _ ?_ ?_
      · exact Post'_mono _ _ _ (readSedText_spec hw f.2 s hfr.1) (fun _ s' h => hfr.trans h)
      · intro _ s' h
        exact Post'_pure _ _ _ ⟨h, HRes_of_ANE (ANE_nil _)⟩

theorem handler_cref (plain star : List (Str × Str)) (hne : tblOkB T = true) (hw : T.WFInv) (fuel : Nat)
    (IH : AllSpecs T fuel)
    (buf : Buf) (mac : MacroDef) (args : List (List Tok)) (pos : Nat) (st : PState) (hs : StOk T st)
    (ha : ∀ a ∈ args, ANE T st.latex.length a) (hp : pos < st.latex.length) :
    Post' (callHandler T (fuel + 1) (.cref plain star) buf mac args pos st)
      (fun r st' => Fr T st st' ∧ HRes T st.latex.length (.cref plain star) r) := by
  simp only [callHandler]
  refine hc_argBind args 0 _ st _ (fun a0 h0 _ => ?_)
  refine hc_argBind args 1 _ st _ (fun a1 h1 _ => ?_)
  generalize Cleveref.lookupLast _ (getTextDirect a1) = o
  cases o with
  | some str => exact crefToks_spec hw (Fr.refl hs) _ _ hp _
  | none => exact hc_latexError (Fr.refl hs) _ _ hp _

theorem handler_crefrange (plain star : List ((Str × Str) × Str)) (hne : tblOkB T = true) (hw : T.WFInv)
    (fuel : Nat) (IH : AllSpecs T fuel)
    (buf : Buf) (mac : MacroDef) (args : List (List Tok)) (pos : Nat) (st : PState) (hs : StOk T st)
    (ha : ∀ a ∈ args, ANE T st.latex.length a) (hp : pos < st.latex.length) :
    Post' (callHandler T (fuel + 1) (.crefrange plain star) buf mac args pos st)
      (fun r st' => Fr T st st' ∧ HRes T st.latex.length (.crefrange plain star) r) := by
  simp only [callHandler]
  refine hc_argBind args 0 _ st _ (fun a0 h0 _ => ?_)
  refine hc_argBind args 1 _ st _ (fun a1 h1 _ => ?_)
  refine hc_argBind args 2 _ st _ (fun a2 h2 _ => ?_)
  generalize Cleveref.lookupLast _ (getTextDirect a1, getTextDirect a2) = o
  cases o with
  | some str => exact crefToks_spec hw (Fr.refl hs) _ _ hp _
  | none => exact hc_latexError (Fr.refl hs) _ _ hp _

end NoEmpty
end Yalafi
