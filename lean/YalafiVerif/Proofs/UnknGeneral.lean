/-
  Proofs/UnknGeneral.lean — C19 on `tex2txt` for EVERY source text: the option `--unkn` changes nothing in the run of
  the filter (`initParser` and `parse` do not look at it); it only replaces the returned text by the collected list
  of unknown names, one per line, in the order of `Parser.get_unknowns()` (= order of first use), and the position list
  by as many copies of the dummy number (0 in Python, the `+ 1` of the one-based output applied).  So everything the
  end-to-end theorems state about `r.unknowns` (proved with `unkn = false`) is a statement about the OUTPUT of `--unkn`.
-/
import YalafiVerif.Model.Tex2txt
namespace Yalafi

/-- the text printed by `--unkn`: each name followed by a line break … (Python: `'\n'.join(unknowns) + '\n'`) -/
def unknText (names : List Str) : Str := strJoin [nl] names ++ [nl]

theorem tex2txt_unkn_commutes (T : PTables) (fuel : Nat) (latex : Str) (o : Options) (thresh : Nat) (fs : FS)
    (r0 : T2TResult)
    (h0 : tex2txt T fuel latex { o with unkn := false } false thresh fs = .ok r0) :
    tex2txt T fuel latex { o with unkn := true } false thresh fs =
      .ok { r0 with txt := unknText r0.unknowns, pos := List.replicate (unknText r0.unknowns).length 1 } := by
  unfold tex2txt at h0 ⊢
  have hinit : initParser T fuel { o with unkn := true } = initParser T fuel { o with unkn := false } := rfl
  have hst : initialState T { o with unkn := true } false fs = initialState T { o with unkn := false } false fs := rfl
  simp only [hinit, hst] at h0 ⊢
  generalize hrun : (do initParser T fuel { o with unkn := false }
                        parse T fuel latex o.defs
                          (if o.extr.isEmpty then [] else (splitOn ',' o.extr []).map (fun s => '\\' :: s)) : M (List Tok))
      (initialState T { o with unkn := false } false fs) = res at h0 ⊢
  cases res with
  | fatal m => simp at h0
  | crash c => simp at h0
  | outOfFuel => simp at h0
  | ok p =>
    obtain ⟨toks, st⟩ := p
    simp only [Bool.not_false, if_true, Bool.false_eq_true, if_false] at h0 ⊢
    injection h0 with h0
    subst h0
    simp [unknText, List.map_replicate]

/-- the converse direction of use: whatever run produced a result with `--unkn`, its text is the list of its unknowns -/
theorem tex2txt_unkn_output (T : PTables) (fuel : Nat) (latex : Str) (o : Options) (thresh : Nat) (fs : FS)
    (r : T2TResult) (hu : o.unkn = true)
    (h : tex2txt T fuel latex o false thresh fs = .ok r) :
    r.txt = unknText r.unknowns ∧ r.pos = List.replicate r.txt.length 1 := by
  unfold tex2txt at h
  dsimp only at h
  generalize (if o.extr.isEmpty then ([] : List Str) else (splitOn ',' o.extr []).map (fun s => '\\' :: s)) = ex at h
  generalize hrun : (do initParser T fuel o
                        parse T fuel latex o.defs ex : M (List Tok)) (initialState T o false fs) = res at h
  cases res with
  | fatal m => simp at h
  | crash c => simp at h
  | outOfFuel => simp at h
  | ok p =>
    obtain ⟨toks, st⟩ := p
    simp only [Bool.not_false, if_true, hu] at h
    injection h with h
    subst h
    simp [unknText, List.map_replicate]

end Yalafi
