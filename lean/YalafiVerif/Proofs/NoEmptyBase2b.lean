/-
  Proofs/NoEmptyBase2b.lean — proofs of four leaf lemmas of NoEmptyBase2 (scanner, skip pre-pass,
  maths replacement, extraction macros).
-/
import YalafiVerif.Proofs.NoEmptyDefs
import YalafiVerif.Proofs.NoEmptyBase1
import YalafiVerif.Proofs.Inv.Basic
namespace Yalafi
namespace NoEmpty

variable {T : PTables}

/-! ### scanner -/

/-- text tokens of a scanner step are not empty -/
private def TN (s : ScanStep) : Prop :=
  (s.tok.kind = .text → s.tok.txt ≠ []) ∧ ∀ t ∈ s.extra, t.txt ≠ []

private theorem TN_simple (s : ScanStep) (h1 : s.tok.kind ≠ .text) (h2 : s.extra = []) : TN s :=
  ⟨fun h => absurd h h1, by rw [h2]; intro t ht; cases ht⟩

/-- local copy of `latexErrorToks_ANE` (NoEmptyBase1), so that this file does not depend on its proof -/
private theorem errToks_ANE (e : Str) (pos n : Nat) (h : pos < n) :
    ANE T n (latexErrorToks T.toTables e pos n) := by
  have hl : 2 ≤ (errMark T.toTables e).length := by simp [errMark]; omega
  unfold latexErrorToks
  simp only []
  split
  · rename_i hlt
    intro t ht
    simp only [List.mem_cons, List.not_mem_nil, or_false] at ht
    rcases ht with rfl | rfl
    · refine ⟨⟨h, by simp, by simp, rfl⟩, ?_, by simp, rfl⟩
      intro _ hnil
      have := congrArg List.length hnil
      simp only [List.length_take, List.length_nil] at this
      omega
    · refine ⟨⟨?_, by simp, by simp, rfl⟩, ?_, by simp, rfl⟩
      · show pos + min _ _ - 1 < n
        omega
      · intro _ hnil
        have := congrArg List.length hnil
        simp only [List.length_drop, List.length_nil] at this
        omega
  · intro t ht
    simp only [List.mem_cons, List.not_mem_nil, or_false] at ht
    subst ht
    refine ⟨⟨h, by simp, by simp, rfl⟩, ?_, by simp, rfl⟩
    intro _ hnil
    have := congrArg List.length hnil
    simp only [List.length_take, List.length_nil] at this
    omega

private theorem TN_err (e : Str) (p n k : Nat) (d : Option Diag) (hp : p < n) :
    TN { tok := (latexErrorToks T.toTables e p n).headD default, len := k, diag := d,
         extra := (latexErrorToks T.toTables e p n).tail } := by
  have h := errToks_ANE (T := T) e p n hp
  have hc := ScannerAux.latexErrorToks_cons T.toTables e p n
  have hk := ScannerAux.latexErrorToks_all T.toTables e p n
  constructor
  · intro hkd
    have hm : (latexErrorToks T.toTables e p n).headD default ∈ latexErrorToks T.toTables e p n := by
      rw [← hc]; simp
    exact (h _ hm).2.1 hkd
  · intro t ht
    have hm : t ∈ latexErrorToks T.toTables e p n := List.mem_of_mem_tail ht
    exact (h _ hm).2.1 (hk t hm).2.1

private theorem scanVerb_TN (src : Str) (start : Nat) (rest : Str) (hp : start < src.length) :
    TN (scanVerb T.toTables src start rest) := by
  unfold scanVerb
  simp only []
  split
  · exact TN_err _ _ _ _ _ hp
  · split
    · exact TN_err _ _ _ _ _ hp
    · split
      · exact TN_err _ _ _ _ _ hp
      · exact TN_simple _ (by simp) rfl

private theorem scanVerbatim_TN (src : Str) (start : Nat) (rest : Str) (hp : start < src.length) :
    TN (scanVerbatim T.toTables src start rest) := by
  unfold scanVerbatim
  simp only []
  split
  · exact TN_simple _ (by simp) rfl
  · split
    · exact TN_err _ _ _ _ _ hp
    · exact TN_simple _ (by simp) rfl

private theorem scanMacro_TN (src : Str) (start : Nat) (rest : Str) (hp : start < src.length) :
    TN (scanMacro T.toTables src start rest) := by
  unfold scanMacro
  simp only []
  split
  · exact scanVerbatim_TN _ _ _ hp
  · split
    · exact TN_simple _ (by simp) rfl
    · split
      · exact TN_simple _ (by simp) rfl
      · split
        · exact scanVerb_TN _ _ _ hp
        · split
          · exact TN_simple _ (by simp) rfl
          · exact TN_simple _ (by simp) rfl

private theorem nextToken_TN (src : Str) (start : Nat) (rest : Str) (hr : rest ≠ [])
    (hp : start < src.length) : TN (nextToken T.toTables src start rest) := by
  unfold nextToken
  split
  · exact absurd rfl hr
  · split
    · refine TN_simple _ ?_ rfl
      simp only [scanSpace]; split <;> simp
    · split
      · exact TN_simple _ (by simp [scanComment]) rfl
      · split
        · unfold scanArgToken
          split
          · exact TN_simple _ (by simp) rfl
          · split
            · exact TN_simple _ (by simp) rfl
            · exact TN_simple _ (by simp) rfl
        · split
          · exact TN_simple _ (by simp) rfl
          · split
            · exact scanMacro_TN _ _ _ hp
            · exact ⟨fun _ => by simp, fun t ht => by cases ht⟩

theorem scan_ANE_b (hw : T.WFInv) (src : Str) : ANE T src.length (scan T.toTables src).toks := by
  intro t ht
  have hb := scan_BL T hw src t ht
  obtain ⟨⟨hpos, hext, hctl, hmb⟩, _⟩ := hb
  have hMB : MB T t := by
    refine ⟨?_, hctl⟩
    intro r hk
    unfold mbOk at hmb
    rw [hk] at hmb
    simpa using hmb
  have hW : W T src.length t := by
    refine ⟨hpos, fun hk hf => ?_, hMB⟩
    have := hext hf
    simp only [extent, hk] at this
    omega
  refine ⟨hW, ?_, hMB⟩
  obtain ⟨p, r, hr, hd, hl, h⟩ := ScannerAux.scan_steps T.toTables hw.scan src t ht
  have hrl : 1 ≤ r.length := by
    cases r with
    | nil => exact absurd rfl hr
    | cons => simp
  have htn := nextToken_TN (T := T) src p r hr (by omega)
  rcases h with rfl | hx
  · exact htn.1
  · intro _; exact htn.2 t hx

/-! ### maths replacement -/

private def ItemNC : SecItem → Prop
  | .tok t => noCall t = true
  | .part _ => True

private theorem detect_NC : ∀ (ts cur : List Tok), ANC ts → ∀ it ∈ detectMathParts ts cur, ItemNC it := by
  intro ts
  induction ts with
  | nil =>
    intro cur _ it hit
    simp only [detectMathParts] at hit
    split at hit
    · simp at hit
    · simp at hit; subst hit; trivial
  | cons t ts ih =>
    intro cur hts it hit
    have ht := hts t (by simp)
    have hts' : ANC ts := fun u hu => hts u (by simp [hu])
    simp only [detectMathParts] at hit
    split at hit
    · exact ih (t :: cur) hts' it hit
    · simp only [List.mem_append, List.mem_cons] at hit
      rcases hit with hit | rfl | hit
      · split at hit
        · simp at hit
        · simp at hit; subst hit; trivial
      · exact ht
      · exact ih [] hts' it hit

private theorem ANC_snoc (a : List Tok) (t : Tok) (ha : ANC a) (ht : noCall t = true) : ANC (a ++ [t]) := by
  intro u hu; simp at hu; rcases hu with hu | rfl; exact ha u hu; exact ht
private theorem noCall_mathSp (p : Nat) : noCall (mathSp p) = true := rfl
private theorem noCall_fixText (p : Nat) (txt : Str) : noCall (mkFix .text p txt) = true := rfl

private theorem replaceStep_ANC (opText : List (Str × Str)) (opDefault : Option Str) (inline : Bool)
    (s s' : RsState) (it : SecItem) (hs : ANC s.out) (hi : ItemNC it)
    (h : replaceStep T opText opDefault inline s it = some s') : ANC s'.out := by
  cases it with
  | tok t =>
    simp only [replaceStep, Option.some.injEq] at h
    subst h
    split <;> exact ANC_snoc _ _ hs hi
  | part ts =>
    simp only [replaceStep] at h
    split at h
    · rename_i t0 tl h0 hl
      have hout1 : ANC (if (t0.kind == Kind.mathSpace) = true then s.out ++ [mathSp t0.pos] else s.out) := by
        split
        · exact ANC_snoc _ _ hs (noCall_mathSp _)
        · exact hs
      split at h
      · simp only [Option.some.injEq] at h; subst h
        exact ANC_snoc _ _ hs (noCall_mathSp _)
      · split at h
        · exact absurd h (by simp)
        · rename_i out2 h2
          have hout2 : ANC out2 := by
            split at h2
            · split at h2
              · split at h2
                · exact absurd h2 (by simp)
                · simp only [Option.some.injEq] at h2; subst h2
                  rw [show ∀ (a : List Tok) x y z, a ++ [x, y, z] = a ++ [x] ++ [y] ++ [z] by simp]
                  exact ANC_snoc _ _ (ANC_snoc _ _ (ANC_snoc _ _ hout1 (noCall_mathSp _))
                    (noCall_fixText _ _)) (noCall_mathSp _)
              · simp only [Option.some.injEq] at h2; subst h2; exact hout1
            · simp only [Option.some.injEq] at h2; subst h2; exact hout1
          split at h
          · exact absurd h (by simp)
          · simp only [Option.some.injEq] at h; subst h
            simp only
            repeat' (first | assumption | with_reducible apply ANC_snoc | with_reducible apply noCall_mathSp | with_reducible apply noCall_fixText | split)
    · exact absurd h (by simp)

private theorem foldlM_replaceStep_ANC (opText : List (Str × Str)) (opDefault : Option Str) (inline : Bool) :
    ∀ (items : List SecItem) (s s' : RsState), ANC s.out → (∀ it ∈ items, ItemNC it) →
    items.foldlM (replaceStep T opText opDefault inline) s = some s' → ANC s'.out := by
  intro items
  induction items with
  | nil => intro s s' hs _ h; simp at h; subst h; exact hs
  | cons it items ih =>
    intro s s' hs hi h
    simp only [List.foldlM_cons, Option.bind_eq_bind, Option.bind_eq_some_iff] at h
    obtain ⟨s1, h1, h2⟩ := h
    exact ih s1 s' (replaceStep_ANC _ _ _ s s1 it hs (hi it (by simp)) h1) (fun j hj => hi j (by simp [hj])) h2

theorem replaceSection_ANC_b (opText : List (Str × Str)) (opDefault : Option Str) (inline : Bool)
    (secOut : List Tok) (first next : Bool) (repls : List Str) (rs : RsState) (h : ANC secOut)
    (hr : replaceSection T opText opDefault inline (detectMathParts secOut []) first next repls = some rs) :
    ANC rs.out := by
  unfold replaceSection at hr
  exact foldlM_replaceStep_ANC _ _ _ _ _ rs ANC_nil (detect_NC secOut [] h) hr

/-! ### skip pre-pass -/

theorem skipPass_spec_b (n : Nat) (st : PState) (fuel : Nat) (toks out : List Tok)
    (ht : ANE T n toks) (ho : ANE T n out) :
    ANE T n (skipPass st fuel toks out).1 ∧ ANE T n (skipPass st fuel toks out).2.2 ∧
    (∀ p, (skipPass st fuel toks out).2.1 = some p → p < n) := by
  induction fuel generalizing toks out with
  | zero => exact ⟨ho, ANE_nil n, fun p h => by simp [skipPass] at h⟩
  | succ fuel ih =>
    simp only [skipPass]
    have hpre : ∀ f : Tok → Bool, ANE T n (out ++ toks.takeWhile f) := fun f =>
      (ANE_append n _ _).2 ⟨ho, ANE_sublist (List.takeWhile_sublist _) ht⟩
    split
    · exact ⟨hpre _, ANE_nil n, fun p h => by simp at h⟩
    · rename_i b after heq
      have hba : ANE T n (b :: after) := by
        rw [← heq]; exact ANE_sublist (List.drop_sublist _ _) ht
      rw [ANE_cons] at hba
      split
      · refine ⟨hpre _, hba.2, fun p h => ?_⟩
        simp only [Option.some.injEq] at h
        subst h; exact hba.1.1.1
      · rename_i e rest heq2
        refine ih rest _ ?_ (hpre _)
        have : ANE T n (e :: rest) := by
          rw [← heq2]; exact ANE_sublist (List.drop_sublist _ _) hba.2
        exact ((ANE_cons n _ _).1 this).2

/-! ### extraction macros -/

theorem initExtractions_StOk_b (hw : T.WFInv) (st : PState) (extracts : List Str) (hs : StOk T st) :
    StOk T (initExtractions T st extracts) := by
  refine ⟨?_, hs.envs, hs.gloss⟩
  intro m hm
  simp only [initExtractions, List.mem_append, List.mem_map] at hm
  rcases hm with ⟨m0, hm0, rfl⟩ | ⟨nm, _, rfl⟩
  · have h0 := (hs.macros m0 hm0).1
    split
    · refine ⟨⟨ANE0_nil, h0.defaults, ?_⟩, rfl⟩
      show ANE0 T (if _ then _ else _)
      split
      · exact ANE_ANE0 (scan_ANE_b hw _)
      · exact ANE0_nil
    · exact ⟨⟨ANE0_nil, h0.defaults, ANE0_nil⟩, rfl⟩
  · refine ⟨⟨ANE0_nil, ?_, ANE_ANE0 (scan_ANE_b hw _)⟩, rfl⟩
    intro d hd; cases hd

end NoEmpty
end Yalafi
