/-
  Proofs/NoEmptyBase2.lean — leaf lemmas for the NoEmpty bundle, part 2: scanner, blank-line removal,
  skip pre-pass, `cap_first` / `cap_all`, small handlers, maths replacement, state updates.
-/
import YalafiVerif.Proofs.NoEmptyDefs
import YalafiVerif.Proofs.NoEmptyBase2b
import YalafiVerif.Proofs.Inv.Basic
namespace Yalafi
namespace NoEmpty

variable {T : PTables}

/-! ### scanner -/

/-- every scanner token is in range, a text token of the scanner is never empty, the scanner
    creates no `MathBeginToken` -/
theorem scan_ANE (hw : T.WFInv) (src : Str) : ANE T src.length (scan T.toTables src).toks := by
  exact scan_ANE_b hw src

/-! ### blank-line removal keeps the token classes -/

private theorem ctlEmpty_retxt (t : Tok) (f : Str → Str) (hf : f [] = []) (h : ctlEmpty t = true) :
    ctlEmpty { t with txt := f t.txt } = true := by
  unfold ctlEmpty at h ⊢
  cases hk : t.kind <;> simp_all [List.isEmpty_iff]

private theorem noCall_trimFirst (t : Tok) (h : noCall t = true) : noCall (trimFirst t) = true := by
  unfold noCall at h ⊢
  simp only [Bool.and_eq_true] at h ⊢
  refine ⟨h.1, ?_⟩
  exact ctlEmpty_retxt t (fun s => if hasNl s then uptoLastNl s else []) (by simp [hasNl]) h.2

private theorem noCall_trimLast (t : Tok) (h : noCall t = true) : noCall (trimLast t) = true := by
  unfold noCall at h ⊢
  simp only [Bool.and_eq_true] at h ⊢
  refine ⟨h.1, ?_⟩
  have := ctlEmpty_retxt t (fun s => if hasNl s then afterFirstNl s else []) (by simp [hasNl]) h.2
  unfold ctlEmpty at this ⊢
  exact this

private theorem noCall_sentinel (p : Nat) : noCall (sentinel p) = true := by
  simp [noCall, sentinel, ctlEmpty]

theorem removeLines_ANC (ts out : List Tok) (h : ANC ts) (hr : removeLines ts = some out) : ANC out := by
  obtain ⟨r, hrel, rfl⟩ := removeLines_rel ts out hr
  intro t ht
  simp only [List.mem_filter] at ht
  refine LinesRel_pred (fun t => noCall t = true) noCall_trimFirst noCall_trimLast
    (fun t _ => noCall_sentinel t.pos) _ r hrel ?_ t ht.1
  intro i hi
  simp only [linesInit, List.mem_cons, List.mem_append, List.mem_map, List.mem_filter,
    List.not_mem_nil, or_false] at hi
  rcases hi with (rfl | ⟨u, hu, rfl⟩) | rfl
  · exact noCall_sentinel 0
  · rw [evalTok_tok]; exact h u hu.1
  · exact noCall_sentinel _

/-! ### skip pre-pass -/

theorem skipPass_spec (n : Nat) (st : PState) (fuel : Nat) (toks out : List Tok)
    (ht : ANE T n toks) (ho : ANE T n out) :
    ANE T n (skipPass st fuel toks out).1 ∧ ANE T n (skipPass st fuel toks out).2.2 ∧
    (∀ p, (skipPass st fuel toks out).2.1 = some p → p < n) := by
  exact skipPass_spec_b n st fuel toks out ht ho

/-! ### glossaries: `cap_first`, `cap_all` -/

theorem upper_ne (hne : tblOkB T = true) (c : Char) : T.toTables.upper c ≠ [] := by
  simp only [tblOkB, Bool.and_eq_true, List.all_eq_true] at hne
  unfold Tables.upper
  split
  · next e he =>
    have := hne.2 e (List.mem_of_find?_eq_some he)
    intro h; rw [h] at this; simp at this
  · simp

private theorem upperTok_NE0 (t : Tok) (txt : Str) (hk : t.kind = .text) (hx : txt ≠ []) :
    NE0 T (upperTok t txt) := by
  refine ⟨fun _ => hx, ?_⟩
  simp [MB, ctlEmpty, upperTok, hk]

private theorem upperTok_W (n : Nat) (t : Tok) (txt : Str) (hk : t.kind = .text) (hw : W T n t) :
    W T n (upperTok t txt) := by
  refine ⟨hw.1, ?_, ?_⟩
  · intro hv; simp [upperTok, hk] at hv
  · simp [MB, ctlEmpty, upperTok, hk]

private theorem capFirst_cases (ts : List Tok) :
    (capFirst T ts = some ts) ∨
    (∃ i t, ts[i]? = some t ∧ t.kind = .text ∧
      ((t.txt = [] ∧ capFirst T ts = none) ∨
       (∃ c cs, t.txt = c :: cs ∧ capFirst T ts = some (ts.set i (upperTok t (T.toTables.upper c)))))) := by
  unfold capFirst
  split
  · exact Or.inl rfl
  · next i hi =>
    split
    · exact Or.inl rfl
    · next t ht =>
      right
      have hk : t.kind = .text := by
        have h1 := List.findIdx?_eq_some_iff_getElem.1 hi
        obtain ⟨hlt, hp, _⟩ := h1
        have : ts[i] = t := by
          rw [List.getElem?_eq_getElem hlt] at ht; exact Option.some.inj ht
        rw [this] at hp; simpa using hp
      refine ⟨i, t, ht, hk, ?_⟩
      cases hx : t.txt with
      | nil => left; simp
      | cons c cs => right; exact ⟨c, cs, rfl, by simp⟩

theorem capFirst_some (ts : List Tok) (h : ANE0 T ts) : ∃ r, capFirst T ts = some r := by
  rcases capFirst_cases (T := T) ts with h1 | ⟨i, t, ht, hk, h2 | ⟨c, cs, _, h2⟩⟩
  · exact ⟨_, h1⟩
  · exact absurd h2.1 ((h t (List.mem_of_getElem? ht)).1 hk)
  · exact ⟨_, h2⟩

theorem capFirst_ANE0 (hne : tblOkB T = true) (ts r : List Tok) (h : ANE0 T ts) (hr : capFirst T ts = some r) :
    ANE0 T r := by
  rcases capFirst_cases (T := T) ts with h1 | ⟨i, t, ht, hk, h2 | ⟨c, cs, _, h2⟩⟩
  · rw [h1] at hr; cases hr; exact h
  · rw [h2.2] at hr; cases hr
  · rw [h2] at hr; cases hr
    intro x hx
    rcases List.mem_or_eq_of_mem_set hx with hx | rfl
    · exact h x hx
    · exact upperTok_NE0 t _ hk (upper_ne hne c)

theorem capFirst_ANE (hne : tblOkB T = true) (n : Nat) (ts r : List Tok) (h : ANE T n ts)
    (hr : capFirst T ts = some r) : ANE T n r := by
  rcases capFirst_cases (T := T) ts with h1 | ⟨i, t, ht, hk, h2 | ⟨c, cs, _, h2⟩⟩
  · rw [h1] at hr; cases hr; exact h
  · rw [h2.2] at hr; cases hr
  · rw [h2] at hr; cases hr
    intro x hx
    rcases List.mem_or_eq_of_mem_set hx with hx | rfl
    · exact h x hx
    · exact ⟨upperTok_W n t _ hk (h t (List.mem_of_getElem? ht)).1, upperTok_NE0 t _ hk (upper_ne hne c)⟩

theorem capAll_ANE0 (hne : tblOkB T = true) (ts : List Tok) (h : ANE0 T ts) : ANE0 T (capAll T ts) := by
  intro x hx
  unfold capAll at hx
  obtain ⟨t, ht, rfl⟩ := List.mem_map.1 hx
  split
  · next hk =>
    have hk' : t.kind = .text := by simpa using hk
    refine upperTok_NE0 t _ hk' ?_
    have hnn := (h t ht).1 hk'
    cases hx : t.txt with
    | nil => exact absurd hx hnn
    | cons c cs =>
      simp only [List.flatMap_cons]
      intro he
      exact upper_ne hne c (List.append_eq_nil_iff.1 he).1
  · exact h t ht

/-! ### small handlers -/

private theorem ite_pr {α} (P : α → Prop) (c : Prop) [Decidable c] (a b : α) (ha : P a) (hb : P b) :
    P (if c then a else b) := by
  split <;> assumption

theorem substackLoop_ANE (n : Nat) (lev : Int) (ts : List Tok) (h : ANE T n ts) : ANE T n (substackLoop lev ts) := by
  induction ts generalizing lev with
  | nil => simp [substackLoop]
  | cons t ts ih =>
    rw [ANE_cons] at h
    simp only [substackLoop]
    rw [ANE_cons]
    refine ⟨?_, ih _ h.2⟩
    refine ite_pr (NE T n) _ _ _ ?_ h.1
    have := h.1.1.1
    simp [NE, W, NE0, MB, ctlEmpty, mkTok, this]

private theorem lastPos_lt' {n pos : Nat} {l : List Tok} (hl : ANE T n l) (hp : pos < n) :
    (Option.map (fun x => x.pos) l.getLast?).getD pos < n := by
  cases h : l.getLast? with
  | none => simpa using hp
  | some t => simpa using (hl t (List.mem_of_getLast? h)).1.1

private theorem NE_fixText (n p : Nat) (s : Str) (hp : p < n) (hs : s ≠ []) : NE T n (mkFix .text p s) := by
  simp [NE, W, NE0, MB, ctlEmpty, mkFix, hp, hs]

private theorem NE_fixSpace (n p : Nat) (s : Str) (hp : p < n) : NE T n (mkFix .space p s) := by
  simp [NE, W, NE0, MB, ctlEmpty, mkFix, hp]

private theorem NE_action (n p : Nat) (hp : p < n) : NE T n (mkAction p) := by
  simp [NE, W, NE0, MB, ctlEmpty, mkAction, hp]

private theorem bibCite_both (hne : tblOkB T = true) (n : Nat) (args : List (List Tok)) (pos : Nat) (o : List Tok)
    (ha : ∀ a ∈ args, ANE T n a) (hp : pos < n) (h : bibCite T args pos = some o) :
    ANE T n o ∧ (o.getLast?.map (·.pos)).getD pos < n := by
  have hct : T.citeText ≠ [] := by
    simp only [tblOkB, Bool.and_eq_true, List.all_eq_true] at hne
    have := hne.1.2
    intro he; rw [he] at this; simp at this
  unfold bibCite at h
  split at h
  · rename_i o1 o2 h1 h2
    have hA1 := ha o1 (List.mem_of_getElem? h1)
    have hA2 := ha o2 (List.mem_of_getElem? h2)
    extract_lets isVoid opt1 pre post out0 lastPos out1 out2 out3 at h
    have hopt1 : ANE T n opt1 := ite_pr (ANE T n) _ _ _ (ANE_nil n) hA1
    have hpre : ANE T n pre := ite_pr (ANE T n) _ _ _ (ANE_nil n) hopt1
    have hpost : ANE T n post := ite_pr (ANE T n) _ _ _ hopt1 (ite_pr (ANE T n) _ _ _ (ANE_nil n) hA2)
    have hout0 : ANE T n out0 := by simp [out0, NE_fixText, hp]
    have hlast : ∀ l, ANE T n l → lastPos l < n := fun l hl => lastPos_lt' hl hp
    have hout1 : ANE T n out1 := by
      apply ite_pr (ANE T n) _ _ _ hout0
      have := hlast (out0 ++ pre) ((ANE_append n _ _).mpr ⟨hout0, hpre⟩)
      simp [NE_fixSpace, hout0, hpre, this]
    have hout2 : ANE T n out2 := by
      simp [out2, NE_fixText, hct, hout1, hlast out1 hout1]
    have hout3 : ANE T n out3 := by
      apply ite_pr (ANE T n) _ _ _ hout2
      simp [NE_fixText, NE_fixSpace, hout2, hpost, hlast out2 hout2]
    cases h
    refine ⟨?_, ?_⟩
    · simp [NE_fixText, NE_action, hout3, hlast out3 hout3]
    · have := hlast out3 hout3
      simpa [List.getLast?_append, mkAction] using this
  · cases h

theorem bibCite_ANE (hne : tblOkB T = true) (n : Nat) (args : List (List Tok)) (pos : Nat) (o : List Tok)
    (ha : ∀ a ∈ args, ANE T n a) (hp : pos < n) (h : bibCite T args pos = some o) : ANE T n o :=
  (bibCite_both hne n args pos o ha hp h).1

private def AP (n : Nat) (l : List Tok) : Prop := ∀ t ∈ l, t.pos < n

private theorem AP_append (n : Nat) (a b : List Tok) : AP n (a ++ b) ↔ AP n a ∧ AP n b := by
  simp only [AP, List.mem_append]; constructor
  · intro h; exact ⟨fun t ht => h t (Or.inl ht), fun t ht => h t (Or.inr ht)⟩
  · rintro ⟨h1, h2⟩ t (ht | ht); exact h1 t ht; exact h2 t ht

private theorem AP_cons (n : Nat) (t : Tok) (l : List Tok) : AP n (t :: l) ↔ t.pos < n ∧ AP n l := by simp [AP]
private theorem AP_nil (n : Nat) : AP n [] := fun _ h => by cases h

private theorem lastPos_ltP {n pos : Nat} {l : List Tok} (hl : AP n l) (hp : pos < n) :
    (Option.map (fun x => x.pos) l.getLast?).getD pos < n := by
  cases h : l.getLast? with
  | none => simpa using hp
  | some t => simpa using hl t (List.mem_of_getLast? h)

theorem bibCite_lastPos (n : Nat) (args : List (List Tok)) (pos : Nat) (o : List Tok)
    (ha : ∀ a ∈ args, ANE T n a) (hp : pos < n) (h : bibCite T args pos = some o) :
    (o.getLast?.map (·.pos)).getD pos < n := by
  unfold bibCite at h
  split at h
  · rename_i o1 o2 h1 h2
    have hA1 : AP n o1 := fun t ht => (ha o1 (List.mem_of_getElem? h1) t ht).1.1
    have hA2 : AP n o2 := fun t ht => (ha o2 (List.mem_of_getElem? h2) t ht).1.1
    extract_lets isVoid opt1 pre post out0 lastPos out1 out2 out3 at h
    have hopt1 : AP n opt1 := ite_pr (AP n) _ _ _ (AP_nil n) hA1
    have hpre : AP n pre := ite_pr (AP n) _ _ _ (AP_nil n) hopt1
    have hpost : AP n post := ite_pr (AP n) _ _ _ hopt1 (ite_pr (AP n) _ _ _ (AP_nil n) hA2)
    have hout0 : AP n out0 := by simp [out0, AP_cons, AP_nil, mkFix, hp]
    have hlast : ∀ l, AP n l → lastPos l < n := fun l hl => lastPos_ltP hl hp
    have hout1 : AP n out1 := by
      apply ite_pr (AP n) _ _ _ hout0
      have := hlast (out0 ++ pre) ((AP_append n _ _).mpr ⟨hout0, hpre⟩)
      simp [AP_append, AP_cons, AP_nil, mkFix, hout0, hpre, this]
    have hout2 : AP n out2 := by
      simp [out2, AP_append, AP_cons, AP_nil, mkFix, hout1, hlast out1 hout1]
    have hout3 : AP n out3 := by
      apply ite_pr (AP n) _ _ _ hout2
      simp [AP_append, AP_cons, mkFix, hout2, hpost, hlast out2 hout2]
    cases h
    have := hlast out3 hout3
    simpa [List.getLast?_append, mkAction] using this
  · cases h

theorem filterSetToks_lang (n pos : Nat) (ts : List Tok) (hp : pos < n) (hc : ANC ts) :
    ANE T n (filterSetToks ts pos true) ∧ langOnly (filterSetToks ts pos true) := by
  have key : ∀ t ∈ filterSetToks ts pos true, NE T n t ∧ isLang t = true ∧ t.txt = [] := by
    intro t ht
    simp only [filterSetToks, List.mem_map, List.mem_filter] at ht
    obtain ⟨u, ⟨hu, hl⟩, rfl⟩ := ht
    have hl' : isLang u = true := by simpa using hl
    have hce := noCall_ctl (hc u hu)
    have htx : u.txt = [] := by
      unfold isLang at hl'; unfold ctlEmpty at hce
      split at hl' <;> simp_all
    unfold isLang at hl'
    split at hl'
    · rename_i hk
      simp [NE, W, NE0, MB, ctlEmpty, isLang, hk, hp, htx]
    · cases hl'
  exact ⟨fun t ht => (key t ht).1, fun t ht => (key t ht).2⟩

theorem filterSetToks_langOnly (n pos : Nat) (ts : List Tok) (hp : pos < n) (h : langOnly ts) :
    ANE T n (filterSetToks ts pos false) := by
  intro t ht
  simp only [filterSetToks, List.mem_map, List.mem_filter] at ht
  obtain ⟨u, ⟨hu, _⟩, rfl⟩ := ht
  obtain ⟨hl, htx⟩ := h u hu
  unfold isLang at hl
  split at hl
  · rename_i hk
    simp [NE, W, NE0, MB, ctlEmpty, hk, hp, htx]
  · cases hl

/-- re-stamping stored-quality tokens at a position inside the text (`filter_set_toks` without the
    language filter: the tokens injected by a package on loading) -/
theorem filterSetToks_false_ANE (n pos : Nat) (ts : List Tok) (hp : pos < n) (h : ANE0 T ts)
    (hv : ∀ t ∈ ts, t.kind ≠ .verb true) : ANE T n (filterSetToks ts pos false) := by
  intro t ht
  simp only [filterSetToks, List.mem_map, List.mem_filter] at ht
  obtain ⟨u, ⟨hu, _⟩, rfl⟩ := ht
  obtain ⟨h1, h2, h3⟩ := h u hu
  have hk := hv u hu
  refine ⟨⟨hp, fun hk' => absurd hk' hk, h2, ?_⟩, h1, h2, ?_⟩
  · simpa [ctlEmpty] using h3
  · simpa [ctlEmpty] using h3

/-! ### maths replacement: the output of `replace_section` contains no call token -/

theorem replaceSection_ANC (opText : List (Str × Str)) (opDefault : Option Str) (inline : Bool)
    (secOut : List Tok) (first next : Bool) (repls : List Str) (rs : RsState) (h : ANC secOut)
    (hr : replaceSection T opText opDefault inline (detectMathParts secOut []) first next repls = some rs) :
    ANC rs.out := by
  exact replaceSection_ANC_b opText opDefault inline secOut first next repls rs h hr

/-! ### state updates -/

theorem StOk_setMacro (st : PState) (m : MacroDef) (hs : StOk T st) (hm : MacOk T m) (hf : isFront m.handler = false) :
    StOk T { st with macros := setMacro st.macros m } := by
  refine ⟨fun x hx => ?_, hs.envs, hs.gloss⟩
  rcases setMacro_mem _ _ _ hx with h | rfl
  · exact hs.macros x h
  · exact ⟨hm, hf⟩

theorem StOk_setEnv (st : PState) (m : MacroDef) (hs : StOk T st) (hm : EnvOk T m) :
    StOk T { st with envs := setMacro st.envs m } := by
  refine ⟨hs.macros, fun x hx => ?_, hs.gloss⟩
  rcases setMacro_mem _ _ _ hx with h | rfl
  · exact hs.envs x h
  · exact hm

theorem StOk_setGloss (st : PState) (label : Str) (e : List (Str × Option (List Tok)))
    (hs : StOk T st) (he : ∀ kv ∈ e, ∀ ts, kv.2 = some ts → ANE0 T ts) :
    StOk T { st with glossary := setGloss st.glossary label e } := by
  refine ⟨hs.macros, hs.envs, ?_⟩
  intro x hx
  show ∀ kv ∈ x.2, ∀ ts, kv.2 = some ts → ANE0 T ts
  simp only [setGloss] at hx
  split at hx
  · simp only [List.mem_map] at hx
    obtain ⟨y, hy, rfl⟩ := hx
    split
    · exact he
    · exact hs.gloss y hy
  · simp only [List.mem_append, List.mem_cons, List.not_mem_nil, or_false] at hx
    rcases hx with h | rfl
    · exact hs.gloss x h
    · exact he

theorem initExtractions_StOk (hw : T.WFInv) (st : PState) (extracts : List Str) (hs : StOk T st) :
    StOk T (initExtractions T st extracts) := by
  exact initExtractions_StOk_b hw st extracts hs

theorem initialState_StOk (o : Options) (multi : Bool) (fs : FS) : StOk T (initialState T o multi fs) := by
  refine ⟨?_, ?_, ?_⟩
  · intro m hm; simp [initialState] at hm
  · intro m hm; simp [initialState] at hm
  · intro e he; simp [initialState] at he

/-! ### tables -/

private theorem tbl_mod (hne : tblOkB T = true) (md : ModuleDef) (h : md ∈ T.packageModules ++ T.classModules) :
    ModOk T md := by
  simp only [tblOkB, Bool.and_eq_true, List.all_eq_true] at hne
  have := hne.1.1.2 md h
  exact ⟨fun m hm => macroOkB_ok m (this.1 m hm), fun m hm => envOkB_ok m (this.2 m hm)⟩

private theorem findModule_memB {cls : Bool} {name : Str} {m : ModuleDef} (h : findModule T cls name = some m) :
    m ∈ T.packageModules ++ T.classModules := by
  unfold findModule at h
  split at h
  · cases h
  · have := List.mem_of_find?_eq_some h
    split at this
    · exact List.mem_append.2 (Or.inr this)
    · exact List.mem_append.2 (Or.inl this)

theorem findModule_ModOk (hne : tblOkB T = true) (cls : Bool) (name : Str) :
    ModOk T ((findModule T cls name).getD (emptyModule name)) := by
  cases h : findModule T cls name with
  | none => simp [emptyModule, ModOk]
  | some md => exact tbl_mod hne md (findModule_memB h)

theorem builtinModule_ModOk (hne : tblOkB T = true) (o : Options) : ModOk T (builtinModule T o) := by
  simp only [tblOkB, Bool.and_eq_true, List.all_eq_true] at hne
  refine ⟨fun m hm => macroOkB_ok m (hne.1.1.1.1 m ?_), fun m hm => envOkB_ok m (hne.1.1.1.2 m hm)⟩
  simp only [builtinModule, List.mem_append] at hm ⊢
  rcases hm with h | h
  · exact Or.inl h
  · split at h
    · exact Or.inr h
    · cases h

theorem getPackages_ModOk (hne : tblOkB T = true) (cls : Bool) (packs : Str) :
    ∀ nm ∈ getPackages T cls packs, ModOk T nm.2 := by
  intro nm hnm
  unfold getPackages at hnm
  split at hnm
  · cases hnm
  · simp only [List.mem_flatten, List.mem_map] at hnm
    obtain ⟨l, ⟨p, _, rfl⟩, hl⟩ := hnm
    split at hl
    · simp only [List.mem_map] at hl
      obtain ⟨m, _, rfl⟩ := hl
      exact findModule_ModOk hne cls m
    · simp only [List.mem_singleton] at hl
      subst hl
      exact findModule_ModOk hne cls p

end NoEmpty
end Yalafi
