/-
  Proofs/NoEmptyStepEnv.lean — step lemmas of the NoEmpty bundle for `beginEnvironment`,
  `endEnvironment`, `expandMacro`.
-/
import YalafiVerif.Proofs.NoEmptyBase1
import YalafiVerif.Proofs.NoEmptyBase2
set_option linter.unusedVariables false
namespace Yalafi
namespace NoEmpty
open M

variable {T : PTables}

/-! ### helpers (all `private`) -/

private theorem Post'_get_bind {β} (f : PState → M β) (st : PState) (R : β → PState → Prop)
    (h : Post' (f st st) R) : Post' ((M.get >>= f) st) R := by
  apply Post'_bind _ _ _ (Q := fun a s => st = a ∧ st = s)
  · exact Post'_get _ _ ⟨rfl, rfl⟩
  · rintro _ _ ⟨rfl, rfl⟩
    exact h

private theorem addUnknown_spec (name : Str) (math : Bool) (st : PState) (h : StOk T st) :
    Post' (addUnknown name math st) (fun _ s => Fr T st s) := by
  unfold addUnknown
  apply Post'_modify
  split
  · exact Fr.refl h
  · exact ⟨StOk_congr h rfl rfl rfl, rfl⟩

private theorem NE_mkAction (n p : Nat) (hp : p < n) : NE T n (mkAction p) := by
  simp [NE, W, NE0, MB, ctlEmpty, mkAction, hp]

private theorem NE_mkPar (n p : Nat) (hp : p < n) : NE T n (mkFix .par p [nl, nl]) := by
  simp [NE, W, NE0, MB, ctlEmpty, mkFix, hp]

private theorem Skip_mkAction (p : Nat) : Skip (mkAction p) := by
  simp [Skip, isSpaceTok, mkAction]

private theorem Skip_mkPar (p : Nat) : Skip (mkFix .par p [nl, nl]) := by
  simp [Skip, isSpaceTok, mkFix]

private theorem out0_skip (n : Nat) (b : Bool) (p : Nat) (hp : p < n) :
    ∀ t ∈ (if b = true then [mkFix Kind.par p [nl, nl]] else [mkAction p]), Skip t ∧ W T n t := by
  intro t ht
  split at ht
  · simp only [List.mem_singleton] at ht; subst ht
    exact ⟨Skip_mkPar p, (NE_mkPar n p hp).1⟩
  · simp only [List.mem_singleton] at ht; subst ht
    exact ⟨Skip_mkAction p, (NE_mkAction n p hp).1⟩

private theorem out0_ANE (n : Nat) (b : Bool) (p : Nat) (hp : p < n) :
    ANE T n (if b = true then [mkFix Kind.par p [nl, nl]] else [mkAction p]) := by
  split
  · exact (ANE_cons _ _ _).2 ⟨NE_mkPar n p hp, ANE_nil n⟩
  · exact (ANE_cons _ _ _).2 ⟨NE_mkAction n p hp, ANE_nil n⟩

private theorem out0_ANC (b : Bool) (p : Nat) :
    ANC (if b = true then [mkFix Kind.par p [nl, nl]] else [mkAction p]) := by
  split
  · exact (ANC_cons _ _).2 ⟨Skip_noCall (Skip_mkPar p) (by simp [ctlEmpty, mkFix]), ANC_nil⟩
  · exact (ANC_cons _ _).2 ⟨Skip_noCall (Skip_mkAction p) (by simp [ctlEmpty, mkAction]), ANC_nil⟩

private theorem NE_mathBegin (n p : Nat) (b : Bool) (name : Str) (hp : p < n)
    (hn : (endFuncNames T).contains name = false) :
    NE T n { kind := .mathBegin b, pos := p, txt := name } := by
  have hn' : name ∉ endFuncNames T := by simpa using hn
  simp [NE, W, NE0, MB, ctlEmpty, hp, hn']

private theorem envOk_equ (e : MacroDef) (h : envOk T e = true) (hq : e.isEqu = true) :
    (endFuncNames T).contains e.name = false := by
  simp [envOk, hq] at h
  simpa using h.1.1

private theorem envOk_endFunc (e : MacroDef) (h : envOk T e = true) (hn : (endFuncNames T).contains e.name = false) :
    e.endFunc = .none := by
  have hn' : e.name ∉ endFuncNames T := by simpa using hn
  simp [envOk, hn'] at h
  exact h.1

/-! ### `expand_macro` -/

theorem macro_step (hne : tblOkB T = true) (hw : T.WFInv) (fuel : Nat) (IH : AllSpecs T fuel) :
    SpecMacro T (fuel + 1) := by
  intro buf tok math st hs hb ht
  simp only [expandMacro]
  apply Post'_get_bind
  have hb' : ANE T st.latex.length (skipSpaceStopLangAct buf) := ANE_dropWhile _ hb
  cases hmac : lookupMacro st tok.txt with
  | none =>
    dsimp only
    apply Post'_bind _ _ _ (Q := fun _ s' => Fr T st s')
    · exact addUnknown_spec _ _ _ hs
    · intro _ s' hs'
      apply Post'_pure
      exact ⟨hs', (ANE_cons _ _ _).2 ⟨NE_mkAction _ _ ht, ANE_nil _⟩, hb'⟩
  | some mac =>
    dsimp only
    have hm := lookupMacro_mem _ _ _ hmac
    have hmo := hs.macros mac hm.1
    refine Post'_mono _ _ _ (IH.args _ mac tok.pos st hs hb' hmo.1 ht) ?_
    intro a s h
    exact ⟨h.1, h.2.2.2.1 hmo.2, h.2.2.1⟩

/-! ### `begin_environment` -/

private def beginTail (T : PTables) (fuel : Nat) (r : Str × Buf) (env : MacroDef) (tok : Tok) : M (List Tok × Buf) := do
  let out0 := if env.addPars then [mkFix .par tok.pos [nl, nl]] else [mkAction tok.pos]
  let a ← expandArguments T fuel r.2 env tok.pos
  if env.isEqu then
    pure (out0 ++ a.1 ++ [{ kind := .mathBegin env.remove, pos := tok.pos, txt := r.1 }], a.2)
  else if env.remove then do
    let s ← expandSequence T fuel a.2 (some r.1) []
    pure (out0 ++ a.1 ++ s.1, s.2)
  else pure (out0 ++ a.1, a.2)

private theorem beginTail_spec (fuel : Nat) (IH : AllSpecs T fuel) (st s : PState) (r : Str × Buf)
    (env : MacroDef) (tok : Tok) (hs : Fr T st s) (hr : ANE T st.latex.length r.2)
    (ht : tok.pos < st.latex.length) (henv : EnvOk T env) (hname : env.name = r.1) :
    Post' (beginTail T fuel r env tok s) (fun r st' =>
      Fr T st st' ∧ Buf3 T st.latex.length (r.1 ++ r.2)) := by
  have hl : s.latex = st.latex := hs.2
  rw [← hl] at hr ht ⊢
  have hskip := out0_skip (T := T) s.latex.length env.addPars tok.pos ht
  have hanc := out0_ANC env.addPars tok.pos
  simp only [beginTail]
  apply Post'_bind _ _ _ (Q := fun a s' => Fr T s s' ∧ Pre T s.latex.length a.1 ∧ ANE T s.latex.length a.2 ∧
    (env.handler = .none → env.repl = [] → ANC a.1))
  · refine Post'_mono _ _ _ (IH.args r.2 env tok.pos s hs.1 hr henv.1 ht) ?_
    intro a s' h
    exact ⟨h.1, h.2.1, h.2.2.1, h.2.2.2.2⟩
  · intro a s' ha
    have hl' : s'.latex = s.latex := ha.1.2
    split
    · rename_i hequ
      apply Post'_pure
      refine ⟨Fr.trans hs ha.1, Or.inl ?_⟩
      simp only [List.append_assoc]
      refine Pre_skips_append hskip (Pre_append ha.2.1 ((ANE_append _ _ _).2 ⟨?_, ha.2.2.1⟩))
      refine (ANE_cons _ _ _).2 ⟨?_, ANE_nil _⟩
      apply NE_mathBegin _ _ _ _ ht
      rw [← hname]
      exact envOk_equ env henv.2.2.2 hequ
    · split
      · rename_i hrem
        apply Post'_bind _ _ _ (Q := fun q s'' => Fr T s' s'' ∧ ANE T s'.latex.length q.2 ∧
          (ANE T s'.latex.length q.1 ∨ (ANC q.1 ∧ q.2 = [])))
        · refine Post'_mono _ _ _ (IH.seq a.2 (some r.1) [] s' ha.1.1
            (Buf3_of_ANE (by rw [hl']; exact ha.2.2.1)) ANC_nil) ?_
          intro q s'' hq
          exact ⟨hq.1, hq.2.1, hq.2.2.2⟩
        · intro q s'' hq
          rw [hl'] at hq
          apply Post'_pure
          refine ⟨Fr.trans hs (Fr.trans ha.1 hq.1), ?_⟩
          rcases hq.2.2 with h1 | ⟨h1, h2⟩
          · left
            simp only [List.append_assoc]
            exact Pre_skips_append hskip (Pre_append ha.2.1 ((ANE_append _ _ _).2 ⟨h1, hq.2.1⟩))
          · right
            have hrm := henv.2.2.1 hrem
            have ha1 : ANC a.1 := ha.2.2.2 hrm.1 hrm.2
            show ANC (_ ++ q.2)
            rw [h2]
            simp only [ANC_append]
            exact ⟨⟨⟨hanc, ha1⟩, h1⟩, ANC_nil⟩
      · apply Post'_pure
        refine ⟨Fr.trans hs ha.1, Or.inl ?_⟩
        simp only [List.append_assoc]
        exact Pre_skips_append hskip (Pre_append ha.2.1 ha.2.2.1)

theorem begin_step (hne : tblOkB T = true) (hw : T.WFInv) (fuel : Nat) (IH : AllSpecs T fuel) :
    SpecBegin T (fuel + 1) := by
  intro buf tok math st hs hb ht
  simp only [beginEnvironment]
  apply Post'_bind _ _ _ (Q := fun r s => Fr T st s ∧ ANE T st.latex.length r.2)
  · exact IH.envName buf tok st hs hb ht
  · intro r s h
    apply Post'_get_bind
    · cases henv : lookupEnv s r.1 with
      | none =>
        apply Post'_bind _ _ _ (Q := fun _ s' => Fr T st s')
        · exact Post'_mono _ _ _ (addUnknown_spec _ _ _ h.1.1) (fun _ s' h' => Fr.trans h.1 h')
        · intro _ s' hs'
          apply Post'_pure
          refine ⟨hs', Buf3_of_ANE ?_⟩
          exact (ANE_append _ _ _).2 ⟨(ANE_cons _ _ _).2 ⟨NE_mkAction _ _ ht, ANE_nil _⟩, h.2⟩
      | some env =>
        have hm := lookupEnv_mem _ _ _ henv
        dsimp only
        have heok : EnvOk T env := h.1.1.envs env hm.1
        cases hit : env.items with
        | some style =>
          dsimp only
          apply Post'_bind _ _ _ (Q := fun _ s' => Fr T st s')
          · apply Post'_modify
            exact Fr.trans h.1 ⟨StOk_congr h.1.1 rfl rfl rfl, rfl⟩
          · intro _ s' hs'
            exact beginTail_spec fuel IH st s' r env tok hs' h.2 ht heok hm.2
        | none =>
          exact beginTail_spec fuel IH st _ r env tok h.1 h.2 ht heok hm.2

/-! ### `end_environment` -/

private def endTail (T : PTables) (fuel : Nat) (r : Str × Buf) (env : MacroDef) (tok : Tok) (stop : Bool) :
    M ((List Tok × Bool) × Buf) := do
  let out0 := if env.addPars then [mkFix .par tok.pos [nl, nl]] else [mkAction tok.pos]
  if env.endFunc == .none then pure ((out0, stop), r.2)
  else do
    let h ← callHandler T fuel env.endFunc r.2 env [] tok.pos
    pure ((out0 ++ h, stop), r.2)

private theorem endTail_spec (fuel : Nat) (IH : AllSpecs T fuel) (st s : PState) (r : Str × Buf)
    (env : MacroDef) (tok : Tok) (envStop : Option Str) (hs : Fr T st s) (hr : ANE T st.latex.length r.2)
    (ht : tok.pos < st.latex.length) (henv : EnvOk T env) (hname : env.name = r.1) :
    Post' (endTail T fuel r env tok (envStop == some r.1) s) (fun r st' =>
      Fr T st st' ∧ ANE T st.latex.length r.1.1 ∧ ANE T st.latex.length r.2 ∧ (r.1.2 = true → envStop ≠ none) ∧
      (r.1.2 = true → ∀ nm, envStop = some nm → (endFuncNames T).contains nm = false → ANC r.1.1)) := by
  have hl : s.latex = st.latex := hs.2
  rw [← hl] at hr ht ⊢
  have hout := out0_ANE (T := T) s.latex.length env.addPars tok.pos ht
  have hanc := out0_ANC env.addPars tok.pos
  have hstop : (envStop == some r.1) = true → envStop ≠ none := by
    intro h1 h2
    rw [h2] at h1
    simp at h1
  simp only [endTail]
  split
  · apply Post'_pure
    exact ⟨hs, hout, hr, hstop, fun _ _ _ _ => hanc⟩
  · rename_i hef
    apply Post'_bind _ _ _ (Q := fun a s' => Fr T s s' ∧ ANE T s.latex.length a)
    · refine Post'_mono _ _ _ (IH.handler env.endFunc r.2 env [] tok.pos s hs.1 (by intro a ha; cases ha) ht) ?_
      intro a s' h
      exact ⟨h.1, h.2.1 henv.2.1⟩
    · intro a s' ha
      apply Post'_pure
      refine ⟨Fr.trans hs ha.1, ?_, hr, hstop, ?_⟩
      · exact (ANE_append _ _ _).2 ⟨hout, ha.2⟩
      · intro hst nm hnm hc
        exfalso
        apply hef
        have h1 : envStop = some r.1 := by simpa using hst
        have h0 : nm = r.1 := by
          rw [hnm] at h1
          exact Option.some.inj h1
        have h2 := envOk_endFunc env henv.2.2.2 (by rw [hname, ← h0]; exact hc)
        simp [h2]

theorem end_step (hne : tblOkB T = true) (hw : T.WFInv) (fuel : Nat) (IH : AllSpecs T fuel) :
    SpecEnd T (fuel + 1) := by
  intro buf tok envStop st hs hb ht
  simp only [endEnvironment]
  apply Post'_bind _ _ _ (Q := fun r s => Fr T st s ∧ ANE T st.latex.length r.2)
  · exact IH.envName buf tok st hs hb ht
  · intro r s h
    apply Post'_get_bind
    cases henv : lookupEnv s r.1 with
    | none =>
      apply Post'_pure
      refine ⟨h.1, (ANE_cons _ _ _).2 ⟨NE_mkAction _ _ ht, ANE_nil _⟩, h.2, ?_, ?_⟩
      · intro h1 h2
        rw [h2] at h1
        simp at h1
      · intro _ _ _ _
        exact (ANC_cons _ _).2 ⟨Skip_noCall (Skip_mkAction _) (by simp [ctlEmpty, mkAction]), ANC_nil⟩
    | some env =>
      have hm := lookupEnv_mem _ _ _ henv
      have heok : EnvOk T env := h.1.1.envs env hm.1
      dsimp only
      by_cases hc : (env.items.isSome && decide (s.itemStack.length > 1)) = true
      · rw [if_pos hc]
        apply Post'_bind _ _ _ (Q := fun _ s' => Fr T st s')
        · apply Post'_modify
          exact Fr.trans h.1 ⟨StOk_congr h.1.1 rfl rfl rfl, rfl⟩
        · intro _ s' hs'
          exact endTail_spec fuel IH st s' r env tok envStop hs' h.2 ht heok hm.2
      · rw [if_neg hc]
        exact endTail_spec fuel IH st s r env tok envStop h.1 h.2 ht heok hm.2

end NoEmpty
end Yalafi
