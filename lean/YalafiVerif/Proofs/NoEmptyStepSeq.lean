/-
  Proofs/NoEmptyStepSeq.lean — step lemmas of the NoEmpty bundle for `expandSequence`,
  `getTextExpanded`, `getEnvironmentName`.
-/
import YalafiVerif.Proofs.NoEmptyBase1
import YalafiVerif.Proofs.NoEmptyBase2
namespace Yalafi
namespace NoEmpty
open M

set_option linter.unusedVariables false

variable {T : PTables}

/-- postcondition of `SpecSeq` for entry state `st` -/
private def SeqQ (T : PTables) (st : PState) (envStop : Option Str) (r : List Tok × Buf) (st' : PState) : Prop :=
  Fr T st st' ∧ ANE T st.latex.length r.2 ∧ (envStop = none → ANC r.1) ∧
    (ANE T st.latex.length r.1 ∨ (ANC r.1 ∧ r.2 = []))

private theorem Post'_ite {α} (c : Prop) [Decidable c] (x y : M α) (st : PState) (Q : α → PState → Prop)
    (h1 : c → Post' (x st) Q) (h2 : ¬ c → Post' (y st) Q) : Post' ((if c then x else y) st) Q := by
  by_cases h : c
  · rw [if_pos h]; exact h1 h
  · rw [if_neg h]; exact h2 h

/-- the recursive call of the loop, from a state reached by a frame step -/
private theorem seq_cont {fuel : Nat} (IH : SpecSeq T fuel) {st st1 : PState}
    (hg : Fr T st st1) (buf : Buf) (envStop : Option Str) (out : List Tok)
    (hb : Buf3 T st.latex.length buf) (ho : ANC out) :
    Post' (expandSequence T fuel buf envStop out st1) (SeqQ T st envStop) := by
  have h1 : st1.latex.length = st.latex.length := hg.len
  have h := IH buf envStop out st1 hg.1 (h1 ▸ hb) ho
  refine Post'_mono _ _ _ h ?_
  rintro r s ⟨g, a, b, c⟩
  rw [h1] at a c
  exact ⟨hg.trans g, a, b, c⟩

private theorem ANC_snoc (out : List Tok) (t : Tok) (ho : ANC out) (ht : noCall t = true) : ANC (out ++ [t]) := by
  refine (ANC_append out [t]).2 ⟨ho, ?_⟩
  simp [ht]

private theorem ANC_snoc2 (out : List Tok) (t u : Tok) (ho : ANC out) (ht : noCall t = true) (hu : noCall u = true) :
    ANC (out ++ [t, u]) := by
  refine (ANC_append out [t, u]).2 ⟨ho, ?_⟩
  simp [ht, hu]

private theorem noCall_mkAction (p : Nat) : noCall (mkAction p) = true := rfl

private theorem StOk_changeParserLang (st : PState) (l : Str) (back hard : Bool) (hs : StOk T st) :
    Fr T st (changeParserLang T st l back hard) := by
  unfold changeParserLang
  split
  · split
    · exact ⟨StOk_congr hs rfl rfl rfl, rfl⟩
    · exact Fr.refl hs
  · split
    · exact ⟨StOk_congr hs rfl rfl rfl, rfl⟩
    · exact ⟨StOk_congr hs rfl rfl rfl, rfl⟩

/-! ### one lemma per branch of the loop -/

section
variable {fuel : Nat}

private theorem br_nil (st : PState) (hg : StOk T st) (envStop : Option Str) (out : List Tok) (ho : ANC out) :
    Post' ((match removeLines out with
           | some r => (pure (r, []) : M (List Tok × Buf))
           | none => M.outOfFuel) st) (SeqQ T st envStop) := by
  cases hr : removeLines out with
  | none => exact Post'_outOfFuel _ _
  | some r =>
    have h := removeLines_ANC out r ho hr
    apply Post'_pure
    exact ⟨Fr.refl hg, ANE_nil _, fun _ => h, Or.inr ⟨h, rfl⟩⟩

private theorem br_begin (IH : AllSpecs T fuel) (st : PState) (hg : StOk T st)
    (tok : Tok) (rest : Buf) (envStop : Option Str) (out : List Tok)
    (ht : W T st.latex.length tok) (hr : ANE T st.latex.length rest) (ho : ANC out) :
    Post' ((do let r ← beginEnvironment T fuel rest tok false
               expandSequence T fuel (r.1 ++ r.2) envStop out) st) (SeqQ T st envStop) := by
  refine Post'_bind _ _ _ _ _ (IH.begin_ rest tok false st hg hr ht.1) ?_
  rintro r s ⟨g, a⟩
  exact seq_cont IH.seq g _ _ _ a ho

private theorem br_end (IH : AllSpecs T fuel) (st : PState) (hg : StOk T st)
    (tok : Tok) (rest : Buf) (envStop : Option Str) (out : List Tok)
    (ht : W T st.latex.length tok) (hr : ANE T st.latex.length rest) (ho : ANC out) :
    Post' ((do let r ← endEnvironment T fuel rest tok envStop
               if r.1.2 then pure (r.1.1, r.2)
               else expandSequence T fuel (r.1.1 ++ r.2) envStop out) st) (SeqQ T st envStop) := by
  refine Post'_bind _ _ _ _ _ (IH.end_ rest tok envStop st hg hr ht.1) ?_
  rintro r s ⟨g, a, b, c, _⟩
  split
  · next hstop =>
    apply Post'_pure
    exact ⟨g, b, fun hn => absurd hn (c hstop), Or.inl a⟩
  · exact seq_cont IH.seq g _ _ _ (Buf3_of_ANE ((ANE_append _ _ _).2 ⟨a, b⟩)) ho

private theorem br_item (IH : AllSpecs T fuel) (st : PState) (hg : StOk T st)
    (tok : Tok) (rest : Buf) (envStop : Option Str) (out : List Tok)
    (ht : W T st.latex.length tok) (hr : ANE T st.latex.length rest) (ho : ANC out) :
    Post' ((do let r ← expandItem T fuel rest tok out
               expandSequence T fuel (r.1 ++ r.2) envStop out) st) (SeqQ T st envStop) := by
  refine Post'_bind _ _ _ _ _ (IH.item rest tok out st hg hr ht.1) ?_
  rintro r s ⟨g, a, b⟩
  exact seq_cont IH.seq g _ _ _ (Buf3_of_Pre (Pre_append a b)) ho

private theorem br_def (IH : AllSpecs T fuel) (st : PState) (hg : StOk T st)
    (tok : Tok) (rest : Buf) (envStop : Option Str) (out : List Tok)
    (ht : W T st.latex.length tok) (hr : ANE T st.latex.length rest) (ho : ANC out) :
    Post' ((do let r ← parseDefMacro T rest tok.pos
               expandSequence T fuel r.2 envStop (out ++ r.1)) st) (SeqQ T st envStop) := by
  refine Post'_bind _ _ _ _ _ (parseDefMacro_spec rest tok.pos st hg hr ht.1) ?_
  rintro r s ⟨g, a, b⟩
  exact seq_cont IH.seq g _ _ _ (Buf3_of_ANE b) ((ANC_append _ _).2 ⟨ho, a⟩)

private theorem br_macro (IH : AllSpecs T fuel) (st : PState) (hg : StOk T st)
    (tok : Tok) (rest : Buf) (envStop : Option Str) (out : List Tok)
    (ht : W T st.latex.length tok) (hr : ANE T st.latex.length rest) (ho : ANC out) :
    Post' ((do let r ← expandMacro T fuel rest tok false
               expandSequence T fuel (r.1 ++ r.2) envStop out) st) (SeqQ T st envStop) := by
  refine Post'_bind _ _ _ _ _ (IH.macro_ rest tok false st hg hr ht.1) ?_
  rintro r s ⟨g, a, b⟩
  exact seq_cont IH.seq g _ _ _ (Buf3_of_ANE ((ANE_append _ _ _).2 ⟨a, b⟩)) ho

private theorem br_inline (IH : AllSpecs T fuel) (st : PState) (hg : StOk T st)
    (tok : Tok) (rest : Buf) (envStop : Option Str) (out : List Tok)
    (hr : Buf3 T st.latex.length rest) (ho : ANC out) :
    Post' ((do let r ← expandInlineMath T fuel rest tok
               expandSequence T fuel r.2 envStop (out ++ r.1)) st) (SeqQ T st envStop) := by
  refine Post'_bind _ _ _ _ _ (IH.inline rest tok st hg hr) ?_
  rintro r s ⟨g, a, b⟩
  exact seq_cont IH.seq g _ _ _ b ((ANC_append _ _).2 ⟨ho, a⟩)

private theorem br_display (IH : AllSpecs T fuel) (st : PState) (hg : StOk T st)
    (tok : Tok) (rest : Buf) (envStop : Option Str) (out : List Tok) (name : Str) (rem : Bool)
    (hr : Buf3 T st.latex.length rest) (ho : ANC out)
    (hn : (endFuncNames T).contains name = false) :
    Post' ((do let r ← expandDisplayMath T fuel rest tok name rem
               expandSequence T fuel r.2 envStop (out ++ r.1)) st) (SeqQ T st envStop) := by
  refine Post'_bind _ _ _ _ _ (IH.display rest tok name rem st hg hr hn) ?_
  rintro r s ⟨g, a, b⟩
  exact seq_cont IH.seq g _ _ _ b ((ANC_append _ _).2 ⟨ho, a⟩)

private theorem mathBegin_name (n : Nat) (tok : Tok) (ht : W T n tok)
    (hk : (match tok.kind with | .mathBegin _ => true | _ => false) = true) :
    (endFuncNames T).contains tok.txt = false := by
  have h := ht.2.2.1
  cases hkk : tok.kind <;> simp only [hkk] at hk <;> first | (exact absurd hk (by decide)) | skip
  exact h _ hkk

private theorem br_dollars (IH : AllSpecs T fuel) (st : PState) (hg : StOk T st)
    (tok : Tok) (rest : Buf) (envStop : Option Str) (out : List Tok)
    (hr : Buf3 T st.latex.length rest) (ho : ANC out) :
    Post' ((match lookupEnv st T.mathDefaultEnv with
        | none => (M.fatal "no environment for '$$' or '\\['".toList : M (List Tok × Buf))
        | some env =>
          if !env.isEqu then M.fatal (reprStr env.name ++ " is not an EquEnv".toList)
          else do
            let r ← expandDisplayMath T fuel rest tok env.name env.remove
            expandSequence T fuel r.2 envStop (out ++ r.1)) st) (SeqQ T st envStop) := by
  cases henv : lookupEnv st T.mathDefaultEnv with
  | none => exact Post'_fatal _ _ _
  | some env =>
    show Post' ((if !env.isEqu then M.fatal (reprStr env.name ++ " is not an EquEnv".toList)
          else do
            let r ← expandDisplayMath T fuel rest tok env.name env.remove
            expandSequence T fuel r.2 envStop (out ++ r.1)) st) (SeqQ T st envStop)
    split
    · exact Post'_fatal _ _ _
    · next hequ =>
      have hm := (hg.envs env (lookupEnv_mem st _ env henv).1).2.2.2
      have hn : (endFuncNames T).contains env.name = false := by
        unfold envOk at hm
        simp at hequ
        simp [hequ] at hm
        simpa using hm.1.1
      exact br_display IH st hg tok rest envStop out env.name env.remove hr ho hn

private theorem br_accent (IH : AllSpecs T fuel) (st : PState) (hg : StOk T st)
    (tok : Tok) (rest : Buf) (envStop : Option Str) (out : List Tok)
    (ht : W T st.latex.length tok) (hr : ANE T st.latex.length rest) (ho : ANC out) :
    Post' ((do let r ← expandAccent T fuel rest tok
               expandSequence T fuel r.2 envStop (out ++ r.1)) st) (SeqQ T st envStop) := by
  refine Post'_bind _ _ _ _ _ (IH.accent rest tok st hg hr ht.1) ?_
  rintro r s ⟨g, a, b⟩
  exact seq_cont IH.seq g _ _ _ (Buf3_of_ANE b) ((ANC_append _ _).2 ⟨ho, a⟩)

private theorem br_newline (IH : AllSpecs T fuel) (st : PState) (hg : StOk T st)
    (tok : Tok) (rest : Buf) (envStop : Option Str) (out : List Tok)
    (hr : Buf3 T st.latex.length rest) (ho : ANC out) :
    Post' ((do let b ← parseNewlineOption T rest true
               expandSequence T fuel b envStop (out ++ [mkAction tok.pos, mkTok .space tok.pos [' ']])) st)
      (SeqQ T st envStop) := by
  refine Post'_bind _ _ _ _ _ (parseNewlineOption_spec rest true st hg hr) ?_
  rintro r s ⟨g, b⟩
  exact seq_cont IH.seq g _ _ _ b (ANC_snoc2 _ _ _ ho rfl rfl)

/-- a plain recursive call from the entry state -/
private theorem br_plain (IH : AllSpecs T fuel) (st : PState) (hg : StOk T st)
    (buf : Buf) (envStop : Option Str) (out : List Tok)
    (hr : Buf3 T st.latex.length buf) (ho : ANC out) :
    Post' (expandSequence T fuel buf envStop out st) (SeqQ T st envStop) :=
  seq_cont IH.seq (Fr.refl hg) _ _ _ hr ho

private theorem br_special (IH : AllSpecs T fuel) (st : PState) (hg : StOk T st)
    (tok : Tok) (rest : Buf) (envStop : Option Str) (out : List Tok)
    (hr : Buf3 T st.latex.length rest) (ho : ANC out) :
    Post' ((match T.toTables.specialVal tok.txt with
        | none => (M.crash "parser.py:expand_sequence:special_tokens[tok.txt]" : M (List Tok × Buf))
        | some v =>
          expandSequence T fuel rest envStop
            (out ++ [mkAction tok.pos, { kind := .text, pos := tok.pos, txt := v, fix := tok.fix }])) st)
      (SeqQ T st envStop) := by
  cases hv : T.toTables.specialVal tok.txt with
  | none => exact Post'_crash _ _ _ (by decide)
  | some v => exact br_plain IH st hg _ _ _ hr (ANC_snoc2 _ _ _ ho rfl rfl)

private theorem br_verb (IH : AllSpecs T fuel) (st : PState) (hg : StOk T st)
    (tok : Tok) (rest : Buf) (envStop : Option Str) (out : List Tok)
    (ht : W T st.latex.length tok) (hr : ANE T st.latex.length rest) (ho : ANC out) :
    Post' ((if tok.kind == .verb true then
          expandSequence T fuel (expandVerbEnvToken tok ++ rest) envStop out
        else
          expandSequence T fuel rest envStop
            (out ++ [mkAction tok.pos, { kind := .text, pos := tok.pos, txt := tok.txt, fix := tok.fix }])) st)
      (SeqQ T st envStop) := by
  split
  · next h =>
    have h' : tok.kind = .verb true := by simpa using h
    exact br_plain IH st hg _ _ _
      (Buf3_of_ANE ((ANE_append _ _ _).2 ⟨expandVerbEnvToken_ANE _ tok ht h', hr⟩)) ho
  · exact br_plain IH st hg _ _ _ (Buf3_of_ANE hr) (ANC_snoc2 _ _ _ ho rfl rfl)

private theorem lang_noCall (tok : Tok) (hc : ctlEmpty tok = true)
    (hk : (match tok.kind with | .lang .. => true | _ => false) = true) :
    noCall tok = true := by
  apply noCall_of_kind hc
  cases hkk : tok.kind <;> simp_all

private theorem br_lang (IH : AllSpecs T fuel) (st : PState) (hg : StOk T st)
    (tok : Tok) (rest : Buf) (envStop : Option Str) (out : List Tok)
    (hr : Buf3 T st.latex.length rest) (ho : ANC out) (hc : ctlEmpty tok = true)
    (hk : (match tok.kind with | .lang .. => true | _ => false) = true) :
    Post' ((if st.multiLanguage then do
          match tok.kind with
          | .lang l back hard _ => M.modify (fun s => changeParserLang T s l back hard)
          | _ => pure ()
          expandSequence T fuel rest envStop (out ++ [tok])
        else expandSequence T fuel rest envStop out) st)
      (SeqQ T st envStop) := by
  have hot : ANC (out ++ [tok]) := ANC_snoc _ _ ho (lang_noCall tok hc hk)
  split
  · split
    · next l back hard brk hkk =>
      refine Post'_bind _ _ _ (fun _ s => Fr T st s) _ ?_ ?_
      · apply Post'_modify
        exact StOk_changeParserLang st l back hard hg
      · intro _ s g
        exact seq_cont IH.seq g _ _ _ hr hot
    · exact br_plain IH st hg _ _ _ hr hot
  · exact br_plain IH st hg _ _ _ hr ho

private theorem br_active (IH : AllSpecs T fuel) (st : PState) (hg : StOk T st)
    (tok : Tok) (rest : Buf) (envStop : Option Str) (out : List Tok)
    (hr : Buf3 T st.latex.length rest) (ho : ANC out) (hk : noCall tok = true) :
    Post' (expandSequence T fuel (expandShortMacro T st tok rest).2 envStop
            (out ++ [(expandShortMacro T st tok rest).1]) st)
      (SeqQ T st envStop) := by
  have h := expandShortMacro_spec (T := T) st tok rest hk
  refine br_plain IH st hg _ _ _ ?_ (ANC_snoc _ _ ho h.1)
  rcases h.2 with h2 | h2
  · rw [h2]; exact hr
  · rw [h2, ← List.drop_one]; exact Buf3_drop 1 hr

/-- after the branches for the call classes, the token cannot start a call -/
private theorem noCall_of_not (tok : Tok) (hc : ctlEmpty tok = true)
    (h1 : ¬ (tok.kind == .xbegin) = true) (h2 : ¬ (tok.kind == .xend) = true)
    (h3 : ¬ (tok.kind == .item) = true) (h4 : ¬ (tok.kind == .xmacro) = true)
    (h5 : ¬ (match tok.kind with | .mathBegin _ => true | _ => false) = true)
    (h6 : ¬ (tok.kind == .accent) = true)
    (h8 : ¬ (match tok.kind with | .verb _ => true | _ => false) = true) :
    noCall tok = true := by
  apply noCall_of_kind hc
  cases hkk : tok.kind <;> simp_all

private theorem call_of_beq (tok : Tok) (k : Kind) (h : (tok.kind == k) = true)
    (hk : ∀ t : Tok, t.kind = k → noCall t = false) : noCall tok = false :=
  hk tok (by simpa using h)

end

/-! ### the main loop -/

theorem seq_step (hne : tblOkB T = true) (hw : T.WFInv) (fuel : Nat) (IH : AllSpecs T fuel) :
    SpecSeq T (fuel + 1) := by
  intro buf envStop out st hg hb ho
  show Post' _ (SeqQ T st envStop)
  cases buf with
  | nil =>
    rw [expandSequence.eq_2]
    exact br_nil st hg envStop out ho
  | cons tok rest =>
    have hr : Buf3 T st.latex.length rest := Buf3_tail hb
    have hc : noCall tok = false → W T st.latex.length tok ∧ ANE T st.latex.length rest := Buf3_call hb
    rw [expandSequence.eq_3]
    refine Post'_bind _ _ _ (fun a s => a = st ∧ s = st) _ (Post'_get _ _ ⟨rfl, rfl⟩) ?_
    rintro _ _ ⟨rfl, rfl⟩
    refine Post'_ite _ _ _ _ _ (fun h => ?_) (fun h1 => ?_)
    · have := hc (call_of_beq tok _ h (fun t e => by simp [noCall, e]))
      exact br_begin IH _ hg tok rest envStop out this.1 this.2 ho
    refine Post'_ite _ _ _ _ _ (fun h => ?_) (fun h2 => ?_)
    · have := hc (call_of_beq tok _ h (fun t e => by simp [noCall, e]))
      exact br_end IH _ hg tok rest envStop out this.1 this.2 ho
    refine Post'_ite _ _ _ _ _ (fun h => ?_) (fun h3 => ?_)
    · have := hc (call_of_beq tok _ h (fun t e => by simp [noCall, e]))
      exact br_item IH _ hg tok rest envStop out this.1 this.2 ho
    refine Post'_ite _ _ _ _ _ (fun h => ?_) (fun h4 => ?_)
    · have := hc (call_of_beq tok _ h (fun t e => by simp [noCall, e]))
      exact Post'_ite _ _ _ _ _
        (fun _ => br_def IH _ hg tok rest envStop out this.1 this.2 ho)
        (fun _ => br_macro IH _ hg tok rest envStop out this.1 this.2 ho)
    refine Post'_ite _ _ _ _ _ (fun hk => ?_) (fun h8 => ?_)
    · have hnc : noCall tok = false := by
        cases hkk : tok.kind <;> simp_all [noCall]
      have := hc hnc
      exact br_verb IH _ hg tok rest envStop out this.1 this.2 ho
    refine Post'_ite _ _ _ _ _ (fun _ => br_inline IH _ hg tok rest envStop out hr ho) (fun _ => ?_)
    refine Post'_ite _ _ _ _ _ (fun hk => ?_) (fun h5 => ?_)
    · have hnc : noCall tok = false := by
        cases hkk : tok.kind <;> simp_all [noCall]
      have := hc hnc
      exact br_display IH _ hg tok rest envStop out _ _ hr ho (mathBegin_name _ tok this.1 hk)
    refine Post'_ite _ _ _ _ _ (fun _ => br_dollars IH _ hg tok rest envStop out hr ho) (fun _ => ?_)
    refine Post'_ite _ _ _ _ _ (fun h => ?_) (fun h6 => ?_)
    · have := hc (call_of_beq tok _ h (fun t e => by simp [noCall, e]))
      exact br_accent IH _ hg tok rest envStop out this.1 this.2 ho
    refine Post'_ite _ _ _ _ _ (fun _ => br_newline IH _ hg tok rest envStop out hr ho) (fun _ => ?_)
    refine Post'_ite _ _ _ _ _ (fun _ =>
      br_plain IH _ hg _ _ _ hr (ANC_snoc _ _ ho (noCall_mkAction _))) (fun _ => ?_)
    refine Post'_ite _ _ _ _ _ (fun _ => br_special IH _ hg tok rest envStop out hr ho) (fun _ => ?_)
    refine Post'_ite _ _ _ _ _ (fun hk => br_lang IH _ hg tok rest envStop out hr ho (Buf3_head_ctl hb) hk) (fun _ => ?_)
    have hok : noCall tok = true := noCall_of_not tok (Buf3_head_ctl hb) h1 h2 h3 h4 h5 h6 h8
    refine Post'_ite _ _ _ _ _ (fun _ => br_active IH _ hg tok rest envStop out hr ho hok) (fun _ => ?_)
    refine Post'_ite _ _ _ _ _ (fun _ => br_plain IH _ hg _ _ _ hr ho) (fun _ => ?_)
    exact br_plain IH _ hg _ _ _ hr (ANC_snoc _ _ ho hok)

theorem text_step (hne : tblOkB T = true) (hw : T.WFInv) (fuel : Nat) (IH : AllSpecs T fuel) :
    SpecText T (fuel + 1) := by
  intro toks st hg hb
  simp only [getTextExpanded]
  apply Post'_bind _ _ _ (Q := fun _ s => Fr T st s)
  · exact Post'_mono _ _ _ (IH.seq toks none [] st hg hb ANC_nil) (fun a s h => h.1)
  · intro a s h
    exact Post'_pure _ _ _ h

theorem envName_step (hne : tblOkB T = true) (hw : T.WFInv) (fuel : Nat) (IH : AllSpecs T fuel) :
    SpecEnvName T (fuel + 1) := by
  intro buf tok st hg hb ht
  simp only [getEnvironmentName]
  apply Post'_bind _ _ _
    (Q := fun r s => Fr T st s ∧ ANE T st.latex.length r.1 ∧ ANE T st.latex.length r.2)
  · refine Post'_mono _ _ _ (argBuffer_spec buf tok.pos true st hg) ?_
    intro a s h
    exact ⟨h.1, h.2.1 hb ht⟩
  · intro r s h
    have hl : s.latex.length = st.latex.length := h.1.len
    apply Post'_bind _ _ _ (Q := fun _ s' => Fr T st s')
    · refine Post'_mono _ _ _ (IH.text r.1 s h.1.1 (by rw [hl]; exact Buf3_of_ANE h.2.1)) ?_
      intro a s' h'
      exact h.1.trans h'
    · intro a s' h'
      exact Post'_pure _ _ _ ⟨h', h.2.2⟩

end NoEmpty
end Yalafi
